(* C04 — translator ties, part 2 (session 3): functions of the model that were
   copied by hand from the Go source and are now also translated by srcgen. *)
From Sdns Require Import Common.Base Gen.C04 C04.Model.
Open Scope Z_scope.

(* CacheEntry.remaining (middleware/cache/types.go), translated from the AST:
   the model's [remaining] is that function, reading the zero time.Time of
   [cutUntil] as "no lease" (instants are ideal Z, the zero Time is 0; every
   real instant is non-zero -- trusted base).  Only the three fields the
   function reads enter the statement. *)
Definition entry_of_go (g : T_CacheEntry) : entry :=
  mk_entry 0 (T_CacheEntry_stored g) (T_CacheEntry_ttl g)
           (if T_CacheEntry_cutUntil g =? 0 then None else Some (T_CacheEntry_cutUntil g))
           false.

Lemma gen_CacheEntry_remaining : forall g now,
  go_CacheEntry_remaining g now = remaining (entry_of_go g) now.
Proof.
  intros g now. unfold go_CacheEntry_remaining, remaining, entry_of_go. cbn.
  destruct (Z.eqb_spec (T_CacheEntry_cutUntil g) 0) as [E|E]; cbn; [reflexivity|].
  destruct (Z.ltb_spec (T_CacheEntry_cutUntil g - now)
                       (T_CacheEntry_ttl g - (now - T_CacheEntry_stored g))); reflexivity.
Qed.

(* consequently the read-time expiry of the code is the model's end of life *)
Lemma gen_CacheEntry_remaining_end : forall g now,
  go_CacheEntry_remaining g now = entry_end (entry_of_go g) - now.
Proof.
  intros g now. rewrite gen_CacheEntry_remaining.
  unfold remaining, entry_end, entry_of_go. cbn.
  destruct (Z.eqb_spec (T_CacheEntry_cutUntil g) 0); cbn; [lia|].
  destruct (Z.ltb_spec (T_CacheEntry_cutUntil g - now)
                       (T_CacheEntry_ttl g - (now - T_CacheEntry_stored g))); lia.
Qed.

(* CacheEntry.IsExpired (the guard of PositiveCache.Get / NegativeCache.Get: an expired entry is
   dropped at lookup), translated with its time.Now() reading as the parameter [now] (wave 9):
   it says "expired" exactly when the model's [serve] serves nothing, i.e. from the entry's end
   of life on *)
Lemma gen_CacheEntry_IsExpired : forall g now,
  go_CacheEntry_IsExpired now g = match serve (entry_of_go g) now with None => true | Some _ => false end
  /\ (go_CacheEntry_IsExpired now g = true <-> entry_end (entry_of_go g) <= now).
Proof.
  intros g now. unfold go_CacheEntry_IsExpired, serve. rewrite gen_CacheEntry_remaining.
  split; [destruct (remaining (entry_of_go g) now <=? 0); reflexivity|].
  rewrite <- gen_CacheEntry_remaining, gen_CacheEntry_remaining_end. rewrite Z.leb_le. lia.
Qed.

(* ------------------------------------------------------------------ *)
(** * The request-tree bound: ResponseMeta.BoundCutFor / Cut / CutUntil / BoundCut
      (middleware/chain.go), translated from the AST (mutex calls are no-ops:
      the fold is one atomic step under cutMu). *)
From Sdns Require Import C04.Run.

(* a Go instant as the model's optional deadline: the zero time.Time is "unbounded" *)
Definition oz_of_go (z : Z) : option Z := if z =? 0 then None else Some z.

(* the model's [bound] IS the generated BoundCutFor, read through CutUntil:
   zero deadlines are ignored, the first non-zero one is taken, afterwards only
   an earlier one replaces it -- a min-only fold, whatever the keys are *)
Lemma gen_bound_cut_for : forall m d k,
  oz_of_go (go_ResponseMeta_CutUntil (go_ResponseMeta_BoundCutFor m d k))
  = bound (oz_of_go (go_ResponseMeta_CutUntil m)) (oz_of_go d).
Proof.
  intros m d k.
  unfold go_ResponseMeta_CutUntil, go_ResponseMeta_Cut, go_ResponseMeta_BoundCutFor, oz_of_go, bound. cbn.
  set (c := T_responseCut_deadline (T_ResponseMeta_cut m)).
  destruct (Z.eqb_spec d 0) as [Hd|Hd]; cbn; [reflexivity|].
  destruct (Z.eqb_spec c 0) as [Hc|Hc]; cbn.
  - destruct (Z.eqb_spec d 0); [contradiction|reflexivity].
  - destruct (Z.ltb_spec d c); cbn.
    + destruct (Z.eqb_spec d 0); [contradiction|reflexivity].
    + fold c. destruct (Z.eqb_spec c 0); [contradiction|reflexivity].
Qed.

(* the key follows the deadline: the pair is replaced whole exactly when the
   deadline is, never otherwise (an identified cut does not displace an earlier
   anonymous bound) *)
Lemma gen_bound_cut_for_key : forall m d k,
  let c := fst (go_ResponseMeta_Cut m) in
  go_ResponseMeta_Cut (go_ResponseMeta_BoundCutFor m d k)
  = if negb (d =? 0) && ((c =? 0) || (d <? c)) then (d, k) else go_ResponseMeta_Cut m.
Proof.
  intros m d k. unfold go_ResponseMeta_Cut, go_ResponseMeta_BoundCutFor. cbn.
  destruct (Z.eqb_spec d 0); cbn; [reflexivity|].
  destruct (Z.eqb_spec (T_responseCut_deadline (T_ResponseMeta_cut m)) 0); cbn; [reflexivity|].
  destruct (Z.ltb_spec d (T_responseCut_deadline (T_ResponseMeta_cut m))); reflexivity.
Qed.

(* min-only: a bound once set never moves later and never disappears *)
Lemma gen_bound_cut_min_only : forall m d k,
  let c := go_ResponseMeta_CutUntil m in
  let c' := go_ResponseMeta_CutUntil (go_ResponseMeta_BoundCutFor m d k) in
  c <> 0 -> c' <> 0 /\ c' <= c /\ (d <> 0 -> c' <= d).
Proof.
  intros m d k. unfold go_ResponseMeta_CutUntil. rewrite gen_bound_cut_for_key.
  unfold go_ResponseMeta_Cut. cbn. intros Hc.
  destruct (Z.eqb_spec d 0); cbn; [lia|].
  destruct (Z.eqb_spec (T_responseCut_deadline (T_ResponseMeta_cut m)) 0); cbn; [contradiction|].
  destruct (Z.ltb_spec d (T_responseCut_deadline (T_ResponseMeta_cut m))); cbn; lia.
Qed.

Lemma gen_bound_cut : forall m d, go_ResponseMeta_BoundCut m d = go_ResponseMeta_BoundCutFor m d 0%N.
Proof. reflexivity. Qed.

(* any sequence of folds of the code is the model's fold_bounds *)
Lemma gen_bound_cut_fold : forall (l : list (Z * N)) m,
  oz_of_go (go_ResponseMeta_CutUntil
              (fold_left (fun m dk => go_ResponseMeta_BoundCutFor m (fst dk) (snd dk)) l m))
  = fold_bounds (oz_of_go (go_ResponseMeta_CutUntil m)) (map (fun dk => oz_of_go (fst dk)) l).
Proof.
  induction l as [|[d k] l IH]; intros m; [reflexivity|].
  simpl fold_left. simpl map. rewrite IH. unfold fold_bounds. simpl fold_left.
  rewrite gen_bound_cut_for. reflexivity.
Qed.

(* non-trivial instance: an anonymous early bound (a cache hit, key 0) followed by
   a later keyed delegation lease keeps the early deadline and its key *)
Example bound_cut_keeps_anonymous_early_bound :
  let m0 := mk_T_ResponseMeta (mk_T_responseCut 0 0%N) (mk_T_RecursionWorkPolicy 0 0 0 0 0 0 0 0 0)%N in
  let m1 := go_ResponseMeta_BoundCutFor m0 6500 0%N in
  let m2 := go_ResponseMeta_BoundCutFor m1 60000 102%N in
  go_ResponseMeta_Cut m2 = (6500, 0%N).
Proof. reflexivity. Qed.

(* ------------------------------------------------------------------ *)
(** * Lineage folding of a sub-query: subQueryLineage.inherit (middleware/cache/cache.go),
      translated from the AST (session 5; `nonnil_pointers`: the translation describes
      the method on a lineage whose child meta exists -- a sub-query that ran; with a nil
      child the Go method returns at once and nothing is folded, which is the model's
      "not used" branch).  The model's [chase] writes `bound meta child` where the code
      calls `lineage.inherit()`. *)

Definition lin_parent (l : T_subQueryLineage) : option Z :=
  oz_of_go (go_ResponseMeta_CutUntil (T_subQueryLineage_parent l)).
Definition lin_child (l : T_subQueryLineage) : option Z :=
  oz_of_go (go_ResponseMeta_CutUntil (T_subQueryLineage_child l)).

(* the first call folds the child's bound into the parent exactly as the model's [bound]
   does; the child is left alone; the flag is set *)
Lemma gen_lineage_inherit : forall l,
  let l' := go_subQueryLineage_inherit l in
  lin_parent l' = (if T_subQueryLineage_inherited l then lin_parent l else bound (lin_parent l) (lin_child l))
  /\ T_subQueryLineage_child l' = T_subQueryLineage_child l
  /\ T_subQueryLineage_inherited l' = true.
Proof.
  intros l. unfold go_subQueryLineage_inherit. cbn.
  destruct (T_subQueryLineage_inherited l) eqn:E; cbn.
  - rewrite E. repeat split; reflexivity.
  - repeat split. unfold lin_parent, lin_child. cbn.
    change (T_responseCut_deadline (T_ResponseMeta_cut (T_subQueryLineage_child l)))
      with (go_ResponseMeta_CutUntil (T_subQueryLineage_child l)).
    apply gen_bound_cut_for.
Qed.

(* idempotent (the code's `inherited` flag): a terminal denial that is consumed by the generic
   merge and again by the branch adopting its rcode folds once -- and the model, which has no
   flag, may write the fold twice, because [bound] is idempotent in its second argument *)
Lemma gen_lineage_inherit_idem : forall l,
  go_subQueryLineage_inherit (go_subQueryLineage_inherit l) = go_subQueryLineage_inherit l.
Proof.
  intros l. unfold go_subQueryLineage_inherit at 1.
  destruct (gen_lineage_inherit l) as (_ & _ & Hf). cbn in Hf. rewrite Hf. reflexivity.
Qed.

Lemma bound_twice m c : bound (bound m c) c = bound m c.
Proof.
  unfold bound. destruct m as [a|], c as [b|]; cbn; try reflexivity.
  - destruct (Z.ltb_spec b a); cbn; [rewrite Z.ltb_irrefl; reflexivity|].
    destruct (Z.ltb_spec b a); [lia|reflexivity].
  - rewrite Z.ltb_irrefl. reflexivity.
Qed.

(* the parent only moves earlier, and ends up no later than the child's bound *)
Lemma gen_lineage_inherit_min : forall l d,
  T_subQueryLineage_inherited l = false ->
  lin_child l = Some d ->
  exists p, lin_parent (go_subQueryLineage_inherit l) = Some p /\ p <= d
            /\ (forall p0, lin_parent l = Some p0 -> p <= p0).
Proof.
  intros l d Hi Hc. destruct (gen_lineage_inherit l) as (Hp & _ & _). cbn in Hp.
  rewrite Hi, Hc in Hp. rewrite Hp. unfold bound.
  destruct (lin_parent l) as [a|]; cbn.
  - destruct (Z.ltb_spec d a); eexists; (split; [reflexivity|]); split; try lia; intros p0 [= <-]; lia.
  - eexists. split; [reflexivity|]. split; [lia|]. intros p0 [=].
Qed.

Example lineage_inherit_example :
  let wp := (mk_T_RecursionWorkPolicy 0 0 0 0 0 0 0 0 0)%N in
  let parent := mk_T_ResponseMeta (mk_T_responseCut 9000 7%N) wp in
  let child := mk_T_ResponseMeta (mk_T_responseCut 6500 0%N) wp in
  let l1 := go_subQueryLineage_inherit (mk_T_subQueryLineage parent child false) in
  go_ResponseMeta_Cut (T_subQueryLineage_parent l1) = (6500, 0%N)
  /\ go_subQueryLineage_inherit l1 = l1
  /\ go_ResponseMeta_Cut (T_subQueryLineage_parent
        (go_subQueryLineage_inherit (mk_T_subQueryLineage parent child true))) = (9000, 7%N).
Proof. repeat split; reflexivity. Qed.
