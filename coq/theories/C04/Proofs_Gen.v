(* C04 — translator ties, part 2 (session 3): functions of the model that were
   copied by hand from the Go source and are now also translated by srcgen. *)
From Sdns Require Import Common.Base Gen.C04 C04.Model.
Open Scope Z_scope.

(* CacheEntry.remaining (middleware/cache/types.go), translated from the AST:
   the model's [remaining] is that function, reading the zero time.Time of
   [cutUntil] as "no lease" (instants are ideal Z, the zero Time is 0; every
   real instant is non-zero -- trusted base).  Only the three fields the
   function reads enter the statement. *)
Definition entry_of_go (g : T_CacheEntry) : entry :=
  mk_entry 0 (T_CacheEntry_stored g) (T_CacheEntry_ttl g)
           (if T_CacheEntry_cutUntil g =? 0 then None else Some (T_CacheEntry_cutUntil g))
           false.

Lemma gen_CacheEntry_remaining : forall g now,
  go_CacheEntry_remaining g now = remaining (entry_of_go g) now.
Proof.
  intros g now. unfold go_CacheEntry_remaining, remaining, entry_of_go. cbn.
  destruct (Z.eqb_spec (T_CacheEntry_cutUntil g) 0) as [E|E]; cbn; [reflexivity|].
  destruct (Z.ltb_spec (T_CacheEntry_cutUntil g - now)
                       (T_CacheEntry_ttl g - (now - T_CacheEntry_stored g))); reflexivity.
Qed.

(* consequently the read-time expiry of the code is the model's end of life *)
Lemma gen_CacheEntry_remaining_end : forall g now,
  go_CacheEntry_remaining g now = entry_end (entry_of_go g) - now.
Proof.
  intros g now. rewrite gen_CacheEntry_remaining.
  unfold remaining, entry_end, entry_of_go. cbn.
  destruct (Z.eqb_spec (T_CacheEntry_cutUntil g) 0); cbn; [lia|].
  destruct (Z.ltb_spec (T_CacheEntry_cutUntil g - now)
                       (T_CacheEntry_ttl g - (now - T_CacheEntry_stored g))); lia.
Qed.
