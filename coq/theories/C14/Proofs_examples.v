(* C14 — examples: the hypotheses of the property theorems are satisfiable by
   non-trivial inputs, and the models compute the published values. *)
From Coq Require Import Sorting.Sorted Sorting.Permutation.
From Sdns Require C02.Model C02.Proofs_Gen.
From Sdns Require Import Common.Base Common.GoList Gen.C14 C14.Model C14.Run
  C14.Proofs_rsa C14.Proofs_keytag C14.Proofs_rsamd5 C14.Proofs_canon C14.Proofs_verify C14.Proofs_offset C14.Proofs_walk C14.Proofs_loops C14.Proofs_synth C14.Proofs_ds C14.Proofs_sig C14.Proofs_match.
Open Scope N_scope.

(* the root zone's KSK-2017: flags 257, protocol 3, algorithm 8; its published key tag is 20326 *)
Definition root_ksk_2017 : list N :=
  bs "AwEAAaz/tAm8yTn4Mfeh5eyI96WSVexTBAvkMgJzkKTOiW1vkIbzxeF3+/4RgWOq7HrxRixHlFlExOLAJr5emLvN7SWXgnLh4+B5xQlNVz8Og8kvArMtNROxVQuCaSnIDdD5LKyWbRd2n9WGe2R8PzgCmr3EgVLrjyBxWezF0jLHwVN8efS3rCj/EWgvIWgb9tarpVUDK/b58Da+sqqls3eNbuv7pr+eoZG+SrDK6nWeL3c6H5Apxz7LjVc1uTIdsIXxuOLYA4/ilBmSVIzuDWfdRUfhHdY6+cn8HFRm+2hM8AnXGXws9555KrUB5qihylGa8subX2Nn6UwNR1AkUTV74bU=".
Example keytag_root_ksk : keytag 257 3 8 root_ksk_2017 = 20326 /\ keytag_lib 257 3 8 root_ksk_2017 = Some 20326.
Proof. vm_compute. split; reflexivity. Qed.
(* two decode chunks (344 characters), the same key wrapped at 64 columns, and the revoked flag *)
Example keytag_root_ksk_wrapped :
  let wrapped := flat_map (fun c => c ++ [10]) (chunks 64 root_ksk_2017) in
  keytag 257 3 8 wrapped = 20326 /\ keytag 385 3 8 root_ksk_2017 = 20326 + 128.
Proof. vm_compute. split; reflexivity. Qed.
(* its RSA parameters: e = 65537, a 2048-bit modulus, usable *)
Example rsa_root_ksk :
  match parse_rsa root_ksk_2017 with
  | Some (n, e) => e = 65537 /\ bits n = 2048 /\ usable_rsa n e = true
  | None => False
  end.
Proof. vm_compute. repeat split; reflexivity. Qed.

(* RSAMD5: three octets give a tag, two give none (and crash the library) *)
Example rsamd5_examples :
  rsamd5_keytag (bs "AQID") = 258 /\ keytag_lib 0 0 1 (bs "AQID") = Some 258 /\
  rsamd5_keytag (bs "AQI=") = 0 /\ keytag_lib 0 0 1 (bs "AQI=") = None.
Proof. vm_compute. repeat split; reflexivity. Qed.

(* RFC 3110 round trip on the wide exponent 2^32 + 1 *)
Example rsa_roundtrip_wide : parse_rsa_bytes (encode_rsa 4294967297 (2 ^ 1024 + 7)) = Some (2 ^ 1024 + 7, 4294967297).
Proof. apply parse_encode_rsa; [discriminate | discriminate | vm_compute; reflexivity]. Qed.

(* a textbook PKCS#1 v1.5 verification over N (n = 2^521 - 1 times 2^607 - 1 is not needed: any modulus works for the equation) *)
Example rsa_verify_small :
  let n := 3233 * 1000003 * 1000033 * 1000037 * 1000039 * 1000081 * 1000099 * 1000117 * 1000121 * 1000133 in
  rsa_verify n 17 [] [1; 2; 3] (i2osp ((bits n + 7) / 8) 5) = false.
Proof. vm_compute. reflexivity. Qed.

(* canonical form: three A records arriving out of order with a repetition *)
Example canon_example :
  let a1 := [1; 97; 0; 0; 1; 0; 1; 0; 0; 0; 60; 0; 4; 10; 0; 0; 2] in
  let a2 := [1; 97; 0; 0; 1; 0; 1; 0; 0; 0; 60; 0; 4; 10; 0; 0; 1] in
  canon 13 [a1; a2; a1] = [a2; a1] /\ canon 13 [a2; a1] = [a2; a1] /\ key_inj 13 [a1; a2; a1].
Proof.
  cbn zeta. split; [vm_compute; reflexivity|]. split; [vm_compute; reflexivity|].
  apply same_front_key_inj. intros a b Ha Hb. cbn in Ha, Hb.
  destruct Ha as [<-|[<-|[<-|[]]]]; destruct Hb as [<-|[<-|[<-|[]]]]; reflexivity.
Qed.

(* an NS RRset under a wildcard expansion: owner rebuilt, names folded, sorted by RDATA *)
Example canonical_rrset_example :
  let rrset := [ mk_rr (bs "A.b.Example.") 2 1 300 (bs "NS") [FName (bs "NS2.example.")];
                 mk_rr (bs "A.b.Example.") 2 1 300 (bs "NS") [FName (bs "ns1.Example.")];
                 mk_rr (bs "A.b.Example.") 2 1 300 (bs "NS") [FName (bs "ns2.EXAMPLE.")] ] in
  is_rrset rrset = true /\
  canonical_rrset rrset 1 3600 =
    inr (hx "012a076578616d706c6500" ++ hx "0002000100000e10" ++ hx "000d" ++ hx "036e7331076578616d706c6500" ++
         hx "012a076578616d706c6500" ++ hx "0002000100000e10" ++ hx "000d" ++ hx "036e7332076578616d706c6500").
Proof. vm_compute. split; reflexivity. Qed.

(* binding: a satisfiable instance of the theorem's hypotheses *)
Example binding_example :
  let k := mk_key (bs "Example.") 1 257 3 15 (bs "l02Woi0iS8Aa25FQkUd9RMzZHJpBoRQwAQEX1SxZJA4=") in
  let s := mk_sig (bs "www.example.") 1 1 15 2 300 2100000000 1500000000 (key_tag k) (bs "EXAMPLE.") [] in
  let rrset := [mk_rr (bs "WWW.example.") 1 1 300 (bs "A") [FBytes [192; 0; 2; 1]]] in
  signature_binding k s rrset = E_OK /\ lib_preflight k s rrset = Some true /\ is_fqdn (k_name k) = true.
Proof. vm_compute. repeat split; reflexivity. Qed.

(* the label bound of the binding theorem is needed: 302 labels, Labels = 100 *)
Example binding_needs_label_bound :
  let owner := concat (repeat [97; 46] 302) in
  let k := mk_key [97; 46] 1 256 3 15 [] in
  let s := mk_sig owner 1 1 15 100 0 0 0 (key_tag k) [97; 46] [] in
  let rrset := [mk_rr owner 1 1 0 [65] []] in
  signature_binding k s rrset = E_OK /\ lib_preflight k s rrset = Some false.
Proof. vm_compute. split; reflexivity. Qed.

(* the message walk: a DNAME of the zone with the CNAME synthesised from it (unsigned), a signed A
   RRset, an unsigned NS set and a referral remnant in the authority section.  The elliptic oracle
   is the constant "valid": the example is about the walk, not about Ed25519. *)
Definition walk_example_key : dnskey := mk_key (bs "Example.") 1 257 3 15 (bs "l02Woi0iS8Aa25FQkUd9RMzZHJpBoRQwAQEX1SxZJA4=").
Definition walk_example_sig (owner : list N) (covered labels : N) : rrsig :=
  mk_sig owner 1 covered 15 labels 300 2100000000 1500000000 (key_tag walk_example_key) (bs "EXAMPLE.")
         (bs "AAAAAAAAAAAAAAAAAAAAAAAAAAAAAAAAAAAAAAAAAAAAAAAAAAAAAAAAAAAAAAAAAAAAAAAAAAAAAAAAAAAAAA==").
Definition walk_example_dname : rr := mk_rr (bs "D.example.") 39 1 300 (bs "DNAME") [FName (bs "t.net.")].
Definition walk_example_cname : rr := mk_rr (bs "x.d.Example.") 5 1 300 (bs "CNAME") [FName (bs "X.t.net")].
Definition walk_example_a : rr := mk_rr (bs "WWW.example.") 1 1 300 (bs "A") [FBytes [192; 0; 2; 1]].
Definition walk_example_answer : list mitem :=
  [MR walk_example_dname; MS (walk_example_sig (bs "d.example.") 39 2) true; MR walk_example_cname;
   MR walk_example_a; MS (walk_example_sig (bs "www.EXAMPLE.") 1 2) true].
Definition walk_example_ns : list mitem :=
  [MR (mk_rr (bs "example.") 2 1 300 (bs "NS") [FName (bs "ns.example.")]);
   MR (mk_rr (bs "other.invalid.") 2 1 60 (bs "NS") [FName (bs "ns.other.invalid.")])].
Example walk_example_accepted :
  let H := fun (_ : N) (_ : list N) => @nil N in
  let F2 := fun (_ : N) (_ : list N) => false in
  let F4 := fun (_ : N) (_ _ _ : list N) => false in
  let EDV := fun (_ _ _ : list N) => true in
  let keys := [(key_tag walk_example_key, [walk_example_key])] in
  verify_rrsig H F2 F4 EDV (fun _ _ _ => 5) (bs "example") keys walk_example_answer walk_example_ns = true /\
  walk_records (bs "example") walk_example_answer walk_example_ns = [walk_example_dname; walk_example_a] /\
  is_synthesized_cname (r_name walk_example_cname) (rr_target walk_example_cname) [(bs "D.example.", bs "t.net.")] = true /\
  is_synthesized_cname_spec (r_name walk_example_cname) (rr_target walk_example_cname) [(bs "D.example.", bs "t.net.")] = true /\
  compare_suffix (bs "D.example.") (bs "x.d.Example.") = 2 /\
  (* without the A RRset's signature the message is refused; a foreign answer record is fatal *)
  verify_rrsig H F2 F4 EDV (fun _ _ _ => 5) (bs "example") keys (removelast walk_example_answer) walk_example_ns = false /\
  verify_rrsig H F2 F4 EDV (fun _ _ _ => 5) (bs "example") keys
    (walk_example_answer ++ [MR (mk_rr (bs "evilexample.") 1 1 60 (bs "A") [FBytes [192; 0; 2; 9]])]) walk_example_ns = false.
Proof. vm_compute. repeat split; reflexivity. Qed.
Example walk_verdict_example :
  walk_verdict (fun set s v => v && (len set =? 1)%N) (bs "example") walk_example_answer walk_example_ns = true.
Proof. vm_compute. reflexivity. Qed.

(* the translated loops on small inputs *)
Example keytag_loop_example :
  go_KeyTag_loop2_run 7 [1; 2; 3; 9] 3%Z = (GoNext, ((7 + 1 * 256 + 2 + 3 * 256)%N, [1; 2; 3; 9], 3%Z)).
Proof. vm_compute. reflexivity. Qed.
Example rsamd5_tail_example :
  go_rsamd5KeyTag_loop2_run [5; 6; 7; 8; 9] [0; 0; 0] 0%Z 4%Z = (GoNext, ([5; 6; 7; 8; 9], [6; 7; 8], 3%Z, 4%Z)).
Proof. vm_compute. reflexivity. Qed.
Example fill_chunk_example :
  go_fillKeyTagChunk 9 [0; 0; 0] [65; 10; 66; 13; 10; 67; 68] = Some (3%Z, 6%Z).
Proof. vm_compute. reflexivity. Qed.
Example wire_offset_example :
  go_wireRdataOffset 30 (hx "03777777076578616d706c6500" ++ hx "00010001000000050004c0000201") = Some (23%Z, true).
Proof. vm_compute. reflexivity. Qed.
Example dedup_example :
  go_canonicalRRset_loop3_run [[1]; [1]; [2]; [1]] [] = (GoNext, ([[1]; [1]; [2]; [1]], [1; 2; 1])).
Proof. vm_compute. reflexivity. Qed.
Example pkcs1_ff_example :
  go_rsaVerifyPKCS1v15_loop1_run 20 8%Z 2%Z [0; 1; 0; 0; 0; 0; 0; 0] = (GoNext, (8%Z, 2%Z, [0; 1; 255; 255; 255; 0; 0; 0], 5%Z)).
Proof. vm_compute. reflexivity. Qed.
Example name_in_zone_example :
  go_NameInZone 40 (bs "foo\.example.com.") (bs "example.com.") = Some false /\
  go_NameInZone 40 (bs "foo.example.com.") (bs "example.com.") = Some true /\
  go_NameInZone 40 (bs "foo\\.example.com.") (bs "example.com.") = Some true.
Proof. vm_compute. repeat split; reflexivity. Qed.

(* the hypotheses of the two "left alone" theorems hold for the authority records of the example, and
   an in-zone, non-NS authority record is not left alone *)
Example walk_remnant_example :
  walk_in_zone (bs "example") (mk_rr (bs "other.invalid.") 2 1 60 (bs "NS") [FName (bs "ns.other.invalid.")]) = false /\
  walk_verdict (fun set s v => v) (bs "example") walk_example_answer
    (walk_example_ns ++ [MR (mk_rr (bs "sub.example.") 16 1 60 (bs "TXT") [FBytes [1; 120]])]) = false /\
  walk_verdict (fun set s v => v) (bs "example") walk_example_answer walk_example_ns = true.
Proof. vm_compute. repeat split; reflexivity. Qed.

(* escape-free names satisfy the hypotheses of compare_suffix_counts_shared_labels *)
Example compare_suffix_plain_example :
  let a := [bs "www"; bs "Example"; bs "com"] in
  let b := [bs "mail"; bs "example"; bs "COM"] in
  C02.Proofs_Gen.plain_name a /\ C02.Proofs_Gen.plain_name b /\
  C02.Proofs_Gen.present a = bs "www.Example.com." /\
  compare_suffix (C02.Proofs_Gen.present a) (C02.Proofs_Gen.present b) = 2.
Proof.
  cbv zeta. split; [|split; [|split; vm_compute; reflexivity]];
  repeat (apply Forall_cons; [split; [discriminate | split; vm_compute; intuition discriminate]|]); apply Forall_nil.
Qed.

(* the hypotheses of synthesised_cname_translation_is_the_dname_substitution hold for the example's names, and both sides are true *)
Example synth_translation_example :
  let o := [bs "x"; bs "d"; bs "Example"] in
  let ds := [([bs "other"; bs "example"], bs "u.net."); ([bs "D"; bs "example"], bs "t.net.")] in
  C02.Proofs_Gen.plain_name o /\ Forall (fun d => C02.Proofs_Gen.plain_name (fst d)) ds /\
  C02.Proofs_Gen.present o = bs "x.d.Example." /\
  is_synthesized_cname (C02.Proofs_Gen.present o) (bs "X.t.net") (map present_d ds) = true /\
  existsb (synth_one o (bs "X.t.net")) ds = true /\
  is_synthesized_cname (C02.Proofs_Gen.present [bs "d"; bs "Example"]) (bs "t.net.") (map present_d ds) = false.
Proof.
  cbv zeta.
  assert (PL : forall l, forallb (fun c => negb (c =? 46)%N && negb (c =? 92)%N) l = true -> l <> [] -> C02.Proofs_Gen.plain_label l).
  { intros l H Hne. split; [exact Hne|]. rewrite forallb_forall in H.
    split; intros Hin; specialize (H _ Hin); cbn in H; discriminate. }
  repeat split; try (vm_compute; reflexivity);
  repeat (apply Forall_cons || apply Forall_nil || (apply PL; [vm_compute; reflexivity | discriminate])).
Qed.

(* ------------------------------------------------------------------ DS side *)
(* a hash oracle that answers 32 octets 0x07 for SHA-256 and nothing else; an Ed25519-sized zone key *)
Definition ds_ex_H (hid : N) (_ : list N) : list N := if hid =? HSHA256 then repeat 7 32 else [].
Definition ds_ex_key : dnskey := mk_key (bs "Example.") 1 257 3 15 (bs "BwgJCgsMDQ4PEBESExQVFhcYGRobHB0eHyAhIiMkJSY=").
Definition ds_ex_tag : N := key_tag ds_ex_key.
Definition ds_ex_digest : list N := bs "0707070707070707070707070707070707070707070707070707070707070707".
Definition ds_ex_good : ds := mk_ds (bs "example.") 1 ds_ex_tag 15 2 ds_ex_digest.
Definition ds_ex_wrong : ds := mk_ds (bs "example.") 1 ds_ex_tag 15 2 (bs "0807070707070707070707070707070707070707070707070707070707070707").
Definition ds_ex_wide : ds := mk_ds (bs "example.") 1 ds_ex_tag 15 2 (ds_ex_digest ++ ds_ex_digest ++ bs "00").
Definition ds_ex_other_tag : ds := mk_ds (bs "example.") 1 (ds_ex_tag + 1) 15 2 ds_ex_digest.
Definition ds_ex_gost : ds := mk_ds (bs "example.") 1 ds_ex_tag 15 3 ds_ex_digest.
Definition ds_ex_km : list (N * list dnskey) := [(ds_ex_tag, [ds_ex_key; ds_ex_key])].

(* accepted whatever the order and repetition of the set (a 65-octet digest in front of the genuine
   record included); the three errors; the keys vouched for; the hypotheses of the DS theorems hold *)
Example ds_example :
  verify_ds_code ds_ex_H ds_ex_km [ds_ex_wide; ds_ex_wrong; ds_ex_good; ds_ex_wrong] = (false, 0) /\
  verify_ds_code ds_ex_H ds_ex_km [ds_ex_good; ds_ex_wide] = (false, 0) /\
  verify_ds ds_ex_H ds_ex_km [ds_ex_wide; ds_ex_wrong; ds_ex_good] = (false, true) /\
  ds_matched_keys ds_ex_H ds_ex_km [ds_ex_wrong; ds_ex_good] = [(ds_ex_tag, [ds_ex_key])] /\
  ds_matched_keys ds_ex_H ds_ex_km [ds_ex_wrong; ds_ex_wide] = [] /\
  verify_ds_code ds_ex_H ds_ex_km [ds_ex_wide] = (false, 2) /\
  (* which error: the one of the record that sorts last, in either order of the input *)
  verify_ds_code ds_ex_H ds_ex_km [ds_ex_wrong; ds_ex_other_tag] = (false, 1) /\
  verify_ds_code ds_ex_H ds_ex_km [ds_ex_other_tag; ds_ex_wrong] = (false, 1) /\
  verify_ds_code ds_ex_H ((ds_ex_tag + 1, []) :: ds_ex_km) [ds_ex_other_tag; ds_ex_wrong] = (false, 1) /\
  verify_ds_code ds_ex_H ds_ex_km [ds_ex_gost; ds_ex_gost] = (true, 3) /\
  verify_ds_code ds_ex_H ds_ex_km [] = (false, 1) /\
  ds_digest_matches ds_ex_H ds_ex_key 2 (repeat 7 32) = true /\
  forallb (fun d => is_fqdn (d_name d)) [ds_ex_wide; ds_ex_wrong; ds_ex_good; ds_ex_other_tag; ds_ex_gost] = true.
Proof. vm_compute. repeat split; reflexivity. Qed.

(* the hypothesis of ds_set_order_and_repetition_only_select_the_error is needed: a DS whose owner is
   not fully qualified has the identity of its fully-qualified twin, is kept as the first of the two,
   and is no candidate match for the key — VerifyDS then reports ErrMissingKSK although the twin alone
   would be accepted (stricter; replayed on the Go code as the corpus entry `ds_probe`, CaseDSProbe) *)
Definition ds_ex_relative : ds := mk_ds (bs "example") 1 ds_ex_tag 15 2 ds_ex_digest.
Example ds_order_needs_fqdn_owners :
  verify_ds ds_ex_H ds_ex_km [ds_ex_relative; ds_ex_good] = (false, true) /\
  verify_ds_code ds_ex_H ds_ex_km [ds_ex_relative; ds_ex_good] = (false, 1) /\
  verify_ds_code ds_ex_H ds_ex_km [ds_ex_good; ds_ex_relative] = (false, 0).
Proof. vm_compute. repeat split; reflexivity. Qed.

(* ---------------------------------------------------------------- RRSIG side, in order *)
(* two more keys with the tag, algorithm, flags and owner of the example key: one with two words of the material
   exchanged (a well-formed Ed25519 key), one with a zero word appended (34 octets: not an Ed25519 key).  The oracle
   accepts under a key whose material begins with 0x97 only. *)
Definition sig_ex_twin : dnskey := mk_key (bs "Example.") 1 257 3 15 (bs "lqKXTS0iS8Aa25FQkUd9RMzZHJpBoRQwAQEX1SxZJA4=").
Definition sig_ex_long : dnskey := mk_key (bs "Example.") 1 257 3 15 (bs "l02Woi0iS8Aa25FQkUd9RMzZHJpBoRQwAQEX1SxZJA4AAA==").
Definition sig_ex_tag : N := key_tag walk_example_key.
Definition sig_ex_H := fun (_ : N) (_ : list N) => @nil N.
Definition sig_ex_F2 := fun (_ : N) (_ : list N) => false.
Definition sig_ex_F4 := fun (_ : N) (_ _ _ : list N) => false.
Definition sig_ex_EDV := fun (pub _ _ : list N) => match pub with 151 :: _ => true | _ => false end.
Definition sig_ex_none := fun (_ _ _ : list N) => false.
Definition sig_ex_LIBV := fun (_ : dnskey) (_ : rrsig) (_ : list rr) => 5.
Definition sig_ex_good : rrsig := walk_example_sig (bs "www.EXAMPLE.") 1 2.
Definition sig_ex_labels : rrsig := walk_example_sig (bs "www.EXAMPLE.") 1 9.
Definition sig_ex_alg : rrsig :=
  mk_sig (bs "www.example.") 1 1 16 2 300 2100000000 1500000000 sig_ex_tag (bs "EXAMPLE.") (s_signature sig_ex_good).
Definition sig_ex_old : rrsig :=
  mk_sig (bs "www.example.") 1 1 15 2 300 1600000000 1500000000 sig_ex_tag (bs "example.") (s_signature sig_ex_good).

Example one_sig_code_example :
  let one := verify_one_sig_code sig_ex_H sig_ex_F2 sig_ex_F4 in
  key_tag sig_ex_twin = sig_ex_tag /\ key_tag sig_ex_long = sig_ex_tag /\
  (* accepted whatever the order and repetition of the bucket *)
  one sig_ex_EDV sig_ex_LIBV [(sig_ex_tag, [sig_ex_long; sig_ex_twin; walk_example_key; sig_ex_twin])] [walk_example_a] sig_ex_good true = 0 /\
  one sig_ex_EDV sig_ex_LIBV [(sig_ex_tag, [walk_example_key; sig_ex_long])] [walk_example_a] sig_ex_good true = 0 /\
  verify_one_sig sig_ex_H sig_ex_F2 sig_ex_F4 sig_ex_EDV sig_ex_LIBV [(sig_ex_tag, [sig_ex_long; sig_ex_twin; walk_example_key])] [walk_example_a] sig_ex_good true = true /\
  (* no key verifies: the error is the one of the key that sorts last by identity — the 34-octet key ("no key", 2),
     whose text sorts behind the example key's ("bad signature", 3) — in either order of the bucket *)
  one sig_ex_none sig_ex_LIBV [(sig_ex_tag, [sig_ex_long; walk_example_key])] [walk_example_a] sig_ex_good true = 2 /\
  one sig_ex_none sig_ex_LIBV [(sig_ex_tag, [walk_example_key; sig_ex_long])] [walk_example_a] sig_ex_good true = 2 /\
  one sig_ex_none sig_ex_LIBV [(sig_ex_tag, [sig_ex_twin; walk_example_key])] [walk_example_a] sig_ex_good true = 3 /\
  one sig_ex_none sig_ex_LIBV [(sig_ex_tag, [walk_example_key])] [walk_example_a] sig_ex_good true = 3 /\
  (* the tests in the order of the code *)
  one sig_ex_EDV sig_ex_LIBV [(sig_ex_tag + 1, [walk_example_key])] [walk_example_a] sig_ex_good false = 2 /\
  one sig_ex_EDV sig_ex_LIBV [(sig_ex_tag, [walk_example_key])] [walk_example_a] sig_ex_alg false = 5 /\
  one sig_ex_EDV sig_ex_LIBV [(sig_ex_tag, [walk_example_key])] [walk_example_a] sig_ex_alg true = 6 /\
  one sig_ex_EDV sig_ex_LIBV [(sig_ex_tag, [walk_example_key])] [walk_example_a] sig_ex_labels true = 1.
Proof. vm_compute. repeat split; reflexivity. Qed.

(* whole messages: the A RRset of the walk example under signatures that fail for different reasons *)
Definition sig_ex_txt : rr := mk_rr (bs "aaa.example.") 16 1 300 (bs "TXT") [FBytes [1; 120]].
Example rrsig_code_example :
  let code := verify_rrsig_code sig_ex_H sig_ex_F2 sig_ex_F4 sig_ex_EDV sig_ex_LIBV (bs "example") [(sig_ex_tag, [walk_example_key])] in
  let verdict := verify_rrsig sig_ex_H sig_ex_F2 sig_ex_F4 sig_ex_EDV sig_ex_LIBV (bs "example") [(sig_ex_tag, [walk_example_key])] in
  (* failing siblings, repeated and in any order, next to a good signature: accepted *)
  code [MR walk_example_a; MS sig_ex_old false; MS sig_ex_labels true; MS sig_ex_good true; MS sig_ex_old false] [] = 0 /\
  code [MS sig_ex_good true; MS sig_ex_labels true] [MS sig_ex_old false; MR walk_example_a] = 0 /\
  verdict [MR walk_example_a; MS sig_ex_old false; MS sig_ex_labels true; MS sig_ex_good true] [] = true /\
  (* only failing ones: refused, and the error is the one of the signature that sorts last by identity (the one with
     the larger label count: "missing signed", 1; without it the unsupported algorithm, 6, behind the expired one, 5) *)
  code [MR walk_example_a; MS sig_ex_old false; MS sig_ex_labels true] [] = 1 /\
  code [MR walk_example_a; MS sig_ex_labels true; MS sig_ex_old false] [] = 1 /\
  code [MR walk_example_a; MS sig_ex_alg true; MS sig_ex_old false] [] = 6 /\
  code [MR walk_example_a; MS sig_ex_old false; MS sig_ex_alg true; MS sig_ex_old false] [] = 6 /\
  code [MR walk_example_a; MS sig_ex_old false] [] = 5 /\
  verdict [MR walk_example_a; MS sig_ex_old false; MS sig_ex_labels true] [] = false /\
  (* two failing RRsets: the one whose owner sorts first is reported, wherever it stands in the message *)
  code [MR walk_example_a; MS sig_ex_old false; MR sig_ex_txt] [] = 1 /\
  code [MR sig_ex_txt; MR walk_example_a; MS sig_ex_old false] [] = 1 /\
  code [MR walk_example_a; MS sig_ex_old false] [MR sig_ex_txt] = 1 /\
  (* no RRSIG at all; a foreign answer record; an empty key map; nothing to validate *)
  code [MR walk_example_a; MR sig_ex_txt] [] = 7 /\
  code [MR walk_example_a; MS sig_ex_good true; MR (mk_rr (bs "evilexample.") 1 1 60 (bs "A") [FBytes [192; 0; 2; 9]])] [] = 1 /\
  verify_rrsig_code sig_ex_H sig_ex_F2 sig_ex_F4 sig_ex_EDV sig_ex_LIBV (bs "example") [] [MR walk_example_a; MS sig_ex_good true] [] = 2 /\
  code [] walk_example_ns = 0 /\
  (* the hypotheses of signature_and_rrset_order_and_repetition_only_select_the_error hold for these signatures *)
  forallb (fun s => is_fqdn (s_name s) && is_fqdn (s_signer s)) [sig_ex_good; sig_ex_labels; sig_ex_alg; sig_ex_old] = true.
Proof. vm_compute. repeat split; reflexivity. Qed.

(* the hypothesis of signature_and_rrset_order_and_repetition_only_select_the_error is needed: an RRSIG whose signer
   field is not fully qualified has the identity of its fully-qualified twin (rrsigID applies dns.Fqdn), is kept as the
   first of the two, and names no key of the bucket (strings.EqualFold on the raw names) — VerifyRRSIG then reports
   ErrMissingDNSKEY although the twin alone, or in front, is accepted (stricter; replayed on the Go code on every run
   as the cases probe-relative-signer-first / -second, CaseMsgProbe) *)
Definition sig_ex_relative : rrsig :=
  mk_sig (bs "www.EXAMPLE.") 1 1 15 2 300 2100000000 1500000000 sig_ex_tag (bs "EXAMPLE") (s_signature sig_ex_good).
Example sig_order_needs_fqdn_signers :
  let code := verify_rrsig_code sig_ex_H sig_ex_F2 sig_ex_F4 sig_ex_EDV sig_ex_LIBV (bs "example") [(sig_ex_tag, [walk_example_key])] in
  let verdict := verify_rrsig sig_ex_H sig_ex_F2 sig_ex_F4 sig_ex_EDV sig_ex_LIBV (bs "example") [(sig_ex_tag, [walk_example_key])] in
  sv_same (sig_ex_relative, true) (sig_ex_good, true) = true /\
  verdict [MR walk_example_a; MS sig_ex_relative true; MS sig_ex_good true] [] = true /\
  code [MR walk_example_a; MS sig_ex_relative true; MS sig_ex_good true] [] = 2 /\
  code [MR walk_example_a; MS sig_ex_good true; MS sig_ex_relative true] [] = 0.
Proof. vm_compute. repeat split; reflexivity. Qed.

(* the translated signatureMatchesRRset on the example: accepted for the good signature, refused for the one that claims
   more labels than the owner has and for a set whose records spell the owner differently; the owner is an escape-free name *)
Example signature_matches_translation_example :
  go_signatureMatchesRRset 40 (sig_rec sig_ex_good) (map rr_iface [walk_example_a]) = Some true /\
  go_signatureMatchesRRset 40 (sig_rec sig_ex_labels) (map rr_iface [walk_example_a]) = Some false /\
  go_signatureMatchesRRset 40 (sig_rec sig_ex_good)
    (map rr_iface [walk_example_a; mk_rr (bs "www.example.") 1 1 300 (bs "A") [FBytes [192; 0; 2; 2]]]) = Some false /\
  r_name walk_example_a = C02.Proofs_Gen.present [bs "WWW"; bs "example"] /\
  count_label (r_name walk_example_a) = 2%N.
Proof. vm_compute. repeat split; reflexivity. Qed.
