(* C14 — canonical RRset form (RFC 4034 6.3): after sorting by the octets
   behind the RDATA offset and collapsing equal neighbours the records are in
   strictly ascending RDATA order (sorted and duplicate-free), the result does
   not depend on the order in which the records arrived, and keeps exactly the
   records that were there. *)
From Coq Require Import Sorting.Sorted Sorting.Permutation.
From Sdns Require Import Common.Base Gen.C14 C14.Model C14.Proofs_rsa.
Open Scope N_scope.

(* ------------------------------------------------ bytes.Compare is a total order *)
Lemma bytes_compare_refl a : bytes_compare a a = Eq.
Proof. induction a as [|x a IH]; cbn; [reflexivity|]. rewrite N.compare_refl. exact IH. Qed.

Lemma bytes_compare_eq a : forall b, bytes_compare a b = Eq -> a = b.
Proof.
  induction a as [|x a IH]; intros [|y b]; cbn; try discriminate; [reflexivity|].
  destruct (x ?= y) eqn:C; try discriminate. apply N.compare_eq in C. subst. intros H. f_equal. auto.
Qed.

Lemma bytes_compare_antisym a : forall b, bytes_compare b a = CompOpp (bytes_compare a b).
Proof.
  induction a as [|x a IH]; intros [|y b]; cbn; try reflexivity.
  rewrite (N.compare_antisym x y). destruct (x ?= y); cbn; auto.
Qed.

Lemma bytes_lt_irrefl a : bytes_lt a a = false.
Proof. unfold bytes_lt. rewrite bytes_compare_refl. reflexivity. Qed.

Lemma bytes_lt_asym a b : bytes_lt a b = true -> bytes_lt b a = false.
Proof. unfold bytes_lt. rewrite (bytes_compare_antisym a b). destruct (bytes_compare a b); cbn; congruence. Qed.

Lemma bytes_lt_trans a : forall b c, bytes_lt a b = true -> bytes_lt b c = true -> bytes_lt a c = true.
Proof.
  unfold bytes_lt. induction a as [|x a IH]; intros [|y b] [|z c]; cbn; try congruence.
  destruct (x ?= y) eqn:C1; destruct (y ?= z) eqn:C2; try congruence.
  - apply N.compare_eq in C1, C2. subst. rewrite N.compare_refl. apply IH.
  - apply N.compare_eq in C1. subst. rewrite C2. auto.
  - apply N.compare_eq in C2. subst. rewrite C1. auto.
  - rewrite N.compare_lt_iff in *. replace (x ?= z) with Lt by (symmetry; apply N.compare_lt_iff; lia). auto.
Qed.

Lemma bytes_lt_total a b : bytes_lt a b = false -> bytes_lt b a = false -> a = b.
Proof.
  unfold bytes_lt. rewrite (bytes_compare_antisym a b).
  destruct (bytes_compare a b) eqn:C; cbn; try congruence. intros _ _. apply bytes_compare_eq. exact C.
Qed.

(* ------------------------------------------------------- order on records *)
Section Order.
  Variable off : N.
  Definition key (w : list N) : list N := skipn (N.to_nat off) w.
  Definition wlt (a b : list N) : Prop := wire_lt off a b = true.
  Definition wle (a b : list N) : Prop := wire_lt off b a = false.

  Lemma wlt_irrefl a : ~ wlt a a.
  Proof. unfold wlt, wire_lt. rewrite bytes_lt_irrefl. discriminate. Qed.
  Lemma wlt_asym a b : wlt a b -> ~ wlt b a.
  Proof. unfold wlt, wire_lt. intros H. rewrite (bytes_lt_asym _ _ H). discriminate. Qed.
  Lemma wlt_trans a b c : wlt a b -> wlt b c -> wlt a c.
  Proof. unfold wlt, wire_lt. apply bytes_lt_trans. Qed.
  Lemma wlt_wle a b : wlt a b -> wle a b.
  Proof. unfold wlt, wle, wire_lt. apply bytes_lt_asym. Qed.
  Lemma wle_total a b : wle a b \/ wle b a.
  Proof.
    unfold wle, wire_lt. fold (key a) (key b). destruct (bytes_lt (key b) (key a)) eqn:E; [right|left; reflexivity].
    apply bytes_lt_asym. exact E.
  Qed.
  Lemma wle_cases a b : wle a b -> wlt a b \/ key a = key b.
  Proof.
    unfold wle, wlt, wire_lt. fold (key a) (key b). intros H.
    destruct (bytes_lt (key a) (key b)) eqn:E; [left; reflexivity|right]. apply bytes_lt_total; assumption.
  Qed.
  Lemma wle_trans a b c : wle a b -> wle b c -> wle a c.
  Proof.
    intros H1 H2. destruct (wle_cases _ _ H1) as [L1|E1]; destruct (wle_cases _ _ H2) as [L2|E2].
    - apply wlt_wle. eapply wlt_trans; eassumption.
    - unfold wle, wire_lt in *. fold (key a) (key b) (key c) in *. rewrite <- E2. exact H1.
    - unfold wle, wire_lt in *. fold (key a) (key b) (key c) in *. rewrite E1. exact H2.
    - unfold wle, wire_lt. fold (key a) (key c). rewrite E1, E2. apply bytes_lt_irrefl.
  Qed.

  (* ---------------------------------------------------------- sorting *)
  Lemma insert_perm x l : Permutation (insert_wire off x l) (x :: l).
  Proof.
    induction l as [|y l IH]; cbn [insert_wire]; [reflexivity|].
    destruct (wire_lt off x y); [reflexivity|].
    rewrite IH. apply perm_swap.
  Qed.
  Lemma sort_perm l : Permutation (sort_wires off l) l.
  Proof.
    unfold sort_wires. induction l as [|x l IH]; cbn [fold_right]; [reflexivity|].
    rewrite insert_perm. constructor. exact IH.
  Qed.

  Lemma insert_sorted x l : StronglySorted wle l -> StronglySorted wle (insert_wire off x l).
  Proof.
    induction 1 as [|y l Hs IH Hy]; cbn [insert_wire]; [repeat constructor|].
    destruct (wire_lt off x y) eqn:E.
    - constructor; [constructor; assumption|].
      constructor; [apply wlt_wle; exact E|].
      rewrite Forall_forall in *. intros z Hz. eapply wle_trans; [apply wlt_wle; exact E | apply Hy; exact Hz].
    - constructor; [exact IH|].
      rewrite Forall_forall in *. intros z Hz.
      apply (Permutation_in _ (insert_perm x l)) in Hz. destruct Hz as [<-|Hz]; [exact E | apply Hy; exact Hz].
  Qed.
  Lemma sort_sorted l : StronglySorted wle (sort_wires off l).
  Proof.
    unfold sort_wires. induction l as [|x l IH]; cbn [fold_right]; [constructor|]. apply insert_sorted. exact IH.
  Qed.

  (* ------------------------------------------- collapsing equal neighbours *)
  Lemma dedup_in p l x : In x (dedup_adjacent p l) -> In x l.
  Proof.
    revert p. induction l as [|y l IH]; intros p; cbn [dedup_adjacent]; [auto|].
    destruct p as [q|].
    - destruct (list_eqb y q); [intros H; right; eapply IH; exact H|].
      intros [<-|H]; [left; reflexivity | right; eapply IH; exact H].
    - intros [<-|H]; [left; reflexivity | right; eapply IH; exact H].
  Qed.
  Lemma dedup_in_rev l x : forall p, In x l -> In x (dedup_adjacent p l) \/ p = Some x.
  Proof.
    induction l as [|y l IH]; intros p; cbn [dedup_adjacent]; [intros []|].
    intros [<-|H].
    - destruct p as [q|]; [|left; left; reflexivity].
      destruct (list_eqb y q) eqn:E; [right; apply list_eqb_eq in E; subst; reflexivity | left; left; reflexivity].
    - destruct (IH (Some y) H) as [I|I].
      + left. destruct p as [q|]; [destruct (list_eqb y q)|]; cbn [In]; auto.
      + injection I as ->. destruct p as [q|]; [|left; left; reflexivity].
        destruct (list_eqb x q) eqn:E; [right; apply list_eqb_eq in E; subst; reflexivity | left; left; reflexivity].
  Qed.
  Lemma dedup_members l x : In x (dedup_adjacent None l) <-> In x l.
  Proof.
    split; [apply dedup_in|]. intros H. destruct (dedup_in_rev l x None H) as [I|I]; [exact I | discriminate].
  Qed.

  (* inside an RRset, records that agree behind the offset are equal *)
  Definition key_inj (l : list (list N)) : Prop := forall a b, In a l -> In b l -> key a = key b -> a = b.

  Lemma dedup_strict_gen l : StronglySorted wle l -> forall p,
    (forall x, In x l -> wle p x) -> key_inj (p :: l) ->
    StronglySorted wlt (dedup_adjacent (Some p) l) /\ Forall (wlt p) (dedup_adjacent (Some p) l).
  Proof.
    induction 1 as [|y l Hs IH Hy]; intros p Hp Hinj; cbn [dedup_adjacent]; [split; constructor|].
    assert (Hpy : wle p y) by (apply Hp; left; reflexivity).
    assert (Hyl : forall x, In x l -> wle y x) by (rewrite Forall_forall in Hy; exact Hy).
    assert (Hinj_y : key_inj (y :: l)).
    { intros a b Ha Hb. apply Hinj; right; assumption. }
    destruct (IH y Hyl Hinj_y) as (S1 & F1).
    destruct (list_eqb y p) eqn:E.
    - apply list_eqb_eq in E. subst y. split; assumption.
    - assert (Lpy : wlt p y).
      { destruct (wle_cases _ _ Hpy) as [L|K]; [exact L|].
        exfalso. assert (p = y) by (apply Hinj; [left; reflexivity | right; left; reflexivity | exact K]).
        subst. rewrite list_eqb_refl in E. discriminate. }
      split.
      + constructor; assumption.
      + constructor; [exact Lpy|]. rewrite Forall_forall in *. intros z Hz. eapply wlt_trans; [exact Lpy | apply F1; exact Hz].
  Qed.

  Theorem dedup_sorted_strict l : StronglySorted wle l -> key_inj l -> StronglySorted wlt (dedup_adjacent None l).
  Proof.
    intros Hs Hinj. destruct Hs as [|y l Hs Hy]; cbn [dedup_adjacent]; [constructor|].
    assert (Hyl : forall x, In x l -> wle y x) by (rewrite Forall_forall in Hy; exact Hy).
    destruct (dedup_strict_gen l Hs y Hyl Hinj) as (S1 & F1). constructor; assumption.
  Qed.

  (* two strictly ascending lists with the same members are the same list *)
  Lemma strict_sorted_unique l1 : forall l2,
    StronglySorted wlt l1 -> StronglySorted wlt l2 -> (forall x, In x l1 <-> In x l2) -> l1 = l2.
  Proof.
    induction l1 as [|a l1 IH]; intros l2 S1 S2 M.
    - destruct l2 as [|b l2]; [reflexivity|]. exfalso. apply (proj2 (M b)). left. reflexivity.
    - destruct l2 as [|b l2]; [exfalso; apply (proj1 (M a)); left; reflexivity|].
      inversion S1 as [|? ? S1' F1]; subst. inversion S2 as [|? ? S2' F2]; subst.
      rewrite Forall_forall in F1, F2.
      assert (a = b).
      { destruct (proj1 (M a) (or_introl eq_refl)) as [->|Ha]; [reflexivity|].
        destruct (proj2 (M b) (or_introl eq_refl)) as [->|Hb]; [reflexivity|].
        exfalso. exact (wlt_asym _ _ (F1 _ Hb) (F2 _ Ha)). }
      subst b. f_equal. apply IH; try assumption.
      intros x. split; intros Hx.
      + destruct (proj1 (M x) (or_intror Hx)) as [<-|H]; [|exact H]. exfalso. exact (wlt_irrefl _ (F1 _ Hx)).
      + destruct (proj2 (M x) (or_intror Hx)) as [<-|H]; [|exact H]. exfalso. exact (wlt_irrefl _ (F2 _ Hx)).
  Qed.

  Lemma key_inj_perm l l' : Permutation l l' -> key_inj l -> key_inj l'.
  Proof.
    intros P H a b Ha Hb. apply H; eapply Permutation_in; try eassumption; symmetry; exact P.
  Qed.

  Definition canon (l : list (list N)) : list (list N) := dedup_adjacent None (sort_wires off l).

  (* sorted by the octets behind the offset, strictly: ascending and duplicate-free *)
  Theorem canon_strictly_ascending l : key_inj l -> StronglySorted wlt (canon l).
  Proof.
    intros H. apply dedup_sorted_strict; [apply sort_sorted|].
    eapply key_inj_perm; [symmetry; apply sort_perm | exact H].
  Qed.
  (* keeps exactly the records that were there *)
  Theorem canon_members l x : In x (canon l) <-> In x l.
  Proof.
    unfold canon. rewrite dedup_members. split; apply Permutation_in; [apply sort_perm | symmetry; apply sort_perm].
  Qed.
  (* does not depend on the order of arrival, nor on repetitions *)
  Theorem canon_order_independent l l' :
    key_inj l -> (forall x, In x l <-> In x l') -> canon l = canon l'.
  Proof.
    intros H M.
    assert (H' : key_inj l') by (intros a b Ha Hb; apply H; apply M; assumption).
    apply strict_sorted_unique; try (apply canon_strictly_ascending; assumption).
    intros x. rewrite !canon_members. apply M.
  Qed.
  Corollary canon_perm l l' : key_inj l -> Permutation l l' -> canon l = canon l'.
  Proof.
    intros H P. apply canon_order_independent; [exact H|].
    intros x. split; apply Permutation_in; [exact P | symmetry; exact P].
  Qed.
  Corollary canon_dup l x : key_inj l -> In x l -> canon (x :: l) = canon l.
  Proof.
    intros H Hx. symmetry. apply canon_order_independent; [exact H|].
    intros y. cbn [In]. split; [auto | intros [<-|?]; assumption].
  Qed.
End Order.

(* -------------------------------------------- records of one RRset *)
(* Records that share everything in front of the offset (owner, type, class,
   TTL — which is what IsRRset and the canonicalisation give) are equal as soon
   as they agree behind it. *)
Lemma same_front_key_inj off (l : list (list N)) :
  (forall a b, In a l -> In b l -> firstn (N.to_nat off) a = firstn (N.to_nat off) b) -> key_inj off l.
Proof.
  intros H a b Ha Hb K. unfold key in K.
  rewrite <- (firstn_skipn (N.to_nat off) a), <- (firstn_skipn (N.to_nat off) b), K, (H a b Ha Hb). reflexivity.
Qed.

(* ------------------------------------------------- signed-data layout *)
Lemma sig_rdata_prefix_length s : length (sig_rdata_prefix s) = 18%nat.
Proof. unfold sig_rdata_prefix, be16, be32. rewrite !app_length, !i2osp_length. reflexivity. Qed.

Theorem signed_data_layout s rrset b :
  signed_data s rrset = inr b ->
  exists nm w, pack_name (canonical_name (s_signer s)) signer_name_buffer = Some nm /\
               canonical_rrset rrset (s_labels s) (s_origttl s) = inr w /\
               b = sig_rdata_prefix s ++ nm ++ w.
Proof.
  unfold signed_data. destruct (pack_name _ _) as [nm|]; [|discriminate].
  destruct (canonical_rrset _ _ _) as [e|w]; [discriminate|].
  intros H. injection H as <-. exists nm, w. auto.
Qed.

Theorem canonical_rrset_layout rrset labels ottl w :
  canonical_rrset rrset labels ottl = inr w ->
  exists wires off, all_some (map (fun r => canonical_wire r labels ottl) rrset) = Some wires /\
                    w = concat (canon off wires).
Proof.
  unfold canonical_rrset. destruct (all_some _) as [wires|]; [|discriminate].
  destruct wires as [|w0 wires']; [discriminate|].
  destruct (wire_rdata_offset w0) as [off|]; [|discriminate].
  destruct (existsb _ _); [discriminate|].
  intros H. injection H as <-. exists (w0 :: wires'), off. auto.
Qed.

(* one record: owner | type | class | original TTL | RDLENGTH | RDATA *)
Theorem canonical_wire_layout r labels ottl w :
  canonical_wire r labels ottl = Some w ->
  exists owner rd, w = owner ++ be16 (r_type r) ++ be16 (r_class r) ++ be32 ottl ++ be16 (len rd) ++ rd.
Proof.
  unfold canonical_wire. destruct (pack_name _ _) as [o|]; [|discriminate].
  destruct (pack_fields _ _) as [rd|]; [|discriminate].
  destruct (65535 <? len rd); [discriminate|].
  intros H. injection H as <-. exists o, rd. reflexivity.
Qed.
