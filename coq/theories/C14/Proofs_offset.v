(* C14 — the offset behind which canonicalRRset sorts is exactly where the
   RDATA begins: one record is owner | type class TTL RDLENGTH | RDATA with the
   owner a sequence of labels of 1..63 octets closed by the root, the label
   walk of wireRdataOffset stops on that root, and so the RRset is sorted by
   RDATA octets, strictly. *)
From Coq Require Import Sorting.Sorted Sorting.Permutation.
From Sdns Require Import Common.Base Gen.C14 C14.Model C14.Proofs_rsa C14.Proofs_keytag C14.Proofs_canon C14.Proofs_verify.
Open Scope N_scope.

Definition good_label (l : list N) : Prop := 1 <= len l /\ len l < 64.
Definition name_wire (ls : list (list N)) : list N := flat_map (fun l => len l :: l) ls ++ [0].

(* ----------------------------------------------- PackDomainName's labels *)
Lemma pack_labels_good : forall fuel s cur wasdot first multi ls,
  pack_labels fuel s cur wasdot first multi = Some ls ->
  (cur = [] -> wasdot = true \/ first = true) ->
  Forall good_label ls \/ (first = true /\ multi = false /\ exists ls', ls = [] :: ls' /\ Forall good_label ls').
Proof.
  induction fuel as [|f IH]; intros s cur wasdot first multi ls; cbn [pack_labels]; [discriminate|].
  destruct s as [|c r]; [intros E _; injection E as <-; left; constructor|].
  assert (NE : forall x, cur ++ [x] = [] -> false = true \/ false = true) by (intros x E; destruct cur; discriminate).
  destruct (c =? BSL).
  - destruct r as [|d1 [|d2 [|d3 r']]].
    + intros E _. injection E as <-. left. constructor.
    + intros E _. destruct (IH _ _ _ _ _ _ E (NE d1)) as [G|(X & _)]; [left; exact G | discriminate].
    + intros E _. destruct (IH _ _ _ _ _ _ E (NE d1)) as [G|(X & _)]; [left; exact G | discriminate].
    + destruct (is_digit d1 && is_digit d2 && is_digit d3); intros E _;
        (destruct (IH _ _ _ _ _ _ E (NE _)) as [G|(X & _)]; [left; exact G | discriminate]).
  - destruct (c =? DOT).
    + destruct (first && multi) eqn:FM; [discriminate|].
      destruct wasdot eqn:WD; [discriminate|].
      destruct (64 <=? len cur) eqn:L64; [discriminate|]. apply N.leb_gt in L64.
      destruct (pack_labels f r [] true false multi) as [ls'|] eqn:R; [|discriminate].
      intros E I. injection E as <-.
      assert (G' : Forall good_label ls').
      { destruct (IH _ _ _ _ _ _ R (fun _ => or_introl eq_refl)) as [G|(X & _)]; [exact G | discriminate]. }
      destruct cur as [|x cur'].
      * destruct (I eq_refl) as [X|X]; [discriminate|]. subst first. cbn [andb] in FM. subst multi.
        right. repeat split. exists ls'. auto.
      * left. constructor; [|exact G']. split; [unfold len; cbn [length]; lia | exact L64].
    + intros E _. destruct (IH _ _ _ _ _ _ E (NE c)) as [G|(X & _)]; [left; exact G | discriminate].
Qed.

Lemma pack_name_shape s buf w :
  s <> [] -> pack_name s buf = Some w -> exists ls, Forall good_label ls /\ w = name_wire ls.
Proof.
  intros Hs. unfold pack_name. destruct s as [|c s']; [congruence|].
  destruct (is_fqdn (c :: s')) eqn:FQ; cbn [negb]; [|discriminate].
  destruct (pack_labels (S (length (c :: s'))) (c :: s') [] false true (1 <? len (c :: s'))) as [ls|] eqn:P; [|discriminate].
  destruct (len (wire_of_labels ls) <=? buf); [|discriminate].
  intros E. injection E as <-.
  destruct (pack_labels_good _ _ _ _ _ _ _ P (fun _ => or_intror eq_refl)) as [G|(_ & M & ls' & -> & G')].
  - exists ls. split; [exact G|]. unfold wire_of_labels, name_wire.
    destruct ls as [|[|x l] [|l2 r]]; try reflexivity.
    exfalso. inversion G as [|? ? (G1 & _) _]; subst. cbn in G1. lia.
  - (* a single character: only "." is fully qualified *)
    apply N.ltb_ge in M. unfold len in M. cbn [length] in M.
    destruct s' as [|c2 s'']; [|cbn [length] in M; lia].
    unfold is_fqdn in FQ. cbn in FQ. unfold is_sep in FQ. cbn [fst snd] in FQ.
    apply andb_prop in FQ as (FQ & _). apply N.eqb_eq in FQ. subst c.
    cbn in P. injection P as P. inversion P; subst. exists []. split; [constructor | reflexivity].
Qed.

(* ------------------------------------------------------- wireRdataOffset *)
Lemma walk_labels ls : Forall good_label ls -> forall fuel rest off,
  (length ls < fuel)%nat ->
  wire_rdata_offset_walk fuel (flat_map (fun l => len l :: l) ls ++ 0 :: rest) off
  = Some (off + len (flat_map (fun l => len l :: l) ls) + 1).
Proof.
  induction 1 as [|l ls (G1 & G2) G IH]; intros fuel rest off Hf.
  - destruct fuel; [cbn in Hf; lia|]. cbn. f_equal. lia.
  - destruct fuel as [|f]; [cbn in Hf; lia|].
    cbn [flat_map app wire_rdata_offset_walk].
    replace (len l =? 0) with false by (symmetry; apply N.eqb_neq; lia).
    change max_label_octets with 63.
    replace (63 <? len l) with false by (symmetry; apply N.ltb_ge; lia).
    rewrite <- !app_assoc.
    replace (len (l ++ flat_map (fun l0 => len l0 :: l0) ls ++ 0 :: rest) <? len l) with false.
    2:{ symmetry. apply N.ltb_ge. rewrite len_app. lia. }
    cbn [orb].
    replace (N.to_nat (len l)) with (length l) by (unfold len; lia).
    rewrite skipn_app, skipn_all, Nat.sub_diag. cbn [skipn app].
    rewrite IH by (cbn [length] in Hf; lia).
    f_equal. rewrite len_cons, !len_app. lia.
Qed.
Lemma walk_name ls : Forall good_label ls -> forall fuel rest off,
  (length ls < fuel)%nat ->
  wire_rdata_offset_walk fuel (name_wire ls ++ rest) off = Some (off + len (name_wire ls)).
Proof.
  intros G fuel rest off Hf. unfold name_wire. rewrite <- app_assoc. cbn [app].
  rewrite walk_labels by assumption. f_equal. rewrite len_app. change (len [0]) with 1. lia.
Qed.

Lemma offset_of_wire ls fixed rd :
  Forall good_label ls -> len fixed = 10 ->
  wire_rdata_offset (name_wire ls ++ fixed ++ rd) = Some (len (name_wire ls) + 10).
Proof.
  intros G L. unfold wire_rdata_offset.
  rewrite walk_name; [|exact G|].
  2:{ rewrite !app_length. unfold name_wire. rewrite app_length. cbn [length].
      assert (length ls <= length (flat_map (fun l => len l :: l) ls))%nat; [|lia].
      clear. induction ls as [|l ls IH]; cbn [flat_map length]; [lia|]. rewrite app_length. cbn [length]. lia. }
  change rr_fixed_header with 10. rewrite N.add_0_l.
  replace (len (name_wire ls ++ fixed ++ rd) <? len (name_wire ls) + 10) with false; [reflexivity|].
  symmetry. apply N.ltb_ge. rewrite !len_app. lia.
Qed.

(* ------------------------------------------------- one canonical record *)
Lemma canonical_name_nonempty s : canonical_name s <> [].
Proof. destruct (canonical_name_last s) as (p & E). rewrite E. destruct p; discriminate. Qed.

(* the owner canonicalRRset gives a record: wildcard restored, lower case *)
Definition canon_owner (name : list N) (labels : N) : list N :=
  canonical_name (if labels <? count_label name
                  then [STAR; DOT] ++ fqdn (skipn (N.to_nat (prev_label name labels)) name)
                  else name).
Definition canon_rdata (r : rr) : option (list N) :=
  pack_fields (mem_str (r_kind r) canonical_rdata_types) (r_rdata r).
Definition fixed8 (typ cls ottl : N) : list N := be16 typ ++ be16 cls ++ be32 ottl.
Definition mk_wire (owner f8 rd : list N) : list N := owner ++ (f8 ++ be16 (len rd)) ++ rd.

Lemma fixed_len typ cls ottl (rd : list N) : len (fixed8 typ cls ottl ++ be16 (len rd)) = 10.
Proof. unfold fixed8, be16, be32, len. rewrite !app_length, !i2osp_length. reflexivity. Qed.

Lemma canonical_wire_parts r labels ottl w :
  canonical_wire r labels ottl = Some w ->
  exists ls rd, Forall good_label ls /\
    pack_name (canon_owner (r_name r) labels) big_buf = Some (name_wire ls) /\
    canon_rdata r = Some rd /\
    w = mk_wire (name_wire ls) (fixed8 (r_type r) (r_class r) ottl) rd.
Proof.
  unfold canonical_wire. fold (canon_owner (r_name r) labels). fold (canon_rdata r).
  destruct (pack_name (canon_owner (r_name r) labels) big_buf) as [o|] eqn:P; [|discriminate].
  destruct (canon_rdata r) as [rd|]; [|discriminate].
  destruct (65535 <? len rd); [discriminate|].
  intros E. injection E as <-.
  destruct (pack_name_shape _ _ _ (canonical_name_nonempty _) P) as (ls & G & ->).
  exists ls, rd. repeat split; auto.
  all: unfold mk_wire, fixed8; rewrite <- !app_assoc; reflexivity.
Qed.

Lemma mk_wire_offset ls f8 rd : Forall good_label ls -> len f8 = 8 ->
  wire_rdata_offset (mk_wire (name_wire ls) f8 rd) = Some (len (name_wire ls) + 10)
  /\ key (len (name_wire ls) + 10) (mk_wire (name_wire ls) f8 rd) = rd.
Proof.
  intros G L. unfold mk_wire.
  assert (L10 : len (f8 ++ be16 (len rd)) = 10).
  { rewrite len_app, L. unfold be16, len. rewrite i2osp_length. reflexivity. }
  split; [apply offset_of_wire; assumption|].
  unfold key. rewrite app_assoc.
  rewrite skipn_app_exact; [reflexivity|]. rewrite app_length. unfold len in *. lia.
Qed.

(* ------------------------------------------------------------ the RRset *)
Lemma all_some_in {A B} (f : A -> option B) l ys :
  all_some (map f l) = Some ys -> forall y, In y ys <-> exists x, In x l /\ f x = Some y.
Proof.
  revert ys. induction l as [|a l IH]; intros ys; cbn [map all_some].
  - intros E. injection E as <-. intros y. split; [intros [] | intros (x & [] & _)].
  - destruct (f a) as [b|] eqn:Fa; [|discriminate].
    destruct (all_some (map f l)) as [t|]; [|discriminate].
    intros E. injection E as <-. intros y. cbn [In]. rewrite (IH t eq_refl y). split.
    + intros [<-|(x & Hx & Fx)]; [exists a; auto | exists x; auto].
    + intros (x & [<-|Hx] & Fx); [left; congruence | right; exists x; auto].
Qed.

Lemma strongly_sorted_map {A B} (f : A -> B) (R : A -> A -> Prop) (S : B -> B -> Prop) l :
  (forall a b, R a b -> S (f a) (f b)) -> StronglySorted R l -> StronglySorted S (map f l).
Proof.
  intros H. induction 1 as [|a l Hs IH Ha]; cbn [map]; constructor; [exact IH|].
  rewrite Forall_forall in *. intros y Hy. apply in_map_iff in Hy as (x & <- & Hx). apply H. apply Ha. exact Hx.
Qed.

(* RFC 4034 6.3: the canonical RRset is the records in strictly ascending
   order of their (canonical) RDATA octets — so sorted and duplicate-free — each
   written as owner | type class original-TTL | RDLENGTH | RDATA with the one
   canonical owner, and it contains exactly the RDATA that were presented. *)
Theorem canonical_rrset_sorted_by_rdata r0 rest labels ottl w :
  is_rrset (r0 :: rest) = true ->
  canonical_rrset (r0 :: rest) labels ottl = inr w ->
  exists owner rds,
    pack_name (canon_owner (r_name r0) labels) big_buf = Some owner /\
    w = concat (map (mk_wire owner (fixed8 (r_type r0) (r_class r0) ottl)) rds) /\
    StronglySorted (fun a b => bytes_lt a b = true) rds /\
    (forall rd, In rd rds <-> exists r, In r (r0 :: rest) /\ canon_rdata r = Some rd).
Proof.
  intros RS. unfold canonical_rrset.
  destruct (all_some (map (fun r => canonical_wire r labels ottl) (r0 :: rest))) as [wires|] eqn:AS; [|discriminate].
  pose proof (all_some_in _ _ _ AS) as Mem.
  destruct wires as [|w0 wires']; [discriminate|].
  (* every record has the owner, type and class of the first *)
  assert (Same : forall r, In r (r0 :: rest) -> r_type r = r_type r0 /\ r_class r = r_class r0 /\ r_name r = r_name r0).
  { intros r [<-|Hr]; [auto|]. cbn [is_rrset] in RS. rewrite forallb_forall in RS. specialize (RS r Hr).
    apply andb_prop in RS as (RS & N0). apply andb_prop in RS as (T0 & C0).
    apply N.eqb_eq in T0, C0. apply list_eqb_eq in N0. auto. }
  (* the first wire fixes the owner *)
  assert (H0 : canonical_wire r0 labels ottl = Some w0).
  { cbn [map all_some] in AS. destruct (canonical_wire r0 labels ottl); [|discriminate].
    destruct (all_some _); [|discriminate]. injection AS as -> _. reflexivity. }
  destruct (canonical_wire_parts _ _ _ _ H0) as (ls & rd0 & G & P0 & _ & E0).
  set (owner := name_wire ls) in *. set (f8 := fixed8 (r_type r0) (r_class r0) ottl) in *.
  assert (L8 : len f8 = 8) by (unfold f8, fixed8, be16, be32, len; rewrite !app_length, !i2osp_length; reflexivity).
  set (off := len owner + 10).
  assert (Form : forall x, In x (w0 :: wires') -> exists r rd, In r (r0 :: rest) /\ canon_rdata r = Some rd /\ x = mk_wire owner f8 rd).
  { intros x Hx. apply Mem in Hx as (r & Hr & Cr).
    destruct (canonical_wire_parts _ _ _ _ Cr) as (ls' & rd & G' & P' & Rd & Ex).
    destruct (Same r Hr) as (T & C & Nm). rewrite Nm, P0 in P'. injection P' as P'.
    exists r, rd. rewrite T, C, <- P' in Ex. auto. }
  assert (Off0 : wire_rdata_offset w0 = Some off).
  { rewrite E0. apply (mk_wire_offset ls f8 rd0 G L8). }
  rewrite Off0.
  destruct (existsb (fun w1 => len w1 <? off) (w0 :: wires')); [discriminate|].
  intros E. injection E as <-.
  assert (Key : forall x, In x (w0 :: wires') -> x = mk_wire owner f8 (key off x)).
  { intros x Hx. destruct (Form x Hx) as (r & rd & _ & _ & ->).
    unfold off, owner. rewrite (proj2 (mk_wire_offset ls f8 rd G L8)). reflexivity. }
  assert (Inj : key_inj off (w0 :: wires')).
  { intros a b Ha Hb K. rewrite (Key a Ha), (Key b Hb), K. reflexivity. }
  exists owner, (map (key off) (canon off (w0 :: wires'))). repeat split.
  - exact P0.
  - f_equal. rewrite map_map.
    transitivity (map (fun x => x) (canon off (w0 :: wires'))); [symmetry; apply map_id|].
    apply map_ext_in. intros x Hx. apply Key. apply canon_members in Hx. exact Hx.
  - eapply strongly_sorted_map; [|apply canon_strictly_ascending; exact Inj].
    intros a b Hab. exact Hab.
  - intros H. apply in_map_iff in H as (x & <- & Hx). apply canon_members in Hx.
    destruct (Form x Hx) as (r & rd' & Hr & Cr & ->). exists r. split; [exact Hr|].
    unfold off, owner. rewrite (proj2 (mk_wire_offset ls f8 rd' G L8)). exact Cr.
  - intros (r & Hr & Cr). apply in_map_iff.
    assert (Hw : In (mk_wire owner f8 rd) (w0 :: wires')).
    { apply Mem. exists r. split; [exact Hr|].
      destruct (Same r Hr) as (T & C & Nm).
      unfold canonical_wire. fold (canon_owner (r_name r) labels). fold (canon_rdata r).
      rewrite Nm, P0, Cr.
      (* the record was packed, so its RDATA fits *)
      assert (exists x, canonical_wire r labels ottl = Some x) as (x & Cx).
      { destruct (canonical_wire r labels ottl) eqn:Cw; [eauto|].
        exfalso. clear - AS Hr Cw. revert AS. generalize (w0 :: wires'). revert Hr.
        induction (r0 :: rest) as [|a l IH]; [intros []|]. intros [->|Hr] ys; cbn [map all_some].
        - rewrite Cw. discriminate.
        - destruct (canonical_wire a labels ottl); [|discriminate].
          destruct (all_some (map (fun r1 => canonical_wire r1 labels ottl) l)) eqn:A; [|discriminate].
          intros _. eapply IH; [exact Hr | reflexivity]. }
      unfold canonical_wire in Cx. fold (canon_owner (r_name r) labels) in Cx. fold (canon_rdata r) in Cx.
      rewrite Nm, P0, Cr in Cx. destruct (65535 <? len rd); [discriminate|].
      rewrite T, C. unfold mk_wire, f8, fixed8. rewrite <- !app_assoc. reflexivity. }
    exists (mk_wire owner f8 rd). split; [apply (proj2 (mk_wire_offset ls f8 rd G L8)) | apply canon_members; exact Hw].
Qed.
