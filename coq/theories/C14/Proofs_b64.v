(* C14 — facts about the base64 reader that the streaming key tag relies on:
   a chunk of whole alphabet quanta decodes independently of what follows,
   and a chunk that decodes to three quarters of its length is such a chunk. *)
From Sdns Require Import Common.Base Gen.C14 C14.Model C14.Proofs_rsa.
Open Scope N_scope.

Definition alpha (c : N) : bool := match b64_val c with Some _ => true | None => false end.
Definition all_alpha (m : list N) : bool := forallb alpha m.

Lemma list_ind4 {A} (P : list A -> Prop) :
  P [] -> (forall a, P [a]) -> (forall a b, P [a; b]) -> (forall a b c, P [a; b; c]) ->
  (forall a b c d l, P l -> P (a :: b :: c :: d :: l)) -> forall l, P l.
Proof.
  intros H0 H1 H2 H3 H4 l.
  enough (P l /\ (forall a, P (a :: l)) /\ (forall a b, P (a :: b :: l)) /\ (forall a b c, P (a :: b :: c :: l))) by tauto.
  induction l as [|x l (I0 & I1 & I2 & I3)]; repeat split; auto.
Qed.

Lemma b64_val_lt c v : b64_val c = Some v -> v < 64.
Proof.
  unfold b64_val.
  repeat match goal with |- context [if ?b then _ else _] => destruct b eqn:? end;
    intros H; inversion H; subst; lia.
Qed.

Lemma alpha_not_nl c : alpha c = true -> is_nl c = false.
Proof.
  unfold alpha, is_nl. destruct (c =? 10) eqn:A; [apply N.eqb_eq in A; subst; discriminate|].
  destruct (c =? 13) eqn:B; [apply N.eqb_eq in B; subst; discriminate|]. reflexivity.
Qed.
Lemma alpha_not_pad c : alpha c = true -> (c =? 61) = false.
Proof. unfold alpha. destruct (c =? 61) eqn:A; [apply N.eqb_eq in A; subst; discriminate|reflexivity]. Qed.

Lemma b64_bytes v0 v1 v2 v3 : v0 < 64 -> v1 < 64 -> v2 < 64 -> v3 < 64 ->
  b64_b0 v0 v1 < 256 /\ b64_b1 v1 v2 < 256 /\ b64_b2 v2 v3 < 256.
Proof. unfold b64_b0, b64_b1, b64_b2. intros. repeat split; lia. Qed.

(* one step of the decoder on a whole alphabet quantum *)
Lemma b64_dec_quantum c0 c1 c2 c3 m v0 v1 v2 v3 :
  b64_val c0 = Some v0 -> b64_val c1 = Some v1 -> b64_val c2 = Some v2 -> b64_val c3 = Some v3 ->
  b64_dec (c0 :: c1 :: c2 :: c3 :: m) =
    (b64_b0 v0 v1 :: b64_b1 v1 v2 :: b64_b2 v2 v3 :: fst (b64_dec m), snd (b64_dec m)).
Proof. intros H0 H1 H2 H3. cbn [b64_dec]. rewrite H0, H1, H2, H3. reflexivity. Qed.

Ltac dec_cases :=
  repeat match goal with
         | |- context [match b64_val ?c with _ => _ end] => destruct (b64_val c) eqn:?
         | |- context [if ?c =? 61 then _ else _] => destruct (c =? 61) eqn:?
         end.

Lemma b64_dec_bytes m : bytes_ok (fst (b64_dec m)).
Proof.
  induction m as [| a | a b | a b c | a b c d l IH] using list_ind4; cbn [b64_dec];
    dec_cases; cbn [fst]; try (constructor; fail);
    repeat match goal with H : b64_val _ = Some _ |- _ => apply b64_val_lt in H end;
    repeat (constructor; [unfold b64_b0, b64_b1, b64_b2; lia|]); try constructor; try exact IH.
Qed.

(* never more than three octets per four characters *)
Lemma b64_dec_len m : (4 * length (fst (b64_dec m)) <= 3 * length m)%nat.
Proof.
  induction m as [| a | a b | a b c | a b c d l IH] using list_ind4; cbn [b64_dec];
    dec_cases; cbn [fst length] in *; lia.
Qed.

(* a successful decode consumed whole groups of four *)
Lemma b64_dec_ok_mod4 m : snd (b64_dec m) = true -> (length m mod 4 = 0)%nat.
Proof.
  induction m as [| a | a b | a b c | a b c d l IH] using list_ind4; cbn [b64_dec];
    dec_cases; cbn [snd length].
  all: try (intros H; discriminate H).
  - reflexivity.
  - intros H. specialize (IH H).
    change (S (S (S (S (length l))))) with (4 + length l)%nat. lia.
  - intros H. destruct l; [reflexivity | discriminate].
  - intros H. destruct l; [reflexivity | discriminate].
Qed.
(* and produced at least three octets per group, less two for the padding *)
Lemma b64_dec_ok_len m : snd (b64_dec m) = true -> (3 * length m <= 4 * length (fst (b64_dec m)) + 8)%nat.
Proof.
  induction m as [| a | a b | a b c | a b c d l IH] using list_ind4; cbn [b64_dec];
    dec_cases; cbn [fst snd length].
  all: try (intros H; discriminate H).
  - lia.
  - intros H. specialize (IH H). lia.
  - intros H. destruct l; [cbn; lia | discriminate].
  - intros H. destruct l; [cbn; lia | discriminate].
Qed.

(* three quarters exactly: every character belongs to the alphabet *)
Lemma b64_dec_full_alpha m :
  snd (b64_dec m) = true -> (4 * length (fst (b64_dec m)) = 3 * length m)%nat -> all_alpha m = true.
Proof.
  induction m as [| a | a b | a b c | a b c d l IH] using list_ind4; cbn [b64_dec];
    dec_cases; cbn [fst snd length].
  all: try (intros H; discriminate H).
  all: try (intros _ L; exfalso; lia).
  1: reflexivity.
  intros H L. unfold all_alpha in *. cbn [forallb]. unfold alpha at 1 2 3 4.
  repeat match goal with H : b64_val _ = Some _ |- _ => rewrite H; clear H end.
  cbn [andb]. apply IH; [exact H | lia].
Qed.

(* whole alphabet quanta decode independently of what follows *)
Lemma b64_dec_alpha_app a m :
  all_alpha a = true -> (length a mod 4 = 0)%nat ->
  b64_dec (a ++ m) = (fst (b64_dec a) ++ fst (b64_dec m), snd (b64_dec m))
  /\ snd (b64_dec a) = true /\ (4 * length (fst (b64_dec a)) = 3 * length a)%nat.
Proof.
  induction a as [| x | x y | x y z | x y z w l IH] using list_ind4; intros HA HL.
  - cbn. destruct (b64_dec m). auto.
  - discriminate.
  - discriminate.
  - discriminate.
  - unfold all_alpha in HA. cbn [forallb] in HA.
    apply andb_prop in HA as (A0 & HA). apply andb_prop in HA as (A1 & HA).
    apply andb_prop in HA as (A2 & HA). apply andb_prop in HA as (A3 & HA).
    unfold alpha in A0, A1, A2, A3.
    destruct (b64_val x) as [v0|] eqn:E0; [|discriminate].
    destruct (b64_val y) as [v1|] eqn:E1; [|discriminate].
    destruct (b64_val z) as [v2|] eqn:E2; [|discriminate].
    destruct (b64_val w) as [v3|] eqn:E3; [|discriminate].
    assert (HL' : (length l mod 4 = 0)%nat).
    { change (length (x :: y :: z :: w :: l)) with (4 + length l)%nat in HL. lia. }
    destruct (IH HA HL') as (I1 & I2 & I3).
    cbn [app]. rewrite (b64_dec_quantum _ _ _ _ _ _ _ _ _ E0 E1 E2 E3).
    rewrite (b64_dec_quantum _ _ _ _ _ _ _ _ _ E0 E1 E2 E3).
    rewrite I1. cbn [fst snd app length]. repeat split; auto. lia.
Qed.

(* line breaks *)
Lemma strip_nl_app a b : strip_nl (a ++ b) = strip_nl a ++ strip_nl b.
Proof. unfold strip_nl. apply filter_app. Qed.
Lemma strip_nl_alpha a : all_alpha a = true -> strip_nl a = a.
Proof.
  unfold strip_nl, all_alpha. induction a as [|x a IH]; cbn [forallb filter]; [reflexivity|].
  intros H. apply andb_prop in H as (Hx & Ha). rewrite (alpha_not_nl _ Hx). cbn [negb]. f_equal. auto.
Qed.
Lemma filter_len_le {A} (f : A -> bool) l : (length (filter f l) <= length l)%nat.
Proof. induction l as [|x l IH]; cbn [filter length]; [lia|]. destruct (f x); cbn [length]; lia. Qed.
Lemma strip_nl_length s : (length (strip_nl s) <= length s)%nat.
Proof. unfold strip_nl. apply filter_len_le. Qed.
Lemma strip_nl_full s : length (strip_nl s) = length s -> strip_nl s = s.
Proof.
  unfold strip_nl. induction s as [|x s IH]; cbn [filter length]; [reflexivity|].
  destruct (negb (is_nl x)); cbn [length]; intros H.
  - f_equal. apply IH. lia.
  - pose proof (filter_len_le (fun c => negb (is_nl c)) s). lia.
Qed.

(* The chunk lemma: a chunk of 4k characters that decodes cleanly to 3k octets
   consists of alphabet characters only, and then the decode of the chunk
   followed by anything is the chunk's octets followed by the decode of the rest. *)
Lemma b64_decode_full_chunk c rest :
  (length c mod 4 = 0)%nat ->
  snd (b64_decode c) = true -> (4 * length (fst (b64_decode c)) = 3 * length c)%nat ->
  all_alpha c = true /\
  b64_decode (c ++ rest) = (fst (b64_decode c) ++ fst (b64_decode rest), snd (b64_decode rest)).
Proof.
  unfold b64_decode. intros HL Hok Hlen.
  pose proof (b64_dec_len (strip_nl c)) as B. pose proof (strip_nl_length c) as S.
  assert (E : length (strip_nl c) = length c) by lia.
  apply strip_nl_full in E. rewrite E in *.
  pose proof (b64_dec_full_alpha c Hok Hlen) as HA.
  split; [exact HA|].
  rewrite strip_nl_app, E.
  destruct (b64_dec_alpha_app c (strip_nl rest) HA HL) as (I1 & _ & _). exact I1.
Qed.
