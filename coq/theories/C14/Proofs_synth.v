(* C14 — isSynthesizedCNAME as the translator reads it (Gen/C14.v: go_isSynthesizedCNAME with dns.CountLabel,
   dnsname.CompareSuffix, dns.PrevLabel translated from the sources) on the presentation strings of escape-free
   names is the RFC 6672 substitution: some DNAME owns a proper ancestor of the CNAME owner and the owner's labels
   above it, followed by the DNAME target, spell the CNAME target (both rooted, ASCII case-insensitively).
   CountLabel / NextLabel / CompareSuffix facts are C02's (the same translation: equal by reflexivity);
   the dns.PrevLabel walk is proved here. *)
From Sdns Require Import Common.Base Common.GoList Gen.C14 C14.Model.
From Sdns Require Gen.C02 C02.Model C02.Proofs_Gen C02.Proofs_Order.
Module P := Sdns.C02.Proofs_Gen.
Open Scope Z_scope.

Notation pres := P.pres.
Notation present := P.present.
Notation plain_name := P.plain_name.
Notation plain_label := P.plain_label.

Lemma same_CountLabel : go_CountLabel = Gen.C02.go_CountLabel.
Proof. reflexivity. Qed.
Lemma same_CompareSuffix : go_CompareSuffix = Gen.C02.go_CompareSuffix.
Proof. reflexivity. Qed.

(* ---- dns.PrevLabel on an escape-free presentation string *)
Lemma plain_no46 l : plain_label l -> ~ In 46%N l.
Proof. intros [_ [H _]]. exact H. Qed.
Lemma plain_no92 l : plain_label l -> ~ In 92%N l.
Proof. intros [_ [_ H]]. exact H. Qed.

(* the inner loop (backslashes before a dot) does not move when the octet before the dot is no backslash *)
Lemma prev_loop2_stop fuel s n i st l j : (1 <= fuel)%nat ->
  (0 <=? j) && (go_idx 0%N s j =? 92)%N = false ->
  go_PrevLabel_loop2 fuel fuel s n i st l j = (GoNext, (s, n, i, st, l, j)).
Proof. intros Hf E. destruct fuel as [|f]; [lia|]. cbn [go_PrevLabel_loop2]. rewrite E. reflexivity. Qed.

Ltac nlen := repeat (rewrite go_len_app || rewrite go_len_cons || rewrite (@go_len_nil N)).

(* scanning backwards over the rest [w] of a label: no dot in it *)
Lemma prev_scan_label fuel n i st : 0 < n -> forall w A rest lf, ~ In 46%N w -> (length w <= lf)%nat ->
  go_PrevLabel_loop1 fuel lf (A ++ w ++ rest) n i st (go_len (A ++ w) - 1) =
  go_PrevLabel_loop1 fuel (lf - length w) (A ++ w ++ rest) n i st (go_len A - 1).
Proof.
  intros Hn. induction w as [|x w IH] using rev_ind; intros A rest lf H46 Hlf.
  - rewrite app_nil_r. cbn [length]. rewrite Nat.sub_0_r. reflexivity.
  - rewrite app_length in Hlf. cbn [length] in Hlf.
    destruct lf as [|lf]; [lia|]. cbn [go_PrevLabel_loop1].
    assert (L : (0 <=? go_len (A ++ w ++ [x]) - 1) && (0 <? n) = true).
    { apply andb_true_iff. split; [apply Z.leb_le | apply Z.ltb_lt; lia]. nlen. pose proof (go_len_nonneg A). pose proof (go_len_nonneg w). lia. }
    rewrite L.
    assert (I : go_idx 0%N (A ++ (w ++ [x]) ++ rest) (go_len (A ++ w ++ [x]) - 1) = x).
    { replace (A ++ (w ++ [x]) ++ rest) with ((A ++ w) ++ x :: rest) by (rewrite <- !app_assoc; reflexivity).
      replace (go_len (A ++ w ++ [x]) - 1) with (go_len (A ++ w)) by (nlen; lia). apply P.go_idx_mid. }
    rewrite I.
    assert (Hx : (x =? 46)%N = false) by (apply N.eqb_neq; intros ->; apply H46; apply in_app_iff; right; left; reflexivity).
    rewrite Hx. cbn [negb].
    replace (go_len (A ++ w ++ [x]) - 1 - 1) with (go_len (A ++ w) - 1) by (nlen; lia).
    replace (A ++ (w ++ [x]) ++ rest) with (A ++ w ++ (x :: rest)) by (rewrite <- !app_assoc; reflexivity).
    rewrite IH; [| intros H; apply H46; apply in_app_iff; left; exact H | lia].
    rewrite app_length. cbn [length]. replace (S lf - (length w + 1))%nat with (lf - length w)%nat by lia. reflexivity.
Qed.

Lemma firstn_snoc_le {A} m (a : list A) x : (m <= length a)%nat -> firstn m (a ++ [x]) = firstn m a.
Proof. intros H. rewrite firstn_app. replace (m - length a)%nat with O by lia. cbn. apply app_nil_r. Qed.

(* k more separators to find; the unscanned prefix is pres a ++ w *)
Lemma prev_walk fuel i st : (1 <= fuel)%nat -> forall k a w rest lf,
  plain_name a -> ~ In 46%N w -> (1 <= k <= length a)%nat ->
  (length (pres a ++ w) < lf)%nat ->
  fst (go_PrevLabel_loop1 fuel lf (pres a ++ w ++ rest) (Z.of_nat k) i st (go_len (pres a ++ w) - 1)) =
  GoRet (go_len (pres (firstn (length a - (k - 1)) a)), false).
Proof.
  intros Hfuel. induction k as [|k IH]; intros a w rest lf Ha Hw Hk Hlf; [lia|].
  rewrite prev_scan_label by (try assumption; rewrite app_length in Hlf; lia).
  destruct a as [|lab0 a0] using rev_ind; [cbn in Hk; lia|]. clear IHa0. rename a0 into a, lab0 into lab.
  apply P.plain_name_app in Ha. destruct Ha as [Ha Hlab]. apply Forall_cons_iff in Hlab. destruct Hlab as [Hlab _].
  rewrite app_length in Hk. cbn [length] in Hk.
  rewrite P.pres_snoc in Hlf |- *. rewrite !app_length in Hlf. rewrite <- !app_assoc. cbn [app].
  set (lf' := (lf - length w)%nat). assert (Hlf' : (length (pres a) + length lab + 1 < lf')%nat) by (cbn [length] in Hlf; lia).
  destruct lf' as [|lf']; [lia|]. cbn [go_PrevLabel_loop1].
  pose proof (go_len_nonneg (pres a)) as Hp0. pose proof (go_len_nonneg lab) as Hl0.
  destruct Hlab as [Hne [H46 H92]].
  assert (Hlab1 : 1 <= go_len lab) by (destruct lab; [congruence|nlen; pose proof (go_len_nonneg lab); lia]).
  assert (L : (0 <=? go_len (pres a ++ lab ++ [46%N]) - 1) && (0 <? Z.of_nat (S k)) = true).
  { apply andb_true_iff. split; [apply Z.leb_le; nlen; lia | apply Z.ltb_lt; lia]. }
  rewrite L.
  assert (I : go_idx 0%N (pres a ++ lab ++ 46%N :: w ++ rest) (go_len (pres a ++ lab ++ [46%N]) - 1) = 46%N).
  { replace (pres a ++ lab ++ 46%N :: w ++ rest) with ((pres a ++ lab) ++ 46%N :: w ++ rest) by (rewrite <- app_assoc; reflexivity).
    replace (go_len (pres a ++ lab ++ [46%N]) - 1) with (go_len (pres a ++ lab)) by (nlen; lia). apply P.go_idx_mid. }
  rewrite I. cbn [N.eqb Pos.eqb negb].
  rewrite prev_loop2_stop; [| exact Hfuel |].
  2:{ apply andb_false_iff. right. apply N.eqb_neq. intros E. apply H92. rewrite <- E.
      replace (pres a ++ lab ++ 46%N :: w ++ rest) with (pres a ++ lab ++ (46%N :: w ++ rest)) by reflexivity.
      replace (go_len (pres a ++ lab ++ [46%N]) - 1 - 1) with (go_len (pres a) + (go_len lab - 1)) by (nlen; lia).
      rewrite P.go_idx_app_r by lia. rewrite P.go_idx_app_l by lia. apply P.go_idx_in. lia. }
  replace (go_len (pres a ++ lab ++ [46%N]) - 1 - 1 - (go_len (pres a ++ lab ++ [46%N]) - 1)) with (-1) by lia.
  change (Z.rem (-1) 2 =? 0) with false. cbv iota.
  replace (Z.of_nat (S k) - 1) with (Z.of_nat k) by lia.
  destruct k as [|k].
  - cbn [Z.of_nat Z.eqb fst]. rewrite Nat.sub_0_r, firstn_all, P.pres_snoc. f_equal. f_equal. nlen. lia.
  - replace (Z.of_nat (S k) =? 0) with false by (symmetry; apply Z.eqb_neq; lia).
    replace (pres a ++ lab ++ 46%N :: w ++ rest) with (pres a ++ lab ++ (46%N :: w ++ rest)) by reflexivity.
    replace (go_len (pres a ++ lab ++ [46%N]) - 1 - 1) with (go_len (pres a ++ lab) - 1) by (nlen; lia).
    rewrite IH; [| exact Ha | exact H46 | lia | rewrite app_length; lia].
    rewrite app_length. cbn [length].
    replace (length a + 1 - (S (S k) - 1))%nat with (length a - (S k - 1))%nat by lia.
    rewrite firstn_snoc_le by lia. reflexivity.
Qed.

(* dns.PrevLabel(present o, n) for 0 < n < labels: the offset where the last n labels begin *)
Lemma prev_label_present fuel o n : plain_name o -> (1 <= n < length o)%nat -> (length (present o) < fuel)%nat ->
  go_PrevLabel fuel (present o) (Z.of_nat n) = Some (go_len (pres (firstn (length o - n) o)), false).
Proof.
  intros Ho Hn Hf. destruct o as [|l0 o0] using rev_ind; [cbn in Hn; lia|]. clear IHo0. rename o0 into o, l0 into lab.
  assert (Hpres : present (o ++ [lab]) = pres o ++ lab ++ [46%N]).
  { unfold P.present. destruct (o ++ [lab]) eqn:E; [destruct o; discriminate|]. rewrite <- E. apply P.pres_snoc. }
  rewrite Hpres in *. unfold go_PrevLabel.
  destruct (go_list_eqb N.eqb (pres o ++ lab ++ [46%N]) []) eqn:E.
  { apply go_bytes_eqb_eq in E. destruct (pres o); destruct lab; discriminate. }
  replace (Z.of_nat n =? 0) with false by (symmetry; apply Z.eqb_neq; lia). cbv zeta.
  assert (I : go_idx 0%N (pres o ++ lab ++ [46%N]) (go_len (pres o ++ lab ++ [46%N]) - 1) = 46%N).
  { replace (pres o ++ lab ++ [46%N]) with ((pres o ++ lab) ++ [46%N]) by (rewrite <- app_assoc; reflexivity).
    replace (go_len ((pres o ++ lab) ++ [46%N]) - 1) with (go_len (pres o ++ lab)) by (nlen; lia). apply P.go_idx_mid. }
  rewrite I. cbn [N.eqb Pos.eqb].
  apply P.plain_name_app in Ho. destruct Ho as [Ho Hlab]. apply Forall_cons_iff in Hlab. destruct Hlab as [Hlab _].
  rewrite app_length in Hn. cbn [length] in Hn.
  replace (go_len (pres o ++ lab ++ [46%N]) - 1 - 1) with (go_len (pres o ++ lab) - 1) by (nlen; lia).
  pose proof (prev_walk fuel 0 false ltac:(lia) n o lab [46%N] fuel Ho (plain_no46 _ Hlab) ltac:(lia)) as W.
  rewrite !app_length in Hf. cbn [length] in Hf.
  specialize (W ltac:(rewrite app_length; lia)).
  destruct (go_PrevLabel_loop1 fuel fuel (pres o ++ lab ++ [46%N]) (Z.of_nat n) 0 false (go_len (pres o ++ lab) - 1)) as [c stt].
  cbn [fst] in W. subst c. f_equal. f_equal. f_equal. f_equal.
  replace (length o - (n - 1))%nat with (length o + 1 - n)%nat by lia.
  rewrite app_length. cbn [length]. rewrite firstn_snoc_le by lia. reflexivity.
Qed.

(* ---- isSynthesizedCNAME *)
Definition dn_rec (d : C02.Model.name * list N) : T_DNAME := dname_rec (present (fst d), snd d).
(* RFC 6672 3.3 for one DNAME (owner dn, target dt) against the CNAME owner o -> t *)
Definition synth_one (o : C02.Model.name) (t : list N) (d : C02.Model.name * list N) : bool :=
  let dl := length (fst d) in
  if ((dl =? 0) || (length o <=? dl))%nat then false
  else if negb (C02.Model.lcp (C02.Model.canon (fst d)) (C02.Model.canon o) =? dl)%nat then false
  else go_equal_fold_ascii (go_fqdn_ascii (pres (firstn (length o - dl) o) ++ snd d)) (go_fqdn_ascii t).

Lemma pres_firstn_slice o m : (m <= length o)%nat ->
  go_slice_to (pres o) (go_len (pres (firstn m o))) = pres (firstn m o).
Proof.
  intros Hm. rewrite <- (firstn_skipn m o) at 1. rewrite P.pres_app. unfold go_slice_to, go_len.
  rewrite Nat2Z.id, firstn_app, Nat.sub_diag, firstn_all. cbn. apply app_nil_r.
Qed.
Lemma present_nonempty o : o <> [] -> present o = pres o.
Proof. destruct o; [congruence|reflexivity]. Qed.

Lemma present_firstn_slice o m : o <> [] -> (m <= length o)%nat ->
  go_slice_to (present o) (go_len (pres (firstn m o))) = pres (firstn m o).
Proof. intros Hne Hm. rewrite present_nonempty by exact Hne. apply pres_firstn_slice. exact Hm. Qed.

Lemma idx_map_mid (pre : list (C02.Model.name * list N)) d rest :
  go_idx zero_T_DNAME (map dn_rec (pre ++ d :: rest)) (Z.of_nat (length pre)) = dn_rec d.
Proof.
  rewrite map_app. cbn [map]. rewrite <- (map_length dn_rec pre).
  rewrite go_idx_nth by lia. rewrite Nat2Z.id, app_nth2 by lia. rewrite Nat.sub_diag. reflexivity.
Qed.

Section Synth.
  Variable fuel : nat.
  Variable o : C02.Model.name.
  Variable t : list N.
  Hypothesis Ho : plain_name o.
  Local Notation ow := (present o).
  Local Notation cn := (cname_rec (present o) t).

  Definition fuel_ok (d : C02.Model.name * list N) : Prop :=
    plain_name (fst d) /\ (length (present (fst d)) + length ow < fuel)%nat.

  Lemma synth_loop vd : forall lf pre rest, Forall fuel_ok rest -> (length rest < lf)%nat ->
    fst (go_isSynthesizedCNAME_loop1 fuel (map dn_rec (pre ++ rest)) lf (Z.of_nat (length pre)) cn vd ow (Z.of_nat (length o))) =
    if existsb (synth_one o t) rest then GoRet true else GoNext.
  Proof.
    induction lf as [|lf IH]; intros pre rest Hr Hlf; [lia|].
    cbn [go_isSynthesizedCNAME_loop1].
    destruct rest as [|d rest].
    - rewrite app_nil_r. unfold go_len. rewrite map_length, Z.ltb_irrefl. reflexivity.
    - assert (L : (Z.of_nat (length pre) <? go_len (map dn_rec (pre ++ d :: rest))) = true)
        by (apply Z.ltb_lt; unfold go_len; rewrite map_length, app_length; cbn; lia).
      rewrite L. cbv zeta. rewrite idx_map_mid.
      apply Forall_cons_iff in Hr. destruct Hr as [[Hd Hfd] Hr].
      cbn [dn_rec dname_rec go_DNAME_Header T_DNAME_Hdr T_RR_Header_Name T_DNAME_Target fst snd].
      rewrite same_CountLabel, P.count_label_present by (assumption || lia).
      cbn [existsb]. unfold synth_one at 1. cbv zeta.
      assert (R : pre ++ d :: rest = (pre ++ [d]) ++ rest) by (rewrite <- app_assoc; reflexivity).
      assert (NX : Z.of_nat (length pre) + 1 = Z.of_nat (length (pre ++ [d]))) by (rewrite app_length; cbn; lia).
      cbn [length] in Hlf.
      replace (Z.of_nat (length (fst d)) =? 0) with (length (fst d) =? 0)%nat
        by (destruct (Nat.eqb_spec (length (fst d)) 0) as [E|E]; [rewrite E; reflexivity | symmetry; apply Z.eqb_neq; lia]).
      replace (Z.of_nat (length o) <=? Z.of_nat (length (fst d))) with (length o <=? length (fst d))%nat
        by (destruct (Nat.leb_spec (length o) (length (fst d))); symmetry; [apply Z.leb_le | apply Z.leb_gt]; lia).
      destruct ((length (fst d) =? 0)%nat || (length o <=? length (fst d))%nat) eqn:G.
      + rewrite NX, R. cbn [orb]. apply IH; [exact Hr | lia].
      + apply orb_false_iff in G. destruct G as [G0 G1]. apply Nat.eqb_neq in G0. apply Nat.leb_gt in G1.
        rewrite same_CompareSuffix.
        rewrite (P.gen_compare_suffix fuel (fst d) o Hd Ho) by lia.
        rewrite C02.Proofs_Order.go_compare_suffix_spec.
        set (n := C02.Model.lcp (C02.Model.canon (fst d)) (C02.Model.canon o)).
        replace (Z.of_nat n =? Z.of_nat (length (fst d))) with (n =? length (fst d))%nat
          by (destruct (Nat.eqb_spec n (length (fst d))) as [E|E]; [rewrite E; symmetry; apply Z.eqb_refl | symmetry; apply Z.eqb_neq; lia]).
        destruct (n =? length (fst d))%nat eqn:En; cbn [negb].
        * apply Nat.eqb_eq in En.
          rewrite prev_label_present by (try assumption; lia).
          rewrite En. rewrite present_firstn_slice; [| destruct o; [cbn in G1; lia|discriminate] | lia].
          cbn [cname_rec T_CNAME_Target].
          destruct (go_equal_fold_ascii _ _); [reflexivity|].
          rewrite NX, R. cbn [orb]. apply IH; [exact Hr | lia].
        * rewrite NX, R. cbn [orb]. apply IH; [exact Hr | lia].
  Qed.

  Theorem gen_is_synthesized_cname ds : Forall fuel_ok ds -> (length ow < fuel)%nat ->
    go_isSynthesizedCNAME fuel cn (map dn_rec ds) = Some (existsb (synth_one o t) ds).
  Proof.
    intros Hds Hf. unfold go_isSynthesizedCNAME. cbv zeta.
    cbn [cname_rec go_CNAME_Header T_CNAME_Hdr T_RR_Header_Name].
    rewrite same_CountLabel, P.count_label_present by (assumption || exact Hf).
    pose proof (synth_loop (map dn_rec ds) (S (length (map dn_rec ds))) [] ds Hds ltac:(rewrite map_length; lia)) as G.
    cbn [app length] in G. change (Z.of_nat 0) with 0 in G. cbn [cname_rec] in G.
    destruct (go_isSynthesizedCNAME_loop1 fuel (map dn_rec ds) (S (length (map dn_rec ds))) 0 cn (map dn_rec ds) ow (Z.of_nat (length o))) as [c st].
    cbn [fst] in G. subst c. destruct (existsb (synth_one o t) ds); [reflexivity|].
    destruct st as [[[? ?] ?] ?]. reflexivity.
  Qed.
End Synth.

(* ---- the model's is_synthesized_cname (= the translation run with synth_fuel) *)
Definition present_d (d : C02.Model.name * list N) : list N * list N := (present (fst d), snd d).

Lemma synth_fuel_covers owner t (l : list (list N * list N)) d : In d l ->
  (length (fst d) + length owner < synth_fuel owner t l)%nat.
Proof.
  unfold synth_fuel. intros Hin.
  assert (S : (length (fst d) <= fold_right (fun d acc => (length (fst d) + length (snd d) + acc)%nat) O l)%nat).
  { induction l as [|x l IH]; [destruct Hin|]. cbn [fold_right]. destruct Hin as [->|Hin]; [lia|]. specialize (IH Hin). lia. }
  lia.
Qed.

Theorem model_synthesized_cname_plain o t ds : plain_name o -> Forall (fun d => plain_name (fst d)) ds ->
  is_synthesized_cname (present o) t (map present_d ds) = existsb (synth_one o t) ds.
Proof.
  intros Ho Hds. unfold is_synthesized_cname.
  rewrite map_map. change (fun x => dname_rec (present_d x)) with dn_rec.
  rewrite (gen_is_synthesized_cname _ o t Ho ds); [reflexivity| |unfold synth_fuel; lia].
  apply Forall_forall. intros d Hd. split; [exact (proj1 (Forall_forall _ _) Hds d Hd)|].
  apply (synth_fuel_covers (present o) t (map present_d ds) (present_d d)). apply in_map. exact Hd.
Qed.

Theorem model_synthesized_cname_plain_iff o t ds : plain_name o -> Forall (fun d => plain_name (fst d)) ds ->
  (is_synthesized_cname (present o) t (map present_d ds) = true <->
   exists d, In d ds /\ (0 < length (fst d) < length o)%nat /\
     C02.Model.lcp (C02.Model.canon (fst d)) (C02.Model.canon o) = length (fst d) /\
     go_equal_fold_ascii (go_fqdn_ascii (pres (firstn (length o - length (fst d)) o) ++ snd d)) (go_fqdn_ascii t) = true).
Proof.
  intros Ho Hds. rewrite model_synthesized_cname_plain by assumption. rewrite existsb_exists.
  split; intros (d & Hd & H); exists d; (split; [exact Hd|]); unfold synth_one in *; cbv zeta in *.
  - destruct (length (fst d) =? 0)%nat eqn:E0; [discriminate|]. apply Nat.eqb_neq in E0.
    destruct (length o <=? length (fst d))%nat eqn:E1; [discriminate|]. apply Nat.leb_gt in E1. cbn [orb] in H.
    destruct (C02.Model.lcp _ _ =? length (fst d))%nat eqn:E2; [|discriminate]. apply Nat.eqb_eq in E2. cbn [negb] in H.
    repeat split; try lia; assumption.
  - destruct H as ((H0 & H1) & H2 & H3).
    replace (length (fst d) =? 0)%nat with false by (symmetry; apply Nat.eqb_neq; lia).
    replace (length o <=? length (fst d))%nat with false by (symmetry; apply Nat.leb_gt; lia).
    cbn [orb]. rewrite H2, Nat.eqb_refl. cbn [negb]. exact H3.
Qed.
