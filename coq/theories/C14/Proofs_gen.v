(* C14 — translator ties: what the proofs expect of the constants and tables
   srcgen regenerates from /repo.  A changed constant, a case added to or
   removed from one of the switches, or an edited DigestInfo prefix makes one of
   these fail before any test runs. *)
From Sdns Require Import Common.Base Gen.C14 C14.Model C14.Proofs_rsa C14.Proofs_keytag C14.Proofs_verify.
Open Scope N_scope.

Lemma gen_keytag_constants :
  key_tag_chunk = 256 /\ kt_out_len = 192 /\ max_ds_key_material = 4092 /\ key_material_limit = 5456.
Proof. repeat split; reflexivity. Qed.

Lemma gen_rsa_constants :
  min_rsa_modulus_bits = 1024 /\ max_rsa_modulus_bits = 4096 /\ max_rsa_exponent_bits = 64 /\ rsa_min_exponent = 3 /\
  stdlib_exponent_bits = 31 /\ max_stdlib_rsa_exponent = 2 ^ 31 - 1 /\ pkcs1_min_overhead = 11.
Proof. repeat split; reflexivity. Qed.

Lemma gen_layout_constants :
  rr_fixed_header = 10 /\ max_label_octets = 63 /\ signer_name_buffer = 256 /\ ds_owner_buffer = 255 /\
  binding_protocol = 3 /\ candidate_protocol = 3 /\ ds_candidate_protocol = 3 /\ ecdsa_max_coordinate = 48.
Proof. repeat split; reflexivity. Qed.

(* the prefixes written in rsaHash are the DigestInfo prefixes of RFC 8017 9.2,
   and rsaHash / rsaCryptoHash name the same digest for every algorithm *)
Lemma gen_rsa_digestinfo : forall a, a < 256 -> rsa_tables_ok a = true.
Proof. exact rsa_tables_agree. Qed.

(* the five algorithm / digest switches are mutually consistent and are the documented sets *)
Lemma gen_algorithm_tables : forall a, a < 256 -> tables_ok a = true.
Proof. exact tables_agree. Qed.

Lemma gen_keytag_rsamd5_branch : forall alg, (alg =? keytag_rsamd5_alg_value) = (alg =? 1).
Proof. exact in_names_rsamd5. Qed.

(* the record types whose embedded names are folded: RFC 4034 6.2 as corrected by RFC 6840 5.1
   (NS MD MF CNAME SOA MB MG MR PTR MINFO MX RP AFSDB RT SIG PX NAPTR KX SRV DNAME) *)
Definition rfc4034_6_2_types : list (list N) :=
  [ [78;83]; [77;68]; [77;70]; [67;78;65;77;69]; [83;79;65]; [77;66]; [77;71]; [77;82]; [80;84;82];
    [77;73;78;70;79]; [77;88]; [82;80]; [65;70;83;68;66]; [82;84]; [83;73;71]; [80;88];
    [78;65;80;84;82]; [75;88]; [83;82;86]; [68;78;65;77;69] ].
Lemma gen_canonical_rdata_types : forall t, mem_str t canonical_rdata_types = mem_str t rfc4034_6_2_types.
Proof. intros t. reflexivity. Qed.
