(* C14 — correspondence: case type and the two checkers evaluated with
   vm_compute on the observations the Go drivers recorded.
   check_case: the model computes what the implementation did.
   spec_case : what the implementation did satisfies the property's
               specification, judged directly against the independent
               reference (library verdicts recorded by the driver, RFC
               formulas and big-integer arithmetic evaluated here). *)
From Coq Require Export String Ascii.
From Sdns Require Export Common.Base Gen.C14 C14.Model C14.Fast.
Open Scope N_scope.

(* Modular exponentiation is evaluated with [powmod_fast] (Fast.v: BigN limbs, proved equal to the
   model's [powmod]; the *_pm_eq lemmas there carry the equality to every model function used below). *)

(* compact literals: text and hexadecimal *)
Definition bs (s : string) : list N := map N_of_ascii (list_ascii_of_string s).
Fixpoint hx_go (l : list N) : list N :=
  match l with
  | a :: b :: r => (hex_digit a * 16 + hex_digit b) :: hx_go r
  | _ => []
  end.
Definition hx (s : string) : list N := hx_go (bs s).
(* a big number written in hexadecimal *)
Definition hn (s : string) : N := fold_left (fun acc c => acc * 16 + hex_digit c) (bs s) 0.
Arguments bs s%string.
Arguments hx s%string.
Arguments hn s%string.

(* oracle data recorded by the driver for one case: the message that was
   hashed / signed, its digests per hash id, and the verdicts of the elliptic
   primitives on exactly that message *)
Record oracle := mk_orc {
  o_msg : list N;
  o_digests : list (N * list N);
  o_ecp : bool; o_ecv : bool; o_edv : bool }.
Definition no_oracle : oracle := mk_orc [] [] false false false.
Definition orc_H (o : oracle) (hid : N) (msg : list N) : list N :=
  if list_eqb msg (o_msg o) then
    match find (fun p => fst p =? hid) (o_digests o) with Some p => snd p | None => [] end
  else [].
Definition orc_ECP (o : oracle) (_ : N) (_ : list N) : bool := o_ecp o.
Definition orc_ECV (o : oracle) (_ : N) (_ : list N) (dg : list N) (_ : list N) : bool := negb (is_nil dg) && o_ecv o.
Definition orc_EDV (o : oracle) (_ : list N) (msg : list N) (_ : list N) : bool := list_eqb msg (o_msg o) && o_edv o.
(* the library's Verify is never reached for an algorithm the package implements;
   for the others it always fails: any non-zero value *)
Definition orc_LIBV (_ : dnskey) (_ : rrsig) (_ : list rr) : N := 5.

(* hash oracle over several messages (VerifyDS / VerifyRRSIG cases) *)
Definition tbl_H (t : list oracle) (hid : N) (msg : list N) : list N :=
  match find (fun o => list_eqb msg (o_msg o)) t with
  | Some o => orc_H o hid msg
  | None => []
  end.
Definition tbl_ECP (t : list (list N * bool)) (_ : N) (pub : list N) : bool :=
  match find (fun p => list_eqb (fst p) pub) t with Some p => snd p | None => false end.
(* elliptic verdicts keyed by (public key, signature), valid for the message in the oracle list *)
Definition tbl_EV (t : list (list N * list N * bool)) (pub sg : list N) : bool :=
  match find (fun p => list_eqb (fst (fst p)) pub && list_eqb (snd (fst p)) sg) t with Some p => snd p | None => false end.

Inductive case :=
  (* dns.<name> as the compiled program sees it *)
| CaseConst (name : list N) (value : N)
  (* fromBase64(s) = (out, err == nil) *)
| CaseB64 (s out : list N) (ok : bool)
  (* oversizedKeyMaterial *)
| CaseOversized (pk : list N) (got : bool)
  (* dnssec.KeyTag vs dns.DNSKEY.KeyTag (None: the library panicked) *)
| CaseKeyTag (flags proto alg : N) (pk : list N) (got : N) (lib : option N)
  (* parseRSAPublicKey = (n, e) vs the library's publicKeyRSA *)
| CaseRSAParse (pk : list N) (got lib : option (N * N))
  (* usableRSAKey *)
| CaseRSAUsable (n e : N) (got : bool)
  (* rsaVerifyPKCS1v15(n, e, rsaHash(alg).prefix, hashed, sig) == nil, and math/big's verdict *)
| CaseRSAVerify (n e alg : N) (hashed sg : list N) (got ref : bool)
  (* name helpers of miekg/dns and dnsutil as the code uses them:
     CanonicalName, IsFqdn, CountLabel, PrevLabel(s, n), NameInZone(s, zone), PackDomainName into a 255 buffer *)
| CaseName (s zone : list N) (n : N) (canon : list N) (fq : bool) (cnt prev : N) (inzone : bool) (wire : option (list N))
  (* rrsigSignedData; lib: the octets (ED25519) the library's Sign hands to the signer for the same set *)
| CaseSigned (s : rrsig) (rrset : list rr) (got : N + list N) (lib : option (list N))
  (* signatureBinding vs the library's preflight (ran: Some accepted?; None: the library panicked) *)
| CaseBinding (k : dnskey) (s : rrsig) (rrset : list rr) (got : N) (lib : option bool)
  (* the same on inputs outside the property's domain (names that cannot come out of the
     library's unpacker): recorded to show that the hypotheses of the binding theorem are needed *)
| CaseProbe (k : dnskey) (s : rrsig) (rrset : list rr) (got : N) (lib : option bool)
  (* cryptoVerify.  libok: dns.RRSIG.Verify == nil; refok: verdict of the independent reference
     (library, or math/big for exponents the library cannot load); eqdom: the input is outside every
     documented deliberate difference, so the verdicts must be equal *)
| CaseVerify (k : dnskey) (s : rrsig) (rrset : list rr) (o : oracle) (got : N) (libok refok eqdom : bool)
  (* dsDigestMatches vs ToDS *)
| CaseDSMatch (k : dnskey) (dt : N) (want : list N) (o : oracle) (got lib : bool)
  (* VerifyDS(keyMap, set) = (unsupportedOnly, err == nil) vs the same decision taken with ToDS / library KeyTag *)
| CaseVerifyDS (keymap : list (N * list dnskey)) (dss : list ds) (t : list oracle) (got ref : bool * bool)
               (* which error VerifyDS returned (0 nil, 1 ErrMissingKSK, 2 ErrMismatchingDS, 3 ErrFailedToConvertKSK, 9 another);
                  DSMatchedKeys(keyMap, set, nil) as its non-empty buckets by ascending tag; refm: the keys of each bucket
                  for which the library's ToDS / KeyTag reproduce a supported DS of the set *)
               (code : N) (matched refm : list (N * list dnskey))
  (* VerifyDS on a DS set outside the property's domain (an owner that is not fully qualified cannot come out of
     the wire decoder): the walk model is checked, nothing is judged — the witness of ds_order_needs_fqdn_owners *)
| CaseDSProbe (keymap : list (N * list dnskey)) (dss : list ds) (t : list oracle) (unsupported_only : bool) (code : N)
  (* verifyOneSig(keys, set, sig) == nil; ref: some key of the list verifies under the library / math/big *)
| CaseOneSig (keys : list (N * list dnskey)) (set : list rr) (s : rrsig) (valid_now : bool)
             (t : list oracle) (ecp : list (list N * bool)) (ev : list (list N * list N * bool))
             (got ref eqdom : bool)
             (* which error verifyOneSig returned: 0 nil, 1 ErrMissingSigned, 2 ErrMissingDNSKEY, 3 dns.ErrSig, 4 an error of the
                library's packer, 5 ErrInvalidSignaturePeriod, 6 dns.ErrAlg, 9 another *)
             (code : N)
  (* VerifyRRSIG(signer, keys, msg) = ok && err == nil on a whole message (answer and authority
     sections in order, each RRSIG with its ValidityPeriod(now)); ref: the Go-side reference *)
| CaseMsg (signer : list N) (keys : list (N * list dnskey)) (answer ns : list mitem)
          (t : list oracle) (ecp : list (list N * bool)) (ev : list (list N * list N * bool))
          (got ref eqdom : bool)
          (* which error VerifyRRSIG returned: as above, and 7 ErrNoSignatures *)
          (code : N)
  (* VerifyRRSIG on a message outside the property's domain (a signer field that is not fully qualified cannot come out
     of the wire decoder): the walk model with its error is checked, nothing is judged — the witness of
     sig_order_needs_fqdn_signers *)
| CaseMsgProbe (signer : list N) (keys : list (N * list dnskey)) (answer ns : list mitem)
          (t : list oracle) (ecp : list (list N * bool)) (ev : list (list N * list N * bool)) (code : N)
  (* internal/dnsname.CompareSuffix(a, b) as isSynthesizedCNAME uses it; lib: dns.CompareDomainName,
     wf: both names are well-formed and fully qualified (where the two must agree) *)
| CaseSuffix (a b : list N) (got lib : N) (wf : bool)
  (* isSynthesizedCNAME(owner -> target, dnames as (owner, target)); ref: the RFC 6672 substitution
     done with the library's Split / CompareDomainName *)
| CaseSynth (owner target : list N) (dnames : list (list N * list N)) (got ref wf : bool).

Definition opt_eqb {A} (eq : A -> A -> bool) (a b : option A) : bool :=
  match a, b with
  | None, None => true
  | Some x, Some y => eq x y
  | _, _ => false
  end.
Definition pair_eqb (a b : N * N) : bool := (fst a =? fst b) && (snd a =? snd b).
Definition sum_eqb (a b : N + list N) : bool :=
  match a, b with
  | inl x, inl y => x =? y
  | inr x, inr y => list_eqb x y
  | _, _ => false
  end.
Definition bb_eqb (a b : bool * bool) : bool := Bool.eqb (fst a) (fst b) && Bool.eqb (snd a) (snd b).
Definition key_eqb (a b : dnskey) : bool :=
  list_eqb (k_name a) (k_name b) && (k_class a =? k_class b) && (k_flags a =? k_flags b) && (k_proto a =? k_proto b)
  && (k_alg a =? k_alg b) && list_eqb (k_pub a) (k_pub b).
Fixpoint keys_eqb (a b : list dnskey) : bool :=
  match a, b with
  | [], [] => true
  | x :: xs, y :: ys => key_eqb x y && keys_eqb xs ys
  | _, _ => false
  end.
Fixpoint km_eqb (a b : list (N * list dnskey)) : bool :=
  match a, b with
  | [], [] => true
  | x :: xs, y :: ys => (fst x =? fst y) && keys_eqb (snd x) (snd y) && km_eqb xs ys
  | _, _ => false
  end.
(* the same buckets holding the same keys, in any order inside a bucket *)
Definition keys_incl (a b : list dnskey) : bool := forallb (fun x => existsb (key_eqb x) b) a.
Fixpoint km_same_sets (a b : list (N * list dnskey)) : bool :=
  match a, b with
  | [], [] => true
  | x :: xs, y :: ys => (fst x =? fst y) && keys_incl (snd x) (snd y) && keys_incl (snd y) (snd x) && km_same_sets xs ys
  | _, _ => false
  end.

Definition check_case (c : case) : bool :=
  match c with
  | CaseConst name value => dns_const name =? value
  | CaseB64 s out ok => let d := b64_decode s in list_eqb (fst d) out && Bool.eqb (snd d) ok
  | CaseOversized pk got => Bool.eqb (oversized pk) got
  | CaseKeyTag flags proto alg pk got lib =>
      (keytag flags proto alg pk =? got) && opt_eqb N.eqb (keytag_lib flags proto alg pk) lib
  | CaseRSAParse pk got _ => opt_eqb pair_eqb (parse_rsa pk) got
  | CaseRSAUsable n e got => Bool.eqb (usable_rsa n e) got
  | CaseRSAVerify n e alg hashed sg got _ =>
      match rsa_hash alg with
      | Some (_, prefix) => Bool.eqb (rsa_verify_with powmod_fast n e prefix hashed sg) got
      | None => false
      end
  | CaseName s zone n canon fq cnt prev inzone wire =>
      list_eqb (canonical_name s) canon && Bool.eqb (is_fqdn s) fq && (count_label s =? cnt)
      && (prev_label s n =? prev) && Bool.eqb (name_in_zone s zone) inzone
      && opt_eqb list_eqb (pack_name s 255) wire
  | CaseSigned s rrset got _ => sum_eqb (signed_data s rrset) got
  | CaseBinding k s rrset got lib =>
      (signature_binding k s rrset =? got) && opt_eqb Bool.eqb (lib_preflight k s rrset) lib
  | CaseProbe k s rrset got lib =>
      (signature_binding k s rrset =? got) && opt_eqb Bool.eqb (lib_preflight k s rrset) lib
  | CaseVerify k s rrset o got _ _ _ =>
      let m := crypto_verify_pm powmod_fast (orc_H o) (orc_ECP o) (orc_ECV o) (orc_EDV o) orc_LIBV k s rrset in
      if verify_signature_supported (k_alg k) then m =? got else negb (got =? 0)
  | CaseDSMatch k dt want o got _ => Bool.eqb (ds_digest_matches (orc_H o) k dt want) got
  | CaseVerifyDS keymap dss t got _ code matched _ =>
      bb_eqb (verify_ds (tbl_H t) keymap dss) got
      && (let r := verify_ds_code (tbl_H t) keymap dss in Bool.eqb (fst r) (fst got) && (snd r =? code))
      && km_eqb (ds_matched_keys (tbl_H t) keymap dss) matched
  | CaseDSProbe keymap dss t u code =>
      let r := verify_ds_code (tbl_H t) keymap dss in Bool.eqb (fst r) u && (snd r =? code)
  | CaseOneSig keys set s valid_now t ecp ev got _ _ code =>
      Bool.eqb (verify_one_sig_pm powmod_fast (tbl_H t) (tbl_ECP ecp) (fun _ pub dg sg => negb (is_nil dg) && tbl_EV ev pub sg)
                               (fun pub msg sg => existsb (fun o => list_eqb msg (o_msg o)) t && tbl_EV ev pub sg)
                               orc_LIBV keys set s valid_now) got
      && (verify_one_sig_code_pm powmod_fast (tbl_H t) (tbl_ECP ecp) (fun _ pub dg sg => negb (is_nil dg) && tbl_EV ev pub sg)
                               (fun pub msg sg => existsb (fun o => list_eqb msg (o_msg o)) t && tbl_EV ev pub sg)
                               orc_LIBV keys set s valid_now =? code)
  | CaseMsg signer keys answer ns t ecp ev got _ _ code =>
      Bool.eqb (verify_rrsig_pm powmod_fast (tbl_H t) (tbl_ECP ecp) (fun _ pub dg sg => negb (is_nil dg) && tbl_EV ev pub sg)
                               (fun pub msg sg => existsb (fun o => list_eqb msg (o_msg o)) t && tbl_EV ev pub sg)
                               orc_LIBV signer keys answer ns) got
      && (verify_rrsig_code_pm powmod_fast (tbl_H t) (tbl_ECP ecp) (fun _ pub dg sg => negb (is_nil dg) && tbl_EV ev pub sg)
                               (fun pub msg sg => existsb (fun o => list_eqb msg (o_msg o)) t && tbl_EV ev pub sg)
                               orc_LIBV signer keys answer ns =? code)
  | CaseMsgProbe signer keys answer ns t ecp ev code =>
      verify_rrsig_code_pm powmod_fast (tbl_H t) (tbl_ECP ecp) (fun _ pub dg sg => negb (is_nil dg) && tbl_EV ev pub sg)
                               (fun pub msg sg => existsb (fun o => list_eqb msg (o_msg o)) t && tbl_EV ev pub sg)
                               orc_LIBV signer keys answer ns =? code
  | CaseSuffix a b got _ _ => (compare_suffix a b =? got) && (compare_suffix_spec a b =? got)
  | CaseSynth owner target dnames got _ _ =>
      Bool.eqb (is_synthesized_cname owner target dnames) got && Bool.eqb (is_synthesized_cname_spec owner target dnames) got
  end.

(* ------------------------------------------------------------------ spec *)
(* RFC 4034 Appendix B on RDATA; the documented key-size ceiling *)
Definition spec_keytag (flags proto alg : N) (pk : list N) : option N :=
  let d := b64_decode pk in
  if alg =? 1 then
    (* RFC 4034 B.1 / erratum 193: the two octets below the last one of the modulus *)
    match rev (fst d) with
    | _ :: b1 :: b0 :: _ => Some (b0 * 256 + b1)
    | _ => Some 0
    end
  else if negb (snd d) then None                                  (* no RDATA to sum: only "agrees with the library" applies *)
  else if 4092 <? len (fst d) then Some 0
  else Some (keytag_rfc (be16 flags ++ [proto; alg] ++ fst d)).

(* documented bounds of usableRSAKey, written out *)
Definition spec_usable (n e : N) : bool :=
  (1024 <=? N.size n) && (N.size n <=? 4096) && N.odd e && (3 <=? e) && (e <? n) && (N.size e <=? 64).

(* RFC 8017 8.2.2 with the standard DigestInfo prefixes, over numbers *)
Definition spec_digestinfo (alg : N) : list N :=
  if (alg =? 5) || (alg =? 7) then [48;33;48;9;6;5;43;14;3;2;26;5;0;4;20]
  else if alg =? 8 then [48;49;48;13;6;9;96;134;72;1;101;3;4;2;1;5;0;4;32]
  else if alg =? 10 then [48;81;48;13;6;9;96;134;72;1;101;3;4;2;3;5;0;4;64]
  else [].
Definition spec_rsa_verify (n e alg : N) (hashed sg : list N) : bool :=
  let k := (N.size n + 7) / 8 in
  let t := spec_digestinfo alg ++ hashed in
  if (len sg =? k) && (os2ip sg <? n) && (len t + 11 <=? k)
  then powmod_fast (os2ip sg) e n =? os2ip ([0; 1] ++ repeat 255 (N.to_nat (k - len t - 3)) ++ [0] ++ t)
  else false.

(* the observed signed data parsed back: RRSIG RDATA prefix, signer name, then
   records that all carry the signature's original TTL, one lower-case owner,
   and strictly ascending RDATA (sorted, duplicate-free) *)
Fixpoint name_wire_len (fuel : nat) (w : list N) (acc : N) : option N :=
  match fuel with
  | O => None
  | S f =>
    match w with
    | [] => None
    | l :: r => if l =? 0 then Some (acc + 1)
                else if (63 <? l) || (len r <? l) then None
                else name_wire_len f (skipn (N.to_nat l) r) (acc + 1 + l)
    end
  end.
Definition take (n : N) (l : list N) := firstn (N.to_nat n) l.
Definition drop (n : N) (l : list N) := skipn (N.to_nat n) l.
Definition no_upper (l : list N) : bool := forallb (fun c => negb ((65 <=? c) && (c <=? 90))) l.
Fixpoint parse_rrs (fuel : nat) (w : list N) : option (list (list N * list N * list N)) :=  (* owner, fixed header, rdata *)
  match fuel with
  | O => None
  | S f =>
    match w with
    | [] => Some []
    | _ =>
      match name_wire_len (S (length w)) w 0 with
      | None => None
      | Some nl =>
        let rest := drop nl w in
        if len rest <? 10 then None else
        let rdlen := os2ip (take 2 (drop 8 rest)) in
        if len rest <? 10 + rdlen then None else
        match parse_rrs f (drop (10 + rdlen) rest) with
        | Some t => Some ((take nl w, take 10 rest, take rdlen (drop 10 rest)) :: t)
        | None => None
        end
      end
    end
  end.
Fixpoint strictly_ascending (l : list (list N)) : bool :=
  match l with
  | a :: ((b :: _) as r) => bytes_lt a b && strictly_ascending r
  | _ => true
  end.
Definition spec_signed_layout (s : rrsig) (n_rr : nat) (got : list N) : bool :=
  let pre := sig_rdata_prefix s in
  has_prefix pre got &&
  match name_wire_len (S (length got)) (drop 18 got) 0 with
  | None => false
  | Some nl =>
    no_upper (take nl (drop 18 got)) &&
    match parse_rrs (S (length got)) (drop (18 + nl) got) with
    | None => false
    | Some rrs =>
      match rrs with
      | [] => false
      | (o0, h0, _) :: _ =>
        no_upper o0 && (length rrs <=? n_rr)%nat &&
        forallb (fun x => list_eqb (fst (fst x)) o0 && list_eqb (take 8 (snd (fst x))) (take 8 h0)) rrs &&
        list_eqb (take 4 (drop 4 h0)) (be32 (s_origttl s)) &&
        strictly_ascending (map snd rrs)
      end
    end
  end.

Definition implb' (a b : bool) : bool := negb a || b.

Definition spec_case (c : case) : bool :=
  match c with
  | CaseConst _ _ => true
  | CaseB64 _ _ _ => true
  | CaseOversized pk got =>
      (* exactly the keys whose material exceeds what 4092 octets encode to *)
      Bool.eqb got (5456 <? len (strip_nl pk))
  | CaseKeyTag flags proto alg pk got lib =>
      (* agrees with the library wherever the library answers; zero where it panics *)
      match lib with Some t => got =? t | None => got =? 0 end
      (* and with RFC 4034 Appendix B computed here *)
      && match spec_keytag flags proto alg pk with Some t => got =? t | None => true end
  | CaseRSAParse pk got lib =>
      let d := fst (b64_decode pk) in
      (* whatever the library loads, this loads identically *)
      match lib with Some p => opt_eqb pair_eqb got (Some p) | None => true end
      (* and what this loads is an RFC 3110 encoding of that key, without leading zeros *)
      && match got with
         | Some (n, e) =>
             let eb := min_bytes e in
             let nb := min_bytes n in
             negb (n =? 0) && negb (e =? 0) &&
             (list_eqb d ([len eb] ++ eb ++ nb) && (len eb <? 256) && negb (len eb =? 0)
              || list_eqb d (0 :: be16 (len eb) ++ eb ++ nb) && (len eb <? 65536))
         | None => true
         end
  | CaseRSAUsable n e got => Bool.eqb got (spec_usable n e)
  | CaseRSAVerify n e alg hashed sg got ref =>
      Bool.eqb got ref && Bool.eqb got (spec_rsa_verify n e alg hashed sg)
  | CaseName _ _ _ _ _ _ _ _ _ => true
  | CaseSigned s rrset got lib =>
      match got with
      | inr b =>
          match lib with Some l => list_eqb b l | None => true end
          && spec_signed_layout s (length rrset) b
      | inl _ => match lib with Some _ => false | None => true end
      end
  | CaseBinding _ _ _ got lib =>
      (* never more permissive than the library's preflight *)
      implb' (got =? 0) (match lib with Some true => true | _ => false end)
  | CaseProbe _ _ _ _ _ => true
  | CaseVerify _ _ _ _ got libok refok eqdom =>
      implb' (got =? 0) refok && implb' eqdom (Bool.eqb (got =? 0) libok)
  | CaseDSMatch k dt _ _ got lib =>
      (* never accepts what ToDS does not produce; refuses what it produces only for digest type 5
         (SHA-512 in the library, GOST by IANA) and for a DNSKEY without key material *)
      implb' got lib && implb' (lib && negb (dt =? 5) && negb (is_nil (fst (b64_decode (k_pub k))))) got
  | CaseVerifyDS _ _ _ got ref code matched refm =>
      bb_eqb got ref
      (* the error is one of the three documented ones, nil exactly on a match, "cannot convert" exactly when
         nothing in the set is supported *)
      && (code <=? 3) && Bool.eqb (code =? 0) (snd got) && Bool.eqb (code =? 3) (fst got)
      (* DSMatchedKeys returns exactly the keys the reference vouches for, and some key exactly when VerifyDS succeeds *)
      && km_same_sets matched refm && Bool.eqb (negb (is_nil matched)) (snd got)
  | CaseDSProbe _ _ _ _ _ => true
  | CaseOneSig _ _ s valid_now _ _ _ got ref eqdom code =>
      implb' got ref && implb' eqdom (Bool.eqb got ref)
      (* nil exactly on acceptance; one of the documented errors; "validity period" only for a signature outside its period,
         "algorithm" only for an algorithm number outside the documented set, and neither hides the other way round:
         an accepted or crypto-refused signature was inside its period and of a documented algorithm *)
      && Bool.eqb (code =? 0) got && (code <=? 6)
      && implb' (code =? 5) (negb valid_now)
      && implb' (code =? 6) (valid_now && negb (existsb (N.eqb (s_alg s)) [5; 7; 8; 10; 13; 14; 15]))
      && implb' ((code =? 0) || (code =? 3)) (valid_now && existsb (N.eqb (s_alg s)) [5; 7; 8; 10; 13; 14; 15])
  | CaseMsg _ keys answer ns _ _ _ got ref eqdom code =>
      implb' got ref && implb' eqdom (Bool.eqb got ref)
      (* nil exactly on acceptance; one of the documented errors; "no signatures" only for a message without any RRSIG,
         and a message with records to validate and no RRSIG at all is never reported as anything else than
         that or a foreign answer record *)
      && Bool.eqb (code =? 0) got && (code <=? 7)
      && implb' (code =? 7) (is_nil (sigs_of answer ++ sigs_of ns) && negb (is_nil keys))
      && implb' (is_nil keys) (code =? 2)
      (* "validity period" only when some RRSIG of the message is outside its period, "algorithm" only when some RRSIG
         names an algorithm outside the documented set *)
      && implb' (code =? 5) (existsb (fun sv => negb (snd sv)) (sigs_of answer ++ sigs_of ns))
      && implb' (code =? 6) (existsb (fun sv => negb (existsb (N.eqb (s_alg (fst sv))) [5; 7; 8; 10; 13; 14; 15])) (sigs_of answer ++ sigs_of ns))
  | CaseMsgProbe _ _ _ _ _ _ _ _ => true
  | CaseSuffix _ _ got lib wf => implb' wf (got =? lib)
  | CaseSynth _ _ _ got ref wf => implb' wf (Bool.eqb got ref)
  end.
