(* C14 — the loops and byte-level helpers of the anchored Go code as the translator reads them
   (Gen/C14.v, regenerated from /repo on every run: go_KeyTag_loop2, go_rsamd5KeyTag_loop2,
   go_fillKeyTagChunk, go_oversizedKeyMaterial_loop1, go_rsaVerifyPKCS1v15_loop1, go_wireRdataOffset,
   go_canonicalRRset_loop3, go_NameInZone / go_escapedDot) compute what the hand-written model computes
   (kt_acc, tail3_push, fill_chunk, oversized_walk, the 0xFF run of emsa, wire_rdata_offset,
   dedup_adjacent, name_in_zone / escaped_dot).  A change of a Go loop changes the generated Fixpoint
   and these lemmas are re-checked against it. *)
From Sdns Require Import Common.Base Common.GoList Gen.C14 C14.Model.
Open Scope Z_scope.

Lemma idx_app_mid {A} (d : A) pre x rest : go_idx d (pre ++ x :: rest) (Z.of_nat (length pre)) = x.
Proof. rewrite go_idx_nth by lia. rewrite Nat2Z.id, app_nth2 by lia. rewrite Nat.sub_diag. reflexivity. Qed.

Lemma land1_even (k : nat) : (Z.land (Z.of_nat k) 1 =? 0) = Nat.even k.
Proof.
  change 1 with (Z.ones 1). rewrite Z.land_ones by lia. change (2 ^ 1) with 2.
  rewrite <- Nat.negb_odd. 
  destruct (Nat.odd k) eqn:E.
  - apply Nat.odd_spec in E. destruct E as [m ->]. cbn [negb]. apply Z.eqb_neq. 
    rewrite Nat2Z.inj_add, Nat2Z.inj_mul. cbn. rewrite Z.add_comm, Z.mul_comm, Z.mod_add by lia. discriminate.
  - cbn [negb]. apply Z.eqb_eq. assert (Ev : Nat.even k = true) by (rewrite <- Nat.negb_odd, E; reflexivity).
    apply Nat.even_spec in Ev. destruct Ev as [m ->]. rewrite Nat2Z.inj_mul. cbn. rewrite Z.mul_comm. apply Z.mod_mul. lia.
Qed.

(* KeyTag, the octet sum over out[:decoded] *)
Lemma gen_keytag_loop decoded : forall lf m pre rest sum,
  (m <= length rest)%nat -> (m < lf)%nat ->
  go_KeyTag_loop2 (Z.of_nat (length pre + m)) lf (Z.of_nat (length pre)) sum (pre ++ rest) decoded =
  (GoNext, (kt_acc sum (Nat.even (length pre)) (firstn m rest), pre ++ rest, decoded)).
Proof.
  induction lf as [|lf IH]; intros m pre rest sum Hm Hlf; [lia|].
  cbn [go_KeyTag_loop2].
  destruct m as [|m].
  - rewrite Nat.add_0_r, Z.ltb_irrefl. reflexivity.
  - destruct rest as [|b rest]; [cbn in Hm; lia|].
    assert (L : (Z.of_nat (length pre) <? Z.of_nat (length pre + S m)) = true) by (apply Z.ltb_lt; lia).
    rewrite L. cbv zeta. rewrite land1_even, idx_app_mid.
    replace (Z.of_nat (length pre) + 1) with (Z.of_nat (length (pre ++ [b]))) by (rewrite app_length; cbn; lia).
    replace (pre ++ b :: rest) with ((pre ++ [b]) ++ rest) by (rewrite <- app_assoc; reflexivity).
    replace (length pre + S m)%nat with (length (pre ++ [b]) + m)%nat by (rewrite app_length; cbn; lia).
    assert (Ev : Nat.even (length (pre ++ [b])) = negb (Nat.even (length pre))).
    { rewrite app_length. cbn [length]. rewrite Nat.add_1_r, Nat.even_succ, <- Nat.negb_even. reflexivity. }
    cbn [firstn kt_acc]. cbn in Hm.
    destruct (Nat.even (length pre)) eqn:E.
    + rewrite IH by lia. rewrite Ev. cbn [negb].
      rewrite N.shiftl_mul_pow2. change (2 ^ 8)%N with 256%N. reflexivity.
    + rewrite IH by lia. rewrite Ev. reflexivity.
Qed.

Theorem gen_keytag_octet_sum sum out decoded : 0 <= decoded <= go_len out ->
  go_KeyTag_loop2_run sum out decoded = (GoNext, (kt_acc sum true (go_slice_to out decoded), out, decoded)).
Proof.
  intros H. unfold go_KeyTag_loop2_run, go_slice_to, go_len in *. cbv zeta.
  pose proof (gen_keytag_loop decoded (S (Z.to_nat decoded)) (Z.to_nat decoded) [] out sum) as G.
  cbn [length app Nat.add Nat.even] in G. rewrite Z2Nat.id in G by lia. change (Z.of_nat 0) with 0 in G.
  apply G; lia.
Qed.

(* oversizedKeyMaterial, the walk that counts material octets and stops at limit+1 *)
Lemma gen_oversized_loop : forall lf pre rest material, (length rest < lf)%nat -> 0 <= material ->
  fst (go_oversizedKeyMaterial_loop1 (Z.of_nat (length (pre ++ rest))) lf (Z.of_nat (length pre)) (pre ++ rest)
         (Z.of_N key_material_limit) material) =
  if oversized_walk rest (Z.to_N material) then GoRet true else GoNext.
Proof.
  induction lf as [|lf IH]; intros pre rest material Hlf Hm; [lia|].
  cbn [go_oversizedKeyMaterial_loop1].
  destruct rest as [|c rest].
  - rewrite app_nil_r, Z.ltb_irrefl. reflexivity.
  - assert (L : (Z.of_nat (length pre) <? Z.of_nat (length (pre ++ c :: rest))) = true)
      by (apply Z.ltb_lt; rewrite app_length; cbn; lia).
    rewrite L. cbv zeta. rewrite idx_app_mid. cbn [oversized_walk]. unfold is_nl.
    replace (Z.of_nat (length pre) + 1) with (Z.of_nat (length (pre ++ [c]))) by (rewrite app_length; cbn; lia).
    replace (pre ++ c :: rest) with ((pre ++ [c]) ++ rest) by (rewrite <- app_assoc; reflexivity).
    cbn in Hlf.
    rewrite (Bool.orb_comm (c =? 13)%N).
    destruct ((c =? 10)%N || (c =? 13)%N).
    + apply IH; lia.
    + replace (key_material_limit <? Z.to_N material + 1)%N with (Z.of_N key_material_limit <? material + 1) by lia.
      destruct (Z.of_N key_material_limit <? material + 1); [reflexivity|].
      replace (Z.to_N material + 1)%N with (Z.to_N (material + 1)) by lia.
      apply IH; lia.
Qed.
Theorem gen_oversized_walk pk :
  fst (go_oversizedKeyMaterial_loop1_run pk (Z.of_N key_material_limit) 0) =
  if oversized_walk pk 0 then GoRet true else GoNext.
Proof.
  unfold go_oversizedKeyMaterial_loop1_run, go_len. cbv zeta.
  apply (gen_oversized_loop (S (Z.to_nat (Z.of_nat (length pk)))) [] pk 0); lia.
Qed.

(* wireRdataOffset: the label walk, then the ten fixed octets *)
Lemma gen_wire_offset_loop fuel : forall lf pre w, (length w < lf)%nat ->
  match wire_rdata_offset_walk lf w (len pre) with
  | Some o => go_wireRdataOffset_loop1 fuel lf (pre ++ w) (Z.of_nat (length pre)) = (GoNext, (pre ++ w, Z.of_N o))
  | None => fst (go_wireRdataOffset_loop1 fuel lf (pre ++ w) (Z.of_nat (length pre))) = GoRet (0, false)
  end.
Proof.
  induction lf as [|lf IH]; intros pre w Hlf; [lia|].
  cbn [go_wireRdataOffset_loop1 wire_rdata_offset_walk].
  destruct w as [|l r].
  - rewrite app_nil_r. unfold go_len. rewrite Z.leb_refl. reflexivity.
  - assert (L : (go_len (pre ++ l :: r) <=? Z.of_nat (length pre)) = false)
      by (apply Z.leb_gt; unfold go_len; rewrite app_length; cbn; lia).
    rewrite L. cbv zeta. rewrite idx_app_mid.
    replace (Z.of_N l =? 0) with (l =? 0)%N by lia.
    destruct (l =? 0)%N eqn:E0.
    + unfold len. f_equal. f_equal. lia.
    + change max_label_octets with 63%N.
      replace (63 <? Z.of_N l) with (63 <? l)%N by lia.
      replace (go_len (pre ++ l :: r) <? Z.of_nat (length pre) + 1 + Z.of_N l) with (len r <? l)%N
        by (unfold go_len, len; rewrite app_length; cbn [length]; lia).
      destruct ((63 <? l)%N || (len r <? l)%N) eqn:Eb; [reflexivity|].
      apply orb_false_iff in Eb as [_ Eb]. unfold len in Eb.
      assert (Hl : (N.to_nat l <= length r)%nat) by lia.
      set (k := N.to_nat l) in *.
      replace (pre ++ l :: r) with ((pre ++ l :: firstn k r) ++ skipn k r)
        by (rewrite <- app_assoc; cbn [app]; rewrite firstn_skipn; reflexivity).
      replace (Z.of_nat (length pre) + 1 + Z.of_N l) with (Z.of_nat (length (pre ++ l :: firstn k r)))
        by (rewrite app_length; cbn [length]; rewrite firstn_length_le by lia; lia).
      replace (len pre + 1 + l)%N with (len (pre ++ l :: firstn k r))
        by (unfold len; rewrite app_length; cbn [length]; rewrite firstn_length_le by lia; lia).
      apply IH. rewrite skipn_length. cbn [length] in Hlf. lia.
Qed.
Theorem gen_wire_rdata_offset fuel w : (length w < fuel)%nat ->
  go_wireRdataOffset fuel w =
  Some (match wire_rdata_offset w with Some o => (Z.of_N o, true) | None => (0, false) end).
Proof.
  intros Hf. unfold go_wireRdataOffset, wire_rdata_offset. cbv zeta.
  assert (Fu : forall lf off, (length w < lf)%nat -> wire_rdata_offset_walk lf w off = wire_rdata_offset_walk (S (length w)) w off).
  { clear. revert w. 
    assert (G : forall n w lf1 lf2 off, (length w <= n)%nat -> (length w < lf1)%nat -> (length w < lf2)%nat ->
                 wire_rdata_offset_walk lf1 w off = wire_rdata_offset_walk lf2 w off).
    { induction n as [|n IHn]; intros w lf1 lf2 off Hn H1 H2.
      - destruct w; [|cbn in Hn; lia]. destruct lf1, lf2; try lia; reflexivity.
      - destruct lf1 as [|lf1], lf2 as [|lf2]; try lia. cbn [wire_rdata_offset_walk].
        destruct w as [|l r]; [reflexivity|].
        destruct (l =? 0)%N; [reflexivity|]. destruct ((max_label_octets <? l)%N || (len r <? l)%N); [reflexivity|].
        cbn [length] in *. apply IHn; rewrite ?skipn_length; lia. }
    intros w lf off H. apply (G (length w)); lia. }
  pose proof (gen_wire_offset_loop fuel fuel [] w Hf) as G. unfold len in G. cbn [app length] in G.
  change (N.of_nat 0) with 0%N in G. change (Z.of_nat 0) with 0 in G.
  rewrite (Fu fuel 0%N Hf) in G.
  destruct (wire_rdata_offset_walk (S (length w)) w 0) as [o|].
  - rewrite G. change rr_fixed_header with 10%N.
    replace (go_len w <? Z.of_N o + 10) with (len w <? o + 10)%N by (unfold go_len, len; lia).
    destruct (len w <? o + 10)%N; [reflexivity|]. f_equal. f_equal. lia.
  - destruct (go_wireRdataOffset_loop1 fuel fuel w 0) as [c st]. cbn [fst] in G. subst c. reflexivity.
Qed.

(* canonicalRRset, the loop that drops a wire equal to its predecessor *)
Lemma model_list_eqb_go a b : go_list_eqb N.eqb a b = list_eqb a b.
Proof. revert b. induction a as [|x a IH]; intros [|y b]; cbn; try reflexivity. rewrite IH. reflexivity. Qed.
Lemma gen_dedup_loop : forall lf pre rest buf, (length rest < lf)%nat ->
  go_canonicalRRset_loop3 (pre ++ rest) lf (Z.of_nat (length pre)) (pre ++ rest) buf =
  (GoNext, (pre ++ rest, buf ++ concat (dedup_adjacent (match rev pre with x :: _ => Some x | [] => None end) rest))).
Proof.
  induction lf as [|lf IH]; intros pre rest buf Hlf; [lia|].
  cbn [go_canonicalRRset_loop3].
  destruct rest as [|x rest].
  - rewrite app_nil_r. unfold go_len. rewrite Z.ltb_irrefl. cbn. rewrite app_nil_r. reflexivity.
  - assert (L : (Z.of_nat (length pre) <? go_len (pre ++ x :: rest)) = true)
      by (apply Z.ltb_lt; unfold go_len; rewrite app_length; cbn; lia).
    rewrite L. cbv zeta. rewrite idx_app_mid.
    replace (Z.of_nat (length pre) + 1) with (Z.of_nat (length (pre ++ [x]))) by (rewrite app_length; cbn; lia).
    assert (R : pre ++ x :: rest = (pre ++ [x]) ++ rest) by (rewrite <- app_assoc; reflexivity).
    cbn [dedup_adjacent]. cbn [length] in Hlf.
    destruct pre as [|p0 pre'] using rev_ind.
    + cbn [length rev app]. change (0 <? Z.of_nat 0) with false. cbn [andb].
      change (x :: rest) with ([x] ++ rest). rewrite (IH [x] rest) by lia. cbn [rev app concat]. rewrite app_assoc. reflexivity.
    + clear IHpre'. rewrite rev_unit.
      assert (P : (0 <? Z.of_nat (length (pre' ++ [p0]))) = true) by (apply Z.ltb_lt; rewrite app_length; cbn; lia).
      rewrite P. cbn [andb].
      assert (I : go_idx [] ((pre' ++ [p0]) ++ x :: rest) (Z.of_nat (length (pre' ++ [p0])) - 1) = p0).
      { rewrite <- app_assoc. cbn [app]. replace (Z.of_nat (length (pre' ++ [p0])) - 1) with (Z.of_nat (length pre')) by (rewrite app_length; cbn; lia).
        apply idx_app_mid. }
      rewrite I, model_list_eqb_go. rewrite R.
      destruct (list_eqb x p0).
      * rewrite IH by lia. rewrite rev_unit. reflexivity.
      * rewrite IH by lia. rewrite rev_unit. cbn [concat]. rewrite app_assoc. reflexivity.
Qed.
Theorem gen_canonical_dedup wires buf :
  go_canonicalRRset_loop3_run wires buf = (GoNext, (wires, buf ++ concat (dedup_adjacent None wires))).
Proof. unfold go_canonicalRRset_loop3_run. cbv zeta. apply (gen_dedup_loop (S (length wires)) [] wires buf). lia. Qed.

(* rsamd5KeyTag: the last three octets seen, and how many (saturating at three) *)
Lemma gen_rsamd5_tail_loop decoded : forall lf m pre rest t0 t1 t2 seen,
  (m <= length rest)%nat -> (m < lf)%nat -> 0 <= seen ->
  go_rsamd5KeyTag_loop2 (Z.of_nat (length pre + m)) lf (Z.of_nat (length pre)) (pre ++ rest) [t0; t1; t2] seen decoded =
  (let t := fold_left tail3_push (firstn m rest) ([t0; t1; t2], Z.to_N seen) in
   (GoNext, (pre ++ rest, fst t, Z.of_N (snd t), decoded))).
Proof.
  induction lf as [|lf IH]; intros m pre rest t0 t1 t2 seen Hm Hlf Hs; [lia|].
  cbn [go_rsamd5KeyTag_loop2].
  destruct m as [|m].
  - rewrite Nat.add_0_r, Z.ltb_irrefl. cbn [firstn fold_left fst snd]. cbv zeta. rewrite Z2N.id by lia. reflexivity.
  - destruct rest as [|b rest]; [cbn in Hm; lia|].
    assert (L : (Z.of_nat (length pre) <? Z.of_nat (length pre + S m)) = true) by (apply Z.ltb_lt; lia).
    rewrite L. cbv zeta. rewrite idx_app_mid.
    change (go_upd (go_upd (go_upd [t0; t1; t2] 0 (go_idx 0%N [t0; t1; t2] 1)) 1 (go_idx 0%N [t0; t1; t2] 2)) 2 b) with [t1; t2; b].
    replace (Z.of_nat (length pre) + 1) with (Z.of_nat (length (pre ++ [b]))) by (rewrite app_length; cbn; lia).
    replace (pre ++ b :: rest) with ((pre ++ [b]) ++ rest) by (rewrite <- app_assoc; reflexivity).
    replace (length pre + S m)%nat with (length (pre ++ [b]) + m)%nat by (rewrite app_length; cbn; lia).
    cbn [firstn fold_left]. cbn in Hm.
    assert (T : tail3_push ([t0; t1; t2], Z.to_N seen) b =
                ([t1; t2; b], if (Z.to_N seen <? 3)%N then (Z.to_N seen + 1)%N else Z.to_N seen)) by reflexivity.
    rewrite T. clear T.
    replace (Z.to_N seen <? 3)%N with (seen <? 3) by lia.
    destruct (seen <? 3).
    + rewrite IH by lia. replace (Z.to_N (seen + 1)) with (Z.to_N seen + 1)%N by lia. reflexivity.
    + rewrite IH by lia. reflexivity.
Qed.
Theorem gen_rsamd5_tail out t0 t1 t2 seen decoded : 0 <= decoded <= go_len out -> 0 <= seen ->
  go_rsamd5KeyTag_loop2_run out [t0; t1; t2] seen decoded =
  (let t := fold_left tail3_push (go_slice_to out decoded) ([t0; t1; t2], Z.to_N seen) in
   (GoNext, (out, fst t, Z.of_N (snd t), decoded))).
Proof.
  intros H Hs. unfold go_rsamd5KeyTag_loop2_run, go_slice_to, go_len in *. cbv zeta.
  pose proof (gen_rsamd5_tail_loop decoded (S (Z.to_nat decoded)) (Z.to_nat decoded) [] out t0 t1 t2 seen) as G.
  cbn [length app Nat.add] in G. rewrite Z2Nat.id in G by lia. change (Z.of_nat 0) with 0 in G.
  apply G; lia.
Qed.

(* rsaVerifyPKCS1v15: the run of 0xFF octets of the expected encoding *)
Lemma go_upd_app_mid {A} (pre : list A) x rest v : go_upd (pre ++ x :: rest) (Z.of_nat (length pre)) v = pre ++ v :: rest.
Proof.
  unfold go_upd. destruct (Z.of_nat (length pre) <? 0) eqn:E; [apply Z.ltb_lt in E; lia|]. rewrite Nat2Z.id. clear E.
  induction pre as [|p pre IH]; cbn; [reflexivity|]. rewrite IH. reflexivity.
Qed.
Lemma gen_pkcs1_fill_loop fuel size tLen : forall lf k pre rest,
  size - tLen - 1 = Z.of_nat (length pre + k) -> (k <= length rest)%nat -> (k < lf)%nat ->
  go_rsaVerifyPKCS1v15_loop1 fuel lf size tLen (pre ++ rest) (Z.of_nat (length pre)) =
  (GoNext, (size, tLen, pre ++ repeat 255%N k ++ skipn k rest, size - tLen - 1)).
Proof.
  induction lf as [|lf IH]; intros k pre rest Hb Hk Hlf; [lia|].
  cbn [go_rsaVerifyPKCS1v15_loop1]. rewrite Hb.
  destruct k as [|k].
  - rewrite Nat.add_0_r, Z.ltb_irrefl. reflexivity.
  - destruct rest as [|x rest]; [cbn in Hk; lia|].
    assert (L : (Z.of_nat (length pre) <? Z.of_nat (length pre + S k)) = true) by (apply Z.ltb_lt; lia).
    rewrite L. cbv zeta. rewrite go_upd_app_mid.
    replace (Z.of_nat (length pre) + 1) with (Z.of_nat (length (pre ++ [255%N]))) by (rewrite app_length; cbn; lia).
    replace (pre ++ 255%N :: rest) with ((pre ++ [255%N]) ++ rest) by (rewrite <- app_assoc; reflexivity).
    cbn in Hk. rewrite (IH k) by (rewrite ?app_length; cbn [length]; lia).
    rewrite <- app_assoc. cbn [app repeat skipn]. rewrite Hb. reflexivity.
Qed.
(* expected = make(size); expected[1] = 1; the loop; — for size >= tLen + 3 (the code has checked size >= tLen + 11) *)
Theorem gen_pkcs1_ff_run fuel (s t : nat) : (t + 3 <= s)%nat -> (s < fuel)%nat ->
  go_rsaVerifyPKCS1v15_loop1_run fuel (Z.of_nat s) (Z.of_nat t) (0%N :: 1%N :: repeat 0%N (s - 2)) =
  (GoNext, (Z.of_nat s, Z.of_nat t, 0%N :: 1%N :: repeat 255%N (s - t - 3) ++ repeat 0%N (t + 1), Z.of_nat s - Z.of_nat t - 1)).
Proof.
  intros H Hf. unfold go_rsaVerifyPKCS1v15_loop1_run. cbv zeta.
  pose proof (gen_pkcs1_fill_loop fuel (Z.of_nat s) (Z.of_nat t) fuel (s - t - 3) [0%N; 1%N] (repeat 0%N (s - 2))) as G.
  cbn [length app] in G. change (Z.of_nat 2) with 2 in G. rewrite G; [|lia|rewrite repeat_length; lia|lia].
  repeat f_equal.
  replace (s - 2)%nat with ((s - t - 3) + (t + 1))%nat by lia. rewrite repeat_app.
  rewrite skipn_app, skipn_all2 by (rewrite repeat_length; lia). rewrite repeat_length, Nat.sub_diag. reflexivity.
Qed.

(* internal/dnsutil.NameInZone and its escapedDot *)
Fixpoint lead_bsl (l : list N) : nat :=
  match l with
  | c :: r => if (c =? BSL)%N then S (lead_bsl r) else O
  | [] => O
  end.
Lemma gen_escaped_dot_loop fuel i : forall lf r done bs,
  (length r < lf)%nat ->
  go_escapedDot_loop1 fuel lf (rev r ++ done) i bs (Z.of_nat (length r) - 1) =
  (GoNext, (rev r ++ done, i, bs + Z.of_nat (lead_bsl r), Z.of_nat (length r) - 1 - Z.of_nat (lead_bsl r))).
Proof.
  induction lf as [|lf IH]; intros r done bs Hlf; [lia|].
  cbn [go_escapedDot_loop1].
  destruct r as [|c r].
  - cbn [length lead_bsl]. change (Z.of_nat 0 - 1) with (-1). cbn [Z.leb andb]. 
    change (0 <=? -1) with false. cbn [andb]. rewrite Z.add_0_r, Z.sub_0_r. reflexivity.
  - cbn [length rev lead_bsl]. rewrite <- app_assoc. cbn [app].
    replace (Z.of_nat (S (length r)) - 1) with (Z.of_nat (length (rev r))) by (rewrite rev_length; lia).
    rewrite idx_app_mid.
    assert (P : (0 <=? Z.of_nat (length (rev r))) = true) by (apply Z.leb_le; lia).
    rewrite P. cbn [andb]. unfold BSL.
    destruct (c =? 92)%N.
    + cbn in Hlf. replace (Z.of_nat (length (rev r)) - 1) with (Z.of_nat (length r) - 1) by (rewrite rev_length; lia).
      rewrite IH by lia. rewrite rev_length. f_equal. f_equal; [f_equal; lia | lia].
    + rewrite rev_length. f_equal. f_equal; [f_equal; lia | lia].
Qed.

Definition esc_step (e : bool) (c : N) : bool := if (c =? BSL)%N then negb e else false.
Lemma esc_scan_nth : forall pre x rest e,
  nth_error (esc_scan (pre ++ x :: rest) e) (length pre) = Some (x, fold_left esc_step pre e).
Proof.
  induction pre as [|p pre IH]; intros x rest e; cbn [app esc_scan length nth_error fold_left]; [reflexivity|].
  rewrite IH. reflexivity.
Qed.
Lemma esc_state_parity pre : fold_left esc_step pre false = Nat.odd (lead_bsl (rev pre)).
Proof.
  induction pre as [|c pre IH] using rev_ind; [reflexivity|].
  rewrite fold_left_app, rev_unit. cbn [fold_left lead_bsl]. unfold esc_step at 1. rewrite IH.
  destruct (c =? BSL)%N; [|reflexivity]. rewrite Nat.odd_succ, <- Nat.negb_odd. reflexivity.
Qed.

Lemma gen_escaped_dot fuel name i : 0 <= i < go_len name -> (Z.to_nat i < fuel)%nat ->
  go_escapedDot fuel name i = Some (escaped_dot name (Z.to_N i)).
Proof.
  intros Hi Hf. unfold go_escapedDot, escaped_dot, go_len in *. cbv zeta.
  set (k := Z.to_nat i).
  assert (Hk : (k < length name)%nat) by lia.
  destruct (nth_split name 0%N Hk) as (pre & rest & Hn & Hl).
  set (x := nth k name 0%N) in *.
  assert (R : name = rev (rev pre) ++ x :: rest) by (rewrite rev_involutive; exact Hn).
  rewrite R at 1.
  replace (i - 1) with (Z.of_nat (length (rev pre)) - 1) by (rewrite rev_length; lia).
  rewrite gen_escaped_dot_loop by (rewrite rev_length; lia).
  replace (N.to_nat (Z.to_N i)) with (length pre) by lia.
  rewrite Hn, esc_scan_nth. cbn [snd]. rewrite esc_state_parity.
  f_equal. rewrite Z.add_0_l.
  generalize (lead_bsl (rev pre)) as n. intros n.
  rewrite <- Nat.negb_even.
  destruct (Nat.even n) eqn:E.
  - apply Nat.even_spec in E as [m ->]. cbn [negb]. apply Z.eqb_neq. rewrite Nat2Z.inj_mul. cbn.
    rewrite Z.mul_comm, Z.rem_mul by lia. discriminate.
  - assert (O : Nat.odd n = true) by (rewrite <- Nat.negb_even, E; reflexivity).
    apply Nat.odd_spec in O as [m ->]. cbn [negb]. apply Z.eqb_eq.
    rewrite Z.rem_mod_nonneg by lia. rewrite Nat2Z.inj_add, Nat2Z.inj_mul. cbn.
    rewrite Z.add_comm, Z.mul_comm, Z.mod_add by lia. reflexivity.
Qed.

Theorem gen_name_in_zone fuel name zone : (length name < fuel)%nat ->
  go_NameInZone fuel name zone = Some (name_in_zone name zone).
Proof.
  intros Hf. unfold go_NameInZone, name_in_zone. rewrite !model_list_eqb_go.
  replace (list_eqb zone []) with (is_nil zone) by (destruct zone; reflexivity).
  unfold DOT. destruct (list_eqb zone [46%N] || is_nil zone); [reflexivity|].
  destruct (list_eqb name zone); [reflexivity|].
  replace (go_len name <=? go_len zone) with (len name <=? len zone)%N by (unfold go_len, len; lia).
  destruct (len name <=? len zone)%N eqn:L; [reflexivity|]. cbv zeta.
  apply N.leb_gt in L. unfold len in L.
  assert (C : go_len name - go_len zone = Z.of_N (len name - len zone)) by (unfold go_len, len; lia).
  rewrite C. set (cut := (len name - len zone)%N).
  assert (Hc : (0 < cut <= len name)%N) by (unfold cut, len; lia).
  rewrite go_idx_nth by lia.
  replace (Z.to_nat (Z.of_N cut - 1)) with (N.to_nat (cut - 1)) by lia.
  unfold go_slice_from. replace (Z.to_nat (Z.of_N cut)) with (N.to_nat cut) by lia.
  destruct (negb (nth (N.to_nat (cut - 1)) name 0 =? 46)%N || negb (list_eqb (skipn (N.to_nat cut) name) zone)); [reflexivity|].
  rewrite gen_escaped_dot by (unfold go_len, len in *; lia).
  replace (Z.to_N (Z.of_N cut - 1)) with (cut - 1)%N by lia. reflexivity.
Qed.

(* fillKeyTagChunk: up to len(dst) octets of material copied to the front of dst, line breaks left out *)
Lemma fill_chunk_grows : forall f s acc n, (length acc <= length (fst (fill_chunk f s acc n)))%nat.
Proof.
  induction f as [|f IH]; intros s acc n; cbn [fill_chunk]; [cbn; lia|].
  destruct s as [|c r]; [cbn; lia|].
  destruct (n <=? length acc)%nat; [cbn; lia|].
  destruct (is_nl c); [apply IH|]. etransitivity; [|apply IH]. rewrite app_length. cbn. lia.
Qed.
Lemma gen_fill_loop fuel : forall lf pre s acc tl, (length s < lf)%nat ->
  go_fillKeyTagChunk_loop1 fuel lf (acc ++ tl) (pre ++ s) (Z.of_nat (length acc)) (Z.of_nat (length pre)) =
  (let fc := fill_chunk lf s acc (length (acc ++ tl)) in
   (GoNext, (fst fc ++ skipn (length (fst fc) - length acc) tl, pre ++ s,
             Z.of_nat (length (fst fc)), Z.of_nat (length (pre ++ s)) - Z.of_nat (length (snd fc))))).
Proof.
  induction lf as [|lf IH]; intros pre s acc tl Hlf; [lia|].
  cbn [go_fillKeyTagChunk_loop1 fill_chunk]. cbv zeta.
  destruct s as [|c r].
  - rewrite app_nil_r. unfold go_len. rewrite Z.ltb_irrefl. cbn [andb fst snd length].
    rewrite Nat.sub_diag. cbn [skipn]. repeat f_equal. lia.
  - assert (L : (Z.of_nat (length pre) <? go_len (pre ++ c :: r)) = true)
      by (apply Z.ltb_lt; unfold go_len; rewrite app_length; cbn; lia).
    rewrite L. cbn [andb].
    replace (Z.of_nat (length acc) <? go_len (acc ++ tl)) with (negb (length (acc ++ tl) <=? length acc)%nat)
      by (unfold go_len; destruct (length (acc ++ tl) <=? length acc)%nat eqn:E; cbn [negb];
          [apply Nat.leb_le in E; symmetry; apply Z.ltb_ge; lia | apply Nat.leb_gt in E; symmetry; apply Z.ltb_lt; lia]).
    destruct (length (acc ++ tl) <=? length acc)%nat eqn:Efull; cbn [negb].
    + cbn [fst snd]. rewrite Nat.sub_diag. cbn [skipn]. repeat f_equal. rewrite !app_length. cbn [length]. lia.
    + rewrite idx_app_mid.
      replace (Z.of_nat (length pre) + 1) with (Z.of_nat (length (pre ++ [c]))) by (rewrite app_length; cbn; lia).
      assert (R : pre ++ c :: r = (pre ++ [c]) ++ r) by (rewrite <- app_assoc; reflexivity).
      cbn [length] in Hlf. unfold is_nl. rewrite (Bool.orb_comm (c =? 13)%N).
      destruct ((c =? 10)%N || (c =? 13)%N).
      * rewrite R. rewrite IH by lia. reflexivity.
      * apply Nat.leb_gt in Efull. rewrite app_length in Efull.
        destruct tl as [|x tl]; [cbn in Efull; lia|].
        rewrite go_upd_app_mid.
        replace (acc ++ c :: tl) with ((acc ++ [c]) ++ tl) by (rewrite <- app_assoc; reflexivity).
        replace (Z.of_nat (length acc) + 1) with (Z.of_nat (length (acc ++ [c]))) by (rewrite app_length; cbn; lia).
        rewrite R. rewrite IH by lia. cbv zeta.
        replace (length ((acc ++ [c]) ++ tl)) with (length (acc ++ x :: tl)) by (rewrite !app_length; cbn; lia).
        pose proof (fill_chunk_grows lf r (acc ++ [c]) (length (acc ++ x :: tl))) as G. rewrite app_length in G. cbn [length] in G.
        set (fc := fill_chunk lf r (acc ++ [c]) (length (acc ++ x :: tl))) in *.
        replace (length (fst fc) - length acc)%nat with (S (length (fst fc) - length (acc ++ [c])))
          by (rewrite app_length; cbn [length]; lia).
        reflexivity.
Qed.
Theorem gen_fill_key_tag_chunk fuel dst encoded : (length encoded < fuel)%nat ->
  go_fillKeyTagChunk fuel dst encoded =
  (let fc := fill_chunk fuel encoded [] (length dst) in
   Some (Z.of_nat (length (fst fc)), go_len encoded - go_len (snd fc))).
Proof.
  intros Hf. unfold go_fillKeyTagChunk. cbv zeta.
  pose proof (gen_fill_loop fuel fuel [] encoded [] dst Hf) as G. cbn [app length] in G.
  change (Z.of_nat 0) with 0 in G. rewrite G. reflexivity.
Qed.
