(* C14 — signatureMatchesRRset as the translator reads it from verify.go (Gen/C14.v: go_signatureMatchesRRset over
   dns.RR as a sum type, with dns.IsRRset and dns.CountLabel translated from the module cache, dnsutil.NameInZone
   from the repository, dns.CanonicalName / dns.Fqdn / strings.ToLower / strings.EqualFold in their ASCII readings)
   computes the model's signature_matches_rrset. *)
From Sdns Require C02.Model C02.Proofs_Gen.
From Sdns Require Import Common.Base Common.GoList Gen.C14 C14.Model C14.Proofs_loops C14.Proofs_synth.
Open Scope Z_scope.

(* ------------------------------------------------ the ASCII readings are the model's name helpers *)
Lemma match46 {A} (c : N) (x y : A) : match c with 46%N => x | _ => y end = if (c =? 46)%N then x else y.
Proof.
  destruct (N.eqb_spec c 46) as [->|Hn]; [reflexivity|].
  destruct c as [|p]; [reflexivity|]. do 6 (destruct p as [p|p|]; try reflexivity). exfalso. apply Hn. reflexivity.
Qed.
Lemma match92 {A} (c : N) (x y : A) : match c with 92%N => x | _ => y end = if (c =? 92)%N then x else y.
Proof.
  destruct (N.eqb_spec c 92) as [->|Hn]; [reflexivity|].
  destruct c as [|p]; [reflexivity|]. do 7 (destruct p as [p|p|]; try reflexivity). exfalso. apply Hn. reflexivity.
Qed.

Lemma ascii_lower_is_lower s : go_ascii_lower s = map lower s.
Proof. unfold go_ascii_lower. apply map_ext. intros c. reflexivity. Qed.
Lemma equal_fold_ascii_is_model a b : go_equal_fold_ascii a b = equal_fold a b.
Proof. unfold go_equal_fold_ascii, equal_fold. rewrite model_list_eqb_go, !ascii_lower_is_lower. reflexivity. Qed.

Lemma trailing_is_lead l : go_trailing_backslashes l = lead_bsl l.
Proof.
  induction l as [|c l IH]; [reflexivity|]. cbn [go_trailing_backslashes lead_bsl].
  rewrite (match92 c). unfold BSL. destruct (c =? 92)%N; [rewrite IH|]; reflexivity.
Qed.
Lemma esc_scan_snoc pre c : forall e, esc_scan (pre ++ [c]) e = esc_scan pre e ++ [(c, fold_left esc_step pre e)].
Proof.
  induction pre as [|p pre IH]; intros e; cbn [app esc_scan fold_left]; [reflexivity|]. rewrite IH. reflexivity.
Qed.
(* dns.IsFqdn: a final dot behind an even number of backslashes = a final dot the forward scan reads unescaped *)
Lemma is_fqdn_ascii_is_model s : go_is_fqdn_ascii s = is_fqdn s.
Proof.
  unfold go_is_fqdn_ascii, is_fqdn. destruct s as [|c0 s0] using rev_ind; [reflexivity|]. clear IHs0.
  rewrite esc_scan_snoc, !rev_unit. rewrite (match46 c0). unfold is_sep. cbn [fst snd]. unfold DOT.
  destruct (c0 =? 46)%N; [|reflexivity]. cbn [andb].
  rewrite esc_state_parity, trailing_is_lead, Nat.negb_odd. reflexivity.
Qed.
Lemma fqdn_ascii_is_model s : go_fqdn_ascii s = fqdn s.
Proof. unfold go_fqdn_ascii, fqdn. rewrite is_fqdn_ascii_is_model. reflexivity. Qed.
Lemma canonical_name_ascii_is_model s : go_canonical_name_ascii s = canonical_name s.
Proof. unfold go_canonical_name_ascii, canonical_name. rewrite ascii_lower_is_lower, fqdn_ascii_is_model. reflexivity. Qed.

(* ------------------------------------------------------------------- records as interface values *)
(* a record of the model as the dns.RR the function sees: any dynamic type, the header *)
Definition rr_hdr (r : rr) : T_RR_Header := mk_T_RR_Header (r_name r) (r_type r) (r_class r) (r_ttl r) 0.
Definition rr_iface (r : rr) : I_RR := I_RR_other 0 (rr_hdr r).
Definition sig_rec (s : rrsig) : T_RRSIG :=
  mk_T_RRSIG (mk_T_RR_Header (s_name s) 46 (s_class s) 0 0) (s_covered s) (s_alg s) (s_labels s) (s_origttl s)
             (s_exp s) (s_inc s) (s_keytag s) (s_signer s) (s_signature s).

Definition same_header (r0 r : rr) : bool :=
  ((r_type r =? r_type r0) && (r_class r =? r_class r0) && list_eqb (r_name r) (r_name r0))%N.

(* dns.IsRRset, the loop over rrset[1:] *)
Lemma gen_is_rrset_loop v (r0 : rr) : forall lf pre rest, (length rest < lf)%nat ->
  go_IsRRset_loop1 (map rr_iface (pre ++ rest)) lf (Z.of_nat (length pre)) v (rr_hdr r0) =
  ((if forallb (same_header r0) rest then GoNext else GoRet false), (v, rr_hdr r0)).
Proof.
  induction lf as [|lf IH]; intros pre rest Hlf; [lia|]. cbn [go_IsRRset_loop1].
  unfold go_len. rewrite map_length, app_length.
  destruct rest as [|x rest].
  - rewrite Nat.add_0_r. replace (Z.of_nat (length pre) <? Z.of_nat (length pre)) with false by lia. reflexivity.
  - cbn [length] in *. replace (Z.of_nat (length pre) <? Z.of_nat (length pre + S (length rest))) with true by lia.
    rewrite map_app. cbn [map].
    assert (E : go_idx I_RR_nil (map rr_iface pre ++ rr_iface x :: map rr_iface rest) (Z.of_nat (length pre)) = rr_iface x).
    { rewrite <- (map_length rr_iface pre). apply idx_app_mid. }
    cbv zeta. rewrite !E. cbn [I_RR_Header rr_iface rr_hdr T_RR_Header_Rrtype T_RR_Header_Class T_RR_Header_Name forallb].
    rewrite model_list_eqb_go. unfold same_header at 1.
    destruct (r_type x =? r_type r0)%N; cbn [negb orb andb]; [|reflexivity].
    destruct (r_class x =? r_class r0)%N; cbn [negb orb andb]; [|reflexivity].
    destruct (list_eqb (r_name x) (r_name r0)); cbn [negb orb andb]; [|reflexivity].
    specialize (IH (pre ++ [x]) rest). rewrite <- app_assoc in IH. cbn [app] in IH.
    rewrite app_length in IH. cbn [length] in IH.
    replace (Z.of_nat (length pre) + 1) with (Z.of_nat (length pre + 1)) by lia.
    rewrite map_app in IH. cbn [map] in IH. apply IH. lia.
Qed.
Theorem gen_is_rrset set : go_IsRRset (map rr_iface set) = is_rrset set.
Proof.
  unfold go_IsRRset, is_rrset. destruct set as [|r0 rest]; [reflexivity|].
  unfold go_len. cbn [map length]. replace (Z.of_nat (S (length (map rr_iface rest))) =? 0) with false by lia.
  rewrite go_idx_0. cbv zeta. unfold go_slice_from. cbn [Z.to_nat Pos.to_nat Pos.iter_op Nat.add skipn I_RR_Header rr_iface].
  pose proof (gen_is_rrset_loop (rr_iface r0 :: map rr_iface rest) r0 (S (length (map rr_iface rest))) [] rest) as L.
  cbn [app length Z.of_nat] in L. change (Pos.to_nat 1) with 1%nat. cbn [skipn]. rewrite L by (rewrite map_length; lia).
  unfold same_header. destruct (forallb _ rest); reflexivity.
Qed.

(* signatureMatchesRRset.  dns.CountLabel(owner) enters as its result (tied to the model's count_label by CaseName on
   every run, and proved below for escape-free names); everything else is discharged here. *)
Theorem gen_signature_matches_rrset fuel s set :
  (forall h0 t, set = h0 :: t -> (length (r_name h0) + 1 < fuel)%nat /\
                                 go_CountLabel fuel (r_name h0) = Some (Z.of_N (count_label (r_name h0)))) ->
  go_signatureMatchesRRset fuel (sig_rec s) (map rr_iface set) = Some (signature_matches_rrset s set).
Proof.
  intros Hc. unfold go_signatureMatchesRRset, signature_matches_rrset.
  rewrite gen_is_rrset. destruct set as [|h0 t]; [reflexivity|].
  destruct (Hc h0 t eq_refl) as (Hf & Cl). clear Hc.
  unfold go_len. cbn [map length]. replace (Z.of_nat (S (length (map rr_iface t))) =? 0) with false by lia.
  cbn [orb]. destruct (is_rrset (h0 :: t)); cbn [negb andb]; [|reflexivity].
  rewrite go_idx_0. cbv zeta.
  cbn [I_RR_Header rr_iface rr_hdr T_RR_Header_Name T_RR_Header_Class T_RR_Header_Rrtype go_RRSIG_Header sig_rec T_RRSIG_Hdr
       T_RRSIG_TypeCovered T_RRSIG_Labels T_RRSIG_SignerName].
  rewrite Cl, canonical_name_ascii_is_model, ascii_lower_is_lower, fqdn_ascii_is_model.
  rewrite gen_name_in_zone.
  2:{ rewrite map_length. unfold fqdn. destruct (is_fqdn (r_name h0)); [lia | rewrite app_length; cbn [length]; lia]. }
  rewrite equal_fold_ascii_is_model. unfold to_lower.
  replace (Z.of_N (s_labels s) <=? Z.of_N (count_label (r_name h0))) with (s_labels s <=? count_label (r_name h0))%N by lia.
  reflexivity.
Qed.

(* ------------------------------------------- escape-free names: dns.CountLabel is the model's count_label *)
Module P := C02.Proofs_Gen.

Lemma esc_scan_plain s : ~ In 92%N s -> forall e, e = false -> esc_scan s e = map (fun c => (c, false)) s.
Proof.
  induction s as [|c s IH]; intros Hn e ->; cbn [esc_scan map]; [reflexivity|].
  assert (Hc : (c =? BSL)%N = false) by (apply N.eqb_neq; intros ->; apply Hn; left; reflexivity).
  rewrite Hc, IH; [reflexivity | intros X; apply Hn; right; exact X | reflexivity].
Qed.
Definition dots (l : list N) : nat := length (filter (fun c => (c =? 46)%N) l).
Lemma dots_app a b : dots (a ++ b) = (dots a + dots b)%nat.
Proof. unfold dots. rewrite filter_app, app_length. reflexivity. Qed.
Lemma dots_none l : ~ In 46%N l -> dots l = O.
Proof.
  unfold dots. induction l as [|c l IH]; intros Hn; [reflexivity|]. cbn [filter].
  assert (Hc : (c =? 46)%N = false) by (apply N.eqb_neq; intros ->; apply Hn; left; reflexivity).
  rewrite Hc. apply IH. intros X. apply Hn. right. exact X.
Qed.
Lemma pres_nonempty n : n <> [] -> P.pres n <> [].
Proof. destruct n as [|l n]; [contradiction|]. intros _. unfold P.pres. cbn [flat_map]. destruct l; discriminate. Qed.
Lemma dots_removelast_pres n : P.plain_name n -> n <> [] -> dots (removelast (P.pres n)) = (length n - 1)%nat.
Proof.
  induction n as [|l n IH]; intros Hp Hne; [contradiction|].
  apply Forall_cons_iff in Hp as (Hl & Hp). unfold P.pres. cbn [flat_map]. fold (P.pres n).
  destruct n as [|l2 n2].
  - cbn [P.pres flat_map]. rewrite app_nil_r, removelast_last. cbn [length]. apply dots_none, Hl.
  - rewrite <- app_assoc, removelast_app by (cbn [app]; discriminate). cbn [app].
    assert (Ne : P.pres (l2 :: n2) <> []) by (apply pres_nonempty; discriminate).
    change (46%N :: P.pres (l2 :: n2)) with ([46%N] ++ P.pres (l2 :: n2)).
    rewrite removelast_app by exact Ne. rewrite !dots_app, (dots_none l) by apply Hl.
    rewrite IH by (assumption || discriminate). cbn [length dots filter N.eqb Pos.eqb app]. lia.
Qed.
Lemma no92_pres n : P.plain_name n -> ~ In 92%N (P.pres n).
Proof.
  induction n as [|l n IH]; intros Hp; [intros []|]. apply Forall_cons_iff in Hp as (Hl & Hp).
  unfold P.pres. cbn [flat_map]. rewrite !in_app_iff. intros [[X|[X|[]]]|X]; [apply Hl in X; exact X | discriminate | exact (IH Hp X)].
Qed.
Lemma model_count_label_present n : P.plain_name n -> count_label (P.present n) = N.of_nat (length n).
Proof.
  intros Hp. destruct n as [|l n]; [reflexivity|].
  assert (Hp' := Hp). apply Forall_cons_iff in Hp' as (Hl & _).
  cbn [P.present]. pose proof (dots_removelast_pres (l :: n) Hp ltac:(discriminate)) as D.
  pose proof (no92_pres (l :: n) Hp) as N92.
  destruct l as [|a l']; [destruct Hl as (X & _); contradiction|].
  assert (Ha : (a =? 46)%N = false) by (apply N.eqb_neq; intros ->; apply (proj1 (proj2 Hl)); left; reflexivity).
  match goal with |- count_label ?t = _ => set (s := t) in * end.
  assert (Hs : exists r, s = a :: r).
  { subst s. unfold P.pres. cbn [flat_map app]. eexists. reflexivity. }
  destruct Hs as (r & Hs).
  assert (C : count_label s = (1 + len (filter is_sep (removelast (esc_scan s false))))%N).
  { rewrite Hs. unfold count_label. rewrite (match46 a). rewrite Ha. reflexivity. }
  rewrite C, (esc_scan_plain s N92 false eq_refl).
  assert (R : forall l0 : list N, removelast (map (fun c => (c, false)) l0) = map (fun c => (c, false)) (removelast l0)).
  { induction l0 as [|x [|y l0] IH0]; try reflexivity. cbn [map removelast] in *. rewrite IH0. reflexivity. }
  rewrite R.
  assert (F : forall l0 : list N, len (filter is_sep (map (fun c => (c, false)) l0)) = N.of_nat (dots l0)).
  { unfold dots, len. induction l0 as [|x l0 IH0]; [reflexivity|]. cbn [map filter]. unfold is_sep at 1. cbn [fst snd negb]. unfold DOT.
    rewrite Bool.andb_true_r. destruct (x =? 46)%N; cbn [length]; lia. }
  rewrite F, D. cbn [length]. lia.
Qed.

(* the translated signatureMatchesRRset on an RRset whose owner is an escape-free name: total within the budget and
   equal to the model, with nothing left to the correspondence *)
Theorem gen_signature_matches_rrset_plain fuel s set :
  (forall h0 t, set = h0 :: t -> exists o, P.plain_name o /\ r_name h0 = P.present o /\ (length (r_name h0) + 1 < fuel)%nat) ->
  go_signatureMatchesRRset fuel (sig_rec s) (map rr_iface set) = Some (signature_matches_rrset s set).
Proof.
  intros Hp. apply gen_signature_matches_rrset. intros h0 t E.
  destruct (Hp h0 t E) as (o & Po & En & Hf). split; [exact Hf|].
  rewrite En, same_CountLabel, P.count_label_present by (assumption || rewrite <- En; lia).
  rewrite model_count_label_present by exact Po. f_equal. lia.
Qed.
