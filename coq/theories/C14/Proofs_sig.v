(* C14 — the RRSIG side of verify.go in the order of the code: verifyOneSigWithWork(…, nil, …) with its
   tests in order, the eligible candidate keys de-duplicated by identity and tried in ascending order and
   the error of the last one kept; verifyRRSIGWithWork(…, nil) with its RRsets in ascending order, the
   signatures of an RRset de-duplicated by identity (uniqueSortedRRSIGs) and the error of the last one kept.
   The error is nil exactly when the plain verdict model accepts: order and repetition of candidate keys,
   signatures and RRsets only select which error is returned. *)
From Sdns Require Import Common.Base Gen.C14 C14.Model C14.Proofs_rsa C14.Proofs_verify C14.Proofs_ds C14.Proofs_walk.
Open Scope N_scope.

(* ------------------------------------------------------------ names up to case *)
Lemma canonical_name_lower_eq a b : map lower a = map lower b -> canonical_name a = canonical_name b.
Proof.
  intros E. unfold canonical_name, fqdn.
  rewrite <- (is_fqdn_lower a), <- (is_fqdn_lower b), E.
  destruct (is_fqdn (map lower b)); [exact E|]. rewrite !map_app, E. reflexivity.
Qed.
Lemma equal_fold_lower_r x a b : map lower a = map lower b -> equal_fold x a = equal_fold x b.
Proof. intros E. unfold equal_fold. rewrite E. reflexivity. Qed.
Lemma equal_fold_lower_l x a b : map lower a = map lower b -> equal_fold a x = equal_fold b x.
Proof. intros E. unfold equal_fold. rewrite E. reflexivity. Qed.
Lemma equal_fold_sym a b : equal_fold a b = equal_fold b a.
Proof.
  unfold equal_fold. apply Bool.eq_iff_eq_true. rewrite !list_eqb_eq. split; intros E; symmetry; exact E.
Qed.
Lemma lower_fqdn_eq a b : is_fqdn a = true -> is_fqdn b = true ->
  to_lower (fqdn a) = to_lower (fqdn b) -> map lower a = map lower b.
Proof. unfold fqdn, to_lower. intros -> ->. tauto. Qed.

Lemma existsb_ext_all {A} (f g : A -> bool) l : (forall x, In x l -> f x = g x) -> existsb f l = existsb g l.
Proof.
  induction l as [|x l IH]; intros E; cbn [existsb]; [reflexivity|].
  rewrite (E x (or_introl eq_refl)), IH; [reflexivity|]. intros y Hy. apply E. right. exact Hy.
Qed.

(* ---------------------------------------------------------------- identities *)
Lemma sig_same_refl s : sig_same s s = true.
Proof. unfold sig_same. rewrite !list_eqb_refl, !N.eqb_refl. reflexivity. Qed.
Lemma sv_same_refl sv : sv_same sv sv = true.
Proof. apply sig_same_refl. Qed.

(* two signatures that differ in the spelling (case) of owner and signer only *)
Definition sig_eqv (a b : rrsig) : Prop :=
  map lower (s_name a) = map lower (s_name b) /\ map lower (s_signer a) = map lower (s_signer b) /\
  s_class a = s_class b /\ s_covered a = s_covered b /\ s_alg a = s_alg b /\ s_labels a = s_labels b /\
  s_origttl a = s_origttl b /\ s_exp a = s_exp b /\ s_inc a = s_inc b /\ s_keytag a = s_keytag b /\
  s_signature a = s_signature b.
Definition sig_fqdn (s : rrsig) : Prop := is_fqdn (s_name s) = true /\ is_fqdn (s_signer s) = true.

Lemma sig_same_eqv a b : sig_fqdn a -> sig_fqdn b -> sig_same a b = true -> sig_eqv a b.
Proof.
  intros (Fa1 & Fa2) (Fb1 & Fb2). unfold sig_same. rewrite !andb_true_iff, !list_eqb_eq, !N.eqb_eq.
  intros ((((((((((En & Ec) & Et) & Ea) & El) & Eo) & Ee) & Ei) & Ek) & Eg) & Es).
  unfold sig_eqv. repeat split; try assumption; apply lower_fqdn_eq; assumption.
Qed.

Section Sig.
  Variable H : N -> list N -> list N.
  Variable ECP : N -> list N -> bool.
  Variable ECV : N -> list N -> list N -> list N -> bool.
  Variable EDV : list N -> list N -> list N -> bool.
  Variable LIBV : dnskey -> rrsig -> list rr -> N.
  Notation VS := (verify_signature H ECP ECV EDV).
  Notation CV := (crypto_verify H ECP ECV EDV LIBV).
  Notation KL := (key_loop powmod H ECP ECV EDV LIBV).
  Notation ONE := (verify_one_sig H ECP ECV EDV LIBV).
  Notation ONEC := (verify_one_sig_code H ECP ECV EDV LIBV).

  (* ------------------------------------------------------- candidate keys *)
  Lemma usable_sig_spec s k : usable_signature_candidate s k = true ->
    key_tag k = s_keytag s /\ k_alg k = s_alg s /\ k_class k = s_class s /\ equal_fold (k_name k) (s_signer s) = true
    /\ k_proto k = candidate_protocol /\ (N.land (k_flags k) ZONE_FLAG =? 0) = false.
  Proof.
    unfold usable_signature_candidate. rewrite !andb_true_iff, !N.eqb_eq, negb_true_iff. tauto.
  Qed.

  (* an eligible key of a signature of a supported algorithm goes through this package's verifier *)
  Lemma crypto_verify_usable s k set : is_supported_dnskey_alg (s_alg s) = true -> usable_signature_candidate s k = true ->
    CV k s set = VS k s set.
  Proof.
    intros Sup U. apply usable_sig_spec in U as (_ & Ka & _).
    unfold crypto_verify, crypto_verify_pm. rewrite Ka, (supported_alg_values _ Sup). reflexivity.
  Qed.

  (* keys of one identity that are both eligible for the signature are verified alike *)
  Lemma verify_signature_key_same s x y set : key_same x y = true ->
    usable_signature_candidate s x = true -> usable_signature_candidate s y = true -> VS x s set = VS y s set.
  Proof.
    intros S Ux Uy. apply key_same_spec in S as (_ & Ec & Ef & Ep & Ea & Epk).
    apply usable_sig_spec in Ux as (_ & _ & _ & Nx & _). apply usable_sig_spec in Uy as (_ & _ & _ & Ny & _).
    rewrite equal_fold_sym in Nx, Ny.
    destruct x as [nx cx fx px ax pkx], y as [ny cy fy py ay pky]. cbn [k_name k_class k_flags k_proto k_alg k_pub] in *. subst.
    unfold verify_signature, verify_signature_pm, signature_binding, key_tag.
    cbn [k_name k_class k_flags k_proto k_alg k_pub]. rewrite Nx, Ny. reflexivity.
  Qed.

  Lemma key_loop_ok s set l : forall last,
    KL s set l last = E_OK <-> (exists k, In k l /\ CV k s set = E_OK) \/ (l = [] /\ last = E_OK).
  Proof.
    induction l as [|k l IH]; intros last; cbn [key_loop].
    - split; [intros ->; right; auto | intros [(k & [] & _) | (_ & ->)]; reflexivity].
    - fold (CV k s set). destruct (CV k s set =? E_OK) eqn:E.
      + apply N.eqb_eq in E. split; [|reflexivity]. intros _. left. exists k. split; [left; reflexivity | exact E].
      + apply N.eqb_neq in E. rewrite IH. split.
        * intros [(x & Hx & Ox) | (-> & Ee)]; [left; exists x; split; [right; exact Hx | exact Ox] | contradiction].
        * intros [(x & [<-|Hx] & Ox) | (D & _)]; [contradiction | left; exists x; auto | discriminate].
  Qed.
  (* the error the loop ends with: nil, or what the verifier said about one of the keys, or the initial value *)
  Lemma key_loop_value s set l : forall last,
    KL s set l last = last \/ exists k, In k l /\ CV k s set = KL s set l last.
  Proof.
    induction l as [|k l IH]; intros last; cbn [key_loop]; [left; reflexivity|].
    fold (CV k s set). destruct (CV k s set =? E_OK) eqn:E.
    - apply N.eqb_eq in E. right. exists k. split; [left; reflexivity | exact E].
    - destruct (IH (CV k s set)) as [-> | (x & Hx & Ox)].
      + right. exists k. split; [left; reflexivity | reflexivity].
      + right. exists x. split; [right; exact Hx | exact Ox].
  Qed.

  (* the eligible keys, unique and sorted, hold a verifying key exactly when the bucket holds a usable verifying key *)
  Lemma eligible_verifies s set cands : is_supported_dnskey_alg (s_alg s) = true ->
    ((exists k, In k (unique_sorted_keys (filter (usable_signature_candidate s) cands)) /\ CV k s set = E_OK) <->
     existsb (fun k => if usable_signature_candidate s k then CV k s set =? E_OK else false) cands = true).
  Proof.
    intros Sup. rewrite existsb_exists.
    set (el := filter (usable_signature_candidate s) cands).
    assert (E : (exists k, In k (unique_sorted_keys el) /\ (CV k s set =? E_OK) = true) <->
                (exists k, In k el /\ (CV k s set =? E_OK) = true)).
    { unfold unique_sorted_keys. destruct el as [|a [|b r]] eqn:Eel; try reflexivity. rewrite <- Eel.
      apply exists_unique_sorted; [apply key_same_refl|].
      intros x y Hx Hy S. subst el. apply filter_In in Hx as (_ & Ux). apply filter_In in Hy as (_ & Uy).
      rewrite (crypto_verify_usable s x set Sup Ux), (crypto_verify_usable s y set Sup Uy),
        (verify_signature_key_same s x y set S Ux Uy). reflexivity. }
    split.
    - intros (k & Hk & Ok). destruct (proj1 E) as (x & Hx & Ox). { exists k. split; [exact Hk | apply N.eqb_eq; exact Ok]. }
      subst el. apply filter_In in Hx as (Hx & Ux). exists x. rewrite Ux. auto.
    - intros (k & Hk & Ok). destruct (usable_signature_candidate s k) eqn:Uk; [|discriminate].
      destruct (proj2 E) as (x & Hx & Ox). { exists k. split; [subst el; apply filter_In; auto | exact Ok]. }
      exists x. split; [exact Hx | apply N.eqb_eq; exact Ox].
  Qed.

  (* verifyOneSig: the error is nil exactly when the verdict model accepts — the de-duplication and the order of the
     candidate keys only select which error is returned *)
  Theorem verify_one_sig_code_verdict keys set s valid :
    (ONEC keys set s valid =? E_OK) = ONE keys set s valid.
  Proof.
    unfold verify_one_sig_code, verify_one_sig_code_pm, verify_one_sig, verify_one_sig_pm.
    destruct (find (fun p => fst p =? s_keytag s) keys) as [p|]; [|reflexivity]. cbv zeta.
    destruct (is_nil (snd p)); [reflexivity|].
    destruct (negb (existsb (fun k => equal_fold (s_signer s) (k_name k)) (snd p))); [reflexivity|].
    destruct valid; cbn [negb]; [|reflexivity].
    destruct (is_supported_dnskey_alg (s_alg s)) eqn:Sup; cbn [negb]; [|reflexivity].
    destruct (negb (signature_matches_rrset s set)); [reflexivity|].
    pose proof (eligible_verifies s set (snd p) Sup) as EV.
    fold (crypto_verify H ECP ECV EDV LIBV) in *.
    set (el := unique_sorted_keys (filter (usable_signature_candidate s) (snd p))) in *.
    apply Bool.eq_iff_eq_true. rewrite <- EV. clear EV.
    destruct (is_nil el) eqn:Nl.
    - destruct el; [|discriminate]. split; [discriminate | intros (k & [] & _)].
    - rewrite N.eqb_eq, key_loop_ok. split.
      + intros [X | (-> & _)]; [exact X | discriminate].
      + intros X. left. exact X.
  Qed.

  (* what the verifier can say about one key *)
  Lemma verify_signature_values k s set : In (VS k s set) [E_OK; E_MISSING_SIGNED; E_MISSING_DNSKEY; E_SIG; E_OTHER].
  Proof.
    unfold verify_signature, verify_signature_pm. cbv zeta.
    assert (B : In (signature_binding k s set) [E_OK; E_MISSING_SIGNED; E_MISSING_DNSKEY]).
    { unfold signature_binding. repeat match goal with |- context [if ?b then _ else _] => destruct b; [cbn; auto 12|] end.
      destruct set; [cbn; auto 12|]. destruct (_ || _); cbn; auto 12. }
    destruct (negb (signature_binding k s set =? E_OK)).
    { cbn in B |- *. tauto. }
    assert (D : forall x, signed_data s set = inl x -> In x [E_MISSING_SIGNED; E_OTHER]).
    { unfold signed_data, canonical_rrset. intros x.
      destruct (pack_name _ _); [|intros [= <-]; cbn; auto 12].
      destruct (all_some _) as [[|w0 wires]|]; try (intros [= <-]; cbn; auto 12).
      destruct (wire_rdata_offset w0); [|intros [= <-]; cbn; auto 12].
      destruct (existsb _ _); intros [= <-]; cbn; auto 12. }
    destruct (signed_data s set) as [x|signed]; [specialize (D x eq_refl); cbn in D |- *; tauto|].
    destruct (negb (snd (b64_decode (s_signature s)))); [cbn; auto 12|].
    unfold verify_rsa_signature_pm, verify_ecdsa_signature, verify_ed25519_signature. cbv zeta.
    repeat match goal with |- context [match ?b with _ => _ end] => destruct b end; cbn; auto 12.
  Qed.

  Ltac done_c :=
    unfold E_OK, E_MISSING_SIGNED, E_MISSING_DNSKEY, E_SIG, E_OTHER, E_PERIOD, E_ALG in *;
    repeat split; intros;
    try discriminate; try contradiction; try assumption; try (cbn; auto 12; fail);
    try match goal with X : _ \/ _ |- _ => destruct X; discriminate end;
    try congruence.
  (* which error: the tests in the order of the code *)
  Theorem verify_one_sig_code_values keys set s valid :
    let c := ONEC keys set s valid in
    let named := exists tag cands k, find (fun p => fst p =? s_keytag s) keys = Some (tag, cands) /\ In k cands
                   /\ equal_fold (s_signer s) (k_name k) = true in
    In c [E_OK; E_MISSING_SIGNED; E_MISSING_DNSKEY; E_SIG; E_OTHER; E_PERIOD; E_ALG] /\
    (~ named -> c = E_MISSING_DNSKEY) /\
    (named -> valid = false -> c = E_PERIOD) /\
    (named -> valid = true -> is_supported_dnskey_alg (s_alg s) = false -> c = E_ALG) /\
    (named -> valid = true -> is_supported_dnskey_alg (s_alg s) = true -> signature_matches_rrset s set = false -> c = E_MISSING_SIGNED) /\
    (c = E_PERIOD -> named /\ valid = false) /\
    (c = E_ALG -> named /\ valid = true /\ is_supported_dnskey_alg (s_alg s) = false) /\
    (c = E_SIG \/ c = E_OTHER -> exists tag cands k, In (tag, cands) keys /\ tag = s_keytag s /\ In k cands /\
        usable_signature_candidate s k = true /\ VS k s set = c).
  Proof.
    cbv zeta. unfold verify_one_sig_code, verify_one_sig_code_pm. cbv zeta.
    destruct (find (fun p => fst p =? s_keytag s) keys) as [[tag cands]|] eqn:F; cbn [snd].
    2:{ done_c. all: try match goal with X : exists _, _ |- _ => destruct X as (t0 & c0 & k0 & X & _); discriminate end. }
    assert (NM : forall k, In k cands -> equal_fold (s_signer s) (k_name k) = true ->
                 exists tag0 cands0 k0, Some (tag, cands) = Some (tag0, cands0) /\ In k0 cands0 /\ equal_fold (s_signer s) (k_name k0) = true).
    { intros k Hk Ek. exists tag, cands, k. auto. }
    destruct (is_nil cands) eqn:Nc.
    { destruct cands; [|discriminate]. done_c.
      all: try match goal with X : exists _, _ |- _ => destruct X as (t0 & c0 & k0 & [= <- <-] & [] & _) end. }
    destruct (existsb (fun k => equal_fold (s_signer s) (k_name k)) cands) eqn:Ex; cbn [negb].
    2:{ assert (NN : ~ exists tag0 cands0 k0, Some (tag, cands) = Some (tag0, cands0) /\ In k0 cands0 /\ equal_fold (s_signer s) (k_name k0) = true).
        { intros (t & c & k & [= <- <-] & Hk & Ek).
          assert (existsb (fun k => equal_fold (s_signer s) (k_name k)) cands = true) by (apply existsb_exists; exists k; auto). congruence. }
        done_c. }
    apply existsb_exists in Ex as (k0 & Hk0 & Ek0). pose proof (NM k0 Hk0 Ek0) as Named.
    destruct valid; cbn [negb]; [|done_c].
    destruct (is_supported_dnskey_alg (s_alg s)) eqn:Sup; cbn [negb]; [|done_c].
    destruct (signature_matches_rrset s set) eqn:M; cbn [negb]; [|done_c].
    set (el := unique_sorted_keys (filter (usable_signature_candidate s) cands)).
    assert (V : forall k, In k el -> In k cands /\ usable_signature_candidate s k = true /\ CV k s set = VS k s set).
    { intros k Hk. apply unique_sorted_keys_incl, filter_In in Hk as (Hk & Uk).
      repeat split; [exact Hk | exact Uk | apply crypto_verify_usable; assumption]. }
    apply find_some in F as (Fi & Ft). cbn [fst] in Ft. apply N.eqb_eq in Ft.
    destruct (is_nil el) eqn:Nl; [done_c|].
    fold (KL s set el E_MISSING_DNSKEY).
    destruct (key_loop_value s set el E_MISSING_DNSKEY) as [-> | (k & Hk & Ok)]; [done_c|].
    destruct (V k Hk) as (Hc & Uk & Eq). rewrite <- Ok, Eq.
    pose proof (verify_signature_values k s set) as W. cbn [In] in W.
    destruct W as [W|[W|[W|[W|[W|[]]]]]]; rewrite <- W; done_c; exists tag, cands, k; rewrite W; auto 8.
  Qed.

  (* ------------------------------------------------- signatures up to spelling *)
  Lemma signature_matches_eqv a b set : sig_eqv a b -> signature_matches_rrset a set = signature_matches_rrset b set.
  Proof.
    intros (En & Eg & Ec & Et & Ea & El & Eo & Ee & Ei & Ek & Es).
    unfold signature_matches_rrset. destruct set as [|h0 r]; [reflexivity|].
    rewrite Ec, Et, El, (equal_fold_lower_r _ _ _ En), (canonical_name_lower_eq _ _ Eg). reflexivity.
  Qed.
  Lemma usable_sig_eqv a b k : sig_eqv a b -> usable_signature_candidate a k = usable_signature_candidate b k.
  Proof.
    intros (En & Eg & Ec & Et & Ea & El & Eo & Ee & Ei & Ek & Es).
    unfold usable_signature_candidate. rewrite Ek, Ea, Ec, (equal_fold_lower_r _ _ _ Eg). reflexivity.
  Qed.
  Lemma verify_signature_eqv a b k set : sig_eqv a b -> VS k a set = VS k b set.
  Proof.
    intros (En & Eg & Ec & Et & Ea & El & Eo & Ee & Ei & Ek & Es).
    destruct a as [na ca ta aa la oa ea ia ka ga sa], b as [nb cb tb ab lb ob eb ib kb gb sb].
    cbn [s_name s_class s_covered s_alg s_labels s_origttl s_exp s_inc s_keytag s_signer s_signature] in *. subst.
    unfold verify_signature, verify_signature_pm, signature_binding, signed_data, sig_rdata_prefix.
    cbn [s_name s_class s_covered s_alg s_labels s_origttl s_exp s_inc s_keytag s_signer s_signature].
    rewrite (equal_fold_lower_l _ _ _ Eg), (canonical_name_lower_eq _ _ Eg).
    destruct set as [|h0 r]; [reflexivity|].
    rewrite (equal_fold_lower_r _ _ _ En). reflexivity.
  Qed.
  Lemma key_loop_ext a b set l : (forall k, In k l -> CV k a set = CV k b set) ->
    forall last, KL a set l last = KL b set l last.
  Proof.
    induction l as [|k l IH]; intros E last; cbn [key_loop]; [reflexivity|].
    fold (CV k a set) (CV k b set). rewrite (E k (or_introl eq_refl)), IH; [reflexivity|].
    intros x Hx. apply E. right. exact Hx.
  Qed.
  (* signatures of one identity (fully-qualified owner and signer) are treated alike by verifyOneSig *)
  Lemma verify_one_sig_code_eqv keys set a b valid : sig_eqv a b -> ONEC keys set a valid = ONEC keys set b valid.
  Proof.
    intros E. pose proof E as (En & Eg & Ec & Et & Ea & El & Eo & Ee & Ei & Ek & Es).
    unfold verify_one_sig_code, verify_one_sig_code_pm. rewrite Ek. cbv zeta.
    destruct (find (fun p => fst p =? s_keytag b) keys) as [p|]; [|reflexivity].
    destruct (is_nil (snd p)); [reflexivity|].
    rewrite (existsb_ext_all (fun k => equal_fold (s_signer a) (k_name k)) (fun k => equal_fold (s_signer b) (k_name k)))
      by (intros k _; apply equal_fold_lower_l; exact Eg).
    destruct (negb (existsb _ (snd p))); [reflexivity|].
    destruct (negb valid); [reflexivity|].
    rewrite Ea. destruct (is_supported_dnskey_alg (s_alg b)) eqn:Sup; cbn [negb]; [|reflexivity].
    rewrite (signature_matches_eqv a b set E).
    destruct (negb (signature_matches_rrset b set)); [reflexivity|].
    rewrite (filter_ext_eq (usable_signature_candidate a) (usable_signature_candidate b))
      by (intros k; apply usable_sig_eqv; exact E).
    destruct (is_nil _); [reflexivity|].
    apply key_loop_ext. intros k Hk. apply unique_sorted_keys_incl, filter_In in Hk as (_ & Uk).
    assert (Uk' : usable_signature_candidate a k = true) by (rewrite (usable_sig_eqv a b k E); exact Uk).
    rewrite (crypto_verify_usable a k set) by (try rewrite Ea; assumption).
    rewrite (crypto_verify_usable b k set) by assumption.
    apply verify_signature_eqv. exact E.
  Qed.
  (* the verdict model asks for an RRset before anything else it can accept *)
  Lemma verify_one_sig_code_rrset keys set s valid : ONEC keys set s valid = E_OK -> is_rrset set = true.
  Proof.
    intros C. assert (A : ONE keys set s valid = true) by (rewrite <- verify_one_sig_code_verdict, C; reflexivity).
    apply verify_one_sig_accept in A as (_ & _ & M & _).
    unfold signature_matches_rrset in M. destruct set as [|h0 r]; [discriminate|].
    do 5 (apply andb_prop in M as (M & _)). exact M.
  Qed.
End Sig.

(* ------------------------------------------------------------ the message walk *)

Lemma same_rrset_key_spec a b : same_rrset_key a b = true <->
  to_lower (r_name a) = to_lower (r_name b) /\ r_type a = r_type b /\ r_class a = r_class b.
Proof. unfold same_rrset_key. rewrite !andb_true_iff, list_eqb_eq, !N.eqb_eq. tauto. Qed.
Lemma same_rrset_key_cong a b x : same_rrset_key a b = true -> same_rrset_key x a = same_rrset_key x b.
Proof.
  intros S. apply same_rrset_key_spec in S as (En & Et & Ec). unfold same_rrset_key. rewrite En, Et, Ec. reflexivity.
Qed.

Section WalkCodeFacts.
  Variable ONEC : list rr -> rrsig -> bool -> N.
  Variable signer : list N.
  Variables answer ns : list mitem.
  Notation records := (walk_records signer answer ns).
  Notation group := (walk_group signer answer ns).
  Notation zone := (walk_zone signer).
  Notation sigs := (walk_sigs answer ns).
  Let ONE := fun set s v => ONEC set s v =? 0.

  (* what verifyOneSig accepts is an RRset *)
  Hypothesis Hset : forall set s v, ONEC set s v = 0 -> is_rrset set = true.
  (* signatures of one identity in this message are treated alike (proved below for verifyOneSig under
     fully-qualified names and validity bits that are a function of the identity) *)
  Hypothesis Hcong : forall set a b, In a sigs -> In b sigs -> sv_same a b = true -> ONEC set (fst a) (snd a) = ONEC set (fst b) (snd b).

  Lemma sig_loop_ok set l : forall last,
    sig_loop ONEC set l last = 0 <-> exists sv, In sv l /\ ONEC set (fst sv) (snd sv) = 0.
  Proof.
    induction l as [|sv l IH]; intros last; cbn [sig_loop].
    - split; [|intros (sv & [] & _)]. destruct (last =? 0) eqn:E; [discriminate|]. apply N.eqb_neq in E. intros X. contradiction.
    - destruct (ONEC set (fst sv) (snd sv) =? 0) eqn:E.
      + apply N.eqb_eq in E. split; [|reflexivity]. intros _. exists sv. split; [left; reflexivity | exact E].
      + apply N.eqb_neq in E. rewrite IH. split.
        * intros (x & Hx & Ox). exists x. split; [right; exact Hx | exact Ox].
        * intros (x & [<-|Hx] & Ox); [contradiction | exists x; auto].
  Qed.

  Lemma group_code_ok r : group_code ONEC signer answer ns r = 0 <-> walk_group_verified ONE signer answer ns r = true.
  Proof.
    unfold group_code, walk_group_verified. cbv zeta.
    set (cov := filter (fun sv => sig_covers zone (fst sv) r) sigs).
    assert (EX : existsb (fun sv => if sig_covers zone (fst sv) r then ONE (group r) (fst sv) (snd sv) else false) sigs = true <->
                 exists sv, In sv cov /\ ONEC (group r) (fst sv) (snd sv) = 0).
    { rewrite existsb_exists. subst cov. split.
      - intros (sv & Hs & C). destruct (sig_covers zone (fst sv) r) eqn:Cv; [|discriminate].
        exists sv. split; [apply filter_In; auto | apply N.eqb_eq; exact C].
      - intros (sv & Hs & C). apply filter_In in Hs as (Hs & Cv). exists sv. rewrite Cv. split; [exact Hs | apply N.eqb_eq; exact C]. }
    rewrite EX. clear EX.
    destruct (is_nil cov) eqn:Nc.
    { destruct cov; [|discriminate]. split; [discriminate | intros (sv & [] & _)]. }
    destruct (is_rrset (group r)) eqn:Rs; cbn [negb].
    2:{ split; [discriminate|]. intros (sv & _ & C). apply Hset in C. congruence. }
    rewrite sig_loop_ok. unfold unique_sorted_sigs.
    assert (E := exists_unique_sorted sv_same sv_less (fun sv => ONEC (group r) (fst sv) (snd sv) =? 0) cov sv_same_refl).
    assert (C : forall x y, In x cov -> In y cov -> sv_same x y = true ->
                (ONEC (group r) (fst x) (snd x) =? 0) = (ONEC (group r) (fst y) (snd y) =? 0)).
    { intros x y Hx Hy S. subst cov. apply filter_In in Hx as (Hx & _). apply filter_In in Hy as (Hy & _).
      rewrite (Hcong (group r) x y Hx Hy S). reflexivity. }
    specialize (E C). split.
    - intros (sv & Hs & O). destruct (proj1 E) as (x & Hx & Ox). { exists sv. split; [exact Hs | apply N.eqb_eq; exact O]. }
      exists x. split; [exact Hx | apply N.eqb_eq; exact Ox].
    - intros (sv & Hs & O). destruct (proj2 E) as (x & Hx & Ox). { exists sv. split; [exact Hs | apply N.eqb_eq; exact O]. }
      exists x. split; [exact Hx | apply N.eqb_eq; exact Ox].
  Qed.

  (* records of one RRset have the same group, the same covering signatures, the same result *)
  Lemma group_code_same x y : same_rrset_key x y = true -> group_code ONEC signer answer ns x = group_code ONEC signer answer ns y.
  Proof.
    intros S. unfold group_code, walk_group. cbv zeta.
    rewrite (filter_ext_eq (fun x0 => same_rrset_key x0 x) (fun x0 => same_rrset_key x0 y)) by (intros z; apply same_rrset_key_cong; exact S).
    rewrite (filter_ext_eq (fun sv => sig_covers zone (fst sv) x) (fun sv => sig_covers zone (fst sv) y)); [reflexivity|].
    intros sv. apply same_rrset_key_spec in S as (En & Et & Ec). unfold sig_covers. rewrite En, Et, Ec. reflexivity.
  Qed.

  Lemma groups_code_ok l : groups_code ONEC signer answer ns l = 0 <-> forall r, In r l -> group_code ONEC signer answer ns r = 0.
  Proof.
    induction l as [|r l IH]; cbn [groups_code].
    - split; [intros _ r [] | reflexivity].
    - destruct (group_code ONEC signer answer ns r =? 0) eqn:E.
      + apply N.eqb_eq in E. rewrite IH. split.
        * intros A x [<-|Hx]; [exact E | apply A; exact Hx].
        * intros A x Hx. apply A. right. exact Hx.
      + apply N.eqb_neq in E. split; [intros X; contradiction|]. intros A. exfalso. apply E, A. left. reflexivity.
  Qed.

  (* the walk in the order of the code returns nil exactly when the verdict model accepts *)
  Theorem walk_code_verdict : (walk_code ONEC signer answer ns =? 0) = walk_verdict ONE signer answer ns.
  Proof.
    unfold walk_code, walk_verdict.
    destruct (existsb (fun r => negb (walk_in_zone signer r)) (walk_answer signer answer ns)); [reflexivity|].
    destruct (is_nil records) eqn:Nr; [reflexivity|].
    apply Bool.eq_iff_eq_true. rewrite forallb_forall.
    destruct (is_nil sigs) eqn:Ns.
    - destruct sigs eqn:Es; [|discriminate]. split; [discriminate|]. intros A.
      destruct records as [|r0 rl] eqn:Er; [discriminate|]. specialize (A r0 (or_introl eq_refl)).
      unfold walk_group_verified in A. rewrite Es in A. discriminate.
    - rewrite N.eqb_eq, groups_code_ok. unfold walk_keys.
      assert (E := exists_unique_sorted same_rrset_key (rrset_key_less) (fun r => negb (group_code ONEC signer answer ns r =? 0))
                     records same_rrset_key_refl).
      assert (C : forall x y, In x records -> In y records -> same_rrset_key x y = true ->
                  negb (group_code ONEC signer answer ns x =? 0) = negb (group_code ONEC signer answer ns y =? 0)).
      { intros x y _ _ S. rewrite (group_code_same x y S). reflexivity. }
      specialize (E C). split.
      + intros A r Hr. apply group_code_ok. destruct (group_code ONEC signer answer ns r =? 0) eqn:G; [apply N.eqb_eq; exact G|].
        destruct (proj2 E) as (x & Hx & Px). { exists r. rewrite G. auto. }
        apply negb_true_iff, N.eqb_neq in Px. destruct (Px (A x Hx)).
      + intros A r Hr. destruct (group_code ONEC signer answer ns r =? 0) eqn:G; [apply N.eqb_eq; exact G|].
        destruct (proj1 E) as (x & Hx & Px). { exists r. rewrite G. auto. }
        apply negb_true_iff, N.eqb_neq in Px. destruct Px. apply group_code_ok, A, Hx.
  Qed.

End WalkCodeFacts.

Section WalkCodeValues.
  Variable ONEC : list rr -> rrsig -> bool -> N.
  Variable signer : list N.
  Variables answer ns : list mitem.
  Notation records := (walk_records signer answer ns).
  Notation group := (walk_group signer answer ns).
  Notation zone := (walk_zone signer).
  Notation sigs := (walk_sigs answer ns).

  (* which error *)
  Lemma sig_loop_value set l : forall last,
    sig_loop ONEC set l last = 0 \/
    (sig_loop ONEC set l last = E_MISSING_SIGNED /\ l = [] /\ last = 0) \/
    sig_loop ONEC set l last = last \/ exists sv, In sv l /\ ONEC set (fst sv) (snd sv) = sig_loop ONEC set l last.
  Proof.
    induction l as [|sv l IH]; intros last; cbn [sig_loop].
    - destruct (last =? 0) eqn:E; [apply N.eqb_eq in E; right; left; auto | right; right; left; reflexivity].
    - destruct (ONEC set (fst sv) (snd sv) =? 0) eqn:E; [left; reflexivity|].
      destruct (IH (ONEC set (fst sv) (snd sv))) as [Z | [(_ & _ & Z) | [Z | (x & Hx & Ox)]]].
      + left. exact Z.
      + apply N.eqb_neq in E. contradiction.
      + right; right; right. exists sv. split; [left; reflexivity | symmetry; exact Z].
      + right; right; right. exists x. split; [right; exact Hx | exact Ox].
  Qed.

  Theorem walk_code_values :
    let c := walk_code ONEC signer answer ns in
    c = 0 \/
    (c = E_MISSING_SIGNED /\ exists r, In r (walk_answer signer answer ns) /\ walk_in_zone signer r = false) \/
    (c = E_NO_SIGS /\ records <> [] /\ sigs = []) \/
    (sigs <> [] /\ exists r, In r records /\
       ((c = E_MISSING_SIGNED /\ ((forall sv, In sv sigs -> sig_covers zone (fst sv) r = false) \/ is_rrset (group r) = false)) \/
        exists sv, In sv sigs /\ sig_covers zone (fst sv) r = true /\ ONEC (group r) (fst sv) (snd sv) = c /\ c <> 0)).
  Proof.
    cbv zeta. unfold walk_code.
    destruct (existsb (fun r => negb (walk_in_zone signer r)) (walk_answer signer answer ns)) eqn:F.
    { right; left. split; [reflexivity|]. apply existsb_exists in F as (r & Hr & Z). exists r. split; [exact Hr|].
      apply negb_true_iff in Z. exact Z. }
    destruct (is_nil records) eqn:Nr; [left; reflexivity|].
    destruct (is_nil sigs) eqn:Ns.
    { right; right; left. split; [reflexivity|]. split; [destruct records; discriminate | destruct sigs; [reflexivity | discriminate]]. }
    assert (G : forall l, (forall r, In r l -> In r records) ->
                groups_code ONEC signer answer ns l = 0 \/
                exists r, In r records /\ group_code ONEC signer answer ns r = groups_code ONEC signer answer ns l /\ group_code ONEC signer answer ns r <> 0).
    { induction l as [|r l IH]; intros Hl; cbn [groups_code]; [left; reflexivity|].
      destruct (group_code ONEC signer answer ns r =? 0) eqn:E.
      - apply IH. intros x Hx. apply Hl. right. exact Hx.
      - right. exists r. apply N.eqb_neq in E. split; [apply Hl; left; reflexivity | auto]. }
    destruct (G (walk_keys signer answer ns)) as [Z | (r & Hr & Gr & Nz)].
    { intros r Hr. unfold walk_keys in Hr. apply sort_by_in, dedup_first_incl in Hr. exact Hr. }
    { left. exact Z. }
    right; right; right. split; [destruct sigs; discriminate|]. exists r. split; [exact Hr|].
    rewrite <- Gr. clear Gr. revert Nz. unfold group_code. cbv zeta.
    set (cov := filter (fun sv => sig_covers zone (fst sv) r) sigs).
    destruct (is_nil cov) eqn:Nc.
    { intros _. left. split; [reflexivity|]. left. intros sv Hs. destruct (sig_covers zone (fst sv) r) eqn:Cv; [|reflexivity].
      assert (In sv cov) by (subst cov; apply filter_In; auto). destruct cov; [contradiction | discriminate]. }
    destruct (is_rrset (group r)); cbn [negb]; [|intros _; left; split; [reflexivity | right; reflexivity]].
    intros Nz.
    destruct (sig_loop_value (group r) (unique_sorted_sigs cov) 0) as [Z | [(_ & E & _) | [Z | (sv & Hs & Os)]]].
    - contradiction.
    - exfalso. unfold unique_sorted_sigs in E.
      assert (X : is_nil (sort_by sv_less (dedup_first sv_same [] cov)) = is_nil cov) by (apply unique_sorted_nil, sv_same_refl).
      rewrite E, Nc in X. discriminate.
    - contradiction.
    - right. unfold unique_sorted_sigs in Hs. apply sort_by_in, dedup_first_incl in Hs. subst cov. apply filter_In in Hs as (Hs & Cv).
      exists sv. repeat split; assumption.
  Qed.
End WalkCodeValues.

(* ---------------------------------------------------- VerifyRRSIG as coded *)
Section MsgCode.
  Variable H : N -> list N -> list N.
  Variable ECP : N -> list N -> bool.
  Variable ECV : N -> list N -> list N -> list N -> bool.
  Variable EDV : list N -> list N -> list N -> bool.
  Variable LIBV : dnskey -> rrsig -> list rr -> N.

  (* the signatures of the message name their owner and signer fully qualified, and two of one identity carry the
     same ValidityPeriod(now) bit (the identity holds inception and expiration) *)
  Definition msg_sigs_wf (answer ns : list mitem) : Prop :=
    (forall sv, In sv (walk_sigs answer ns) -> sig_fqdn (fst sv)) /\
    (forall a b, In a (walk_sigs answer ns) -> In b (walk_sigs answer ns) -> sv_same a b = true -> snd a = snd b).

  Theorem verify_rrsig_code_verdict signer keys answer ns : msg_sigs_wf answer ns ->
    (verify_rrsig_code H ECP ECV EDV LIBV signer keys answer ns =? E_OK) = verify_rrsig H ECP ECV EDV LIBV signer keys answer ns.
  Proof.
    intros (WF & WV). unfold verify_rrsig_code, verify_rrsig_code_pm, verify_rrsig, verify_rrsig_pm.
    destruct (is_nil keys); [reflexivity|].
    change E_OK with 0.
    rewrite (walk_code_verdict (fun set s v => verify_one_sig_code H ECP ECV EDV LIBV keys set s v)).
    - unfold walk_verdict.
      destruct (existsb _ (walk_answer signer answer ns)); [reflexivity|].
      destruct (is_nil (walk_records signer answer ns)); [reflexivity|].
      assert (FE : forall (f g : rr -> bool) l, (forall x, f x = g x) -> forallb f l = forallb g l).
      { intros f g l E. induction l as [|x l IHl]; cbn [forallb]; [reflexivity|]. rewrite E, IHl. reflexivity. }
      apply FE. intros r. unfold walk_group_verified. apply existsb_ext_all. intros sv _.
      destruct (sig_covers _ (fst sv) r); [|reflexivity].
      apply (verify_one_sig_code_verdict H ECP ECV EDV LIBV).
    - intros set s v. apply verify_one_sig_code_rrset.
    - intros set a b Ha Hb S. rewrite (WV a b Ha Hb S).
      apply verify_one_sig_code_eqv. apply sig_same_eqv; [apply WF; exact Ha | apply WF; exact Hb | exact S].
  Qed.

  Theorem verify_rrsig_code_values signer keys answer ns :
    let c := verify_rrsig_code H ECP ECV EDV LIBV signer keys answer ns in
    (keys = [] /\ c = E_MISSING_DNSKEY) \/
    (keys <> [] /\
     (c = 0 \/
      (c = E_MISSING_SIGNED /\ exists r, In r (walk_answer signer answer ns) /\ walk_in_zone signer r = false) \/
      (c = E_NO_SIGS /\ walk_records signer answer ns <> [] /\ walk_sigs answer ns = []) \/
      (walk_sigs answer ns <> [] /\ exists r, In r (walk_records signer answer ns) /\
         ((c = E_MISSING_SIGNED /\ ((forall sv, In sv (walk_sigs answer ns) -> sig_covers (walk_zone signer) (fst sv) r = false)
                      \/ is_rrset (walk_group signer answer ns r) = false)) \/
          exists sv, In sv (walk_sigs answer ns) /\ sig_covers (walk_zone signer) (fst sv) r = true /\
            verify_one_sig_code H ECP ECV EDV LIBV keys (walk_group signer answer ns r) (fst sv) (snd sv) = c /\ c <> 0)))).
  Proof.
    cbv zeta. unfold verify_rrsig_code, verify_rrsig_code_pm.
    destruct keys as [|k0 kr]; [left; auto|]. right. split; [discriminate|]. cbn [is_nil].
    exact (walk_code_values (fun set s v => verify_one_sig_code H ECP ECV EDV LIBV (k0 :: kr) set s v) signer answer ns).
  Qed.
End MsgCode.
