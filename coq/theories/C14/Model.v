(* C14 — in-house DNSSEC primitives: executable model.  Definitions only;
   proofs are in Proofs_*.v.

   Written from middleware/resolver/dnssec/{keytag,ds_digest,signature,rsa,
   verify}.go statement by statement.  Numbers, algorithm lists and the
   DigestInfo prefixes come from Gen/C14.v (regenerated from /repo on every
   run).  Byte strings, Go strings and domain names in presentation form are
   [list N] (one element per octet).

   What is *modelled by hand and tied by the correspondence driver* (not
   verified): encoding/base64 (StdEncoding.Decode), miekg/dns name helpers
   (CanonicalName, IsFqdn, CountLabel, PrevLabel, PackDomainName, PackRR header
   layout, IsRRset), crypto/rsa's public-key checks, math/big.  Hash
   functions, ECDSA and Ed25519 verification are oracles: Section variables
   here, look-up tables filled in by the driver in Run.v. *)
From Sdns Require Import Common.Base Common.GoList Gen.C14.
Open Scope N_scope.

(* ------------------------------------------------------------------ bytes *)

Definition len {A} (l : list A) : N := N.of_nat (length l).
Definition is_nil {A} (l : list A) : bool := match l with [] => true | _ => false end.

Fixpoint list_eqb (a b : list N) : bool :=
  match a, b with
  | [], [] => true
  | x :: xs, y :: ys => (x =? y) && list_eqb xs ys
  | _, _ => false
  end.

(* bytes.Compare: -1 / 0 / 1 as a comparison *)
Fixpoint bytes_compare (a b : list N) : comparison :=
  match a, b with
  | [], [] => Eq
  | [], _ :: _ => Lt
  | _ :: _, [] => Gt
  | x :: xs, y :: ys => match x ?= y with Eq => bytes_compare xs ys | c => c end
  end.
Definition bytes_lt (a b : list N) : bool := match bytes_compare a b with Lt => true | _ => false end.

(* big-endian: OS2IP (big.Int.SetBytes) and fixed / minimal width I2OSP *)
Definition os2ip (l : list N) : N := fold_left (fun acc b => acc * 256 + b) l 0.
Fixpoint i2osp_nat (w : nat) (x : N) (acc : list N) : list N :=
  match w with
  | O => acc
  | S w' => i2osp_nat w' (x / 256) (x mod 256 :: acc)
  end.
Definition i2osp (w : N) (x : N) : list N := i2osp_nat (N.to_nat w) x [].
Definition be16 (x : N) : list N := i2osp 2 x.
Definition be32 (x : N) : list N := i2osp 4 x.
(* big.Int.BitLen *)
Definition bits (x : N) : N := N.size x.
(* big.Int.Bytes: minimal big-endian, empty for zero *)
Definition min_bytes (x : N) : list N := i2osp ((bits x + 7) / 8) x.

(* strings *)
Definition lower (c : N) : N := if (65 <=? c) && (c <=? 90) then c + 32 else c.
Definition upper (c : N) : N := if (97 <=? c) && (c <=? 122) then c - 32 else c.
Fixpoint has_prefix (p s : list N) : bool :=
  match p, s with
  | [], _ => true
  | x :: ps, y :: ss => (x =? y) && has_prefix ps ss
  | _ :: _, [] => false
  end.
Definition has_suffix (s suf : list N) : bool :=
  (length suf <=? length s)%nat && list_eqb (skipn (length s - length suf) s) suf.
Definition mem_str (s : list N) (l : list (list N)) : bool := existsb (list_eqb s) l.

(* ------------------------------------------- miekg/dns constants by name *)
(* The switch statements in the anchored code name algorithms and digest
   types through miekg/dns constants; srcgen extracts the identifiers, this
   table gives their values.  The driver reports the values the compiled
   program sees (CaseConst in Run.v), so the table is checked on every run. *)
Definition str (l : list N) := l.
Definition dns_consts : list (list N * N) :=
  [ ([82;83;65;77;68;53], 1);                                   (* RSAMD5 *)
    ([68;72], 2); ([68;83;65], 3);                              (* DH DSA *)
    ([82;83;65;83;72;65;49], 5);                                (* RSASHA1 *)
    ([68;83;65;78;83;69;67;51;83;72;65;49], 6);                 (* DSANSEC3SHA1 *)
    ([82;83;65;83;72;65;49;78;83;69;67;51;83;72;65;49], 7);     (* RSASHA1NSEC3SHA1 *)
    ([82;83;65;83;72;65;50;53;54], 8);                          (* RSASHA256 *)
    ([82;83;65;83;72;65;53;49;50], 10);                         (* RSASHA512 *)
    ([69;67;67;71;79;83;84], 12);                               (* ECCGOST *)
    ([69;67;68;83;65;80;50;53;54;83;72;65;50;53;54], 13);       (* ECDSAP256SHA256 *)
    ([69;67;68;83;65;80;51;56;52;83;72;65;51;56;52], 14);       (* ECDSAP384SHA384 *)
    ([69;68;50;53;53;49;57], 15);                               (* ED25519 *)
    ([69;68;52;52;56], 16);                                     (* ED448 *)
    ([83;72;65;49], 1); ([83;72;65;50;53;54], 2);               (* SHA1 SHA256 *)
    ([71;79;83;84;57;52], 3); ([83;72;65;51;56;52], 4);         (* GOST94 SHA384 *)
    ([83;72;65;53;49;50], 5) ].                                 (* SHA512 *)
Definition dns_const (name : list N) : N :=
  match find (fun p => list_eqb (fst p) name) dns_consts with
  | Some p => snd p
  | None => 1000   (* an identifier the table does not know never equals an octet *)
  end.
Definition in_names (v : N) (names : list (list N)) : bool := existsb (fun n => dns_const n =? v) names.

(* crypto.Hash identities (crypto.SHA1 = 3, SHA256 = 5, SHA384 = 6, SHA512 = 7) are the hash ids of the
   oracle; their digest sizes *)
Definition HSHA1 : N := 3.
Definition HSHA256 : N := 5.
Definition HSHA384 : N := 6.
Definition HSHA512 : N := 7.
Definition hash_size (h : N) : N :=
  if h =? HSHA1 then 20 else if h =? HSHA256 then 32 else if h =? HSHA384 then 48 else if h =? HSHA512 then 64 else 0.

(* ------------------------------------- encoding/base64 StdEncoding.Decode *)
(* Decode processes quanta of four alphabet characters, skipping CR and LF
   wherever they occur; padding closes the stream; the result is the octets
   written before the first error and whether an error occurred. *)
Definition b64_val (c : N) : option N :=
  if (65 <=? c) && (c <=? 90) then Some (c - 65)
  else if (97 <=? c) && (c <=? 122) then Some (c - 71)
  else if (48 <=? c) && (c <=? 57) then Some (c + 4)
  else if c =? 43 then Some 62
  else if c =? 47 then Some 63
  else None.
Definition is_nl (c : N) : bool := (c =? 10) || (c =? 13).
Definition strip_nl (s : list N) : list N := filter (fun c => negb (is_nl c)) s.
Definition b64_b0 (v0 v1 : N) : N := v0 * 4 + v1 / 16.
Definition b64_b1 (v1 v2 : N) : N := (v1 mod 16) * 16 + v2 / 4.
Definition b64_b2 (v2 v3 : N) : N := (v2 mod 4) * 64 + v3.

(* on material (no CR/LF): (octets, no error) *)
Fixpoint b64_dec (m : list N) : list N * bool :=
  match m with
  | [] => ([], true)
  | c0 :: m1 =>
    match b64_val c0 with None => ([], false) | Some v0 =>
    match m1 with [] => ([], false) | c1 :: m2 =>
    match b64_val c1 with None => ([], false) | Some v1 =>
    match m2 with [] => ([], false) | c2 :: m3 =>
    match b64_val c2 with
    | None =>
        if c2 =? 61 then
          match m3 with
          | [] => ([], false)                                     (* not enough padding *)
          | c3 :: m4 => if c3 =? 61 then ([b64_b0 v0 v1], is_nil m4) else ([], false)
          end
        else ([], false)
    | Some v2 =>
      match m3 with [] => ([], false) | c3 :: m4 =>
      match b64_val c3 with
      | None => if c3 =? 61 then ([b64_b0 v0 v1; b64_b1 v1 v2], is_nil m4) else ([], false)
      | Some v3 =>
          let r := b64_dec m4 in
          (b64_b0 v0 v1 :: b64_b1 v1 v2 :: b64_b2 v2 v3 :: fst r, snd r)
      end end
    end end end end end
  end.
(* fromBase64 / base64.StdEncoding.DecodeString / Decode *)
Definition b64_decode (s : list N) : list N * bool := b64_dec (strip_nl s).

(* base64.StdEncoding.EncodedLen *)
Definition b64_encoded_len (n : N) : N := (n + 2) / 3 * 4.

(* ------------------------------------------------------------- ds_digest.go *)
Definition key_material_limit : N := b64_encoded_len max_ds_key_material.

Fixpoint oversized_walk (s : list N) (material : N) : bool :=
  match s with
  | [] => false
  | c :: r =>
      if is_nl c then oversized_walk r material
      else if key_material_limit <? material + 1 then true
      else oversized_walk r (material + 1)
  end.
(* oversizedKeyMaterial *)
Definition oversized (pk : list N) : bool :=
  if len pk <=? key_material_limit then false
  else
    let head := firstn (N.to_nat (key_material_limit + 1)) pk in
    if forallb (fun c => negb (c =? 10)) head && forallb (fun c => negb (c =? 13)) head then true
    else oversized_walk pk 0.

(* dsDigestHash: digest type -> hash id *)
Definition ds_digest_hash (dt : N) : option N :=
  match find (fun p => (fst p =? Z.of_N dt)%Z) ds_digest_hash_cases with
  | Some p => Some (Z.to_N (snd p))
  | None => None
  end.
(* IsSupportedDSDigest / IsSupportedDNSKEYAlgorithm: the translated functions *)
Definition is_supported_ds_digest (t : N) : bool := go_IsSupportedDSDigest t.
Definition is_supported_dnskey_alg (a : N) : bool := go_IsSupportedDNSKEYAlgorithm a.

(* ---------------------------------------------------------------- names *)
(* presentation-format helpers of miekg/dns, on octet strings *)
Definition DOT : N := 46.
Definition BSL : N := 92.
Definition STAR : N := 42.

(* each octet with "an odd number of backslashes immediately precedes it" *)
Fixpoint esc_scan (s : list N) (esc : bool) : list (N * bool) :=
  match s with
  | [] => []
  | c :: r => (c, esc) :: esc_scan r (if c =? BSL then negb esc else false)
  end.
Definition is_sep (p : N * bool) : bool := (fst p =? DOT) && negb (snd p).

(* dns.IsFqdn *)
Definition is_fqdn (s : list N) : bool :=
  match rev (esc_scan s false) with
  | [] => false
  | p :: _ => is_sep p
  end.
Definition fqdn (s : list N) : list N := if is_fqdn s then s else s ++ [DOT].
(* dns.CanonicalName *)
Definition canonical_name (s : list N) : list N := map lower (fqdn s).
(* strings.ToLower on ASCII *)
Definition to_lower (s : list N) : list N := map lower s.
(* strings.EqualFold / dns.equal on ASCII strings *)
Definition equal_fold (a b : list N) : bool := list_eqb (map lower a) (map lower b).

(* dns.CountLabel *)
Definition count_label (s : list N) : N :=
  match s with
  | [46] => 0
  | _ => 1 + len (filter is_sep (removelast (esc_scan s false)))
  end.

(* indices (ascending) of separator dots among positions 0 .. upto-1 *)
Fixpoint sep_positions (l : list (N * bool)) (i : N) : list N :=
  match l with
  | [] => []
  | p :: r => if is_sep p then i :: sep_positions r (i + 1) else sep_positions r (i + 1)
  end.
(* dns.PrevLabel: offset of the label n labels from the right *)
Definition prev_label (s : list N) (n : N) : N :=
  match s with
  | [] => 0
  | _ =>
    if n =? 0 then len s else
    let sc := esc_scan s false in
    (* a final '.' (escaped or not) is stepped over first *)
    let body := match rev sc with
                | (c, _) :: _ => if c =? DOT then removelast sc else sc
                | [] => sc
                end in
    let dots := rev (sep_positions body 0) in          (* right to left *)
    match nth_error dots (N.to_nat (n - 1)) with
    | Some l => l + 1
    | None => 0
    end
  end.

(* internal/dnsutil.NameInZone *)
Definition escaped_dot (name : list N) (i : N) : bool :=
  match nth_error (esc_scan name false) (N.to_nat i) with
  | Some p => snd p
  | None => false
  end.
Definition name_in_zone (name zone : list N) : bool :=
  if list_eqb zone [DOT] || is_nil zone then true
  else if list_eqb name zone then true
  else if len name <=? len zone then false
  else
    let cut := len name - len zone in
    if negb (nth (N.to_nat (cut - 1)) name 0 =? DOT) || negb (list_eqb (skipn (N.to_nat cut) name) zone) then false
    else negb (escaped_dot name (cut - 1)).

(* dns.PackDomainName(s, buf, 0, nil, false): presentation -> wire.
   None = error.  [buf] is the length of the destination buffer. *)
Definition is_digit (c : N) : bool := (48 <=? c) && (c <=? 57).
Fixpoint pack_labels (fuel : nat) (s : list N) (cur : list N) (wasdot first : bool) (multi : bool)
  : option (list (list N)) :=
  match fuel with
  | O => None
  | S fuel' =>
    match s with
    | [] => Some []                       (* a fully-qualified name ends on a separator *)
    | c :: r =>
      if c =? BSL then
        match r with
        | d1 :: d2 :: d3 :: r' =>
            if is_digit d1 && is_digit d2 && is_digit d3
            then pack_labels fuel' r' (cur ++ [((d1 - 48) * 100 + (d2 - 48) * 10 + (d3 - 48)) mod 256]) false false multi
            else pack_labels fuel' (d2 :: d3 :: r') (cur ++ [d1]) false false multi
        | d1 :: r' => pack_labels fuel' r' (cur ++ [d1]) false false multi
        | [] => Some []
        end
      else if c =? DOT then
        if first && multi then None                      (* leading dot *)
        else if wasdot then None                         (* two dots back to back *)
        else if 64 <=? len cur then None                 (* label too long *)
        else match pack_labels fuel' r [] true false multi with
             | Some ls => Some (cur :: ls)
             | None => None
             end
      else pack_labels fuel' r (cur ++ [c]) false false multi
    end
  end.
Definition wire_of_labels (ls : list (list N)) : list N :=
  match ls with
  | [[]] => [0]                                          (* the root name *)
  | _ => flat_map (fun l => len l :: l) ls ++ [0]
  end.
Definition pack_name (s : list N) (buf : N) : option (list N) :=
  match s with
  | [] => Some []
  | _ =>
    if negb (is_fqdn s) then None else
    match pack_labels (S (length s)) s [] false true (1 <? len s) with
    | None => None
    | Some ls => let w := wire_of_labels ls in if len w <=? buf then Some w else None
    end
  end.

(* -------------------------------------------------------------- keytag.go *)
Record dnskey := mk_key {
  k_name : list N; k_class : N; k_flags : N; k_proto : N; k_alg : N; k_pub : list N (* base64 text *) }.

(* the per-chunk accumulation loop: even offsets shift *)
Fixpoint kt_acc (sum : N) (even : bool) (bs : list N) : N :=
  match bs with
  | [] => sum
  | b :: r => kt_acc (wrap32 (sum + (if even then wrap32 (b * 256) else b))) (negb even) r
  end.
Definition kt_fold (sum : N) : N :=
  let sum := wrap32 (sum + N.land (N.shiftr sum 16) 65535) in
  wrap16 (N.land sum 65535).

Fixpoint chunks_fuel (fuel : nat) (n : nat) (s : list N) : list (list N) :=
  match fuel with
  | O => []
  | S f => match s with [] => [] | _ => firstn n s :: chunks_fuel f n (skipn n s) end
  end.
Definition chunks (n : nat) (s : list N) : list (list N) := chunks_fuel (length s) n s.

Definition kt_out_len : N := key_tag_chunk / 4 * 3.

(* the decode loop of KeyTag; [lib] is what key.KeyTag() returns *)
Fixpoint kt_loop (sum : N) (cs : list (list N)) (lib : N) : N :=
  match cs with
  | [] => kt_fold sum
  | c :: rest =>
      let d := b64_decode c in
      if negb (snd d) then lib
      else if negb (is_nil rest) && negb (len (fst d) =? kt_out_len) then lib
      else kt_loop (kt_acc sum true (fst d)) rest lib
  end.

(* fillKeyTagChunk: up to [n] octets of material, and what was consumed *)
Fixpoint fill_chunk (fuel : nat) (s : list N) (acc : list N) (n : nat) : list N * list N :=
  match fuel with
  | O => (acc, s)
  | S f =>
    match s with
    | [] => (acc, [])
    | c :: r =>
        if (n <=? length acc)%nat then (acc, s)
        else if is_nl c then fill_chunk f r acc n
        else fill_chunk f r (acc ++ [c]) n
    end
  end.
Definition tail3_push (t : list N * N) (b : N) : list N * N :=
  (match fst t with [_; t1; t2] => [t1; t2; b] | l => l end, if snd t <? 3 then snd t + 1 else snd t).
(* rsamd5KeyTag *)
Fixpoint rsamd5_loop (fuel : nat) (enc : list N) (t : list N * N) : list N * N :=
  match fuel with
  | O => t
  | S f =>
    match enc with
    | [] => t
    | _ =>
      let fc := fill_chunk (length enc) enc [] (N.to_nat key_tag_chunk) in
      let rest := snd fc in
      let d := b64_decode (fst fc) in
      let t' := fold_left tail3_push (fst d) t in
      if negb (snd d) then t'
      else if negb (is_nil rest) && (len (fst d) <? kt_out_len) then t'
      else rsamd5_loop f rest t'
    end
  end.
Definition rsamd5_keytag (pk : list N) : N :=
  let t := rsamd5_loop (S (length pk)) pk ([0; 0; 0], 0) in
  if snd t <? 3 then 0
  else match fst t with [t0; t1; _] => N.lor (wrap16 (t0 * 256)) t1 | _ => 0 end.

(* -- the reference: dns.DNSKEY.KeyTag of miekg/dns, RFC 4034 Appendix B *)
Fixpoint rfc_acc (ac : N) (even : bool) (bs : list N) : N :=
  match bs with
  | [] => ac
  | b :: r => rfc_acc (ac + (if even then b * 256 else b)) (negb even) r
  end.
(* RFC 4034 App. B on the RDATA octets, unbounded accumulator *)
Definition keytag_rfc (rdata : list N) : N :=
  let ac := rfc_acc 0 true rdata in
  (ac + (ac / 65536) mod 65536) mod 65536.
Definition dnskey_rdata (flags proto alg : N) (pub : list N) : list N := be16 flags ++ [proto; alg] ++ pub.
Definition lib_msg_size : N := 4096.
(* None = the library panics (RSAMD5 material of exactly two octets) *)
Definition keytag_lib (flags proto alg : N) (pk : list N) : option N :=
  if alg =? 1 then
    let m := fst (b64_decode pk) in
    if 1 <? len m then
      match rev m with
      | _ :: b1 :: b0 :: _ => Some (b0 * 256 + b1)
      | _ => None
      end
    else Some 0
  else
    let d := b64_decode pk in
    if negb (snd d) then Some 0
    else if lib_msg_size <? 4 + len (fst d) then Some 0
    else Some (keytag_rfc (dnskey_rdata flags proto alg (fst d))).

(* dnssec.KeyTag *)
Definition keytag (flags proto alg : N) (pk : list N) : N :=
  if alg =? keytag_rsamd5_alg_value then rsamd5_keytag pk
  else if oversized pk then 0
  else
    let sum := wrap32 (wrap32 (wrap32 (wrap32 (N.shiftr flags 8 * 256) + N.land flags 255) + wrap32 (proto * 256)) + alg) in
    let lib := match keytag_lib flags proto alg pk with Some t => t | None => 0 end in
    kt_loop sum (chunks (N.to_nat key_tag_chunk) pk) lib.
Definition key_tag (k : dnskey) : N := keytag (k_flags k) (k_proto k) (k_alg k) (k_pub k).

(* ------------------------------------------------------------------ rsa.go *)
(* parseRSAPublicKey on the decoded key material *)
Definition parse_rsa_bytes (kb : list N) : option (N * N) :=
  match kb with
  | [] => None
  | b0 :: _ =>
    let '(explen, off, short) :=
      if b0 =? 0 then
        match kb with
        | _ :: b1 :: b2 :: _ => (b1 * 256 + b2, 3, false)
        | _ => (0, 3, true)
        end
      else (b0, 1, false) in
    if short then None else
    let modoff := off + explen in
    if (explen =? 0) || (len kb <=? modoff) then None
    else if (nth (N.to_nat off) kb 0 =? 0) || (nth (N.to_nat modoff) kb 0 =? 0) then None
    else
      let e := os2ip (firstn (N.to_nat explen) (skipn (N.to_nat off) kb)) in
      let n := os2ip (skipn (N.to_nat modoff) kb) in
      if (n =? 0) || (e =? 0) then None else Some (n, e)
  end.
Definition parse_rsa (pk : list N) : option (N * N) :=
  let d := b64_decode pk in
  if negb (snd d) then None else parse_rsa_bytes (fst d).

(* RFC 3110 encoding of (e, n) *)
Definition encode_rsa (e n : N) : list N :=
  let eb := min_bytes e in
  (if len eb <? 256 then [len eb] else 0 :: be16 (len eb)) ++ eb ++ min_bytes n.

(* usableRSAKey *)
Definition usable_rsa (n e : N) : bool :=
  let b := bits n in
  if (b <? min_rsa_modulus_bits) || (max_rsa_modulus_bits <? b) then false
  else if negb (N.odd e) || (e <? rsa_min_exponent) || (n <=? e) || (max_rsa_exponent_bits <? bits e) then false
  else true.

(* big.Int.Exp(c, e, n): left-to-right square and multiply on the bits of e *)
Fixpoint powmod_pos (c : N) (e : positive) (n : N) : N :=
  match e with
  | xH => c mod n
  | xO e' => let r := powmod_pos c e' n in (r * r) mod n
  | xI e' => let r := powmod_pos c e' n in ((r * r) mod n * c) mod n
  end.
Definition powmod (c e n : N) : N :=
  match e with
  | N0 => 1 mod n
  | Npos p => powmod_pos c p n
  end.

Definition hex_digit (c : N) : N :=
  if is_digit c then c - 48 else if (97 <=? c) && (c <=? 102) then c - 87 else if (65 <=? c) && (c <=? 70) then c - 55 else 0.
Definition hex_byte (s : list N) : N := match s with [a; b] => hex_digit a * 16 + hex_digit b | _ => 0 end.

(* rsaHash: algorithm -> (hash id, DigestInfo prefix) *)
Definition rsa_hash (alg : N) : option (N * list N) :=
  if in_names alg rsa_hash_sha1_algs then Some (HSHA1, map hex_byte rsa_prefix_sha1_hex)
  else if in_names alg rsa_hash_sha256_algs then Some (HSHA256, map hex_byte rsa_prefix_sha256_hex)
  else if in_names alg rsa_hash_sha512_algs then Some (HSHA512, map hex_byte rsa_prefix_sha512_hex)
  else None.
(* rsaCryptoHash *)
Definition rsa_crypto_hash (alg : N) : option N :=
  match find (fun p => (fst p =? Z.of_N alg)%Z) rsa_crypto_hash_cases with
  | Some p => Some (Z.to_N (snd p))
  | None => None
  end.
(* crypto/rsa's own DigestInfo prefixes (RFC 8017 9.2 note 1) *)
Definition stdlib_prefix (h : N) : list N :=
  if h =? HSHA1 then [48;33;48;9;6;5;43;14;3;2;26;5;0;4;20]
  else if h =? HSHA256 then [48;49;48;13;6;9;96;134;72;1;101;3;4;2;1;5;0;4;32]
  else if h =? HSHA512 then [48;81;48;13;6;9;96;134;72;1;101;3;4;2;3;5;0;4;64]
  else [].

(* the expected EMSA-PKCS1-v1_5 encoding as rsaVerifyPKCS1v15 builds it *)
Definition emsa (size : N) (prefix hashed : list N) : list N :=
  let tlen := len prefix + len hashed in
  0 :: 1 :: repeat 255 (N.to_nat (size - tlen - 3)) ++ [0] ++ prefix ++ hashed.

(* rsaVerifyPKCS1v15.  [PM] is big.Int.Exp; the model is the instance PM := powmod,
   the correspondence evaluates the instance PM := powmod_fast (Fast.v), proved equal. *)
Definition rsa_verify_with (PM : N -> N -> N -> N) (n e : N) (prefix hashed sig : list N) : bool :=
  let size := (bits n + 7) / 8 in
  if negb (len sig =? size) then false else
  let c := os2ip sig in
  if n <=? c then false else
  let m := PM c e n in
  let em := min_bytes m in
  if size <? len em then false else
  let tlen := len prefix + len hashed in
  if size <? tlen + pkcs1_min_overhead then false else
  list_eqb (i2osp size m) (emsa size prefix hashed).

Definition rsa_verify := rsa_verify_with powmod.

(* crypto/rsa.VerifyPKCS1v15 as of go1.26 for a key that passed usableRSAKey:
   additionally refuses an even modulus *)
Definition stdlib_rsa_verify_with (PM : N -> N -> N -> N) (n e : N) (h : N) (hashed sig : list N) : bool :=
  if N.odd n && (len hashed =? hash_size h) then rsa_verify_with PM n e (stdlib_prefix h) hashed sig else false.
Definition stdlib_rsa_verify := stdlib_rsa_verify_with powmod.

(* ------------------------------------------------ records and signed data *)
Inductive rfield := FBytes (b : list N) | FName (n : list N).
Record rr := mk_rr {
  r_name : list N; r_type : N; r_class : N; r_ttl : N;
  r_kind : list N;            (* Go type name in miekg/dns: "NS", "MX", ... *)
  r_rdata : list rfield }.
Record rrsig := mk_sig {
  s_name : list N; s_class : N; s_covered : N; s_alg : N; s_labels : N; s_origttl : N;
  s_exp : N; s_inc : N; s_keytag : N; s_signer : list N; s_signature : list N (* base64 text *) }.

Definition big_buf : N := 65535.
Fixpoint pack_fields (lowercase : bool) (fs : list rfield) : option (list N) :=
  match fs with
  | [] => Some []
  | FBytes b :: r => match pack_fields lowercase r with Some w => Some (b ++ w) | None => None end
  | FName n :: r =>
      match pack_name (if lowercase then canonical_name n else n) big_buf, pack_fields lowercase r with
      | Some a, Some w => Some (a ++ w)
      | _, _ => None
      end
  end.

(* one record of canonicalRRset's first loop *)
Definition canonical_wire (r : rr) (labels origttl : N) : option (list N) :=
  let name := r_name r in
  let name := if labels <? count_label name
              then [STAR; DOT] ++ fqdn (skipn (N.to_nat (prev_label name labels)) name)
              else name in
  let name := canonical_name name in
  match pack_name name big_buf, pack_fields (mem_str (r_kind r) canonical_rdata_types) (r_rdata r) with
  | Some o, Some rd =>
      if 65535 <? len rd then None else
      Some (o ++ be16 (r_type r) ++ be16 (r_class r) ++ be32 origttl ++ be16 (len rd) ++ rd)
  | _, _ => None
  end.

(* wireRdataOffset *)
Fixpoint wire_rdata_offset_walk (fuel : nat) (w : list N) (off : N) : option N :=
  match fuel with
  | O => None
  | S f =>
    match w with
    | [] => None
    | l :: r =>
        if l =? 0 then Some (off + 1)
        else if (max_label_octets <? l) || (len r <? l) then None
        else wire_rdata_offset_walk f (skipn (N.to_nat l) r) (off + 1 + l)
    end
  end.
Definition wire_rdata_offset (w : list N) : option N :=
  match wire_rdata_offset_walk (S (length w)) w 0 with
  | Some off => if len w <? off + rr_fixed_header then None else Some (off + rr_fixed_header)
  | None => None
  end.

(* sort.Slice by bytes.Compare of the tails: insertion sort (the library sort
   is not stable; see Proofs_canon: equal keys are equal records inside an RRset) *)
Definition wire_lt (off : N) (a b : list N) : bool := bytes_lt (skipn (N.to_nat off) a) (skipn (N.to_nat off) b).
Fixpoint insert_wire (off : N) (x : list N) (l : list (list N)) : list (list N) :=
  match l with
  | [] => [x]
  | y :: ys => if wire_lt off x y then x :: l else y :: insert_wire off x ys
  end.
Definition sort_wires (off : N) (l : list (list N)) : list (list N) := fold_right (insert_wire off) [] l.
Fixpoint dedup_adjacent (prev : option (list N)) (l : list (list N)) : list (list N) :=
  match l with
  | [] => []
  | x :: r =>
      match prev with
      | Some p => if list_eqb x p then dedup_adjacent (Some x) r else x :: dedup_adjacent (Some x) r
      | None => x :: dedup_adjacent (Some x) r
      end
  end.
Fixpoint all_some {A} (l : list (option A)) : option (list A) :=
  match l with
  | [] => Some []
  | Some x :: r => match all_some r with Some xs => Some (x :: xs) | None => None end
  | None :: _ => None
  end.

(* error values of the package, as small numbers *)
Definition E_OK : N := 0.
Definition E_MISSING_SIGNED : N := 1.
Definition E_MISSING_DNSKEY : N := 2.
Definition E_SIG : N := 3.
Definition E_OTHER : N := 4.      (* a packing error of the library *)

(* canonicalRRset: inl error | inr bytes *)
Definition canonical_rrset (rrset : list rr) (labels origttl : N) : N + list N :=
  match all_some (map (fun r => canonical_wire r labels origttl) rrset) with
  | None => inl E_OTHER
  | Some wires =>
    match wires with
    | [] => inl E_OTHER        (* the code would index wires[0]; never reached: callers check IsRRset *)
    | w0 :: _ =>
      match wire_rdata_offset w0 with
      | None => inl E_MISSING_SIGNED
      | Some off =>
          if existsb (fun w => len w <? off) wires then inl E_MISSING_SIGNED
          else inr (concat (dedup_adjacent None (sort_wires off wires)))
      end
    end
  end.

(* rrsigSignedData *)
Definition sig_rdata_prefix (s : rrsig) : list N :=
  be16 (s_covered s) ++ [s_alg s; s_labels s] ++ be32 (s_origttl s) ++ be32 (s_exp s) ++ be32 (s_inc s) ++ be16 (s_keytag s).
Definition signed_data (s : rrsig) (rrset : list rr) : N + list N :=
  match pack_name (canonical_name (s_signer s)) signer_name_buffer with
  | None => inl E_OTHER
  | Some nm =>
    match canonical_rrset rrset (s_labels s) (s_origttl s) with
    | inl e => inl e
    | inr w => inr (sig_rdata_prefix s ++ nm ++ w)
    end
  end.

(* ------------------------------------------------------------ signature.go *)
(* dns.IsRRset *)
Definition is_rrset (rrset : list rr) : bool :=
  match rrset with
  | [] => false
  | r0 :: rest => forallb (fun r => (r_type r =? r_type r0) && (r_class r =? r_class r0) && list_eqb (r_name r) (r_name r0)) rest
  end.
Definition ZONE_FLAG : N := 256.

(* signatureBinding *)
Definition signature_binding (k : dnskey) (s : rrsig) (rrset : list rr) : N :=
  if negb (is_rrset rrset) then E_MISSING_SIGNED
  else if negb (k_proto k =? binding_protocol) || (N.land (k_flags k) ZONE_FLAG =? 0) then E_MISSING_DNSKEY
  else if negb (s_keytag s =? key_tag k) || negb (s_alg s =? k_alg k) || negb (s_class s =? k_class k) then E_MISSING_DNSKEY
  else if negb (equal_fold (s_signer s) (k_name k)) then E_MISSING_DNSKEY
  else
    let signer := canonical_name (s_signer s) in
    match rrset with
    | [] => E_MISSING_SIGNED
    | h0 :: _ =>
      if negb (r_class h0 =? s_class s) || negb (r_type h0 =? s_covered s)
         || (count_label (r_name h0) <? s_labels s)
         || negb (equal_fold (r_name h0) (s_name s))
         || negb (name_in_zone (canonical_name (r_name h0)) signer)
      then E_MISSING_SIGNED else E_OK
    end.

(* the library's preflight in dns.RRSIG.Verify (reference); None = panic *)
Definition lib_preflight (k : dnskey) (s : rrsig) (rrset : list rr) : option bool :=
  if negb (is_rrset rrset) then Some false else
  match keytag_lib (k_flags k) (k_proto k) (k_alg k) (k_pub k) with
  | None => None
  | Some kt =>
    if negb (s_keytag s =? kt) then Some false
    else if negb (s_class s =? k_class k) then Some false
    else if negb (s_alg s =? k_alg k) then Some false
    else
      let signer := canonical_name (s_signer s) in
      if negb (equal_fold signer (k_name k)) then Some false
      else if negb (k_proto k =? 3) then Some false
      else if N.land (k_flags k) ZONE_FLAG =? 0 then Some false
      else match rrset with
           | [] => Some false
           | h0 :: _ =>
             Some (negb (negb (r_class h0 =? s_class s) || negb (r_type h0 =? s_covered s)
                         || (count_label (r_name h0) mod 256 <? s_labels s)
                         || negb (equal_fold (r_name h0) (s_name s))
                         || negb (has_suffix (canonical_name (r_name h0)) signer)))
           end
  end.

Definition verify_signature_supported (alg : N) : bool := go_verifySignatureSupported alg.

Section Crypto.
  (* big.Int.Exp *)
  Variable PM : N -> N -> N -> N.
  (* oracles *)
  Variable H : N -> list N -> list N.                         (* hash id, message -> digest *)
  Variable ECP : N -> list N -> bool.                         (* curve bits, X||Y -> is a point of the curve *)
  Variable ECV : N -> list N -> list N -> list N -> bool.     (* curve bits, X||Y, digest, r||s -> ecdsa.Verify *)
  Variable EDV : list N -> list N -> list N -> bool.          (* key, message, signature -> ed25519.Verify *)
  Variable LIBV : dnskey -> rrsig -> list rr -> N.            (* dns.RRSIG.Verify for algorithms sdns does not implement *)

  (* verifyRSASignature *)
  Definition verify_rsa_signature_pm (k : dnskey) (alg : N) (signed signature : list N) : N :=
    match parse_rsa (k_pub k) with
    | None => E_MISSING_DNSKEY
    | Some (n, e) =>
      if negb (usable_rsa n e) then E_MISSING_DNSKEY else
      match rsa_hash alg with
      | None => E_MISSING_DNSKEY
      | Some (hid, prefix) =>
        let hashed := H hid signed in
        if bits e <=? stdlib_exponent_bits then
          match rsa_crypto_hash alg with
          | None => E_MISSING_DNSKEY
          | Some ch => if stdlib_rsa_verify_with PM n e ch hashed signature then E_OK else E_SIG
          end
        else if rsa_verify_with PM n e prefix hashed signature then E_OK else E_SIG
      end
    end.

  (* ecdsaParameters: (curve bit size, hash id) *)
  Definition ecdsa_parameters (alg : N) : option (N * N) :=
    if in_names alg ecdsa_p256_algs then Some (256, HSHA256)
    else if in_names alg ecdsa_p384_algs then Some (384, HSHA384)
    else None.

  (* verifyECDSASignature *)
  Definition verify_ecdsa_signature (k : dnskey) (alg : N) (signed signature : list N) : N :=
    match ecdsa_parameters alg with
    | None => E_MISSING_DNSKEY
    | Some (cbits, hid) =>
      let d := b64_decode (k_pub k) in
      if negb (snd d) then E_MISSING_DNSKEY else
      let size := (cbits + 7) / 8 in
      if negb (len (fst d) =? 2 * size) then E_MISSING_DNSKEY
      else if negb (len signature =? 2 * size) then E_SIG
      else if negb (ECP cbits (fst d)) then E_MISSING_DNSKEY
      else if ECV cbits (fst d) (H hid signed) signature then E_OK else E_SIG
    end.

  (* verifyEd25519Signature *)
  Definition verify_ed25519_signature (k : dnskey) (signed signature : list N) : N :=
    let d := b64_decode (k_pub k) in
    if negb (snd d) || negb (len (fst d) =? 32) then E_MISSING_DNSKEY
    else if negb (len signature =? 64) then E_SIG
    else if EDV (fst d) signed signature then E_OK else E_SIG.

  (* verifySignature *)
  Definition verify_signature_pm (k : dnskey) (s : rrsig) (rrset : list rr) : N :=
    let b := signature_binding k s rrset in
    if negb (b =? E_OK) then b else
    match signed_data s rrset with
    | inl e => e
    | inr signed =>
      let sg := b64_decode (s_signature s) in
      if negb (snd sg) then E_SIG
      else if in_names (s_alg s) dispatch_rsa_alg_names then verify_rsa_signature_pm k (s_alg s) signed (fst sg)
      else if in_names (s_alg s) dispatch_ecdsa_alg_names then verify_ecdsa_signature k (s_alg s) signed (fst sg)
      else if in_names (s_alg s) dispatch_ed25519_alg_names then verify_ed25519_signature k signed (fst sg)
      else E_MISSING_DNSKEY
    end.

  (* cryptoVerify *)
  Definition crypto_verify_pm (k : dnskey) (s : rrsig) (rrset : list rr) : N :=
    if verify_signature_supported (k_alg k) then verify_signature_pm k s rrset else LIBV k s rrset.

  (* ------------------------------------------------------------- ds side *)
  (* dsDigestMatches *)
  Definition ds_digest_matches (k : dnskey) (dt : N) (want : list N) : bool :=
    if is_nil want then false else
    match ds_digest_hash dt with
    | None => false
    | Some hid =>
      if negb (hash_size hid =? len want) then false
      else if oversized (k_pub k) then false
      else
        let d := b64_decode (k_pub k) in
        if negb (snd d) || is_nil (fst d) || (max_ds_key_material <? len (fst d)) then false else
        let name := canonical_name (k_name k) in
        match pack_name name (N.min (len name + 1) ds_owner_buffer) with
        | None => false
        | Some [] => false
        | Some owner =>
            list_eqb (H hid (owner ++ be16 (k_flags k) ++ [k_proto k; k_alg k] ++ fst d)) want
        end
    end.

  Record ds := mk_ds { d_name : list N; d_class : N; d_keytag : N; d_alg : N; d_dt : N; d_digest : list N (* hex text *) }.

  (* usableDSCandidate *)
  Definition usable_ds_candidate (d : ds) (k : dnskey) : bool :=
    if oversized (k_pub k) then false else
    (key_tag k =? d_keytag d) && (k_alg k =? d_alg d) && (k_class k =? d_class d)
    && equal_fold (k_name k) (d_name d) && (k_proto k =? ds_candidate_protocol)
    && negb (N.land (k_flags k) ZONE_FLAG =? 0).

  (* encoding/hex.DecodeString: None on odd length or a non-hex octet *)
  Definition is_hex (c : N) : bool := is_digit c || ((97 <=? c) && (c <=? 102)) || ((65 <=? c) && (c <=? 70)).
  Fixpoint hex_decode (s : list N) : option (list N) :=
    match s with
    | [] => Some []
    | a :: b :: r =>
        if is_hex a && is_hex b then
          match hex_decode r with Some t => Some ((hex_digit a * 16 + hex_digit b) :: t) | None => None end
        else None
    | [_] => None
    end.

  Definition is_supported_ds (d : ds) : bool := is_supported_ds_digest (d_dt d) && is_supported_dnskey_alg (d_alg d).

  (* verifyDSWithWork(keyMap, set, nil): (unsupportedOnly, err == nil).
     De-duplication and ordering only affect which error is reported. *)
  Definition ds_matches_some_key (keymap : list (N * list dnskey)) (d : ds) : bool :=
    match find (fun p => fst p =? d_keytag d) keymap with
    | None => false
    | Some p =>
      match hex_decode (d_digest d) with
      | None => false
      | Some [] => false
      | Some want => existsb (fun k => if usable_ds_candidate d k then ds_digest_matches k (d_dt d) want else false) (snd p)
      end
    end.
  Definition verify_ds (keymap : list (N * list dnskey)) (dss : list ds) : bool * bool :=
    if existsb (fun d => is_supported_ds d && ds_matches_some_key keymap d) dss then (false, true)
    else if is_nil dss then (false, false)
    else if negb (existsb is_supported_ds dss) then (true, false)
    else (false, false).


  (* the first element of every class of [same], in order of appearance (the `seen` map of
     uniqueSorted…), and insertion sort by a strict order *)
  Fixpoint dedup_first {A} (same : A -> A -> bool) (seen l : list A) : list A :=
    match l with
    | [] => []
    | x :: r => if existsb (same x) seen then dedup_first same seen r else x :: dedup_first same (x :: seen) r
    end.
  Fixpoint insert_sorted {A} (less : A -> A -> bool) (x : A) (l : list A) : list A :=
    match l with
    | [] => [x]
    | y :: r => if less y x then y :: insert_sorted less x r else x :: l
    end.
  Definition sort_by {A} (less : A -> A -> bool) (l : list A) : list A := fold_right (insert_sorted less) [] l.

  (* ---------------------------------------- verify.go: the DS set, in order *)
  (* dsID: what uniqueSortedDSRecords keys and orders a DS by *)
  Definition to_upper (s : list N) : list N := map upper s.
  Definition ds_same (a b : ds) : bool :=
    list_eqb (to_lower (fqdn (d_name a))) (to_lower (fqdn (d_name b)))
    && (d_class a =? d_class b) && (d_keytag a =? d_keytag b) && (d_alg a =? d_alg b) && (d_dt a =? d_dt b)
    && list_eqb (to_upper (d_digest a)) (to_upper (d_digest b)).
  Definition ds_less (a b : ds) : bool :=
    let na := to_lower (fqdn (d_name a)) in
    let nb := to_lower (fqdn (d_name b)) in
    if negb (list_eqb na nb) then bytes_lt na nb
    else if negb (d_class a =? d_class b) then d_class a <? d_class b
    else if negb (d_keytag a =? d_keytag b) then d_keytag a <? d_keytag b
    else if negb (d_alg a =? d_alg b) then d_alg a <? d_alg b
    else if negb (d_dt a =? d_dt b) then d_dt a <? d_dt b
    else bytes_lt (to_upper (d_digest a)) (to_upper (d_digest b)).
  (* uniqueSortedDSRecords: the first record of every identity, ascending (identities are distinct
     after the first step, so every correct sort gives this list) *)
  Definition unique_sorted_ds (l : list ds) : list ds := sort_by ds_less (dedup_first ds_same [] l).

  (* dnskeyID / uniqueSortedDNSKEYs *)
  Definition key_same (a b : dnskey) : bool :=
    list_eqb (to_lower (fqdn (k_name a))) (to_lower (fqdn (k_name b)))
    && (k_class a =? k_class b) && (k_flags a =? k_flags b) && (k_proto a =? k_proto b) && (k_alg a =? k_alg b)
    && list_eqb (k_pub a) (k_pub b).
  Definition key_less (a b : dnskey) : bool :=
    let na := to_lower (fqdn (k_name a)) in
    let nb := to_lower (fqdn (k_name b)) in
    if negb (list_eqb na nb) then bytes_lt na nb
    else if negb (k_class a =? k_class b) then k_class a <? k_class b
    else if negb (k_flags a =? k_flags b) then k_flags a <? k_flags b
    else if negb (k_proto a =? k_proto b) then k_proto a <? k_proto b
    else if negb (k_alg a =? k_alg b) then k_alg a <? k_alg b
    else bytes_lt (k_pub a) (k_pub b).
  Definition unique_sorted_keys (l : list dnskey) : list dnskey :=
    match l with
    | [] | [_] => l
    | _ => sort_by key_less (dedup_first key_same [] l)
    end.

  (* one supported DS of the loop in verifyDSWithWork(…, nil): 0 = a candidate matched (the function
     returns), DS_MISSING_KSK / DS_MISMATCH = the value lastErr is left with *)
  Definition DS_OK : N := 0.
  Definition DS_MISSING_KSK : N := 1.
  Definition DS_MISMATCH : N := 2.
  Definition DS_UNSUPPORTED : N := 3.   (* ErrFailedToConvertKSK *)
  Definition ds_step (keymap : list (N * list dnskey)) (d : ds) : N :=
    match find (fun p => fst p =? d_keytag d) keymap with
    | None => DS_MISSING_KSK
    | Some p =>
      let cands := unique_sorted_keys (filter (usable_ds_candidate d) (snd p)) in
      if is_nil cands then DS_MISSING_KSK else
      match hex_decode (d_digest d) with
      | None => DS_MISMATCH
      | Some [] => DS_MISMATCH
      | Some want => if existsb (fun k => ds_digest_matches k (d_dt d) want) cands then DS_OK else DS_MISMATCH
      end
    end.
  (* the loop: None = returned (false, nil) from inside; Some e = fell through with lastErr = e (0: nil) *)
  Fixpoint ds_loop (keymap : list (N * list dnskey)) (l : list ds) (last : N) : option N :=
    match l with
    | [] => Some last
    | d :: r =>
      if negb (is_supported_ds d) then ds_loop keymap r last
      else let e := ds_step keymap d in if e =? DS_OK then None else ds_loop keymap r e
    end.
  (* verifyDSWithWork(keyMap, set, nil) = (unsupportedOnly, which error) *)
  Definition verify_ds_code (keymap : list (N * list dnskey)) (dss : list ds) : bool * N :=
    let l := unique_sorted_ds dss in
    match ds_loop keymap l 0 with
    | None => (false, DS_OK)
    | Some last =>
      if is_nil l then (false, DS_MISSING_KSK)
      else if negb (existsb is_supported_ds l) then (true, DS_UNSUPPORTED)
      else (false, if last =? 0 then DS_MISSING_KSK else last)
    end.

  (* DSMatchedKeys(keyMap, set, nil) as the list of its non-empty buckets, in the order of the key map *)
  Definition ds_matched_keys (keymap : list (N * list dnskey)) (dss : list ds) : list (N * list dnskey) :=
    flat_map (fun p =>
      let ks := filter (fun k => snd (verify_ds_code [(fst p, [k])] dss) =? DS_OK) (unique_sorted_keys (snd p)) in
      if is_nil ks then [] else [(fst p, ks)]) keymap.

  (* ----------------------------------------------------- verify.go, RRSIG *)
  (* usableSignatureCandidate *)
  Definition usable_signature_candidate (s : rrsig) (k : dnskey) : bool :=
    (key_tag k =? s_keytag s) && (k_alg k =? s_alg s) && (k_class k =? s_class s)
    && equal_fold (k_name k) (s_signer s) && (k_proto k =? candidate_protocol)
    && negb (N.land (k_flags k) ZONE_FLAG =? 0).

  (* signatureMatchesRRset *)
  Definition signature_matches_rrset (s : rrsig) (set : list rr) : bool :=
    match set with
    | [] => false
    | h0 :: _ =>
      is_rrset set &&
      (r_class h0 =? s_class s) && (r_type h0 =? s_covered s)
      && (s_labels s <=? count_label (r_name h0))
      && equal_fold (r_name h0) (s_name s)
      && name_in_zone (to_lower (fqdn (r_name h0))) (canonical_name (s_signer s))
    end.

  (* verifyOneSigWithWork(keys, set, sig, nil, _) == nil.  [valid_now] is
     sig.ValidityPeriod(now), the only wall-clock input. *)
  Definition verify_one_sig_pm (keys : list (N * list dnskey)) (set : list rr) (s : rrsig) (valid_now : bool) : bool :=
    match find (fun p => fst p =? s_keytag s) keys with
    | None => false
    | Some p =>
      let cands := snd p in
      if is_nil cands then false
      else if negb (existsb (fun k => equal_fold (s_signer s) (k_name k)) cands) then false
      else if negb valid_now then false
      else if negb (is_supported_dnskey_alg (s_alg s)) then false
      else if negb (signature_matches_rrset s set) then false
      else existsb (fun k => if usable_signature_candidate s k then crypto_verify_pm k s set =? E_OK else false) cands
    end.

  (* ------------------------------ verify.go, RRSIG: the same in order, with the error returned *)
  Definition E_PERIOD : N := 5.        (* ErrInvalidSignaturePeriod *)
  Definition E_ALG : N := 6.           (* dns.ErrAlg *)
  Definition E_NO_SIGS : N := 7.       (* ErrNoSignatures *)

  (* the loop over the eligible keys of verifyOneSigWithWork(…, nil, …): E_OK as soon as one key verifies,
     else the error of the last one tried *)
  Fixpoint key_loop (s : rrsig) (set : list rr) (l : list dnskey) (last : N) : N :=
    match l with
    | [] => last
    | k :: r => let e := crypto_verify_pm k s set in if e =? E_OK then E_OK else key_loop s set r e
    end.
  (* verifyOneSigWithWork(keys, set, sig, nil, _) as the error it returns: the tests in the order of the code,
     the eligible candidates de-duplicated by identity and walked in ascending order (uniqueSortedDNSKEYs) *)
  Definition verify_one_sig_code_pm (keys : list (N * list dnskey)) (set : list rr) (s : rrsig) (valid_now : bool) : N :=
    match find (fun p => fst p =? s_keytag s) keys with
    | None => E_MISSING_DNSKEY
    | Some p =>
      let cands := snd p in
      if is_nil cands then E_MISSING_DNSKEY
      else if negb (existsb (fun k => equal_fold (s_signer s) (k_name k)) cands) then E_MISSING_DNSKEY
      else if negb valid_now then E_PERIOD
      else if negb (is_supported_dnskey_alg (s_alg s)) then E_ALG
      else if negb (signature_matches_rrset s set) then E_MISSING_SIGNED
      else
        let eligible := unique_sorted_keys (filter (usable_signature_candidate s) cands) in
        if is_nil eligible then E_MISSING_DNSKEY else key_loop s set eligible E_MISSING_DNSKEY
    end.

  (* rrsigID / uniqueSortedRRSIGs: what a signature is keyed and ordered by *)
  Definition sig_same (a b : rrsig) : bool :=
    list_eqb (to_lower (fqdn (s_name a))) (to_lower (fqdn (s_name b)))
    && (s_class a =? s_class b) && (s_covered a =? s_covered b) && (s_alg a =? s_alg b) && (s_labels a =? s_labels b)
    && (s_origttl a =? s_origttl b) && (s_exp a =? s_exp b) && (s_inc a =? s_inc b) && (s_keytag a =? s_keytag b)
    && list_eqb (to_lower (fqdn (s_signer a))) (to_lower (fqdn (s_signer b)))
    && list_eqb (s_signature a) (s_signature b).
  Definition sig_less (a b : rrsig) : bool :=
    let na := to_lower (fqdn (s_name a)) in
    let nb := to_lower (fqdn (s_name b)) in
    let ga := to_lower (fqdn (s_signer a)) in
    let gb := to_lower (fqdn (s_signer b)) in
    if negb (list_eqb na nb) then bytes_lt na nb
    else if negb (s_class a =? s_class b) then s_class a <? s_class b
    else if negb (s_covered a =? s_covered b) then s_covered a <? s_covered b
    else if negb (s_alg a =? s_alg b) then s_alg a <? s_alg b
    else if negb (s_keytag a =? s_keytag b) then s_keytag a <? s_keytag b
    else if negb (list_eqb ga gb) then bytes_lt ga gb
    else if negb (s_labels a =? s_labels b) then s_labels a <? s_labels b
    else if negb (s_origttl a =? s_origttl b) then s_origttl a <? s_origttl b
    else if negb (s_inc a =? s_inc b) then s_inc a <? s_inc b
    else if negb (s_exp a =? s_exp b) then s_exp a <? s_exp b
    else bytes_lt (s_signature a) (s_signature b).
  (* a signature of a message travels with its ValidityPeriod(now) bit *)
  Definition sv_same (a b : rrsig * bool) : bool := sig_same (fst a) (fst b).
  Definition sv_less (a b : rrsig * bool) : bool := sig_less (fst a) (fst b).
  Definition unique_sorted_sigs (l : list (rrsig * bool)) : list (rrsig * bool) := sort_by sv_less (dedup_first sv_same [] l).
End Crypto.

(* ------------------------------------------- verify.go: the message walk *)
(* internal/dnsname.CompareSuffix: labels shared from the right.  A label is
   read through its separating dot, the last one to the end of the string. *)
Fixpoint segs_go (l : list (N * bool)) (cur : list N) : list (list N) :=
  match l with
  | [] => [cur]
  | p :: r =>
      match r with
      | [] => [cur ++ [fst p]]
      | _ => if is_sep p then (cur ++ [fst p]) :: segs_go r [] else segs_go r (cur ++ [fst p])
      end
  end.
Definition segs (s : list N) : list (list N) := segs_go (esc_scan s false) [].
Fixpoint run_eq (l : list (list N * list N)) : N :=
  match l with
  | [] => 0
  | p :: r => if equal_fold (fst p) (snd p) then 1 + run_eq r else 0
  end.
Definition compare_suffix_spec (a b : list N) : N :=
  if list_eqb a [DOT] || list_eqb b [DOT] then 0 else
  let sa := segs a in
  let sb := segs b in
  let sa' := skipn (length sa - length sb) sa in
  let sb' := skipn (length sb - length sa) sb in
  run_eq (rev (combine sa' sb')).

(* isSynthesizedCNAME; a DNAME is (owner, target) *)
Definition is_synthesized_cname_spec (owner target : list N) (dnames : list (list N * list N)) : bool :=
  existsb (fun d =>
    let dl := count_label (fst d) in
    if (dl =? 0) || (count_label owner <=? dl) then false else
    let n := compare_suffix_spec (fst d) owner in
    if negb (n =? dl) then false else
    equal_fold (fqdn (firstn (N.to_nat (prev_label owner n)) owner ++ snd d)) (fqdn target)) dnames.

(* The model proper of these two is the Go code itself as the translator reads it (Gen/C14.v:
   go_CompareSuffix with dns.CountLabel / dns.NextLabel from the module cache, go_isSynthesizedCNAME with
   dns.PrevLabel, dns.Fqdn and strings.EqualFold in their ASCII readings), run with a budget no loop of
   theirs can exhaust on these arguments (every loop walks one of the strings or the DNAME list).  The two
   definitions above are kept as the readable specification; CaseSuffix / CaseSynth require code, translation
   and specification to agree on every generated input. *)
Definition name_fuel (a b : list N) : nat := S (S (length a + length b)).
Definition compare_suffix (a b : list N) : N :=
  match go_CompareSuffix (name_fuel a b) a b with Some z => Z.to_N z | None => 0 end.
Definition cname_rec (owner target : list N) : T_CNAME := mk_T_CNAME (mk_T_RR_Header owner 5 1 0 0) target.
Definition dname_rec (d : list N * list N) : T_DNAME := mk_T_DNAME (mk_T_RR_Header (fst d) 39 1 0 0) (snd d).
Definition synth_fuel (owner target : list N) (dnames : list (list N * list N)) : nat :=
  S (S (length owner + length target + fold_right (fun d acc => (length (fst d) + length (snd d) + acc)%nat) O dnames)).
Definition is_synthesized_cname (owner target : list N) (dnames : list (list N * list N)) : bool :=
  match go_isSynthesizedCNAME (synth_fuel owner target dnames) (cname_rec owner target) (map dname_rec dnames) with
  | Some b => b
  | None => false
  end.

(* a message section: records and RRSIGs in order; [valid] is sig.ValidityPeriod(now) *)
Inductive mitem := MR (r : rr) | MS (s : rrsig) (valid : bool).
Definition rrs_of (l : list mitem) : list rr := flat_map (fun i => match i with MR r => [r] | MS _ _ => [] end) l.
Definition sigs_of (l : list mitem) : list (rrsig * bool) := flat_map (fun i => match i with MS s v => [(s, v)] | MR _ => [] end) l.
Definition rr_target (r : rr) : list N := match r_rdata r with FName n :: _ => n | _ => [] end.
Definition TYPE_NS : N := 2.
Definition TYPE_CNAME : N := 5.
Definition TYPE_RRSIG : N := 46.
Definition KIND_DNAME : list N := [68; 78; 65; 77; 69].
Definition KIND_CNAME : list N := [67; 78; 65; 77; 69].
Definition same_rrset_key (a b : rr) : bool :=
  list_eqb (to_lower (r_name a)) (to_lower (r_name b)) && (r_type a =? r_type b) && (r_class a =? r_class b).
Definition sig_covers (zone : list N) (s : rrsig) (r : rr) : bool :=
  name_in_zone (to_lower (s_name s)) zone
  && list_eqb (to_lower (s_name s)) (to_lower (r_name r)) && (s_covered s =? r_type r) && (s_class s =? r_class r).

Section Walk.
  Variable ONE : list rr -> rrsig -> bool -> bool.       (* verifyOneSig(keys, set, sig) == nil *)
  Variable signer : list N.
  Variables answer ns : list mitem.

  Definition walk_zone : list N := to_lower (fqdn signer).
  Definition walk_in_zone (r : rr) : bool := name_in_zone (to_lower (r_name r)) walk_zone.
  (* DNAMEs of the signer zone, from both sections *)
  Definition walk_dnames : list (list N * list N) :=
    map (fun r => (r_name r, rr_target r))
        (filter (fun r => list_eqb (r_kind r) KIND_DNAME && walk_in_zone r) (rrs_of answer ++ rrs_of ns)).
  (* records that take part: not RRSIGs, not CNAMEs a DNAME of the zone synthesises *)
  Definition walk_keep (r : rr) : bool :=
    negb (r_type r =? TYPE_RRSIG)
    && negb ((r_type r =? TYPE_CNAME) && list_eqb (r_kind r) KIND_CNAME && is_synthesized_cname (r_name r) (rr_target r) walk_dnames).
  Definition walk_answer : list rr := filter walk_keep (rrs_of answer).
  (* authority: NS sets and out-of-zone remnants are left alone *)
  Definition walk_authority : list rr :=
    filter (fun r => walk_keep r && negb (r_type r =? TYPE_NS) && walk_in_zone r) (rrs_of ns).
  Definition walk_records : list rr := walk_answer ++ walk_authority.
  Definition walk_group (r : rr) : list rr := filter (fun x => same_rrset_key x r) walk_records.
  Definition walk_sigs : list (rrsig * bool) := sigs_of answer ++ sigs_of ns.
  Definition walk_group_verified (r : rr) : bool :=
    existsb (fun sv => if sig_covers walk_zone (fst sv) r then ONE (walk_group r) (fst sv) (snd sv) else false) walk_sigs.

  (* verifyRRSIGWithWork(signer, keys, msg, nil): ok && err == nil, for a non-empty key map *)
  Definition walk_verdict : bool :=
    if existsb (fun r => negb (walk_in_zone r)) walk_answer then false
    else if is_nil walk_records then true
    else forallb walk_group_verified walk_records.
End Walk.

(* the same walk in the order of the code, with the error returned: RRsets in ascending (owner, type, class)
   order, the signatures of an RRset de-duplicated by identity and tried in ascending order
   (uniqueSortedRRSIGs), the error of the last signature tried kept *)
Section WalkCode.
  Variable ONEC : list rr -> rrsig -> bool -> N.       (* verifyOneSig(keys, set, sig): which error, 0 = nil *)
  Variable signer : list N.
  Variables answer ns : list mitem.

  Definition rrset_key_less (a b : rr) : bool :=
    let na := to_lower (r_name a) in
    let nb := to_lower (r_name b) in
    if negb (list_eqb na nb) then bytes_lt na nb
    else if negb (r_type a =? r_type b) then r_type a <? r_type b
    else r_class a <? r_class b.
  (* keysInOrder: one record for every RRset that takes part, ascending *)
  Definition walk_keys : list rr := sort_by rrset_key_less (dedup_first same_rrset_key [] (walk_records signer answer ns)).
  (* the loop over the signatures of one RRset: 0 = one verified *)
  Fixpoint sig_loop (set : list rr) (l : list (rrsig * bool)) (last : N) : N :=
    match l with
    | [] => if last =? 0 then E_MISSING_SIGNED else last
    | sv :: r => let e := ONEC set (fst sv) (snd sv) in if e =? 0 then 0 else sig_loop set r e
    end.
  Definition group_code (r : rr) : N :=
    let sigs := filter (fun sv => sig_covers (walk_zone signer) (fst sv) r) (walk_sigs answer ns) in
    if is_nil sigs then E_MISSING_SIGNED
    else if negb (is_rrset (walk_group signer answer ns r)) then E_MISSING_SIGNED
    else sig_loop (walk_group signer answer ns r) (unique_sorted_sigs sigs) 0.
  Fixpoint groups_code (l : list rr) : N :=
    match l with
    | [] => 0
    | r :: t => let e := group_code r in if e =? 0 then groups_code t else e
    end.
  (* verifyRRSIGWithWork(signer, keys, msg, nil) for a non-empty key map: which error, 0 = (true, nil) *)
  Definition walk_code : N :=
    if existsb (fun r => negb (walk_in_zone signer r)) (walk_answer signer answer ns) then E_MISSING_SIGNED
    else if is_nil (walk_records signer answer ns) then 0
    else if is_nil (walk_sigs answer ns) then E_NO_SIGS
    else groups_code walk_keys.
End WalkCode.

Section CryptoWalk.
  Variable PM : N -> N -> N -> N.
  Variable H : N -> list N -> list N.
  Variable ECP : N -> list N -> bool.
  Variable ECV : N -> list N -> list N -> list N -> bool.
  Variable EDV : list N -> list N -> list N -> bool.
  Variable LIBV : dnskey -> rrsig -> list rr -> N.
  Definition verify_rrsig_pm (signer : list N) (keys : list (N * list dnskey)) (answer ns : list mitem) : bool :=
    if is_nil keys then false
    else walk_verdict (fun set s v => verify_one_sig_pm PM H ECP ECV EDV LIBV keys set s v) signer answer ns.
  Definition verify_rrsig_code_pm (signer : list N) (keys : list (N * list dnskey)) (answer ns : list mitem) : N :=
    if is_nil keys then E_MISSING_DNSKEY
    else walk_code (fun set s v => verify_one_sig_code_pm PM H ECP ECV EDV LIBV keys set s v) signer answer ns.
End CryptoWalk.

(* the model proper: big.Int.Exp is square-and-multiply over N *)
Definition verify_rsa_signature := verify_rsa_signature_pm powmod.
Definition verify_signature := verify_signature_pm powmod.
Definition crypto_verify := crypto_verify_pm powmod.
Definition verify_one_sig := verify_one_sig_pm powmod.
Definition verify_rrsig := verify_rrsig_pm powmod.
Definition verify_one_sig_code := verify_one_sig_code_pm powmod.
Definition verify_rrsig_code := verify_rrsig_code_pm powmod.
