(* C14 — dnsname.CompareSuffix as C14's translation reads it is the function C02's translation reads
   (the same Go source, translated into two modules), so C02's theorem about it applies to this model. *)
From Sdns Require Import Common.Base Common.GoList.
From Sdns Require Gen.C02 Gen.C14 C02.Model C02.Proofs_Gen C02.Proofs_Order C14.Model.
Open Scope N_scope.

Lemma compare_suffix_same_translation : Gen.C14.go_CompareSuffix = Gen.C02.go_CompareSuffix.
Proof. reflexivity. Qed.

Theorem compare_suffix_plain_names a b :
  C02.Proofs_Gen.plain_name a -> C02.Proofs_Gen.plain_name b ->
  C14.Model.compare_suffix (C02.Proofs_Gen.present a) (C02.Proofs_Gen.present b) =
  N.of_nat (C02.Model.lcp (C02.Model.canon a) (C02.Model.canon b)).
Proof.
  intros Ha Hb. unfold C14.Model.compare_suffix. rewrite compare_suffix_same_translation.
  rewrite (C02.Proofs_Gen.gen_compare_suffix _ a b Ha Hb) by (unfold C14.Model.name_fuel; lia).
  rewrite C02.Proofs_Order.go_compare_suffix_spec. lia.
Qed.
