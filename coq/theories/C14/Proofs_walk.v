(* C14 — the message walk of VerifyRRSIG: a message is accepted exactly when no
   answer record lies outside the signer zone and every RRset that takes part
   has a covering in-zone RRSIG that verifyOneSig accepts for that whole RRset;
   and what verifyOneSig accepts has been verified by this package's verifier
   under a usable key of the signature's tag, inside its validity period. *)
From Sdns Require Import Common.Base Gen.C14 C14.Model C14.Proofs_rsa C14.Proofs_verify.
Open Scope N_scope.

Lemma sigs_of_in l s v : In (s, v) (sigs_of l) <-> In (MS s v) l.
Proof.
  unfold sigs_of. rewrite in_flat_map. split.
  - intros (i & Hi & Hx). destruct i as [r|s' v']; cbn in Hx; [destruct Hx|].
    destruct Hx as [E|[]]. injection E as -> ->. exact Hi.
  - intros Hi. exists (MS s v). split; [exact Hi | left; reflexivity].
Qed.
Lemma rrs_of_in l r : In r (rrs_of l) <-> In (MR r) l.
Proof.
  unfold rrs_of. rewrite in_flat_map. split.
  - intros (i & Hi & Hx). destruct i as [r'|s v]; cbn in Hx; [|destruct Hx].
    destruct Hx as [->|[]]. exact Hi.
  - intros Hi. exists (MR r). split; [exact Hi | left; reflexivity].
Qed.

Lemma same_rrset_key_refl r : same_rrset_key r r = true.
Proof. unfold same_rrset_key. rewrite list_eqb_refl, !N.eqb_refl. reflexivity. Qed.

Section WalkFacts.
  Variable ONE : list rr -> rrsig -> bool -> bool.
  Variable signer : list N.
  Variables answer ns : list mitem.
  Notation records := (walk_records signer answer ns).
  Notation group := (walk_group signer answer ns).
  Notation zone := (walk_zone signer).

  (* the RRset of a record: the record itself and exactly the records of the same name (case-insensitively), type and class *)
  Lemma walk_group_spec r x : In x (group r) <-> In x records /\ same_rrset_key x r = true.
  Proof. unfold walk_group. apply (filter_In (fun x0 => same_rrset_key x0 r)). Qed.
  Lemma walk_group_self r : In r records -> In r (group r).
  Proof. intros H. apply walk_group_spec. split; [exact H | apply same_rrset_key_refl]. Qed.

  (* which records take part *)
  Lemma walk_records_spec r :
    In r records <->
    (In (MR r) answer /\ walk_keep signer answer ns r = true) \/
    (In (MR r) ns /\ walk_keep signer answer ns r = true /\ r_type r <> TYPE_NS /\ walk_in_zone signer r = true).
  Proof.
    unfold walk_records, walk_answer, walk_authority. rewrite in_app_iff, !filter_In, !rrs_of_in.
    split.
    - intros [(A & K)|(A & K)]; [left; auto|right].
      apply andb_prop in K as (K & Z). apply andb_prop in K as (K & T).
      apply negb_true_iff, N.eqb_neq in T. auto.
    - intros [(A & K)|(A & K & T & Z)]; [left; auto|right]. split; [exact A|].
      rewrite K, Z. apply N.eqb_neq in T. rewrite T. reflexivity.
  Qed.

  Theorem walk_verdict_iff :
    walk_verdict ONE signer answer ns = true <->
    (forall r, In r (walk_answer signer answer ns) -> walk_in_zone signer r = true) /\
    (forall r, In r records ->
       exists s v, In (MS s v) (answer ++ ns) /\ sig_covers zone s r = true /\ ONE (group r) s v = true).
  Proof.
    unfold walk_verdict.
    destruct (existsb (fun r => negb (walk_in_zone signer r)) (walk_answer signer answer ns)) eqn:F.
    - split; [discriminate|]. intros (A & _). apply existsb_exists in F as (r & Hr & N).
      rewrite (A r Hr) in N. discriminate.
    - assert (A : forall r, In r (walk_answer signer answer ns) -> walk_in_zone signer r = true).
      { intros r Hr. destruct (walk_in_zone signer r) eqn:Z; [reflexivity|].
        exfalso. assert (X : existsb (fun r => negb (walk_in_zone signer r)) (walk_answer signer answer ns) = true).
        { apply existsb_exists. exists r. rewrite Z. auto. }
        congruence. }
      destruct (is_nil records) eqn:E.
      + destruct records; [|discriminate]. split; [intros _; split; [exact A | intros r []] | reflexivity].
      + rewrite forallb_forall. split.
        * intros G. split; [exact A|]. intros r Hr. specialize (G r Hr).
          unfold walk_group_verified in G. apply existsb_exists in G as ((s, v) & Hs & C). cbn [fst snd] in C.
          destruct (sig_covers zone s r) eqn:Cv; [|discriminate].
          exists s, v. repeat split; auto.
          unfold walk_sigs in Hs. rewrite in_app_iff, !sigs_of_in in Hs. apply in_app_iff. exact Hs.
        * intros (_ & G) r Hr. destruct (G r Hr) as (s & v & Hs & Cv & O).
          unfold walk_group_verified. apply existsb_exists. exists (s, v). cbn [fst snd]. rewrite Cv. split; [|exact O].
          unfold walk_sigs. rewrite in_app_iff, !sigs_of_in. apply in_app_iff in Hs. exact Hs.
  Qed.
End WalkFacts.

(* what verifyOneSig accepts *)
Lemma supported_alg_values a : is_supported_dnskey_alg a = true -> verify_signature_supported a = true.
Proof.
  unfold is_supported_dnskey_alg, go_IsSupportedDNSKEYAlgorithm.
  repeat match goal with |- context [N.eqb a ?c] => destruct (N.eqb_spec a c) as [->|_]; [intros _; reflexivity|] end.
  cbn. discriminate.
Qed.

Section OneSig.
  Variable H : N -> list N -> list N.
  Variable ECP : N -> list N -> bool.
  Variable ECV : N -> list N -> list N -> list N -> bool.
  Variable EDV : list N -> list N -> list N -> bool.
  Variable LIBV : dnskey -> rrsig -> list rr -> N.

  Theorem verify_one_sig_accept keys set s valid :
    verify_one_sig H ECP ECV EDV LIBV keys set s valid = true ->
    valid = true /\ is_supported_dnskey_alg (s_alg s) = true /\ signature_matches_rrset s set = true /\
    exists tag cands k, In (tag, cands) keys /\ tag = s_keytag s /\ In k cands /\
      usable_signature_candidate s k = true /\ verify_signature H ECP ECV EDV k s set = E_OK.
  Proof.
    unfold verify_one_sig, verify_one_sig_pm.
    destruct (find (fun p => fst p =? s_keytag s) keys) as [[tag cands]|] eqn:F; [|discriminate].
    cbn [snd].
    destruct (is_nil cands); [discriminate|].
    destruct (negb (existsb (fun k => equal_fold (s_signer s) (k_name k)) cands)); [discriminate|].
    destruct valid; cbn [negb]; [|discriminate].
    destruct (is_supported_dnskey_alg (s_alg s)) eqn:Sup; cbn [negb]; [|discriminate].
    destruct (signature_matches_rrset s set) eqn:M; cbn [negb]; [|discriminate].
    intros E. apply existsb_exists in E as (k & Hk & C).
    destruct (usable_signature_candidate s k) eqn:U; [|discriminate].
    repeat split; auto. exists tag, cands, k.
    apply find_some in F as (Fi & Ft). cbn [fst] in Ft. apply N.eqb_eq in Ft.
    repeat split; auto.
    apply N.eqb_eq in C. fold (crypto_verify H ECP ECV EDV LIBV k s set) in C.
    unfold crypto_verify, crypto_verify_pm in C.
    assert (Ka : k_alg k = s_alg s).
    { pose proof U as U'. unfold usable_signature_candidate in U'. do 4 (apply andb_prop in U' as (U' & _)).
      apply andb_prop in U' as (_ & U'). apply N.eqb_eq in U'. exact U'. }
    rewrite Ka, (supported_alg_values _ Sup) in C. exact C.
  Qed.

  (* VerifyRRSIG: an accepted message has no answer record outside the signer
     zone, and every record that takes part belongs to an RRset (all records of
     its name, type and class in the message) for which an RRSIG of the message,
     owned inside the zone, covering that name/type/class and inside its validity
     period, verifies under a key of the supplied set that carries the
     signature's tag, algorithm, class and signer name. *)
  Theorem verified_message_every_rrset_is_signed signer keys answer ns :
    verify_rrsig H ECP ECV EDV LIBV signer keys answer ns = true ->
    keys <> [] /\
    (forall r, In r (walk_answer signer answer ns) -> walk_in_zone signer r = true) /\
    (forall r, In r (walk_records signer answer ns) ->
       In r (walk_group signer answer ns r) /\
       exists s k tag cands,
         In (MS s true) (answer ++ ns) /\ sig_covers (walk_zone signer) s r = true /\
         In (tag, cands) keys /\ tag = s_keytag s /\ In k cands /\ usable_signature_candidate s k = true /\
         signature_matches_rrset s (walk_group signer answer ns r) = true /\
         verify_signature H ECP ECV EDV k s (walk_group signer answer ns r) = E_OK).
  Proof.
    unfold verify_rrsig, verify_rrsig_pm. destruct keys as [|k0 keys']; [discriminate|]. cbn [is_nil].
    intros V. apply walk_verdict_iff in V as (A & G).
    split; [discriminate|]. split; [exact A|].
    intros r Hr. split; [apply walk_group_self; exact Hr|].
    destruct (G r Hr) as (s & v & Hs & Cv & O).
    change (verify_one_sig H ECP ECV EDV LIBV (k0 :: keys') (walk_group signer answer ns r) s v = true) in O.
    apply verify_one_sig_accept in O as (-> & _ & M & tag & cands & k & Hk & Ht & Hc & U & VS).
    exists s, k, tag, cands. auto 12.
  Qed.
End OneSig.

(* isSynthesizedCNAME: exactly the RFC 6672 substitution under a proper DNAME ancestor *)
Lemma synthesized_cname_iff owner target dnames :
  is_synthesized_cname_spec owner target dnames = true <->
  exists d, In d dnames /\ 0 < count_label (fst d) /\ count_label (fst d) < count_label owner /\
    compare_suffix_spec (fst d) owner = count_label (fst d) /\
    equal_fold (fqdn (firstn (N.to_nat (prev_label owner (count_label (fst d)))) owner ++ snd d)) (fqdn target) = true.
Proof.
  unfold is_synthesized_cname_spec. rewrite existsb_exists. split.
  - intros (d & Hd & H). exists d. split; [exact Hd|].
    destruct (count_label (fst d) =? 0) eqn:E0; [discriminate|]. apply N.eqb_neq in E0.
    destruct (count_label owner <=? count_label (fst d)) eqn:E1; [discriminate|]. apply N.leb_gt in E1.
    cbn [orb] in H.
    destruct (compare_suffix_spec (fst d) owner =? count_label (fst d)) eqn:E2; [|discriminate]. apply N.eqb_eq in E2.
    cbn [negb] in H. rewrite E2 in H. repeat split; try lia; assumption.
  - intros (d & Hd & H0 & H1 & H2 & H3). exists d. split; [exact Hd|].
    assert (E0 : (count_label (fst d) =? 0) = false) by (apply N.eqb_neq; lia).
    assert (E1 : (count_label owner <=? count_label (fst d)) = false) by (apply N.leb_gt; lia).
    rewrite E0, E1. cbn [orb]. rewrite H2, N.eqb_refl. cbn [negb]. exact H3.
Qed.

(* RFC 2181 5.4.1 / issue #506: a record of the authority section owned outside the signer zone — the
   zone cut's NS or DS denial an upstream appends to a positive answer — takes no part: the verdict
   with it is the verdict without it, whatever the record is (a DNAME there authorises nothing). *)
Lemma rrs_of_app a b : rrs_of (a ++ b) = rrs_of a ++ rrs_of b.
Proof. unfold rrs_of. apply flat_map_app. Qed.
Lemma sigs_of_app a b : sigs_of (a ++ b) = sigs_of a ++ sigs_of b.
Proof. unfold sigs_of. apply flat_map_app. Qed.
Lemma filter_ext_eq {A} (f g : A -> bool) l : (forall x, f x = g x) -> filter f l = filter g l.
Proof. intros E. induction l as [|x l IH]; cbn; [reflexivity|]. rewrite E, IH. reflexivity. Qed.

Section Remnant.
  Variable ONE : list rr -> rrsig -> bool -> bool.
  Variable signer : list N.
  Variables answer ns : list mitem.
  Variable x : rr.
  Hypothesis Hd : list_eqb (r_kind x) KIND_DNAME && walk_in_zone signer x = false.
  Hypothesis Ha : negb (r_type x =? TYPE_NS) && walk_in_zone signer x = false.
  Let ns' := ns ++ [MR x].

  Lemma remnant_dnames : walk_dnames signer answer ns' = walk_dnames signer answer ns.
  Proof.
    unfold walk_dnames, ns'. rewrite rrs_of_app. cbn [rrs_of flat_map app].
    rewrite !app_assoc, filter_app. cbn [filter]. rewrite Hd, app_nil_r. reflexivity.
  Qed.
  Lemma remnant_keep r : walk_keep signer answer ns' r = walk_keep signer answer ns r.
  Proof. unfold walk_keep. rewrite remnant_dnames. reflexivity. Qed.
  Lemma remnant_records : walk_records signer answer ns' = walk_records signer answer ns.
  Proof.
    unfold walk_records, walk_answer, walk_authority.
    rewrite (filter_ext_eq _ _ _ remnant_keep). f_equal.
    rewrite (filter_ext_eq _ (fun r => walk_keep signer answer ns r && negb (r_type r =? TYPE_NS) && walk_in_zone signer r))
      by (intros r; rewrite remnant_keep; reflexivity).
    unfold ns'. rewrite rrs_of_app. cbn [rrs_of flat_map app]. rewrite filter_app. cbn [filter].
    rewrite <- Bool.andb_assoc, Ha, Bool.andb_false_r, app_nil_r. reflexivity.
  Qed.
  Lemma remnant_sigs : walk_sigs answer ns' = walk_sigs answer ns.
  Proof. unfold walk_sigs, ns'. rewrite sigs_of_app. cbn. rewrite app_nil_r. reflexivity. Qed.

  Theorem authority_record_not_taking_part :
    walk_verdict ONE signer answer ns' = walk_verdict ONE signer answer ns.
  Proof.
    unfold walk_verdict. rewrite remnant_records.
    assert (A : walk_answer signer answer ns' = walk_answer signer answer ns).
    { unfold walk_answer. apply filter_ext_eq, remnant_keep. }
    rewrite A.
    destruct (existsb _ (walk_answer signer answer ns)); [reflexivity|].
    destruct (is_nil (walk_records signer answer ns)); [reflexivity|].
    assert (G : forall r, walk_group_verified ONE signer answer ns' r = walk_group_verified ONE signer answer ns r).
    { intros r. unfold walk_group_verified, walk_group. rewrite remnant_records, remnant_sigs. reflexivity. }
    induction (walk_records signer answer ns) as [|r l IH]; cbn [forallb]; [reflexivity|]. rewrite G, IH. reflexivity.
  Qed.
End Remnant.

Theorem authority_remnant_ignored ONE signer answer ns x : walk_in_zone signer x = false ->
  walk_verdict ONE signer answer (ns ++ [MR x]) = walk_verdict ONE signer answer ns.
Proof. intros H. apply authority_record_not_taking_part; rewrite H; apply Bool.andb_false_r. Qed.
Theorem authority_ns_ignored ONE signer answer ns x : r_type x = TYPE_NS -> list_eqb (r_kind x) KIND_DNAME = false ->
  walk_verdict ONE signer answer (ns ++ [MR x]) = walk_verdict ONE signer answer ns.
Proof. intros Ht Hk. apply authority_record_not_taking_part; [rewrite Hk|rewrite Ht]; reflexivity. Qed.
