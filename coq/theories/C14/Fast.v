(* C14 — a fast evaluator for big.Int.Exp used only by the correspondence:
   square-and-multiply over Bignums' BigN (machine-integer limbs), proved equal
   to the model's [powmod] over N.  The property theorems never mention it;
   this file's lemmas rest on the standard library's specification of
   primitive 63-bit integers (Uint63 axioms), which is why it is kept apart. *)
From Bignums Require Import BigN.
From Sdns Require Import Common.Base Gen.C14 C14.Model.
Open Scope N_scope.

Fixpoint bpow (c : bigN) (e : positive) (n : bigN) : bigN :=
  match e with
  | xH => BigN.modulo c n
  | xO e' => let r := bpow c e' n in BigN.modulo (BigN.mul r r) n
  | xI e' => let r := bpow c e' n in BigN.modulo (BigN.mul (BigN.modulo (BigN.mul r r) n) c) n
  end.
Definition powmod_fast (c e n : N) : N :=
  match e with
  | N0 => 1 mod n
  | Npos p => BigN.to_N (bpow (BigN.of_N c) p (BigN.of_N n))
  end.

Lemma bpow_spec c n p : BigN.to_Z (bpow (BigN.of_N c) p (BigN.of_N n)) = Z.of_N (powmod_pos c p n).
Proof.
  induction p as [p IH|p IH|]; cbn [bpow powmod_pos].
  - rewrite BigN.spec_modulo, BigN.spec_mul, BigN.spec_modulo, BigN.spec_mul, IH, !BigN.spec_of_N.
    rewrite !N2Z.inj_mod, !N2Z.inj_mul, !N2Z.inj_mod, !N2Z.inj_mul. reflexivity.
  - rewrite BigN.spec_modulo, BigN.spec_mul, IH, !BigN.spec_of_N.
    rewrite !N2Z.inj_mod, !N2Z.inj_mul. reflexivity.
  - rewrite BigN.spec_modulo, !BigN.spec_of_N, N2Z.inj_mod. reflexivity.
Qed.

Theorem powmod_fast_eq c e n : powmod_fast c e n = powmod c e n.
Proof.
  destruct e as [|p]; cbn [powmod_fast powmod]; [reflexivity|].
  unfold BigN.to_N. rewrite bpow_spec. apply N2Z.id.
Qed.

(* every model function evaluated with the fast exponentiation is the model function *)
Section Ext.
  Variable PM : N -> N -> N -> N.
  Hypothesis PM_eq : forall c e n, PM c e n = powmod c e n.

  Lemma rsa_verify_with_eq n e prefix hashed sg : rsa_verify_with PM n e prefix hashed sg = rsa_verify n e prefix hashed sg.
  Proof. unfold rsa_verify, rsa_verify_with. rewrite PM_eq. reflexivity. Qed.
  Lemma stdlib_rsa_verify_with_eq n e h hashed sg : stdlib_rsa_verify_with PM n e h hashed sg = stdlib_rsa_verify n e h hashed sg.
  Proof. unfold stdlib_rsa_verify, stdlib_rsa_verify_with. rewrite rsa_verify_with_eq. reflexivity. Qed.

  Variable H : N -> list N -> list N.
  Variable ECP : N -> list N -> bool.
  Variable ECV : N -> list N -> list N -> list N -> bool.
  Variable EDV : list N -> list N -> list N -> bool.
  Variable LIBV : dnskey -> rrsig -> list rr -> N.

  Lemma verify_rsa_signature_pm_eq k alg signed sg :
    verify_rsa_signature_pm PM H k alg signed sg = verify_rsa_signature H k alg signed sg.
  Proof.
    unfold verify_rsa_signature, verify_rsa_signature_pm.
    destruct (parse_rsa (k_pub k)) as [[n e]|]; [|reflexivity].
    destruct (usable_rsa n e); [|reflexivity]. cbn [negb].
    destruct (rsa_hash alg) as [[hid prefix]|]; [|reflexivity].
    rewrite rsa_verify_with_eq. fold rsa_verify.
    destruct (bits e <=? stdlib_exponent_bits); [|reflexivity].
    destruct (rsa_crypto_hash alg); [|reflexivity].
    rewrite stdlib_rsa_verify_with_eq. reflexivity.
  Qed.
  Lemma verify_signature_pm_eq k s rrset :
    verify_signature_pm PM H ECP ECV EDV k s rrset = verify_signature H ECP ECV EDV k s rrset.
  Proof.
    unfold verify_signature, verify_signature_pm.
    destruct (negb (signature_binding k s rrset =? E_OK)); [reflexivity|].
    destruct (signed_data s rrset); [reflexivity|].
    destruct (negb (snd (b64_decode (s_signature s)))); [reflexivity|].
    rewrite verify_rsa_signature_pm_eq. reflexivity.
  Qed.
  Lemma crypto_verify_pm_eq k s rrset :
    crypto_verify_pm PM H ECP ECV EDV LIBV k s rrset = crypto_verify H ECP ECV EDV LIBV k s rrset.
  Proof. unfold crypto_verify, crypto_verify_pm. rewrite verify_signature_pm_eq. reflexivity. Qed.
  Lemma verify_one_sig_pm_eq keys set s valid :
    verify_one_sig_pm PM H ECP ECV EDV LIBV keys set s valid = verify_one_sig H ECP ECV EDV LIBV keys set s valid.
  Proof.
    unfold verify_one_sig, verify_one_sig_pm.
    destruct (find _ keys) as [p|]; [|reflexivity].
    repeat match goal with |- (if ?b then _ else _) = (if ?b then _ else _) => destruct b; [reflexivity|] end.
    induction (snd p) as [|k l IH]; cbn [existsb]; [reflexivity|].
    rewrite crypto_verify_pm_eq, IH. reflexivity.
  Qed.
  Lemma key_loop_pm_eq s set l : forall last,
    key_loop PM H ECP ECV EDV LIBV s set l last = key_loop powmod H ECP ECV EDV LIBV s set l last.
  Proof.
    induction l as [|k l IH]; intros last; cbn [key_loop]; [reflexivity|].
    rewrite crypto_verify_pm_eq. unfold crypto_verify. cbv zeta. rewrite IH. reflexivity.
  Qed.
  Lemma verify_one_sig_code_pm_eq keys set s valid :
    verify_one_sig_code_pm PM H ECP ECV EDV LIBV keys set s valid = verify_one_sig_code H ECP ECV EDV LIBV keys set s valid.
  Proof.
    unfold verify_one_sig_code, verify_one_sig_code_pm.
    destruct (find _ keys) as [p|]; [|reflexivity]. cbv zeta.
    repeat match goal with |- (if ?b then _ else _) = (if ?b then _ else _) => destruct b; [reflexivity|] end.
    apply key_loop_pm_eq.
  Qed.
  Lemma sig_loop_ext (f g : list rr -> rrsig -> bool -> N) set l : (forall set s v, f set s v = g set s v) ->
    forall last, sig_loop f set l last = sig_loop g set l last.
  Proof.
    intros E. induction l as [|sv t IHt]; intros last; cbn [sig_loop]; [reflexivity|]. rewrite E, IHt. reflexivity.
  Qed.
  Lemma verify_rrsig_code_pm_eq signer keys answer ns :
    verify_rrsig_code_pm PM H ECP ECV EDV LIBV signer keys answer ns = verify_rrsig_code H ECP ECV EDV LIBV signer keys answer ns.
  Proof.
    unfold verify_rrsig_code, verify_rrsig_code_pm. destruct (is_nil keys); [reflexivity|].
    unfold walk_code.
    repeat match goal with |- (if ?b then _ else _) = (if ?b then _ else _) => destruct b; [reflexivity|] end.
    induction (walk_keys signer answer ns) as [|r l IH]; cbn [groups_code]; [reflexivity|].
    assert (G : forall r, group_code (fun set s v => verify_one_sig_code_pm PM H ECP ECV EDV LIBV keys set s v) signer answer ns r
                        = group_code (fun set s v => verify_one_sig_code_pm powmod H ECP ECV EDV LIBV keys set s v) signer answer ns r).
    { intros x. unfold group_code. cbv zeta.
      repeat match goal with |- (if ?b then _ else _) = (if ?b then _ else _) => destruct b; [reflexivity|] end.
      apply sig_loop_ext. intros set s v. rewrite verify_one_sig_code_pm_eq. reflexivity. }
    rewrite G, IH. reflexivity.
  Qed.
  Lemma verify_rrsig_pm_eq signer keys answer ns :
    verify_rrsig_pm PM H ECP ECV EDV LIBV signer keys answer ns = verify_rrsig H ECP ECV EDV LIBV signer keys answer ns.
  Proof.
    unfold verify_rrsig, verify_rrsig_pm. destruct (is_nil keys); [reflexivity|].
    unfold walk_verdict.
    destruct (existsb _ (walk_answer signer answer ns)); [reflexivity|].
    destruct (is_nil (walk_records signer answer ns)); [reflexivity|].
    assert (FE : forall (f g : rr -> bool) l, (forall x, f x = g x) -> forallb f l = forallb g l).
    { intros f g l E. induction l as [|x l IHl]; cbn [forallb]; [reflexivity|]. rewrite E, IHl. reflexivity. }
    apply FE. intros r. unfold walk_group_verified.
    induction (walk_sigs answer ns) as [|sv l IH]; cbn [existsb]; [reflexivity|].
    rewrite IH. destruct (sig_covers _ (fst sv) r); [|reflexivity].
    rewrite verify_one_sig_pm_eq. reflexivity.
  Qed.
End Ext.
