(* C14 — the streaming key tag (192-octet decoded chunks, uint32 accumulator,
   final fold, library fall-back) returns what dns.DNSKEY.KeyTag returns, for
   every key string; the library's value is RFC 4034 Appendix B on the RDATA. *)
From Sdns Require Import Common.Base Gen.C14 C14.Model C14.Proofs_rsa C14.Proofs_b64.
Open Scope N_scope.

(* ------------------------------------------------ oversizedKeyMaterial *)
Lemma len_app {A} (a b : list A) : len (a ++ b) = len a + len b.
Proof. unfold len. rewrite app_length. lia. Qed.
Lemma len_cons {A} (x : A) l : len (x :: l) = 1 + len l.
Proof. unfold len. cbn [length]. lia. Qed.

Lemma oversized_walk_spec s : forall m, m <= key_material_limit ->
  oversized_walk s m = (key_material_limit <? m + len (strip_nl s)).
Proof.
  induction s as [|c r IH]; intros m Hm; cbn [oversized_walk strip_nl filter].
  - change (len (@nil N)) with 0. symmetry. apply N.ltb_ge. lia.
  - fold (strip_nl r). destruct (is_nl c); cbn [negb].
    + apply IH. exact Hm.
    + rewrite len_cons. destruct (key_material_limit <? m + 1) eqn:E.
      * apply N.ltb_lt in E. symmetry. apply N.ltb_lt. lia.
      * apply N.ltb_ge in E. rewrite IH by lia. f_equal. lia.
Qed.

Lemma no_nl_strip l : forallb (fun c => negb (c =? 10)) l = true -> forallb (fun c => negb (c =? 13)) l = true -> strip_nl l = l.
Proof.
  induction l as [|c l IH]; cbn [forallb strip_nl filter]; [reflexivity|].
  intros A B. apply andb_prop in A as (A1 & A2). apply andb_prop in B as (B1 & B2).
  unfold is_nl. apply negb_true_iff in A1, B1. rewrite A1, B1. cbn [orb negb]. f_equal. apply IH; assumption.
Qed.

(* the pre-decode size test is exactly "more material than 4092 octets encode to" *)
Theorem oversized_spec pk : oversized pk = (key_material_limit <? len (strip_nl pk)).
Proof.
  unfold oversized. destruct (len pk <=? key_material_limit) eqn:A.
  - apply N.leb_le in A. symmetry. apply N.ltb_ge.
    pose proof (strip_nl_length pk). unfold len in *. lia.
  - apply N.leb_gt in A.
    destruct (forallb (fun c => negb (c =? 10)) (firstn (N.to_nat (key_material_limit + 1)) pk)
              && forallb (fun c => negb (c =? 13)) (firstn (N.to_nat (key_material_limit + 1)) pk)) eqn:B.
    + apply andb_prop in B as (B1 & B2). symmetry. apply N.ltb_lt.
      rewrite <- (firstn_skipn (N.to_nat (key_material_limit + 1)) pk).
      rewrite strip_nl_app, len_app, (no_nl_strip _ B1 B2).
      unfold len at 1. rewrite firstn_length_le by (unfold len in A; lia). lia.
    + rewrite oversized_walk_spec by lia. reflexivity.
Qed.

(* ------------------------------------------------- the accumulator *)
Lemma rfc_acc_bound bs : bytes_ok bs -> forall ac ev, rfc_acc ac ev bs <= ac + 65280 * len bs.
Proof.
  induction 1 as [|b bs Hb Hbs IH]; intros ac ev; cbn [rfc_acc].
  - change (len (@nil N)) with 0. lia.
  - rewrite len_cons. eapply N.le_trans; [apply IH|]. destruct ev; lia.
Qed.

Lemma kt_acc_rfc bs : bytes_ok bs -> forall ac ev,
  ac + 65280 * len bs < two32 -> kt_acc ac ev bs = rfc_acc ac ev bs.
Proof.
  induction 1 as [|b bs Hb Hbs IH]; intros ac ev Hlt; cbn [kt_acc rfc_acc]; [reflexivity|].
  rewrite len_cons in Hlt. unfold two32 in *.
  assert (E : wrap32 (ac + (if ev then wrap32 (b * 256) else b)) = ac + (if ev then b * 256 else b)).
  { destruct ev.
    - rewrite (wrap32_small (b * 256)) by (unfold two32; lia). apply wrap32_small. unfold two32. lia.
    - apply wrap32_small. unfold two32. lia. }
  rewrite E. apply IH. destruct ev; lia.
Qed.

Lemma rfc_acc_app a : forall b ac ev,
  rfc_acc ac ev (a ++ b) = rfc_acc (rfc_acc ac ev a) (if Nat.even (length a) then ev else negb ev) b.
Proof.
  induction a as [|x a IH]; intros b ac ev; cbn [app rfc_acc length]; [reflexivity|].
  rewrite IH. rewrite Nat.even_succ, <- Nat.negb_even.
  destruct (Nat.even (length a)); cbn [negb]; destruct ev; reflexivity.
Qed.

Lemma kt_fold_rfc sum : sum < two32 - 65536 -> kt_fold sum = (sum + (sum / 65536) mod 65536) mod 65536.
Proof.
  intros H. unfold kt_fold, two32 in *.
  change 65535 with (N.ones 16). rewrite !N.land_ones, N.shiftr_div_pow2.
  change (2 ^ 16) with 65536.
  assert ((sum / 65536) mod 65536 < 65536) by (apply N.mod_lt; discriminate).
  rewrite wrap32_small by (unfold two32; lia).
  unfold wrap16, two16. apply N.mod_mod. discriminate.
Qed.

(* ----------------------------------------------------------- chunks *)
Lemma chunks_fuel_indep n : (0 < n)%nat -> forall f1 f2 s,
  (length s <= f1)%nat -> (length s <= f2)%nat -> chunks_fuel f1 n s = chunks_fuel f2 n s.
Proof.
  intros Hn. induction f1 as [|f1 IH]; intros f2 s H1 H2.
  - destruct s; [|cbn in H1; lia]. destruct f2; reflexivity.
  - destruct s as [|x s]; [destruct f2; reflexivity|].
    destruct f2 as [|f2]; [cbn in H2; lia|].
    cbn [chunks_fuel]. f_equal. apply IH.
    + rewrite skipn_length. cbn [length] in *. lia.
    + rewrite skipn_length. cbn [length] in *. lia.
Qed.

Lemma chunks_unfold n s : (0 < n)%nat ->
  chunks n s = match s with [] => [] | _ => firstn n s :: chunks n (skipn n s) end.
Proof.
  intros Hn. unfold chunks. destruct s as [|x s]; [reflexivity|].
  cbn [length chunks_fuel]. f_equal.
  apply chunks_fuel_indep; [exact Hn | | lia].
  rewrite skipn_length. cbn [length]. lia.
Qed.

Fixpoint chunked (n : nat) (cs : list (list N)) : Prop :=
  match cs with
  | [] => True
  | c :: rest => (rest <> [] -> length c = n) /\ chunked n rest
  end.

Lemma chunks_props n : (0 < n)%nat -> forall k s, (length s <= k)%nat ->
  concat (chunks n s) = s /\ chunked n (chunks n s).
Proof.
  intros Hn. induction k as [|k IH]; intros s Hk.
  - destruct s; [|cbn in Hk; lia]. rewrite chunks_unfold by exact Hn. cbn. auto.
  - rewrite chunks_unfold by exact Hn. destruct s as [|x s]; [cbn; auto|].
    assert (L : (length (skipn n (x :: s)) <= k)%nat) by (rewrite skipn_length; cbn [length] in *; lia).
    destruct (IH _ L) as (I1 & I2). split.
    + cbn [concat]. rewrite I1. apply firstn_skipn.
    + cbn [chunked]. split; [|exact I2].
      intros Hne. rewrite firstn_length_le; [reflexivity|].
      destruct (Nat.le_gt_cases n (length (x :: s))) as [Hle|Hgt]; [exact Hle|].
      exfalso. apply Hne. rewrite skipn_all2 by lia. rewrite chunks_unfold by exact Hn. reflexivity.
Qed.

(* ----------------------------------------------- the library's value *)
(* What the library returns for RDATA = hdr | pre | decode s, where the
   octets [pre] have already been read. *)
Definition lib_tail (hdr pre s : list N) : N :=
  let d := b64_decode s in
  if negb (snd d) then 0
  else if lib_msg_size <? len hdr + len pre + len (fst d) then 0
  else keytag_rfc (hdr ++ pre ++ fst d).

Lemma b64_decode_bytes s : bytes_ok (fst (b64_decode s)).
Proof. unfold b64_decode. apply b64_dec_bytes. Qed.
Lemma b64_decode_len s : (4 * length (fst (b64_decode s)) <= 3 * length (strip_nl s))%nat.
Proof. unfold b64_decode. apply b64_dec_len. Qed.

Lemma fold_of_acc hdr pre d :
  length hdr = 4%nat -> bytes_ok hdr -> bytes_ok pre -> bytes_ok d ->
  Nat.even (length pre) = true -> (length pre + length d <= 4092)%nat ->
  kt_fold (kt_acc (rfc_acc 0 true (hdr ++ pre)) true d) = keytag_rfc (hdr ++ pre ++ d).
Proof.
  intros Lh Bh Bp Bd Ev Hlen.
  assert (Bhp : bytes_ok (hdr ++ pre)) by (apply Forall_app; split; assumption).
  pose proof (rfc_acc_bound (hdr ++ pre) Bhp 0 true) as B1.
  rewrite len_app in B1. unfold len in B1. rewrite Lh in B1.
  rewrite kt_acc_rfc; [|exact Bd|].
  2:{ unfold two32, len. lia. }
  replace (rfc_acc (rfc_acc 0 true (hdr ++ pre)) true d) with (rfc_acc 0 true ((hdr ++ pre) ++ d)).
  2:{ rewrite rfc_acc_app. rewrite app_length, Lh. rewrite Nat.even_add. cbn [Nat.even]. rewrite Ev. reflexivity. }
  rewrite <- app_assoc.
  assert (Ball : bytes_ok (hdr ++ pre ++ d)) by (repeat (apply Forall_app; split); assumption).
  pose proof (rfc_acc_bound _ Ball 0 true) as B2.
  rewrite !len_app in B2. unfold len in B2. rewrite Lh in B2.
  rewrite kt_fold_rfc by (unfold two32; lia).
  reflexivity.
Qed.

(* The loop invariant.  [pre]: octets already summed (whole 192-octet chunks,
   so an even count); the bound says the key is not oversized. *)
Lemma kt_loop_lib hdr :
  length hdr = 4%nat -> bytes_ok hdr ->
  forall cs pre,
    chunked 256 cs -> bytes_ok pre -> Nat.even (length pre) = true ->
    4 * len pre + 3 * len (strip_nl (concat cs)) <= 16368 ->
    kt_loop (rfc_acc 0 true (hdr ++ pre)) cs (lib_tail hdr pre (concat cs)) = lib_tail hdr pre (concat cs).
Proof.
  intros Lh Bh. induction cs as [|c rest IH]; intros pre Hch Bp Ev Inv.
  - (* nothing left: the tag is the fold of what was summed *)
    cbn [kt_loop concat]. unfold lib_tail. change (b64_decode []) with (@nil N, true).
    cbn [fst snd negb]. change (len (@nil N)) with 0.
    cbn [strip_nl filter] in Inv. change (len (@nil N)) with 0 in Inv.
    replace (lib_msg_size <? len hdr + len pre + 0) with false.
    2:{ symmetry. apply N.ltb_ge. unfold lib_msg_size. unfold len at 1. rewrite Lh. lia. }
    apply (fold_of_acc hdr pre [] Lh Bh Bp (Forall_nil _) Ev). unfold len in Inv. cbn [length]. lia.
  - cbn [kt_loop concat]. cbn [concat] in Inv. destruct Hch as (Hc & Hch).
    destruct (snd (b64_decode c)) eqn:Ok; cbn [negb]; [|reflexivity].
    destruct rest as [|c2 rest'].
    + (* last chunk *)
      cbn [is_nil negb andb concat kt_loop]. rewrite app_nil_r in *.
      unfold lib_tail. rewrite Ok. cbn [negb].
      pose proof (b64_decode_len c) as Ld.
      replace (lib_msg_size <? len hdr + len pre + len (fst (b64_decode c))) with false.
      2:{ symmetry. apply N.ltb_ge. unfold lib_msg_size, len in *. rewrite Lh. lia. }
      apply fold_of_acc; try assumption; [apply b64_decode_bytes | unfold len in Inv; lia].
    + (* a chunk with more to come *)
      cbn [is_nil negb andb]. change kt_out_len with 192.
      destruct (len (fst (b64_decode c)) =? 192) eqn:L192; cbn [negb]; [|reflexivity].
      apply N.eqb_eq in L192.
      assert (Lc : length c = 256%nat) by (apply Hc; discriminate).
      assert (Ld : length (fst (b64_decode c)) = 192%nat) by (unfold len in L192; lia).
      destruct (b64_decode_full_chunk c (concat (c2 :: rest'))) as (HA & Dec);
        [rewrite Lc; reflexivity | exact Ok | rewrite Ld, Lc; reflexivity |].
      assert (Elib : lib_tail hdr pre (c ++ concat (c2 :: rest')) =
                     lib_tail hdr (pre ++ fst (b64_decode c)) (concat (c2 :: rest'))).
      { unfold lib_tail. rewrite Dec. cbn [fst snd]. rewrite !len_app, <- !app_assoc.
        rewrite !N.add_assoc. reflexivity. }
      rewrite Elib.
      assert (Bd : bytes_ok (fst (b64_decode c))) by apply b64_decode_bytes.
      assert (Inv' : 4 * len (pre ++ fst (b64_decode c)) + 3 * len (strip_nl (concat (c2 :: rest'))) <= 16368).
      { rewrite strip_nl_app, (strip_nl_alpha c HA), len_app in Inv. rewrite len_app. unfold len in *. rewrite Ld. lia. }
      assert (Esum : kt_acc (rfc_acc 0 true (hdr ++ pre)) true (fst (b64_decode c)) =
                     rfc_acc 0 true (hdr ++ pre ++ fst (b64_decode c))).
      { assert (Bhp : bytes_ok (hdr ++ pre)) by (apply Forall_app; split; assumption).
        pose proof (rfc_acc_bound (hdr ++ pre) Bhp 0 true) as B1.
        rewrite len_app in B1. unfold len in B1. rewrite Lh in B1.
        rewrite len_app in Inv'. unfold len in Inv'. rewrite Ld in Inv'.
        rewrite kt_acc_rfc; [|exact Bd|unfold two32, len; lia].
        rewrite app_assoc, (rfc_acc_app (hdr ++ pre)). rewrite app_length, Lh, Nat.even_add. cbn [Nat.even]. rewrite Ev. reflexivity. }
      rewrite Esum.
      apply IH; try assumption.
      * apply Forall_app. split; assumption.
      * rewrite app_length, Ld, Nat.even_add, Ev. reflexivity.
Qed.

(* ---------------------------------------------------- the key tag *)
Lemma in_names_rsamd5 alg : (alg =? keytag_rsamd5_alg_value) = (alg =? 1).
Proof. reflexivity. Qed.

Lemma be16_split flags : flags < 65536 -> be16 flags = [flags / 256; flags mod 256].
Proof.
  intros H. destruct (be16_val flags H) as (h & l & E & Hhl & Hh & Hl). rewrite E.
  assert (h = flags / 256) by lia. assert (l = flags mod 256) by lia. subst h l. reflexivity.
Qed.

Lemma initial_sum flags proto alg :
  flags < 65536 -> proto < 256 -> alg < 256 ->
  wrap32 (wrap32 (wrap32 (wrap32 (N.shiftr flags 8 * 256) + N.land flags 255) + wrap32 (proto * 256)) + alg)
  = rfc_acc 0 true (be16 flags ++ [proto; alg] ++ []).
Proof.
  intros Hf Hp Ha. rewrite be16_split by exact Hf. cbn [app rfc_acc negb].
  rewrite N.shiftr_div_pow2. change (2 ^ 8) with 256.
  change 255 with (N.ones 8). rewrite N.land_ones. change (2 ^ 8) with 256.
  assert (flags / 256 < 256) by (apply N.div_lt_upper_bound; lia).
  assert (flags mod 256 < 256) by (apply N.mod_lt; discriminate).
  rewrite (wrap32_small (flags / 256 * 256)) by (unfold two32; lia).
  rewrite (wrap32_small (flags / 256 * 256 + flags mod 256)) by (unfold two32; lia).
  rewrite (wrap32_small (proto * 256)) by (unfold two32; lia).
  rewrite (wrap32_small (flags / 256 * 256 + flags mod 256 + proto * 256)) by (unfold two32; lia).
  rewrite wrap32_small by (unfold two32; lia). lia.
Qed.

Lemma hdr_props flags proto alg :
  flags < 65536 -> proto < 256 -> alg < 256 ->
  length (be16 flags ++ [proto; alg]) = 4%nat /\ bytes_ok (be16 flags ++ [proto; alg]).
Proof.
  intros Hf Hp Ha. rewrite be16_split by exact Hf. split; [reflexivity|].
  repeat constructor; try assumption.
  - apply N.div_lt_upper_bound; lia.
  - apply N.mod_lt. discriminate.
Qed.

Lemma keytag_lib_tail flags proto alg pk :
  flags < 65536 -> alg <> 1 ->
  keytag_lib flags proto alg pk = Some (lib_tail (be16 flags ++ [proto; alg]) [] pk).
Proof.
  intros Hf H1. unfold keytag_lib, lib_tail, dnskey_rdata. apply N.eqb_neq in H1. rewrite H1.
  rewrite be16_split by exact Hf. cbn [app]. change (len [flags / 256; flags mod 256; proto; alg] + len (@nil N)) with 4.
  destruct (negb (snd (b64_decode pk))); [reflexivity|].
  destruct (lib_msg_size <? 4 + len (fst (b64_decode pk))); reflexivity.
Qed.

(* Theorem (key tag, every algorithm but RSAMD5): for every key string — well
   formed, wrapped, padded in the middle, malformed, oversized — the streaming
   computation returns what the library returns. *)
Theorem keytag_eq_lib flags proto alg pk :
  flags < 65536 -> proto < 256 -> alg < 256 -> alg <> 1 ->
  Some (keytag flags proto alg pk) = keytag_lib flags proto alg pk.
Proof.
  intros Hf Hp Ha H1. rewrite (keytag_lib_tail flags proto alg pk Hf H1). f_equal.
  unfold keytag. rewrite (keytag_lib_tail flags proto alg pk Hf H1).
  rewrite in_names_rsamd5. pose proof H1 as H1'. apply N.eqb_neq in H1'. rewrite H1'.
  rewrite oversized_spec.
  destruct (hdr_props flags proto alg Hf Hp Ha) as (Lh & Bh).
  set (hdr := be16 flags ++ [proto; alg]) in *.
  destruct (key_material_limit <? len (strip_nl pk)) eqn:Ov.
  - (* too much material: whatever decodes is too long for the library's buffer *)
    apply N.ltb_lt in Ov. change key_material_limit with 5456 in Ov.
    unfold lib_tail.
    destruct (snd (b64_decode pk)) eqn:Ok; cbn [negb]; [|reflexivity].
    unfold b64_decode in *.
    pose proof (b64_dec_ok_mod4 _ Ok) as M4. pose proof (b64_dec_ok_len _ Ok) as Lo.
    replace (lib_msg_size <? len hdr + len (@nil N) + len (fst (b64_dec (strip_nl pk)))) with true; [reflexivity|].
    symmetry. apply N.ltb_lt. unfold lib_msg_size, len in *. rewrite Lh. cbn [length]. lia.
  - apply N.ltb_ge in Ov. change key_material_limit with 5456 in Ov.
    assert (Hpos : (0 < 256)%nat) by lia.
    destruct (chunks_props 256 Hpos (length pk) pk (le_n _)) as (Cc & Ch).
    change (N.to_nat key_tag_chunk) with 256%nat.
    rewrite initial_sum by assumption. fold hdr.
    assert (Inv : 4 * len (@nil N) + 3 * len (strip_nl (concat (chunks 256 pk))) <= 16368).
    { rewrite Cc. change (len (@nil N)) with 0. lia. }
    pose proof (kt_loop_lib hdr Lh Bh (chunks 256 pk) [] Ch (Forall_nil _) eq_refl Inv) as K.
    rewrite Cc in K. exact K.
Qed.

(* The library's value is the RFC 4034 Appendix B checksum of the RDATA, so on
   every key whose material decodes and fits the streaming computation is the
   RFC's; an oversized key has tag 0. *)
Corollary keytag_stream_eq_rfc flags proto alg pk d :
  flags < 65536 -> proto < 256 -> alg < 256 -> alg <> 1 ->
  b64_decode pk = (d, true) -> len d <= 4092 ->
  keytag flags proto alg pk = keytag_rfc (dnskey_rdata flags proto alg d).
Proof.
  intros Hf Hp Ha H1 Hd Hl.
  pose proof (keytag_eq_lib flags proto alg pk Hf Hp Ha H1) as E.
  unfold keytag_lib in E. apply N.eqb_neq in H1. rewrite H1, Hd in E. cbn [fst snd negb] in E.
  replace (lib_msg_size <? 4 + len d) with false in E by (symmetry; apply N.ltb_ge; unfold lib_msg_size; lia).
  injection E as E. exact E.
Qed.
Corollary keytag_oversized flags proto alg pk :
  alg <> 1 -> 5456 < len (strip_nl pk) -> keytag flags proto alg pk = 0.
Proof.
  intros H1 H. unfold keytag. rewrite in_names_rsamd5. apply N.eqb_neq in H1. rewrite H1.
  rewrite oversized_spec. change key_material_limit with 5456. apply N.ltb_lt in H. rewrite H. reflexivity.
Qed.
