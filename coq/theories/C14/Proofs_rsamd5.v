(* C14 — RSAMD5 key tag: the tail tracked chunk by chunk (line breaks removed
   while filling, stop at the first decode error or at padding in the middle)
   is the tail of what one decode of the whole string yields, so the tag is the
   library's wherever the library has one, and zero on the two-octet material
   on which the library panics. *)
From Sdns Require Import Common.Base Gen.C14 C14.Model C14.Proofs_rsa C14.Proofs_b64 C14.Proofs_keytag.
Open Scope N_scope.

(* ------------------------------- decode of a prefix of whole quanta *)
Lemma all_alpha_cons4 c0 c1 c2 c3 l v0 v1 v2 v3 :
  b64_val c0 = Some v0 -> b64_val c1 = Some v1 -> b64_val c2 = Some v2 -> b64_val c3 = Some v3 ->
  all_alpha (c0 :: c1 :: c2 :: c3 :: l) = all_alpha l.
Proof. intros H0 H1 H2 H3. unfold all_alpha. cbn [forallb]. unfold alpha at 1 2 3 4. rewrite H0, H1, H2, H3. reflexivity. Qed.

Lemma all_alpha_bad c0 c1 c2 c3 l :
  b64_val c0 = None \/ b64_val c1 = None \/ b64_val c2 = None \/ b64_val c3 = None ->
  all_alpha (c0 :: c1 :: c2 :: c3 :: l) = false.
Proof.
  intros H. unfold all_alpha. cbn [forallb]. unfold alpha at 1 2 3 4.
  destruct H as [H|[H|[H|H]]]; rewrite H; cbn [andb];
    repeat match goal with |- context [match ?x with Some _ => true | None => false end] => destruct x end; reflexivity.
Qed.

Lemma b64_dec_app_fst a x : (length a mod 4 = 0)%nat ->
  fst (b64_dec (a ++ x)) = if all_alpha a then fst (b64_dec a) ++ fst (b64_dec x) else fst (b64_dec a).
Proof.
  induction a as [| c0 | c0 c1 | c0 c1 c2 | c0 c1 c2 c3 l IH] using list_ind4; intros HL; try discriminate.
  - reflexivity.
  - assert (HL' : (length l mod 4 = 0)%nat).
    { change (length (c0 :: c1 :: c2 :: c3 :: l)) with (4 + length l)%nat in HL. lia. }
    specialize (IH HL').
    destruct (b64_val c0) as [v0|] eqn:E0.
    2:{ rewrite all_alpha_bad by auto. cbn [app b64_dec]. rewrite E0. reflexivity. }
    destruct (b64_val c1) as [v1|] eqn:E1.
    2:{ rewrite all_alpha_bad by auto. cbn [app b64_dec]. rewrite E0, E1. reflexivity. }
    destruct (b64_val c2) as [v2|] eqn:E2.
    2:{ rewrite all_alpha_bad by auto. cbn [app b64_dec]. rewrite E0, E1, E2.
        destruct (c2 =? 61); [|reflexivity]. destruct (c3 =? 61); reflexivity. }
    destruct (b64_val c3) as [v3|] eqn:E3.
    2:{ rewrite all_alpha_bad by auto 10. cbn [app b64_dec]. rewrite E0, E1, E2, E3.
        destruct (c3 =? 61); reflexivity. }
    rewrite (all_alpha_cons4 _ _ _ _ _ _ _ _ _ E0 E1 E2 E3).
    cbn [app]. rewrite !(b64_dec_quantum _ _ _ _ _ _ _ _ _ E0 E1 E2 E3). cbn [fst]. rewrite IH.
    destruct (all_alpha l); reflexivity.
Qed.

(* ------------------------------------------------- fillKeyTagChunk *)
Lemma strip_nl_cons_nl c s : is_nl c = true -> strip_nl (c :: s) = strip_nl s.
Proof. intros H. unfold strip_nl. cbn [filter]. rewrite H. reflexivity. Qed.
Lemma strip_nl_cons_keep c s : is_nl c = false -> strip_nl (c :: s) = c :: strip_nl s.
Proof. intros H. unfold strip_nl. cbn [filter]. rewrite H. reflexivity. Qed.

Lemma fill_chunk_spec n : forall fuel s acc,
  (length s <= fuel)%nat -> (length acc <= n)%nat ->
  exists m, fst (fill_chunk fuel s acc n) = acc ++ m
            /\ strip_nl s = m ++ strip_nl (snd (fill_chunk fuel s acc n))
            /\ strip_nl m = m
            /\ (length (acc ++ m) <= n)%nat
            /\ ((length (acc ++ m) < n)%nat -> snd (fill_chunk fuel s acc n) = [])
            /\ (length (snd (fill_chunk fuel s acc n)) <= length s)%nat
            /\ ((length acc < n)%nat -> s <> [] -> (length (snd (fill_chunk fuel s acc n)) < length s)%nat).
Proof.
  induction fuel as [|f IH]; intros s acc Hs Ha.
  - destruct s; [|cbn in Hs; lia]. exists []. cbn [fill_chunk fst snd]. rewrite app_nil_r.
    repeat split; auto; try lia. intros _ X. congruence.
  - destruct s as [|c r].
    + exists []. cbn [fill_chunk fst snd]. rewrite app_nil_r. repeat split; auto; try lia. intros _ X. congruence.
    + cbn [fill_chunk]. destruct (n <=? length acc)%nat eqn:Full.
      * apply Nat.leb_le in Full. exists []. cbn [fst snd app]. rewrite app_nil_r.
        repeat split; auto; try lia.
      * apply Nat.leb_gt in Full. cbn [length] in Hs.
        destruct (is_nl c) eqn:NL.
        -- destruct (IH r acc) as (m & E1 & E2 & E3 & E4 & E5 & E6 & E7); [lia | lia |].
           exists m. rewrite strip_nl_cons_nl by exact NL. cbn [length].
           repeat split; auto; try lia.
        -- destruct (IH r (acc ++ [c])) as (m & E1 & E2 & E3 & E4 & E5 & E6 & E7); [lia | rewrite app_length; cbn [length]; lia |].
           exists (c :: m). rewrite strip_nl_cons_keep by exact NL. rewrite E1, <- app_assoc. cbn [app length].
           rewrite <- app_assoc in E4, E5. cbn [app] in E4, E5.
           repeat split; auto; try lia.
           ++ f_equal. exact E2.
           ++ rewrite strip_nl_cons_keep by exact NL. f_equal. exact E3.
Qed.

(* --------------------------------------------------------- the loop *)
Lemma rsamd5_loop_nil f t : rsamd5_loop f [] t = t.
Proof. destruct f; reflexivity. Qed.

Lemma rsamd5_loop_spec : forall fuel enc t, (length enc <= fuel)%nat ->
  rsamd5_loop fuel enc t = fold_left tail3_push (fst (b64_decode enc)) t.
Proof.
  induction fuel as [|f IH]; intros enc t Hf.
  - destruct enc; [reflexivity | cbn in Hf; lia].
  - destruct enc as [|c0 enc0]; [reflexivity|].
    set (enc := c0 :: enc0) in *.
    cbn [rsamd5_loop]. fold enc.
    change (N.to_nat key_tag_chunk) with 256%nat. change kt_out_len with 192.
    destruct (fill_chunk_spec 256 (length enc) enc [] (le_n _) (Nat.le_0_l _))
      as (chunk & E1 & E2 & E3 & E4 & E5 & E6 & E7).
    cbn [app] in E1, E4, E5.
    set (fc := fill_chunk (length enc) enc [] 256) in *.
    rewrite E1.
    assert (Hlt : (length (snd fc) < length enc)%nat) by (apply E7; [cbn; lia | discriminate]).
    assert (Dchunk : b64_decode chunk = b64_dec chunk) by (unfold b64_decode; rewrite E3; reflexivity).
    assert (Dwhole : b64_decode enc = b64_dec (chunk ++ strip_nl (snd fc))) by (unfold b64_decode; rewrite E2; reflexivity).
    rewrite Dchunk, Dwhole.
    destruct (Nat.eq_dec (length chunk) 256) as [L256|Lshort].
    + (* a full chunk of 64 quanta *)
      assert (M4 : (length chunk mod 4 = 0)%nat) by (rewrite L256; reflexivity).
      rewrite (b64_dec_app_fst chunk _ M4).
      destruct (all_alpha chunk) eqn:AA.
      * destruct (b64_dec_alpha_app chunk [] AA M4) as (_ & Ok & Len).
        rewrite Ok. cbn [negb].
        replace (len (fst (b64_dec chunk)) <? 192) with false by (symmetry; apply N.ltb_ge; unfold len; lia).
        rewrite andb_false_r.
        rewrite IH by (cbn [length] in Hf; lia).
        rewrite fold_left_app. reflexivity.
      * destruct (snd (b64_dec chunk)) eqn:Ok; cbn [negb]; [|reflexivity].
        assert (Short : len (fst (b64_dec chunk)) <? 192 = true).
        { apply N.ltb_lt. pose proof (b64_dec_len chunk) as B.
          destruct (Nat.eq_dec (length (fst (b64_dec chunk))) 192) as [E|NE].
          - exfalso. rewrite (b64_dec_full_alpha chunk Ok) in AA by lia. discriminate.
          - unfold len. lia. }
        rewrite Short, andb_true_r.
        destruct (snd fc) as [|x r]; cbn [is_nil negb]; [apply rsamd5_loop_nil | reflexivity].
    + (* the input ran out before the chunk was full: this is the last chunk *)
      rewrite (E5 ltac:(lia)). cbn [strip_nl filter is_nil negb andb]. rewrite app_nil_r.
      destruct (snd (b64_dec chunk)); cbn [negb]; [apply rsamd5_loop_nil | reflexivity].
Qed.

(* ------------------------------------------- the last three octets *)
Lemma tail3_fold m :
  let t := fold_left tail3_push m ([0; 0; 0], 0) in
  snd t = N.min 3 (len m) /\
  exists x0 x1 x2, fst t = [x0; x1; x2] /\ firstn 3 (rev m ++ [0; 0; 0]) = [x2; x1; x0].
Proof.
  induction m as [|b m IH] using rev_ind.
  - cbn. split; [reflexivity|]. exists 0, 0, 0. auto.
  - cbn zeta in *. rewrite fold_left_app. cbn [fold_left].
    destruct IH as (S & x0 & x1 & x2 & F & R).
    set (t := fold_left tail3_push m ([0; 0; 0], 0)) in *.
    unfold tail3_push. rewrite F, S. cbn [fst snd]. split.
    + rewrite len_app. change (len [b]) with 1.
      destruct (N.min 3 (len m) <? 3) eqn:E; [apply N.ltb_lt in E | apply N.ltb_ge in E]; lia.
    + exists x1, x2, b. split; [reflexivity|].
      rewrite rev_app_distr. cbn [rev app firstn].
      destruct (rev m ++ [0; 0; 0]) as [|y0 [|y1 [|y2 r]]] eqn:Er; cbn [firstn] in R; try discriminate.
      injection R as -> -> ->. reflexivity.
Qed.

Definition byte_range_ok : bool :=
  forallb (fun a => forallb (fun b => N.lor (wrap16 (a * 256)) b =? a * 256 + b) alg_range) alg_range.
Lemma lor_bytes a b : a < 256 -> b < 256 -> N.lor (wrap16 (a * 256)) b = a * 256 + b.
Proof.
  intros Ha Hb. assert (F : byte_range_ok = true) by (vm_compute; reflexivity).
  unfold byte_range_ok in F. rewrite forallb_forall in F.
  specialize (F a (alg_range_spec a Ha)). rewrite forallb_forall in F.
  apply N.eqb_eq. apply F. apply alg_range_spec. exact Hb.
Qed.

Theorem rsamd5_eq_lib pk :
  rsamd5_keytag pk = match keytag_lib 0 0 1 pk with Some t => t | None => 0 end.
Proof.
  unfold rsamd5_keytag, keytag_lib. cbn [N.eqb Pos.eqb].
  rewrite rsamd5_loop_spec by lia.
  set (m := fst (b64_decode pk)).
  assert (Bm : bytes_ok m) by apply b64_decode_bytes.
  destruct (tail3_fold m) as (S & x0 & x1 & x2 & F & R). cbn zeta in S, F.
  rewrite S, F.
  assert (Bm' : bytes_ok (rev m)) by (apply Forall_rev; exact Bm).
  unfold len in *.
  destruct (rev m) as [|y2 [|y1 [|y0 r]]] eqn:Er;
    assert (Lr : length (rev m) = length m) by apply rev_length; rewrite Er in Lr; cbn [length] in Lr.
  - replace (N.of_nat (length m)) with 0 by lia. reflexivity.
  - replace (N.of_nat (length m)) with 1 by lia. reflexivity.
  - replace (N.of_nat (length m)) with 2 by lia. reflexivity.
  - replace (1 <? N.of_nat (length m)) with true by (symmetry; apply N.ltb_lt; lia).
    replace (N.min 3 (N.of_nat (length m)) <? 3) with false by (symmetry; apply N.ltb_ge; lia).
    cbn [app firstn] in R. injection R as <- <- <-.
    inversion Bm' as [|? ? _ B1]; subst. inversion B1 as [|? ? Hy1 B2]; subst. inversion B2 as [|? ? Hy0 _]; subst.
    apply lor_bytes; assumption.
Qed.
