(* C14 — the DS side (verify.go): dsDigestMatches is the RFC 4034 5.1.4 digest under the size
   ceiling; verifyDSWithWork(…, nil) with its de-duplication and ordering of the DS set and of the
   candidate keys accepts exactly when some supported DS of the set matches some usable key filed
   under its tag; the ordering only selects which error is reported; DSMatchedKeys returns only keys
   a supported DS of the set vouches for. *)
From Sdns Require Import Common.Base Gen.C14 C14.Model C14.Proofs_rsa C14.Proofs_verify.
Open Scope N_scope.

(* ------------------------------------------------ dedup_first / sort_by *)
Lemma insert_sorted_in {A} (less : A -> A -> bool) x l y : In y (insert_sorted less x l) <-> x = y \/ In y l.
Proof.
  induction l as [|z l IH]; cbn [insert_sorted].
  - cbn. tauto.
  - destruct (less z x); cbn [In]; [rewrite IH|]; tauto.
Qed.
Lemma sort_by_in {A} (less : A -> A -> bool) l y : In y (sort_by less l) <-> In y l.
Proof.
  induction l as [|x l IH]; [reflexivity|].
  unfold sort_by in *. cbn [fold_right]. rewrite insert_sorted_in, IH. reflexivity.
Qed.
Lemma dedup_first_incl {A} (same : A -> A -> bool) l : forall seen y, In y (dedup_first same seen l) -> In y l.
Proof.
  induction l as [|x l IH]; intros seen y; cbn [dedup_first]; [tauto|].
  destruct (existsb (same x) seen).
  - intros Hy. right. eapply IH, Hy.
  - intros [->|Hy]; [left; reflexivity | right; eapply IH, Hy].
Qed.
Lemma dedup_first_repr {A} (same : A -> A -> bool) (Hrefl : forall x, same x x = true) l : forall seen x, In x l ->
  (exists s, In s seen /\ same x s = true) \/ (exists y, In y (dedup_first same seen l) /\ same x y = true).
Proof.
  induction l as [|a l IH]; intros seen x Hx; [destruct Hx|].
  cbn [dedup_first]. destruct (existsb (same a) seen) eqn:E.
  - destruct Hx as [->|Hx].
    + apply existsb_exists in E as (s & Hs & Hsame). left. exists s. auto.
    + apply IH; assumption.
  - destruct Hx as [->|Hx].
    + right. exists x. split; [left; reflexivity | apply Hrefl].
    + destruct (IH (a :: seen) x Hx) as [(s & [<-|Hs] & Hsame) | (y & Hy & Hsame)].
      * right. exists a. split; [left; reflexivity | assumption].
      * left. exists s. auto.
      * right. exists y. split; [right; assumption | assumption].
Qed.

(* a predicate that does not tell records of one identity apart holds somewhere in the unique sorted
   list exactly when it holds somewhere in the list *)
Lemma exists_unique_sorted {A} (same less : A -> A -> bool) (P : A -> bool) l :
  (forall x, same x x = true) ->
  (forall x y, In x l -> In y l -> same x y = true -> P x = P y) ->
  (exists x, In x (sort_by less (dedup_first same [] l)) /\ P x = true) <-> (exists x, In x l /\ P x = true).
Proof.
  intros Hrefl Hcong. split.
  - intros (x & Hx & HP). exists x. split; [|assumption].
    apply sort_by_in in Hx. eapply dedup_first_incl, Hx.
  - intros (x & Hx & HP).
    destruct (dedup_first_repr same Hrefl l [] x Hx) as [(s & [] & _) | (y & Hy & Hsame)].
    exists y. split; [apply sort_by_in; assumption|].
    rewrite <- (Hcong x y Hx (dedup_first_incl same l [] y Hy) Hsame). assumption.
Qed.
Lemma unique_sorted_nil {A} (same less : A -> A -> bool) l : (forall x, same x x = true) ->
  is_nil (sort_by less (dedup_first same [] l)) = is_nil l.
Proof.
  intros Hrefl. destruct l as [|x l]; [reflexivity|].
  destruct (dedup_first_repr same Hrefl (x :: l) [] x (or_introl eq_refl)) as [(s & [] & _) | (y & Hy & _)].
  apply (sort_by_in less) in Hy. destruct (sort_by less (dedup_first same [] (x :: l))); [destruct Hy | reflexivity].
Qed.

(* ------------------------------------------------------- hexadecimal text *)
Lemma is_hex_upper c : is_hex (upper c) = is_hex c.
Proof.
  unfold is_hex, is_digit, upper. destruct ((97 <=? c) && (c <=? 122)) eqn:E; lia.
Qed.
Lemma hex_digit_upper c : hex_digit (upper c) = hex_digit c.
Proof.
  unfold hex_digit, is_digit, upper. destruct ((97 <=? c) && (c <=? 122)) eqn:E;
    repeat match goal with |- context [if ?b then _ else _] => destruct b eqn:? end; lia.
Qed.
Lemma hex_decode_upper s : hex_decode (map upper s) = hex_decode s.
Proof.
  assert (G : forall n s, (length s <= n)%nat -> hex_decode (map upper s) = hex_decode s).
  { induction n as [|n IH]; intros [|a [|b r]] Hl; cbn [length] in Hl; try reflexivity; try lia.
    cbn [map hex_decode]. rewrite !is_hex_upper, !hex_digit_upper, IH by lia. reflexivity. }
  eapply G, Nat.le_refl.
Qed.
Lemma hex_decode_same a b : to_upper a = to_upper b -> hex_decode a = hex_decode b.
Proof. unfold to_upper. intros E. rewrite <- (hex_decode_upper a), <- (hex_decode_upper b), E. reflexivity. Qed.

(* ------------------------------------------------------------ identities *)
Lemma key_same_refl k : key_same k k = true.
Proof. unfold key_same. rewrite !list_eqb_refl, !N.eqb_refl. reflexivity. Qed.
Lemma ds_same_refl d : ds_same d d = true.
Proof. unfold ds_same. rewrite !list_eqb_refl, !N.eqb_refl. reflexivity. Qed.

Lemma key_same_spec a b : key_same a b = true ->
  canonical_name (k_name a) = canonical_name (k_name b) /\ k_class a = k_class b /\ k_flags a = k_flags b
  /\ k_proto a = k_proto b /\ k_alg a = k_alg b /\ k_pub a = k_pub b.
Proof.
  unfold key_same. rewrite !andb_true_iff, !list_eqb_eq, !N.eqb_eq. unfold canonical_name, to_lower. tauto.
Qed.

Section DS.
  Variable H : N -> list N -> list N.

  Lemma ds_digest_matches_same a b dt want : key_same a b = true ->
    ds_digest_matches H a dt want = ds_digest_matches H b dt want.
  Proof.
    intros S. apply key_same_spec in S as (En & _ & Ef & Ep & Ea & Epk).
    unfold ds_digest_matches. cbv zeta. rewrite En, Ef, Ep, Ea, Epk. reflexivity.
  Qed.

  Lemma exists_unique_sorted_keys (P : dnskey -> bool) l : (forall x y, key_same x y = true -> P x = P y) ->
    (exists k, In k (unique_sorted_keys l) /\ P k = true) <-> (exists k, In k l /\ P k = true).
  Proof.
    intros Hc. unfold unique_sorted_keys. destruct l as [|a [|b r]]; try reflexivity.
    apply exists_unique_sorted; [apply key_same_refl | intros x y _ _; apply Hc].
  Qed.

  (* one DS of the loop ends the walk exactly when the model of the verdict says it matches some key *)
  Lemma ds_step_ok km d : ds_step H km d = DS_OK <-> ds_matches_some_key H km d = true.
  Proof.
    unfold ds_step, ds_matches_some_key.
    destruct (find (fun p => fst p =? d_keytag d) km) as [p|]; [|split; discriminate].
    set (cands := unique_sorted_keys (filter (usable_ds_candidate d) (snd p))).
    assert (E : forall want, existsb (fun k => ds_digest_matches H k (d_dt d) want) cands = true <->
                existsb (fun k => if usable_ds_candidate d k then ds_digest_matches H k (d_dt d) want else false) (snd p) = true).
    { intros want. rewrite !existsb_exists. subst cands.
      rewrite exists_unique_sorted_keys by (intros x y S; apply ds_digest_matches_same; exact S).
      split.
      - intros (k & Hk & Hm). apply filter_In in Hk as (Hk & Hu). exists k. rewrite Hu. auto.
      - intros (k & Hk & Hm). destruct (usable_ds_candidate d k) eqn:Hu; [|discriminate].
        exists k. split; [apply filter_In; auto | assumption]. }
    destruct (hex_decode (d_digest d)) as [[|w0 want]|].
    - destruct (is_nil cands); split; discriminate.
    - specialize (E (w0 :: want)).
      destruct (existsb (fun k => ds_digest_matches H k (d_dt d) (w0 :: want)) cands) eqn:Ex.
      + destruct cands as [|c0 cr] eqn:Ec; [cbn in Ex; discriminate|]. cbn [is_nil]. split; intros _; [apply E; reflexivity | reflexivity].
      + destruct (is_nil cands); split; try discriminate; intros Hm; apply E in Hm; discriminate.
    - destruct (is_nil cands); split; discriminate.
  Qed.

  Lemma ds_loop_none km l : forall last,
    ds_loop H km l last = None <-> exists d, In d l /\ is_supported_ds d = true /\ ds_step H km d = DS_OK.
  Proof.
    induction l as [|d l IH]; intros last; cbn [ds_loop].
    - split; [discriminate | intros (d & [] & _)].
    - destruct (is_supported_ds d) eqn:Sd; cbn [negb].
      + destruct (ds_step H km d =? DS_OK) eqn:St.
        * apply N.eqb_eq in St. split; [|reflexivity]. intros _. exists d. split; [left; reflexivity | auto].
        * rewrite IH. apply N.eqb_neq in St. split.
          -- intros (x & Hx & R). exists x. split; [right; assumption | assumption].
          -- intros (x & [<-|Hx] & Sx & Ox); [contradiction | exists x; auto].
      + rewrite IH. split.
        * intros (x & Hx & R). exists x. split; [right; assumption | assumption].
        * intros (x & [<-|Hx] & Sx & Ox); [congruence | exists x; auto].
  Qed.
  (* the error the loop is left with is the one of some supported DS of the list (or the initial value) *)
  Lemma ds_loop_some km l : forall last e, ds_loop H km l last = Some e ->
    e = last \/ exists d, In d l /\ is_supported_ds d = true /\ ds_step H km d = e.
  Proof.
    induction l as [|d l IH]; intros last e; cbn [ds_loop].
    - intros [= <-]. left. reflexivity.
    - destruct (is_supported_ds d) eqn:Sd; cbn [negb].
      + destruct (ds_step H km d =? DS_OK); [discriminate|]. intros L. apply IH in L as [-> | (x & Hx & R)].
        * right. exists d. split; [left; reflexivity | auto].
        * right. exists x. split; [right; assumption | assumption].
      + intros L. apply IH in L as [-> | (x & Hx & R)]; [left; reflexivity|].
        right. exists x. split; [right; assumption | assumption].
  Qed.

  (* records of one identity with fully-qualified owners are treated alike *)
  Lemma ds_same_spec a b : ds_same a b = true -> is_fqdn (d_name a) = true -> is_fqdn (d_name b) = true ->
    map lower (d_name a) = map lower (d_name b) /\ d_class a = d_class b /\ d_keytag a = d_keytag b
    /\ d_alg a = d_alg b /\ d_dt a = d_dt b /\ hex_decode (d_digest a) = hex_decode (d_digest b).
  Proof.
    unfold ds_same, fqdn, to_lower. intros S Fa Fb. rewrite Fa, Fb in S.
    rewrite !andb_true_iff, !list_eqb_eq, !N.eqb_eq in S.
    destruct S as (((((En & Ec) & Ek) & Ea) & Ed) & Eg). repeat split; try assumption. apply hex_decode_same, Eg.
  Qed.
  Lemma ds_same_supported a b : ds_same a b = true -> is_supported_ds a = is_supported_ds b.
  Proof.
    unfold ds_same, is_supported_ds. rewrite !andb_true_iff, !N.eqb_eq.
    intros (((((_ & _) & _) & Ea) & Ed) & _). rewrite Ea, Ed. reflexivity.
  Qed.
  Lemma ds_same_step km a b : ds_same a b = true -> is_fqdn (d_name a) = true -> is_fqdn (d_name b) = true ->
    ds_step H km a = ds_step H km b.
  Proof.
    intros S Fa Fb. destruct (ds_same_spec a b S Fa Fb) as (En & Ec & Ek & Ea & Ed & Eg).
    unfold ds_step. rewrite Ek, Eg, Ed.
    destruct (find (fun p => fst p =? d_keytag b) km) as [p|]; [|reflexivity].
    rewrite (filter_ext (usable_ds_candidate a) (usable_ds_candidate b)); [reflexivity|].
    intros k. unfold usable_ds_candidate, equal_fold. rewrite Ek, Ea, Ec, En. reflexivity.
  Qed.

  Definition fqdn_owners (dss : list ds) : Prop := forall d, In d dss -> is_fqdn (d_name d) = true.

  Lemma loop_over_unique_sorted km dss : fqdn_owners dss ->
    (ds_loop H km (unique_sorted_ds dss) 0 = None <->
     existsb (fun d => is_supported_ds d && ds_matches_some_key H km d) dss = true).
  Proof.
    intros F. rewrite ds_loop_none, existsb_exists. unfold unique_sorted_ds.
    pose (P := fun d => is_supported_ds d && (ds_step H km d =? DS_OK)).
    assert (E := exists_unique_sorted ds_same ds_less P dss ds_same_refl).
    assert (C : forall x y, In x dss -> In y dss -> ds_same x y = true -> P x = P y).
    { intros x y Hx Hy S. unfold P. rewrite (ds_same_supported x y S), (ds_same_step km x y S (F x Hx) (F y Hy)). reflexivity. }
    specialize (E C). unfold P in E.
    split.
    - intros (d & Hd & Sd & Od).
      destruct (proj1 E) as (x & Hx & Px). { exists d. rewrite Sd, Od. auto. }
      exists x. apply andb_prop in Px as (Sx & Ox). apply N.eqb_eq, ds_step_ok in Ox. rewrite Sx, Ox. auto.
    - intros (x & Hx & Px). apply andb_prop in Px as (Sx & Mx). apply ds_step_ok in Mx.
      destruct (proj2 E) as (d & Hd & Pd). { exists x. rewrite Sx, Mx. auto. }
      exists d. apply andb_prop in Pd as (Sd & Od). apply N.eqb_eq in Od. auto.
  Qed.
  Lemma supported_over_unique_sorted dss :
    existsb is_supported_ds (unique_sorted_ds dss) = existsb is_supported_ds dss.
  Proof.
    apply Bool.eq_iff_eq_true. rewrite !existsb_exists. unfold unique_sorted_ds.
    apply exists_unique_sorted; [apply ds_same_refl | intros x y _ _; apply ds_same_supported].
  Qed.

  (* de-duplication and ordering of the DS set and of the candidate keys only select the error *)
  Lemma verify_ds_code_verdict km dss : fqdn_owners dss ->
    (fst (verify_ds_code H km dss), snd (verify_ds_code H km dss) =? DS_OK) = verify_ds H km dss.
  Proof.
    intros F. unfold verify_ds_code, verify_ds.
    pose proof (loop_over_unique_sorted km dss F) as L.
    rewrite <- (supported_over_unique_sorted dss).
    assert (Nl : is_nil (unique_sorted_ds dss) = is_nil dss) by (apply unique_sorted_nil, ds_same_refl).
    destruct (ds_loop H km (unique_sorted_ds dss) 0) as [last|].
    - destruct (existsb (fun d => is_supported_ds d && ds_matches_some_key H km d) dss).
      + discriminate (proj2 L eq_refl).
      + rewrite Nl. destruct (is_nil dss); [reflexivity|].
        destruct (existsb is_supported_ds (unique_sorted_ds dss)); cbn [negb fst snd]; [|reflexivity].
        destruct (last =? 0) eqn:E0; [reflexivity|]. apply N.eqb_neq in E0.
        unfold DS_OK. destruct (N.eqb_spec last 0); [contradiction | reflexivity].
    - rewrite (proj1 L eq_refl). reflexivity.
  Qed.

  (* which error: nil on a match; "cannot convert" when the set holds DS records but none is supported;
     otherwise the verdict on one supported record of the set, ErrMissingKSK when there is none to report on *)
  Lemma verify_ds_code_values km dss :
    let r := verify_ds_code H km dss in
    (snd r = DS_OK /\ fst r = false) \/
    (snd r = DS_UNSUPPORTED /\ fst r = true /\ dss <> [] /\ forall d, In d dss -> is_supported_ds d = false) \/
    (snd r = DS_MISSING_KSK /\ fst r = false) \/
    (snd r = DS_MISMATCH /\ fst r = false /\ exists d, In d dss /\ is_supported_ds d = true /\ ds_step H km d = DS_MISMATCH).
  Proof.
    cbv zeta. unfold verify_ds_code. cbv zeta.
    destruct (ds_loop H km (unique_sorted_ds dss) 0) as [last|] eqn:L; [|left; auto].
    assert (Nl : is_nil (unique_sorted_ds dss) = is_nil dss) by (apply unique_sorted_nil, ds_same_refl).
    rewrite Nl, supported_over_unique_sorted.
    destruct dss as [|d0 dr] eqn:Ed; [right; right; left; auto|]. rewrite <- Ed in *. cbn [is_nil].
    assert (is_nil dss = false) as -> by (rewrite Ed; reflexivity).
    destruct (existsb is_supported_ds dss) eqn:Sx; cbn [negb fst snd].
    - destruct (last =? 0) eqn:E0; [right; right; left; auto|].
      apply ds_loop_some in L as [-> | (d & Hd & Sd & Od)]; [discriminate|].
      unfold unique_sorted_ds in Hd. apply sort_by_in, dedup_first_incl in Hd.
      assert (V : last = DS_OK \/ last = DS_MISSING_KSK \/ last = DS_MISMATCH).
      { rewrite <- Od. unfold ds_step. destruct (find _ km); [|auto].
        destruct (is_nil (unique_sorted_keys _)); [auto|]. destruct (hex_decode _) as [[|? ?]|]; auto. match goal with |- context [if ?b then DS_OK else _] => destruct b end; auto. }
      destruct V as [-> | [-> | ->]]; [discriminate | right; right; left; auto |].
      right; right; right. repeat split. exists d. auto.
    - right; left. repeat split; [rewrite Ed; discriminate|].
      intros d Hd. destruct (is_supported_ds d) eqn:Sd; [|reflexivity].
      assert (existsb is_supported_ds dss = true) by (apply existsb_exists; exists d; auto). congruence.
  Qed.

  (* ------------------------------------------------ the verdict, spelled out *)
  Definition ds_vouches (km : list (N * list dnskey)) (d : ds) (k : dnskey) : Prop :=
    is_supported_ds d = true /\
    exists bucket want, find (fun p => fst p =? d_keytag d) km = Some bucket /\ In k (snd bucket)
      /\ usable_ds_candidate d k = true
      /\ hex_decode (d_digest d) = Some want /\ want <> [] /\ ds_digest_matches H k (d_dt d) want = true.

  Lemma ds_matches_some_key_iff km d : is_supported_ds d = true ->
    (ds_matches_some_key H km d = true <-> exists k, ds_vouches km d k).
  Proof.
    intros Sd. unfold ds_matches_some_key, ds_vouches. split.
    - destruct (find _ km) as [p|]; [|discriminate].
      destruct (hex_decode (d_digest d)) as [[|w0 want]|]; try discriminate.
      intros Ex. apply existsb_exists in Ex as (k & Hk & Hm).
      destruct (usable_ds_candidate d k) eqn:Hu; [|discriminate].
      exists k. split; [assumption|]. exists p, (w0 :: want). repeat split; auto. discriminate.
    - intros (k & _ & p & want & -> & Hk & Hu & -> & Hw & Hm).
      destruct want; [contradiction|]. apply existsb_exists. exists k. rewrite Hu. auto.
  Qed.

  Lemma verify_ds_accepts_iff km dss :
    snd (verify_ds H km dss) = true <-> exists d k, In d dss /\ ds_vouches km d k.
  Proof.
    unfold verify_ds.
    destruct (existsb (fun d => is_supported_ds d && ds_matches_some_key H km d) dss) eqn:Ex.
    - split; [intros _|reflexivity]. apply existsb_exists in Ex as (d & Hd & Px). apply andb_prop in Px as (Sd & Md).
      apply (ds_matches_some_key_iff km d Sd) in Md as (k & V). exists d, k. auto.
    - assert (N : ~ exists d k, In d dss /\ ds_vouches km d k).
      { intros (d & k & Hd & V). assert (Sd := proj1 V).
        assert (existsb (fun d => is_supported_ds d && ds_matches_some_key H km d) dss = true); [|congruence].
        apply existsb_exists. exists d. split; [assumption|]. rewrite Sd. apply (ds_matches_some_key_iff km d Sd). exists k. exact V. }
      destruct (is_nil dss); [|destruct (negb (existsb is_supported_ds dss))]; cbn [snd]; split; try discriminate; intros X; contradiction.
  Qed.
  Lemma verify_ds_unsupported_only_iff km dss :
    fst (verify_ds H km dss) = true <-> dss <> [] /\ forall d, In d dss -> is_supported_ds d = false.
  Proof.
    unfold verify_ds.
    destruct (existsb (fun d => is_supported_ds d && ds_matches_some_key H km d) dss) eqn:Ex.
    - split; [discriminate|]. intros (_ & A). apply existsb_exists in Ex as (d & Hd & Px).
      apply andb_prop in Px as (Sd & _). rewrite (A d Hd) in Sd. discriminate.
    - destruct dss as [|d0 dr]; cbn [is_nil fst]; [split; [discriminate | intros (N & _); contradiction]|].
      destruct (existsb is_supported_ds (d0 :: dr)) eqn:Sx; cbn [negb fst].
      + split; [discriminate|]. intros (_ & A). apply existsb_exists in Sx as (d & Hd & Sd). rewrite (A d Hd) in Sd. discriminate.
      + split; [|reflexivity]. intros _. split; [discriminate|]. intros d Hd.
        destruct (is_supported_ds d) eqn:Sd; [|reflexivity].
        assert (existsb is_supported_ds (d0 :: dr) = true) by (apply existsb_exists; exists d; auto). congruence.
  Qed.

  (* dsDigestMatches: the RFC 4034 5.1.4 digest of owner | DNSKEY RDATA, one of the three hashes,
     material that decodes, is not empty and not above the ceiling *)
  Lemma ds_digest_matches_iff k dt want :
    ds_digest_matches H k dt want = true <->
    exists hid material owner,
      ds_digest_hash dt = Some hid /\ want <> [] /\ hash_size hid = len want
      /\ oversized (k_pub k) = false /\ b64_decode (k_pub k) = (material, true)
      /\ material <> [] /\ len material <= max_ds_key_material
      /\ pack_name (canonical_name (k_name k)) (N.min (len (canonical_name (k_name k)) + 1) ds_owner_buffer) = Some owner
      /\ owner <> []
      /\ H hid (owner ++ be16 (k_flags k) ++ [k_proto k; k_alg k] ++ material) = want.
  Proof.
    unfold ds_digest_matches. cbv zeta. split.
    - destruct want as [|w0 wr]; cbn [is_nil]; [discriminate|].
      destruct (ds_digest_hash dt) as [hid|]; [|discriminate].
      destruct (hash_size hid =? len (w0 :: wr)) eqn:Hs; cbn [negb]; [|discriminate].
      destruct (oversized (k_pub k)) eqn:Ov; [discriminate|].
      destruct (b64_decode (k_pub k)) as [material ok] eqn:Eb. cbn [fst snd].
      destruct ok; cbn [negb orb]; [|discriminate].
      destruct material as [|m0 mr]; cbn [is_nil orb]; [discriminate|].
      destruct (max_ds_key_material <? len (m0 :: mr)) eqn:Mx; [discriminate|].
      destruct (pack_name _ _) as [[|o0 orest]|] eqn:Pk; try discriminate.
      intros E. apply list_eqb_eq in E. exists hid, (m0 :: mr), (o0 :: orest).
      apply N.eqb_eq in Hs. apply N.ltb_ge in Mx. repeat split; try assumption; discriminate.
    - intros (hid & material & owner & -> & Hw & Hs & -> & -> & Hm & Mx & -> & Ho & E).
      destruct want; [contradiction|]. cbn [is_nil fst snd negb orb].
      apply N.eqb_eq in Hs. rewrite Hs. cbn [negb].
      destruct material; [contradiction|]. cbn [is_nil orb].
      apply N.ltb_ge in Mx. rewrite Mx. destruct owner; [contradiction|]. apply list_eqb_eq. exact E.
  Qed.

  (* ---------------------------------------------------------- DSMatchedKeys *)
  Lemma unique_sorted_keys_incl l k : In k (unique_sorted_keys l) -> In k l.
  Proof.
    unfold unique_sorted_keys. destruct l as [|a [|b r]]; try tauto.
    intros Hk. apply sort_by_in in Hk. eapply dedup_first_incl, Hk.
  Qed.
  Lemma ds_matched_keys_sound km dss tag ks k : fqdn_owners dss ->
    In (tag, ks) (ds_matched_keys H km dss) -> In k ks ->
    (exists bucket, In (tag, bucket) km /\ In k bucket) /\
    exists d, In d dss /\ d_keytag d = tag /\ ds_vouches [(tag, [k])] d k.
  Proof.
    intros F Hin Hk. unfold ds_matched_keys in Hin. apply in_flat_map in Hin as (p & Hp & Hin).
    destruct (filter _ _) as [|f0 fr] eqn:Ef; cbn [is_nil] in Hin; [destruct Hin|].
    destruct Hin as [E|[]]. injection E as <- <-. rewrite <- Ef in Hk. apply filter_In in Hk as (Hk & Ok).
    apply unique_sorted_keys_incl in Hk. split; [exists (snd p); split; [destruct p; assumption | assumption]|].
    apply N.eqb_eq in Ok.
    pose proof (verify_ds_code_verdict [(fst p, [k])] dss F) as V. rewrite Ok in V. cbn [N.eqb DS_OK] in V.
    assert (A : snd (verify_ds H [(fst p, [k])] dss) = true) by (rewrite <- V; reflexivity).
    apply verify_ds_accepts_iff in A as (d & k' & Hd & V').
    assert (V'' := V'). destruct V'' as (_ & b & want & Hf & Hk' & _).
    cbn [find fst] in Hf. destruct (fst p =? d_keytag d) eqn:Et; [|discriminate]. injection Hf as <-.
    cbn [snd] in Hk'. destruct Hk' as [<-|[]]. apply N.eqb_eq in Et.
    exists d. repeat split; [assumption | symmetry; assumption | exact (proj1 V') |]. exact (proj2 V').
  Qed.
End DS.
