(* C14 — the binding preflight is never more permissive than the library's;
   the algorithm tables are consistent; ECDSA / Ed25519 acceptance implies the
   exact key and signature lengths; RSA acceptance is the big-integer
   equation under the documented key limits. *)
From Sdns Require Import Common.Base Gen.C14 C14.Model C14.Proofs_rsa C14.Proofs_b64 C14.Proofs_keytag.
Open Scope N_scope.

(* ------------------------------------------------------------ tables *)
Definition tables_ok (a : N) : bool :=
  Bool.eqb (is_supported_dnskey_alg a) (verify_signature_supported a)
  && Bool.eqb (verify_signature_supported a)
              (in_names a dispatch_rsa_alg_names || in_names a dispatch_ecdsa_alg_names || in_names a dispatch_ed25519_alg_names)
  && Bool.eqb (in_names a dispatch_rsa_alg_names) (match rsa_hash a with Some _ => true | None => false end)
  && Bool.eqb (in_names a dispatch_ecdsa_alg_names) (match ecdsa_parameters a with Some _ => true | None => false end)
  && Bool.eqb (is_supported_ds_digest a) (match ds_digest_hash a with Some _ => true | None => false end)
  (* the documented sets *)
  && Bool.eqb (is_supported_dnskey_alg a) (existsb (N.eqb a) [5; 7; 8; 10; 13; 14; 15])
  && Bool.eqb (is_supported_ds_digest a) (existsb (N.eqb a) [1; 2; 4])
  && negb (in_names a dispatch_rsa_alg_names && in_names a dispatch_ecdsa_alg_names)
  && negb (in_names a dispatch_ed25519_alg_names && (in_names a dispatch_rsa_alg_names || in_names a dispatch_ecdsa_alg_names)).

Lemma tables_agree a : a < 256 -> tables_ok a = true.
Proof.
  intros H. assert (F : forallb tables_ok alg_range = true) by (vm_compute; reflexivity).
  rewrite forallb_forall in F. apply F. apply alg_range_spec. exact H.
Qed.

(* every algorithm the validator admits is verified by this package: the
   library's RRSIG.Verify is never reached from verifyOneSig *)
Theorem supported_algorithms_are_implemented a :
  a < 256 -> is_supported_dnskey_alg a = verify_signature_supported a.
Proof.
  intros H. pose proof (tables_agree a H) as T. unfold tables_ok in T.
  repeat (apply andb_prop in T as (T & _)). apply eqb_prop. exact T.
Qed.
Theorem supported_algorithms_documented a :
  a < 256 -> (is_supported_dnskey_alg a = true <-> In a [5; 7; 8; 10; 13; 14; 15]).
Proof.
  intros H. pose proof (tables_agree a H) as T. unfold tables_ok in T.
  do 3 (apply andb_prop in T as (T & _)). apply andb_prop in T as (_ & T). apply eqb_prop in T. rewrite T.
  rewrite existsb_exists. split.
  - intros (x & Hx & E). apply N.eqb_eq in E. subst. exact Hx.
  - intros Hx. exists a. split; [exact Hx | apply N.eqb_refl].
Qed.
Theorem supported_digests_documented a :
  a < 256 -> (is_supported_ds_digest a = true <-> In a [1; 2; 4]) /\
             (is_supported_ds_digest a = true <-> ds_digest_hash a <> None).
Proof.
  intros H. pose proof (tables_agree a H) as T. unfold tables_ok in T.
  do 2 (apply andb_prop in T as (T & _)). apply andb_prop in T as (T & T2). apply eqb_prop in T2.
  do 1 (apply andb_prop in T as (T & _)). apply andb_prop in T as (_ & T1). apply eqb_prop in T1.
  split.
  - rewrite T2, existsb_exists. split.
    + intros (x & Hx & E). apply N.eqb_eq in E. subst. exact Hx.
    + intros Hx. exists a. split; [exact Hx | apply N.eqb_refl].
  - rewrite T1. destruct (ds_digest_hash a); split; congruence.
Qed.

(* ------------------------------------------------------------- names *)
Lemma lower_idem c : lower (lower c) = lower c.
Proof.
  unfold lower. destruct ((65 <=? c) && (c <=? 90)) eqn:E; [|rewrite E; reflexivity].
  apply andb_prop in E as (A & B). apply N.leb_le in A, B.
  replace ((65 <=? c + 32) && (c + 32 <=? 90)) with false; [reflexivity|].
  symmetry. apply andb_false_iff. right. apply N.leb_gt. lia.
Qed.
Lemma lower_special c x : (x = 46 \/ x = 92) -> (lower c =? x) = (c =? x).
Proof.
  intros Hx. unfold lower. destruct ((65 <=? c) && (c <=? 90)) eqn:E; [|reflexivity].
  apply andb_prop in E as (A & B). apply N.leb_le in A, B.
  destruct Hx as [-> | ->]; (transitivity false; [apply N.eqb_neq; lia | symmetry; apply N.eqb_neq; lia]).
Qed.
Lemma map_lower_idem s : map lower (map lower s) = map lower s.
Proof. rewrite map_map. apply map_ext. apply lower_idem. Qed.

Lemma esc_scan_lower s : forall e, esc_scan (map lower s) e = map (fun p => (lower (fst p), snd p)) (esc_scan s e).
Proof.
  induction s as [|c s IH]; intros e; cbn [map esc_scan]; [reflexivity|].
  unfold BSL. rewrite (lower_special c 92) by auto. rewrite IH. reflexivity.
Qed.
Lemma is_sep_lower p : is_sep (lower (fst p), snd p) = is_sep p.
Proof. unfold is_sep, DOT. cbn [fst snd]. rewrite (lower_special (fst p) 46) by auto. reflexivity. Qed.

Lemma is_fqdn_lower s : is_fqdn (map lower s) = is_fqdn s.
Proof.
  unfold is_fqdn. rewrite esc_scan_lower, <- map_rev.
  destruct (rev (esc_scan s false)) as [|p r]; cbn [map]; [reflexivity|]. apply is_sep_lower.
Qed.

Lemma equal_fold_eq a b : equal_fold a b = true <-> map lower a = map lower b.
Proof. unfold equal_fold. apply list_eqb_eq. Qed.

Lemma equal_fold_fqdn a b : equal_fold a b = true -> is_fqdn a = is_fqdn b.
Proof. intros H. apply equal_fold_eq in H. rewrite <- (is_fqdn_lower a), <- (is_fqdn_lower b), H. reflexivity. Qed.

Lemma is_fqdn_last s : is_fqdn s = true -> exists p, s = p ++ [DOT].
Proof.
  unfold is_fqdn. intros H.
  destruct (rev (esc_scan s false)) as [|q r] eqn:E; [discriminate|].
  unfold is_sep in H. apply andb_prop in H as (H & _). apply N.eqb_eq in H.
  (* the scan keeps the octets in place *)
  assert (M : forall t e, map fst (esc_scan t e) = t).
  { induction t as [|c t IH]; intros e; cbn [esc_scan map fst]; [reflexivity|]. rewrite IH. reflexivity. }
  assert (R : esc_scan s false = rev r ++ [q]) by (rewrite <- (rev_involutive (esc_scan s false)), E; reflexivity).
  exists (map fst (rev r)). rewrite <- (M s false), R, map_app. cbn [map]. rewrite H. reflexivity.
Qed.

Lemma canonical_name_last s : exists p, canonical_name s = p ++ [DOT].
Proof.
  unfold canonical_name, fqdn. destruct (is_fqdn s) eqn:E.
  - destruct (is_fqdn_last s E) as (p & ->). exists (map lower p). rewrite map_app. reflexivity.
  - exists (map lower s). rewrite map_app. reflexivity.
Qed.

Lemma has_suffix_refl s : has_suffix s s = true.
Proof. unfold has_suffix. rewrite Nat.leb_refl, Nat.sub_diag. cbn [skipn andb]. apply list_eqb_refl. Qed.

(* label-boundary containment implies the textual suffix the library tests *)
Lemma name_in_zone_suffix name zone :
  (exists p, name = p ++ [DOT]) -> name_in_zone name zone = true -> has_suffix name zone = true.
Proof.
  intros (p & Hp). unfold name_in_zone.
  destruct (list_eqb zone [DOT] || is_nil zone) eqn:Z.
  - intros _. apply orb_prop in Z as [Z|Z].
    + apply list_eqb_eq in Z. subst zone name. unfold has_suffix.
      rewrite app_length. cbn [length]. replace (length p + 1 - 1)%nat with (length p) by lia.
      rewrite skipn_app, skipn_all, Nat.sub_diag. cbn [skipn app].
      replace (1 <=? length p + 1)%nat with true by (symmetry; apply Nat.leb_le; lia). reflexivity.
    + destruct zone; [|discriminate]. unfold has_suffix. cbn [length]. rewrite Nat.sub_0_r, skipn_all. reflexivity.
  - destruct (list_eqb name zone) eqn:E; [intros _; apply list_eqb_eq in E; subst zone; apply has_suffix_refl|].
    destruct (len name <=? len zone) eqn:L; [discriminate|]. apply N.leb_gt in L.
    destruct (negb (nth (N.to_nat (len name - len zone - 1)) name 0 =? DOT)
              || negb (list_eqb (skipn (N.to_nat (len name - len zone)) name) zone)) eqn:C; [discriminate|].
    intros _. apply orb_false_elim in C as (_ & C). apply negb_false_iff in C.
    unfold has_suffix. unfold len in *.
    replace (length zone <=? length name)%nat with true by (symmetry; apply Nat.leb_le; lia).
    replace (length name - length zone)%nat with (N.to_nat (N.of_nat (length name) - N.of_nat (length zone))) by lia.
    exact C.
Qed.

(* ------------------------------------------------------------ binding *)
(* Hypotheses on the names are those every name out of the library's unpacker
   satisfies: the key owner is fully qualified and the owner of the RRset has
   fewer than 256 labels.  Without them the statement is false (see the
   examples below): the library appends the root to the signer before comparing
   it with the key owner, and truncates the label count to eight bits. *)
Theorem binding_not_more_permissive k s rrset :
  k_flags k < 65536 -> k_proto k < 256 -> k_alg k < 256 -> k_alg k <> 1 ->
  is_fqdn (k_name k) = true ->
  (forall h0 t, rrset = h0 :: t -> count_label (r_name h0) < 256) ->
  signature_binding k s rrset = E_OK -> lib_preflight k s rrset = Some true.
Proof.
  intros Hf Hp Ha H1 Hfq Hcnt. unfold signature_binding, lib_preflight.
  destruct (is_rrset rrset); cbn [negb]; [|discriminate].
  destruct (negb (k_proto k =? binding_protocol) || (N.land (k_flags k) ZONE_FLAG =? 0)) eqn:C1; [discriminate|].
  apply orb_false_elim in C1 as (P3 & Zf). apply negb_false_iff in P3.
  destruct (negb (s_keytag s =? key_tag k) || negb (s_alg s =? k_alg k) || negb (s_class s =? k_class k)) eqn:C2; [discriminate|].
  apply orb_false_elim in C2 as (C2 & Cl). apply orb_false_elim in C2 as (Kt & Al).
  apply negb_false_iff in Kt, Al, Cl.
  destruct (negb (equal_fold (s_signer s) (k_name k))) eqn:C3; [discriminate|]. apply negb_false_iff in C3.
  unfold key_tag in Kt.
  rewrite <- (keytag_eq_lib _ _ _ (k_pub k) Hf Hp Ha H1).
  rewrite Kt, Cl, Al. cbn [negb].
  assert (Fs : is_fqdn (s_signer s) = true) by (rewrite (equal_fold_fqdn _ _ C3); exact Hfq).
  assert (Cs : canonical_name (s_signer s) = map lower (s_signer s)) by (unfold canonical_name, fqdn; rewrite Fs; reflexivity).
  replace (equal_fold (canonical_name (s_signer s)) (k_name k)) with true.
  2:{ symmetry. rewrite Cs. apply equal_fold_eq. rewrite map_lower_idem. apply equal_fold_eq. exact C3. }
  cbn [negb]. change binding_protocol with 3 in P3. rewrite P3, Zf. cbn [negb].
  destruct rrset as [|h0 t]; [discriminate|].
  destruct (negb (r_class h0 =? s_class s) || negb (r_type h0 =? s_covered s)
            || (count_label (r_name h0) <? s_labels s)
            || negb (equal_fold (r_name h0) (s_name s))
            || negb (name_in_zone (canonical_name (r_name h0)) (canonical_name (s_signer s)))) eqn:C4; [discriminate|].
  intros _. f_equal.
  apply orb_false_elim in C4 as (C4 & Nz). apply orb_false_elim in C4 as (C4 & Eo).
  apply orb_false_elim in C4 as (C4 & Lb). apply orb_false_elim in C4 as (Cc & Ct).
  rewrite Cc, Ct, Eo. cbn [orb].
  rewrite (N.mod_small _ 256) by (eapply Hcnt; reflexivity). rewrite Lb. cbn [orb].
  apply negb_false_iff in Nz.
  rewrite (name_in_zone_suffix _ _ (canonical_name_last _) Nz). reflexivity.
Qed.

(* both hypotheses are needed *)
Example binding_needs_fqdn_key_owner :
  let k := mk_key [97] 1 256 3 15 [] in
  let s := mk_sig [97; 46] 1 1 15 1 0 0 0 (key_tag k) [97] [] in
  let rrset := [mk_rr [97; 46] 1 1 0 [65] []] in
  signature_binding k s rrset = E_OK /\ lib_preflight k s rrset = Some false.
Proof. vm_compute. split; reflexivity. Qed.

(* ------------------------------------------------- elliptic algorithms *)
Section Shapes.
  Variable H : N -> list N -> list N.
  Variable ECP : N -> list N -> bool.
  Variable ECV : N -> list N -> list N -> list N -> bool.
  Variable EDV : list N -> list N -> list N -> bool.

  Theorem ecdsa_accept_exact_lengths k alg signed sg :
    verify_ecdsa_signature H ECP ECV k alg signed sg = E_OK ->
    exists cbits hid pub, ecdsa_parameters alg = Some (cbits, hid) /\ b64_decode (k_pub k) = (pub, true) /\
      len pub = 2 * ((cbits + 7) / 8) /\ len sg = 2 * ((cbits + 7) / 8) /\
      ECP cbits pub = true /\ ECV cbits pub (H hid signed) sg = true.
  Proof.
    unfold verify_ecdsa_signature. destruct (ecdsa_parameters alg) as [[cbits hid]|]; [|discriminate].
    destruct (b64_decode (k_pub k)) as [pub ok] eqn:D. cbn [fst snd].
    destruct ok; cbn [negb]; [|discriminate].
    destruct (len pub =? 2 * ((cbits + 7) / 8)) eqn:L1; cbn [negb]; [|discriminate].
    destruct (len sg =? 2 * ((cbits + 7) / 8)) eqn:L2; cbn [negb]; [|discriminate].
    destruct (ECP cbits pub) eqn:P; cbn [negb]; [|discriminate].
    destruct (ECV cbits pub (H hid signed) sg) eqn:V; [|discriminate].
    intros _. apply N.eqb_eq in L1, L2. exists cbits, hid, pub. auto 10.
  Qed.
  Corollary ecdsa_sizes alg cbits hid : ecdsa_parameters alg = Some (cbits, hid) ->
    (alg = 13 /\ 2 * ((cbits + 7) / 8) = 64) \/ (alg = 14 /\ 2 * ((cbits + 7) / 8) = 96).
  Proof.
    unfold ecdsa_parameters, in_names, ecdsa_p256_algs, ecdsa_p384_algs. cbn [existsb].
    change (dns_const [69; 67; 68; 83; 65; 80; 50; 53; 54; 83; 72; 65; 50; 53; 54]) with 13.
    change (dns_const [69; 67; 68; 83; 65; 80; 51; 56; 52; 83; 72; 65; 51; 56; 52]) with 14.
    rewrite !orb_false_r.
    destruct (13 =? alg) eqn:A; [apply N.eqb_eq in A; intros E; injection E as <- <-; left; split; [auto|reflexivity]|].
    destruct (14 =? alg) eqn:B; [apply N.eqb_eq in B; intros E; injection E as <- <-; right; split; [auto|reflexivity]|].
    discriminate.
  Qed.

  Theorem ed25519_accept_exact_lengths k signed sg :
    verify_ed25519_signature EDV k signed sg = E_OK ->
    exists pub, b64_decode (k_pub k) = (pub, true) /\ len pub = 32 /\ len sg = 64 /\ EDV pub signed sg = true.
  Proof.
    unfold verify_ed25519_signature. destruct (b64_decode (k_pub k)) as [pub ok] eqn:D. cbn [fst snd].
    destruct ok; cbn [negb orb]; [|discriminate].
    destruct (len pub =? 32) eqn:L1; cbn [negb]; [|discriminate].
    destruct (len sg =? 64) eqn:L2; cbn [negb]; [|discriminate].
    destruct (EDV pub signed sg) eqn:V; [|discriminate].
    intros _. apply N.eqb_eq in L1, L2. exists pub. auto.
  Qed.

End Shapes.

(* ------------------------------------------------------------------ RSA *)
Section RSAValid.
  Variable H : N -> list N -> list N.
  (* the hash oracle returns octet strings of the hash's size *)
  Hypothesis H_bytes : forall hid m, bytes_ok (H hid m).
  Hypothesis H_size : forall hid m, len (H hid m) = hash_size hid.

  Lemma usable_nonzero n e : usable_rsa n e = true -> n <> 0.
  Proof. intros U -> . apply usable_rsa_spec in U. destruct U as ((U & _) & _). cbn in U. lia. Qed.

  Lemma stdlib_prefix_bytes h : bytes_ok (stdlib_prefix h).
  Proof.
    unfold stdlib_prefix. destruct (h =? HSHA1); [|destruct (h =? HSHA256); [|destruct (h =? HSHA512)]];
      repeat constructor; lia.
  Qed.

  (* Accepted exactly when the key parses (RFC 3110, no leading zeros), lies
     within the documented limits, and the signature is mathematically valid:
     right length, a residue, and sig^e mod n equal to the EMSA-PKCS1-v1_5
     encoding of the digest.  For an exponent of at most 31 bits the standard
     library additionally insists on an odd modulus. *)
  Theorem rsa_accept_iff_valid k alg signed sg :
    alg < 256 ->
    verify_rsa_signature H k alg signed sg = E_OK <->
    exists n e hid prefix,
      parse_rsa (k_pub k) = Some (n, e) /\ usable_rsa n e = true /\ rsa_hash alg = Some (hid, prefix) /\
      prefix = stdlib_prefix hid /\
      (bits e <= 31 -> N.odd n = true) /\
      let size := (bits n + 7) / 8 in
      len sg = size /\ os2ip sg < n /\ len prefix + hash_size hid + 11 <= size /\
      (os2ip sg ^ e) mod n = os2ip (emsa size prefix (H hid signed)).
  Proof.
    intros Ha. unfold verify_rsa_signature, verify_rsa_signature_pm. change (rsa_verify_with powmod) with rsa_verify.
    pose proof (rsa_tables_agree alg Ha) as T. unfold rsa_tables_ok in T.
    destruct (parse_rsa (k_pub k)) as [[n e]|].
    2:{ split; [discriminate | intros (? & ? & ? & ? & X & _); discriminate]. }
    destruct (usable_rsa n e) eqn:U; cbn [negb].
    2:{ split; [discriminate | intros (? & ? & ? & ? & X & U' & _); injection X as <- <-; congruence]. }
    pose proof (usable_nonzero n e U) as Hn.
    destruct (rsa_hash alg) as [[hid prefix]|] eqn:RH.
    2:{ split; [discriminate | intros (? & ? & ? & ? & _ & _ & X & _); discriminate]. }
    destruct (rsa_crypto_hash alg) as [ch|] eqn:RC; [|discriminate].
    apply andb_prop in T as (T1 & T2). apply N.eqb_eq in T1. apply list_eqb_eq in T2. subst ch.
    assert (Bp : bytes_ok prefix) by (rewrite T2; apply stdlib_prefix_bytes).
    pose proof (rsa_verify_spec n e prefix (H hid signed) sg Hn Bp (H_bytes hid signed)) as S. cbn zeta in S.
    rewrite H_size in S.
    change stdlib_exponent_bits with 31.
    destruct (bits e <=? 31) eqn:Nar.
    - apply N.leb_le in Nar. unfold stdlib_rsa_verify_with. change (rsa_verify_with powmod) with rsa_verify. rewrite H_size, N.eqb_refl, andb_true_r, <- T2.
      destruct (N.odd n) eqn:O.
      + destruct (rsa_verify n e prefix (H hid signed) sg) eqn:V.
        * split; [intros _|reflexivity]. exists n, e, hid, prefix. pose proof (proj1 S eq_refl). tauto.
        * split; [discriminate|]. intros (n' & e' & hid' & p' & X & _ & Y & _ & _ & Z).
          injection X as <- <-. injection Y as <- <-. pose proof (proj2 S Z). discriminate.
      + split; [discriminate|]. intros (n' & e' & ? & ? & X & _ & _ & _ & Od & _).
        injection X as <- <-. specialize (Od Nar). congruence.
    - apply N.leb_gt in Nar.
      destruct (rsa_verify n e prefix (H hid signed) sg) eqn:V.
      + split; [intros _|reflexivity]. exists n, e, hid, prefix. pose proof (proj1 S eq_refl).
        repeat split; try tauto. intros; lia.
      + split; [discriminate|]. intros (n' & e' & hid' & p' & X & _ & Y & _ & _ & Z).
        injection X as <- <-. injection Y as <- <-. pose proof (proj2 S Z). discriminate.
  Qed.

End RSAValid.

Section Sound.
  Variable H : N -> list N -> list N.
  Variable ECP : N -> list N -> bool.
  Variable ECV : N -> list N -> list N -> list N -> bool.
  Variable EDV : list N -> list N -> list N -> bool.

  (* the whole verifier: acceptance passes the library's preflight, and is the
     verdict of exactly one algorithm family on the canonical signed data *)
  Theorem verify_signature_sound k s rrset :
    k_flags k < 65536 -> k_proto k < 256 -> k_alg k < 256 ->
    is_fqdn (k_name k) = true ->
    (forall h0 t, rrset = h0 :: t -> count_label (r_name h0) < 256) ->
    verify_signature H ECP ECV EDV k s rrset = E_OK ->
    lib_preflight k s rrset = Some true /\
    exists signed sg, signed_data s rrset = inr signed /\ b64_decode (s_signature s) = (sg, true) /\
      (verify_rsa_signature H k (s_alg s) signed sg = E_OK
       \/ verify_ecdsa_signature H ECP ECV k (s_alg s) signed sg = E_OK
       \/ verify_ed25519_signature EDV k signed sg = E_OK).
  Proof.
    intros Hf Hp Ha Hfq Hcnt. unfold verify_signature, verify_signature_pm.
    destruct (signature_binding k s rrset =? E_OK) eqn:B; cbn [negb].
    2:{ intros E. rewrite E in B. discriminate. }
    apply N.eqb_eq in B.
    destruct (signed_data s rrset) as [e|signed] eqn:SD.
    1:{ intros E. exfalso. subst e. unfold signed_data in SD.
        destruct (pack_name _ _); [|discriminate]. unfold canonical_rrset in SD.
        destruct (all_some _) as [[|w0 ws]|]; try discriminate.
        destruct (wire_rdata_offset w0); [|discriminate]. destruct (existsb _ _); discriminate. }
    destruct (b64_decode (s_signature s)) as [sg ok] eqn:D. cbn [fst snd].
    destruct ok; cbn [negb]; [|discriminate].
    (* binding fixes the key's algorithm to the signature's *)
    assert (Alg : s_alg s = k_alg k).
    { unfold signature_binding in B. destruct (is_rrset rrset); [|discriminate]. cbn [negb] in B.
      destruct (negb (k_proto k =? binding_protocol) || (N.land (k_flags k) ZONE_FLAG =? 0)); [discriminate|].
      destruct (negb (s_keytag s =? key_tag k) || negb (s_alg s =? k_alg k) || negb (s_class s =? k_class k)) eqn:C2; [discriminate|].
      apply orb_false_elim in C2 as (C2 & _). apply orb_false_elim in C2 as (_ & Al).
      apply negb_false_iff in Al. apply N.eqb_eq. exact Al. }
    assert (Hsa : s_alg s < 256) by (rewrite Alg; exact Ha).
    pose proof (tables_agree (s_alg s) Hsa) as T. unfold tables_ok in T.
    intros V.
    assert (N1 : k_alg k <> 1).
    { intros E1. rewrite <- Alg in E1. rewrite E1 in V. vm_compute in V. discriminate. }
    split; [apply binding_not_more_permissive; assumption|].
    exists signed, sg. repeat split.
    destruct (in_names (s_alg s) dispatch_rsa_alg_names); [left; exact V|].
    destruct (in_names (s_alg s) dispatch_ecdsa_alg_names); [right; left; exact V|].
    destruct (in_names (s_alg s) dispatch_ed25519_alg_names); [right; right; exact V|discriminate].
  Qed.
End Sound.
