(* C14 — RSA: modular exponentiation, big-endian encodings, RFC 3110
   round-trip, key bounds, PKCS#1 v1.5 verification as an equation over N. *)
From Sdns Require Import Common.Base Gen.C14 C14.Model.
Open Scope N_scope.

(* ------------------------------------------------------------ list_eqb *)
Lemma list_eqb_eq a b : list_eqb a b = true <-> a = b.
Proof.
  revert b. induction a as [|x a IH]; destruct b as [|y b]; cbn; try (split; congruence).
  rewrite andb_true_iff, N.eqb_eq, IH. split; [intros [-> ->]; reflexivity | intros H; inversion H; auto].
Qed.
Lemma list_eqb_refl a : list_eqb a a = true.
Proof. apply list_eqb_eq. reflexivity. Qed.

(* --------------------------------------------------------------- powmod *)
Lemma powmod_pos_correct c p n : n <> 0 -> powmod_pos c p n = (c ^ Npos p) mod n.
Proof.
  intros Hn. induction p as [p IH|p IH|]; cbn [powmod_pos].
  - rewrite IH.
    replace (N.pos p~1) with (N.pos p + N.pos p + 1) by lia.
    rewrite !N.pow_add_r, N.pow_1_r.
    rewrite (N.mul_mod (c ^ N.pos p * c ^ N.pos p) c n) by exact Hn.
    rewrite (N.mul_mod (c ^ N.pos p) (c ^ N.pos p) n) by exact Hn.
    rewrite (N.mul_mod (((c ^ N.pos p) mod n * ((c ^ N.pos p) mod n)) mod n) c n) by exact Hn.
    rewrite N.mod_mod by exact Hn. reflexivity.
  - rewrite IH.
    replace (N.pos p~0) with (N.pos p + N.pos p) by lia.
    rewrite N.pow_add_r.
    rewrite (N.mul_mod (c ^ N.pos p) (c ^ N.pos p) n) by exact Hn. reflexivity.
  - rewrite N.pow_1_r. reflexivity.
Qed.

Lemma powmod_correct c e n : n <> 0 -> powmod c e n = (c ^ e) mod n.
Proof.
  intros Hn. destruct e as [|p]; cbn [powmod].
  - rewrite N.pow_0_r. reflexivity.
  - apply powmod_pos_correct. exact Hn.
Qed.

(* ------------------------------------------------------- os2ip / i2osp *)
Definition bytes_ok (l : list N) : Prop := Forall (fun b => b < 256) l.

Lemma os2ip_acc l : forall acc, fold_left (fun a b => a * 256 + b) l acc = acc * 256 ^ N.of_nat (length l) + os2ip l.
Proof.
  unfold os2ip. induction l as [|x l IH]; intros acc; cbn [fold_left length].
  - cbn. lia.
  - rewrite IH. rewrite (IH (0 * 256 + x)).
    rewrite Nat2N.inj_succ, N.pow_succ_r'. lia.
Qed.
Lemma os2ip_cons x l : os2ip (x :: l) = x * 256 ^ N.of_nat (length l) + os2ip l.
Proof. unfold os2ip at 1. cbn [fold_left]. rewrite os2ip_acc. lia. Qed.
Lemma os2ip_app a b : os2ip (a ++ b) = os2ip a * 256 ^ N.of_nat (length b) + os2ip b.
Proof. unfold os2ip at 1. rewrite fold_left_app. rewrite os2ip_acc. reflexivity. Qed.

Lemma os2ip_lt l : bytes_ok l -> os2ip l < 256 ^ N.of_nat (length l).
Proof.
  induction 1 as [|x l Hx Hl IH].
  - cbn. lia.
  - rewrite os2ip_cons. cbn [length]. rewrite Nat2N.inj_succ, N.pow_succ_r'. nia.
Qed.

Lemma os2ip_inj a b : bytes_ok a -> bytes_ok b -> length a = length b -> os2ip a = os2ip b -> a = b.
Proof.
  intros Ha. revert b. induction Ha as [|x a Hx Ha IH]; intros b Hb Hl He; destruct b as [|y b]; try discriminate; [reflexivity|].
  inversion Hb as [|? ? Hy Hb']; subst.
  cbn [length] in Hl. injection Hl as Hl.
  rewrite !os2ip_cons in He. rewrite <- Hl in He.
  pose proof (os2ip_lt a Ha) as La. pose proof (os2ip_lt b Hb') as Lb. rewrite <- Hl in Lb.
  assert (x = y) by nia. subst y.
  f_equal. apply IH; auto. lia.
Qed.

Lemma i2osp_nat_length w : forall x acc, length (i2osp_nat w x acc) = (w + length acc)%nat.
Proof. induction w as [|w IH]; intros x acc; cbn [i2osp_nat]; [reflexivity|]. rewrite IH. cbn [length]. lia. Qed.
Lemma i2osp_length w x : length (i2osp w x) = N.to_nat w.
Proof. unfold i2osp. rewrite i2osp_nat_length. cbn. lia. Qed.

Lemma i2osp_nat_bytes w : forall x acc, bytes_ok acc -> bytes_ok (i2osp_nat w x acc).
Proof.
  induction w as [|w IH]; intros x acc H; cbn [i2osp_nat]; [exact H|].
  apply IH. constructor; [apply N.mod_lt; discriminate | exact H].
Qed.
Lemma i2osp_bytes w x : bytes_ok (i2osp w x).
Proof. apply i2osp_nat_bytes. constructor. Qed.

Lemma i2osp_nat_val w : forall x acc,
  os2ip (i2osp_nat w x acc) = (x mod 256 ^ N.of_nat w) * 256 ^ N.of_nat (length acc) + os2ip acc.
Proof.
  induction w as [|w IH]; intros x acc; cbn [i2osp_nat].
  - cbn [N.of_nat]. rewrite N.pow_0_r, N.mod_1_r. lia.
  - rewrite IH. cbn [length]. rewrite os2ip_cons.
    rewrite !Nat2N.inj_succ, !N.pow_succ_r'.
    set (P := 256 ^ N.of_nat w). set (Q := 256 ^ N.of_nat (length acc)).
    assert (HP : P <> 0) by (apply N.pow_nonzero; discriminate).
    assert (E : x mod (256 * P) = 256 * ((x / 256) mod P) + x mod 256).
    { rewrite N.mod_mul_r by (try discriminate; exact HP). lia. }
    rewrite E. lia.
Qed.
Lemma os2ip_i2osp w x : os2ip (i2osp w x) = x mod 256 ^ w.
Proof. unfold i2osp. rewrite i2osp_nat_val. cbn [length os2ip fold_left]. rewrite N2Nat.id. cbn. lia. Qed.

Lemma i2osp_os2ip l : bytes_ok l -> i2osp (len l) (os2ip l) = l.
Proof.
  intros H. apply os2ip_inj; [apply i2osp_bytes | exact H | |].
  - rewrite i2osp_length. unfold len. lia.
  - rewrite os2ip_i2osp. apply N.mod_small. unfold len. apply os2ip_lt. exact H.
Qed.

(* ------------------------------------------------------ bit lengths *)
Lemma bits_bound x : x < 2 ^ bits x.
Proof. unfold bits. apply N.size_gt. Qed.
Lemma pow256 k : 256 ^ k = 2 ^ (8 * k).
Proof. rewrite N.pow_mul_r. reflexivity. Qed.
Lemma octets_bound x : x < 256 ^ ((bits x + 7) / 8).
Proof.
  rewrite pow256. eapply N.lt_le_trans; [apply bits_bound|].
  apply N.pow_le_mono_r; [discriminate|]. lia.
Qed.

Lemma bits_pos x : x <> 0 -> 0 < bits x.
Proof. unfold bits. destruct x; [congruence|]. cbn. lia. Qed.
Lemma bits_low x : x <> 0 -> 2 ^ (bits x - 1) <= x.
Proof.
  intros H. unfold bits. rewrite N.size_log2 by exact H.
  replace (N.succ (N.log2 x) - 1) with (N.log2 x) by lia.
  apply N.log2_spec. lia.
Qed.

(* min_bytes: minimal big-endian form *)
Lemma min_bytes_val x : os2ip (min_bytes x) = x.
Proof. unfold min_bytes. rewrite os2ip_i2osp. apply N.mod_small. apply octets_bound. Qed.
Lemma min_bytes_bytes x : bytes_ok (min_bytes x).
Proof. apply i2osp_bytes. Qed.
Lemma min_bytes_len x : len (min_bytes x) = (bits x + 7) / 8.
Proof. unfold len, min_bytes. rewrite i2osp_length. lia. Qed.

(* the leading octet of the minimal form is not zero *)
Lemma min_bytes_head x : x <> 0 -> exists b t, min_bytes x = b :: t /\ b <> 0.
Proof.
  intros Hx.
  pose proof (min_bytes_val x) as Hv. pose proof (min_bytes_bytes x) as Hb. pose proof (min_bytes_len x) as Hl.
  destruct (min_bytes x) as [|b t] eqn:E.
  - cbn in Hv. congruence.
  - exists b, t. split; [reflexivity|]. intros ->.
    assert (Ht : bytes_ok t) by (eapply Forall_inv_tail; exact Hb).
    rewrite os2ip_cons in Hv. pose proof (os2ip_lt t Ht) as Lt.
    unfold len in Hl. cbn [length] in Hl. rewrite Nat2N.inj_succ in Hl.
    pose proof (bits_low x Hx) as Hlow. pose proof (bits_pos x Hx) as Hp.
    assert (256 ^ N.of_nat (length t) <= 2 ^ (bits x - 1)).
    { rewrite pow256. apply N.pow_le_mono_r; [discriminate|]. lia. }
    lia.
Qed.

(* ------------------------------------------------ RFC 3110 round trip *)
Lemma skipn_app_exact {A} (a b : list A) n : n = length a -> skipn n (a ++ b) = b.
Proof. intros ->. rewrite skipn_app, skipn_all, Nat.sub_diag. reflexivity. Qed.
Lemma firstn_app_exact {A} (a b : list A) n : n = length a -> firstn n (a ++ b) = a.
Proof. intros ->. rewrite firstn_app, firstn_all, Nat.sub_diag. cbn. apply app_nil_r. Qed.

Lemma be16_val x : x < 65536 -> exists h l, be16 x = [h; l] /\ h * 256 + l = x /\ h < 256 /\ l < 256.
Proof.
  intros Hx. unfold be16, i2osp. cbn [N.to_nat Pos.to_nat Pos.iter_op Nat.add i2osp_nat].
  exists ((x / 256) mod 256), (x mod 256). repeat split; try (apply N.mod_lt; discriminate).
  rewrite (N.mod_small (x / 256) 256) by (apply N.div_lt_upper_bound; lia).
  rewrite N.mul_comm. symmetry. apply N.div_mod'.
Qed.

(* the part of parseRSAPublicKey after the exponent length has been read *)
Definition parse_tail (kb : list N) (explen off : N) : option (N * N) :=
  let modoff := off + explen in
  if (explen =? 0) || (len kb <=? modoff) then None
  else if (nth (N.to_nat off) kb 0 =? 0) || (nth (N.to_nat modoff) kb 0 =? 0) then None
  else
    let e := os2ip (firstn (N.to_nat explen) (skipn (N.to_nat off) kb)) in
    let n := os2ip (skipn (N.to_nat modoff) kb) in
    if (n =? 0) || (e =? 0) then None else Some (n, e).
Lemma parse_one b0 t : b0 <> 0 -> parse_rsa_bytes (b0 :: t) = parse_tail (b0 :: t) b0 1.
Proof.
  intros H. unfold parse_rsa_bytes, parse_tail. apply N.eqb_neq in H. rewrite !H. reflexivity.
Qed.
Lemma parse_three b1 b2 t : parse_rsa_bytes (0 :: b1 :: b2 :: t) = parse_tail (0 :: b1 :: b2 :: t) (b1 * 256 + b2) 3.
Proof. reflexivity. Qed.

Lemma parse_tail_ok hdr eb nb eb0 ebt nb0 nbt :
  eb = eb0 :: ebt -> nb = nb0 :: nbt -> eb0 <> 0 -> nb0 <> 0 -> os2ip eb <> 0 -> os2ip nb <> 0 ->
  parse_tail (hdr ++ eb ++ nb) (len eb) (len hdr) = Some (os2ip nb, os2ip eb).
Proof.
  intros Ee En H0 H1 Ve Vn. unfold parse_tail.
  assert (L : len eb <> 0) by (rewrite Ee; unfold len; cbn; lia).
  apply N.eqb_neq in L. rewrite L. cbn [orb].
  replace (len (hdr ++ eb ++ nb) <=? len hdr + len eb) with false.
  2:{ symmetry. apply N.leb_gt. unfold len. rewrite !app_length. rewrite En. cbn [length]. lia. }
  replace (N.to_nat (len hdr)) with (length hdr) by (unfold len; lia).
  replace (N.to_nat (len hdr + len eb)) with (length hdr + length eb)%nat by (unfold len; lia).
  replace (N.to_nat (len eb)) with (length eb) by (unfold len; lia).
  rewrite app_nth2 by lia. rewrite Nat.sub_diag.
  replace (nth 0 (eb ++ nb) 0) with eb0 by (rewrite Ee; reflexivity).
  rewrite app_assoc. rewrite (app_nth2 (hdr ++ eb)) by (rewrite app_length; lia).
  rewrite app_length, Nat.sub_diag.
  replace (nth 0 nb 0) with nb0 by (rewrite En; reflexivity).
  apply N.eqb_neq in H0, H1. rewrite H0, H1. cbn [orb].
  rewrite <- app_length. rewrite (skipn_app_exact (hdr ++ eb) nb) by reflexivity.
  rewrite <- app_assoc. rewrite (skipn_app_exact hdr (eb ++ nb)) by reflexivity.
  rewrite firstn_app_exact by reflexivity.
  apply N.eqb_neq in Ve, Vn. rewrite Ve, Vn. reflexivity.
Qed.

Theorem parse_encode_rsa e n :
  e <> 0 -> n <> 0 -> len (min_bytes e) < 65536 ->
  parse_rsa_bytes (encode_rsa e n) = Some (n, e).
Proof.
  intros He Hn Hlen.
  destruct (min_bytes_head e He) as (eb0 & ebt & Ee & Heb0).
  destruct (min_bytes_head n Hn) as (nb0 & nbt & En & Hnb0).
  pose proof (min_bytes_val e) as Ve. pose proof (min_bytes_val n) as Vn.
  unfold encode_rsa.
  assert (Lpos : len (min_bytes e) <> 0) by (rewrite Ee; unfold len; cbn; lia).
  assert (R : forall hdr, parse_tail (hdr ++ min_bytes e ++ min_bytes n) (len (min_bytes e)) (len hdr) = Some (n, e)).
  { intros hdr. rewrite (parse_tail_ok hdr _ _ _ _ _ _ Ee En Heb0 Hnb0) by (rewrite ?Ve, ?Vn; assumption).
    rewrite Ve, Vn. reflexivity. }
  destruct (len (min_bytes e) <? 256) eqn:Hshort.
  - cbn [app]. rewrite parse_one by exact Lpos. apply (R [len (min_bytes e)]).
  - destruct (be16_val _ Hlen) as (h & l & Ebe & Hhl & Hh & Hl).
    rewrite Ebe. cbn [app]. rewrite parse_three, Hhl. apply (R [0; h; l]).
Qed.

(* what parse_rsa_bytes rejects: the listed malformations *)
Lemma parse_rsa_rejects_empty : parse_rsa_bytes [] = None.
Proof. reflexivity. Qed.
Lemma parse_rsa_rejects_leading_zero_exponent n t :
  0 < n -> parse_rsa_bytes (n :: 0 :: t) = None.
Proof.
  intros H0. rewrite parse_one by lia. unfold parse_tail.
  destruct ((n =? 0) || (len (n :: 0 :: t) <=? 1 + n)); [reflexivity|].
  replace (N.to_nat 1) with 1%nat by reflexivity. cbn [nth N.eqb orb]. reflexivity.
Qed.
Lemma parse_rsa_rejects_leading_zero_modulus n eb t :
  0 < n -> len eb = n -> parse_rsa_bytes (n :: eb ++ 0 :: t) = None.
Proof.
  intros H0 L. rewrite parse_one by lia. unfold parse_tail.
  destruct ((n =? 0) || (len (n :: eb ++ 0 :: t) <=? 1 + n)); [reflexivity|].
  replace (N.to_nat (1 + n)) with (S (length eb)) by (unfold len in L; lia).
  cbn [nth]. rewrite app_nth2 by lia. rewrite Nat.sub_diag. cbn [nth N.eqb].
  rewrite orb_true_r. reflexivity.
Qed.
Lemma parse_rsa_rejects_zero_length t : parse_rsa_bytes (0 :: 0 :: 0 :: t) = None.
Proof. reflexivity. Qed.

(* -------------------------------------------------------- key bounds *)
Theorem usable_rsa_spec n e :
  usable_rsa n e = true <->
  1024 <= bits n <= 4096 /\ N.odd e = true /\ 3 <= e /\ e < n /\ bits e <= 64.
Proof.
  unfold usable_rsa, min_rsa_modulus_bits, max_rsa_modulus_bits, rsa_min_exponent, max_rsa_exponent_bits.
  destruct (bits n <? 1024) eqn:A; destruct (4096 <? bits n) eqn:B; cbn [orb];
    try (split; [discriminate | intros (H & _); apply N.ltb_lt in A || apply N.ltb_lt in B; lia]).
  apply N.ltb_ge in A. apply N.ltb_ge in B.
  destruct (N.odd e) eqn:O; cbn [negb orb].
  2:{ split; [discriminate | intros (_ & H & _); discriminate]. }
  destruct (e <? 3) eqn:C; cbn [orb].
  1:{ apply N.ltb_lt in C. split; [discriminate | intros (_ & _ & H & _); lia]. }
  destruct (n <=? e) eqn:D; cbn [orb].
  1:{ apply N.leb_le in D. split; [discriminate | intros (_ & _ & _ & H & _); lia]. }
  destruct (64 <? bits e) eqn:E.
  1:{ apply N.ltb_lt in E. split; [discriminate | intros (_ & _ & _ & _ & H); lia]. }
  apply N.ltb_ge in C, E. apply N.leb_gt in D. split; [intros _; repeat split; lia | reflexivity].
Qed.

(* ------------------------------------------- PKCS#1 v1.5 verification *)
Lemma emsa_length size prefix hashed :
  len prefix + len hashed + 3 <= size -> len (emsa size prefix hashed) = size.
Proof.
  intros H. unfold emsa, len in *. cbn [length]. rewrite !app_length, repeat_length. cbn [length]. lia.
Qed.
Lemma emsa_bytes size prefix hashed : bytes_ok prefix -> bytes_ok hashed -> bytes_ok (emsa size prefix hashed).
Proof.
  intros Hp Hh. unfold emsa. repeat constructor; try lia.
  apply Forall_app. split.
  - apply Forall_forall. intros x Hx. apply repeat_spec in Hx. subst. lia.
  - constructor; [lia|]. apply Forall_app. split; assumption.
Qed.

(* The "plain big-integer" statement of RSASSA-PKCS1-v1_5 verification
   (RFC 8017 8.2.2): the signature has the length of the modulus, is a
   residue, the encoded message fits, and sig^e mod n is that message. *)
Theorem rsa_verify_spec n e prefix hashed sig :
  n <> 0 -> bytes_ok prefix -> bytes_ok hashed ->
  let k := (bits n + 7) / 8 in
  rsa_verify n e prefix hashed sig = true <->
    len sig = k /\ os2ip sig < n /\ len prefix + len hashed + 11 <= k /\
    (os2ip sig ^ e) mod n = os2ip (emsa k prefix hashed).
Proof.
  intros Hn Hp Hh k. unfold rsa_verify, rsa_verify_with. fold k.
  destruct (len sig =? k) eqn:A; cbn [negb].
  2:{ apply N.eqb_neq in A. split; [discriminate | intros (H & _); congruence]. }
  apply N.eqb_eq in A.
  destruct (n <=? os2ip sig) eqn:B.
  1:{ apply N.leb_le in B. split; [discriminate | intros (_ & H & _); lia]. }
  apply N.leb_gt in B.
  rewrite powmod_correct by exact Hn.
  set (m := (os2ip sig ^ e) mod n).
  assert (Hm : m < n) by (apply N.mod_lt; exact Hn).
  assert (Hmk : m < 256 ^ k) by (eapply N.lt_trans; [exact Hm | apply octets_bound]).
  replace (k <? len (min_bytes m)) with false.
  2:{ symmetry. apply N.ltb_ge. rewrite min_bytes_len.
      apply N.div_le_mono; [discriminate|].
      assert (bits m <= bits n); [|lia].
      unfold bits. destruct (N.eq_dec m 0) as [->|Hm0]; [cbn; lia|].
      rewrite (N.size_log2 m) by exact Hm0. rewrite (N.size_log2 n) by exact Hn.
      apply -> N.succ_le_mono. apply N.log2_le_mono. lia. }
  unfold pkcs1_min_overhead.
  destruct (k <? len prefix + len hashed + 11) eqn:C.
  1:{ apply N.ltb_lt in C. split; [discriminate | intros (_ & _ & H & _); lia]. }
  apply N.ltb_ge in C.
  rewrite list_eqb_eq.
  assert (Le : len (emsa k prefix hashed) = k) by (apply emsa_length; lia).
  assert (Be : bytes_ok (emsa k prefix hashed)) by (apply emsa_bytes; assumption).
  split.
  - intros E. repeat split; try assumption.
    change (m = os2ip (emsa k prefix hashed)).
    rewrite <- E, os2ip_i2osp. symmetry. apply N.mod_small. exact Hmk.
  - intros (_ & _ & _ & E). change (m = os2ip (emsa k prefix hashed)) in E.
    pose proof (i2osp_os2ip _ Be) as R. rewrite Le in R. rewrite E. exact R.
Qed.

(* the prefixes in the source are the DigestInfo prefixes crypto/rsa uses, and
   the two algorithm->hash switches agree *)
Definition alg_range : list N := map N.of_nat (seq 0 256).
Lemma alg_range_spec a : a < 256 -> In a alg_range.
Proof.
  intros H. unfold alg_range. apply in_map_iff. exists (N.to_nat a). split; [lia|]. apply in_seq. lia.
Qed.
Definition rsa_tables_ok (a : N) : bool :=
  match rsa_hash a, rsa_crypto_hash a with
  | Some (h, p), Some h' => (h =? h') && list_eqb p (stdlib_prefix h)
  | None, None => true
  | _, _ => false
  end.
Lemma rsa_tables_agree a : a < 256 -> rsa_tables_ok a = true.
Proof.
  intros H. assert (F : forallb rsa_tables_ok alg_range = true) by (vm_compute; reflexivity).
  rewrite forallb_forall in F. apply F. apply alg_range_spec. exact H.
Qed.
