(* C14 — property theorems.  Only statements and `exact`; the proofs are in
   Proofs_*.v.  Model: C14/Model.v (from middleware/resolver/dnssec/*.go);
   constants and tables: Gen/C14.v (regenerated from /repo on every run). *)
From Coq Require Import Sorting.Sorted Sorting.Permutation.
From Sdns Require C02.Model C02.Proofs_Gen.
From Sdns Require Import Common.Base Common.GoList Gen.C14 C14.Model
  C14.Proofs_rsa C14.Proofs_b64 C14.Proofs_keytag C14.Proofs_rsamd5 C14.Proofs_canon C14.Proofs_verify C14.Proofs_offset C14.Proofs_walk C14.Proofs_loops C14.Proofs_c02 C14.Proofs_synth C14.Proofs_ds C14.Proofs_sig C14.Proofs_match.
Open Scope N_scope.

(* (1) Key tag.  For every DNSKEY of every algorithm but RSAMD5 and every key
   string whatsoever (well-formed, wrapped, padded in the middle, malformed,
   oversized), the streaming computation — 256-character chunks decoded to 192
   octets, a uint32 accumulator, the final fold, the library fall-back —
   returns exactly what dns.DNSKEY.KeyTag returns. *)
Theorem keytag_agrees_with_library : forall flags proto alg pk,
  flags < 65536 -> proto < 256 -> alg < 256 -> alg <> 1 ->
  Some (keytag flags proto alg pk) = keytag_lib flags proto alg pk.
Proof. exact keytag_eq_lib. Qed.
Print Assumptions keytag_agrees_with_library.

(* ... which is RFC 4034 Appendix B over the RDATA whenever the material decodes
   and fits (the no-overflow bound 4096 * 0xFF00 < 2^32 is discharged inside) *)
Theorem keytag_stream_is_rfc4034_appendix_b : forall flags proto alg pk d,
  flags < 65536 -> proto < 256 -> alg < 256 -> alg <> 1 ->
  b64_decode pk = (d, true) -> len d <= 4092 ->
  keytag flags proto alg pk = keytag_rfc (dnskey_rdata flags proto alg d).
Proof. exact keytag_stream_eq_rfc. Qed.
Print Assumptions keytag_stream_is_rfc4034_appendix_b.

(* ... and an oversized key is decided on its encoded length alone *)
Theorem oversized_is_material_count : forall pk,
  oversized pk = (key_material_limit <? len (strip_nl pk)).
Proof. exact oversized_spec. Qed.
Print Assumptions oversized_is_material_count.

(* (1b) RSAMD5: the tag derived chunk by chunk is the library's, and zero where the library panics *)
Theorem rsamd5_keytag_agrees_with_library : forall pk,
  rsamd5_keytag pk = match keytag_lib 0 0 1 pk with Some t => t | None => 0 end.
Proof. exact rsamd5_eq_lib. Qed.
Print Assumptions rsamd5_keytag_agrees_with_library.

(* (2) RSA.  RFC 3110 round trip; documented bounds; modular exponentiation;
   PKCS#1 v1.5 verification as the plain big-integer statement. *)
Theorem rsa_parse_roundtrip : forall e n,
  e <> 0 -> n <> 0 -> len (min_bytes e) < 65536 -> parse_rsa_bytes (encode_rsa e n) = Some (n, e).
Proof. exact parse_encode_rsa. Qed.
Print Assumptions rsa_parse_roundtrip.

Theorem rsa_key_bounds : forall n e,
  usable_rsa n e = true <-> 1024 <= bits n <= 4096 /\ N.odd e = true /\ 3 <= e /\ e < n /\ bits e <= 64.
Proof. exact usable_rsa_spec. Qed.
Print Assumptions rsa_key_bounds.

Theorem square_and_multiply_is_pow_mod : forall c e n, n <> 0 -> powmod c e n = (c ^ e) mod n.
Proof. exact powmod_correct. Qed.
Print Assumptions square_and_multiply_is_pow_mod.

Theorem rsa_verify_is_the_big_integer_equation : forall n e prefix hashed sig,
  n <> 0 -> bytes_ok prefix -> bytes_ok hashed ->
  let k := (bits n + 7) / 8 in
  rsa_verify n e prefix hashed sig = true <->
    len sig = k /\ os2ip sig < n /\ len prefix + len hashed + 11 <= k /\
    (os2ip sig ^ e) mod n = os2ip (emsa k prefix hashed).
Proof. exact rsa_verify_spec. Qed.
Print Assumptions rsa_verify_is_the_big_integer_equation.

(* an RSA signature is accepted exactly when the key is a well-formed RFC 3110
   key within the documented limits and the signature is mathematically valid *)
Theorem rsa_signature_accepted_iff_valid : forall (H : N -> list N -> list N),
  (forall hid m, bytes_ok (H hid m)) -> (forall hid m, len (H hid m) = hash_size hid) ->
  forall k alg signed sg, alg < 256 ->
    verify_rsa_signature H k alg signed sg = E_OK <->
    exists n e hid prefix,
      parse_rsa (k_pub k) = Some (n, e) /\ usable_rsa n e = true /\ rsa_hash alg = Some (hid, prefix) /\
      prefix = stdlib_prefix hid /\
      (bits e <= 31 -> N.odd n = true) /\
      let size := (bits n + 7) / 8 in
      len sg = size /\ os2ip sg < n /\ len prefix + hash_size hid + 11 <= size /\
      (os2ip sg ^ e) mod n = os2ip (emsa size prefix (H hid signed)).
Proof. exact rsa_accept_iff_valid. Qed.
Print Assumptions rsa_signature_accepted_iff_valid.

(* (3) Canonical RRset form: strictly ascending behind the RDATA offset (sorted,
   duplicate-free), the same records, independent of arrival order and of
   repetitions; layout of the signed data. *)
Theorem canonical_form_sorted_and_duplicate_free : forall off l,
  key_inj off l -> StronglySorted (wlt off) (canon off l).
Proof. exact canon_strictly_ascending. Qed.
Print Assumptions canonical_form_sorted_and_duplicate_free.

Theorem canonical_form_keeps_the_records : forall off l x, In x (canon off l) <-> In x l.
Proof. exact canon_members. Qed.
Print Assumptions canonical_form_keeps_the_records.

Theorem canonical_form_permutation_invariant : forall off l l',
  key_inj off l -> Permutation l l' -> canon off l = canon off l'.
Proof. exact canon_perm. Qed.
Print Assumptions canonical_form_permutation_invariant.

Theorem canonical_form_ignores_repetition : forall off l x,
  key_inj off l -> In x l -> canon off (x :: l) = canon off l.
Proof. exact canon_dup. Qed.
Print Assumptions canonical_form_ignores_repetition.

(* RFC 4034 6.3 for the model of canonicalRRset itself: the offset it sorts behind is
   where the RDATA begins, so an RRset comes out as its distinct canonical RDATA in
   strictly ascending octet order, each under the one canonical owner, type, class
   and the RRSIG's original TTL *)
Theorem canonical_rrset_is_sorted_by_rdata : forall r0 rest labels ottl w,
  is_rrset (r0 :: rest) = true ->
  canonical_rrset (r0 :: rest) labels ottl = inr w ->
  exists owner rds,
    pack_name (canon_owner (r_name r0) labels) big_buf = Some owner /\
    w = concat (map (mk_wire owner (fixed8 (r_type r0) (r_class r0) ottl)) rds) /\
    StronglySorted (fun a b => bytes_lt a b = true) rds /\
    (forall rd, In rd rds <-> exists r, In r (r0 :: rest) /\ canon_rdata r = Some rd).
Proof. exact canonical_rrset_sorted_by_rdata. Qed.
Print Assumptions canonical_rrset_is_sorted_by_rdata.

Theorem signed_data_is_prefix_signer_rrset : forall s rrset b,
  signed_data s rrset = inr b ->
  exists nm w, pack_name (canonical_name (s_signer s)) signer_name_buffer = Some nm /\
               canonical_rrset rrset (s_labels s) (s_origttl s) = inr w /\
               b = sig_rdata_prefix s ++ nm ++ w.
Proof. exact signed_data_layout. Qed.
Print Assumptions signed_data_is_prefix_signer_rrset.

(* (4) Binding preflight never more permissive than the library's *)
Theorem binding_never_more_permissive_than_library : forall k s rrset,
  k_flags k < 65536 -> k_proto k < 256 -> k_alg k < 256 -> k_alg k <> 1 ->
  is_fqdn (k_name k) = true ->
  (forall h0 t, rrset = h0 :: t -> count_label (r_name h0) < 256) ->
  signature_binding k s rrset = E_OK -> lib_preflight k s rrset = Some true.
Proof. exact binding_not_more_permissive. Qed.
Print Assumptions binding_never_more_permissive_than_library.

Theorem accepted_signature_passed_the_library_preflight :
  forall H ECP ECV EDV,
  forall k s rrset,
    k_flags k < 65536 -> k_proto k < 256 -> k_alg k < 256 ->
    is_fqdn (k_name k) = true ->
    (forall h0 t, rrset = h0 :: t -> count_label (r_name h0) < 256) ->
    verify_signature H ECP ECV EDV k s rrset = E_OK ->
    lib_preflight k s rrset = Some true /\
    exists signed sg, signed_data s rrset = inr signed /\ b64_decode (s_signature s) = (sg, true) /\
      (verify_rsa_signature H k (s_alg s) signed sg = E_OK
       \/ verify_ecdsa_signature H ECP ECV k (s_alg s) signed sg = E_OK
       \/ verify_ed25519_signature EDV k signed sg = E_OK).
Proof. exact verify_signature_sound. Qed.
Print Assumptions accepted_signature_passed_the_library_preflight.

(* (4b) The message walk of VerifyRRSIG.  The verdict is exactly: no answer record outside the
   signer zone, and every RRset that takes part (answer records, in-zone non-NS authority records;
   not RRSIGs, not CNAMEs synthesised by an in-zone DNAME) has a covering in-zone RRSIG that
   verifyOneSig accepts for the whole RRset ... *)
Theorem verify_rrsig_walk_is_per_rrset_verification :
  forall (ONE : list rr -> rrsig -> bool -> bool) signer answer ns,
  walk_verdict ONE signer answer ns = true <->
  (forall r, In r (walk_answer signer answer ns) -> walk_in_zone signer r = true) /\
  (forall r, In r (walk_records signer answer ns) ->
     exists s v, In (MS s v) (answer ++ ns) /\ sig_covers (walk_zone signer) s r = true /\
                 ONE (walk_group signer answer ns r) s v = true).
Proof. exact walk_verdict_iff. Qed.
Print Assumptions verify_rrsig_walk_is_per_rrset_verification.

(* ... so in an accepted message every such record sits in an RRset — all records of its name, type
   and class — over which a signature of the message, inside its validity period, verifies with this
   package's verifier under a key of the supplied set bound to that signature *)
Theorem accepted_message_every_rrset_is_verified : forall H ECP ECV EDV LIBV signer keys answer ns,
  verify_rrsig H ECP ECV EDV LIBV signer keys answer ns = true ->
  keys <> [] /\
  (forall r, In r (walk_answer signer answer ns) -> walk_in_zone signer r = true) /\
  (forall r, In r (walk_records signer answer ns) ->
     In r (walk_group signer answer ns r) /\
     exists s k tag cands,
       In (MS s true) (answer ++ ns) /\ sig_covers (walk_zone signer) s r = true /\
       In (tag, cands) keys /\ tag = s_keytag s /\ In k cands /\ usable_signature_candidate s k = true /\
       signature_matches_rrset s (walk_group signer answer ns r) = true /\
       verify_signature H ECP ECV EDV k s (walk_group signer answer ns r) = E_OK).
Proof. exact verified_message_every_rrset_is_signed. Qed.
Print Assumptions accepted_message_every_rrset_is_verified.

(* (4c) What the walk leaves alone.  A record of the authority section owned outside the signer zone
   (the zone cut's NS or DS denial an upstream appends to a positive answer, issue #506) takes no part,
   whatever it is; nor does an NS record there (a referral's NS set is unsigned by design) ... *)
Theorem authority_remnant_is_ignored : forall ONE signer answer ns x,
  walk_in_zone signer x = false ->
  walk_verdict ONE signer answer (ns ++ [MR x]) = walk_verdict ONE signer answer ns.
Proof. exact authority_remnant_ignored. Qed.
Print Assumptions authority_remnant_is_ignored.

Theorem authority_ns_record_is_ignored : forall ONE signer answer ns x,
  r_type x = TYPE_NS -> list_eqb (r_kind x) KIND_DNAME = false ->
  walk_verdict ONE signer answer (ns ++ [MR x]) = walk_verdict ONE signer answer ns.
Proof. exact authority_ns_ignored. Qed.
Print Assumptions authority_ns_record_is_ignored.

(* ... and the only records of the zone that may go unsigned are CNAMEs that are exactly the RFC 6672
   substitution under a DNAME owning a proper ancestor of the CNAME owner *)
Theorem synthesised_cname_is_the_dname_substitution : forall owner target dnames,
  is_synthesized_cname_spec owner target dnames = true <->
  exists d, In d dnames /\ 0 < count_label (fst d) /\ count_label (fst d) < count_label owner /\
    compare_suffix_spec (fst d) owner = count_label (fst d) /\
    equal_fold (fqdn (firstn (N.to_nat (prev_label owner (count_label (fst d)))) owner ++ snd d)) (fqdn target) = true.
Proof. exact synthesized_cname_iff. Qed.
Print Assumptions synthesised_cname_is_the_dname_substitution.

(* (5) ECDSA / Ed25519: acceptance implies the exact key and signature lengths *)
Theorem ecdsa_accept_implies_exact_lengths : forall H ECP ECV k alg signed sg,
  verify_ecdsa_signature H ECP ECV k alg signed sg = E_OK ->
  exists cbits hid pub, ecdsa_parameters alg = Some (cbits, hid) /\ b64_decode (k_pub k) = (pub, true) /\
    len pub = 2 * ((cbits + 7) / 8) /\ len sg = 2 * ((cbits + 7) / 8) /\
    ECP cbits pub = true /\ ECV cbits pub (H hid signed) sg = true.
Proof. exact ecdsa_accept_exact_lengths. Qed.
Print Assumptions ecdsa_accept_implies_exact_lengths.

Theorem ed25519_accept_implies_exact_lengths : forall EDV k signed sg,
  verify_ed25519_signature EDV k signed sg = E_OK ->
  exists pub, b64_decode (k_pub k) = (pub, true) /\ len pub = 32 /\ len sg = 64 /\ EDV pub signed sg = true.
Proof. exact ed25519_accept_exact_lengths. Qed.
Print Assumptions ed25519_accept_implies_exact_lengths.

(* algorithm and digest tables: what the validator admits is what this package
   implements, and both are the documented sets *)
Theorem admitted_algorithms_are_implemented : forall a,
  a < 256 -> is_supported_dnskey_alg a = verify_signature_supported a.
Proof. exact supported_algorithms_are_implemented. Qed.
Print Assumptions admitted_algorithms_are_implemented.

Theorem admitted_algorithms_are_the_documented_set : forall a,
  a < 256 -> (is_supported_dnskey_alg a = true <-> In a [5; 7; 8; 10; 13; 14; 15]).
Proof. exact supported_algorithms_documented. Qed.
Print Assumptions admitted_algorithms_are_the_documented_set.

Theorem admitted_digests_are_the_documented_set : forall a,
  a < 256 -> (is_supported_ds_digest a = true <-> In a [1; 2; 4]) /\
             (is_supported_ds_digest a = true <-> ds_digest_hash a <> None).
Proof. exact supported_digests_documented. Qed.
Print Assumptions admitted_digests_are_the_documented_set.

(* (6b) DS digest matching (session 4).  dsDigestMatches accepts a wanted digest exactly when it is the
   RFC 4034 5.1.4 digest — one of the three hashes the table admits, over owner name in canonical wire
   form | flags | protocol | algorithm | key material — of a key whose material decodes, is not empty
   and does not exceed the documented ceiling of 4092 octets (the owner packs into 255 octets). *)
Theorem ds_digest_is_the_rfc4034_digest_under_the_ceiling : forall (H : N -> list N -> list N) k dt want,
  ds_digest_matches H k dt want = true <->
  exists hid material owner,
    ds_digest_hash dt = Some hid /\ want <> [] /\ hash_size hid = len want
    /\ oversized (k_pub k) = false /\ b64_decode (k_pub k) = (material, true)
    /\ material <> [] /\ len material <= 4092
    /\ pack_name (canonical_name (k_name k)) (N.min (len (canonical_name (k_name k)) + 1) 255) = Some owner
    /\ owner <> []
    /\ H hid (owner ++ be16 (k_flags k) ++ [k_proto k; k_alg k] ++ material) = want.
Proof. exact ds_digest_matches_iff. Qed.
Print Assumptions ds_digest_is_the_rfc4034_digest_under_the_ceiling.

(* VerifyDS(keyMap, set) returns a nil error exactly when some DS of the set — of a supported digest
   type and algorithm — names a bucket of the key map holding a key that is a usable candidate for it
   (tag, algorithm, class, owner, protocol 3, ZONE flag, material under the ceiling) and whose digest
   the DS carries as a non-empty, well-formed hexadecimal string of any length.  For every key map,
   every DS set (digest types 0..255, digest fields of any length and spelling). *)
Theorem verify_ds_accepts_exactly_a_supported_ds_matching_a_usable_key : forall (H : N -> list N -> list N) km dss,
  snd (verify_ds H km dss) = true <->
  exists d k, In d dss /\ is_supported_ds d = true /\
    exists bucket want, find (fun p => fst p =? d_keytag d) km = Some bucket /\ In k (snd bucket)
      /\ usable_ds_candidate d k = true
      /\ hex_decode (d_digest d) = Some want /\ want <> [] /\ ds_digest_matches H k (d_dt d) want = true.
Proof. exact verify_ds_accepts_iff. Qed.
Print Assumptions verify_ds_accepts_exactly_a_supported_ds_matching_a_usable_key.

(* RFC 6840 5.2: "unsupported only" is reported exactly for a non-empty set without a single supported DS *)
Theorem verify_ds_unsupported_only_exactly_without_a_supported_ds : forall (H : N -> list N -> list N) km dss,
  fst (verify_ds H km dss) = true <-> dss <> [] /\ forall d, In d dss -> is_supported_ds d = false.
Proof. exact verify_ds_unsupported_only_iff. Qed.
Print Assumptions verify_ds_unsupported_only_exactly_without_a_supported_ds.

(* The walk as the code performs it — DS records de-duplicated by identity and visited in ascending
   order, candidate keys de-duplicated and sorted, the error of the last supported record kept — has
   the verdict above: repetition and order of the set and of the buckets only select WHICH error is
   reported.  For DS owners that are fully qualified (every name out of the wire decoder is);
   ds_order_needs_fqdn_owners in Proofs_examples.v shows the hypothesis is needed. *)
Theorem ds_set_order_and_repetition_only_select_the_error : forall (H : N -> list N -> list N) km dss,
  (forall d, In d dss -> is_fqdn (d_name d) = true) ->
  (fst (verify_ds_code H km dss), snd (verify_ds_code H km dss) =? 0) = verify_ds H km dss.
Proof. exact verify_ds_code_verdict. Qed.
Print Assumptions ds_set_order_and_repetition_only_select_the_error.

(* and the error is nil, or one of the three documented ones with its meaning: 3 (cannot convert) for a
   non-empty set without a supported DS, 2 (mismatch) only when some supported DS of the set found a
   usable candidate or an unreadable digest, 1 (missing KSK) otherwise *)
Theorem verify_ds_error_is_one_of_the_documented : forall (H : N -> list N -> list N) km dss,
  let r := verify_ds_code H km dss in
  (snd r = 0 /\ fst r = false) \/
  (snd r = 3 /\ fst r = true /\ dss <> [] /\ forall d, In d dss -> is_supported_ds d = false) \/
  (snd r = 1 /\ fst r = false) \/
  (snd r = 2 /\ fst r = false /\ exists d, In d dss /\ is_supported_ds d = true /\ ds_step H km d = 2).
Proof. exact verify_ds_code_values. Qed.
Print Assumptions verify_ds_error_is_one_of_the_documented.

(* DSMatchedKeys (what the resolver anchors a child's DNSKEY RRset on) returns only keys of the key map
   that some supported DS of the set, carrying the bucket's tag, vouches for by itself *)
Theorem ds_matched_keys_are_vouched_for : forall (H : N -> list N -> list N) km dss tag ks k,
  (forall d, In d dss -> is_fqdn (d_name d) = true) ->
  In (tag, ks) (ds_matched_keys H km dss) -> In k ks ->
  (exists bucket, In (tag, bucket) km /\ In k bucket) /\
  exists d, In d dss /\ d_keytag d = tag /\ is_supported_ds d = true /\
    exists bucket want, find (fun p => fst p =? d_keytag d) [(tag, [k])] = Some bucket /\ In k (snd bucket)
      /\ usable_ds_candidate d k = true
      /\ hex_decode (d_digest d) = Some want /\ want <> [] /\ ds_digest_matches H k (d_dt d) want = true.
Proof. exact ds_matched_keys_sound. Qed.
Print Assumptions ds_matched_keys_are_vouched_for.

(* (6c) The RRSIG side of verify.go in the order of the code (session 5).  verifyOneSig as coded — the tests in
   their order, the eligible candidate keys de-duplicated by identity, tried in ascending identity order, the error
   of the last one kept — returns nil exactly when the verdict model of (6) accepts: for every key map (buckets with
   repeated, mis-filed, same-tag keys in any order), every RRset, every signature: repetition and order of the
   candidate keys only select WHICH error is returned. *)
Theorem candidate_key_order_and_repetition_only_select_the_error :
  forall H ECP ECV EDV LIBV keys set s valid,
  (verify_one_sig_code H ECP ECV EDV LIBV keys set s valid =? 0) = verify_one_sig H ECP ECV EDV LIBV keys set s valid.
Proof. exact verify_one_sig_code_verdict. Qed.
Print Assumptions candidate_key_order_and_repetition_only_select_the_error.

(* and which error: one of nil / 1 ErrMissingSigned / 2 ErrMissingDNSKEY / 3 dns.ErrSig / 4 a packing error /
   5 ErrInvalidSignaturePeriod / 6 dns.ErrAlg, decided by the first test that fails in the order of the code:
   "no key" when the bucket of the signature's tag holds no key of the signer's name; then "validity period" for a
   signature outside its period (and only then); then "algorithm" for an algorithm outside the supported set (and only
   then); then "missing signed" when the signature does not fit the RRset; a bad-signature or packing error is what
   this package's verifier said about one usable candidate key of the bucket. *)
Theorem verify_one_sig_error_is_the_first_failing_test :
  forall H ECP ECV EDV LIBV keys set s valid,
  let c := verify_one_sig_code H ECP ECV EDV LIBV keys set s valid in
  let named := exists tag cands k, find (fun p => fst p =? s_keytag s) keys = Some (tag, cands) /\ In k cands
                 /\ equal_fold (s_signer s) (k_name k) = true in
  In c [0; 1; 2; 3; 4; 5; 6] /\
  (~ named -> c = 2) /\
  (named -> valid = false -> c = 5) /\
  (named -> valid = true -> is_supported_dnskey_alg (s_alg s) = false -> c = 6) /\
  (named -> valid = true -> is_supported_dnskey_alg (s_alg s) = true -> signature_matches_rrset s set = false -> c = 1) /\
  (c = 5 -> named /\ valid = false) /\
  (c = 6 -> named /\ valid = true /\ is_supported_dnskey_alg (s_alg s) = false) /\
  (c = 3 \/ c = 4 -> exists tag cands k, In (tag, cands) keys /\ tag = s_keytag s /\ In k cands /\
      usable_signature_candidate s k = true /\ verify_signature H ECP ECV EDV k s set = c).
Proof. exact verify_one_sig_code_values. Qed.
Print Assumptions verify_one_sig_error_is_the_first_failing_test.

(* VerifyRRSIG as coded — RRsets walked in ascending (owner, type, class) order, the signatures of an RRset
   de-duplicated by identity (uniqueSortedRRSIGs), tried in ascending identity order, the error of the last one
   kept, each through verifyOneSig as coded — returns (true, nil) exactly when the verdict model of the walk
   accepts: for every signer, key map and message, repetition and order of signatures, candidate keys and RRsets only
   select WHICH error is returned.  For signatures whose owner and signer are fully qualified (every name out of the
   wire decoder is; sig_order_needs_fqdn_signers in Proofs_examples.v shows the hypothesis is needed) and whose
   ValidityPeriod(now) bit is the same for two signatures of one identity (the identity holds inception and
   expiration). *)
Theorem signature_and_rrset_order_and_repetition_only_select_the_error :
  forall H ECP ECV EDV LIBV signer keys answer ns,
  (forall sv, In sv (walk_sigs answer ns) -> is_fqdn (s_name (fst sv)) = true /\ is_fqdn (s_signer (fst sv)) = true) /\
  (forall a b, In a (walk_sigs answer ns) -> In b (walk_sigs answer ns) -> sv_same a b = true -> snd a = snd b) ->
  (verify_rrsig_code H ECP ECV EDV LIBV signer keys answer ns =? 0) = verify_rrsig H ECP ECV EDV LIBV signer keys answer ns.
Proof. exact verify_rrsig_code_verdict. Qed.
Print Assumptions signature_and_rrset_order_and_repetition_only_select_the_error.

(* and which error VerifyRRSIG returns: "no key" for an empty key map; else nil, or "missing signed" for an answer
   record outside the signer zone, or "no signatures" for a message with records to validate and no RRSIG at all, or
   — for some RRset that takes part — "missing signed" when no in-zone RRSIG of the message covers it or its records
   spell the owner differently, else the error verifyOneSig gave for one covering signature of the message. *)
Theorem verify_rrsig_error_is_one_of_the_documented :
  forall H ECP ECV EDV LIBV signer keys answer ns,
  let c := verify_rrsig_code H ECP ECV EDV LIBV signer keys answer ns in
  (keys = [] /\ c = 2) \/
  (keys <> [] /\
   (c = 0 \/
    (c = 1 /\ exists r, In r (walk_answer signer answer ns) /\ walk_in_zone signer r = false) \/
    (c = 7 /\ walk_records signer answer ns <> [] /\ walk_sigs answer ns = []) \/
    (walk_sigs answer ns <> [] /\ exists r, In r (walk_records signer answer ns) /\
       ((c = 1 /\ ((forall sv, In sv (walk_sigs answer ns) -> sig_covers (walk_zone signer) (fst sv) r = false)
                    \/ is_rrset (walk_group signer answer ns r) = false)) \/
        exists sv, In sv (walk_sigs answer ns) /\ sig_covers (walk_zone signer) (fst sv) r = true /\
          verify_one_sig_code H ECP ECV EDV LIBV keys (walk_group signer answer ns r) (fst sv) (snd sv) = c /\ c <> 0)))).
Proof. exact verify_rrsig_code_values. Qed.
Print Assumptions verify_rrsig_error_is_one_of_the_documented.

(* (7) Source ties.  The loops and byte-level helpers of the Go code, as the translator reads them
   from /repo on every run (Gen/C14.v), compute what the model's functions compute: a change of the
   Go loop changes the generated Fixpoint, and these are re-checked against it.  Budgets (fuel) are
   stated: with more budget than the input is long the generated function has a result. *)
Open Scope Z_scope.

(* KeyTag: the octet sum over out[:decoded] is the model's per-chunk accumulation (even offsets shift) *)
Theorem keytag_octet_sum_loop_is_model : forall sum out decoded, 0 <= decoded <= go_len out ->
  go_KeyTag_loop2_run sum out decoded = (GoNext, (kt_acc sum true (go_slice_to out decoded), out, decoded)).
Proof. exact gen_keytag_octet_sum. Qed.
Print Assumptions keytag_octet_sum_loop_is_model.

(* rsamd5KeyTag: the window of the last three octets and the saturating count *)
Theorem rsamd5_tail_loop_is_model : forall out t0 t1 t2 seen decoded, 0 <= decoded <= go_len out -> 0 <= seen ->
  go_rsamd5KeyTag_loop2_run out [t0; t1; t2] seen decoded =
  (let t := fold_left tail3_push (go_slice_to out decoded) ([t0; t1; t2], Z.to_N seen) in
   (GoNext, (out, fst t, Z.of_N (snd t), decoded))).
Proof. exact gen_rsamd5_tail. Qed.
Print Assumptions rsamd5_tail_loop_is_model.

(* fillKeyTagChunk: how much material was copied and how much text was consumed *)
Theorem fill_key_tag_chunk_is_model : forall fuel dst encoded, (length encoded < fuel)%nat ->
  go_fillKeyTagChunk fuel dst encoded =
  (let fc := fill_chunk fuel encoded [] (length dst) in
   Some (Z.of_nat (length (fst fc)), go_len encoded - go_len (snd fc))).
Proof. exact gen_fill_key_tag_chunk. Qed.
Print Assumptions fill_key_tag_chunk_is_model.

(* oversizedKeyMaterial: the bounded walk returns true exactly where the model's does *)
Theorem oversized_walk_loop_is_model : forall pk,
  fst (go_oversizedKeyMaterial_loop1_run pk (Z.of_N key_material_limit) 0) =
  if oversized_walk pk 0 then GoRet true else GoNext.
Proof. exact gen_oversized_walk. Qed.
Print Assumptions oversized_walk_loop_is_model.

(* rsaVerifyPKCS1v15: after expected[1] = 1 the loop writes exactly size - tLen - 3 octets 0xFF from offset 2 *)
Theorem pkcs1_ff_run_loop_is_model : forall fuel (s t : nat), (t + 3 <= s)%nat -> (s < fuel)%nat ->
  go_rsaVerifyPKCS1v15_loop1_run fuel (Z.of_nat s) (Z.of_nat t) (0%N :: 1%N :: repeat 0%N (s - 2)) =
  (GoNext, (Z.of_nat s, Z.of_nat t, 0%N :: 1%N :: repeat 255%N (s - t - 3) ++ repeat 0%N (t + 1), Z.of_nat s - Z.of_nat t - 1)).
Proof. exact gen_pkcs1_ff_run. Qed.
Print Assumptions pkcs1_ff_run_loop_is_model.

(* wireRdataOffset: the label walk and the ten fixed octets *)
Theorem wire_rdata_offset_is_model : forall fuel w, (length w < fuel)%nat ->
  go_wireRdataOffset fuel w = Some (match wire_rdata_offset w with Some o => (Z.of_N o, true) | None => (0, false) end).
Proof. exact gen_wire_rdata_offset. Qed.
Print Assumptions wire_rdata_offset_is_model.

(* canonicalRRset: the loop that drops a wire equal to its predecessor *)
Theorem canonical_dedup_loop_is_model : forall wires buf,
  go_canonicalRRset_loop3_run wires buf = (GoNext, (wires, buf ++ concat (dedup_adjacent None wires))).
Proof. exact gen_canonical_dedup. Qed.
Print Assumptions canonical_dedup_loop_is_model.

(* internal/dnsutil.NameInZone with its escapedDot (backslashes counted backwards = escape state scanned forwards) *)
Theorem name_in_zone_is_model : forall fuel name zone, (length name < fuel)%nat ->
  go_NameInZone fuel name zone = Some (name_in_zone name zone).
Proof. exact gen_name_in_zone. Qed.
Print Assumptions name_in_zone_is_model.

(* signatureMatchesRRset AS THE CODE HAS IT (session 5): the function translated from verify.go over dns.RR as a sum type —
   with dns.IsRRset and dns.CountLabel translated from the module cache, dnsutil.NameInZone from the repository,
   dns.CanonicalName / dns.Fqdn / strings.ToLower / strings.EqualFold in their ASCII readings — is total within the stated
   budget and computes the model's signature_matches_rrset, for every signature and every list of records (of any
   dynamic type: a record enters through its header) whose first owner is an escape-free name.  On the way: dns.IsRRset as
   translated is the model's is_rrset for every list; the ASCII reading of dns.IsFqdn (a final dot behind an even number of
   backslashes) is the model's forward-scanning is_fqdn for every string; dns.CountLabel as translated is the model's
   count_label on escape-free names.  (Owners with escapes: the second theorem, with dns.CountLabel's result as a
   hypothesis — CaseName ties that to count_label on every run.) *)
Theorem translated_signature_matches_rrset_is_model : forall fuel s set,
  (forall h0 t, set = h0 :: t -> exists o, C02.Proofs_Gen.plain_name o /\ r_name h0 = C02.Proofs_Gen.present o /\
                                            (length (r_name h0) + 1 < fuel)%nat) ->
  go_signatureMatchesRRset fuel (sig_rec s) (map rr_iface set) = Some (signature_matches_rrset s set).
Proof. exact gen_signature_matches_rrset_plain. Qed.
Print Assumptions translated_signature_matches_rrset_is_model.

Theorem translated_signature_matches_rrset_is_model_given_count_label : forall fuel s set,
  (forall h0 t, set = h0 :: t -> (length (r_name h0) + 1 < fuel)%nat /\
                                 go_CountLabel fuel (r_name h0) = Some (Z.of_N (count_label (r_name h0)))) ->
  go_signatureMatchesRRset fuel (sig_rec s) (map rr_iface set) = Some (signature_matches_rrset s set).
Proof. exact gen_signature_matches_rrset. Qed.
Print Assumptions translated_signature_matches_rrset_is_model_given_count_label.

Theorem translated_is_rrset_is_model : forall set, go_IsRRset (map rr_iface set) = is_rrset set.
Proof. exact gen_is_rrset. Qed.
Print Assumptions translated_is_rrset_is_model.

Theorem ascii_is_fqdn_is_model : forall s, go_is_fqdn_ascii s = is_fqdn s.
Proof. exact is_fqdn_ascii_is_model. Qed.
Print Assumptions ascii_is_fqdn_is_model.

(* internal/dnsname.CompareSuffix: the model's compare_suffix IS the translated Go function (with dns.CountLabel,
   dns.NextLabel and equalFold translated from the module cache) run with a budget it cannot exhaust; C02's
   translation of the same source is the same term, so C02's theorem applies: on the presentation strings of
   escape-free names it counts the labels the two names share from the root, case-insensitively.  (For names
   with escapes the tie is CaseSuffix: code = translation = hand specification on every generated pair.) *)
Theorem compare_suffix_counts_shared_labels : forall a b,
  C02.Proofs_Gen.plain_name a -> C02.Proofs_Gen.plain_name b ->
  compare_suffix (C02.Proofs_Gen.present a) (C02.Proofs_Gen.present b) =
  N.of_nat (C02.Model.lcp (C02.Model.canon a) (C02.Model.canon b)).
Proof. exact compare_suffix_plain_names. Qed.
Print Assumptions compare_suffix_counts_shared_labels.

(* isSynthesizedCNAME AS THE CODE HAS IT: the translated function (with dns.CountLabel, dnsname.CompareSuffix and
   dns.PrevLabel translated from their sources, dns.Fqdn / strings.EqualFold in their ASCII readings) terminates within
   the stated budget on escape-free names and returns exactly "some DNAME of the list passes synth_one" ... *)
Theorem translated_is_synthesized_cname_is_total_and_exact : forall fuel o t ds,
  C02.Proofs_Gen.plain_name o ->
  Forall (fun d => C02.Proofs_Gen.plain_name (fst d) /\
                   (length (C02.Proofs_Gen.present (fst d)) + length (C02.Proofs_Gen.present o) < fuel)%nat) ds ->
  (length (C02.Proofs_Gen.present o) < fuel)%nat ->
  go_isSynthesizedCNAME fuel (cname_rec (C02.Proofs_Gen.present o) t) (map dn_rec ds) = Some (existsb (synth_one o t) ds).
Proof. exact (fun fuel o t ds Ho => gen_is_synthesized_cname fuel o t Ho ds). Qed.
Print Assumptions translated_is_synthesized_cname_is_total_and_exact.

(* ... so the model's is_synthesized_cname — that translation, which the walk model runs — accepts exactly the RFC 6672 3.3
   substitution: some DNAME owner is a PROPER ancestor of the CNAME owner (all its labels shared from the root, fewer labels),
   and the owner's labels above it followed by the DNAME target spell the CNAME target (both rooted, ASCII case-insensitive).
   Escape-free names; names with escapes are tied by CaseSynth (code = translation = hand specification). *)
Theorem synthesised_cname_translation_is_the_dname_substitution : forall o t ds,
  C02.Proofs_Gen.plain_name o -> Forall (fun d => C02.Proofs_Gen.plain_name (fst d)) ds ->
  (is_synthesized_cname (C02.Proofs_Gen.present o) t (map present_d ds) = true <->
   exists d, In d ds /\ (0 < length (fst d) < length o)%nat /\
     C02.Model.lcp (C02.Model.canon (fst d)) (C02.Model.canon o) = length (fst d) /\
     go_equal_fold_ascii (go_fqdn_ascii (C02.Proofs_Gen.pres (firstn (length o - length (fst d)) o) ++ snd d)) (go_fqdn_ascii t) = true).
Proof. exact model_synthesized_cname_plain_iff. Qed.
Print Assumptions synthesised_cname_translation_is_the_dname_substitution.
