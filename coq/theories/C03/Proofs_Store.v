(* C03 — every lookup route returns only entries admitted for the same
   question and an audience containing the client: for EVERY key type, EVERY
   key comparison, EVERY hash function and EVERY store content.  Nothing is
   assumed about how an entry got under its key, so forged keys and real
   64-bit collisions are covered alike. *)
From Sdns Require Import Common.Base Gen.C03 C03.Model C03.Proofs_Key.
Open Scope N_scope.

(* ------------------------------------------------------------------ *)
(* the specification *)

(* the entry was admitted for this question: same name under the ASCII fold
   (nothing broader), same type, class and CD partition *)
Definition same_question (e : entry) (name : bytes) (qtype qclass : N) (cd : bool) : Prop :=
  fold (q_name (e_q e)) = fold name /\ q_name (e_q e) <> [] /\
  q_type (e_q e) = qtype /\ q_class (e_q e) = qclass /\ e_cd e = cd.

(* the entry's audience contains the client: shared, or a scope that is a
   prefix of the client's own source prefix *)
Definition audience_ok (e : entry) (client : option scope) : Prop :=
  match e_scope e with
  | None => True
  | Some sc =>
      exists c, client = Some c /\ sc_bits sc <= sc_bits c /\ sc_bits sc <> 0 /\
                scope_contains sc (sc_is4 c) (sc_addr c) = true
  end.

(* ------------------------------------------------------------------ *)
(* small facts *)

Lemma scope_eqb_eq a b : scope_eqb a b = true -> a = b.
Proof.
  unfold scope_eqb. intros Hs. apply andb_prop in Hs. destruct Hs as [Hs H3]. apply andb_prop in Hs. destruct Hs as [H1 H2].
  apply Bool.eqb_prop in H1. apply N.eqb_eq in H2. apply bytes_eqb_eq in H3.
  destruct a, b. cbn in *. subst. reflexivity.
Qed.
Lemma oscope_eqb_eq a b : oscope_eqb a b = true -> a = b.
Proof.
  destruct a, b; cbn; intros Hs; try discriminate; [|reflexivity]. f_equal. apply scope_eqb_eq. exact Hs.
Qed.
Lemma scope_eqb_refl a : scope_eqb a a = true.
Proof. unfold scope_eqb. rewrite Bool.eqb_reflx, N.eqb_refl, bytes_eqb_refl. reflexivity. Qed.
Lemma oscope_eqb_refl a : oscope_eqb a a = true.
Proof. destruct a; cbn; [apply scope_eqb_refl|reflexivity]. Qed.

Lemma mask_bytes_idem l : forall bits, mask_bytes bits (mask_bytes bits l) = mask_bytes bits l.
Proof.
  induction l as [|b r IH]; intros bits; [reflexivity|]. cbn [mask_bytes].
  destruct (8 <=? bits) eqn:E; cbn [mask_bytes]; rewrite E, IH; [reflexivity|]. f_equal.
  assert (Hp : 2 ^ (8 - bits) <> 0) by (apply N.pow_nonzero; discriminate).
  assert (Hm : (b - b mod 2 ^ (8 - bits)) mod 2 ^ (8 - bits) = 0).
  { pose proof (N.div_mod b (2 ^ (8 - bits)) Hp) as Hd.
    remember (2 ^ (8 - bits)) as m eqn:Em. remember (b / m) as qq eqn:Eq. remember (b mod m) as rr eqn:Er.
    assert (Heq : b - rr = qq * m) by (rewrite Hd; lia).
    rewrite Heq. apply N.mod_mul. exact Hp. }
  rewrite Hm. lia.
Qed.

Lemma first_some_spec {A B} (f : A -> option B) l y :
  first_some f l = Some y -> exists x, In x l /\ f x = Some y.
Proof.
  induction l as [|x r IH]; cbn; [discriminate|].
  destruct (f x) as [y'|] eqn:E.
  - intros Hy. inversion Hy; subst. exists x. split; [left; reflexivity|exact E].
  - intros Hy. destruct (IH Hy) as [x' [Hin Hx]]. exists x'. split; [right; exact Hin|exact Hx].
Qed.

(* strings.EqualFold (on the modelled domain) is never narrower than the A–Z fold: names equal under
   the key's fold are EqualFold *)
Lemma fold_byte_high c x y : 122 < c -> fold_byte x = fold_byte y -> (x =? c) = (y =? c).
Proof.
  intros Hc He. unfold fold_byte in He.
  destruct ((65 <=? x) && (x <=? 90)) eqn:Ex; destruct ((65 <=? y) && (y <=? 90)) eqn:Ey;
    try (apply andb_prop in Ex; destruct Ex as [Ex1 Ex2]; apply N.leb_le in Ex1, Ex2);
    try (apply andb_prop in Ey; destruct Ey as [Ey1 Ey2]; apply N.leb_le in Ey1, Ey2).
  - assert (x = y) by lia. subst. reflexivity.
  - destruct (x =? c) eqn:E1; destruct (y =? c) eqn:E2; try reflexivity;
      try (apply N.eqb_eq in E1); try (apply N.eqb_eq in E2); lia.
  - destruct (x =? c) eqn:E1; destruct (y =? c) eqn:E2; try reflexivity;
      try (apply N.eqb_eq in E1); try (apply N.eqb_eq in E2); lia.
  - subst. reflexivity.
Qed.

Lemma fold_norm_congr n : forall a b, (length a <= n)%nat -> fold a = fold b -> fold (fold_norm a) = fold (fold_norm b).
Proof.
  induction n as [|n IH]; intros a b Hl He.
  - destruct a; [|cbn in Hl; lia]. destruct b; [reflexivity|discriminate].
  - destruct a as [|x r], b as [|x' r']; try discriminate; [reflexivity|].
    cbn [fold map] in He. injection He as Hx Hr. cbn [length] in Hl.
    destruct r as [|y r2], r' as [|y' r2']; try discriminate.
    + cbn. rewrite Hx. reflexivity.
    + cbn [map] in Hr. injection Hr as Hy Hr2.
      cbn [fold_norm].
      rewrite (fold_byte_high 197 x x'), (fold_byte_high 191 y y') by (assumption || lia).
      destruct ((x' =? 197) && (y' =? 191)).
      * cbn [fold map]. f_equal. apply IH; [cbn [length] in Hl; lia|exact Hr2].
      * destruct r2 as [|z r3], r2' as [|z' r3']; try discriminate.
        -- cbn [fold_norm fold map]. rewrite Hx, Hy. reflexivity.
        -- cbn [map] in Hr2. injection Hr2 as Hz Hr3.
           rewrite (fold_byte_high 226 x x'), (fold_byte_high 132 y y'), (fold_byte_high 170 z z') by (assumption || lia).
           destruct ((x' =? 226) && (y' =? 132) && (z' =? 170)).
           ++ cbn [fold map]. f_equal. apply IH; [cbn [length] in Hl; lia|exact Hr3].
           ++ cbn [fold map]. f_equal; [exact Hx|].
              apply (IH (y :: z :: r3) (y' :: z' :: r3')); [cbn [length] in *; lia|].
              cbn [fold map]. rewrite Hy, Hz. f_equal. f_equal. exact Hr3.
Qed.

Lemma fold_eq_equal_fold a b : fold a = fold b -> bytes_eqb (fold (fold_norm a)) (fold (fold_norm b)) = true.
Proof. intros He. apply bytes_eqb_eq. apply (fold_norm_congr (length a)); [lia|exact He]. Qed.

(* what the verifiers establish *)
Lemma entry_matches_preimage_spec e qt qc cd p :
  entry_matches_preimage e qt qc cd p = true ->
  q_name (e_q e) <> [] /\ q_type (e_q e) = qt /\ q_class (e_q e) = qc /\ e_cd e = cd /\ e_scope e = normalize_scope p.
Proof.
  unfold entry_matches_preimage. destruct (q_name (e_q e)) eqn:En; [discriminate|].
  intros Hm. apply andb_prop in Hm. destruct Hm as [Hm H4]. apply andb_prop in Hm. destruct Hm as [Hm H3].
  apply andb_prop in Hm. destruct Hm as [H1 H2].
  apply N.eqb_eq in H1, H2. apply Bool.eqb_prop in H3. apply oscope_eqb_eq in H4.
  repeat split; try assumption. discriminate.
Qed.

Lemma entry_matches_key_spec e q cd p :
  entry_matches_key e q cd p = true ->
  same_question e (q_name q) (q_type q) (q_class q) cd /\ e_scope e = normalize_scope p.
Proof.
  unfold entry_matches_key. intros Hm. apply andb_prop in Hm. destruct Hm as [Hp Hn].
  apply entry_matches_preimage_spec in Hp. apply equal_name_ascii_fold_spec in Hn.
  unfold same_question. tauto.
Qed.

(* the wire verifier: the request's wire name is a well-formed name whose
   printed form equals the entry's name under the fold *)
Definition wire_same_question (e : entry) (w : bytes) (qtype qclass : N) (cd : bool) : Prop :=
  (exists ls, name_wf ls = true /\ w = encode ls /\ same_question e (present ls) qtype qclass cd) /\
  e_scope e = None.

Lemma entry_matches_wire_question_spec e w qt qc cd :
  Forall (fun b => b < 256) w ->
  entry_matches_wire_question e w qt qc cd = true -> wire_same_question e w qt qc cd.
Proof.
  intros Hb. unfold entry_matches_wire_question. intros Hm. apply andb_prop in Hm. destruct Hm as [Hp Hn].
  apply entry_matches_preimage_spec in Hp. apply (wire_equals_pres_spec_lemma w _ Hb) in Hn.
  destruct Hn as [ls [Hw [He Hf]]]. unfold wire_same_question, same_question. split; [|tauto].
  exists ls. repeat split; try tauto. symmetry. exact Hf.
Qed.

Section Routes.
  Variable K : Type.
  Variable K_eqb : K -> K -> bool.
  Variable H : bytes -> K.

  Notation store := (store K).
  Notation lookup_by_key := (lookup_by_key K K_eqb).
  Notation serve_msg_exact := (serve_msg_exact K K_eqb H).
  Notation serve_wire_exact := (serve_wire_exact K K_eqb H).
  Notation store_lookup := (store_lookup K K_eqb H).
  Notation scoped_probe := (scoped_probe K K_eqb H).
  Notation scoped_lookup := (scoped_lookup K K_eqb H).
  Notation wire_chase := (wire_chase K K_eqb H).
  Notation cut_lookup := (cut_lookup K).

  (* ---- Store.Lookup / LookupByKeyVerified (resolver-internal lookups, Store.Get) *)
  Lemma store_lookup_sound (s : store) q cd e :
    store_lookup s q cd = Some e ->
    same_question e (q_name q) (q_type q) (q_class q) cd /\ e_scope e = None.
  Proof.
    unfold Model.store_lookup, lookup_by_key_verified.
    destruct (lookup_by_key s _) as [e'|]; [|discriminate].
    destruct (entry_matches_key e' q cd None) eqn:Em; [|discriminate].
    intros He. inversion He; subst. apply entry_matches_key_spec in Em. exact Em.
  Qed.

  (* LookupByKeyVerified with ANY key whatsoever *)
  Lemma lookup_by_key_verified_sound (s : store) k q cd p e :
    lookup_by_key_verified K K_eqb s k q cd p = Some e ->
    same_question e (q_name q) (q_type q) (q_class q) cd /\ e_scope e = normalize_scope p.
  Proof.
    unfold lookup_by_key_verified. destruct (lookup_by_key s k) as [e'|]; [|discriminate].
    destruct (entry_matches_key e' q cd p) eqn:Em; [|discriminate].
    intros He. inversion He; subst. apply entry_matches_key_spec. exact Em.
  Qed.

  (* ---- the scoped probe only ever proposes prefixes of the client's prefix *)
  Lemma scoped_probe_scope (s : store) q cd is4 addr n e sc :
    scoped_probe s q cd is4 addr n = Some (e, sc) ->
    exists bits, 1 <= bits <= N.of_nat n /\ sc = addr_prefix is4 addr bits.
  Proof.
    induction n as [|n IH]; [discriminate|]. cbn [Model.scoped_probe].
    change scoped_probe_floor with 1.
    destruct (N.of_nat (S n) <? 1) eqn:E; [discriminate|]. apply N.ltb_ge in E.
    destruct (lookup_by_key s _) as [e'|].
    - intros Hs. inversion Hs; subst. exists (N.of_nat (S n)). split; [lia|reflexivity].
    - intros Hs. destruct (IH Hs) as [bits [Hb Hsc]]. exists bits. split; [lia|exact Hsc].
  Qed.

  Lemma scoped_probe_in (s : store) q cd is4 addr n e sc :
    scoped_probe s q cd is4 addr n = Some (e, sc) -> exists k, lookup_by_key s k = Some e.
  Proof.
    induction n as [|n IH]; [discriminate|]. cbn [Model.scoped_probe].
    destruct (N.of_nat (S n) <? scoped_probe_floor); [discriminate|].
    destruct (lookup_by_key s _) as [e'|] eqn:El.
    - intros He. inversion He; subst. eexists. exact El.
    - exact IH.
  Qed.

  Lemma addr_prefix_audience is4 addr bits cbits e :
    1 <= bits <= cbits ->
    e_scope e = normalize_scope (Some (addr_prefix is4 addr bits)) ->
    audience_ok e (Some (mk_scope is4 cbits addr)).
  Proof.
    intros Hb He. unfold audience_ok. rewrite He. cbn [normalize_scope addr_prefix sc_bits].
    destruct (bits =? 0) eqn:E0; [apply N.eqb_eq in E0; lia|].
    exists (mk_scope is4 cbits addr). unfold masked, addr_prefix. cbn [sc_bits sc_is4 sc_addr].
    split; [reflexivity|]. split; [lia|]. split; [lia|].
    unfold scope_contains. cbn [sc_is4 sc_bits sc_addr]. rewrite Bool.eqb_reflx. cbn [andb].
    rewrite !mask_bytes_idem. apply bytes_eqb_refl.
  Qed.

  (* ---- the decoded (Msg) path of Cache.ServeDNS: scoped probe + shared key *)
  Lemma serve_msg_exact_sound (s : store) q cd client e :
    serve_msg_exact s q cd client = Some e ->
    same_question e (q_name q) (q_type q) (q_class q) cd /\ audience_ok e client.
  Proof.
    unfold Model.serve_msg_exact.
    destruct (scoped_lookup s q cd client) as [[e1 sc]|] eqn:Es.
    - destruct (entry_matches_key e1 q cd (Some sc)) eqn:Em.
      + intros He. inversion He; subst e1. clear He. apply entry_matches_key_spec in Em. destruct Em as [Hq Hsc].
        split; [exact Hq|].
        unfold Model.scoped_lookup in Es. destruct client as [c|]; [|discriminate].
        apply scoped_probe_scope in Es. destruct Es as [bits [Hb Hs]]. subst sc.
        destruct c as [is4 cbits addr]. cbn [sc_is4 sc_bits sc_addr] in *.
        apply (addr_prefix_audience is4 addr bits cbits); [lia|exact Hsc].
      + destruct (lookup_by_key s _) as [e2|]; [|discriminate].
        destruct (entry_matches_key e2 q cd None) eqn:Em2; [|discriminate].
        intros He. inversion He; subst e2. apply entry_matches_key_spec in Em2. destruct Em2 as [Hq Hsc].
        split; [exact Hq|]. unfold audience_ok. rewrite Hsc. exact I.
    - destruct (lookup_by_key s _) as [e2|]; [|discriminate].
      destruct (entry_matches_key e2 q cd None) eqn:Em2; [|discriminate].
      intros He. inversion He; subst e2. apply entry_matches_key_spec in Em2. destruct Em2 as [Hq Hsc].
      split; [exact Hq|]. unfold audience_ok. rewrite Hsc. exact I.
  Qed.

  (* ---- the wire fast path (and every hop of the wire alias chase) *)
  Lemma serve_wire_exact_sound (s : store) w qt qc cd e :
    Forall (fun b => b < 256) w ->
    serve_wire_exact s w qt qc cd = Some e -> wire_same_question e w qt qc cd.
  Proof.
    intros Hb. unfold Model.serve_wire_exact.
    destruct (pre_keywire w qt qc cd); [|discriminate].
    destruct (lookup_by_key s _) as [e'|]; [|discriminate].
    destruct (entry_matches_wire_question e' w qt qc cd) eqn:Em; [|discriminate].
    intros He. inversion He; subst. apply entry_matches_wire_question_spec; assumption.
  Qed.

  (* consecutive segments of a composed chase: the next segment was admitted
     for (target of the previous alias, the client's type, class, CD), shared *)
  Inductive chase_linked (qt qc : N) (cd : bool) : list entry -> Prop :=
  | cl_one e : chase_linked qt qc cd [e]
  | cl_cons e nxt l target :
      e_alias e = Some target -> wire_same_question nxt target qt qc cd ->
      chase_linked qt qc cd (nxt :: l) -> chase_linked qt qc cd (e :: nxt :: l).

  Definition aliases_wf (s : store) : Prop :=
    forall k e t, lookup_by_key s k = Some e -> e_alias e = Some t -> Forall (fun b => b < 256) t.

  Lemma wire_chase_head (s : store) fuel reqw qt qc cd e l :
    wire_chase s fuel reqw qt qc cd e = Some l -> exists l', l = e :: l'.
  Proof.
    destruct fuel as [|f]; [discriminate|]. cbn [Model.wire_chase].
    destruct (negb (e_plain e)); [discriminate|].
    destruct (e_has_qtype e); [intros Hl; inversion Hl; eexists; reflexivity|].
    destruct (e_alias e) as [t|]; [|discriminate].
    destruct (fold_wire_names_equal t reqw); [discriminate|].
    destruct (serve_wire_exact s t qt qc cd); [|discriminate].
    destruct (wire_chase s f reqw qt qc cd e0); [|discriminate].
    intros Hl. inversion Hl. eexists. reflexivity.
  Qed.

  Lemma wire_chase_sound (s : store) fuel : forall reqw qt qc cd e l,
    (forall t, e_alias e = Some t -> Forall (fun b => b < 256) t) ->
    aliases_wf s ->
    wire_chase s fuel reqw qt qc cd e = Some l -> chase_linked qt qc cd l.
  Proof.
    induction fuel as [|f IH]; intros reqw qt qc cd e l Hwf Hs; [discriminate|].
    cbn [Model.wire_chase]. destruct (negb (e_plain e)); [discriminate|].
    destruct (e_has_qtype e); [intros Hl; inversion Hl; constructor|].
    destruct (e_alias e) as [t|] eqn:Ea; [|discriminate].
    - destruct (fold_wire_names_equal t reqw); [discriminate|].
      destruct (serve_wire_exact s t qt qc cd) as [nxt|] eqn:En; [|discriminate].
      destruct (wire_chase s f reqw qt qc cd nxt) as [l'|] eqn:Ec; [|discriminate].
      intros Hl. inversion Hl; subst l. clear Hl.
      destruct (wire_chase_head _ _ _ _ _ _ _ _ Ec) as [l'' El]. subst l'.
      apply (cl_cons qt qc cd e nxt l'' t Ea).
      + apply serve_wire_exact_sound in En; [exact En|apply Hwf; reflexivity].
      + apply (IH reqw qt qc cd nxt); [|exact Hs|exact Ec].
        intros t' Ht'. unfold Model.serve_wire_exact in En.
        destruct (pre_keywire t qt qc cd); [|discriminate].
        destruct (lookup_by_key s (H b)) as [e'|] eqn:El; [|discriminate].
        destruct (entry_matches_wire_question e' t qt qc cd); [|discriminate].
        inversion En; subst e'. eapply Hs; eassumption.
  Qed.

  (* the chase's own gates: every composed segment is a plain NOERROR body (no authority or
     additional records, re-encodable answer types only) and the chain ends at a record of the
     requested type *)
  Lemma wire_chase_plain (s : store) fuel : forall reqw qt qc cd e l,
    wire_chase s fuel reqw qt qc cd e = Some l ->
    Forall (fun x => e_plain x = true) l /\
    exists pre lst, l = pre ++ [lst] /\ e_has_qtype lst = true /\ Forall (fun x => e_has_qtype x = false) pre.
  Proof.
    induction fuel as [|f IH]; intros reqw qt qc cd e l; [discriminate|].
    cbn [Model.wire_chase]. destruct (e_plain e) eqn:Ep; cbn [negb]; [|discriminate].
    destruct (e_has_qtype e) eqn:Eq.
    - intros Hl. inversion Hl; subst l. split; [repeat constructor; exact Ep|].
      exists [], e. repeat split; [exact Eq|constructor].
    - destruct (e_alias e) as [t|]; [|discriminate].
      destruct (fold_wire_names_equal t reqw); [discriminate|].
      destruct (serve_wire_exact s t qt qc cd) as [nxt|]; [|discriminate].
      destruct (wire_chase s f reqw qt qc cd nxt) as [l'|] eqn:Ec; [|discriminate].
      intros Hl. inversion Hl; subst l. clear Hl.
      apply IH in Ec. destruct Ec as [Hall [pre [lst [Hl [Hq Hpre]]]]]. split; [constructor; assumption|].
      exists (e :: pre), lst. subst l'. repeat split; [exact Hq|constructor; assumption].
  Qed.

  (* the Msg-path chase over a store-backed Queryer: every appended hop was admitted for
     (printed target of the previous alias, the client's type, class and CD), shared audience *)
  Inductive msg_linked (qt qc : N) (cd : bool) : entry -> list entry -> Prop :=
  | ml_nil e : msg_linked qt qc cd e []
  | ml_cons e nxt l tw ls :
      e_alias e = Some tw -> parse_wire tw = Some ls ->
      same_question nxt (present ls) qt qc cd -> e_scope nxt = None ->
      msg_linked qt qc cd nxt l -> msg_linked qt qc cd e (nxt :: l).

  Lemma msg_chase_sound (s : store) fuel : forall qt qc cd e,
    msg_linked qt qc cd e (msg_chase K K_eqb H s fuel qt qc cd e).
  Proof.
    induction fuel as [|f IH]; intros qt qc cd e; [constructor|].
    cbn [msg_chase]. destruct (e_has_qtype e); [constructor|]. destruct (e_alias e) as [tw|] eqn:Ea; [|constructor].
    destruct (parse_wire tw) as [ls|] eqn:Ep; cbn [option_map]; [|constructor].
    destruct (store_lookup s (mk_q (present ls) qt qc) cd) as [nxt|] eqn:El; [|constructor].
    apply store_lookup_sound in El. destruct El as [Hq Hs]. cbn [q_name q_type q_class] in Hq.
    eapply ml_cons; eauto.
  Qed.

  (* the self-alias test (fix a4faf69): when no alias of the chain points back at the question in any
     spelling — the test that turns the reply into SERVFAIL — every hop the chase serves was admitted for a
     name different from the question's under the ASCII fold; and when one does, the model serves nothing
     (Run.v reports the id list [0]) *)
  Lemma msg_chase_no_selfloop (s : store) fuel : forall qname qt qc cd e,
    msg_chase_selfloop K K_eqb H s fuel qname qt qc cd e = false ->
    Forall (fun x => fold (q_name (e_q x)) <> fold qname) (msg_chase K K_eqb H s fuel qt qc cd e).
  Proof.
    induction fuel as [|f IH]; intros qname qt qc cd e Hl; [constructor|].
    cbn [msg_chase msg_chase_selfloop] in *. destruct (e_has_qtype e); [constructor|].
    destruct (e_alias e) as [tw|]; [|constructor].
    destruct (parse_wire tw) as [ls|]; cbn [option_map] in *; [|constructor].
    destruct (bytes_eqb (fold (present ls)) (fold qname)) eqn:Eb; [discriminate|].
    destruct (store_lookup s (mk_q (present ls) qt qc) cd) as [nxt|] eqn:El; [|constructor].
    apply store_lookup_sound in El. destruct El as [[Hn _] _]. cbn [q_name] in Hn.
    constructor; [|apply IH; exact Hl].
    rewrite Hn. intros Heq. rewrite Heq, bytes_eqb_refl in Eb. discriminate.
  Qed.

  (* ---- subtree cuts *)
  Lemma cut_get_spec name qc l c :
    cut_get name qc l = Some c -> c_name c = name /\ c_class c = qc.
  Proof.
    induction l as [|c' r IH]; cbn; [discriminate|].
    destruct (bytes_eqb (c_name c') name && (c_class c' =? qc)) eqn:E.
    - intros Hc. inversion Hc; subst. apply andb_prop in E. destruct E as [E1 E2].
      apply bytes_eqb_eq in E1. apply N.eqb_eq in E2. tauto.
    - exact IH.
  Qed.

  Lemma cut_lookup_sound (s : store) q c :
    cut_lookup s q = Some c ->
    c_active c = true /\ In (c_name c) (label_suffixes (canonical (q_name q))) /\ c_class c = q_class q /\ q_class q <> 0.
  Proof.
    unfold Model.cut_lookup. destruct (q_class q =? 0) eqn:E0; [discriminate|]. apply N.eqb_neq in E0.
    intros Hc. apply first_some_spec in Hc. destruct Hc as [cand [Hin Hc]].
    destruct (cut_get cand (q_class q) _) as [c'|] eqn:Eg; [|discriminate].
    destruct (c_active c') eqn:Ea; [|discriminate]. inversion Hc; subst c'.
    apply cut_get_spec in Eg. destruct Eg as [Hn Hcl]. subst cand. tauto.
  Qed.

  (* ---- failure cache *)
  Section Salted.
  Variable salt_fq salt_fz : K -> K.
  Notation failure_lookup := (failure_lookup K K_eqb H salt_fq salt_fz).
  Notation failure_lookup_wire := (failure_lookup_wire K K_eqb H salt_fq salt_fz).
  Definition failure_hit_ok (fe : fentry) (name : bytes) (qt qc : N) (cd : bool) (p : option scope) : Prop :=
    f_active fe = true /\
    ((f_kind fe = FQuestion /\ q_name (f_q fe) = canonical name /\ q_type (f_q fe) = qt /\ q_class (f_q fe) = qc /\
      f_cd fe = cd /\ f_scope fe = normalize_scope p) \/
     (f_kind fe = FZone /\ In (f_zone fe) (name_suffixes (canonical name)) /\ f_zclass fe = qc)).

  Lemma failure_lookup_sound (s : store) q cd p fe :
    failure_lookup s q cd p = Some fe -> failure_hit_ok fe (q_name q) (q_type q) (q_class q) cd p.
  Proof.
    unfold Model.failure_lookup. destruct (st_fail K s); [discriminate|].
    unfold load_fquestion. cbn [q_name q_type q_class].
    destruct (kget K K_eqb (salt_fq _) _) as [fe1|] eqn:E1.
    - destruct (f_kind fe1) eqn:Ek.
      + destruct (question_eqb_exact (f_q fe1) _ && Bool.eqb (f_cd fe1) cd && oscope_eqb (f_scope fe1) (normalize_scope p)) eqn:Em.
        * destruct (f_active fe1) eqn:Ea.
          -- intros He. inversion He; subst fe1. clear He.
             apply andb_prop in Em. destruct Em as [Em H3]. apply andb_prop in Em. destruct Em as [H1 H2].
             unfold question_eqb_exact in H1. cbn [q_name q_type q_class] in H1.
             apply andb_prop in H1. destruct H1 as [H1 H1c]. apply andb_prop in H1. destruct H1 as [H1a H1b].
             apply bytes_eqb_eq in H1a. apply N.eqb_eq in H1b, H1c. apply Bool.eqb_prop in H2. apply oscope_eqb_eq in H3.
             split; [exact Ea|]. left. tauto.
          -- intros Hz. apply first_some_spec in Hz. destruct Hz as [zone [Hin Hz]].
             unfold load_fzone in Hz. destruct (kget K K_eqb (salt_fz _) _) as [fz|]; [|discriminate].
             destruct (f_kind fz) eqn:Ekz; [discriminate|].
             destruct (bytes_eqb (f_zone fz) zone && (f_zclass fz =? q_class q)) eqn:Emz; [|discriminate].
             destruct (f_active fz) eqn:Eaz; [|discriminate]. inversion Hz; subst fz.
             apply andb_prop in Emz. destruct Emz as [Hz1 Hz2]. apply bytes_eqb_eq in Hz1. apply N.eqb_eq in Hz2.
             split; [exact Eaz|]. right. subst zone. tauto.
        * intros Hz. apply first_some_spec in Hz. destruct Hz as [zone [Hin Hz]].
          unfold load_fzone in Hz. destruct (kget K K_eqb (salt_fz _) _) as [fz|]; [|discriminate].
          destruct (f_kind fz) eqn:Ekz; [discriminate|].
          destruct (bytes_eqb (f_zone fz) zone && (f_zclass fz =? q_class q)) eqn:Emz; [|discriminate].
          destruct (f_active fz) eqn:Eaz; [|discriminate]. inversion Hz; subst fz.
          apply andb_prop in Emz. destruct Emz as [Hz1 Hz2]. apply bytes_eqb_eq in Hz1. apply N.eqb_eq in Hz2.
          split; [exact Eaz|]. right. subst zone. tauto.
      + intros Hz. apply first_some_spec in Hz. destruct Hz as [zone [Hin Hz]].
        unfold load_fzone in Hz. destruct (kget K K_eqb (salt_fz _) _) as [fz|]; [|discriminate].
        destruct (f_kind fz) eqn:Ekz; [discriminate|].
        destruct (bytes_eqb (f_zone fz) zone && (f_zclass fz =? q_class q)) eqn:Emz; [|discriminate].
        destruct (f_active fz) eqn:Eaz; [|discriminate]. inversion Hz; subst fz.
        apply andb_prop in Emz. destruct Emz as [Hz1 Hz2]. apply bytes_eqb_eq in Hz1. apply N.eqb_eq in Hz2.
        split; [exact Eaz|]. right. subst zone. tauto.
    - intros Hz. apply first_some_spec in Hz. destruct Hz as [zone [Hin Hz]].
      unfold load_fzone in Hz. destruct (kget K K_eqb (salt_fz _) _) as [fz|]; [|discriminate].
      destruct (f_kind fz) eqn:Ekz; [discriminate|].
      destruct (bytes_eqb (f_zone fz) zone && (f_zclass fz =? q_class q)) eqn:Emz; [|discriminate].
      destruct (f_active fz) eqn:Eaz; [|discriminate]. inversion Hz; subst fz.
      apply andb_prop in Emz. destruct Emz as [Hz1 Hz2]. apply bytes_eqb_eq in Hz1. apply N.eqb_eq in Hz2.
      split; [exact Eaz|]. right. subst zone. tauto.
  Qed.

  Definition failure_wire_hit_ok (fe : fentry) (w : bytes) (qt qc : N) (cd : bool) : Prop :=
    f_active fe = true /\
    ((f_kind fe = FQuestion /\ f_scope fe = None /\ q_type (f_q fe) = qt /\ q_class (f_q fe) = qc /\ f_cd fe = cd /\
      wire_equals_pres w (q_name (f_q fe)) = true) \/
     (f_kind fe = FZone /\ f_zclass fe = qc /\
      exists zone, In zone (wire_name_suffixes w) /\ wire_equals_pres zone (f_zone fe) = true)).

  Lemma failure_lookup_wire_zone (s : store) w qc fe :
    first_some (fun zone =>
                  match pre_keywire zone 6 qc false with
                  | None => None
                  | Some p =>
                      match kget K K_eqb (salt_fz (H p)) (st_fail K s) with
                      | Some fe =>
                          match f_kind fe with
                          | FZone => if (f_zclass fe =? qc) && wire_equals_pres zone (f_zone fe) && f_active fe then Some fe else None
                          | FQuestion => None
                          end
                      | None => None
                      end
                  end) (wire_name_suffixes w) = Some fe ->
    f_active fe = true /\ f_kind fe = FZone /\ f_zclass fe = qc /\
    exists zone, In zone (wire_name_suffixes w) /\ wire_equals_pres zone (f_zone fe) = true.
  Proof.
    intros Hz. apply first_some_spec in Hz. destruct Hz as [zone [Hin Hz]].
    destruct (pre_keywire zone 6 qc false); [|discriminate].
    destruct (kget K K_eqb _ _) as [fz|]; [|discriminate].
    destruct (f_kind fz) eqn:Ek; [discriminate|].
    destruct ((f_zclass fz =? qc) && wire_equals_pres zone (f_zone fz) && f_active fz) eqn:Em; [|discriminate].
    inversion Hz; subst fz. apply andb_prop in Em. destruct Em as [Em H3]. apply andb_prop in Em. destruct Em as [H1 H2].
    apply N.eqb_eq in H1. repeat split; try assumption. exists zone. tauto.
  Qed.

  Lemma failure_lookup_wire_sound (s : store) w qt qc cd fe :
    failure_lookup_wire s w qt qc cd = Some fe -> failure_wire_hit_ok fe w qt qc cd.
  Proof.
    unfold Model.failure_lookup_wire. destruct (st_fail K s) eqn:Ef; [discriminate|]. rewrite <- Ef. clear Ef.
    match goal with |- match ?X with _ => _ end = _ -> _ => destruct X as [fe1|] eqn:E1 end.
    - intros He. inversion He; subst fe1. clear He.
      destruct (pre_keywire w qt qc cd); [|discriminate].
      destruct (kget K K_eqb _ _) as [fq|]; [|discriminate].
      destruct (f_kind fq) eqn:Ek; [|discriminate]. destruct (f_scope fq) eqn:Es; [discriminate|].
      match type of E1 with (if ?c then _ else _) = _ => destruct c eqn:Em end; [|discriminate].
      inversion E1; subst fq.
      apply andb_prop in Em. destruct Em as [Em H5]. apply andb_prop in Em. destruct Em as [Em H4].
      apply andb_prop in Em. destruct Em as [Em H3]. apply andb_prop in Em. destruct Em as [H1 H2].
      apply N.eqb_eq in H1, H2. apply Bool.eqb_prop in H3.
      split; [exact H5|]. left. tauto.
    - intros Hz. apply failure_lookup_wire_zone in Hz. destruct Hz as [Ha [Hk [Hc Hz]]].
      split; [exact Ha|]. right. tauto.
  Qed.

  End Salted.

  Section SaltedCut.
  Variable salt_cut : K -> K.
  Notation cut_lookup_wire := (cut_lookup_wire K K_eqb H salt_cut).

  Lemma cut_lookup_wire_sound (s : store) w qc c :
    cut_lookup_wire s w qc = Some c ->
    c_active c = true /\ c_class c = qc /\ qc <> 0 /\
    exists cand, In cand (wire_name_suffixes w) /\ wire_equals_pres cand (c_name c) = true.
  Proof.
    unfold Model.cut_lookup_wire. destruct (qc =? 0) eqn:E0; [discriminate|]. apply N.eqb_neq in E0.
    intros Hc. apply first_some_spec in Hc. destruct Hc as [cand [Hin Hc]].
    destruct (pre_keywire cand 0 qc false); [|discriminate].
    destruct (kget K K_eqb _ _) as [c'|]; [|discriminate].
    destruct ((c_class c' =? qc) && c_wire c' && wire_equals_pres cand (c_name c') && c_active c') eqn:Em; [|discriminate].
    inversion Hc; subst c'. apply andb_prop in Em. destruct Em as [Em H4]. apply andb_prop in Em. destruct Em as [Em H3].
    apply andb_prop in Em. destruct Em as [H1 H2]. apply N.eqb_eq in H1.
    repeat split; try assumption. exists cand. tauto.
  Qed.

  End SaltedCut.

  (* ---- replacement inherits the partition of the entry it replaces *)
  Lemma replace_inherits_partition_lemma (s s' : store) k expected rq id alias hasq plain :
    replace_if_current K K_eqb k expected rq id alias hasq plain s = (s', true) ->
    exists cur, kget K K_eqb k (st_pos K s) = Some cur /\ entry_same cur expected = true /\
    st_pos K s' = kset K K_eqb k (mk_entry rq (e_cd expected) (e_scope expected) id alias hasq plain) (st_pos K s) /\
    st_neg K s' = st_neg K s /\ st_fail K s' = st_fail K s.
  Proof.
    unfold replace_if_current. destruct (kget K K_eqb k (st_pos K s)) as [cur|]; [|discriminate].
    destruct (entry_same cur expected) eqn:E; [|discriminate].
    intros Hr. inversion Hr; subst s'. exists cur. repeat split; try reflexivity. exact E.
  Qed.

  Lemma replace_declined_unchanged (s s' : store) k expected rq id alias hasq plain :
    replace_if_current K K_eqb k expected rq id alias hasq plain s = (s', false) -> s' = s.
  Proof.
    unfold replace_if_current. destruct (kget K K_eqb k (st_pos K s)) as [cur|].
    - destruct (entry_same cur expected); intros Hr; inversion Hr; reflexivity.
    - intros Hr. inversion Hr; reflexivity.
  Qed.

  (* ---- purge *)
  Lemma kget_in {V} k (m : kmap K V) v : kget K K_eqb k m = Some v -> exists k', In (k', v) m.
  Proof.
    induction m as [|[k' v'] r IH]; cbn; [discriminate|].
    destruct (K_eqb k k').
    - intros Hv. inversion Hv; subst. exists k'. left. reflexivity.
    - intros Hv. destruct (IH Hv) as [k'' Hin]. exists k''. right. exact Hin.
  Qed.

  Lemma kget_filter_none {V} k (f : K * V -> bool) (m : kmap K V) :
    kget K K_eqb k m = None -> kget K K_eqb k (filter f m) = None.
  Proof.
    induction m as [|[k' v'] r IH]; cbn; [reflexivity|].
    destruct (K_eqb k k') eqn:E; [discriminate|]. intros Hn.
    destruct (f (k', v')); cbn; [rewrite E|]; apply IH; exact Hn.
  Qed.

  Lemma kget_kremove_same {V} k (m : kmap K V) : kget K K_eqb k (kremove K K_eqb k m) = None.
  Proof.
    unfold kremove. induction m as [|[k' v'] r IH]; cbn; [reflexivity|].
    destruct (K_eqb k k') eqn:E; cbn; [exact IH|]. rewrite E. exact IH.
  Qed.

  Lemma kget_kremove_none {V} k k2 (m : kmap K V) :
    kget K K_eqb k m = None -> kget K K_eqb k (kremove K K_eqb k2 m) = None.
  Proof. apply kget_filter_none. Qed.

  Lemma kget_sweep_none q k (m : kmap K entry) :
    kget K K_eqb k m = None -> kget K K_eqb k (purge_sweep K K_eqb q m) = None.
  Proof.
    unfold purge_sweep. generalize (map fst (filter (fun kv => purge_match q (snd kv)) m)).
    intros ks. revert m. induction ks as [|k2 ks IH]; intros m Hn; [exact Hn|].
    cbn [fold_left]. apply IH. apply kget_kremove_none. exact Hn.
  Qed.

  Hypothesis K_eqb_refl : forall k, K_eqb k k = true.

  Lemma in_kremove {V} k (m : kmap K V) kv : In kv (kremove K K_eqb k m) -> In kv m /\ K_eqb k (fst kv) = false.
  Proof.
    unfold kremove. intros Hin. apply filter_In in Hin. destruct Hin as [Hin Hf]. split; [exact Hin|].
    apply negb_true_iff in Hf. exact Hf.
  Qed.

  Lemma in_fold_kremove {V} ks : forall (m : kmap K V) kv,
    In kv (fold_left (fun m k => kremove K K_eqb k m) ks m) -> In kv m /\ ~ In (fst kv) ks.
  Proof.
    induction ks as [|k ks IH]; intros m kv Hin; [split; [exact Hin|intros []]|].
    cbn [fold_left] in Hin. apply IH in Hin. destruct Hin as [Hin Hno]. apply in_kremove in Hin. destruct Hin as [Hin Hk].
    split; [exact Hin|]. intros [He|Hi]; [|contradiction]. subst k. rewrite K_eqb_refl in Hk. discriminate.
  Qed.

  Lemma in_sweep_nomatch q (m : kmap K entry) k e :
    In (k, e) (purge_sweep K K_eqb q m) -> purge_match q e = false.
  Proof.
    unfold purge_sweep. intros Hin. apply in_fold_kremove in Hin. destruct Hin as [Hin Hno].
    destruct (purge_match q e) eqn:Em; [|reflexivity]. exfalso. apply Hno. cbn [fst].
    apply in_map_iff. exists (k, e). split; [reflexivity|]. apply filter_In. split; [exact Hin|exact Em].
  Qed.

  Lemma purge_answers_pos q (s : store) :
    st_pos K (purge K K_eqb H q s) =
    purge_sweep K K_eqb q (kremove K K_eqb (H (cachekey_pre q true None)) (kremove K K_eqb (H (cachekey_pre q false None)) (st_pos K s))).
  Proof. reflexivity. Qed.
  Lemma purge_answers_neg q (s : store) :
    st_neg K (purge K K_eqb H q s) =
    purge_sweep K K_eqb q (kremove K K_eqb (H (cachekey_pre q true None)) (kremove K K_eqb (H (cachekey_pre q false None)) (st_neg K s))).
  Proof. reflexivity. Qed.

  Lemma cachekey_pre_fold_eq q q' cd :
    fold (q_name q') = fold (q_name q) -> q_type q' = q_type q -> q_class q' = q_class q ->
    cachekey_pre q' cd None = cachekey_pre q cd None.
  Proof.
    intros Hn Ht Hc. unfold cachekey_pre. rewrite !pre_key_fold, Hn, Ht, Hc. reflexivity.
  Qed.

  (* after Purge(q) the shared key of every CD partition is empty *)
  Lemma purge_shared_gone q (s : store) q' cd :
    fold (q_name q') = fold (q_name q) -> q_type q' = q_type q -> q_class q' = q_class q ->
    lookup_by_key (purge K K_eqb H q s) (H (cachekey_pre q' cd None)) = None.
  Proof.
    intros Hn Ht Hc. rewrite (cachekey_pre_fold_eq q q' cd Hn Ht Hc).
    unfold Model.lookup_by_key. rewrite purge_answers_pos, purge_answers_neg.
    assert (Hg : forall m : kmap K entry,
              kget K K_eqb (H (cachekey_pre q cd None))
                (purge_sweep K K_eqb q (kremove K K_eqb (H (cachekey_pre q true None)) (kremove K K_eqb (H (cachekey_pre q false None)) m))) = None).
    { intros m. apply kget_sweep_none. destruct cd.
      - apply kget_kremove_same.
      - apply kget_kremove_none. apply kget_kremove_same. }
    rewrite !Hg. reflexivity.
  Qed.

  (* no scoped entry for the question survives the sweep *)
  Lemma purge_scoped_gone q (s : store) k e :
    lookup_by_key (purge K K_eqb H q s) k = Some e -> purge_match q e = false.
  Proof.
    unfold Model.lookup_by_key. rewrite purge_answers_pos, purge_answers_neg.
    destruct (kget K K_eqb k (purge_sweep _ _ _ _)) as [e1|] eqn:E1.
    - intros He. inversion He; subst e1. apply kget_in in E1. destruct E1 as [k' Hin]. eapply in_sweep_nomatch. exact Hin.
    - intros E2. apply kget_in in E2. destruct E2 as [k' Hin]. eapply in_sweep_nomatch. exact Hin.
  Qed.

  Lemma match_scoped_is_purge_match q q' cd sc e :
    fold (q_name q') = fold (q_name q) -> q_type q' = q_type q -> q_class q' = q_class q ->
    sc_bits sc <> 0 ->
    entry_matches_key e q' cd (Some sc) = true -> purge_match q e = true.
  Proof.
    intros Hn Ht Hc Hb Hm. apply entry_matches_key_spec in Hm. destruct Hm as [[Hf [Hne [Hty [Hcl _]]]] Hsc].
    unfold purge_match. rewrite Hsc. cbn [normalize_scope]. apply N.eqb_neq in Hb. rewrite Hb.
    destruct (q_name (e_q e)) eqn:En; [contradiction|]. cbn [negb andb].
    rewrite Hty, Ht, Hcl, Hc, !N.eqb_refl. cbn [andb].
    unfold equal_fold_ascii. apply fold_eq_equal_fold. rewrite Hf. exact Hn.
  Qed.

  (* purge removes every variant: afterwards no exact-answer route hits for the
     question, whatever the case spelling, CD bit or client subnet *)
  Lemma purge_removes_all_variants_lemma q (s : store) q' cd client :
    fold (q_name q') = fold (q_name q) -> q_type q' = q_type q -> q_class q' = q_class q ->
    serve_msg_exact (purge K K_eqb H q s) q' cd client = None /\
    store_lookup (purge K K_eqb H q s) q' cd = None /\
    (forall ls, name_wf ls = true -> present ls = q_name q' ->
       serve_wire_exact (purge K K_eqb H q s) (encode ls) (q_type q') (q_class q') cd = None).
  Proof.
    intros Hn Ht Hc.
    pose proof (purge_shared_gone q s q' cd Hn Ht Hc) as Hshared.
    split; [|split].
    - unfold Model.serve_msg_exact. rewrite Hshared.
      destruct (scoped_lookup _ q' cd client) as [[e sc]|] eqn:Es; [|reflexivity].
      destruct (entry_matches_key e q' cd (Some sc)) eqn:Em; [|reflexivity]. exfalso.
      unfold Model.scoped_lookup in Es. destruct client as [c|]; [|discriminate].
      destruct (scoped_probe_in _ _ _ _ _ _ _ _ Es) as [k Hl]. apply scoped_probe_scope in Es. destruct Es as [bits [Hb Hsc]].
      apply purge_scoped_gone in Hl.
      rewrite (match_scoped_is_purge_match q q' cd sc e Hn Ht Hc) in Hl; [discriminate| |exact Em].
      subst sc. cbn [addr_prefix sc_bits]. lia.
    - unfold Model.store_lookup, lookup_by_key_verified. rewrite Hshared. reflexivity.
    - intros ls Hw Hp. unfold Model.serve_wire_exact.
      rewrite wire_pres_preimage_eq_lemma by exact Hw. rewrite Hp.
      change (pre_key (q_name q') (q_type q') (q_class q') cd) with (cachekey_pre q' cd None).
      rewrite Hshared. reflexivity.
  Qed.

  (* and no covering subtree cut survives *)
  Lemma purge_cut_gone q (s : store) : cut_lookup (purge K K_eqb H q s) q = None.
  Proof.
    unfold Model.cut_lookup. destruct (q_class q =? 0); [reflexivity|].
    assert (Hc : st_cuts K (purge K K_eqb H q s) = filter (fun c => negb (cut_covers q c)) (st_cuts K s)) by reflexivity.
    rewrite Hc. clear Hc.
    assert (Hall : forall cands,
               (forall cand, In cand cands -> In cand (label_suffixes (canonical (q_name q)))) ->
               first_some (fun cand =>
                             match cut_get cand (q_class q) (filter (fun c => negb (cut_covers q c)) (st_cuts K s)) with
                             | Some c => if c_active c then Some c else None
                             | None => None
                             end) cands = None).
    { induction cands as [|cand r IH]; intros Hsub; [reflexivity|]. cbn [first_some].
      destruct (cut_get cand (q_class q) _) as [c|] eqn:Eg.
      - exfalso. assert (Hin : In c (filter (fun c => negb (cut_covers q c)) (st_cuts K s))).
        { clear - Eg. revert Eg. generalize (filter (fun c => negb (cut_covers q c)) (st_cuts K s)). intros l.
          induction l as [|c' l IHl]; cbn; [discriminate|].
          destruct (bytes_eqb (c_name c') cand && (c_class c' =? q_class q)).
          - intros He. inversion He. left. reflexivity.
          - intros He. right. apply IHl. exact He. }
        apply filter_In in Hin. destruct Hin as [_ Hf]. apply negb_true_iff in Hf.
        apply cut_get_spec in Eg. destruct Eg as [Hn Hcl].
        unfold cut_covers in Hf. rewrite Hcl, N.eqb_refl, andb_true_r in Hf.
        assert (Hex : existsb (fun cand0 => bytes_eqb (c_name c) cand0) (label_suffixes (canonical (q_name q))) = true).
        { apply existsb_exists. exists cand. split; [apply Hsub; left; reflexivity|]. rewrite Hn. apply bytes_eqb_refl. }
        rewrite Hex in Hf. discriminate.
      - apply IH. intros c Hc. apply Hsub. right. exact Hc. }
    apply Hall. intros cand Hc. exact Hc.
  Qed.

End Routes.

(* ------------------------------------------------------------------ *)
(* the whole ladder of Cache.ServeDNS and Store.Get: whatever rung answers,
   an exact-answer reply comes from an entry admitted for the question *)
Section Pipeline.
  Variable K : Type.
  Variable K_eqb : K -> K -> bool.
  Variable H : bytes -> K.
  Variable salt_fq salt_fz salt_cut : K -> K.

  Lemma msg_ladder_hit_sound (s : store K) q cd has_ecs client id :
    msg_ladder K K_eqb H salt_fq salt_fz s q cd has_ecs client = OHit id ->
    exists e, e_id e = id /\ same_question e (q_name q) (q_type q) (q_class q) cd /\ audience_ok e client.
  Proof.
    unfold msg_ladder. destruct (serve_msg_exact K K_eqb H s q cd client) as [e|] eqn:Es.
    - intros Ho. inversion Ho; subst. exists e. split; [reflexivity|].
      apply (serve_msg_exact_sound K K_eqb H) in Es. exact Es.
    - destruct (if cd || has_ecs then None else cut_lookup K s q); [discriminate|].
      destruct (failure_lookup K K_eqb H salt_fq salt_fz s q cd client); discriminate.
  Qed.

  (* a subtree cut answers only requests without CD and without ECS, from a denied ancestor-or-self of the same class *)
  Lemma msg_ladder_cut_sound (s : store K) q cd has_ecs client id :
    msg_ladder K K_eqb H salt_fq salt_fz s q cd has_ecs client = OCut id ->
    cd = false /\ has_ecs = false /\
    exists c, c_id c = id /\ In (c_name c) (label_suffixes (canonical (q_name q))) /\ c_class c = q_class q.
  Proof.
    unfold msg_ladder. destruct (serve_msg_exact K K_eqb H s q cd client); [discriminate|].
    destruct cd; [cbn [orb]; destruct (failure_lookup K K_eqb H salt_fq salt_fz s q true client); discriminate|].
    destruct has_ecs; [cbn [orb]; destruct (failure_lookup K K_eqb H salt_fq salt_fz s q false client); discriminate|].
    cbn [orb]. destruct (cut_lookup K s q) as [c|] eqn:Ec.
    - intros Ho. inversion Ho; subst. split; [reflexivity|]. split; [reflexivity|]. exists c. split; [reflexivity|].
      apply (cut_lookup_sound K K_eqb H) in Ec. destruct Ec as [_ [Hin [Hc _]]]. split; assumption.
    - destruct (failure_lookup K K_eqb H salt_fq salt_fz s q false client); discriminate.
  Qed.

  Lemma serve_pipeline_hit_sound (s : store K) wb w q cd client id :
    Forall (fun b => b < 256) w ->
    serve_pipeline K K_eqb H salt_fq salt_fz salt_cut s wb w q cd client = OHit id ->
    exists e, e_id e = id /\
      (wire_same_question e w (q_type q) (q_class q) cd \/
       (same_question e (q_name q) (q_type q) (q_class q) cd /\
        audience_ok e (option_map (fun c => addr_prefix (sc_is4 c) (sc_addr c) (sc_bits c)) client))).
  Proof.
    intros Hb. unfold serve_pipeline.
    destruct (wb && negb (is_some client)).
    - destruct (serve_wire_exact K K_eqb H s w (q_type q) (q_class q) cd) as [e|] eqn:Ew.
      + intros Ho. inversion Ho; subst. exists e. split; [reflexivity|]. left.
        apply (serve_wire_exact_sound K K_eqb H) in Ew; assumption.
      + destruct (if cd then None else cut_lookup_wire K K_eqb H salt_cut s w (q_class q)); [discriminate|].
        destruct (failure_lookup_wire K K_eqb H salt_fq salt_fz s w (q_type q) (q_class q) cd); [discriminate|].
        intros Ho. apply msg_ladder_hit_sound in Ho. destruct Ho as [e [Hi Hq]]. exists e. split; [exact Hi|]. right. exact Hq.
    - intros Ho. apply msg_ladder_hit_sound in Ho. destruct Ho as [e [Hi Hq]]. exists e. split; [exact Hi|]. right. exact Hq.
  Qed.

  Lemma store_get_hit_sound (s : store K) q cd id :
    store_get K K_eqb H salt_fq salt_fz s q cd = OHit id ->
    exists e, e_id e = id /\ same_question e (q_name q) (q_type q) (q_class q) cd /\ e_scope e = None.
  Proof.
    unfold store_get. destruct (store_lookup K K_eqb H s q cd) as [e|] eqn:Es.
    - intros Ho. inversion Ho; subst. exists e. split; [reflexivity|]. apply (store_lookup_sound K K_eqb H) in Es. exact Es.
    - destruct (if cd then None else cut_lookup K s q); [discriminate|].
      destruct (failure_lookup K K_eqb H salt_fq salt_fz s q cd None); discriminate.
  Qed.
  (* the same inside a request tree: whatever the outer client sent (CD, ECS), a resolver-internal hit comes from
     the partition the sub-query itself asks in *)
  Lemma store_get_tree_hit_sound (s : store K) q cd bypass id :
    store_get_tree K K_eqb H salt_fq salt_fz s q cd bypass = OHit id ->
    exists e, e_id e = id /\ same_question e (q_name q) (q_type q) (q_class q) cd /\ e_scope e = None.
  Proof.
    unfold store_get_tree. destruct (store_lookup K K_eqb H s q cd) as [e|] eqn:Es.
    - intros Ho. inversion Ho; subst. exists e. split; [reflexivity|]. apply (store_lookup_sound K K_eqb H) in Es. exact Es.
    - destruct (if cd || bypass then None else cut_lookup K s q); [discriminate|].
      destruct (failure_lookup K K_eqb H salt_fq salt_fz s q cd None); discriminate.
  Qed.
  Lemma store_get_tree_cut_only_plain (s : store K) q cd bypass id :
    store_get_tree K K_eqb H salt_fq salt_fz s q cd bypass = OCut id -> cd = false /\ bypass = false.
  Proof.
    unfold store_get_tree. destruct (store_lookup K K_eqb H s q cd); [discriminate|].
    destruct cd, bypass; cbn [orb]; try (destruct (failure_lookup K K_eqb H salt_fq salt_fz s q _ None); discriminate).
    intros _. split; reflexivity.
  Qed.
End Pipeline.

(* ------------------------------------------------------------------ *)
(* non-vacuity: a constant hash (every question collides) on a populated store *)

Definition unit_eqb (_ _ : unit) : bool := true.
Definition const_hash (_ : bytes) : unit := tt.
Definition ex_q1 : question := mk_q [97;46] 1 1.            (* a. A IN *)
Definition ex_q2 : question := mk_q [98;46] 1 1.            (* b. A IN *)
Definition ex_store : store unit :=
  set_from_response unit unit_eqb tt ex_q1 false None 7 None true true (empty_store unit).

Example collision_hit_own_question :
  option_map e_id (serve_msg_exact unit unit_eqb const_hash ex_store (mk_q [65;46] 1 1) false None) = Some 7.
Proof. vm_compute. reflexivity. Qed.
Example collision_other_question_misses :
  serve_msg_exact unit unit_eqb const_hash ex_store ex_q2 false None = None /\
  serve_msg_exact unit unit_eqb const_hash ex_store ex_q1 true None = None /\
  serve_msg_exact unit unit_eqb const_hash ex_store (mk_q [97;46] 28 1) false None = None /\
  serve_msg_exact unit unit_eqb const_hash ex_store (mk_q [97;46] 1 3) false None = None /\
  serve_wire_exact unit unit_eqb const_hash ex_store [1;98;0] 1 1 false = None /\
  option_map e_id (serve_wire_exact unit unit_eqb const_hash ex_store [1;65;0] 1 1 false) = Some 7.
Proof. vm_compute. repeat split; reflexivity. Qed.
(* a scoped entry under a hash that only looks at the preimage LENGTH (all /9../16
   scopes of one question collide): only clients inside 10.1.0.0/16 get it *)
Definition len_hash (p : bytes) : N := len p.
Definition ex_scoped : store N :=
  set_from_response N N.eqb (len_hash (cachekey_pre ex_q1 false (Some (mk_scope true 16 [10;1;0;0]))))
    ex_q1 false (Some (mk_scope true 16 [10;1;2;3])) 9 None true true (empty_store N).
Example scoped_collision :
  option_map e_id (serve_msg_exact N N.eqb len_hash ex_scoped ex_q1 false (Some (mk_scope true 24 [10;1;200;0]))) = Some 9 /\
  serve_msg_exact N N.eqb len_hash ex_scoped ex_q1 false (Some (mk_scope true 24 [10;2;200;0])) = None /\
  serve_msg_exact N N.eqb len_hash ex_scoped ex_q2 false (Some (mk_scope true 24 [10;1;200;0])) = None /\
  serve_msg_exact N N.eqb len_hash ex_scoped ex_q1 false None = None /\
  serve_msg_exact N N.eqb len_hash ex_scoped ex_q1 false (Some (mk_scope true 8 [10;0;0;0])) = None.
Proof. vm_compute. repeat split; reflexivity. Qed.

(* regression example for fix f46047f: a class-CH alias hit is no longer completed from the class-IN
   entry of its target (before the fix the sub-query was always class IN and the reply held entry 2) *)
Definition ex_ch_alias : store bytes :=
  let alias_q := mk_q [97;46] 1 3 in                       (* a. A CH *)
  let target_in := mk_q [116;46] 1 1 in                    (* t. A IN *)
  set_from_response bytes bytes_eqb (cachekey_pre target_in false None) target_in false None 2 None true true
    (set_from_response bytes bytes_eqb (cachekey_pre alias_q false None) alias_q false None 1 (Some [1;116;0]) false true (empty_store bytes)).
Example msg_chase_keeps_class_example :
  option_map (fun e => map e_id (msg_chase bytes bytes_eqb (fun p => p) ex_ch_alias 10 1 3 false e))
             (serve_msg_exact bytes bytes_eqb (fun p => p) ex_ch_alias (mk_q [97;46] 1 3) false None) = Some [] /\
  option_map (fun e => map e_id (msg_chase bytes bytes_eqb (fun p => p) ex_ch_alias 10 1 1 false e))
             (serve_msg_exact bytes bytes_eqb (fun p => p) ex_ch_alias (mk_q [97;46] 1 3) false None) = Some [2].
Proof. vm_compute. split; reflexivity. Qed.
