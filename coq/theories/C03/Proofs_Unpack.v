(* C03 — the decoder whose text the presentation-side key functions see: miekg/dns UnpackDomainName.

   Translator tie: the label-printing loop of UnpackDomainName (loopfunc, with isDomainNameLabelSpecial and
   escapeByte, all read from the module cache at the version go.mod requires) appends, for every label over all
   256 octet values, exactly the model's [flat_map present_byte] (gen_UnpackDomainName_label).
   Model level: [unpack_name] — the outer loop written by hand around the translated label loop — returns, on
   the wire form of every well-formed label list (inside any message, at any offset), the model's [present]
   and the offset just past the name (unpack_name_encode_lemma).  Hence the theorems about [present]
   (wire_pres_preimage_eq, wire_equals_pres_spec, the ancestor walks) speak about the text this decoder
   produces. *)
From Sdns Require Import Common.Base Common.GoList Gen.C03 C03.Model C03.Proofs_Key C03.Proofs_Gen.
Open Scope N_scope.

(* ---- the two special sets are one set: key_wire.go isPresentationSpecial and miekg's isDomainNameLabelSpecial *)
Lemma gen_isDomainNameLabelSpecial b :
  go_isDomainNameLabelSpecial b =
  ((b =? 46) || (b =? 32) || (b =? 39) || (b =? 64) || (b =? 59) || (b =? 40) || (b =? 41) || (b =? 34) || (b =? 92)).
Proof. unfold go_isDomainNameLabelSpecial. destruct (_ || _); reflexivity. Qed.

Lemma gen_special_sets_agree_lemma b : go_isPresentationSpecial b = go_isDomainNameLabelSpecial b.
Proof. rewrite gen_isPresentationSpecial, gen_isDomainNameLabelSpecial. reflexivity. Qed.

(* ---- escapeByte: the table lookup is the decimal escape, on the octets it is called for *)
Lemma gen_escapeByte b : b < 256 -> (b <? 32) || (126 <? b) = true ->
  go_escapeByte b = [92; 48 + b / 100; 48 + (b / 10) mod 10; 48 + b mod 10].
Proof.
  intros Hb He.
  assert (Hs : (negb ((b <? 32) || (126 <? b)) ||
                bytes_eqb (go_escapeByte b) [92; 48 + b / 100; 48 + (b / 10) mod 10; 48 + b mod 10]) = true).
  { revert b Hb He. intros b Hb _. revert b Hb.
    apply (byte_forall (fun b => negb ((b <? 32) || (126 <? b)) ||
             bytes_eqb (go_escapeByte b) [92; 48 + b / 100; 48 + (b / 10) mod 10; 48 + b mod 10])).
    vm_compute. reflexivity. }
  rewrite He in Hs. cbn [negb orb] in Hs. apply bytes_eqb_eq. exact Hs.
Qed.

(* what one turn of the translated loop appends *)
Definition go_print_byte (b : N) : bytes :=
  if go_isDomainNameLabelSpecial b then [92; b]
  else if (b <? 32) || (126 <? b) then go_escapeByte b
  else [b].

Lemma go_print_byte_present b : b < 256 -> go_print_byte b = present_byte b.
Proof.
  intros Hb. unfold go_print_byte, present_byte. rewrite gen_isDomainNameLabelSpecial.
  destruct (_ || _ || _ || _ || _ || _ || _ || _ || _); [reflexivity|].
  destruct ((b <? 32) || (126 <? b)) eqn:E; [|reflexivity].
  apply gen_escapeByte; assumption.
Qed.

(* ---- the label loop: with fuel beyond the label's length it ends normally having appended the label's text *)
Lemma unpack_label_loop_spec l msg off c : Forall (fun b => b < 256) l ->
  forall lf n s, (n <= length l)%nat -> (length l - n < lf)%nat ->
  go_UnpackDomainName_loop2 l lf (Z.of_nat n) msg off s c =
  (GoNext, (msg, off, s ++ flat_map present_byte (skipn n l), c)).
Proof.
  intros Hb. induction lf as [|lf IH]; intros n s Hn Hf; [lia|].
  cbn [go_UnpackDomainName_loop2]. unfold go_len.
  destruct (Z.ltb (Z.of_nat n) (Z.of_nat (length l))) eqn:E.
  - apply Z.ltb_lt in E. assert (Hnl : (n < length l)%nat) by lia.
    rewrite (skipn_nth_cons 0 l n) by lia. rewrite go_idx_nth by lia. rewrite Nat2Z.id.
    set (x := nth n l 0).
    assert (Hx : x < 256) by (rewrite Forall_forall in Hb; apply Hb; apply nth_In; exact Hnl).
    replace (Z.of_nat n + 1)%Z with (Z.of_nat (S n)) by lia.
    cbn [flat_map]. rewrite <- (go_print_byte_present x Hx). unfold go_print_byte.
    rewrite !IH by lia. rewrite app_assoc.
    destruct (go_isDomainNameLabelSpecial x); [reflexivity|].
    destruct ((x <? 32) || (126 <? x)); reflexivity.
  - apply Z.ltb_ge in E. assert (n = length l) by lia. subst n.
    rewrite skipn_all. cbn [flat_map]. rewrite app_nil_r. reflexivity.
Qed.

Lemma Forall_go_slice {A} (P : A -> Prop) (s : list A) a b : Forall P s -> Forall P (go_slice s a b).
Proof.
  intros H. unfold go_slice.
  rewrite <- (firstn_skipn (Z.to_nat a) s) in H. apply Forall_app in H. destruct H as [_ H].
  rewrite <- (firstn_skipn (Z.to_nat b - Z.to_nat a) (skipn (Z.to_nat a) s)) in H.
  apply Forall_app in H. destruct H as [H _]. exact H.
Qed.

Lemma gen_UnpackDomainName_label_lemma msg off s c : Forall (fun b => b < 256) msg ->
  go_UnpackDomainName_loop2_run msg off s c =
  (GoNext, (msg, off, s ++ flat_map present_byte (go_slice msg off (off + c)), c)).
Proof.
  intros Hb. unfold go_UnpackDomainName_loop2_run.
  pose proof (unpack_label_loop_spec (go_slice msg off (off + c)) msg off c
                (Forall_go_slice _ _ _ _ Hb) (S (length (go_slice msg off (off + c)))) 0%nat s) as H.
  cbn [Z.of_nat skipn] in H. apply H; lia.
Qed.

Lemma unpack_print_label_spec msg off s c : Forall (fun b => b < 256) msg ->
  unpack_print_label msg off s c = s ++ flat_map present_byte (go_slice msg off (off + c)).
Proof. intros Hb. unfold unpack_print_label. rewrite gen_UnpackDomainName_label_lemma by exact Hb. reflexivity. Qed.

(* ---- the whole walk on the wire form of a label list, inside any message *)
Lemma Forall_bytes_of_labels ls :
  Forall label_shape ls -> Forall (fun l => Forall (fun b => b < 256) l) ls ->
  Forall (fun b => b < 256) (encode ls).
Proof.
  induction ls as [|l ls IH]; intros Hsh Hb.
  - change (encode []) with [0]. constructor; [lia|constructor].
  - inversion Hsh as [|? ? Hl Hls]; subst. inversion Hb as [|? ? Hbl Hbls]; subst. unfold label_shape in Hl.
    rewrite encode_cons. constructor; [lia|]. apply Forall_app. split; [exact Hbl|apply IH; assumption].
Qed.

Lemma go_slice_middle (pre l post : bytes) :
  go_slice (pre ++ l ++ post) (go_len pre) (go_len pre + go_len l) = l.
Proof.
  unfold go_slice, go_len. rewrite !Z2Nat.inj_add by lia. rewrite !Nat2Z.id.
  replace (length pre + length l - length pre)%nat with (length l) by lia.
  rewrite skipn_app, skipn_all, Nat.sub_diag. cbn [skipn app].
  rewrite firstn_app, firstn_all, Nat.sub_diag. cbn [firstn]. apply app_nil_r.
Qed.

Lemma go_idx_middle (pre : bytes) x (post : bytes) : go_idx 0 (pre ++ x :: post) (go_len pre) = x.
Proof.
  unfold go_len. rewrite go_idx_nth by lia. rewrite Nat2Z.id. rewrite app_nth2 by lia.
  rewrite Nat.sub_diag. reflexivity.
Qed.

Lemma zland_small c : c < 64 -> Z.land (Z.of_N c) 192 = 0%Z.
Proof.
  intros Hc.
  assert (Hs : (negb (c <? 64) || (Z.land (Z.of_N c) 192 =? 0)%Z) = true).
  { assert (Hc' : c < 256) by lia. revert c Hc' Hc. intros c Hc' _. revert c Hc'.
    apply (byte_forall (fun c => negb (c <? 64) || (Z.land (Z.of_N c) 192 =? 0)%Z)). vm_compute. reflexivity. }
  apply N.ltb_lt in Hc. rewrite Hc in Hs. cbn [negb orb] in Hs. apply Z.eqb_eq in Hs. exact Hs.
Qed.

Lemma unpack_loop_encode ls : forall fuel pre post s budget ptr off1,
  Forall label_shape ls -> Forall (fun l => Forall (fun b => b < 256) l) ls ->
  Forall (fun b => b < 256) pre -> Forall (fun b => b < 256) post ->
  (length ls < fuel)%nat -> (Z.of_N (len (encode ls)) <= budget)%Z ->
  unpack_loop fuel (pre ++ encode ls ++ post) (go_len pre) s budget ptr off1 =
  Some (s ++ flat_map present_label ls,
        if (ptr =? 0)%Z then (go_len pre + go_len (encode ls))%Z else off1).
Proof.
  induction ls as [|l ls IH]; intros fuel pre post s budget ptr off1 Hsh Hlb Hpre Hpost Hf Hbud.
  - destruct fuel as [|f]; [cbn in Hf; lia|].
    change (encode []) with [0]. cbn [unpack_loop app].
    rewrite go_idx_middle. rewrite go_len_app, go_len_cons.
    pose proof (go_len_nonneg pre). pose proof (go_len_nonneg post).
    destruct (go_len pre >=? go_len pre + (1 + go_len post))%Z eqn:E; [lia|].
    cbn [Z.of_N Z.land Z.eqb flat_map]. rewrite app_nil_r. change (go_len [0]) with 1%Z. reflexivity.
  - destruct fuel as [|f]; [cbn in Hf; lia|].
    inversion Hsh as [|? ? Hl Hls]; subst. inversion Hlb as [|? ? Hbl Hbls]; subst.
    unfold label_shape in Hl.
    assert (Hmsgb : Forall (fun b => b < 256) (pre ++ encode (l :: ls) ++ post)).
    { apply Forall_app. split; [exact Hpre|]. apply Forall_app. split; [|exact Hpost].
      apply Forall_bytes_of_labels; [constructor; assumption|constructor; assumption]. }
    revert Hmsgb Hbud. rewrite encode_cons. intros Hmsgb Hbud.
    cbn [unpack_loop]. cbn [app]. rewrite go_idx_middle.
    set (msg := pre ++ len l :: (l ++ encode ls) ++ post) in *.
    assert (Hlen : go_len msg = (go_len pre + (1 + (go_len l + go_len (encode ls) + go_len post)))%Z).
    { unfold msg. rewrite go_len_app, go_len_cons, !go_len_app. lia. }
    pose proof (go_len_nonneg pre). pose proof (go_len_nonneg post). pose proof (go_len_nonneg l).
    pose proof (go_len_nonneg (encode ls)).
    assert (Hcl : Z.of_N (len l) = go_len l) by (unfold len, go_len; lia).
    assert (Hel : Z.of_N (len (encode ls)) = go_len (encode ls)) by (unfold len, go_len; lia).
    pose proof (encode_nonempty ls) as Hne.
    rewrite len_cons, len_app in Hbud.
    destruct (go_len pre >=? go_len msg)%Z eqn:E1; [lia|].
    rewrite zland_small by lia. cbn [Z.eqb].
    destruct (Z.of_N (len l) =? 0)%Z eqn:E2; [lia|].
    destruct (go_len pre + 1 + Z.of_N (len l) >? go_len msg)%Z eqn:E3; [lia|].
    destruct (budget - (Z.of_N (len l) + 1) <=? 0)%Z eqn:E4; [lia|].
    rewrite unpack_print_label_spec by exact Hmsgb.
    rewrite Hcl.
    assert (Hsl : go_slice msg (go_len pre + 1) (go_len pre + 1 + go_len l) = l).
    { unfold msg. replace (pre ++ len l :: (l ++ encode ls) ++ post) with ((pre ++ [len l]) ++ l ++ (encode ls ++ post)).
      2:{ rewrite <- !app_assoc. reflexivity. }
      replace (go_len pre + 1)%Z with (go_len (pre ++ [len l])) by (rewrite go_len_app, go_len_cons, go_len_nil; lia).
      apply go_slice_middle. }
    rewrite Hsl.
    replace msg with ((pre ++ len l :: l) ++ encode ls ++ post).
    2:{ unfold msg. rewrite <- !app_assoc. reflexivity. }
    replace (go_len pre + 1 + go_len l)%Z with (go_len (pre ++ len l :: l)) by (rewrite go_len_app, go_len_cons; lia).
    rewrite IH; [|exact Hls|exact Hbls| | exact Hpost|cbn [length] in Hf; lia|lia].
    2:{ apply Forall_app. split; [exact Hpre|]. constructor; [lia|exact Hbl]. }
    f_equal. f_equal.
    + cbn [flat_map]. unfold present_label at 2. rewrite <- !app_assoc. reflexivity.
    + destruct (ptr =? 0)%Z; [|reflexivity].
      rewrite go_len_app, !go_len_cons, go_len_app. lia.
Qed.

Lemma label_count_bound ls : len (encode ls) <= 255 -> (length ls < unpack_fuel)%nat.
Proof. intros H. pose proof (encode_length_labels ls). unfold len, unpack_fuel in *. lia. Qed.

(* UnpackDomainName on the wire form of a well-formed name — at any offset, whatever precedes and follows it —
   prints the model's [present] and stops just past the name's root octet *)
Lemma unpack_name_encode_lemma pre ls post :
  name_wf ls = true -> Forall (fun b => b < 256) pre -> Forall (fun b => b < 256) post ->
  unpack_name (pre ++ encode ls ++ post) (len pre) = Some (present ls, len pre + len (encode ls)).
Proof.
  intros Hw Hpre Hpost. apply name_wf_shape in Hw. destruct Hw as [Hsh [Hlb Hn]].
  unfold unpack_name.
  replace (Z.of_N (len pre)) with (go_len pre) by (unfold len, go_len; lia).
  rewrite (unpack_loop_encode ls unpack_fuel pre post [] dns_max_name_wire_octets 0%Z 0%Z Hsh Hlb Hpre Hpost).
  2:{ apply label_count_bound. exact Hn. }
  2:{ unfold dns_max_name_wire_octets. lia. }
  cbn [Z.eqb app]. f_equal. f_equal.
  - destruct ls as [|l ls]; [reflexivity|].
    cbn [flat_map present]. unfold present_label at 1.
    destruct (flat_map present_byte l); reflexivity.
  - unfold len, go_len. lia.
Qed.

Lemma unpack_name_encode0_lemma ls :
  name_wf ls = true -> unpack_name (encode ls) 0 = Some (present ls, len (encode ls)).
Proof.
  intros Hw. pose proof (unpack_name_encode_lemma [] ls [] Hw (Forall_nil _) (Forall_nil _)) as H.
  cbn [app] in H. rewrite app_nil_r in H. exact H.
Qed.

(* the property's sentence "names are keyed identically whether they arrive as wire labels or presentation
   text, including escaped and non-printable octets", with the presentation text being what the decoder
   prints: for every hash function the wire key of a well-formed name is the presentation key of the text
   UnpackDomainName produces from the same octets, and the collision verifier of the wire path accepts that
   text *)
Lemma wire_and_decoded_text_keyed_identically_lemma (K : Type) (H : bytes -> K) ls qt qc cd p :
  name_wf ls = true ->
  exists text,
    unpack_name (encode ls) 0 = Some (text, len (encode ls)) /\
    pre_keywirewithprefix (encode ls) qt qc cd p = Some (pre_keywithprefix text qt qc cd p) /\
    option_map H (pre_keywirewithprefix (encode ls) qt qc cd p) = Some (H (pre_keywithprefix text qt qc cd p)) /\
    wire_equals_pres (encode ls) text = true.
Proof.
  intros Hw. exists (present ls). repeat split.
  - apply unpack_name_encode0_lemma. exact Hw.
  - apply wire_pres_prefix_preimage_eq_lemma. exact Hw.
  - apply wire_pres_key_eq_lemma. exact Hw.
  - apply wire_equals_pres_spec_lemma.
    + apply name_wf_shape in Hw as Hs. destruct Hs as [Hsh [Hlb _]]. apply Forall_bytes_of_labels; assumption.
    + exists ls. split; [exact Hw|split; reflexivity].
Qed.

(* more iterations than unpack_fuel change nothing: every turn of the walk spends at least two units of the
   budget (a label) or one of the 126 pointers, so None is always one of the decoder's error returns, never an
   exhausted iteration budget *)
Lemma unpack_loop_fuel_enough : forall fuel extra msg off s budget ptr off1,
  (0 <= ptr <= 126)%Z -> (Z.max 0 budget + 2 * (126 - ptr) < 2 * Z.of_nat fuel)%Z ->
  unpack_loop (fuel + extra) msg off s budget ptr off1 = unpack_loop fuel msg off s budget ptr off1.
Proof.
  induction fuel as [|f IH]; intros extra msg off s budget ptr off1 Hp Hm; [lia|].
  cbn [Nat.add unpack_loop]. unfold dns_max_compression_pointers.
  destruct (off >=? go_len msg)%Z; [reflexivity|].
  set (c := Z.of_N (go_idx 0 msg off)). assert (Hc : (0 <= c)%Z) by (unfold c; lia).
  destruct (Z.land c 192 =? 0)%Z.
  - destruct (c =? 0)%Z eqn:E0; [reflexivity|].
    destruct (off + 1 + c >? go_len msg)%Z; [reflexivity|].
    destruct (budget - (c + 1) <=? 0)%Z eqn:Eb; [reflexivity|].
    apply IH; lia.
  - destruct (Z.land c 192 =? 192)%Z; [|reflexivity].
    destruct (off + 1 >=? go_len msg)%Z; [reflexivity|].
    destruct (ptr + 1 >? 126)%Z eqn:Ep; [reflexivity|].
    apply IH; lia.
Qed.

Lemma unpack_fuel_never_exhausted_lemma extra msg off :
  unpack_loop (unpack_fuel + extra) msg off [] dns_max_name_wire_octets 0%Z 0%Z =
  unpack_loop unpack_fuel msg off [] dns_max_name_wire_octets 0%Z 0%Z.
Proof. apply unpack_loop_fuel_enough; unfold dns_max_name_wire_octets, unpack_fuel; lia. Qed.

(* non-vacuity: an escaped dot, a control octet and an upper-case letter; a name behind a message header read
   through a compression pointer; the pointer limit *)
Example ex_unpack_escapes :
  name_wf [[97; 46]; [1]; [65]] = true /\
  unpack_name (encode [[97; 46]; [1]; [65]]) 0 = Some ([97; 92; 46; 46; 92; 48; 48; 49; 46; 65; 46], 8) /\
  unpack_name [9; 9; 1; 97; 0; 1; 98; 192; 2] 5 = Some ([98; 46; 97; 46], 9) /\
  unpack_name [192; 0] 0 = None.
Proof. vm_compute. repeat split; reflexivity. Qed.
