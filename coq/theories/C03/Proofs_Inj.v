(* C03 — the key preimage is injective on (class, type, cd, folded name,
   family, bits, masked address): without a hash collision no two questions
   share a key. *)
From Sdns Require Import Common.Base Gen.C03 C03.Model C03.Proofs_Key.
Open Scope N_scope.

Definition pres_clean (s : bytes) : bool := forallb printable s.

Lemma present_clean ls : name_wf ls = true -> pres_clean (present ls) = true.
Proof.
  intros Hw. apply name_wf_shape in Hw. destruct Hw as [_ [Hb _]].
  unfold pres_clean. destruct ls as [|l0 ls0]; [reflexivity|].
  unfold present. remember (l0 :: ls0) as ls eqn:E. clear E l0 ls0.
  induction ls as [|l ls IH]; [reflexivity|]. inversion Hb as [|? ? Hl Hls]; subst. cbn [flat_map].
  rewrite forallb_app, IH by assumption. rewrite andb_true_r.
  unfold present_label. rewrite forallb_app. cbn [forallb].
  replace (printable 46 && true) with true by reflexivity. rewrite andb_true_r.
  clear IH Hls Hb. induction l as [|b r IHl]; [reflexivity|]. inversion Hl; subst. cbn [flat_map].
  rewrite forallb_app, present_byte_printable, IHl by assumption. reflexivity.
Qed.

Lemma fold_byte_ge32 b : printable b = true -> 32 <= fold_byte b.
Proof.
  unfold printable, fold_byte. intros Hp. apply andb_prop in Hp. destruct Hp as [H1 _]. apply N.leb_le in H1.
  destruct ((65 <=? b) && (b <=? 90)); lia.
Qed.

Lemma fold_clean_ge32 s : pres_clean s = true -> Forall (fun x => 32 <= x) (fold s).
Proof.
  unfold pres_clean. intros Hc. rewrite forallb_forall in Hc. apply Forall_forall. intros x Hx.
  unfold fold in Hx. apply in_map_iff in Hx. destruct Hx as [b [Hb Hin]]. subst x. apply fold_byte_ge32. apply Hc. exact Hin.
Qed.

(* two strings of bytes >= 32, each followed by a marker < 32, split uniquely *)
Lemma split_at_marker (a b : bytes) x y r r' :
  Forall (fun v => 32 <= v) a -> Forall (fun v => 32 <= v) b -> x < 32 -> y < 32 ->
  a ++ x :: r = b ++ y :: r' -> a = b /\ x = y /\ r = r'.
Proof.
  revert b. induction a as [|u a IH]; intros b Ha Hb Hx Hy He.
  - destruct b as [|v b]; cbn in He.
    + inversion He; subst. tauto.
    + inversion He; subst. inversion Hb; subst. lia.
  - destruct b as [|v b]; cbn in He.
    + inversion He; subst. inversion Ha; subst. lia.
    + inversion He; subst. inversion Ha; subst. inversion Hb; subst.
      destruct (IH b) as [E1 [E2 E3]]; try assumption. subst. tauto.
Qed.

Lemma no_marker_in_clean (a b : bytes) x r :
  Forall (fun v => 32 <= v) b -> x < 32 -> a ++ x :: r = b -> False.
Proof.
  intros Hb Hx He. subst b. apply Forall_app in Hb. destruct Hb as [_ Hb]. inversion Hb; subst. lia.
Qed.

Lemma app_eq_len {A} (a a' b b' : list A) :
  length a = length a' -> a ++ b = a' ++ b' -> a = a' /\ b = b'.
Proof.
  revert a'. induction a as [|x a IH]; intros [|y a'] Hl He; try discriminate.
  - cbn in He. tauto.
  - cbn in Hl, He. inversion He; subst. destruct (IH a') as [E1 E2]; [lia|assumption|]. subst. tauto.
Qed.

Lemma header_inj t c cd t' c' cd' :
  t < 65536 -> c < 65536 -> t' < 65536 -> c' < 65536 ->
  header t c cd = header t' c' cd' -> t = t' /\ c = c' /\ cd = cd'.
Proof.
  intros Ht Hc Ht' Hc' He. unfold header in He. inversion He as [[H1 H2 H3 H4 H5]].
  repeat split; try lia.
  destruct cd, cd'; try reflexivity; discriminate.
Qed.

(* ---- masked addresses *)

Lemma mask_zero_fix l : Forall (fun b => b < 256) l -> mask_bytes 0 l = l -> Forall (fun b => b = 0) l.
Proof.
  induction l as [|b r IH]; intros Hb Hm; [constructor|].
  inversion Hb; subst. cbn [mask_bytes] in Hm.
  destruct (8 <=? 0) eqn:E; [apply N.leb_le in E; lia|].
  injection Hm as Hm1 Hm2. constructor; [|apply IH; assumption].
  change (2 ^ (8 - 0)) with 256 in Hm1. rewrite N.mod_small in Hm1 by assumption. lia.
Qed.

Lemma all_zero_eq (a b : bytes) :
  Forall (fun v => v = 0) a -> Forall (fun v => v = 0) b -> length a = length b -> a = b.
Proof.
  revert b. induction a as [|x a IH]; intros [|y b] Ha Hb Hl; try discriminate; [reflexivity|].
  inversion Ha; inversion Hb; subst. f_equal. apply IH; try assumption. cbn in Hl. lia.
Qed.

Lemma masked_determined (a : bytes) : forall (b : bytes) bits,
  Forall (fun v => v < 256) a -> Forall (fun v => v < 256) b ->
  mask_bytes bits a = a -> mask_bytes bits b = b -> length a = length b ->
  firstn (N.to_nat ((bits + 7) / 8)) a = firstn (N.to_nat ((bits + 7) / 8)) b -> a = b.
Proof.
  induction a as [|x a IH]; intros [|y b] bits Ha Hb Hma Hmb Hl Hf; try discriminate; [reflexivity|].
  apply Forall_cons_iff in Ha. destruct Ha as [Hx256 Ha]. apply Forall_cons_iff in Hb. destruct Hb as [Hy256 Hb].
  cbn [mask_bytes] in Hma, Hmb. cbn [length] in Hl.
  destruct (8 <=? bits) eqn:E.
  - apply N.leb_le in E. injection Hma as Hma'. injection Hmb as Hmb'.
    assert (Hk : N.to_nat ((bits + 7) / 8) = S (N.to_nat ((bits - 8 + 7) / 8))) by lia.
    rewrite Hk in Hf. cbn [firstn] in Hf. injection Hf as Hxy Hf'. f_equal; [exact Hxy|].
    apply (IH b (bits - 8)); try assumption. lia.
  - apply N.leb_gt in E. injection Hma as Hx Hma'. injection Hmb as Hy Hmb'.
    assert (Hza : Forall (fun v => v = 0) a) by (apply mask_zero_fix; assumption).
    assert (Hzb : Forall (fun v => v = 0) b) by (apply mask_zero_fix; assumption).
    assert (Hab : a = b) by (apply all_zero_eq; try assumption; lia).
    subst b. f_equal.
    destruct (N.eq_dec bits 0) as [E0|E0].
    + subst bits. change (2 ^ (8 - 0)) with 256 in Hx, Hy. rewrite N.mod_small in Hx, Hy by assumption. lia.
    + assert (Hk : N.to_nat ((bits + 7) / 8) = 1%nat) by (clear - E E0; lia).
      rewrite Hk in Hf. cbn [firstn] in Hf. injection Hf as Hxy. exact Hxy.
Qed.

Lemma firstn_min_len {A} k (l : list A) : firstn (Nat.min k (length l)) l = firstn k l.
Proof.
  destruct (Nat.le_ge_cases k (length l)) as [Hle|Hge].
  - rewrite Nat.min_l by exact Hle. reflexivity.
  - rewrite Nat.min_r by exact Hge. rewrite firstn_all. symmetry. apply firstn_all2. exact Hge.
Qed.

Lemma addr_len_firstn s :
  firstn (N.to_nat (addr_len 7 8 s)) (sc_addr s) = firstn (N.to_nat ((sc_bits s + 7) / 8)) (sc_addr s).
Proof.
  unfold addr_len, len. rewrite N2Nat.inj_min, Nat2N.id. apply firstn_min_len.
Qed.

(* a normalised scope: what normalizeKeyScope returns / what an entry carries *)
Definition scope_normal (p : option scope) : Prop :=
  match p with
  | None => True
  | Some s => scope_wf s = true /\ sc_bits s <> 0 /\ masked s = s
  end.

Lemma scope_wf_parts s : scope_wf s = true ->
  length (sc_addr s) = (if sc_is4 s then 4%nat else 16%nat) /\ sc_bits s <= 128 /\ Forall (fun b => b < 256) (sc_addr s).
Proof.
  unfold scope_wf. intros Hw. apply andb_prop in Hw. destruct Hw as [Hw Hb]. apply andb_prop in Hw. destruct Hw as [Hl Hbits].
  apply Nat.eqb_eq in Hl. apply N.leb_le in Hbits. repeat split.
  - exact Hl.
  - destruct (sc_is4 s); lia.
  - rewrite forallb_forall in Hb. apply Forall_forall. intros b Hin. apply N.ltb_lt. apply Hb. exact Hin.
Qed.

Lemma scope_suffix_inj s1 s2 :
  scope_wf s1 = true -> scope_wf s2 = true -> masked s1 = s1 -> masked s2 = s2 ->
  scope_suffix 4 6 7 8 s1 = scope_suffix 4 6 7 8 s2 -> s1 = s2.
Proof.
  intros Hw1 Hw2 Hm1 Hm2 He.
  apply scope_wf_parts in Hw1. apply scope_wf_parts in Hw2.
  destruct Hw1 as [Hl1 [Hb1 Hf1]]. destruct Hw2 as [Hl2 [Hb2 Hf2]].
  unfold scope_suffix in He. cbn [app] in He. inversion He as [[Hfam Hbits Haddr]].
  assert (His : sc_is4 s1 = sc_is4 s2) by (destruct (sc_is4 s1), (sc_is4 s2); try reflexivity; discriminate).
  assert (Hbe : sc_bits s1 = sc_bits s2) by (rewrite !N.mod_small in Hbits by lia; exact Hbits).
  rewrite !addr_len_firstn in Haddr.
  destruct s1 as [i1 b1 a1], s2 as [i2 b2 a2]. cbn [sc_is4 sc_bits sc_addr] in *. subst i2 b2.
  unfold masked in Hm1, Hm2. cbn [sc_is4 sc_bits sc_addr] in Hm1, Hm2. injection Hm1 as Hma. injection Hm2 as Hmb.
  f_equal. apply (masked_determined a1 a2 b1); try assumption.
  rewrite Hl1, Hl2. reflexivity.
Qed.

(* the preimage determines the whole key *)
Lemma preimage_injective_lemma n1 t1 c1 cd1 p1 n2 t2 c2 cd2 p2 :
  pres_clean n1 = true -> pres_clean n2 = true ->
  t1 < 65536 -> c1 < 65536 -> t2 < 65536 -> c2 < 65536 ->
  scope_normal p1 -> scope_normal p2 ->
  cachekey_pre (mk_q n1 t1 c1) cd1 p1 = cachekey_pre (mk_q n2 t2 c2) cd2 p2 ->
  fold n1 = fold n2 /\ t1 = t2 /\ c1 = c2 /\ cd1 = cd2 /\ p1 = p2.
Proof.
  intros Hn1 Hn2 Ht1 Hc1 Ht2 Hc2 Hp1 Hp2 He.
  pose proof (fold_clean_ge32 n1 Hn1) as G1. pose proof (fold_clean_ge32 n2 Hn2) as G2.
  unfold cachekey_pre in He. cbn [q_name q_type q_class] in He.
  assert (Hsplit : forall x y, header t1 c1 cd1 ++ x = header t2 c2 cd2 ++ y ->
                               (t1 = t2 /\ c1 = c2 /\ cd1 = cd2) /\ x = y).
  { intros x y Hxy. apply app_eq_len in Hxy; [|reflexivity]. destruct Hxy as [Hh Hxy]. split; [|exact Hxy].
    apply header_inj in Hh; assumption. }
  destruct p1 as [s1|], p2 as [s2|]; cbn [scope_normal] in Hp1, Hp2.
  - destruct Hp1 as [Hw1 [Hb1 Hm1]]. destruct Hp2 as [Hw2 [Hb2 Hm2]].
    apply N.eqb_neq in Hb1, Hb2. rewrite Hb1, Hb2 in He. cbn [pre_keywithprefix] in He.
    unfold fold_key, fold_keypfx in He; fold (fold n1) in He; fold (fold n2) in He. apply Hsplit in He. destruct He as [Hh He].
    change keypfx_fam4 with 4 in He. change keypfx_fam6 with 6 in He.
    change keypfx_round_add with 7 in He. change keypfx_round_div with 8 in He.
    unfold scope_suffix in He. cbn [app] in He.
    apply split_at_marker in He; try assumption; try (destruct (sc_is4 s1); lia); try (destruct (sc_is4 s2); lia).
    destruct He as [Hn [Hf Hr]]. repeat split; try tauto. f_equal.
    apply scope_suffix_inj; try assumption. unfold scope_suffix. cbn [app]. rewrite Hf, Hr. reflexivity.
  - destruct Hp1 as [Hw1 [Hb1 Hm1]]. apply N.eqb_neq in Hb1. rewrite Hb1 in He. cbn [pre_keywithprefix] in He.
    unfold pre_key in He. unfold fold_key, fold_keypfx in He; fold (fold n1) in He; fold (fold n2) in He. apply Hsplit in He. destruct He as [_ He].
    change keypfx_fam4 with 4 in He. change keypfx_fam6 with 6 in He. unfold scope_suffix in He. cbn [app] in He.
    exfalso. eapply no_marker_in_clean; [exact G2| |exact He]. destruct (sc_is4 s1); lia.
  - destruct Hp2 as [Hw2 [Hb2 Hm2]]. apply N.eqb_neq in Hb2. rewrite Hb2 in He. cbn [pre_keywithprefix] in He.
    unfold pre_key in He. unfold fold_key, fold_keypfx in He; fold (fold n1) in He; fold (fold n2) in He. apply Hsplit in He. destruct He as [_ He].
    change keypfx_fam4 with 4 in He. change keypfx_fam6 with 6 in He. unfold scope_suffix in He. cbn [app] in He.
    exfalso. symmetry in He. eapply no_marker_in_clean; [exact G1| |exact He]. destruct (sc_is4 s2); lia.
  - unfold pre_key in He. unfold fold_key, fold_keypfx in He; fold (fold n1) in He; fold (fold n2) in He. apply Hsplit in He. destruct He as [Hh He]. tauto.
Qed.

(* /22 vs /24 of one address, and v4 vs v6 with the same leading bytes, have different preimages *)
Example preimage_bits_distinguish :
  cachekey_pre (mk_q [97;46] 1 1) false (Some (mk_scope true 22 [203;0;112;0])) <>
  cachekey_pre (mk_q [97;46] 1 1) false (Some (mk_scope true 24 [203;0;112;0])).
Proof. vm_compute. discriminate. Qed.
Example preimage_family_distinguish :
  cachekey_pre (mk_q [97;46] 1 1) false (Some (mk_scope true 24 [32;1;13;0])) <>
  cachekey_pre (mk_q [97;46] 1 1) false (Some (mk_scope false 24 [32;1;13;0;0;0;0;0;0;0;0;0;0;0;0;0])).
Proof. vm_compute. discriminate. Qed.
