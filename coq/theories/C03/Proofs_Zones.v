(* C03 — the ancestor walks (walkFailureZones / dnsname.Suffixes on presentation text, walkWireSuffixes on wire
   labels): the model's text walk `name_suffixes` / `label_suffixes` visits exactly the label-level ancestors of
   the name — what the wire walk visits — for labels over every octet value (escaped dots, escaped backslashes,
   \DDD), so a zone-wide failure or a subtree cut found on the decoded route was recorded for a true ancestor
   of the question's name and the two routes consult the same zones. *)
From Sdns Require Import Common.Base Common.GoList Gen.C03 C03.Model C03.Proofs_Key.
Open Scope N_scope.

(* ---- drop_label, clause by clause (the definition matches on the literals 92 and 46) *)
Lemma drop_label_esc c r : drop_label (92 :: c :: r) = drop_label r.
Proof. reflexivity. Qed.
Lemma drop_label_dot r : drop_label (46 :: r) = r.
Proof. reflexivity. Qed.
Lemma drop_label_other b r : b <> 92 -> b <> 46 -> drop_label (b :: r) = drop_label r.
Proof.
  intros H1 H2. destruct b as [|p]; [reflexivity|].
  do 8 (try (destruct p as [p|p|]; try reflexivity; try (exfalso; first [apply H1; reflexivity | apply H2; reflexivity]))).
Qed.
Lemma drop_label_esc_end : drop_label [92] = [].
Proof. reflexivity. Qed.

Lemma drop_label_present_byte b r : drop_label (present_byte b ++ r) = drop_label r.
Proof.
  unfold present_byte.
  destruct ((b =? 46) || (b =? 32) || (b =? 39) || (b =? 64) || (b =? 59) || (b =? 40) || (b =? 41) || (b =? 34) || (b =? 92)) eqn:Es.
  - cbn [app]. apply drop_label_esc.
  - destruct ((b <? 32) || (126 <? b)) eqn:Ep; cbn [app].
    + rewrite drop_label_esc.
      pose proof (N.mod_upper_bound (b / 10) 10 ltac:(lia)). pose proof (N.mod_upper_bound b 10 ltac:(lia)).
      rewrite !drop_label_other by lia. reflexivity.
    + apply drop_label_other; lia.
Qed.

Lemma drop_label_present_label l r : drop_label (present_label l ++ r) = r.
Proof.
  unfold present_label. induction l as [|b l IH]; cbn [flat_map app].
  - apply drop_label_dot.
  - rewrite <- !app_assoc. rewrite drop_label_present_byte. rewrite app_assoc. exact IH.
Qed.

(* the text of a non-empty label has at least two characters, the first of them not the separator *)
Lemma present_byte_head b : exists c t, present_byte b = c :: t /\ (c = 46 -> t <> []).
Proof.
  unfold present_byte.
  destruct ((b =? 46) || (b =? 32) || (b =? 39) || (b =? 64) || (b =? 59) || (b =? 40) || (b =? 41) || (b =? 34) || (b =? 92)) eqn:Es.
  - eexists _, _. split; [reflexivity|]. intros _. discriminate.
  - destruct ((b <? 32) || (126 <? b)) eqn:Ep.
    + eexists _, _. split; [reflexivity|]. intros _. discriminate.
    + eexists _, _. split; [reflexivity|]. intros Hc. exfalso. lia.
Qed.

Lemma present_label_two l r : l <> [] -> exists a b t, present_label l ++ r = a :: b :: t.
Proof.
  intros Hl. destruct l as [|x l]; [congruence|]. unfold present_label. cbn [flat_map].
  destruct (present_byte_head x) as [c [t [E _]]]. rewrite E. cbn [app].
  destruct t as [|d t]; cbn [app].
  - destruct (flat_map present_byte l) as [|e u]; cbn [app]; eexists _, _, _; reflexivity.
  - eexists _, _, _; reflexivity.
Qed.

Lemma pres_suffixes_two f a b t :
  pres_suffixes (S f) (a :: b :: t) = (a :: b :: t) :: pres_suffixes f (drop_label (a :: b :: t)).
Proof.
  cbn [pres_suffixes]. destruct a as [|p]; [reflexivity|].
  do 7 (try (destruct p as [p|p|]; try reflexivity)).
Qed.

Lemma pres_suffixes_nil f : pres_suffixes f [] = [].
Proof. destruct f; reflexivity. Qed.

Definition labels_nonempty (ls : list label) : Prop := Forall (fun l : label => l <> []) ls.

Lemma tails_nonempty {A} (l : list A) : tails l <> [].
Proof. destruct l; discriminate. Qed.

Lemma removelast_tails_cons {A} (x : A) l : removelast (tails (x :: l)) = (x :: l) :: removelast (tails l).
Proof.
  cbn [tails]. change (removelast ((x :: l) :: tails l) = (x :: l) :: removelast (tails l)).
  cbn [removelast]. destruct (tails l) eqn:E; [exfalso; exact (tails_nonempty l E)|reflexivity].
Qed.

Lemma last_tails {A} (l : list A) : last (tails l) [] = [].
Proof.
  induction l as [|x l IH]; [reflexivity|].
  cbn [tails]. change (last ((x :: l) :: tails l) [] = []).
  cbn [last]. destruct (tails l) eqn:E; [exfalso; exact (tails_nonempty l E)|exact IH].
Qed.

Lemma tails_snoc {A} (l : list A) : tails l = removelast (tails l) ++ [[]].
Proof.
  rewrite <- (last_tails l) at 3. apply app_removelast_last. apply tails_nonempty.
Qed.

(* the text walk over the printed labels, label by label *)
Lemma pres_suffixes_present ls : labels_nonempty ls -> ls <> [] -> forall f, (length ls < f)%nat ->
  pres_suffixes f (flat_map present_label ls) = map present (removelast (tails ls)).
Proof.
  induction ls as [|l ls IH]; intros Hne Hnil f Hf; [congruence|].
  inversion Hne as [|? ? Hl Hrest]; subst.
  destruct f as [|f]; [lia|]. cbn [flat_map].
  destruct (present_label_two l (flat_map present_label ls) Hl) as [a [b [t E]]].
  rewrite E, pres_suffixes_two, <- E, drop_label_present_label.
  rewrite removelast_tails_cons. cbn [map]. f_equal.
  destruct ls as [|l2 ls2].
  - cbn [flat_map tails removelast map]. apply pres_suffixes_nil.
  - apply IH; [exact Hrest|discriminate|cbn [length] in *; lia].
Qed.

Lemma flat_map_present_label_length ls : (length ls <= length (flat_map present_label ls))%nat.
Proof.
  induction ls as [|l ls IH]; cbn [flat_map length]; [lia|].
  rewrite app_length. unfold present_label at 1. rewrite app_length. cbn [length]. lia.
Qed.

(* dnsname.Suffixes on the printed name: every ancestor but the root, as the decoder prints it *)
Lemma label_suffixes_present_lemma ls : labels_nonempty ls ->
  label_suffixes (present ls) = map present (removelast (tails ls)).
Proof.
  intros Hne. destruct ls as [|l ls]; [reflexivity|].
  unfold label_suffixes, present. apply pres_suffixes_present; [exact Hne|discriminate|].
  pose proof (flat_map_present_label_length (l :: ls)). lia.
Qed.

(* walkFailureZones on the printed name: every ancestor, the root last *)
Lemma name_suffixes_present_lemma ls : labels_nonempty ls ->
  name_suffixes (present ls) = map present (tails ls).
Proof.
  intros Hne. unfold name_suffixes. rewrite label_suffixes_present_lemma by exact Hne.
  rewrite (tails_snoc ls) at 2. rewrite map_app. reflexivity.
Qed.

(* lower-casing the printed name is printing the lower-cased labels *)
Lemma fold_present_byte b : b < 256 -> fold (present_byte b) = present_byte (fold_byte b).
Proof.
  intros Hb. apply bytes_eqb_eq.
  revert b Hb. apply (byte_forall (fun b => bytes_eqb (fold (present_byte b)) (present_byte (fold_byte b)))).
  vm_compute. reflexivity.
Qed.

Definition fold_labels (ls : list label) : list label := map fold ls.

Lemma fold_present_label l : Forall (fun b => b < 256) l -> fold (present_label l) = present_label (fold l).
Proof.
  intros Hb. unfold present_label. rewrite fold_app. f_equal.
  induction Hb as [|b l Hb _ IH]; [reflexivity|].
  cbn [flat_map fold map]. rewrite fold_app, fold_present_byte by exact Hb. f_equal. exact IH.
Qed.

Lemma fold_present ls : Forall (fun l => Forall (fun b => b < 256) l) ls -> fold (present ls) = present (fold_labels ls).
Proof.
  intros Hb. destruct ls as [|l ls]; [reflexivity|].
  unfold present, fold_labels. cbn [map].
  induction Hb as [|x xs Hx _ IH]; [reflexivity|].
  cbn [flat_map map]. rewrite fold_app, fold_present_label by exact Hx. f_equal. exact IH.
Qed.

Lemma tails_map {A B} (g : A -> B) l : tails (map g l) = map (map g) (tails l).
Proof. induction l as [|x l IH]; [reflexivity|]. cbn [map tails]. f_equal. exact IH. Qed.

Lemma Forall_tails {A} (P : A -> Prop) l : Forall P l -> Forall (Forall P) (tails l).
Proof.
  induction 1 as [|x l Hx Hl IH]; [repeat constructor|].
  cbn [tails]. constructor; [constructor; assumption|exact IH].
Qed.

Lemma wf_labels_nonempty ls : Forall label_shape ls -> labels_nonempty ls.
Proof.
  intros H. eapply Forall_impl; [|exact H]. intros l [H1 _] ->. unfold len in H1. cbn in H1. lia.
Qed.

Lemma fold_labels_nonempty ls : labels_nonempty ls -> labels_nonempty (fold_labels ls).
Proof.
  unfold labels_nonempty, fold_labels. intros H. apply Forall_map. eapply Forall_impl; [|exact H].
  intros l Hl E. apply Hl. destruct l; [reflexivity|discriminate].
Qed.

(* the decoded failure route: walkFailureZones on the canonical form of the printed name hands the callback the
   lower-cased text of every label-level ancestor, the root last *)
Lemma name_suffixes_canonical_present_lemma ls : name_wf ls = true ->
  name_suffixes (canonical (present ls)) = map (fun t => fold (present t)) (tails ls).
Proof.
  intros Hw. apply name_wf_shape in Hw. destruct Hw as [Hsh [Hb _]].
  unfold canonical. rewrite fold_present by exact Hb.
  rewrite name_suffixes_present_lemma by (apply fold_labels_nonempty, wf_labels_nonempty; exact Hsh).
  unfold fold_labels. rewrite tails_map, map_map.
  apply map_ext_in. intros t Ht. symmetry. apply fold_present.
  pose proof (Forall_tails _ _ Hb) as Ht2. rewrite Forall_forall in Ht2. apply Ht2. exact Ht.
Qed.

(* the wire routes: walkWireSuffixes on the uncompressed wire name hands the callback the wire form of the same
   ancestors *)
Lemma wire_suffixes_encode ls : Forall label_shape ls -> forall f, (length ls < f)%nat ->
  wire_suffixes f (encode ls) = map encode (tails ls).
Proof.
  induction ls as [|l ls IH]; intros Hsh f Hf.
  - destruct f as [|f]; [cbn in Hf; lia|]. reflexivity.
  - inversion Hsh as [|? ? Hl Hrest]; subst. destruct f as [|f]; [lia|].
    rewrite encode_cons. cbn [wire_suffixes tails map]. rewrite <- encode_cons. f_equal.
    destruct Hl as [H1 H2].
    destruct (len l =? 0) eqn:E0; [apply N.eqb_eq in E0; lia|].
    destruct (63 <? len l) eqn:E1; [apply N.ltb_lt in E1; lia|].
    destruct (len (l ++ encode ls) <? len l) eqn:E2; [apply N.ltb_lt in E2; rewrite len_app in E2; lia|].
    cbn [orb]. unfold len at 1. rewrite Nat2N.id. rewrite skipn_app, skipn_all, Nat.sub_diag. cbn [app skipn].
    apply IH; [exact Hrest|cbn [length] in Hf; lia].
Qed.

Lemma wire_name_suffixes_encode_lemma ls : name_wf ls = true ->
  wire_name_suffixes (encode ls) = map encode (tails ls).
Proof.
  intros Hw. apply name_wf_shape in Hw. destruct Hw as [Hsh _].
  unfold wire_name_suffixes. apply wire_suffixes_encode; [exact Hsh|].
  pose proof (encode_length_labels ls). lia.
Qed.

(* an element of the text walk is the text of a label suffix of the name *)
Lemma in_tails_suffix {A} (t l : list A) : In t (tails l) -> exists pre, l = pre ++ t.
Proof.
  induction l as [|x l IH]; cbn [tails]; intros [E|Hin].
  - exists []. subst. reflexivity.
  - destruct Hin.
  - exists []. subst. reflexivity.
  - destruct (IH Hin) as [pre E]. exists (x :: pre). rewrite E. reflexivity.
Qed.
