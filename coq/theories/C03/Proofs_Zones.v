(* C03 — the ancestor walks (walkFailureZones / dnsname.Suffixes on presentation text, walkWireSuffixes on wire
   labels): the model's text walk `name_suffixes` / `label_suffixes` visits exactly the label-level ancestors of
   the name — what the wire walk visits — for labels over every octet value (escaped dots, escaped backslashes,
   \DDD), so a zone-wide failure or a subtree cut found on the decoded route was recorded for a true ancestor
   of the question's name and the two routes consult the same zones. *)
From Sdns Require Import Common.Base Common.GoList Gen.C03 C03.Model C03.Proofs_Key.
Open Scope N_scope.

(* ---- drop_label, clause by clause (the definition matches on the literals 92 and 46) *)
Lemma drop_label_esc c r : drop_label (92 :: c :: r) = drop_label r.
Proof. reflexivity. Qed.
Lemma drop_label_dot r : drop_label (46 :: r) = r.
Proof. reflexivity. Qed.
Lemma drop_label_other b r : b <> 92 -> b <> 46 -> drop_label (b :: r) = drop_label r.
Proof.
  intros H1 H2. destruct b as [|p]; [reflexivity|].
  do 8 (try (destruct p as [p|p|]; try reflexivity; try (exfalso; first [apply H1; reflexivity | apply H2; reflexivity]))).
Qed.
Lemma drop_label_esc_end : drop_label [92] = [].
Proof. reflexivity. Qed.

Lemma drop_label_present_byte b r : drop_label (present_byte b ++ r) = drop_label r.
Proof.
  unfold present_byte.
  destruct ((b =? 46) || (b =? 32) || (b =? 39) || (b =? 64) || (b =? 59) || (b =? 40) || (b =? 41) || (b =? 34) || (b =? 92)) eqn:Es.
  - cbn [app]. apply drop_label_esc.
  - destruct ((b <? 32) || (126 <? b)) eqn:Ep; cbn [app].
    + rewrite drop_label_esc.
      pose proof (N.mod_upper_bound (b / 10) 10 ltac:(lia)). pose proof (N.mod_upper_bound b 10 ltac:(lia)).
      rewrite !drop_label_other by lia. reflexivity.
    + apply drop_label_other; lia.
Qed.

Lemma drop_label_present_label l r : drop_label (present_label l ++ r) = r.
Proof.
  unfold present_label. induction l as [|b l IH]; cbn [flat_map app].
  - apply drop_label_dot.
  - rewrite <- !app_assoc. rewrite drop_label_present_byte. rewrite app_assoc. exact IH.
Qed.

(* the text of a non-empty label has at least two characters, the first of them not the separator *)
Lemma present_byte_head b : exists c t, present_byte b = c :: t /\ (c = 46 -> t <> []).
Proof.
  unfold present_byte.
  destruct ((b =? 46) || (b =? 32) || (b =? 39) || (b =? 64) || (b =? 59) || (b =? 40) || (b =? 41) || (b =? 34) || (b =? 92)) eqn:Es.
  - eexists _, _. split; [reflexivity|]. intros _. discriminate.
  - destruct ((b <? 32) || (126 <? b)) eqn:Ep.
    + eexists _, _. split; [reflexivity|]. intros _. discriminate.
    + eexists _, _. split; [reflexivity|]. intros Hc. exfalso. lia.
Qed.

Lemma present_label_two l r : l <> [] -> exists a b t, present_label l ++ r = a :: b :: t.
Proof.
  intros Hl. destruct l as [|x l]; [congruence|]. unfold present_label. cbn [flat_map].
  destruct (present_byte_head x) as [c [t [E _]]]. rewrite E. cbn [app].
  destruct t as [|d t]; cbn [app].
  - destruct (flat_map present_byte l) as [|e u]; cbn [app]; eexists _, _, _; reflexivity.
  - eexists _, _, _; reflexivity.
Qed.

Lemma pres_suffixes_two f a b t :
  pres_suffixes (S f) (a :: b :: t) = (a :: b :: t) :: pres_suffixes f (drop_label (a :: b :: t)).
Proof.
  cbn [pres_suffixes]. destruct a as [|p]; [reflexivity|].
  do 7 (try (destruct p as [p|p|]; try reflexivity)).
Qed.

Lemma pres_suffixes_nil f : pres_suffixes f [] = [].
Proof. destruct f; reflexivity. Qed.

Definition labels_nonempty (ls : list label) : Prop := Forall (fun l : label => l <> []) ls.

Lemma tails_nonempty {A} (l : list A) : tails l <> [].
Proof. destruct l; discriminate. Qed.

Lemma removelast_tails_cons {A} (x : A) l : removelast (tails (x :: l)) = (x :: l) :: removelast (tails l).
Proof.
  cbn [tails]. change (removelast ((x :: l) :: tails l) = (x :: l) :: removelast (tails l)).
  cbn [removelast]. destruct (tails l) eqn:E; [exfalso; exact (tails_nonempty l E)|reflexivity].
Qed.

Lemma last_tails {A} (l : list A) : last (tails l) [] = [].
Proof.
  induction l as [|x l IH]; [reflexivity|].
  cbn [tails]. change (last ((x :: l) :: tails l) [] = []).
  cbn [last]. destruct (tails l) eqn:E; [exfalso; exact (tails_nonempty l E)|exact IH].
Qed.

Lemma tails_snoc {A} (l : list A) : tails l = removelast (tails l) ++ [[]].
Proof.
  pose proof (app_removelast_last (@nil A) (tails_nonempty l)) as H. rewrite last_tails in H. exact H.
Qed.

(* the text walk over the printed labels, label by label *)
Lemma pres_suffixes_present ls : labels_nonempty ls -> ls <> [] -> forall f, (length ls < f)%nat ->
  pres_suffixes f (flat_map present_label ls) = map present (removelast (tails ls)).
Proof.
  induction ls as [|l ls IH]; intros Hne Hnil f Hf; [congruence|].
  inversion Hne as [|? ? Hl Hrest]; subst.
  destruct f as [|f]; [lia|]. cbn [flat_map].
  destruct (present_label_two l (flat_map present_label ls) Hl) as [a [b [t E]]].
  rewrite E, pres_suffixes_two, <- E, drop_label_present_label.
  rewrite removelast_tails_cons. cbn [map]. f_equal.
  destruct ls as [|l2 ls2].
  - cbn [flat_map tails removelast map]. apply pres_suffixes_nil.
  - apply IH; [exact Hrest|discriminate|cbn [length] in *; lia].
Qed.

Lemma flat_map_present_label_length ls : (length ls <= length (flat_map present_label ls))%nat.
Proof.
  induction ls as [|l ls IH]; cbn [flat_map length]; [lia|].
  rewrite app_length. unfold present_label at 1. rewrite app_length. cbn [length]. lia.
Qed.

(* dnsname.Suffixes on the printed name: every ancestor but the root, as the decoder prints it *)
Lemma label_suffixes_present_lemma ls : labels_nonempty ls ->
  label_suffixes (present ls) = map present (removelast (tails ls)).
Proof.
  intros Hne. destruct ls as [|l ls]; [reflexivity|].
  unfold label_suffixes, present. apply pres_suffixes_present; [exact Hne|discriminate|].
  pose proof (flat_map_present_label_length (l :: ls)). lia.
Qed.

(* walkFailureZones on the printed name: every ancestor, the root last *)
Lemma name_suffixes_present_lemma ls : labels_nonempty ls ->
  name_suffixes (present ls) = map present (tails ls).
Proof.
  intros Hne. unfold name_suffixes. rewrite label_suffixes_present_lemma by exact Hne.
  rewrite (tails_snoc ls) at 2. rewrite map_app. reflexivity.
Qed.

(* lower-casing the printed name is printing the lower-cased labels *)
Lemma fold_present_byte b : b < 256 -> fold (present_byte b) = present_byte (fold_byte b).
Proof.
  intros Hb. apply bytes_eqb_eq.
  revert b Hb. apply (byte_forall (fun b => bytes_eqb (fold (present_byte b)) (present_byte (fold_byte b)))).
  vm_compute. reflexivity.
Qed.

Definition fold_labels (ls : list label) : list label := map fold ls.

Lemma fold_present_label l : Forall (fun b => b < 256) l -> fold (present_label l) = present_label (fold l).
Proof.
  intros Hb. unfold present_label. rewrite fold_app. f_equal.
  induction Hb as [|b l Hb _ IH]; [reflexivity|].
  cbn [flat_map fold map]. rewrite fold_app, fold_present_byte by exact Hb. f_equal. exact IH.
Qed.

Lemma fold_flat_present_label ls : Forall (fun l => Forall (fun b => b < 256) l) ls ->
  fold (flat_map present_label ls) = flat_map present_label (map fold ls).
Proof.
  induction 1 as [|x xs Hx _ IH]; [reflexivity|].
  cbn [flat_map map]. rewrite fold_app, fold_present_label by exact Hx. f_equal. exact IH.
Qed.

Lemma fold_present ls : Forall (fun l => Forall (fun b => b < 256) l) ls -> fold (present ls) = present (fold_labels ls).
Proof.
  intros Hb. destruct ls as [|l ls]; [reflexivity|].
  unfold present, fold_labels. cbn [map]. apply (fold_flat_present_label (l :: ls) Hb).
Qed.

Lemma tails_map {A B} (g : A -> B) l : tails (map g l) = map (map g) (tails l).
Proof. induction l as [|x l IH]; [reflexivity|]. cbn [map tails]. f_equal. exact IH. Qed.

Lemma Forall_tails {A} (P : A -> Prop) l : Forall P l -> Forall (Forall P) (tails l).
Proof.
  induction 1 as [|x l Hx Hl IH]; [repeat constructor|].
  cbn [tails]. constructor; [constructor; assumption|exact IH].
Qed.

Lemma wf_labels_nonempty ls : Forall label_shape ls -> labels_nonempty ls.
Proof.
  intros H. eapply Forall_impl; [|exact H]. intros l [H1 _] ->. unfold len in H1. cbn in H1. lia.
Qed.

Lemma fold_labels_nonempty ls : labels_nonempty ls -> labels_nonempty (fold_labels ls).
Proof.
  unfold labels_nonempty, fold_labels. intros H. apply Forall_map. eapply Forall_impl; [|exact H].
  intros l Hl E. apply Hl. destruct l; [reflexivity|discriminate].
Qed.

(* the decoded failure route: walkFailureZones on the canonical form of the printed name hands the callback the
   lower-cased text of every label-level ancestor, the root last *)
Lemma name_suffixes_canonical_present_lemma ls : name_wf ls = true ->
  name_suffixes (canonical (present ls)) = map (fun t => fold (present t)) (tails ls).
Proof.
  intros Hw. apply name_wf_shape in Hw. destruct Hw as [Hsh [Hb _]].
  unfold canonical. rewrite fold_present by exact Hb.
  rewrite name_suffixes_present_lemma by (apply fold_labels_nonempty, wf_labels_nonempty; exact Hsh).
  unfold fold_labels. rewrite tails_map, map_map.
  apply map_ext_in. intros t Ht. symmetry. apply fold_present.
  pose proof (Forall_tails _ _ Hb) as Ht2. rewrite Forall_forall in Ht2. apply Ht2. exact Ht.
Qed.

(* the wire routes: walkWireSuffixes on the uncompressed wire name hands the callback the wire form of the same
   ancestors *)
Lemma wire_suffixes_encode ls : Forall label_shape ls -> forall f, (length ls < f)%nat ->
  wire_suffixes f (encode ls) = map encode (tails ls).
Proof.
  induction ls as [|l ls IH]; intros Hsh f Hf.
  - destruct f as [|f]; [cbn in Hf; lia|]. reflexivity.
  - inversion Hsh as [|? ? Hl Hrest]; subst. destruct f as [|f]; [lia|].
    rewrite encode_cons. cbn [wire_suffixes tails map]. rewrite <- encode_cons. f_equal.
    destruct Hl as [H1 H2].
    destruct (len l =? 0) eqn:E0; [apply N.eqb_eq in E0; lia|].
    destruct (63 <? len l) eqn:E1; [apply N.ltb_lt in E1; lia|].
    destruct (len (l ++ encode ls) <? len l) eqn:E2; [apply N.ltb_lt in E2; rewrite len_app in E2; lia|].
    cbn [orb]. unfold len at 1. rewrite Nat2N.id. rewrite skipn_app, skipn_all, Nat.sub_diag. cbn [app skipn].
    apply IH; [exact Hrest|cbn [length] in Hf; lia].
Qed.

Lemma wire_name_suffixes_encode_lemma ls : name_wf ls = true ->
  wire_name_suffixes (encode ls) = map encode (tails ls).
Proof.
  intros Hw. apply name_wf_shape in Hw. destruct Hw as [Hsh _].
  unfold wire_name_suffixes. apply wire_suffixes_encode; [exact Hsh|].
  pose proof (encode_length_labels ls). lia.
Qed.

(* an element of the text walk is the text of a label suffix of the name *)
Lemma in_tails_suffix {A} (t l : list A) : In t (tails l) -> exists pre, l = pre ++ t.
Proof.
  induction l as [|x l IH]; cbn [tails]; intros [E|Hin].
  - exists []. subst. reflexivity.
  - destruct Hin.
  - exists []. subst. reflexivity.
  - destruct (IH Hin) as [pre E]. exists (x :: pre). rewrite E. reflexivity.
Qed.

(* ------------------------------------------------------------------ *)
(* translator tie: middleware/cache.walkFailureZones (loopfunc) with miekg's dns.NextLabel translated from the
   module cache.  NextLabel decides whether a dot is escaped by counting the backslashes in front of it
   BACKWARDS; the model's drop_label scans forwards, a backslash swallowing the next octet.  nl_scan is the
   backward rule as a forward recursion carrying the length of the backslash run; it is proved equal to both. *)
From Sdns Require Import C03.Proofs_Gen.

Ltac tuple_eq :=
  repeat match goal with
         | |- (_, _) = (_, _) => f_equal
         | |- GoRet _ = GoRet _ => f_equal
         | |- Some _ = Some _ => f_equal
         end; try reflexivity; try lia.

Fixpoint lead92 (l : bytes) : nat :=
  match l with
  | x :: r => if x =? 92 then S (lead92 r) else O
  | [] => O
  end.
(* length of the run of backslashes that ends just before position i *)
Definition run_before (s : bytes) (i : nat) : nat := lead92 (rev (firstn i s)).

Lemma firstn_snoc {A} (d : A) s i : (i < length s)%nat -> firstn (S i) s = firstn i s ++ [nth i s d].
Proof.
  revert i. induction s as [|x s IH]; intros i Hi; cbn [length] in Hi; [lia|].
  destruct i as [|i]; [reflexivity|]. cbn [firstn nth app]. f_equal. apply IH. lia.
Qed.

Lemma run_before_0 s : run_before s 0 = O.
Proof. reflexivity. Qed.
Lemma run_before_S s i : (i < length s)%nat ->
  run_before s (S i) = if nth i s 0 =? 92 then S (run_before s i) else O.
Proof.
  intros Hi. unfold run_before. rewrite (firstn_snoc 0 s i Hi), rev_unit. reflexivity.
Qed.

Fixpoint nl_scan (run : nat) (rest : bytes) : option bytes :=
  match rest with
  | [] => None
  | c :: r =>
      match r with
      | [] => None
      | _ :: _ =>
          if c =? 46 then (if Nat.even run then Some r else nl_scan O r)
          else nl_scan (if c =? 92 then S run else O) r
      end
  end.

Lemma nl_scan_cons2 run c d t :
  nl_scan run (c :: d :: t) =
  if c =? 46 then (if Nat.even run then Some (d :: t) else nl_scan O (d :: t))
  else nl_scan (if c =? 92 then S run else O) (d :: t).
Proof. reflexivity. Qed.

Lemma nl_loop2_spec fuel s off i e : forall lf j, (j <= length s)%nat -> (j < lf)%nat ->
  go_NextLabel_loop2 fuel lf s off i e (Z.of_nat j - 1)%Z =
  (GoNext, (s, off, i, e, (Z.of_nat j - 1 - Z.of_nat (run_before s j))%Z)).
Proof.
  induction lf as [|lf IH]; intros j Hj Hf; [lia|].
  cbn [go_NextLabel_loop2].
  destruct j as [|j].
  - cbn [Z.of_nat]. rewrite run_before_0. reflexivity.
  - replace (Z.of_nat (S j) - 1)%Z with (Z.of_nat j) by lia.
    destruct (Z.leb 0 (Z.of_nat j)) eqn:E0; [|apply Z.leb_gt in E0; lia].
    rewrite go_idx_nth by lia. rewrite Nat2Z.id. rewrite run_before_S by lia. cbn [andb].
    destruct (nth j s 0 =? 92) eqn:E.
    + rewrite IH by lia. tuple_eq.
    + tuple_eq.
Qed.

Lemma rem2_parity run : Z.eqb (Z.rem (Z.of_nat run * -1 - 1) 2) 0 = negb (Nat.even run).
Proof.
  destruct (Nat.even run) eqn:E; cbn [negb].
  - apply Nat.even_spec in E. destruct E as [k ->]. apply Z.eqb_neq.
    replace (Z.of_nat (2 * k) * -1 - 1)%Z with (- (1 + Z.of_nat k * 2))%Z by lia.
    rewrite Z.rem_opp_l by lia. rewrite Z.rem_add by lia. cbn. lia.
  - assert (Ho : Nat.odd run = true) by (rewrite <- Nat.negb_even, E; reflexivity).
    apply Nat.odd_spec in Ho. destruct Ho as [k ->]. apply Z.eqb_eq.
    replace (Z.of_nat (2 * k + 1) * -1 - 1)%Z with (- (0 + (Z.of_nat k + 1) * 2))%Z by lia.
    rewrite Z.rem_opp_l by lia. rewrite Z.rem_add by lia. reflexivity.
Qed.

Lemma nl_loop1_spec fuel s off e : (length s < fuel)%nat ->
  forall lf i, (i <= length s)%nat -> (length s - i < lf)%nat ->
  go_NextLabel_loop1 fuel lf s off (Z.of_nat i) e =
  match nl_scan (run_before s i) (skipn i s) with
  | Some r => (GoRet (Z.of_nat (length s - length r), false), (s, off, Z.of_nat (length s - length r) - 1, e)%Z)
  | None => (GoNext, (s, off, Z.max (Z.of_nat i) (go_len s - 1), e))
  end.
Proof.
  intros Hfuel. induction lf as [|lf IH]; intros i Hi Hf; [lia|].
  cbn [go_NextLabel_loop1]. unfold go_len.
  destruct (Z.ltb (Z.of_nat i) (Z.of_nat (length s) - 1)) eqn:E.
  - apply Z.ltb_lt in E.
    assert (Hsk : exists d t, skipn (S i) s = d :: t).
    { exists (nth (S i) s 0), (skipn (S (S i)) s). apply skipn_nth_cons. lia. }
    destruct Hsk as [d [t Hr]].
    rewrite (skipn_nth_cons 0 s i) by lia. rewrite Hr, nl_scan_cons2, <- Hr.
    rewrite go_idx_nth by lia. rewrite Nat2Z.id. set (c := nth i s 0).
    replace (Z.of_nat i + 1)%Z with (Z.of_nat (S i)) by lia.
    pose proof (run_before_S s i ltac:(lia)) as Hrun. fold c in Hrun.
    destruct (c =? 46) eqn:Ec; cbn [negb].
    + assert (Hc92 : (c =? 92) = false) by (apply N.eqb_eq in Ec; rewrite Ec; reflexivity).
      rewrite Hc92 in Hrun.
      rewrite (nl_loop2_spec fuel s off (Z.of_nat i) e fuel i) by lia.
      replace (Z.of_nat i - 1 - Z.of_nat (run_before s i) - Z.of_nat i)%Z
        with (Z.of_nat (run_before s i) * -1 - 1)%Z by lia.
      rewrite rem2_parity. replace (Z.of_nat i + 1)%Z with (Z.of_nat (S i)) by lia.
      destruct (Nat.even (run_before s i)); cbn [negb].
      * rewrite skipn_length. replace (length s - (length s - S i))%nat with (S i) by lia.
        tuple_eq.
      * rewrite IH by lia. rewrite Hrun.
        destruct (nl_scan 0 (skipn (S i) s)); [reflexivity|]. unfold go_len. tuple_eq.
    + rewrite IH by lia. rewrite Hrun.
      destruct (nl_scan (if c =? 92 then S (run_before s i) else 0%nat) (skipn (S i) s)); [reflexivity|].
      unfold go_len. tuple_eq.
  - apply Z.ltb_ge in E.
    assert (Hs : nl_scan (run_before s i) (skipn i s) = None).
    { destruct (skipn i s) as [|c [|d t]] eqn:Es; [reflexivity|reflexivity|].
      exfalso. assert (Hl : (length (skipn i s) = 2 + length t)%nat) by (rewrite Es; reflexivity).
      rewrite skipn_length in Hl. lia. }
    rewrite Hs. tuple_eq.
Qed.

(* dns.NextLabel(s, 0) on a non-empty string *)
Lemma gen_NextLabel fuel s : (length s < fuel)%nat -> s <> [] ->
  go_NextLabel fuel s 0 =
  Some (match nl_scan O s with
        | Some r => (Z.of_nat (length s - length r), false)
        | None => (go_len s, true)
        end).
Proof.
  intros Hf Hs. unfold go_NextLabel.
  destruct (go_list_eqb N.eqb s []) eqn:E; [apply go_bytes_eqb_eq in E; congruence|].
  pose proof (nl_loop1_spec fuel s 0%Z false Hf fuel 0%nat ltac:(lia) ltac:(lia)) as H1.
  cbn [Z.of_nat skipn] in H1. rewrite run_before_0 in H1. rewrite H1.
  destruct (nl_scan 0 s); [reflexivity|].
  destruct s; [congruence|]. unfold go_len. cbn [length]. tuple_eq.
Qed.

Lemma drop_label_single c : drop_label [c] = [].
Proof.
  destruct (N.eq_dec c 46) as [->|H1]; [reflexivity|].
  destruct (N.eq_dec c 92) as [->|H2]; [reflexivity|].
  rewrite drop_label_other by assumption. reflexivity.
Qed.

(* the backward rule and the forward scan agree: behind an even run the scan is at a fresh octet, behind an
   odd run the next octet is escaped *)
Lemma nl_scan_drop_label : forall rest run,
  (Nat.even run = true ->
     match nl_scan run rest with Some r => drop_label rest = r /\ r <> [] | None => drop_label rest = [] end) /\
  (Nat.even run = false ->
     match rest with
     | [] => True
     | c :: r0 => match nl_scan run rest with Some r => drop_label r0 = r /\ r <> [] | None => drop_label r0 = [] end
     end).
Proof.
  induction rest as [|c r0 IH]; intros run; [split; intros _; reflexivity|].
  destruct r0 as [|d r1].
  - split; intros _; cbn [nl_scan]; [apply drop_label_single|reflexivity].
  - assert (Hs : Nat.even (S run) = negb (Nat.even run)) by (rewrite Nat.even_succ, <- Nat.negb_even; reflexivity).
    split; intros He; cbn [nl_scan]; rewrite He.
    + destruct (c =? 46) eqn:E46.
      * apply N.eqb_eq in E46. subst c. rewrite drop_label_dot. split; [reflexivity|discriminate].
      * destruct (c =? 92) eqn:E92.
        -- apply N.eqb_eq in E92. subst c. rewrite drop_label_esc.
           destruct (IH (S run)) as [_ H2]. rewrite Hs, He in H2. exact (H2 eq_refl).
        -- apply N.eqb_neq in E46, E92. rewrite drop_label_other by assumption.
           destruct (IH O) as [H1 _]. exact (H1 eq_refl).
    + destruct (c =? 46) eqn:E46.
      * destruct (IH O) as [H1 _]. exact (H1 eq_refl).
      * destruct (c =? 92) eqn:E92.
        -- destruct (IH (S run)) as [H1 _]. rewrite Hs, He in H1. exact (H1 eq_refl).
        -- destruct (IH O) as [H1 _]. exact (H1 eq_refl).
Qed.

Lemma nl_scan_suffix : forall rest run r, nl_scan run rest = Some r -> exists pre, rest = pre ++ r.
Proof.
  induction rest as [|c r0 IH]; intros run r H; [discriminate|].
  destruct r0 as [|d r1]; [discriminate|]. cbn [nl_scan] in H.
  destruct (c =? 46).
  - destruct (Nat.even run).
    + inversion H; subst. exists [c]. reflexivity.
    + destruct (IH _ _ H) as [pre E]. exists (c :: pre). rewrite E. reflexivity.
  - destruct (IH _ _ H) as [pre E]. exists (c :: pre). rewrite E. reflexivity.
Qed.

Lemma drop_label_length : forall n s, (length s <= n)%nat -> (length (drop_label s) <= length s)%nat.
Proof.
  induction n as [|n IH]; intros s Hn.
  - destruct s; [cbn; lia|cbn in Hn; lia].
  - destruct s as [|c r]; [cbn; lia|]. cbn [length] in Hn.
    destruct (N.eq_dec c 46) as [->|H1]; [rewrite drop_label_dot; cbn [length]; lia|].
    destruct (N.eq_dec c 92) as [->|H2].
    + destruct r as [|d r']; [cbn; lia|]. rewrite drop_label_esc.
      pose proof (IH r' ltac:(cbn [length] in Hn; lia)). cbn [length]. lia.
    + rewrite drop_label_other by assumption. pose proof (IH r ltac:(lia)). cbn [length]. lia.
Qed.

Lemma drop_label_shorter s : s <> [] -> (length (drop_label s) < length s)%nat.
Proof.
  destruct s as [|c r]; [congruence|]. intros _.
  destruct (N.eq_dec c 46) as [->|H1]; [rewrite drop_label_dot; cbn [length]; lia|].
  destruct (N.eq_dec c 92) as [->|H2].
  - destruct r as [|d r']; [cbn; lia|]. rewrite drop_label_esc.
    pose proof (drop_label_length _ r' (le_n _)). cbn [length]. lia.
  - rewrite drop_label_other by assumption. pose proof (drop_label_length _ r (le_n _)). cbn [length]. lia.
Qed.

Lemma pres_suffixes_step f s : s <> [] -> s <> [46] ->
  pres_suffixes (S f) s = s :: pres_suffixes f (drop_label s).
Proof.
  intros H1 H2. destruct s as [|a [|b t]]; [congruence| |apply pres_suffixes_two].
  cbn [pres_suffixes]. destruct a as [|p]; [reflexivity|].
  do 7 (try (destruct p as [p|p|]; try reflexivity; try congruence)).
Qed.

Lemma pres_suffixes_fuel : forall n s f1 f2, (length s <= n)%nat -> (length s < f1)%nat -> (length s < f2)%nat ->
  pres_suffixes f1 s = pres_suffixes f2 s.
Proof.
  induction n as [|n IH]; intros s f1 f2 Hn H1 H2.
  - destruct s; [|cbn in Hn; lia]. rewrite !pres_suffixes_nil. reflexivity.
  - destruct f1 as [|f1]; [lia|]. destruct f2 as [|f2]; [lia|].
    destruct s as [|a t] eqn:Es; [reflexivity|]. rewrite <- Es in *.
    destruct (list_eq_dec N.eq_dec s [46]) as [E|E]; [rewrite E; reflexivity|].
    assert (Hne : s <> []) by (rewrite Es; discriminate).
    rewrite !pres_suffixes_step by assumption. f_equal.
    pose proof (drop_label_shorter s Hne). apply IH; lia.
Qed.

(* walkFailureZones' loop on the canonical name: it always ends by its return statement, having handed the
   callback the elements of the model's name_suffixes in order, up to and including the first one the callback
   refuses — or the root, which ends the walk *)
Lemma wfz_loop_root fuel lf visit : go_walkFailureZones_loop1 fuel (S lf) visit [46] = (GoRet tt, (visit, [46])).
Proof.
  cbn [go_walkFailureZones_loop1]. replace (go_list_eqb N.eqb [46] [46]) with true by reflexivity.
  rewrite orb_true_r. reflexivity.
Qed.

Definition wfz_stop (visit : bytes -> bool) (zone : bytes) : bytes :=
  match first_false visit (name_suffixes zone) with Some z => z | None => [46] end.

Lemma wfz_stop_root visit : wfz_stop visit [46] = [46].
Proof. unfold wfz_stop. cbn. destruct (visit [46]); reflexivity. Qed.

Lemma name_suffixes_step s : s <> [] -> s <> [46] -> name_suffixes s = s :: name_suffixes (drop_label s).
Proof.
  intros H1 H2. unfold name_suffixes, label_suffixes. rewrite pres_suffixes_step by assumption.
  cbn [app]. f_equal. f_equal.
  pose proof (drop_label_shorter s H1). apply (pres_suffixes_fuel (length s)); lia.
Qed.

Lemma name_suffixes_nil : name_suffixes [] = [[46]].
Proof. reflexivity. Qed.

Lemma wfz_loop_spec visit fuel : forall lf zone, zone <> [] -> (length zone < fuel)%nat -> (length zone + 1 < lf)%nat ->
  go_walkFailureZones_loop1 fuel lf visit zone = (GoRet tt, (visit, wfz_stop visit zone)).
Proof.
  induction lf as [|lf IH]; intros zone Hne Hfuel Hlf; [lia|].
  destruct (list_eq_dec N.eq_dec zone [46]) as [E|E].
  { subst zone. rewrite wfz_loop_root, wfz_stop_root. reflexivity. }
  cbn [go_walkFailureZones_loop1].
  assert (Hd : go_list_eqb N.eqb zone [46] = false).
  { destruct (go_list_eqb N.eqb zone [46]) eqn:Ed; [apply go_bytes_eqb_eq in Ed; congruence|reflexivity]. }
  rewrite Hd, orb_false_r. unfold wfz_stop. rewrite (name_suffixes_step zone Hne E). cbn [first_false].
  destruct (visit zone) eqn:Ev; cbn [negb]; [|reflexivity].
  rewrite gen_NextLabel by assumption.
  destruct (nl_scan_drop_label zone O) as [Hdl _]. specialize (Hdl eq_refl).
  destruct (nl_scan O zone) as [r|] eqn:Esc.
  - destruct Hdl as [Hdl Hr]. destruct (nl_scan_suffix _ _ _ Esc) as [pre Epre].
    assert (Hsl : go_slice_from zone (Z.of_nat (length zone - length r)) = r).
    { unfold go_slice_from. rewrite Nat2Z.id. rewrite Epre at 2. rewrite Epre at 1. rewrite app_length.
      replace (length pre + length r - length r)%nat with (length pre) by lia.
      rewrite skipn_app, skipn_all, Nat.sub_diag. reflexivity. }
    rewrite Hsl, Hdl.
    assert (Hlen : (length r < length zone)%nat) by (rewrite <- Hdl; apply drop_label_shorter; exact Hne).
    rewrite IH by (try assumption; lia). reflexivity.
  - rewrite Hdl. destruct lf as [|lf]; [destruct zone; [congruence|cbn [length] in Hlf; lia]|].
    rewrite wfz_loop_root. rewrite name_suffixes_nil. cbn [first_false]. destruct (visit [46]); reflexivity.
Qed.

Lemma gen_walkFailureZones visit fuel zone : zone <> [] -> (length zone + 1 < fuel)%nat ->
  go_walkFailureZones_loop1_run fuel visit zone = (GoRet tt, (visit, wfz_stop visit zone)).
Proof.
  intros Hne Hf. unfold go_walkFailureZones_loop1_run. apply wfz_loop_spec; [exact Hne|lia|lia].
Qed.

(* ------------------------------------------------------------------ *)
(* what the walks mean for hits: a zone-wide failure / a subtree cut found for a question whose name has the
   labels ls was recorded for a label-level ancestor of ls — on the decoded route (text walk over what the
   decoder prints, escapes included) and on the wire route alike *)
From Sdns Require Import C03.Proofs_Store.

Lemma name_wf_suffix pre t : name_wf (pre ++ t) = true -> name_wf t = true.
Proof.
  intros Hw. apply name_wf_shape in Hw. destruct Hw as [Hsh [Hb Hn]].
  apply Forall_app in Hsh. apply Forall_app in Hb. apply shape_wf; [tauto|tauto|].
  assert (Hle : (length (encode t) <= length (encode (pre ++ t)))%nat).
  { clear. induction pre as [|l pre IH]; [cbn [app]; lia|].
    cbn [app]. rewrite encode_cons. cbn [length]. rewrite app_length. lia. }
  unfold len in *. lia.
Qed.

Lemma label_suffixes_canonical_present_lemma ls : name_wf ls = true ->
  label_suffixes (canonical (present ls)) = map (fun t => fold (present t)) (removelast (tails ls)).
Proof.
  intros Hw. apply name_wf_shape in Hw. destruct Hw as [Hsh [Hb _]].
  unfold canonical. rewrite fold_present by exact Hb.
  rewrite label_suffixes_present_lemma by (apply fold_labels_nonempty, wf_labels_nonempty; exact Hsh).
  unfold fold_labels. rewrite tails_map.
  assert (Hrl : forall (A B : Type) (g : A -> B) (l : list A), removelast (map g l) = map g (removelast l)).
  { intros A B g l. induction l as [|x [|y l] IH]; [reflexivity|reflexivity|].
    cbn [map removelast] in *. f_equal. exact IH. }
  rewrite Hrl, map_map.
  apply map_ext_in. intros t Ht. symmetry. apply fold_present.
  pose proof (Forall_tails _ _ Hb) as Ht2. rewrite Forall_forall in Ht2. apply Ht2.
  assert (Hx : In t (removelast (tails ls) ++ [[]])) by (apply in_or_app; left; exact Ht).
  rewrite <- (tails_snoc ls) in Hx. exact Hx.
Qed.

Lemma failure_zone_hit_label_ancestor_lemma fe ls qt qc cd p :
  name_wf ls = true -> failure_hit_ok fe (present ls) qt qc cd p -> f_kind fe = FZone ->
  exists pre t, ls = pre ++ t /\ f_zone fe = fold (present t) /\ f_zclass fe = qc.
Proof.
  intros Hw [_ [[Hk _]|[_ [Hin Hc]]]] Hz; [congruence|].
  rewrite name_suffixes_canonical_present_lemma in Hin by exact Hw.
  apply in_map_iff in Hin. destruct Hin as [t [Et Hin]].
  destruct (in_tails_suffix _ _ Hin) as [pre E]. exists pre, t. repeat split; [exact E|symmetry; exact Et|exact Hc].
Qed.

Lemma failure_zone_hit_label_ancestor_wire_lemma fe ls qt qc cd :
  name_wf ls = true -> failure_wire_hit_ok fe (encode ls) qt qc cd -> f_kind fe = FZone ->
  exists pre t, ls = pre ++ t /\ fold (f_zone fe) = fold (present t) /\ f_zclass fe = qc.
Proof.
  intros Hw [_ [[Hk _]|[_ [Hc [zone [Hin Heq]]]]]] Hz; [congruence|].
  rewrite wire_name_suffixes_encode_lemma in Hin by exact Hw.
  apply in_map_iff in Hin. destruct Hin as [t [Et Hin]]. subst zone.
  destruct (in_tails_suffix _ _ Hin) as [pre E]. exists pre, t. repeat split; [exact E| |exact Hc].
  assert (Hwt : name_wf t = true) by (apply (name_wf_suffix pre); rewrite <- E; exact Hw).
  rewrite wire_equals_pres_encode in Heq by exact Hwt. apply bytes_eqb_eq in Heq. symmetry. exact Heq.
Qed.

Lemma cut_hit_label_ancestor_lemma (c : cut) ls :
  name_wf ls = true -> In (c_name c) (label_suffixes (canonical (present ls))) ->
  exists pre t, ls = pre ++ t /\ t <> [] /\ c_name c = fold (present t).
Proof.
  intros Hw Hin. rewrite label_suffixes_canonical_present_lemma in Hin by exact Hw.
  apply in_map_iff in Hin. destruct Hin as [t [Et Hin]].
  assert (Hin2 : In t (removelast (tails ls) ++ [[]])) by (apply in_or_app; left; exact Hin).
  rewrite <- (tails_snoc ls) in Hin2.
  destruct (in_tails_suffix _ _ Hin2) as [pre E]. exists pre, t. repeat split; [exact E| |symmetry; exact Et].
  (* the root is not among removelast (tails ls): every other tail is non-empty *)
  intros ->. clear - Hin. induction ls as [|x ls IH]; [cbn in Hin; exact Hin|].
  rewrite removelast_tails_cons in Hin. destruct Hin as [Hin|Hin]; [discriminate|exact (IH Hin)].
Qed.

(* non-vacuity: "a\.b.example." — the label `a.b` under example — has the ancestors example. and the root, and
   NOT b.example.; the name printed with an escaped backslash in front of a real dot splits there *)
Example ex_zone_walk_escaped_dot :
  let ls := [[97; 46; 98]; [101; 120]] in      (* a.b | ex *)
  name_wf ls = true /\
  present ls = [97; 92; 46; 98; 46; 101; 120; 46] /\
  name_suffixes (canonical (present ls)) = [[97; 92; 46; 98; 46; 101; 120; 46]; [101; 120; 46]; [46]] /\
  wire_name_suffixes (encode ls) = [[3; 97; 46; 98; 2; 101; 120; 0]; [2; 101; 120; 0]; [0]] /\
  label_suffixes (present ls) = [[97; 92; 46; 98; 46; 101; 120; 46]; [101; 120; 46]] /\
  name_suffixes (present [[92]; [116]]) = [[92; 92; 46; 116; 46]; [116; 46]; [46]] /\
  wfz_stop (fun z => negb (bytes_eqb z [98; 46; 101; 120; 46])) (present ls) = [46].
Proof. vm_compute. repeat split; reflexivity. Qed.
