(* C03 — a cached response answers only its own question and audience.

   Executable model, definitions only (proofs: Proofs_*.v).

   Part A  key preimages: internal/cache/key.go (Key, KeyString, KeyWithPrefix)
           and key_wire.go (writeHeader, writeWireName, KeyWire,
           KeyWireWithPrefix, WireNameEqualsPresentation), statement by
           statement.  Every literal (fold bounds, escape bounds, family
           markers, rounding, label mask, name bound) is a Gen.C03 constant
           re-read from the source on each run; isPresentationSpecial is the
           translated function [go_isPresentationSpecial].
   Part B  middleware/cache: normalizeKeyScope, CacheKey.Hash, the verifiers
           (entryMatchesPreimage / entryMatchesKey / entryMatchesWireQuestion,
           equalNameASCIIFold), the store as finite maps and every lookup
           route: Store.Lookup, the wire fast path, the scoped probe loop, the
           wire alias chase hop, FailureCache.Lookup / LookupWire, the subtree
           cut lookup / lookupWire, Store.Get (resolver-internal), replace-
           if-current and purge.

   The 64-bit hash is NOT modelled: the store is parametrised by an arbitrary
   key type [K] and an arbitrary function [H : bytes -> K] (Section
   variables).  Constant functions are instances, which is how forced
   collisions are covered.  Time (TTL expiry, retry-after) is outside this
   property: entries carry an [active] bit where the code's ladder depends on
   it. *)
From Sdns Require Import Common.Base Common.GoList Gen.C03.
Open Scope N_scope.

Definition bytes := list N.
Definition len (l : bytes) : N := N.of_nat (length l).

Fixpoint bytes_eqb (a b : bytes) : bool :=
  match a, b with
  | [], [] => true
  | x :: xs, y :: ys => (x =? y) && bytes_eqb xs ys
  | _, _ => false
  end.

(* ------------------------------------------------------------------ *)
(* Part A.1  ASCII folding, one definition per source site             *)

Definition mk_fold (lo hi delta b : N) : N :=
  if (lo <=? b) && (b <=? hi) then (b + delta) mod 256 else b.

Definition fold_wwn     := mk_fold wwn_fold_lo wwn_fold_hi wwn_fold_delta.          (* writeWireName *)
Definition fold_wep     := mk_fold wep_fold_lo wep_fold_hi wep_fold_delta.          (* WireNameEqualsPresentation.fold *)

(* the specification's fold: A–Z to a–z and nothing else *)
Definition fold_byte (b : N) : N := if (65 <=? b) && (b <=? 90) then b + 32 else b.
(* equalNameASCIIFold and foldWireNamesEqual are translated whole from the Go AST (Gen.C03
   go_equalNameASCIIFold / go_foldWireNamesEqual); Proofs_Gen.v proves the translations equal to
   equal_name_ascii_fold / fold_wire_names_equal below, so their fold is the specification's *)
(* the fold loops of Key / KeyString / KeyWithPrefix / KeySimple are translated from the Go AST (loopfunc:
   go_Key_loop1_run …); Proofs_Gen.v proves that each appends exactly `map fold_byte name` to the buffer *)
Definition fold_key     := fold_byte.          (* Key *)
Definition fold_keystr  := fold_byte.          (* KeyString *)
Definition fold_keypfx  := fold_byte.          (* KeyWithPrefix *)
Definition fold_enf_a   := fold_byte.          (* equalNameASCIIFold, ca *)
Definition fold_enf_b   := fold_byte.          (* equalNameASCIIFold, cb *)
Definition fold_fwn     := fold_byte.          (* foldWireNamesEqual *)
Definition fold (s : bytes) : bytes := map fold_byte s.

(* ------------------------------------------------------------------ *)
(* Part A.2  presentation-path preimages                               *)

(* [qclass:2 BE][qtype:2 BE][cd:1]; qtype/qclass are uint16 *)
Definition header (qtype qclass : N) (cd : bool) : bytes :=
  [ (qclass / 256) mod 256; qclass mod 256; (qtype / 256) mod 256; qtype mod 256; if cd then 1 else 0 ].

(* Key(q, cd) and KeyString(name, qtype, qclass, cd) *)
Definition pre_key (name : bytes) (qtype qclass : N) (cd : bool) : bytes :=
  header qtype qclass cd ++ map fold_key name.
Definition pre_keystring (name : bytes) (qtype qclass : N) (cd : bool) : bytes :=
  header qtype qclass cd ++ map fold_keystr name.

(* a valid netip.Prefix: family, prefix length, address bytes (4 or 16) *)
Record scope := mk_scope { sc_is4 : bool; sc_bits : N; sc_addr : bytes }.

Definition scope_wf (s : scope) : bool :=
  (length (sc_addr s) =? (if sc_is4 s then 4 else 16))%nat &&
  (sc_bits s <=? (if sc_is4 s then 32 else 128)) &&
  forallb (fun b => b <? 256) (sc_addr s).

(* addrLen := min((bits+7)/8, len(addrBytes)); addrBytes[:addrLen] *)
Definition addr_len (rnd_add rnd_div : N) (s : scope) : N :=
  N.min ((sc_bits s + rnd_add) / rnd_div) (len (sc_addr s)).
Definition scope_suffix (fam4 fam6 rnd_add rnd_div : N) (s : scope) : bytes :=
  [ if sc_is4 s then fam4 else fam6; sc_bits s mod 256 ] ++
  firstn (N.to_nat (addr_len rnd_add rnd_div s)) (sc_addr s).

(* KeyWithPrefix(q, cd, prefix); None = the invalid (zero) prefix *)
Definition pre_keywithprefix (name : bytes) (qtype qclass : N) (cd : bool) (p : option scope) : bytes :=
  match p with
  | None => pre_key name qtype qclass cd
  | Some s =>
      header qtype qclass cd ++ map fold_keypfx name ++
      scope_suffix keypfx_fam4 keypfx_fam6 keypfx_round_add keypfx_round_div s
  end.

(* ------------------------------------------------------------------ *)
(* Part A.3  wire path                                                  *)

(* what writeWireName streams for one label byte *)
Definition wwn_byte (b : N) : bytes :=
  if go_isPresentationSpecial b then [wwn_backslash; b]
  else if (b <? wwn_print_lo) || (wwn_print_hi <? b) then
    [ wwn_backslash; (wwn_digit0 + b / wwn_hundred) mod 256;
      (wwn_digit0 + (b / wwn_ten) mod 10) mod 256; (wwn_digit0 + b mod 10) mod 256 ]
  else [fold_wwn b].
Definition wwn_label (l : bytes) : bytes := flat_map wwn_byte l.

(* the label loop of writeWireName over the not yet consumed suffix
   (rest = wireName[off:]); fuel = one step per label plus the terminator *)
Fixpoint wwn_loop (fuel : nat) (rest : bytes) (wrote : bool) : option bytes :=
  match fuel with
  | O => None
  | S fuel' =>
      match rest with
      | [] => None                                              (* off >= len(wireName) *)
      | c :: r =>
          if c =? 0 then
            match r with
            | [] => Some (if wrote then [] else [wwn_dot])      (* root: "." *)
            | _ :: _ => None                                    (* off != len(wireName) *)
            end
          else if negb (N.land c wwn_len_mask =? 0) then None   (* pointer / reserved label type *)
          else if len r <? c then None                          (* off+c > len(wireName) *)
          else
            match wwn_loop fuel' (skipn (N.to_nat c) r) true with
            | Some t => Some (wwn_label (firstn (N.to_nat c) r) ++ [wwn_dot] ++ t)
            | None => None
            end
      end
  end.

Definition write_wire_name (w : bytes) : option bytes :=
  if (len w =? 0) || (max_wire_name_octets <? len w) then None
  else wwn_loop (S (length w)) w false.

(* KeyWire: header then the streamed name *)
Definition pre_keywire (w : bytes) (qtype qclass : N) (cd : bool) : option bytes :=
  match write_wire_name w with
  | Some n => Some (header qtype qclass cd ++ n)
  | None => None
  end.

(* KeyWireWithPrefix *)
Definition pre_keywirewithprefix (w : bytes) (qtype qclass : N) (cd : bool) (p : option scope) : option bytes :=
  match p with
  | None => pre_keywire w qtype qclass cd
  | Some s =>
      match write_wire_name w with
      | Some n => Some (header qtype qclass cd ++ n ++
                        scope_suffix keywirepfx_fam4 keywirepfx_fam6 keypfx_round_add keypfx_round_div s)
      | None => None
      end
  end.

(* the literals of WireNameEqualsPresentation's label walk; since the walk is translated from the Go AST
   (loopfunc go_WireNameEqualsPresentation_loop1_run, `emit` as a pure callback) these are tied by
   Proofs_Gen.gen_WireNameEqualsPresentation_walk instead of source-text pins *)
Definition wep_backslash : N := 92.
Definition wep_digit0 : N := 48.
Definition wep_print_lo : N := 32.
Definition wep_print_hi : N := 126.
Definition wep_len_mask : N := 192.
Definition wep_dot : N := 46.

(* WireNameEqualsPresentation: emit compares the next byte of [name] with c
   under the fold and advances; None = "return false" *)
Definition wep_emit (c : N) (s : bytes) : option bytes :=
  match s with
  | [] => None
  | x :: r => if fold_wep x =? fold_wep c then Some r else None
  end.
Fixpoint wep_emits (cs : bytes) (s : bytes) : option bytes :=
  match cs with
  | [] => Some s
  | c :: r => match wep_emit c s with Some s' => wep_emits r s' | None => None end
  end.
Definition wep_byte (b : N) : bytes :=
  if go_isPresentationSpecial b then [wep_backslash; b]
  else if (b <? wep_print_lo) || (wep_print_hi <? b) then
    [ wep_backslash; (wep_digit0 + b / 100) mod 256; (wep_digit0 + (b / 10) mod 10) mod 256; (wep_digit0 + b mod 10) mod 256 ]
  else [b].
Fixpoint wep_label (l : bytes) (s : bytes) : option bytes :=
  match l with
  | [] => Some s
  | b :: r => match wep_emits (wep_byte b) s with Some s' => wep_label r s' | None => None end
  end.
Fixpoint wep_loop (fuel : nat) (rest : bytes) (wrote : bool) (s : bytes) : bool :=
  match fuel with
  | O => false
  | S fuel' =>
      match rest with
      | [] => false
      | c :: r =>
          if c =? 0 then
            match r with
            | [] =>
                if wrote then (match s with [] => true | _ => false end)
                else match wep_emit wep_dot s with Some [] => true | _ => false end
            | _ :: _ => false
            end
          else if negb (N.land c wep_len_mask =? 0) || (len r <? c) then false
          else
            match wep_label (firstn (N.to_nat c) r) s with
            | Some s' =>
                match wep_emit wep_dot s' with
                | Some s'' => wep_loop fuel' (skipn (N.to_nat c) r) true s''
                | None => false
                end
            | None => false
            end
      end
  end.
Definition wire_equals_pres (w name : bytes) : bool :=
  if (len w =? 0) || (max_wire_name_octets <? len w) then false
  else wep_loop (S (length w)) w false name.

(* foldWireNamesEqual (entry_wire_chase.go) *)
Fixpoint fold_wire_names_equal (a b : bytes) : bool :=
  match a, b with
  | [], [] => true
  | x :: xs, y :: ys => (fold_fwn x =? fold_fwn y) && fold_wire_names_equal xs ys
  | _, _ => false
  end.

(* ------------------------------------------------------------------ *)
(* Part A.4  names: labels, wire encoding, and miekg's UnpackDomainName *)

Definition label := bytes.

Definition encode_label (l : label) : bytes := len l :: l.
Definition encode (ls : list label) : bytes := flat_map encode_label ls ++ [0].

(* how dns.UnpackDomainName prints one label byte (hand model of
   miekg/dns v1.1.72 msg.go; tied by the internal/cache driver) *)
Definition present_byte (b : N) : bytes :=
  if (b =? 46) || (b =? 32) || (b =? 39) || (b =? 64) || (b =? 59) || (b =? 40) || (b =? 41) || (b =? 34) || (b =? 92)
  then [92; b]
  else if (b <? 32) || (126 <? b) then [92; 48 + b / 100; 48 + (b / 10) mod 10; 48 + b mod 10]
  else [b].
Definition present_label (l : label) : bytes := flat_map present_byte l ++ [46].
Definition present (ls : list label) : bytes :=
  match ls with
  | [] => [46]
  | _ => flat_map present_label ls
  end.

Definition label_wf (l : label) : bool :=
  (1 <=? len l) && (len l <=? 63) && forallb (fun b => b <? 256) l.
Definition name_wf (ls : list label) : bool :=
  forallb label_wf ls && (len (encode ls) <=? 255).

(* the label walk both wire functions perform, as a decoder: Some labels
   exactly when the walk accepts (used by the proofs and by the specification
   oracle of Run.v) *)
Fixpoint parse_loop (fuel : nat) (rest : bytes) : option (list label) :=
  match fuel with
  | O => None
  | S fuel' =>
      match rest with
      | [] => None
      | c :: r =>
          if c =? 0 then match r with [] => Some [] | _ :: _ => None end
          else if negb (N.land c 192 =? 0) then None
          else if len r <? c then None
          else match parse_loop fuel' (skipn (N.to_nat c) r) with
               | Some ls => Some (firstn (N.to_nat c) r :: ls)
               | None => None
               end
      end
  end.
Definition parse_wire (w : bytes) : option (list label) :=
  if (len w =? 0) || (255 <? len w) then None else parse_loop (S (length w)) w.

(* miekg/dns UnpackDomainName(msg, off) (msg.go at the version go.mod requires).  The label-printing loop
   (`for _, b := range msg[off:off+c]`: backslash + special, escapeByte, the octet itself) is the TRANSLATED
   one — Gen.C03.go_UnpackDomainName_loop2_run with go_isDomainNameLabelSpecial and go_escapeByte, all three
   read from the module cache on every run; the outer loop leaves by a labelled break, which srcgen does not
   translate: it is written here statement by statement (length octet, label-type bits, the budget of
   maxDomainNameWireOctets, compression pointers with maxCompressionPointers — both constants regenerated).
   None = one of the error returns (ErrBuf, ErrLongDomain, too many compression pointers, ErrRdata);
   Some (text, off1) otherwise.  Every iteration consumes budget (at most 127 labels) or a pointer (at most
   126) or ends the walk, so [unpack_fuel] iterations are never exhausted. *)
Definition unpack_print_label (msg : bytes) (off : Z) (s : bytes) (c : Z) : bytes :=
  let '(_, (_, _, s', _)) := go_UnpackDomainName_loop2_run msg off s c in s'.

Fixpoint unpack_loop (fuel : nat) (msg : bytes) (off : Z) (s : bytes) (budget ptr off1 : Z) : option (bytes * Z) :=
  match fuel with
  | O => None
  | S fuel' =>
      let lenmsg := go_len msg in
      if (off >=? lenmsg)%Z then None                                          (* ErrBuf *)
      else
        let c := Z.of_N (go_idx 0 msg off) in
        let off := (off + 1)%Z in
        let t := Z.land c 192 in
        if (t =? 0)%Z then
          if (c =? 0)%Z then Some (s, if (ptr =? 0)%Z then off else off1)       (* break Loop *)
          else if (off + c >? lenmsg)%Z then None                               (* ErrBuf *)
          else
            let budget := (budget - (c + 1))%Z in
            if (budget <=? 0)%Z then None                                       (* ErrLongDomain *)
            else unpack_loop fuel' msg (off + c)%Z (unpack_print_label msg off s c ++ [46]) budget ptr off1
        else if (t =? 192)%Z then
          if (off >=? lenmsg)%Z then None                                       (* ErrBuf *)
          else
            let c1 := Z.of_N (go_idx 0 msg off) in
            let off := (off + 1)%Z in
            let off1 := if (ptr =? 0)%Z then off else off1 in
            let ptr := (ptr + 1)%Z in
            if (ptr >? dns_max_compression_pointers)%Z then None                (* too many compression pointers *)
            else unpack_loop fuel' msg (Z.lor (Z.shiftl (Z.lxor c 192) 8) c1) s budget ptr off1
        else None                                                               (* ErrRdata: 0x40 / 0x80 *)
  end.
Definition unpack_fuel : nat := 300.
Definition unpack_name (msg : bytes) (off : N) : option (bytes * N) :=
  match unpack_loop unpack_fuel msg (Z.of_N off) [] dns_max_name_wire_octets 0%Z 0%Z with
  | Some (s, off1) => Some (match s with [] => [46] | _ :: _ => s end, Z.to_N off1)
  | None => None
  end.

(* ------------------------------------------------------------------ *)
(* Part A.5  what the decoded-path alias chase reads off a hop's response *)

(* Cache.additionalAnswer hands every sub-query response to searchAdditionalAnswer(msg, res), whose first loop
   appends res.Answer to the reply and names the NEXT sub-question: the Target of the last record of type CNAME
   (child = there was one); respCnameHasType(res, qtype) ends the chase when the response already holds a record
   of the client's type.  Records are the translator's sum type I_RR (Gen.C03: a *dns.CNAME, any other record
   with its header, nil).  Both functions are translated from the Go AST; Proofs_Chase.v proves the translations
   equal to these definitions. *)
Definition rr_type (r : I_RR) : N := T_RR_Header_Rrtype (I_RR_Header r).
Definition rr_cname_target (r : I_RR) : bytes :=
  match r with I_RR_of_CNAME v => T_CNAME_Target v | _ => [] end.
Definition dns_type_cname : N := 5.
Fixpoint answer_alias_scan (ans : list I_RR) (target : bytes) (child : bool) : bytes * bool :=
  match ans with
  | [] => (target, child)
  | r :: rest =>
      if rr_type r =? dns_type_cname then answer_alias_scan rest (rr_cname_target r) true
      else answer_alias_scan rest target child
  end.
Definition answer_has_type (ans : list I_RR) (qtype : N) : bool := existsb (fun r => rr_type r =? qtype) ans.

(* ------------------------------------------------------------------ *)
(* Part B.1  scopes: netip.Prefix.Masked, normalizeKeyScope             *)

(* keep the top [bits] bits of a big-endian byte string *)
Fixpoint mask_bytes (bits : N) (l : bytes) : bytes :=
  match l with
  | [] => []
  | b :: r =>
      if 8 <=? bits then b :: mask_bytes (bits - 8) r
      else (b - b mod 2 ^ (8 - bits)) :: mask_bytes 0 r
  end.
Definition masked (s : scope) : scope := mk_scope (sc_is4 s) (sc_bits s) (mask_bytes (sc_bits s) (sc_addr s)).

(* normalizeKeyScope: invalid and /0 are the shared key; otherwise Masked() *)
Definition normalize_scope (p : option scope) : option scope :=
  match p with
  | None => None
  | Some s => if sc_bits s =? 0 then None else Some (masked s)
  end.

Definition scope_eqb (a b : scope) : bool :=
  Bool.eqb (sc_is4 a) (sc_is4 b) && (sc_bits a =? sc_bits b) && bytes_eqb (sc_addr a) (sc_addr b).
Definition oscope_eqb (a b : option scope) : bool :=
  match a, b with
  | None, None => true
  | Some x, Some y => scope_eqb x y
  | _, _ => false
  end.

(* netip.Addr.Prefix(bits) of a client address: masked to bits *)
Definition addr_prefix (is4 : bool) (addr : bytes) (bits : N) : scope :=
  mk_scope is4 bits (mask_bytes bits addr).

(* the specification's "client inside scope" *)
Definition scope_contains (s : scope) (is4 : bool) (addr : bytes) : bool :=
  Bool.eqb (sc_is4 s) is4 && bytes_eqb (mask_bytes (sc_bits s) addr) (mask_bytes (sc_bits s) (sc_addr s)).

(* ------------------------------------------------------------------ *)
(* Part B.2  questions, entries, verifiers                              *)

Record question := mk_q { q_name : bytes; q_type : N; q_class : N }.

(* CacheKey.Hash's preimage: Key for invalid or /0 scope, KeyWithPrefix otherwise
   (the scope is hashed as given: Hash does not mask) *)
Definition cachekey_pre (q : question) (cd : bool) (p : option scope) : bytes :=
  match p with
  | None => pre_key (q_name q) (q_type q) (q_class q) cd
  | Some s =>
      if sc_bits s =? 0 then pre_key (q_name q) (q_type q) (q_class q) cd
      else pre_keywithprefix (q_name q) (q_type q) (q_class q) cd (Some s)
  end.

(* CacheEntry identity: question / cd / scope; e_id names the stored response;
   e_alias = target (wire form) of the last CNAME when the stored answer has no
   record of the question's type (the wire chase continues there) *)
Record entry := mk_entry {
  e_q : question; e_cd : bool; e_scope : option scope; e_id : N;
  e_alias : option bytes;
  (* shape of the stored body as the wire chase's gates see it: it holds a record of the question's
     type; it is NOERROR, has no authority / additional records and only re-encodable answer types *)
  e_has_qtype : bool; e_plain : bool }.

(* equalNameASCIIFold *)
Fixpoint equal_name_ascii_fold (a b : bytes) : bool :=
  match a, b with
  | [], [] => true
  | x :: xs, y :: ys => (fold_enf_a x =? fold_enf_b y) && equal_name_ascii_fold xs ys
  | _, _ => false
  end.

(* entryMatchesPreimage *)
Definition entry_matches_preimage (e : entry) (qtype qclass : N) (cd : bool) (p : option scope) : bool :=
  match q_name (e_q e) with
  | [] => false                                   (* entry.question.Name == "" *)
  | _ =>
      (q_type (e_q e) =? qtype) && (q_class (e_q e) =? qclass) &&
      Bool.eqb (e_cd e) cd && oscope_eqb (e_scope e) (normalize_scope p)
  end.
(* entryMatchesKey *)
Definition entry_matches_key (e : entry) (q : question) (cd : bool) (p : option scope) : bool :=
  entry_matches_preimage e (q_type q) (q_class q) cd p &&
  equal_name_ascii_fold (q_name (e_q e)) (q_name q).
(* entryMatchesWireQuestion: shared scope only *)
Definition entry_matches_wire_question (e : entry) (w : bytes) (qtype qclass : N) (cd : bool) : bool :=
  entry_matches_preimage e qtype qclass cd None &&
  wire_equals_pres w (q_name (e_q e)).

(* ------------------------------------------------------------------ *)
(* Part B.3  the store, for an arbitrary key type and hash              *)

(* failure cache entries *)
Inductive fkind := FQuestion | FZone.
Record fentry := mk_fentry {
  f_kind : fkind; f_q : question; f_cd : bool; f_scope : option scope;   (* question kind *)
  f_zone : bytes; f_zclass : N;                                            (* zone kind *)
  f_active : bool; f_id : N;
  f_streak : N; f_retry : N }.     (* backoff generation; retry-after instant (ms on the history's clock) *)

(* subtree cuts *)
Record cut := mk_cut { c_name : bytes; c_class : N; c_wire : bool (* wireFull != nil *); c_active : bool; c_id : N }.

(* miekg CanonicalName on a name that already ends in '.': lower-case A–Z *)
Definition canonical (s : bytes) : bytes := fold s.

(* string suffixes at label boundaries of a presentation name, longest first,
   down to "." (walkFailureZones / dnsname.Suffixes); a backslash escapes the
   next byte (and \DDD's digits are never dots) *)
Fixpoint drop_label (s : bytes) : bytes :=
  match s with
  | [] => []
  | 92 :: _ :: r => drop_label r
  | 46 :: r => r
  | _ :: r => drop_label r
  end.
Fixpoint pres_suffixes (fuel : nat) (s : bytes) : list bytes :=
  match fuel with
  | O => []
  | S f =>
      match s with
      | [] => []
      | [46] => []
      | _ => s :: pres_suffixes f (drop_label s)
      end
  end.
(* dnsname.Suffixes: every label start, the root excluded *)
Definition label_suffixes (s : bytes) : list bytes := pres_suffixes (S (length s)) s.
(* walkFailureZones: the same, then "." *)
Definition name_suffixes (s : bytes) : list bytes := label_suffixes s ++ [[46]].

(* walkWireSuffixes: every suffix of the uncompressed wire name *)
Fixpoint wire_suffixes (fuel : nat) (w : bytes) : list bytes :=
  match fuel with
  | O => []
  | S f =>
      match w with
      | [] => []
      | c :: r =>
          w :: (if (c =? 0) || (63 <? c) || (len r <? c) then [] else wire_suffixes f (skipn (N.to_nat c) r))
      end
  end.
Definition wire_name_suffixes (w : bytes) : list bytes := wire_suffixes (S (length w)) w.

(* the label-level ancestors of a name: the name itself, then each parent, down to the root (no labels) *)
Fixpoint tails {A} (l : list A) : list (list A) :=
  l :: match l with [] => [] | _ :: r => tails r end.

Fixpoint first_some {A B} (f : A -> option B) (l : list A) : option B :=
  match l with
  | [] => None
  | x :: r => match f x with Some y => Some y | None => first_some f r end
  end.

(* strings.EqualFold, exactly, on the domain D the model is evaluated on: byte strings whose
   non-ASCII bytes are only the UTF-8 encodings of U+212A KELVIN SIGN (E2 84 AA) and U+017F LATIN
   SMALL LETTER LONG S (C5 BF).  Unicode simple case folding puts KELVIN SIGN in the orbit of K/k and
   LONG S in the orbit of S/s, every other rune of D folds as ASCII, so on D two strings are EqualFold
   exactly when they are equal under the A–Z fold after these two runes are replaced by k and s. *)
Fixpoint fold_norm (s : bytes) : bytes :=
  match s with
  | [] => []
  | x :: r =>
      match r with
      | [] => [x]
      | y :: r2 =>
          if (x =? 197) && (y =? 191) then 115 :: fold_norm r2
          else
            match r2 with
            | [] => x :: fold_norm r
            | z :: r3 =>
                if (x =? 226) && (y =? 132) && (z =? 170) then 107 :: fold_norm r3
                else x :: fold_norm r
            end
      end
  end.

Section Store.
  Variable K : Type.
  Variable K_eqb : K -> K -> bool.
  Variable H : bytes -> K.
  (* hash ^ salt for the failure-question, failure-zone and cut index: arbitrary maps on keys *)
  Variable salt_fq salt_fz salt_cut : K -> K.

  Definition kmap (V : Type) := list (K * V).
  Fixpoint kget {V} (k : K) (m : kmap V) : option V :=
    match m with
    | [] => None
    | (k', v) :: r => if K_eqb k k' then Some v else kget k r
    end.
  Definition kremove {V} (k : K) (m : kmap V) : kmap V := filter (fun kv => negb (K_eqb k (fst kv))) m.
  Definition kset {V} (k : K) (v : V) (m : kmap V) : kmap V := (k, v) :: kremove k m.

  Record store := mk_store {
    st_pos : kmap entry; st_neg : kmap entry;
    st_fail : kmap fentry;
    st_cuts : list cut;                 (* entries map[(deniedName,qclass)] — exact string key, no hash *)
    st_cuthash : kmap cut }.            (* byHash *)

  Definition empty_store : store := mk_store [] [] [] [] [].

  (* Store.LookupByKey: positive, then negative *)
  Definition lookup_by_key (s : store) (k : K) : option entry :=
    match kget k (st_pos s) with
    | Some e => Some e
    | None => kget k (st_neg s)
    end.

  (* Store.LookupByKeyVerified *)
  Definition lookup_by_key_verified (s : store) (k : K) (q : question) (cd : bool) (p : option scope) : option entry :=
    match lookup_by_key s k with
    | Some e => if entry_matches_key e q cd p then Some e else None
    | None => None
    end.

  (* Store.Lookup(req): shared key *)
  Definition store_lookup (s : store) (q : question) (cd : bool) : option entry :=
    lookup_by_key_verified s (H (cachekey_pre q cd None)) q cd None.

  (* Cache.scopedLookup: client bits down to the floor; first PRESENT key wins,
     verified or not *)
  Fixpoint scoped_probe (s : store) (q : question) (cd : bool) (is4 : bool) (addr : bytes) (n : nat) : option (entry * scope) :=
    match n with
    | O => None
    | S n' =>
        let bits := N.of_nat n in
        if bits <? scoped_probe_floor then None else
        let sc := addr_prefix is4 addr bits in
        match lookup_by_key s (H (cachekey_pre q cd (Some sc))) with
        | Some e => Some (e, sc)
        | None => scoped_probe s q cd is4 addr n'
        end
    end.
  Definition scoped_lookup (s : store) (q : question) (cd : bool) (client : option scope) : option (entry * scope) :=
    match client with
    | None => None
    | Some c => scoped_probe s q cd (sc_is4 c) (sc_addr c) (N.to_nat (sc_bits c))
    end.

  (* the exact-answer part of the Msg body of Cache.ServeDNS: scoped probe
     (verified at handleCacheHit), then the shared key (verified) *)
  Definition serve_msg_exact (s : store) (q : question) (cd : bool) (client : option scope) : option entry :=
    match
      match scoped_lookup s q cd client with
      | Some (e, sc) => if entry_matches_key e q cd (Some sc) then Some e else None
      | None => None
      end
    with
    | Some e => Some e
    | None =>
        match lookup_by_key s (H (cachekey_pre q cd None)) with
        | Some e => if entry_matches_key e q cd None then Some e else None
        | None => None
        end
    end.

  (* Cache.serveWire's exact rung (also collectWireChase's hop lookup) *)
  Definition serve_wire_exact (s : store) (w : bytes) (qtype qclass : N) (cd : bool) : option entry :=
    match pre_keywire w qtype qclass cd with
    | None => None
    | Some p =>
        match lookup_by_key s (H p) with
        | Some e => if entry_matches_wire_question e w qtype qclass cd then Some e else None
        | None => None
        end
    end.

  (* collectWireChase: follow cache-contained aliases; at most [fuel] segments.
     None = some hop was not cache-contained: the whole chase declines. *)
  Fixpoint wire_chase (s : store) (fuel : nat) (reqw : bytes) (qtype qclass : N) (cd : bool) (e : entry) : option (list entry) :=
    match fuel with
    | O => None
    | S f =>
        if negb (e_plain e) then None                       (* rcode / section-shape / record-type gates *)
        else if e_has_qtype e then Some [e]                 (* the terminal record: the chain is complete *)
        else
        match e_alias e with
        | None => None                                      (* no terminal and no continuation *)
        | Some target =>
            if fold_wire_names_equal target reqw then None else
            match serve_wire_exact s target qtype qclass cd with
            | Some nxt => match wire_chase s f reqw qtype qclass cd nxt with Some l => Some (e :: l) | None => None end
            | None => None
            end
        end
    end.

  (* ---- failure cache *)
  Definition fq_pre (q : question) (cd : bool) (p : option scope) : bytes :=
    (* failureQuestionHash on a normalised key: KeyWithPrefix when the scope is valid, Key otherwise *)
    match p with
    | Some sc => pre_keywithprefix (q_name q) (q_type q) (q_class q) cd (Some sc)
    | None => pre_key (q_name q) (q_type q) (q_class q) cd
    end.
  Definition fz_pre (zone : bytes) (qclass : N) : bytes := pre_key zone 6 qclass false.   (* TypeSOA = 6 *)

  Definition question_eqb_exact (a b : question) : bool :=
    bytes_eqb (q_name a) (q_name b) && (q_type a =? q_type b) && (q_class a =? q_class b).

  (* loadQuestion: kind, failureQuestionKeysEqual *)
  Definition load_fquestion (s : store) (q : question) (cd : bool) (p : option scope) : option fentry :=
    match kget (salt_fq (H (fq_pre q cd p))) (st_fail s) with
    | Some fe =>
        match f_kind fe with
        | FQuestion =>
            if question_eqb_exact (f_q fe) q && Bool.eqb (f_cd fe) cd && oscope_eqb (f_scope fe) p then Some fe else None
        | FZone => None
        end
    | None => None
    end.
  Definition load_fzone (s : store) (zone : bytes) (qclass : N) : option fentry :=
    match kget (salt_fz (H (fz_pre zone qclass))) (st_fail s) with
    | Some fe =>
        match f_kind fe with
        | FZone => if bytes_eqb (f_zone fe) zone && (f_zclass fe =? qclass) then Some fe else None
        | FQuestion => None
        end
    | None => None
    end.

  (* FailureCache.Lookup *)
  Definition failure_lookup (s : store) (q : question) (cd : bool) (p : option scope) : option fentry :=
    match st_fail s with
    | [] => None
    | _ =>
        let q' := mk_q (canonical (q_name q)) (q_type q) (q_class q) in
        let p' := normalize_scope p in
        match (match load_fquestion s q' cd p' with Some fe => if f_active fe then Some fe else None | None => None end) with
        | Some fe => Some fe
        | None =>
            first_some (fun zone =>
                          match load_fzone s zone (q_class q) with
                          | Some fe => if f_active fe then Some fe else None
                          | None => None
                          end) (name_suffixes (q_name q'))
        end
    end.

  (* FailureCache.LookupWire *)
  Definition failure_lookup_wire (s : store) (w : bytes) (qtype qclass : N) (cd : bool) : option fentry :=
    match st_fail s with
    | [] => None
    | _ =>
        match
          match pre_keywire w qtype qclass cd with
          | Some p =>
              match kget (salt_fq (H p)) (st_fail s) with
              | Some fe =>
                  match f_kind fe, f_scope fe with
                  | FQuestion, None =>
                      if (q_type (f_q fe) =? qtype) && (q_class (f_q fe) =? qclass) && Bool.eqb (f_cd fe) cd &&
                         wire_equals_pres w (q_name (f_q fe)) && f_active fe
                      then Some fe else None
                  | _, _ => None
                  end
              | None => None
              end
          | None => None
          end
        with
        | Some fe => Some fe
        | None =>
            first_some (fun zone =>
                          match pre_keywire zone 6 qclass false with
                          | None => None
                          | Some p =>
                              match kget (salt_fz (H p)) (st_fail s) with
                              | Some fe =>
                                  match f_kind fe with
                                  | FZone =>
                                      if (f_zclass fe =? qclass) && wire_equals_pres zone (f_zone fe) && f_active fe
                                      then Some fe else None
                                  | FQuestion => None
                                  end
                              | None => None
                              end
                          end) (wire_name_suffixes w)
        end
    end.

  (* ---- subtree cuts *)
  Definition cut_pre (name : bytes) (qclass : N) : bytes := pre_key name 0 qclass false.

  Fixpoint cut_get (name : bytes) (qclass : N) (l : list cut) : option cut :=
    match l with
    | [] => None
    | c :: r => if bytes_eqb (c_name c) name && (c_class c =? qclass) then Some c else cut_get name qclass r
    end.

  (* nxDomainCutCache.lookup: closest denied ancestor-or-self, string keyed *)
  Definition cut_lookup (s : store) (q : question) : option cut :=
    if q_class q =? 0 then None else
    first_some (fun cand =>
                  match cut_get cand (q_class q) (st_cuts s) with
                  | Some c => if c_active c then Some c else None
                  | None => None
                  end) (label_suffixes (canonical (q_name q))).

  (* nxDomainCutCache.lookupWire: hash index + verification *)
  Definition cut_lookup_wire (s : store) (w : bytes) (qclass : N) : option cut :=
    if qclass =? 0 then None else
    first_some (fun cand =>
                  match pre_keywire cand 0 qclass false with
                  | None => None
                  | Some p =>
                      match kget (salt_cut (H p)) (st_cuthash s) with
                      | Some c =>
                          if (c_class c =? qclass) && c_wire c && wire_equals_pres cand (c_name c) && c_active c
                          then Some c else None
                      | None => None
                      end
                  end) (wire_name_suffixes w).

  (* ---- updates *)

  (* positive.Set(key, entry) / negative.Set *)
  Definition set_entry (neg : bool) (k : K) (e : entry) (s : store) : store :=
    if neg then mk_store (st_pos s) (kset k e (st_neg s)) (st_fail s) (st_cuts s) (st_cuthash s)
    else mk_store (kset k e (st_pos s)) (st_neg s) (st_fail s) (st_cuts s) (st_cuthash s).
  Definition remove_entry (neg : bool) (k : K) (s : store) : store :=
    if neg then mk_store (st_pos s) (kremove k (st_neg s)) (st_fail s) (st_cuts s) (st_cuthash s)
    else mk_store (kremove k (st_pos s)) (st_neg s) (st_fail s) (st_cuts s) (st_cuthash s).

  (* setFromResponseWithKey for a cacheable answer: identity = response question,
     keyCD, normalised scope; filed under the caller's key *)
  Definition set_from_response (k : K) (rq : question) (key_cd : bool) (p : option scope) (id : N) (alias : option bytes) (hasq plain : bool) (s : store) : store :=
    set_entry false k (mk_entry rq key_cd (normalize_scope p) id alias hasq plain) s.

  Definition entry_same (a b : entry) : bool := e_id a =? e_id b.   (* pointer identity: ids are unique per stored response *)

  (* ReplaceIfCurrent (positive branch): CAS on the entry currently at key;
     the replacement takes the response's question and INHERITS cd and scope *)
  Definition replace_if_current (k : K) (expected : entry) (rq : question) (id : N) (alias : option bytes) (hasq plain : bool) (s : store) : store * bool :=
    match kget k (st_pos s) with
    | Some cur =>
        if entry_same cur expected
        then (set_entry false k (mk_entry rq (e_cd expected) (e_scope expected) id alias hasq plain) s, true)
        else (s, false)
    | None => (s, false)
    end.

  (* strings.EqualFold restricted to what the model decides: on byte strings
     below 0x80 it is ASCII case-insensitive equality (the fast path of the
     library function); the model is only evaluated on such names *)
  Definition equal_fold_ascii (a b : bytes) : bool := bytes_eqb (fold (fold_norm a)) (fold (fold_norm b)).

  (* Store.Purge: the two unscoped keys leave both sub-caches; then a ForEach
     sweep collects the keys of scoped entries for the question (type, class,
     strings.EqualFold on the name) and removes each from the sub-cache it was
     found in *)
  Definition purge_match (q : question) (e : entry) : bool :=
    match e_scope e with Some _ => true | None => false end &&
    negb (match q_name (e_q e) with [] => true | _ => false end) &&
    (q_type (e_q e) =? q_type q) && (q_class (e_q e) =? q_class q) &&
    equal_fold_ascii (q_name (e_q e)) (q_name q).
  Definition purge_sweep (q : question) (m : kmap entry) : kmap entry :=
    fold_left (fun m k => kremove k m) (map fst (filter (fun kv => purge_match q (snd kv)) m)) m.
  Definition purge_answers (q : question) (s : store) : store :=
    let k0 := H (cachekey_pre q false None) in
    let k1 := H (cachekey_pre q true None) in
    let rm (m : kmap entry) := kremove k1 (kremove k0 m) in
    mk_store (purge_sweep q (rm (st_pos s))) (purge_sweep q (rm (st_neg s)))
             (st_fail s) (st_cuts s) (st_cuthash s).

  Definition purge_failures (q : question) (s : store) : store :=
    let n := canonical (q_name q) in
    mk_store (st_pos s) (st_neg s)
      (filter (fun kv =>
                 let fe := snd kv in
                 negb (match f_kind fe with
                       | FQuestion => bytes_eqb (q_name (f_q fe)) n && (q_type (f_q fe) =? q_type q) && (q_class (f_q fe) =? q_class q)
                       | FZone => bytes_eqb (f_zone fe) n && (f_zclass fe =? q_class q)
                       end)) (st_fail s))
      (st_cuts s) (st_cuthash s).

  Definition cut_covers (q : question) (c : cut) : bool :=
    existsb (fun cand => bytes_eqb (c_name c) cand) (label_suffixes (canonical (q_name q))) && (c_class c =? q_class q).
  Definition purge_cuts (q : question) (s : store) : store :=
    mk_store (st_pos s) (st_neg s) (st_fail s)
      (filter (fun c => negb (cut_covers q c)) (st_cuts s))
      (filter (fun kc => negb (cut_covers q (snd kc))) (st_cuthash s)).

  Definition purge (q : question) (s : store) : store := purge_answers q (purge_cuts q (purge_failures q s)).

  (* failureEntriesSameKey *)
  Definition failure_same_key (a b : fentry) : bool :=
    match f_kind a, f_kind b with
    | FQuestion, FQuestion =>
        question_eqb_exact (f_q a) (f_q b) && Bool.eqb (f_cd a) (f_cd b) && oscope_eqb (f_scope a) (f_scope b)
    | FZone, FZone => bytes_eqb (f_zone a) (f_zone b) && (f_zclass a =? f_zclass b)
    | _, _ => false
    end.
  (* FailureCache.backoff: initial * 2^(streak-1), capped at max (all in ms); tied to the translated
     go_FailureCache_backoff by Proofs_Gen.gen_FailureCache_backoff *)
  Fixpoint backoff_loop (n : nat) (maxttl ttl : N) : N :=
    match n with
    | O => ttl
    | S n' => if ttl <? maxttl then (if maxttl / 2 <? ttl then maxttl else backoff_loop n' maxttl (2 * ttl)) else ttl
    end.
  Definition backoff (initial maxttl streak : N) : N :=
    let ttl := backoff_loop (N.to_nat (streak - 1)) maxttl initial in
    if maxttl <? ttl then maxttl else ttl.

  (* FailureCache.record at instant [now]: a different key under the same hash is replaced by a
     first generation; the same key is left alone while active and renewed with the next backoff
     generation once expired (streak restarts after an idle period of maxttl) *)
  Definition record_failure (now initial maxttl : N) (k : K) (cand : fentry) (s : store) : store :=
    let put fe := mk_store (st_pos s) (st_neg s) (kset k fe (st_fail s)) (st_cuts s) (st_cuthash s) in
    let first := mk_fentry (f_kind cand) (f_q cand) (f_cd cand) (f_scope cand) (f_zone cand) (f_zclass cand) true (f_id cand) 1 (now + initial) in
    match kget k (st_fail s) with
    | Some cur =>
        if failure_same_key cur cand then
          if f_active cur then s
          else
            let streak := if maxttl <=? now - f_retry cur then 1 else f_streak cur + 1 in
            put (mk_fentry (f_kind cur) (f_q cur) (f_cd cur) (f_scope cur) (f_zone cur) (f_zclass cur) true (f_id cur)
                           streak (now + backoff initial maxttl streak))
        else put first
    | None => put first
    end.
  Definition record_fquestion (now initial maxttl : N) (q : question) (cd : bool) (p : option scope) (id : N) (s : store) : store :=
    let q' := mk_q (canonical (q_name q)) (q_type q) (q_class q) in
    let p' := normalize_scope p in
    record_failure now initial maxttl (salt_fq (H (fq_pre q' cd p'))) (mk_fentry FQuestion q' cd p' [] 0 true id 1 0) s.
  Definition record_fzone (now initial maxttl : N) (zone : bytes) (qclass : N) (id : N) (s : store) : store :=
    let z := canonical zone in
    record_failure now initial maxttl (salt_fz (H (fz_pre z qclass))) (mk_fentry FZone (mk_q [] 0 0) false None z qclass true id 1 0) s.

  (* the failure clock moves to [now]: an entry is a hit only while now is before its retry-after *)
  Definition set_failure_clock (now : N) (s : store) : store :=
    mk_store (st_pos s) (st_neg s)
      (map (fun kv => (fst kv, let fe := snd kv in
                       mk_fentry (f_kind fe) (f_q fe) (f_cd fe) (f_scope fe) (f_zone fe) (f_zclass fe)
                                 (now <? f_retry fe) (f_id fe) (f_streak fe) (f_retry fe))) (st_fail s))
      (st_cuts s) (st_cuthash s).

  (* a subtree cut's lifetime ended *)
  Definition expire_cut (id : N) (s : store) : store :=
    let off (c : cut) := if c_id c =? id then mk_cut (c_name c) (c_class c) (c_wire c) false (c_id c) else c in
    mk_store (st_pos s) (st_neg s) (st_fail s) (map off (st_cuts s)) (map (fun kc => (fst kc, off (snd kc))) (st_cuthash s)).

  (* a failure entry placed directly under the hash of ANOTHER failure key (what a
     64-bit collision between two failure keys looks like) *)
  Definition seed_fquestion (kq : question) (kcd : bool) (kp : option scope)
                            (q : question) (cd : bool) (p : option scope) (id : N) (retry : N) (s : store) : store :=
    let kq' := mk_q (canonical (q_name kq)) (q_type kq) (q_class kq) in
    let q' := mk_q (canonical (q_name q)) (q_type q) (q_class q) in
    mk_store (st_pos s) (st_neg s)
      (kset (salt_fq (H (fq_pre kq' kcd (normalize_scope kp)))) (mk_fentry FQuestion q' cd (normalize_scope p) [] 0 true id 1 retry) (st_fail s))
      (st_cuts s) (st_cuthash s).
  Definition seed_fzone (kzone : bytes) (kclass : N) (zone : bytes) (qclass : N) (id : N) (retry : N) (s : store) : store :=
    mk_store (st_pos s) (st_neg s)
      (kset (salt_fz (H (fz_pre (canonical kzone) kclass))) (mk_fentry FZone (mk_q [] 0 0) false None (canonical zone) qclass true id 1 retry) (st_fail s))
      (st_cuts s) (st_cuthash s).

  (* FailureCache.ResetQuestion: delete the exact history when the full key still matches *)
  Definition reset_fquestion (q : question) (cd : bool) (p : option scope) (s : store) : store :=
    let q' := mk_q (canonical (q_name q)) (q_type q) (q_class q) in
    let p' := normalize_scope p in
    let k := salt_fq (H (fq_pre q' cd p')) in
    match kget k (st_fail s) with
    | Some fe =>
        match f_kind fe with
        | FQuestion =>
            if question_eqb_exact (f_q fe) q' && Bool.eqb (f_cd fe) cd && oscope_eqb (f_scope fe) p'
            then mk_store (st_pos s) (st_neg s) (kremove k (st_fail s)) (st_cuts s) (st_cuthash s)
            else s
        | FZone => s
        end
    | None => s
    end.

  (* FailureCache.ResetZone / ResetMatching: exact history and every ancestor-zone history *)
  Definition reset_fzone (zone : bytes) (qclass : N) (s : store) : store :=
    let z := canonical zone in
    let k := salt_fz (H (fz_pre z qclass)) in
    match kget k (st_fail s) with
    | Some fe =>
        match f_kind fe with
        | FZone =>
            if bytes_eqb (f_zone fe) z && (f_zclass fe =? qclass)
            then mk_store (st_pos s) (st_neg s) (kremove k (st_fail s)) (st_cuts s) (st_cuthash s)
            else s
        | FQuestion => s
        end
    | None => s
    end.
  Definition reset_matching (q : question) (cd : bool) (p : option scope) (s : store) : store :=
    fold_left (fun st zone => reset_fzone zone (q_class q) st)
              (name_suffixes (canonical (q_name q))) (reset_fquestion q cd p s).

  (* Store.SetFromResponseWithKey / SetFromResponseScoped on a cacheable answer:
     file the entry, and for an unscoped write reset the question's failure history *)
  Definition store_set_from_response (k : K) (rq : question) (key_cd : bool) (p : option scope) (id : N) (alias : option bytes) (hasq plain : bool) (s : store) : store :=
    let s1 := set_from_response k rq key_cd p id alias hasq plain s in
    match normalize_scope p with
    | None => reset_fquestion rq key_cd None s1
    | Some _ => s1
    end.

  (* nxDomainCutCache.record of an accepted proof: replaces the same (name,class), indexes by hash *)
  Definition record_cut (name : bytes) (qclass : N) (wire_ok : bool) (id : N) (s : store) : store :=
    let n := canonical name in
    let c := mk_cut n qclass wire_ok true id in
    let old := cut_get n qclass (st_cuts s) in
    let cuts' := c :: filter (fun c' => negb (bytes_eqb (c_name c') n && (c_class c' =? qclass))) (st_cuts s) in
    let k := salt_cut (H (cut_pre n qclass)) in
    let hash0 := match old with
                 | Some o => filter (fun kc => negb (c_id (snd kc) =? c_id o)) (st_cuthash s)
                 | None => st_cuthash s
                 end in
    mk_store (st_pos s) (st_neg s) (st_fail s) cuts'
      (if wire_ok then kset k c hash0 else hash0).

  (* the hash index pointing at a cut recorded for ANOTHER (name, class) *)
  Fixpoint cut_by_id (id : N) (l : list cut) : option cut :=
    match l with
    | [] => None
    | c :: r => if c_id c =? id then Some c else cut_by_id id r
    end.
  Definition forge_cuthash (kname : bytes) (kclass : N) (id : N) (s : store) : store :=
    match cut_by_id id (st_cuts s) with
    | Some c => mk_store (st_pos s) (st_neg s) (st_fail s) (st_cuts s)
                  (kset (salt_cut (H (cut_pre (canonical kname) kclass))) c (st_cuthash s))
    | None => s
    end.

  (* ---- ResponseWriter.WriteMsg: what a downstream response leaves in the store.
     client = the request's scope (requestScope, already masked); the downstream echoes the
     client's ECS address with SCOPE = scope_bits (0 = global) *)
  Definition writeback_scope (min4 min6 : N) (client : option scope) (scope_bits : N) : option scope :=
    match client with
    | Some c =>
        (* ReadResponseScope: SCOPE 0 is "global"; a SCOPE longer than the family's address is read as
           the whole address (since fix 9eb1ef6; before, addr.Prefix failed and the answer was shared) *)
        if scope_bits =? 0 then None
        else
          (* ClampScope: never narrower than the source, never narrower than the policy's min_scope *)
          let b := N.min (N.min scope_bits (if sc_is4 c then 32 else 128)) (sc_bits c) in
          let floor := if sc_is4 c then min4 else min6 in
          Some (addr_prefix (sc_is4 c) (sc_addr c) (if floor <? b then floor else b))
    | None => None
    end.
  Definition writeback_answer (min4 min6 : N) (q : question) (cd : bool) (client : option scope) (scope_bits : N) (id : N) (s : store) : store :=
    let sc := writeback_scope min4 min6 client scope_bits in
    reset_matching q cd client
      (store_set_from_response (H (cachekey_pre q cd sc)) q cd sc id None true true s).
  (* every SERVFAIL exit (downstream SERVFAIL, alias chase ending in SERVFAIL): the failure is
     recorded for the REQUEST's audience *)
  Definition writeback_failure (now initial maxttl : N) (q : question) (cd : bool) (client : option scope) (id : N) (s : store) : store :=
    record_fquestion now initial maxttl q cd client id s.

  (* Cache.additionalAnswer over a Queryer that answers from the store (Store.Get): after an alias
     hit, the target is looked up with the CLIENT's type, class and CD (the sub-query is built by
     SetQuestion(target, qtype) and then given the client's class — fix f46047f); the loop goes on
     while the hop is itself an alias without the terminal record (at most [fuel] sub-queries) *)
  Fixpoint msg_chase (s : store) (fuel : nat) (qtype qclass : N) (cd : bool) (e : entry) : list entry :=
    match fuel with
    | O => []
    | S f =>
        if e_has_qtype e then [] else
        match e_alias e with
        | None => []
        | Some tw =>
            match option_map present (parse_wire tw) with
            | None => []
            | Some tn =>
                match store_lookup s (mk_q tn qtype qclass) cd with
                | Some nxt => nxt :: msg_chase s f qtype qclass cd nxt
                | None => []
                end
            end
        end
    end.

  (* additionalAnswer's self-alias test (since fix a4faf69 an ASCII-case-insensitive comparison,
     strings.EqualFold on decoder-printed names): an alias of the chain — the hit entry's own, or that of a
     hop the sub-queries returned — whose target is the client's question name in any spelling makes the
     whole reply SERVFAIL; nothing that was collected is served *)
  Fixpoint msg_chase_selfloop (s : store) (fuel : nat) (qname : bytes) (qtype qclass : N) (cd : bool) (e : entry) : bool :=
    match fuel with
    | O => false
    | S f =>
        if e_has_qtype e then false else
        match e_alias e with
        | None => false
        | Some tw =>
            match option_map present (parse_wire tw) with
            | None => false
            | Some tn =>
                if bytes_eqb (fold tn) (fold qname) then true else
                match store_lookup s (mk_q tn qtype qclass) cd with
                | Some nxt => msg_chase_selfloop s f qname qtype qclass cd nxt
                | None => false
                end
            end
        end
    end.

  (* ---- what a client of the edns+cache pipeline observes *)
  Inductive outcome := OMiss | OHit (id : N) | OCut (id : N) | OFail (id : N).

  Definition is_some {A} (o : option A) : bool := match o with Some _ => true | None => false end.

  (* the Msg body of Cache.ServeDNS after validation: exact answers (scoped,
     shared), subtree cut (never for CD or ECS requests), failure state *)
  Definition msg_ladder (s : store) (q : question) (cd : bool) (has_ecs : bool) (client : option scope) : outcome :=
    match serve_msg_exact s q cd client with
    | Some e => OHit (e_id e)
    | None =>
        match (if cd || has_ecs then None else cut_lookup s q) with
        | Some c => OCut (c_id c)
        | None =>
            match failure_lookup s q cd client with
            | Some fe => OFail (f_id fe)
            | None => OMiss
            end
        end
    end.

  (* Cache.ServeDNS: a wire-born request without ECS walks the wire ladder
     first (exact entry, cut, failure) and otherwise materialises;
     requestScope = client address . Prefix(source bits) *)
  Definition serve_pipeline (s : store) (wireborn : bool) (w : bytes) (q : question) (cd : bool) (client : option scope) : outcome :=
    let client' := option_map (fun c => addr_prefix (sc_is4 c) (sc_addr c) (sc_bits c)) client in
    let has_ecs := is_some client in
    if wireborn && negb has_ecs then
      match serve_wire_exact s w (q_type q) (q_class q) cd with
      | Some e => OHit (e_id e)
      | None =>
          match (if cd then None else cut_lookup_wire s w (q_class q)) with
          | Some c => OCut (c_id c)
          | None =>
              match failure_lookup_wire s w (q_type q) (q_class q) cd with
              | Some fe => OFail (f_id fe)
              | None => msg_ladder s q cd has_ecs client'
              end
          end
      end
    else msg_ladder s q cd has_ecs client'.

  (* Store.Get — the resolver-internal route (DS / DNSKEY lookups) *)
  Definition store_get (s : store) (q : question) (cd : bool) : outcome :=
    match store_lookup s q cd with
    | Some e => OHit (e_id e)
    | None =>
        match (if cd then None else cut_lookup s q) with
        | Some c => OCut (c_id c)
        | None =>
            match failure_lookup s q cd None with
            | Some fe => OFail (f_id fe)
            | None => OMiss
            end
        end
    end.

  (* Store.GetWithContext inside a request tree (the route Resolver.subQuery uses for its DS / DNSKEY
     lookups): [bypass] = the context the cache handed down carries the shared-denial bypass marker — the OUTER
     client sent CD=1 or an ECS option.  The marker only switches the subtree-cut rung off; the exact entry is
     looked up under the SUB-QUERY message's own question and CD bit (Store.Lookup), the failure rung unscoped *)
  Definition store_get_tree (s : store) (q : question) (cd bypass : bool) : outcome :=
    match store_lookup s q cd with
    | Some e => OHit (e_id e)
    | None =>
        match (if cd || bypass then None else cut_lookup s q) with
        | Some c => OCut (c_id c)
        | None =>
            match failure_lookup s q cd None with
            | Some fe => OFail (f_id fe)
            | None => OMiss
            end
        end
    end.

End Store.

