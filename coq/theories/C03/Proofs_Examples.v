(* C03 — the hypotheses of the property theorems are satisfiable by
   non-trivial inputs (computed instances). *)
From Sdns Require Import Common.Base Gen.C03 C03.Model C03.Proofs_Key C03.Proofs_Inj C03.Proofs_Store.
Open Scope N_scope.

(* a name with an upper-case letter, NUL, 0xFF, a literal dot, '@' and a space: "A\000\255\.@\ .w." *)
Definition ex_labels : list label := [[65; 0; 255; 46; 64; 32]; [119]].

Example ex_wire_pres_preimage :
  name_wf ex_labels = true /\
  present ex_labels = [65; 92;48;48;48; 92;50;53;53; 92;46; 92;64; 92;32; 46; 119; 46] /\
  pre_keywirewithprefix (encode ex_labels) 28 1 true (Some (mk_scope true 22 [203;0;112;0])) =
  Some ([0;1; 0;28; 1] ++ [97; 92;48;48;48; 92;50;53;53; 92;46; 92;64; 92;32; 46; 119; 46] ++ [4; 22; 203;0;112]) /\
  pre_keywithprefix (present ex_labels) 28 1 true (Some (mk_scope true 22 [203;0;112;0])) =
  [0;1; 0;28; 1] ++ [97; 92;48;48;48; 92;50;53;53; 92;46; 92;64; 92;32; 46; 119; 46] ++ [4; 22; 203;0;112].
Proof. vm_compute. repeat split; reflexivity. Qed.

(* malformed wires refuse: empty, missing root, trailing byte, pointer, reserved type, truncated label *)
Example ex_refusals :
  map write_wire_name [[]; [1;97]; [1;97;0;0]; [1;97;192;0]; [65;97;0]; [5;97;0]] = [None; None; None; None; None; None] /\
  write_wire_name [0] = Some [46].
Proof. vm_compute. split; reflexivity. Qed.

(* the verifier folds A–Z only: '@' (0x40) is not '`' (0x60), '[' is not '{' *)
Example ex_wire_equals_pres :
  wire_equals_pres (encode ex_labels) (fold (present ex_labels)) = true /\
  wire_equals_pres (encode [[64]]) [92;64;46] = true /\
  wire_equals_pres (encode [[64]]) [96;46] = false /\
  wire_equals_pres (encode [[91]]) [123;46] = false /\
  wire_equals_pres (encode [[97]]) [92;48;57;55;46] = false.     (* "\097." spells the same octet but is not what the decoder prints *)
Proof. vm_compute. repeat split; reflexivity. Qed.

(* preimage_injective's hypotheses hold of what the decoder prints and of normalised scopes *)
Example ex_injective_hyps :
  pres_clean (present ex_labels) = true /\
  scope_normal (normalize_scope (Some (mk_scope true 22 [203;0;113;77]))) /\
  normalize_scope (Some (mk_scope true 22 [203;0;113;77])) = Some (mk_scope true 22 [203;0;112;0]) /\
  normalize_scope (Some (mk_scope false 0 [0;0;0;0;0;0;0;0;0;0;0;0;0;0;0;0])) = None.
Proof. vm_compute. repeat split; try reflexivity; discriminate. Qed.

(* a forged store: the answer for b. is filed under the key of a. (and nothing else is stored);
   with the identity hash the lookup for a. finds it and the verifier turns it into a miss *)
Definition ex_forged : store bytes :=
  set_from_response bytes bytes_eqb (cachekey_pre (mk_q [97;46] 1 1) false None) (mk_q [98;46] 1 1) false None 5 None true true (empty_store bytes).
Example ex_forged_miss :
  option_map e_id (lookup_by_key bytes bytes_eqb ex_forged (cachekey_pre (mk_q [97;46] 1 1) false None)) = Some 5 /\
  serve_msg_exact bytes bytes_eqb (fun p => p) ex_forged (mk_q [97;46] 1 1) false None = None /\
  serve_wire_exact bytes bytes_eqb (fun p => p) ex_forged [1;97;0] 1 1 false = None /\
  store_lookup bytes bytes_eqb (fun p => p) ex_forged (mk_q [97;46] 1 1) false = None.
Proof. vm_compute. repeat split; reflexivity. Qed.

(* replace: the refresh answers without CD and without scope, the stored entry keeps both *)
Example ex_replace_inherits :
  let k := cachekey_pre (mk_q [97;46] 1 1) true (Some (mk_scope true 16 [10;1;0;0])) in
  let e0 := mk_entry (mk_q [97;46] 1 1) true (Some (mk_scope true 16 [10;1;0;0])) 1 None true true in
  let s0 := set_entry bytes bytes_eqb false k e0 (empty_store bytes) in
  let '(s1, ok) := replace_if_current bytes bytes_eqb k e0 (mk_q [65;46] 1 1) 2 None true true s0 in
  ok = true /\
  option_map (fun e => (e_id e, e_cd e, e_scope e)) (kget bytes bytes_eqb k (st_pos bytes s1)) =
  Some (2, true, Some (mk_scope true 16 [10;1;0;0])).
Proof. vm_compute. split; reflexivity. Qed.

(* purge: shared CD=0, shared CD=1 and a scoped entry for A. all go; b. stays *)
Example ex_purge :
  let q := mk_q [97;46] 1 1 in
  let hid (p : bytes) := p in
  let s0 := set_from_response bytes bytes_eqb (cachekey_pre q false None) q false None 1 None true true (empty_store bytes) in
  let s1 := set_from_response bytes bytes_eqb (cachekey_pre q true None) q true None 2 None true true s0 in
  let sc := Some (mk_scope true 16 [10;1;0;0]) in
  let s2 := set_from_response bytes bytes_eqb (cachekey_pre q false sc) (mk_q [65;46] 1 1) false sc 3 None true true s1 in
  let qb := mk_q [98;46] 1 1 in
  let s3 := set_from_response bytes bytes_eqb (cachekey_pre qb false None) qb false None 4 None true true s2 in
  let s4 := purge bytes bytes_eqb hid (mk_q [65;46] 1 1) s3 in
  (length (st_pos bytes s3), length (st_pos bytes s4)) = (4%nat, 1%nat) /\
  option_map e_id (serve_msg_exact bytes bytes_eqb hid s3 q false (Some (mk_scope true 24 [10;1;2;0]))) = Some 3 /\
  serve_msg_exact bytes bytes_eqb hid s4 q false (Some (mk_scope true 24 [10;1;2;0])) = None /\
  option_map e_id (serve_msg_exact bytes bytes_eqb hid s4 qb false None) = Some 4.
Proof. vm_compute. repeat split; reflexivity. Qed.

(* the self-alias test: "a. CNAME A." asked as "A." is a loop (SERVFAIL); "a. CNAME t." with "t. A" stored is a
   chain of one hop that is served, and that hop's name is not the question's *)
Example ex_msg_chase_selfloop :
  let hid (p : bytes) := p in
  let qa := mk_q [97;46] 1 1 in
  let qt := mk_q [116;46] 1 1 in
  let loop := mk_entry qa false None 1 (Some [1;65;0]) false true in
  let chain := mk_entry qa false None 2 (Some [1;84;0]) false true in
  let s := set_from_response bytes bytes_eqb (cachekey_pre qt false None) qt false None 3 None true true (empty_store bytes) in
  msg_chase_selfloop bytes bytes_eqb hid s 10 [65;46] 1 1 false loop = true /\
  msg_chase_selfloop bytes bytes_eqb hid s 10 [65;46] 1 1 false chain = false /\
  map e_id (msg_chase bytes bytes_eqb hid s 10 1 1 false chain) = [3].
Proof. vm_compute. repeat split; reflexivity. Qed.
