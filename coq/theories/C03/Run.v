(* C03 — correspondence: case type and the two checkers evaluated with
   vm_compute on what the Go drivers observed.
   check_case: the model computes what the implementation did.
   spec_case : what the implementation did satisfies the specification,
               judged without the model's lookup routes.

   Keys are not hashed here: the key type is the preimage itself (K := bytes,
   H := identity, the three salts := distinct tags).  The drivers confirm on
   the Go side that the preimages they report hash (real xxhash64) to the keys
   the production functions returned, and that no two distinct preimages of a
   history collided; forged keys play the part of collisions. *)
From Sdns Require Export Common.Base Gen.C03 C03.Model.
Open Scope N_scope.

Definition obytes_eqb (a b : option bytes) : bool :=
  match a, b with
  | None, None => true
  | Some x, Some y => bytes_eqb x y
  | _, _ => false
  end.
Definition on_eqb (a b : option N) : bool :=
  match a, b with
  | None, None => true
  | Some x, Some y => x =? y
  | _, _ => false
  end.

(* ---- concrete store *)
Definition KB := bytes.
Definition hid (p : bytes) : KB := p.
Definition s_fq (k : KB) : KB := 1 :: k.
Definition s_fz (k : KB) : KB := 2 :: k.
Definition s_cut (k : KB) : KB := 3 :: k.
Notation cstore := (store KB).

(* key of a (possibly forged) CacheKey{q, cd, scope}.Hash() *)
Inductive keysrc := KS (q : question) (cd : bool) (p : option scope).
Definition key_of (k : keysrc) : KB := match k with KS q cd p => hid (cachekey_pre q cd p) end.

(* what a lookup reported: for the pipeline the failure entry is not identifiable from the reply *)
Inductive obs := BMiss | BHit (id : N) | BCut (id : N) | BFail.
Definition obs_of (o : outcome) : obs :=
  match o with OMiss => BMiss | OHit i => BHit i | OCut i => BCut i | OFail _ => BFail end.
Definition obs_eqb (a b : obs) : bool :=
  match a, b with
  | BMiss, BMiss => true
  | BHit x, BHit y => x =? y
  | BCut x, BCut y => x =? y
  | BFail, BFail => true
  | _, _ => false
  end.

(* what the handler below the cache answers when a request misses *)
Inductive down := DAnswer (scope_bits : N) (id : N) | DFail (id : N).

Inductive op :=
  (* file an answer for (q, cd, scope) under key k: SetFromResponseWithKey / SetFromResponseScoped,
     or (neg) NegativeCache.Set of an entry with that identity *)
| OpSet (neg : bool) (k : keysrc) (q : question) (cd : bool) (p : option scope) (id : N)
  (* ReplaceIfCurrent(key k, entry `expected`, response for rq) and whether it reported a swap *)
| OpReplace (k : keysrc) (expected : N) (rq : question) (id : N) (ok : bool)
| OpRemove (neg : bool) (k : keysrc)
  (* an alias entry: the stored answer to q is one CNAME to `target` (wire form), no record of q's type *)
| OpSetAlias (k : keysrc) (q : question) (cd : bool) (target : bytes) (id : N) (plain : bool)
  (* a hop of an alias chain whose stored body has / lacks a record of the question's type and is /
     is not a plain NOERROR body (NXDOMAIN, authority or additional records, a type the composer
     cannot re-encode) *)
| OpSetHop (k : keysrc) (q : question) (cd : bool) (id : N) (hasq plain : bool)
  (* the failure cache's clock advances by dt ms; a subtree cut's lifetime ends *)
| OpClock (dt : N)
| OpCutExpire (id : N)
  (* a wire-born request without ECS whose reply may be composed by the cache-contained chase:
     ids of the stored responses whose records make up the reply, in order ([] = miss) *)
| OpServeChase (w : bytes) (q : question) (cd : bool) (out : list N)
| OpPurge (q : question)
| OpFailQ (q : question) (cd : bool) (p : option scope) (id : N)
| OpFailZ (zone : bytes) (qclass : N) (id : N)
| OpCut (name : bytes) (qclass : N) (wire_ok : bool) (id : N)
  (* forged placements in the failure map and in the cut hash index *)
| OpFailSeedQ (kq : question) (kcd : bool) (kp : option scope) (q : question) (cd : bool) (p : option scope) (id : N)
| OpFailSeedZ (kzone : bytes) (kclass : N) (zone : bytes) (qclass : N) (id : N)
| OpCutForge (kname : bytes) (kclass : N) (id : N)
  (* one request through the pipeline; w = wire name of q's name; client = ECS source *)
| OpServe (wireborn : bool) (w : bytes) (q : question) (cd : bool) (client : option scope) (out : obs)
  (* a request whose miss is resolved by a scripted downstream handler writing through the cache's
     ResponseWriter.WriteMsg; out = BMiss means the downstream was reached (and its response admitted) *)
| OpResolve (wireborn : bool) (w : bytes) (q : question) (cd : bool) (client : option scope) (d : down) (out : obs)
  (* a background refresh (prefetch) of entry `expected` under key k: the refresh request went to the
     sub-pipeline with CD = rcd and ECS source rscope (None: no subnet) and the answer for rq (id) was
     offered to ReplaceIfCurrent; ok = the swap happened *)
| OpRefresh (k : keysrc) (expected : N) (rq : question) (rcd : bool) (rscope : option scope) (id : N) (ok : bool)
  (* a message-born request whose alias hit is completed by the Msg-path chase through a Queryer that
     answers from Store.Get: ids of the stored responses in the reply, in order *)
| OpServeMsgChase (q : question) (cd : bool) (out : list N)
| OpLookup (q : question) (cd : bool) (out : option N)
| OpGet (q : question) (cd : bool) (out : obs)
  (* a resolver-internal Store.GetWithContext(ctx, q, cd) issued from the handler below the cache while it serves
     an outer client request that missed — ctx is the context the cache handed down; tree_cd / tree_ecs = the outer
     request carried CD=1 / an EDNS Client Subnet option (either one marks the whole request tree) *)
| OpGetTree (tree_cd tree_ecs : bool) (q : question) (cd : bool) (out : obs)
| OpFail (q : question) (cd : bool) (p : option scope) (out : option N)
| OpFailWire (w : bytes) (qtype qclass : N) (cd : bool) (out : option N)
| OpCutL (q : question) (cd : bool) (out : option N)
| OpCutWire (w : bytes) (qclass : N) (out : option N).

(* the [ecs] policy of a history: forward ceilings (edns clamps the client's source to them) and
   min_scope (ClampScope widens stored scopes to it) per family *)
Record policy := mk_pol { p_fwd4 : N; p_fwd6 : N; p_min4 : N; p_min6 : N;
                          p_finit : N; p_fmax : N }.   (* failure cache initial / maximal backoff, ms *)
Definition clamp_client (pol : policy) (client : option scope) : option scope :=
  option_map (fun c => mk_scope (sc_is4 c) (N.min (sc_bits c) (if sc_is4 c then p_fwd4 pol else p_fwd6 pol)) (sc_addr c)) client.

Inductive case :=
  (* one wire name through every key function.
     pres   = UnpackDomainName's output (None: refused);
     p_pres = preimage witnessed for KeyWithPrefix(Question{pres,..}, cd, scope);
     p_wire = preimage witnessed for KeyWireWithPrefix(w, ..) (None: ok = false) *)
| CaseKey (w : bytes) (pres : option bytes) (qtype qclass : N) (cd : bool) (p : option scope)
          (p_pres p_wire : option bytes)
  (* Key over an arbitrary presentation string (no wire form) *)
| CaseKeyStr (name : bytes) (qtype qclass : N) (cd : bool) (p : option scope) (pre : bytes)
  (* WireNameEqualsPresentation(w, s) for several s *)
| CaseEq (w : bytes) (tests : list (bytes * bool))
  (* CacheKey.Hash preimage and normalizeKeyScope *)
| CaseHash (q : question) (cd : bool) (p : option scope) (pre : bytes) (norm : option scope)
  (* exhaustive small scope (thorough tier): every question of a finite family with the preimage the production
     wire hasher was fed for it (wire name, type, class, CD, scope, observed preimage) *)
| CaseInj (items : list (bytes * N * N * bool * option scope * bytes))
  (* the ancestor walks on their own: walkWireSuffixes(w), walkFailureZones(pres) and dnsname.Suffixes(pres) for
     a wire name and the text the decoder prints for it (None: not a plain uncompressed name); the callback
     refuses the stop-th zone (0: none).  zones_pres / zones_wire = what the callbacks were handed, in order;
     sufs = pres[off:] for every offset Suffixes yields *)
| CaseZones (w : bytes) (pres : option bytes) (stop : N) (zones_pres zones_wire sufs : list bytes)
  (* dns.UnpackDomainName(msg, off) on its own — plain names, names inside a message behind other octets,
     compression pointers (backward, forward, chains around maxCompressionPointers, loops), names that exceed
     the 255-octet budget through pointers, malformed wires: out = (text, offset after the name) or None for
     an error return *)
| CaseUnpack (msg : bytes) (off : N) (out : option (bytes * N))
  (* searchAdditionalAnswer(msg, res) and respCnameHasType(res, qtype) called directly on a hop response whose
     answer section is `ans` — per record its type and, for a *dns.CNAME, the target: (target, child) as returned
     (target0 / child0 are the named results' initial values: "" and false), how many records the reply's answer
     section gained, and respCnameHasType's verdict *)
| CaseAliasScan (ans : list (N * option bytes)) (qtype : N) (target : bytes) (child : bool) (gained : N) (has : bool)
  (* a history on one real Cache *)
| CaseHist (pol : policy) (ops : list op).

Fixpoint lbytes_eqb (a b : list bytes) : bool :=
  match a, b with
  | [], [] => true
  | x :: a, y :: b => bytes_eqb x y && lbytes_eqb a b
  | _, _ => false
  end.
Definition take_stop {A} (stop : N) (l : list A) : list A :=
  if stop =? 0 then l else firstn (N.to_nat stop) l.

(* ---- model run of a history *)

Fixpoint find_entry (id : N) (m : list (KB * entry)) : option entry :=
  match m with
  | [] => None
  | (_, e) :: r => if e_id e =? id then Some e else find_entry id r
  end.

Definition step (pol : policy) (now : N) (s : cstore) (o : op) : cstore * bool :=
  match o with
  | OpSet neg k q cd p id =>
      (if neg then set_entry KB bytes_eqb true (key_of k) (mk_entry q cd (normalize_scope p) id None true true) s
       else store_set_from_response KB bytes_eqb hid s_fq (key_of k) q cd p id None true true s, true)
  | OpReplace k expected rq id ok =>
      match find_entry expected (st_pos KB s ++ st_neg KB s) with
      | Some ex =>
          let '(s', r) := replace_if_current KB bytes_eqb (key_of k) ex rq id None true true s in
          (s', Bool.eqb r ok)
      | None => (s, negb ok)       (* the expected entry is no longer anywhere: the CAS must fail *)
      end
  | OpRemove neg k => (remove_entry KB bytes_eqb neg (key_of k) s, true)
  | OpSetAlias k q cd target id plain =>
      (store_set_from_response KB bytes_eqb hid s_fq (key_of k) q cd None id (Some target) false plain s, true)
  | OpSetHop k q cd id hasq plain =>
      (store_set_from_response KB bytes_eqb hid s_fq (key_of k) q cd None id None hasq plain s, true)
  | OpClock _ => (set_failure_clock KB now s, true)
  | OpCutExpire id => (expire_cut KB id s, true)
  | OpServeChase w q cd out =>
      let ids :=
        match serve_wire_exact KB bytes_eqb hid s w (q_type q) (q_class q) cd with
        | Some e =>
            match (if e_has_qtype e then None else e_alias e) with
            | None => [e_id e]
            | Some _ =>
                match wire_chase KB bytes_eqb hid s (N.to_nat max_wire_chase_hops) w (q_type q) (q_class q) cd e with
                | Some l => map e_id l
                | None => [e_id e]          (* the chase declines; the Msg path serves the alias alone (no queryer wired) *)
                end
            end
        | None =>
            match serve_msg_exact KB bytes_eqb hid s q cd None with
            | Some e => [e_id e]
            | None => []
            end
        end in
      (s, bytes_eqb ids out)
  | OpPurge q => (purge KB bytes_eqb hid q s, true)
  | OpFailQ q cd p id => (record_fquestion KB bytes_eqb hid s_fq now (p_finit pol) (p_fmax pol) q cd p id s, true)
  | OpFailZ zone qc id => (record_fzone KB bytes_eqb hid s_fz now (p_finit pol) (p_fmax pol) zone qc id s, true)
  | OpCut name qc wire_ok id => (record_cut KB bytes_eqb hid s_cut name qc wire_ok id s, true)
  | OpFailSeedQ kq kcd kp q cd p id => (seed_fquestion KB bytes_eqb hid s_fq kq kcd kp q cd p id (now + 60000) s, true)
  | OpFailSeedZ kz kc zone qc id => (seed_fzone KB bytes_eqb hid s_fz kz kc zone qc id (now + 60000) s, true)
  | OpCutForge kn kc id => (forge_cuthash KB bytes_eqb hid s_cut kn kc id s, true)
  | OpServe wb w q cd client out =>
      (s, obs_eqb (obs_of (serve_pipeline KB bytes_eqb hid s_fq s_fz s_cut s wb w q cd (clamp_client pol client))) out)
  | OpResolve wb w q cd client d out =>
      let o := serve_pipeline KB bytes_eqb hid s_fq s_fz s_cut s wb w q cd (clamp_client pol client) in
      let client' := option_map (fun c => addr_prefix (sc_is4 c) (sc_addr c) (sc_bits c)) (clamp_client pol client) in
      (match o with
       | OMiss =>
           match d with
           | DAnswer bits id => writeback_answer KB bytes_eqb hid s_fq s_fz (p_min4 pol) (p_min6 pol) q cd client' bits id s
           | DFail id => writeback_failure KB bytes_eqb hid s_fq now (p_finit pol) (p_fmax pol) q cd client' id s
           end
       | _ => s
       end, obs_eqb (obs_of o) out)
  | OpRefresh k expected rq rcd rscope id ok =>
      match find_entry expected (st_pos KB s ++ st_neg KB s) with
      | Some ex =>
          let '(s', r) := replace_if_current KB bytes_eqb (key_of k) ex rq id None true true s in
          (s', Bool.eqb r ok)
      | None => (s, negb ok)
      end
  | OpServeMsgChase q cd out =>
      let ids :=
        match serve_msg_exact KB bytes_eqb hid s q cd None with
        | Some e =>
            (* id 0 (never an entry's id) stands for "SERVFAIL: an alias of the chain points back at the question" *)
            if msg_chase_selfloop KB bytes_eqb hid s 10 (q_name q) (q_type q) (q_class q) cd e then [0]
            else e_id e :: map e_id (msg_chase KB bytes_eqb hid s 10 (q_type q) (q_class q) cd e)
        | None => []
        end in
      (s, bytes_eqb ids out)
  | OpLookup q cd out =>
      (s, on_eqb (option_map e_id (store_lookup KB bytes_eqb hid s q cd)) out)
  | OpGet q cd out =>
      (s, obs_eqb (obs_of (store_get KB bytes_eqb hid s_fq s_fz s q cd)) out)
  | OpGetTree tcd tecs q cd out =>
      (s, obs_eqb (obs_of (store_get_tree KB bytes_eqb hid s_fq s_fz s q cd (tcd || tecs))) out)
  | OpFail q cd p out =>
      (s, on_eqb (option_map f_id (failure_lookup KB bytes_eqb hid s_fq s_fz s q cd p)) out)
  | OpFailWire w qt qc cd out =>
      (s, on_eqb (option_map f_id (failure_lookup_wire KB bytes_eqb hid s_fq s_fz s w qt qc cd)) out)
  | OpCutL q cd out =>
      (s, on_eqb (option_map c_id (if cd then None else cut_lookup KB s q)) out)
  | OpCutWire w qc out =>
      (s, on_eqb (option_map c_id (cut_lookup_wire KB bytes_eqb hid s_cut s w qc)) out)
  end.

Fixpoint run (pol : policy) (now : N) (s : cstore) (ops : list op) : bool :=
  match ops with
  | [] => true
  | o :: r =>
      let now' := match o with OpClock dt => now + dt | _ => now end in
      let '(s', ok) := step pol now' s o in ok && run pol now' s' r
  end.

Definition pres_of_wire (w : bytes) : option bytes := option_map present (parse_wire w).

(* an observed record: its type and, for a *dns.CNAME, its target *)
Definition rr_of_obs (o : N * option bytes) : I_RR :=
  let hdr := mk_T_RR_Header [] (fst o) 1 0 0 in
  match snd o with
  | Some t => I_RR_of_CNAME (mk_T_CNAME hdr t)
  | None => I_RR_other 0 hdr
  end.
Definition len_rrs (l : list I_RR) : N := N.of_nat (length l).

Definition check_case (c : case) : bool :=
  match c with
  | CaseKey w pres qt qc cd p p_pres p_wire =>
      obytes_eqb (pres_of_wire w) pres &&
      obytes_eqb (pre_keywirewithprefix w qt qc cd p) p_wire &&
      obytes_eqb (option_map (fun n => pre_keywithprefix n qt qc cd p) pres) p_pres
  | CaseKeyStr name qt qc cd p pre =>
      bytes_eqb (pre_keywithprefix name qt qc cd p) pre &&
      (match p with None => bytes_eqb (pre_keystring name qt qc cd) pre | Some _ => true end)
  | CaseEq w tests => forallb (fun t => Bool.eqb (wire_equals_pres w (fst t)) (snd t)) tests
  | CaseHash q cd p pre norm =>
      bytes_eqb (cachekey_pre q cd p) pre && oscope_eqb (normalize_scope p) norm
  | CaseInj items =>
      forallb (fun it => let '(w, qt, qc, cd, p, pre) := it in
                         obytes_eqb (pre_keywirewithprefix w qt qc cd p) (Some pre)) items
  | CaseZones w pres stop zp zw sf =>
      lbytes_eqb (take_stop stop (wire_name_suffixes w)) zw &&
      match pres with
      | Some n => obytes_eqb (pres_of_wire w) pres &&
                  lbytes_eqb (take_stop stop (name_suffixes (canonical n))) zp &&
                  lbytes_eqb (label_suffixes n) sf
      | None => true
      end
  | CaseAliasScan ans qtype target child gained has =>
      let rrs := map rr_of_obs ans in
      let '(t, c) := answer_alias_scan rrs [] false in
      bytes_eqb t target && Bool.eqb c child && (len_rrs rrs =? gained) && Bool.eqb (answer_has_type rrs qtype) has
  | CaseUnpack msg off out =>
      match unpack_name msg off, out with
      | None, None => true
      | Some (s, o), Some (s', o') => bytes_eqb s s' && (o =? o')
      | _, _ => false
      end
  | CaseHist pol ops => run pol 0 (empty_store KB) ops
  end.

(* ---- the specification, judged directly on the observations *)

(* identity table of a history: what each stored response was admitted for *)
Record ident := mk_ident { i_id : N; i_q : question; i_cd : bool; i_scope : option scope }.
Record fident := mk_fident { fi_id : N; fi_zone : bool; fi_q : question; fi_cd : bool; fi_scope : option scope }.
Record spec_state := mk_ss { ss_ans : list ident; ss_fail : list fident; ss_cut : list (N * bytes * N); ss_alias : list (N * bytes) }.

Fixpoint find_ident (id : N) (l : list ident) : option ident :=
  match l with [] => None | i :: r => if i_id i =? id then Some i else find_ident id r end.
Fixpoint find_fident (id : N) (l : list fident) : option fident :=
  match l with [] => None | i :: r => if fi_id i =? id then Some i else find_fident id r end.
Fixpoint find_cut (id : N) (l : list (N * bytes * N)) : option (bytes * N) :=
  match l with [] => None | (i, n, c) :: r => if i =? id then Some (n, c) else find_cut id r end.

Definition fold_eqb (a b : bytes) : bool := bytes_eqb (fold a) (fold b).

(* "client inside scope": the entry's scope is a prefix of the client's own source prefix *)
Definition audience_okb (sc : option scope) (client : option scope) : bool :=
  match sc with
  | None => true
  | Some s =>
      match client with
      | None => false
      | Some c => (sc_bits s <=? sc_bits c) && negb (sc_bits s =? 0) && scope_contains s (sc_is4 c) (sc_addr c)
      end
  end.

(* an exact-answer hit is legitimate: same folded name (nothing broader), type, class, CD; audience contains the client *)
Definition hit_okb (ss : spec_state) (id : N) (q : question) (cd : bool) (client : option scope) : bool :=
  match find_ident id (ss_ans ss) with
  | None => false
  | Some i =>
      fold_eqb (q_name (i_q i)) (q_name q) && (q_type (i_q i) =? q_type q) && (q_class (i_q i) =? q_class q) &&
      Bool.eqb (i_cd i) cd && audience_okb (i_scope i) client
  end.

(* suffix at a label boundary of a presentation name (escapes respected) *)
Definition is_label_suffix (zone name : bytes) : bool :=
  existsb (fun s => bytes_eqb s zone) (name_suffixes name).

(* a cut hit is legitimate: never for CD or ECS requests; the denied name is an ancestor-or-self of the same class *)
Definition cut_okb (ss : spec_state) (id : N) (q : question) (cd has_ecs : bool) : bool :=
  match find_cut id (ss_cut ss) with
  | None => false
  | Some (n, c) => negb cd && negb has_ecs && (c =? q_class q) && is_label_suffix (fold n) (fold (q_name q))
  end.

(* a failure hit is legitimate: the exact question / CD / audience, or a zone that is an ancestor-or-self, same class *)
Definition fail_okb (ss : spec_state) (id : N) (q : question) (cd : bool) (p : option scope) : bool :=
  match find_fident id (ss_fail ss) with
  | None => false
  | Some f =>
      if fi_zone f then (q_class (fi_q f) =? q_class q) && is_label_suffix (fold (q_name (fi_q f))) (fold (q_name q))
      else fold_eqb (q_name (fi_q f)) (q_name q) && (q_type (fi_q f) =? q_type q) && (q_class (fi_q f) =? q_class q) &&
           Bool.eqb (fi_cd f) cd && oscope_eqb (fi_scope f) (normalize_scope p)
  end.

Fixpoint find_alias (id : N) (l : list (N * bytes)) : option bytes :=
  match l with [] => None | (i, t) :: r => if i =? id then Some t else find_alias id r end.

(* every further segment of a composed reply was admitted for (target of the previous alias,
   the client's type, class and CD), shared audience *)
Fixpoint chase_okb (ss : spec_state) (qt qc : N) (cd : bool) (prev : N) (rest : list N) : bool :=
  match rest with
  | [] => true
  | nxt :: r =>
      match find_alias prev (ss_alias ss) with
      | None => false                  (* the previous segment was not an alias: nothing may follow it *)
      | Some target =>
          match pres_of_wire target with
          | None => false
          | Some tn => hit_okb ss nxt (mk_q tn qt qc) cd None && chase_okb ss qt qc cd nxt r
          end
      end
  end.

Definition spec_step_serve (pol : policy) (ss : spec_state) (wb : bool) (w : bytes) (q : question) (cd : bool) (client : option scope) (out : obs) : spec_state * bool :=
      (ss, match out with
           | BMiss => true
           | BHit id =>
               hit_okb ss id q cd (option_map (fun c => addr_prefix (sc_is4 c) (sc_addr c) (sc_bits c)) (clamp_client pol client)) &&
               (* a wire-born request is judged on the name its wire bytes spell *)
               (if wb then match pres_of_wire w with Some n => fold_eqb n (q_name q) | None => false end else true)
           | BCut id => cut_okb ss id q cd (match client with Some _ => true | None => false end)
           | BFail => existsb (fun f => fail_okb ss (fi_id f) q cd
                                          (option_map (fun c => addr_prefix (sc_is4 c) (sc_addr c) (sc_bits c)) (clamp_client pol client))) (ss_fail ss)
           end).

Definition spec_step (pol : policy) (ss : spec_state) (o : op) : spec_state * bool :=
  match o with
  | OpSet _ _ q cd p id => (mk_ss (mk_ident id q cd (normalize_scope p) :: ss_ans ss) (ss_fail ss) (ss_cut ss) (ss_alias ss), true)
  | OpReplace _ expected rq id ok =>
      if ok then
        match find_ident expected (ss_ans ss) with
        | Some ex => (mk_ss (mk_ident id rq (i_cd ex) (i_scope ex) :: ss_ans ss) (ss_fail ss) (ss_cut ss) (ss_alias ss), true)
        | None => (ss, false)     (* a swap against an entry that was never stored *)
        end
      else (ss, true)
  | OpRemove _ _ => (ss, true)
  | OpSetAlias _ q cd target id _ =>
      (mk_ss (mk_ident id q cd None :: ss_ans ss) (ss_fail ss) (ss_cut ss) ((id, target) :: ss_alias ss), true)
  | OpSetHop _ q cd id _ _ =>
      (mk_ss (mk_ident id q cd None :: ss_ans ss) (ss_fail ss) (ss_cut ss) (ss_alias ss), true)
  | OpClock _ => (ss, true)
  | OpCutExpire _ => (ss, true)
  | OpServeChase w q cd out =>
      (ss, match out with
           | [] => true
           | first :: rest =>
               hit_okb ss first q cd None &&
               (match pres_of_wire w with Some n => fold_eqb n (q_name q) | None => false end) &&
               chase_okb ss (q_type q) (q_class q) cd first rest
           end)
  | OpPurge _ => (ss, true)
  | OpFailQ q cd p id => (mk_ss (ss_ans ss) (mk_fident id false q cd (normalize_scope p) :: ss_fail ss) (ss_cut ss) (ss_alias ss), true)
  | OpFailZ zone qc id => (mk_ss (ss_ans ss) (mk_fident id true (mk_q zone 0 qc) false None :: ss_fail ss) (ss_cut ss) (ss_alias ss), true)
  | OpCut name qc _ id => (mk_ss (ss_ans ss) (ss_fail ss) ((id, name, qc) :: ss_cut ss) (ss_alias ss), true)
  | OpFailSeedQ _ _ _ q cd p id => (mk_ss (ss_ans ss) (mk_fident id false q cd (normalize_scope p) :: ss_fail ss) (ss_cut ss) (ss_alias ss), true)
  | OpFailSeedZ _ _ zone qc id => (mk_ss (ss_ans ss) (mk_fident id true (mk_q zone 0 qc) false None :: ss_fail ss) (ss_cut ss) (ss_alias ss), true)
  | OpCutForge _ _ _ => (ss, true)
  | OpServe wb w q cd client out => spec_step_serve pol ss wb w q cd client out
  | OpResolve wb w q cd client d out =>
      let client' := option_map (fun c => addr_prefix (sc_is4 c) (sc_addr c) (sc_bits c)) (clamp_client pol client) in
      match out with
      | BMiss =>
          (* the downstream's response was obtained for this question, CD and audience *)
          (match d with
           | DAnswer bits id =>
               mk_ss (mk_ident id q cd (normalize_scope (writeback_scope (p_min4 pol) (p_min6 pol) client' bits)) :: ss_ans ss) (ss_fail ss) (ss_cut ss) (ss_alias ss)
           | DFail id =>
               mk_ss (ss_ans ss) (mk_fident id false q cd (normalize_scope client') :: ss_fail ss) (ss_cut ss) (ss_alias ss)
           end, true)
      | _ => spec_step_serve pol ss wb w q cd client out
      end
  | OpRefresh _ expected rq rcd rscope id ok =>
      (* the refreshed response was obtained for (rq, CD and subnet of the refresh request) *)
      if ok then (mk_ss (mk_ident id rq rcd (normalize_scope rscope) :: ss_ans ss) (ss_fail ss) (ss_cut ss) (ss_alias ss),
                  match find_ident expected (ss_ans ss) with Some _ => true | None => false end)
      else (ss, true)
  | OpServeMsgChase q cd out =>
      (ss, match out with
           | [] => true
           | [0] => true             (* SERVFAIL: nothing was served *)
           | first :: rest => hit_okb ss first q cd None && chase_okb ss (q_type q) (q_class q) cd first rest
           end)
  | OpLookup q cd out =>
      (ss, match out with None => true | Some id => hit_okb ss id q cd None end)
  | OpGet q cd out =>
      (ss, match out with
           | BMiss => true
           | BHit id => hit_okb ss id q cd None
           | BCut id => cut_okb ss id q cd false
           | BFail => existsb (fun f => fail_okb ss (fi_id f) q cd None) (ss_fail ss)
           end)
  | OpGetTree tcd tecs q cd out =>
      (* the resolver-internal lookup answers only from the partition the SUB-QUERY asks in, whatever the outer
         client sent; a cut never answers inside a CD / ECS tree *)
      (ss, match out with
           | BMiss => true
           | BHit id => hit_okb ss id q cd None
           | BCut id => cut_okb ss id q cd (tcd || tecs)
           | BFail => existsb (fun f => fail_okb ss (fi_id f) q cd None) (ss_fail ss)
           end)
  | OpFail q cd p out => (ss, match out with None => true | Some id => fail_okb ss id q cd p end)
  | OpFailWire w qt qc cd out =>
      (ss, match out with
           | None => true
           | Some id => match pres_of_wire w with Some n => fail_okb ss id (mk_q n qt qc) cd None | None => false end
           end)
  | OpCutL q cd out => (ss, match out with None => true | Some id => cut_okb ss id q cd false end)
  | OpCutWire w qc out =>
      (ss, match out with
           | None => true
           | Some id => match pres_of_wire w with Some n => cut_okb ss id (mk_q n 0 qc) false false | None => false end
           end)
  end.

Fixpoint spec_run (pol : policy) (ss : spec_state) (ops : list op) : bool :=
  match ops with
  | [] => true
  | o :: r => let '(ss', ok) := spec_step pol ss o in ok && spec_run pol ss' r
  end.

(* purge completeness: between a purge of q and the next admission, no exact-answer
   lookup for q (any spelling, CD, client) may hit *)
Fixpoint purge_spec (purged : list question) (ops : list op) : bool :=
  match ops with
  | [] => true
  | o :: r =>
      let same (q : question) := existsb (fun pq => fold_eqb (q_name pq) (q_name q) && (q_type pq =? q_type q) && (q_class pq =? q_class q)) purged in
      match o with
      | OpPurge q => purge_spec (q :: purged) r
      | OpSet _ _ q _ _ _ | OpReplace _ _ q _ _ | OpSetAlias _ q _ _ _ _ | OpSetHop _ q _ _ _ _ | OpRefresh _ _ q _ _ _ _ =>
          purge_spec (filter (fun pq => negb (fold_eqb (q_name pq) (q_name q) && (q_type pq =? q_type q) && (q_class pq =? q_class q))) purged) r
      | OpServe _ _ q _ _ (BHit _) => negb (same q) && purge_spec purged r
      | OpResolve _ _ q _ _ _ (BHit _) => negb (same q) && purge_spec purged r
      | OpResolve _ _ q _ _ (DAnswer _ _) BMiss =>
          purge_spec (filter (fun pq => negb (fold_eqb (q_name pq) (q_name q) && (q_type pq =? q_type q) && (q_class pq =? q_class q))) purged) r
      | OpServeChase _ q _ (_ :: _) => negb (same q) && purge_spec purged r
      | OpLookup q _ (Some _) => negb (same q) && purge_spec purged r
      | OpGet q _ (BHit _) => negb (same q) && purge_spec purged r
      | OpGetTree _ _ q _ (BHit _) => negb (same q) && purge_spec purged r
      | _ => purge_spec purged r
      end
  end.

Definition spec_case (c : case) : bool :=
  match c with
  | CaseKey w pres qt qc cd p p_pres p_wire =>
      (* the wire path may refuse, but when it keys a name it keys it exactly as the presentation path does *)
      match p_wire with
      | None => true
      | Some x => match p_pres with Some y => bytes_eqb x y | None => false end
      end
  | CaseKeyStr name qt qc cd p pre => true
  | CaseEq w tests =>
      forallb (fun t => Bool.eqb (snd t)
                          (match pres_of_wire w with Some n => fold_eqb n (fst t) | None => false end)) tests
  | CaseHash q cd p pre norm => true
  | CaseInj items =>
      (* two questions of the family share a preimage exactly when they are the same question: same name under
         the A-Z fold, type, class, CD partition and normalised scope *)
      let xs := map (fun it => let '(w, qt, qc, cd, p, pre) := it in
                               (option_map fold (pres_of_wire w), qt, qc, cd, normalize_scope p, pre)) items in
      forallb (fun a => let '(na, ta, ca, cda, pa, prea) := a in
                 forallb (fun b => let '(nb, tb, cb, cdb, pb, preb) := b in
                            Bool.eqb (bytes_eqb prea preb)
                                     (obytes_eqb na nb && (ta =? tb) && (ca =? cb) && Bool.eqb cda cdb && oscope_eqb pa pb)) xs) xs
  | CaseZones w pres stop zp zw sf =>
      (* both walks visit exactly the name's label-level ancestors — the name, each parent, the root — the wire
         walk as wire suffixes, the text walk as what the decoder prints for them (lower-cased); Suffixes the
         same without the root.  Judged on the decoded labels, not through the model's text walk. *)
      match parse_wire w with
      | Some ls =>
          lbytes_eqb (take_stop stop (map encode (tails ls))) zw &&
          match pres with
          | Some _ => lbytes_eqb (take_stop stop (map (fun t => fold (present t)) (tails ls))) zp &&
                      lbytes_eqb (map present (removelast (tails ls))) sf
          | None => false
          end
      | None => true
      end
  | CaseAliasScan ans qtype target child gained has =>
      (* the next sub-question is named by an alias record of THIS response and by the last one: child exactly
         when a record of type CNAME is present, the target that of the last such record; the verdict "has the
         type" exactly when some record has it.  Written over the observation, backwards, without the model's scan *)
      let last_alias := find (fun o => fst o =? 5) (rev ans) in
      match last_alias with
      | Some o => child && bytes_eqb target (match snd o with Some t => t | None => [] end)
      | None => negb child && bytes_eqb target []
      end &&
      Bool.eqb has (negb (forallb (fun o => negb (fst o =? qtype)) ans)) &&
      (gained =? N.of_nat (length ans))
  | CaseUnpack msg off out =>
      (* judged on the decoded labels, without the model's walk: where the octets the decoder consumed are a
         plain uncompressed name the text is what `present` says for its labels; a plain well-formed name that
         runs to the end of the message is never refused *)
      let tl := skipn (N.to_nat off) msg in
      match out with
      | Some (s, o) =>
          match parse_wire (firstn (N.to_nat (o - off)) tl) with
          | Some ls => bytes_eqb s (present ls)
          | None => true
          end
      | None => match parse_wire tl with Some _ => false | None => true end
      end
  | CaseHist pol ops => spec_run pol (mk_ss [] [] [] []) ops && purge_spec [] ops
  end.
