(* C03 — translator ties for functions srcgen translates WHOLE from the Go AST (stage 3: loops,
   strings): the hand-written model functions are proved equal to the generated ones, so a
   behaviour-changing edit of the Go function breaks a proof here while a behaviour-preserving
   rewrite does not.  Fuel bounds are stated in the lemmas. *)
From Sdns Require Import Common.Base Common.GoList Gen.C03 C03.Model C03.Proofs_Key.
Open Scope N_scope.

Lemma wrap8_fold x : (65 <=? x) && (x <=? 90) = true -> wrap8 (x + 32) = x + 32.
Proof. intros Hx. unfold wrap8, two8. apply N.mod_small. lia. Qed.

(* what both loops do with one pair of octets *)
Definition go_fold (v : N) : N := if (65 <=? v) && (v <=? 90) then wrap8 (v + 32) else v.
Lemma go_fold_spec v : go_fold v = fold_byte v.
Proof.
  unfold go_fold, fold_byte. destruct ((65 <=? v) && (v <=? 90)) eqn:E; [apply wrap8_fold; exact E|reflexivity].
Qed.

(* every `if` of the goal, whatever shape the translated body has *)
Ltac split_ifs := repeat match goal with |- context [if ?c then _ else _] => destruct c eqn:? end.

Lemma skipn_nth_cons {A} (d : A) l n : (n < length l)%nat -> skipn n l = nth n l d :: skipn (S n) l.
Proof.
  revert n. induction l as [|x r IH]; intros n Hn; cbn in Hn; [lia|].
  destruct n as [|n]; [reflexivity|]. cbn [skipn nth]. apply IH. lia.
Qed.

Lemma equal_name_ascii_fold_length a : forall b, length a <> length b -> equal_name_ascii_fold a b = false.
Proof.
  induction a as [|x r IH]; intros [|y s] Hl; cbn in *; try reflexivity; try lia.
  rewrite IH by lia. apply andb_false_r.
Qed.
Lemma fold_wire_names_equal_length a : forall b, length a <> length b -> fold_wire_names_equal a b = false.
Proof.
  induction a as [|x r IH]; intros [|y s] Hl; cbn in *; try reflexivity; try lia.
  rewrite IH by lia. apply andb_false_r.
Qed.

(* ---- middleware/cache.foldWireNamesEqual (entry_wire_chase.go) *)
Lemma fwn_loop_spec a b : length a = length b ->
  forall lf n, (n <= length b)%nat -> (length b - n < lf)%nat ->
  go_foldWireNamesEqual_loop1 b lf (Z.of_nat n) a b =
  (if fold_wire_names_equal (skipn n a) (skipn n b) then (GoNext, (a, b)) else (GoRet false, (a, b))).
Proof.
  intros Hlen lf. induction lf as [|lf IH]; intros n Hn Hf; [lia|].
  cbn [go_foldWireNamesEqual_loop1]. unfold go_len.
  destruct (Z.ltb (Z.of_nat n) (Z.of_nat (length b))) eqn:E.
  - apply Z.ltb_lt in E. assert (Hnb : (n < length b)%nat) by lia.
    rewrite (skipn_nth_cons 0 a n), (skipn_nth_cons 0 b n) by lia.
    rewrite !go_idx_nth by lia. rewrite Nat2Z.id.
    set (x := nth n a 0). set (y := nth n b 0).
    cbn [fold_wire_names_equal]. unfold fold_fwn, fold_byte.
    replace (Z.of_nat n + 1)%Z with (Z.of_nat (S n)) by lia.
    rewrite IH by lia. unfold wrap8, two8.
    (* the proof looks only at what the body computes, not at how its tests are written *)
    destruct (fold_wire_names_equal (skipn (S n) a) (skipn (S n) b));
      destruct ((65 <=? x) && (x <=? 90)) eqn:Ex; destruct ((65 <=? y) && (y <=? 90)) eqn:Ey;
      split_ifs; first [reflexivity | exfalso; lia].
  - apply Z.ltb_ge in E. assert (n = length b) by lia. subst n.
    rewrite skipn_all. rewrite <- Hlen at 1. rewrite skipn_all. reflexivity.
Qed.

Lemma gen_foldWireNamesEqual a b : go_foldWireNamesEqual a b = fold_wire_names_equal a b.
Proof.
  unfold go_foldWireNamesEqual, go_len.
  destruct (Z.eqb (Z.of_nat (length a)) (Z.of_nat (length b))) eqn:E; cbn [negb].
  - apply Z.eqb_eq in E. assert (Hl : length a = length b) by lia.
    pose proof (fwn_loop_spec a b Hl (S (length b)) 0%nat) as Hs. cbn [Z.of_nat skipn] in Hs.
    rewrite Hs by lia. destruct (fold_wire_names_equal a b); reflexivity.
  - apply Z.eqb_neq in E. symmetry. apply fold_wire_names_equal_length. lia.
Qed.

(* ---- middleware/cache.equalNameASCIIFold (store.go): enough fuel = more than the name's length *)
Lemma enf_loop_spec a b : length a = length b ->
  forall fuel lf n, (n <= length a)%nat -> (length a - n < lf)%nat ->
  fst (go_equalNameASCIIFold_loop1 fuel lf a b (Z.of_nat n)) =
  (if equal_name_ascii_fold (skipn n a) (skipn n b) then GoNext else GoRet false).
Proof.
  intros Hlen fuel lf. induction lf as [|lf IH]; intros n Hn Hf; [lia|].
  cbn [go_equalNameASCIIFold_loop1]. unfold go_len.
  destruct (Z.ltb (Z.of_nat n) (Z.of_nat (length a))) eqn:E.
  - apply Z.ltb_lt in E. assert (Hna : (n < length a)%nat) by lia.
    rewrite (skipn_nth_cons 0 a n), (skipn_nth_cons 0 b n) by lia.
    rewrite !go_idx_nth by lia. rewrite Nat2Z.id.
    set (x := nth n a 0). set (y := nth n b 0).
    cbn [equal_name_ascii_fold]. unfold fold_enf_a, fold_enf_b, fold_byte.
    replace (Z.of_nat n + 1)%Z with (Z.of_nat (S n)) by lia.
    pose proof (IH (S n) ltac:(lia) ltac:(lia)) as IH1.
    destruct (go_equalNameASCIIFold_loop1 fuel lf a b (Z.of_nat (S n))) as [c st]. cbn [fst] in IH1. subst c.
    unfold wrap8, two8.
    destruct (equal_name_ascii_fold (skipn (S n) a) (skipn (S n) b));
      destruct ((65 <=? x) && (x <=? 90)) eqn:Ex; destruct ((65 <=? y) && (y <=? 90)) eqn:Ey;
      split_ifs; cbn [fst]; first [reflexivity | exfalso; lia].
  - apply Z.ltb_ge in E. assert (n = length a) by lia. subst n.
    rewrite skipn_all. replace (skipn (length a) b) with (@nil N) by (rewrite Hlen; symmetry; apply skipn_all). reflexivity.
Qed.

Lemma gen_equalNameASCIIFold fuel a b :
  (length a < fuel)%nat -> go_equalNameASCIIFold fuel a b = Some (equal_name_ascii_fold a b).
Proof.
  intros Hf. unfold go_equalNameASCIIFold, go_len.
  destruct (Z.eqb (Z.of_nat (length a)) (Z.of_nat (length b))) eqn:E; cbn [negb].
  - apply Z.eqb_eq in E. assert (Hl : length a = length b) by lia.
    pose proof (enf_loop_spec a b Hl fuel fuel 0%nat) as H1. cbn [Z.of_nat skipn] in H1.
    destruct (go_equalNameASCIIFold_loop1 fuel fuel a b 0) as [c st]. cbn [fst] in H1. rewrite H1 by lia.
    destruct (equal_name_ascii_fold a b); [destruct st as [[? ?] ?]|]; reflexivity.
  - apply Z.eqb_neq in E. rewrite equal_name_ascii_fold_length by lia. reflexivity.
Qed.

(* ---- the fold loops of internal/cache.Key / KeyString / KeyWithPrefix / KeySimple (loopfunc): with enough
   fuel (more than the name's length) each ends normally having appended `fold name` to the buffer and
   left everything else alone *)
Lemma app_snoc_fold (buf : bytes) c x R : c = fold_byte x -> (buf ++ [c]) ++ R = buf ++ fold_byte x :: R.
Proof. intros ->. rewrite <- app_assoc. reflexivity. Qed.

Ltac fold_loop_step x :=
  unfold wrap8, two8;
  split_ifs; (erewrite (app_snoc_fold _ _ x); [reflexivity|]); unfold fold_byte; split_ifs;
  first [reflexivity | lia | exfalso; lia].

Lemma keystring_loop_spec name fuel : forall lf n buf, (n <= length name)%nat -> (length name - n < lf)%nat ->
  go_KeyString_loop1 fuel lf name buf (go_len name) (Z.of_nat n) =
  (GoNext, (name, buf ++ fold (skipn n name), go_len name, go_len name)).
Proof.
  unfold go_len. induction lf as [|lf IH]; intros n buf Hn Hf; [lia|].
  cbn [go_KeyString_loop1].
  destruct (Z.ltb (Z.of_nat n) (Z.of_nat (length name))) eqn:E.
  - apply Z.ltb_lt in E. rewrite (skipn_nth_cons 0 name n) by lia. rewrite !go_idx_nth by lia. rewrite Nat2Z.id.
    set (x := nth n name 0). replace (Z.of_nat n + 1)%Z with (Z.of_nat (S n)) by lia.
    cbn [fold map]. fold (fold (skipn (S n) name)). rewrite !IH by lia. fold_loop_step x.
  - apply Z.ltb_ge in E. assert (n = length name) by lia. subst n. rewrite skipn_all. cbn [fold map]. rewrite app_nil_r. reflexivity.
Qed.
Lemma gen_KeyString_loop fuel name buf : (length name < fuel)%nat ->
  go_KeyString_loop1_run fuel name buf (go_len name) = (GoNext, (name, buf ++ map fold_keystr name, go_len name, go_len name)).
Proof. intros Hf. unfold go_KeyString_loop1_run. apply (keystring_loop_spec name fuel fuel 0%nat buf); lia. Qed.

Lemma key_loop_spec q fuel : forall lf n buf, (n <= length (T_Question_Name q))%nat -> (length (T_Question_Name q) - n < lf)%nat ->
  go_Key_loop1 fuel lf q buf (go_len (T_Question_Name q)) (Z.of_nat n) =
  (GoNext, (q, buf ++ fold (skipn n (T_Question_Name q)), go_len (T_Question_Name q), go_len (T_Question_Name q))).
Proof.
  unfold go_len. set (name := T_Question_Name q). induction lf as [|lf IH]; intros n buf Hn Hf; [lia|].
  cbn [go_Key_loop1]. fold name.
  destruct (Z.ltb (Z.of_nat n) (Z.of_nat (length name))) eqn:E.
  - apply Z.ltb_lt in E. rewrite (skipn_nth_cons 0 name n) by lia. rewrite !go_idx_nth by lia. rewrite Nat2Z.id.
    set (x := nth n name 0). replace (Z.of_nat n + 1)%Z with (Z.of_nat (S n)) by lia.
    cbn [fold map]. fold (fold (skipn (S n) name)). rewrite !IH by lia. fold_loop_step x.
  - apply Z.ltb_ge in E. assert (n = length name) by lia. subst n. rewrite skipn_all. cbn [fold map]. rewrite app_nil_r. reflexivity.
Qed.
Lemma gen_Key_loop fuel q buf : (length (T_Question_Name q) < fuel)%nat ->
  go_Key_loop1_run fuel q buf (go_len (T_Question_Name q)) =
  (GoNext, (q, buf ++ map fold_key (T_Question_Name q), go_len (T_Question_Name q), go_len (T_Question_Name q))).
Proof. intros Hf. unfold go_Key_loop1_run. apply (key_loop_spec q fuel fuel 0%nat buf); lia. Qed.

Lemma keysimple_loop_spec q fuel : forall lf n buf, (n <= length (T_Question_Name q))%nat -> (length (T_Question_Name q) - n < lf)%nat ->
  go_KeySimple_loop1 fuel lf q buf (Z.of_nat n) =
  (GoNext, (q, buf ++ fold (skipn n (T_Question_Name q)), go_len (T_Question_Name q))).
Proof.
  unfold go_len. set (name := T_Question_Name q). induction lf as [|lf IH]; intros n buf Hn Hf; [lia|].
  cbn [go_KeySimple_loop1]. unfold go_len. fold name.
  destruct (Z.ltb (Z.of_nat n) (Z.of_nat (length name))) eqn:E.
  - apply Z.ltb_lt in E. rewrite (skipn_nth_cons 0 name n) by lia. rewrite !go_idx_nth by lia. rewrite Nat2Z.id.
    set (x := nth n name 0). replace (Z.of_nat n + 1)%Z with (Z.of_nat (S n)) by lia.
    cbn [fold map]. fold (fold (skipn (S n) name)). rewrite !IH by lia. fold_loop_step x.
  - apply Z.ltb_ge in E. assert (n = length name) by lia. subst n. rewrite skipn_all. cbn [fold map]. rewrite app_nil_r. reflexivity.
Qed.
Lemma gen_KeySimple_loop fuel q buf : (length (T_Question_Name q) < fuel)%nat ->
  go_KeySimple_loop1_run fuel q buf = (GoNext, (q, buf ++ fold (T_Question_Name q), go_len (T_Question_Name q))).
Proof. intros Hf. unfold go_KeySimple_loop1_run. apply (keysimple_loop_spec q fuel fuel 0%nat buf); lia. Qed.

(* KeyWithPrefix ranges over nameLen (a range-over-int loop: its own budget, no fuel parameter) *)
Lemma keywithprefix_loop_spec q : forall lf n buf, (n <= length (T_Question_Name q))%nat -> (length (T_Question_Name q) - n < lf)%nat ->
  go_KeyWithPrefix_loop1 (go_len (T_Question_Name q)) lf (Z.of_nat n) q buf (go_len (T_Question_Name q)) =
  (GoNext, (q, buf ++ fold (skipn n (T_Question_Name q)), go_len (T_Question_Name q))).
Proof.
  unfold go_len. set (name := T_Question_Name q). induction lf as [|lf IH]; intros n buf Hn Hf; [lia|].
  cbn [go_KeyWithPrefix_loop1]. fold name.
  destruct (Z.ltb (Z.of_nat n) (Z.of_nat (length name))) eqn:E.
  - apply Z.ltb_lt in E. rewrite (skipn_nth_cons 0 name n) by lia. rewrite !go_idx_nth by lia. rewrite Nat2Z.id.
    set (x := nth n name 0). replace (Z.of_nat n + 1)%Z with (Z.of_nat (S n)) by lia.
    cbn [fold map]. fold (fold (skipn (S n) name)). rewrite !IH by lia. fold_loop_step x.
  - apply Z.ltb_ge in E. assert (n = length name) by lia. subst n. rewrite skipn_all. cbn [fold map]. rewrite app_nil_r. reflexivity.
Qed.
Lemma gen_KeyWithPrefix_loop q buf :
  go_KeyWithPrefix_loop1_run q buf (go_len (T_Question_Name q)) =
  (GoNext, (q, buf ++ map fold_keypfx (T_Question_Name q), go_len (T_Question_Name q))).
Proof.
  unfold go_KeyWithPrefix_loop1_run. apply (keywithprefix_loop_spec q _ 0%nat buf); [lia|].
  unfold go_len. rewrite Nat2Z.id. lia.
Qed.

(* hence the hand-written preimages are what the translated loops leave in the buffer after the header *)
Lemma gen_pre_keystring fuel name qt qc cd : (length name < fuel)%nat ->
  go_KeyString_loop1_run fuel name (header qt qc cd) (go_len name) =
  (GoNext, (name, pre_keystring name qt qc cd, go_len name, go_len name)).
Proof. intros Hf. rewrite gen_KeyString_loop by exact Hf. reflexivity. Qed.
Lemma gen_pre_key fuel name qt qc cd : (length name < fuel)%nat ->
  go_Key_loop1_run fuel (mk_T_Question name qt qc) (header qt qc cd) (go_len name) =
  (GoNext, (mk_T_Question name qt qc, pre_key name qt qc cd, go_len name, go_len name)).
Proof. intros Hf. exact (gen_Key_loop fuel (mk_T_Question name qt qc) (header qt qc cd) Hf). Qed.

(* ---- middleware/cache.failureZoneKeysEqual (failure_cache.go): what load_fzone compares *)
Lemma go_list_eqb_bytes a : forall b, go_list_eqb N.eqb a b = bytes_eqb a b.
Proof.
  induction a as [|x r IH]; intros [|y s]; cbn; try reflexivity. rewrite IH. reflexivity.
Qed.
Lemma gen_failureZoneKeysEqual z1 c1 z2 c2 :
  go_failureZoneKeysEqual (mk_T_FailureZoneKey z1 c1) (mk_T_FailureZoneKey z2 c2) = bytes_eqb z1 z2 && (c1 =? c2).
Proof. unfold go_failureZoneKeysEqual. cbn. rewrite go_list_eqb_bytes. reflexivity. Qed.

(* ---- middleware/cache.FailureCache.backoff (purefunc; durations are ideal integers on the Go side, the
   model counts in N): with fuel beyond the streak the translated function returns the model's backoff *)
Lemma backoff_loop_stop k M t : (k = 0%nat \/ M <= t) -> backoff_loop k M t = t.
Proof.
  intros [->|Hle]; [reflexivity|]. destruct k; [reflexivity|]. cbn [backoff_loop].
  destruct (t <? M) eqn:E; [apply N.ltb_lt in E; lia|reflexivity].
Qed.

Lemma backoff_go_loop c streak fuel :
  (0 <= T_FailureCache_maxTTL c)%Z -> streak < 4294967296 ->
  forall lf g t, (N.to_nat (streak - g) < lf)%nat ->
  let M := Z.to_N (T_FailureCache_maxTTL c) in
  let k := N.to_nat (streak - g) in
  (exists st, go_FailureCache_backoff_loop1 fuel lf c streak (Z.of_N t) g = (GoRet (T_FailureCache_maxTTL c), st) /\
              backoff_loop k M t = M) \/
  (exists g', go_FailureCache_backoff_loop1 fuel lf c streak (Z.of_N t) g =
              (GoNext, (c, streak, Z.of_N (backoff_loop k M t), g'))).
Proof.
  intros Hm Hs. cbv zeta. set (M := Z.to_N (T_FailureCache_maxTTL c)).
  assert (HM : T_FailureCache_maxTTL c = Z.of_N M) by (unfold M; rewrite Z2N.id; lia).
  induction lf as [|lf IH]; intros g t Hf; [lia|].
  cbn [go_FailureCache_backoff_loop1]. rewrite HM.
  destruct (N.ltb g streak) eqn:Eg; cbn [andb].
  - apply N.ltb_lt in Eg.
    destruct (Z.ltb (Z.of_N t) (Z.of_N M)) eqn:Et.
    + apply Z.ltb_lt in Et. assert (Ht : t < M) by lia.
      replace (N.to_nat (streak - g)) with (S (N.to_nat (streak - (g + 1)))) by lia.
      cbn [backoff_loop].
      assert (Et' : (t <? M) = true) by (apply N.ltb_lt; exact Ht). rewrite Et'.
      assert (Hq : Z.quot (Z.of_N M) 2 = Z.of_N (M / 2)).
      { rewrite Z.quot_div_nonneg by lia. rewrite N2Z.inj_div. reflexivity. }
      rewrite Hq.
      destruct (Z.ltb (Z.of_N (M / 2)) (Z.of_N t)) eqn:Eh.
      * apply Z.ltb_lt in Eh. assert (Eh' : (M / 2 <? t) = true) by (apply N.ltb_lt; lia). rewrite Eh'.
        left. eexists. split; reflexivity.
      * apply Z.ltb_ge in Eh. assert (Eh' : (M / 2 <? t) = false) by (apply N.ltb_ge; lia). rewrite Eh'.
        replace (Z.of_N t * 2)%Z with (Z.of_N (2 * t)) by lia.
        replace (wrap32 (g + 1)) with (g + 1) by (symmetry; apply wrap32_small; unfold two32; lia).
        rewrite <- HM. apply IH. lia.
    + apply Z.ltb_ge in Et. right. exists g. rewrite backoff_loop_stop by (right; lia). reflexivity.
  - apply N.ltb_ge in Eg. right. exists g. rewrite backoff_loop_stop by (left; lia). reflexivity.
Qed.

Lemma gen_FailureCache_backoff fuel c streak :
  (0 <= T_FailureCache_initialTTL c)%Z -> (0 <= T_FailureCache_maxTTL c)%Z -> streak < 4294967296 ->
  (N.to_nat streak < fuel)%nat ->
  go_FailureCache_backoff fuel c streak =
  Some (Z.of_N (backoff (Z.to_N (T_FailureCache_initialTTL c)) (Z.to_N (T_FailureCache_maxTTL c)) streak)).
Proof.
  intros Hi Hm Hs Hf. unfold go_FailureCache_backoff, backoff.
  set (M := Z.to_N (T_FailureCache_maxTTL c)). set (I := Z.to_N (T_FailureCache_initialTTL c)).
  assert (HM : T_FailureCache_maxTTL c = Z.of_N M) by (unfold M; rewrite Z2N.id; lia).
  assert (HI : T_FailureCache_initialTTL c = Z.of_N I) by (unfold I; rewrite Z2N.id; lia).
  rewrite HI.
  destruct (backoff_go_loop c streak fuel Hm Hs fuel 1 I) as [[st [Hl Hb]]|[g' Hl]]; [lia| |];
    fold M in Hl; try fold M in Hb; rewrite Hl.
  - rewrite Hb, N.ltb_irrefl, HM. reflexivity.
  - rewrite HM. set (r := backoff_loop (N.to_nat (streak - 1)) M I).
    destruct (Z.ltb (Z.of_N M) (Z.of_N r)) eqn:E.
    + apply Z.ltb_lt in E. assert (E' : (M <? r) = true) by (apply N.ltb_lt; lia). rewrite E'. reflexivity.
    + apply Z.ltb_ge in E. assert (E' : (M <? r) = false) by (apply N.ltb_ge; lia). rewrite E'. reflexivity.
Qed.
