(* C03 — translator ties for functions srcgen translates WHOLE from the Go AST (stage 3: loops,
   strings): the hand-written model functions are proved equal to the generated ones, so a
   behaviour-changing edit of the Go function breaks a proof here while a behaviour-preserving
   rewrite does not.  Fuel bounds are stated in the lemmas. *)
From Sdns Require Import Common.Base Common.GoList Gen.C03 C03.Model C03.Proofs_Key.
Open Scope N_scope.

Lemma wrap8_fold x : (65 <=? x) && (x <=? 90) = true -> wrap8 (x + 32) = x + 32.
Proof. intros Hx. unfold wrap8, two8. apply N.mod_small. lia. Qed.

(* what both loops do with one pair of octets *)
Definition go_fold (v : N) : N := if (65 <=? v) && (v <=? 90) then wrap8 (v + 32) else v.
Lemma go_fold_spec v : go_fold v = fold_byte v.
Proof.
  unfold go_fold, fold_byte. destruct ((65 <=? v) && (v <=? 90)) eqn:E; [apply wrap8_fold; exact E|reflexivity].
Qed.

(* every `if` of the goal, whatever shape the translated body has *)
Ltac split_ifs := repeat match goal with |- context [if ?c then _ else _] => destruct c eqn:? end.

Lemma skipn_nth_cons {A} (d : A) l n : (n < length l)%nat -> skipn n l = nth n l d :: skipn (S n) l.
Proof.
  revert n. induction l as [|x r IH]; intros n Hn; cbn in Hn; [lia|].
  destruct n as [|n]; [reflexivity|]. cbn [skipn nth]. apply IH. lia.
Qed.

Lemma equal_name_ascii_fold_length a : forall b, length a <> length b -> equal_name_ascii_fold a b = false.
Proof.
  induction a as [|x r IH]; intros [|y s] Hl; cbn in *; try reflexivity; try lia.
  rewrite IH by lia. apply andb_false_r.
Qed.
Lemma fold_wire_names_equal_length a : forall b, length a <> length b -> fold_wire_names_equal a b = false.
Proof.
  induction a as [|x r IH]; intros [|y s] Hl; cbn in *; try reflexivity; try lia.
  rewrite IH by lia. apply andb_false_r.
Qed.

(* ---- middleware/cache.foldWireNamesEqual (entry_wire_chase.go) *)
Lemma fwn_loop_spec a b : length a = length b ->
  forall lf n, (n <= length b)%nat -> (length b - n < lf)%nat ->
  go_foldWireNamesEqual_loop1 b lf (Z.of_nat n) a b =
  (if fold_wire_names_equal (skipn n a) (skipn n b) then (GoNext, (a, b)) else (GoRet false, (a, b))).
Proof.
  intros Hlen lf. induction lf as [|lf IH]; intros n Hn Hf; [lia|].
  cbn [go_foldWireNamesEqual_loop1]. unfold go_len.
  destruct (Z.ltb (Z.of_nat n) (Z.of_nat (length b))) eqn:E.
  - apply Z.ltb_lt in E. assert (Hnb : (n < length b)%nat) by lia.
    rewrite (skipn_nth_cons 0 a n), (skipn_nth_cons 0 b n) by lia.
    rewrite !go_idx_nth by lia. rewrite Nat2Z.id.
    set (x := nth n a 0). set (y := nth n b 0).
    cbn [fold_wire_names_equal]. unfold fold_fwn, fold_byte.
    replace (Z.of_nat n + 1)%Z with (Z.of_nat (S n)) by lia.
    rewrite IH by lia. unfold wrap8, two8.
    (* the proof looks only at what the body computes, not at how its tests are written *)
    destruct (fold_wire_names_equal (skipn (S n) a) (skipn (S n) b));
      destruct ((65 <=? x) && (x <=? 90)) eqn:Ex; destruct ((65 <=? y) && (y <=? 90)) eqn:Ey;
      split_ifs; first [reflexivity | exfalso; lia].
  - apply Z.ltb_ge in E. assert (n = length b) by lia. subst n.
    rewrite skipn_all. rewrite <- Hlen at 1. rewrite skipn_all. reflexivity.
Qed.

Lemma gen_foldWireNamesEqual a b : go_foldWireNamesEqual a b = fold_wire_names_equal a b.
Proof.
  unfold go_foldWireNamesEqual, go_len.
  destruct (Z.eqb (Z.of_nat (length a)) (Z.of_nat (length b))) eqn:E; cbn [negb].
  - apply Z.eqb_eq in E. assert (Hl : length a = length b) by lia.
    pose proof (fwn_loop_spec a b Hl (S (length b)) 0%nat) as Hs. cbn [Z.of_nat skipn] in Hs.
    rewrite Hs by lia. destruct (fold_wire_names_equal a b); reflexivity.
  - apply Z.eqb_neq in E. symmetry. apply fold_wire_names_equal_length. lia.
Qed.

(* ---- middleware/cache.equalNameASCIIFold (store.go): enough fuel = more than the name's length *)
Lemma enf_loop_spec a b : length a = length b ->
  forall fuel lf n, (n <= length a)%nat -> (length a - n < lf)%nat ->
  fst (go_equalNameASCIIFold_loop1 fuel lf a b (Z.of_nat n)) =
  (if equal_name_ascii_fold (skipn n a) (skipn n b) then GoNext else GoRet false).
Proof.
  intros Hlen fuel lf. induction lf as [|lf IH]; intros n Hn Hf; [lia|].
  cbn [go_equalNameASCIIFold_loop1]. unfold go_len.
  destruct (Z.ltb (Z.of_nat n) (Z.of_nat (length a))) eqn:E.
  - apply Z.ltb_lt in E. assert (Hna : (n < length a)%nat) by lia.
    rewrite (skipn_nth_cons 0 a n), (skipn_nth_cons 0 b n) by lia.
    rewrite !go_idx_nth by lia. rewrite Nat2Z.id.
    set (x := nth n a 0). set (y := nth n b 0).
    cbn [equal_name_ascii_fold]. unfold fold_enf_a, fold_enf_b, fold_byte.
    replace (Z.of_nat n + 1)%Z with (Z.of_nat (S n)) by lia.
    pose proof (IH (S n) ltac:(lia) ltac:(lia)) as IH1.
    destruct (go_equalNameASCIIFold_loop1 fuel lf a b (Z.of_nat (S n))) as [c st]. cbn [fst] in IH1. subst c.
    unfold wrap8, two8.
    destruct (equal_name_ascii_fold (skipn (S n) a) (skipn (S n) b));
      destruct ((65 <=? x) && (x <=? 90)) eqn:Ex; destruct ((65 <=? y) && (y <=? 90)) eqn:Ey;
      split_ifs; cbn [fst]; first [reflexivity | exfalso; lia].
  - apply Z.ltb_ge in E. assert (n = length a) by lia. subst n.
    rewrite skipn_all. replace (skipn (length a) b) with (@nil N) by (rewrite Hlen; symmetry; apply skipn_all). reflexivity.
Qed.

Lemma gen_equalNameASCIIFold fuel a b :
  (length a < fuel)%nat -> go_equalNameASCIIFold fuel a b = Some (equal_name_ascii_fold a b).
Proof.
  intros Hf. unfold go_equalNameASCIIFold, go_len.
  destruct (Z.eqb (Z.of_nat (length a)) (Z.of_nat (length b))) eqn:E; cbn [negb].
  - apply Z.eqb_eq in E. assert (Hl : length a = length b) by lia.
    pose proof (enf_loop_spec a b Hl fuel fuel 0%nat) as H1. cbn [Z.of_nat skipn] in H1.
    destruct (go_equalNameASCIIFold_loop1 fuel fuel a b 0) as [c st]. cbn [fst] in H1. rewrite H1 by lia.
    destruct (equal_name_ascii_fold a b); [destruct st as [[? ?] ?]|]; reflexivity.
  - apply Z.eqb_neq in E. rewrite equal_name_ascii_fold_length by lia. reflexivity.
Qed.

(* ---- middleware/cache.failureZoneKeysEqual (failure_cache.go): what load_fzone compares *)
Lemma go_list_eqb_bytes a : forall b, go_list_eqb N.eqb a b = bytes_eqb a b.
Proof.
  induction a as [|x r IH]; intros [|y s]; cbn; try reflexivity. rewrite IH. reflexivity.
Qed.
Lemma gen_failureZoneKeysEqual z1 c1 z2 c2 :
  go_failureZoneKeysEqual (mk_T_FailureZoneKey z1 c1) (mk_T_FailureZoneKey z2 c2) = bytes_eqb z1 z2 && (c1 =? c2).
Proof. unfold go_failureZoneKeysEqual. cbn. rewrite go_list_eqb_bytes. reflexivity. Qed.

(* FailureCache.backoff's two literals *)
Lemma gen_failure_backoff : failure_backoff_factor = 2 /\ failure_backoff_half = 2.
Proof. split; reflexivity. Qed.
