(* C03 — translator ties for functions srcgen translates WHOLE from the Go AST (stage 3: loops,
   strings): the hand-written model functions are proved equal to the generated ones, so a
   behaviour-changing edit of the Go function breaks a proof here while a behaviour-preserving
   rewrite does not.  Fuel bounds are stated in the lemmas. *)
From Sdns Require Import Common.Base Common.GoList Gen.C03 C03.Model C03.Proofs_Key.
Open Scope N_scope.

Lemma wrap8_fold x : (65 <=? x) && (x <=? 90) = true -> wrap8 (x + 32) = x + 32.
Proof. intros Hx. unfold wrap8, two8. apply N.mod_small. lia. Qed.

(* what both loops do with one pair of octets *)
Definition go_fold (v : N) : N := if (65 <=? v) && (v <=? 90) then wrap8 (v + 32) else v.
Lemma go_fold_spec v : go_fold v = fold_byte v.
Proof.
  unfold go_fold, fold_byte. destruct ((65 <=? v) && (v <=? 90)) eqn:E; [apply wrap8_fold; exact E|reflexivity].
Qed.

(* every `if` of the goal, whatever shape the translated body has *)
Ltac split_ifs := repeat match goal with |- context [if ?c then _ else _] => destruct c eqn:? end.

Lemma skipn_nth_cons {A} (d : A) l n : (n < length l)%nat -> skipn n l = nth n l d :: skipn (S n) l.
Proof.
  revert n. induction l as [|x r IH]; intros n Hn; cbn in Hn; [lia|].
  destruct n as [|n]; [reflexivity|]. cbn [skipn nth]. apply IH. lia.
Qed.

Lemma equal_name_ascii_fold_length a : forall b, length a <> length b -> equal_name_ascii_fold a b = false.
Proof.
  induction a as [|x r IH]; intros [|y s] Hl; cbn in *; try reflexivity; try lia.
  rewrite IH by lia. apply andb_false_r.
Qed.
Lemma fold_wire_names_equal_length a : forall b, length a <> length b -> fold_wire_names_equal a b = false.
Proof.
  induction a as [|x r IH]; intros [|y s] Hl; cbn in *; try reflexivity; try lia.
  rewrite IH by lia. apply andb_false_r.
Qed.

(* ---- middleware/cache.foldWireNamesEqual (entry_wire_chase.go) *)
Lemma fwn_loop_spec a b : length a = length b ->
  forall lf n, (n <= length b)%nat -> (length b - n < lf)%nat ->
  go_foldWireNamesEqual_loop1 b lf (Z.of_nat n) a b =
  (if fold_wire_names_equal (skipn n a) (skipn n b) then (GoNext, (a, b)) else (GoRet false, (a, b))).
Proof.
  intros Hlen lf. induction lf as [|lf IH]; intros n Hn Hf; [lia|].
  cbn [go_foldWireNamesEqual_loop1]. unfold go_len.
  destruct (Z.ltb (Z.of_nat n) (Z.of_nat (length b))) eqn:E.
  - apply Z.ltb_lt in E. assert (Hnb : (n < length b)%nat) by lia.
    rewrite (skipn_nth_cons 0 a n), (skipn_nth_cons 0 b n) by lia.
    rewrite !go_idx_nth by lia. rewrite Nat2Z.id.
    set (x := nth n a 0). set (y := nth n b 0).
    cbn [fold_wire_names_equal]. unfold fold_fwn, fold_byte.
    replace (Z.of_nat n + 1)%Z with (Z.of_nat (S n)) by lia.
    rewrite IH by lia. unfold wrap8, two8.
    (* the proof looks only at what the body computes, not at how its tests are written *)
    destruct (fold_wire_names_equal (skipn (S n) a) (skipn (S n) b));
      destruct ((65 <=? x) && (x <=? 90)) eqn:Ex; destruct ((65 <=? y) && (y <=? 90)) eqn:Ey;
      split_ifs; first [reflexivity | exfalso; lia].
  - apply Z.ltb_ge in E. assert (n = length b) by lia. subst n.
    rewrite skipn_all. rewrite <- Hlen at 1. rewrite skipn_all. reflexivity.
Qed.

Lemma gen_foldWireNamesEqual a b : go_foldWireNamesEqual a b = fold_wire_names_equal a b.
Proof.
  unfold go_foldWireNamesEqual, go_len.
  destruct (Z.eqb (Z.of_nat (length a)) (Z.of_nat (length b))) eqn:E; cbn [negb].
  - apply Z.eqb_eq in E. assert (Hl : length a = length b) by lia.
    pose proof (fwn_loop_spec a b Hl (S (length b)) 0%nat) as Hs. cbn [Z.of_nat skipn] in Hs.
    rewrite Hs by lia. destruct (fold_wire_names_equal a b); reflexivity.
  - apply Z.eqb_neq in E. symmetry. apply fold_wire_names_equal_length. lia.
Qed.

(* ---- middleware/cache.equalNameASCIIFold (store.go): enough fuel = more than the name's length *)
Lemma enf_loop_spec a b : length a = length b ->
  forall fuel lf n, (n <= length a)%nat -> (length a - n < lf)%nat ->
  fst (go_equalNameASCIIFold_loop1 fuel lf a b (Z.of_nat n)) =
  (if equal_name_ascii_fold (skipn n a) (skipn n b) then GoNext else GoRet false).
Proof.
  intros Hlen fuel lf. induction lf as [|lf IH]; intros n Hn Hf; [lia|].
  cbn [go_equalNameASCIIFold_loop1]. unfold go_len.
  destruct (Z.ltb (Z.of_nat n) (Z.of_nat (length a))) eqn:E.
  - apply Z.ltb_lt in E. assert (Hna : (n < length a)%nat) by lia.
    rewrite (skipn_nth_cons 0 a n), (skipn_nth_cons 0 b n) by lia.
    rewrite !go_idx_nth by lia. rewrite Nat2Z.id.
    set (x := nth n a 0). set (y := nth n b 0).
    cbn [equal_name_ascii_fold]. unfold fold_enf_a, fold_enf_b, fold_byte.
    replace (Z.of_nat n + 1)%Z with (Z.of_nat (S n)) by lia.
    pose proof (IH (S n) ltac:(lia) ltac:(lia)) as IH1.
    destruct (go_equalNameASCIIFold_loop1 fuel lf a b (Z.of_nat (S n))) as [c st]. cbn [fst] in IH1. subst c.
    unfold wrap8, two8.
    destruct (equal_name_ascii_fold (skipn (S n) a) (skipn (S n) b));
      destruct ((65 <=? x) && (x <=? 90)) eqn:Ex; destruct ((65 <=? y) && (y <=? 90)) eqn:Ey;
      split_ifs; cbn [fst]; first [reflexivity | exfalso; lia].
  - apply Z.ltb_ge in E. assert (n = length a) by lia. subst n.
    rewrite skipn_all. replace (skipn (length a) b) with (@nil N) by (rewrite Hlen; symmetry; apply skipn_all). reflexivity.
Qed.

Lemma gen_equalNameASCIIFold fuel a b :
  (length a < fuel)%nat -> go_equalNameASCIIFold fuel a b = Some (equal_name_ascii_fold a b).
Proof.
  intros Hf. unfold go_equalNameASCIIFold, go_len.
  destruct (Z.eqb (Z.of_nat (length a)) (Z.of_nat (length b))) eqn:E; cbn [negb].
  - apply Z.eqb_eq in E. assert (Hl : length a = length b) by lia.
    pose proof (enf_loop_spec a b Hl fuel fuel 0%nat) as H1. cbn [Z.of_nat skipn] in H1.
    destruct (go_equalNameASCIIFold_loop1 fuel fuel a b 0) as [c st]. cbn [fst] in H1. rewrite H1 by lia.
    destruct (equal_name_ascii_fold a b); [destruct st as [[? ?] ?]|]; reflexivity.
  - apply Z.eqb_neq in E. rewrite equal_name_ascii_fold_length by lia. reflexivity.
Qed.

(* ---- the fold loops of internal/cache.Key / KeyString / KeyWithPrefix / KeySimple (loopfunc): with enough
   fuel (more than the name's length) each ends normally having appended `fold name` to the buffer and
   left everything else alone *)
Lemma app_snoc_fold (buf : bytes) c x R : c = fold_byte x -> (buf ++ [c]) ++ R = buf ++ fold_byte x :: R.
Proof. intros ->. rewrite <- app_assoc. reflexivity. Qed.

Ltac fold_loop_step x :=
  unfold wrap8, two8;
  split_ifs; (erewrite (app_snoc_fold _ _ x); [reflexivity|]); unfold fold_byte; split_ifs;
  first [reflexivity | lia | exfalso; lia].

Lemma keystring_loop_spec name fuel : forall lf n buf, (n <= length name)%nat -> (length name - n < lf)%nat ->
  go_KeyString_loop1 fuel lf name buf (go_len name) (Z.of_nat n) =
  (GoNext, (name, buf ++ fold (skipn n name), go_len name, go_len name)).
Proof.
  unfold go_len. induction lf as [|lf IH]; intros n buf Hn Hf; [lia|].
  cbn [go_KeyString_loop1].
  destruct (Z.ltb (Z.of_nat n) (Z.of_nat (length name))) eqn:E.
  - apply Z.ltb_lt in E. rewrite (skipn_nth_cons 0 name n) by lia. rewrite !go_idx_nth by lia. rewrite Nat2Z.id.
    set (x := nth n name 0). replace (Z.of_nat n + 1)%Z with (Z.of_nat (S n)) by lia.
    cbn [fold map]. fold (fold (skipn (S n) name)). rewrite !IH by lia. fold_loop_step x.
  - apply Z.ltb_ge in E. assert (n = length name) by lia. subst n. rewrite skipn_all. cbn [fold map]. rewrite app_nil_r. reflexivity.
Qed.
Lemma gen_KeyString_loop fuel name buf : (length name < fuel)%nat ->
  go_KeyString_loop1_run fuel name buf (go_len name) = (GoNext, (name, buf ++ map fold_keystr name, go_len name, go_len name)).
Proof. intros Hf. unfold go_KeyString_loop1_run. apply (keystring_loop_spec name fuel fuel 0%nat buf); lia. Qed.

Lemma key_loop_spec q fuel : forall lf n buf, (n <= length (T_Question_Name q))%nat -> (length (T_Question_Name q) - n < lf)%nat ->
  go_Key_loop1 fuel lf q buf (go_len (T_Question_Name q)) (Z.of_nat n) =
  (GoNext, (q, buf ++ fold (skipn n (T_Question_Name q)), go_len (T_Question_Name q), go_len (T_Question_Name q))).
Proof.
  unfold go_len. set (name := T_Question_Name q). induction lf as [|lf IH]; intros n buf Hn Hf; [lia|].
  cbn [go_Key_loop1]. fold name.
  destruct (Z.ltb (Z.of_nat n) (Z.of_nat (length name))) eqn:E.
  - apply Z.ltb_lt in E. rewrite (skipn_nth_cons 0 name n) by lia. rewrite !go_idx_nth by lia. rewrite Nat2Z.id.
    set (x := nth n name 0). replace (Z.of_nat n + 1)%Z with (Z.of_nat (S n)) by lia.
    cbn [fold map]. fold (fold (skipn (S n) name)). rewrite !IH by lia. fold_loop_step x.
  - apply Z.ltb_ge in E. assert (n = length name) by lia. subst n. rewrite skipn_all. cbn [fold map]. rewrite app_nil_r. reflexivity.
Qed.
Lemma gen_Key_loop fuel q buf : (length (T_Question_Name q) < fuel)%nat ->
  go_Key_loop1_run fuel q buf (go_len (T_Question_Name q)) =
  (GoNext, (q, buf ++ map fold_key (T_Question_Name q), go_len (T_Question_Name q), go_len (T_Question_Name q))).
Proof. intros Hf. unfold go_Key_loop1_run. apply (key_loop_spec q fuel fuel 0%nat buf); lia. Qed.

Lemma keysimple_loop_spec q fuel : forall lf n buf, (n <= length (T_Question_Name q))%nat -> (length (T_Question_Name q) - n < lf)%nat ->
  go_KeySimple_loop1 fuel lf q buf (Z.of_nat n) =
  (GoNext, (q, buf ++ fold (skipn n (T_Question_Name q)), go_len (T_Question_Name q))).
Proof.
  unfold go_len. set (name := T_Question_Name q). induction lf as [|lf IH]; intros n buf Hn Hf; [lia|].
  cbn [go_KeySimple_loop1]. unfold go_len. fold name.
  destruct (Z.ltb (Z.of_nat n) (Z.of_nat (length name))) eqn:E.
  - apply Z.ltb_lt in E. rewrite (skipn_nth_cons 0 name n) by lia. rewrite !go_idx_nth by lia. rewrite Nat2Z.id.
    set (x := nth n name 0). replace (Z.of_nat n + 1)%Z with (Z.of_nat (S n)) by lia.
    cbn [fold map]. fold (fold (skipn (S n) name)). rewrite !IH by lia. fold_loop_step x.
  - apply Z.ltb_ge in E. assert (n = length name) by lia. subst n. rewrite skipn_all. cbn [fold map]. rewrite app_nil_r. reflexivity.
Qed.
Lemma gen_KeySimple_loop fuel q buf : (length (T_Question_Name q) < fuel)%nat ->
  go_KeySimple_loop1_run fuel q buf = (GoNext, (q, buf ++ fold (T_Question_Name q), go_len (T_Question_Name q))).
Proof. intros Hf. unfold go_KeySimple_loop1_run. apply (keysimple_loop_spec q fuel fuel 0%nat buf); lia. Qed.

(* KeyWithPrefix ranges over nameLen (a range-over-int loop: its own budget, no fuel parameter) *)
Lemma keywithprefix_loop_spec q : forall lf n buf, (n <= length (T_Question_Name q))%nat -> (length (T_Question_Name q) - n < lf)%nat ->
  go_KeyWithPrefix_loop1 (go_len (T_Question_Name q)) lf (Z.of_nat n) q buf (go_len (T_Question_Name q)) =
  (GoNext, (q, buf ++ fold (skipn n (T_Question_Name q)), go_len (T_Question_Name q))).
Proof.
  unfold go_len. set (name := T_Question_Name q). induction lf as [|lf IH]; intros n buf Hn Hf; [lia|].
  cbn [go_KeyWithPrefix_loop1]. fold name.
  destruct (Z.ltb (Z.of_nat n) (Z.of_nat (length name))) eqn:E.
  - apply Z.ltb_lt in E. rewrite (skipn_nth_cons 0 name n) by lia. rewrite !go_idx_nth by lia. rewrite Nat2Z.id.
    set (x := nth n name 0). replace (Z.of_nat n + 1)%Z with (Z.of_nat (S n)) by lia.
    cbn [fold map]. fold (fold (skipn (S n) name)). rewrite !IH by lia. fold_loop_step x.
  - apply Z.ltb_ge in E. assert (n = length name) by lia. subst n. rewrite skipn_all. cbn [fold map]. rewrite app_nil_r. reflexivity.
Qed.
Lemma gen_KeyWithPrefix_loop q buf :
  go_KeyWithPrefix_loop1_run q buf (go_len (T_Question_Name q)) =
  (GoNext, (q, buf ++ map fold_keypfx (T_Question_Name q), go_len (T_Question_Name q))).
Proof.
  unfold go_KeyWithPrefix_loop1_run. apply (keywithprefix_loop_spec q _ 0%nat buf); [lia|].
  unfold go_len. rewrite Nat2Z.id. lia.
Qed.

(* hence the hand-written preimages are what the translated loops leave in the buffer after the header *)
Lemma gen_pre_keystring fuel name qt qc cd : (length name < fuel)%nat ->
  go_KeyString_loop1_run fuel name (header qt qc cd) (go_len name) =
  (GoNext, (name, pre_keystring name qt qc cd, go_len name, go_len name)).
Proof. intros Hf. rewrite gen_KeyString_loop by exact Hf. reflexivity. Qed.
Lemma gen_pre_key fuel name qt qc cd : (length name < fuel)%nat ->
  go_Key_loop1_run fuel (mk_T_Question name qt qc) (header qt qc cd) (go_len name) =
  (GoNext, (mk_T_Question name qt qc, pre_key name qt qc cd, go_len name, go_len name)).
Proof. intros Hf. exact (gen_Key_loop fuel (mk_T_Question name qt qc) (header qt qc cd) Hf). Qed.

(* ---- middleware/cache.failureZoneKeysEqual (failure_cache.go): what load_fzone compares *)
Lemma go_list_eqb_bytes a : forall b, go_list_eqb N.eqb a b = bytes_eqb a b.
Proof.
  induction a as [|x r IH]; intros [|y s]; cbn; try reflexivity. rewrite IH. reflexivity.
Qed.
Lemma gen_failureZoneKeysEqual z1 c1 z2 c2 :
  go_failureZoneKeysEqual (mk_T_FailureZoneKey z1 c1) (mk_T_FailureZoneKey z2 c2) = bytes_eqb z1 z2 && (c1 =? c2).
Proof. unfold go_failureZoneKeysEqual. cbn. rewrite go_list_eqb_bytes. reflexivity. Qed.

(* ---- middleware/cache.FailureCache.backoff (purefunc; durations are ideal integers on the Go side, the
   model counts in N): with fuel beyond the streak the translated function returns the model's backoff *)
Lemma backoff_loop_stop k M t : (k = 0%nat \/ M <= t) -> backoff_loop k M t = t.
Proof.
  intros [->|Hle]; [reflexivity|]. destruct k; [reflexivity|]. cbn [backoff_loop].
  destruct (t <? M) eqn:E; [apply N.ltb_lt in E; lia|reflexivity].
Qed.

Lemma backoff_go_loop c streak fuel :
  (0 <= T_FailureCache_maxTTL c)%Z -> streak < 4294967296 ->
  forall lf g t, (N.to_nat (streak - g) < lf)%nat ->
  let M := Z.to_N (T_FailureCache_maxTTL c) in
  let k := N.to_nat (streak - g) in
  (exists st, go_FailureCache_backoff_loop1 fuel lf c streak (Z.of_N t) g = (GoRet (T_FailureCache_maxTTL c), st) /\
              backoff_loop k M t = M) \/
  (exists g', go_FailureCache_backoff_loop1 fuel lf c streak (Z.of_N t) g =
              (GoNext, (c, streak, Z.of_N (backoff_loop k M t), g'))).
Proof.
  intros Hm Hs. cbv zeta. set (M := Z.to_N (T_FailureCache_maxTTL c)).
  assert (HM : T_FailureCache_maxTTL c = Z.of_N M) by (unfold M; rewrite Z2N.id; lia).
  induction lf as [|lf IH]; intros g t Hf; [lia|].
  cbn [go_FailureCache_backoff_loop1]. rewrite HM.
  destruct (N.ltb g streak) eqn:Eg; cbn [andb].
  - apply N.ltb_lt in Eg.
    destruct (Z.ltb (Z.of_N t) (Z.of_N M)) eqn:Et.
    + apply Z.ltb_lt in Et. assert (Ht : t < M) by lia.
      replace (N.to_nat (streak - g)) with (S (N.to_nat (streak - (g + 1)))) by lia.
      cbn [backoff_loop].
      assert (Et' : (t <? M) = true) by (apply N.ltb_lt; exact Ht). rewrite Et'.
      assert (Hq : Z.quot (Z.of_N M) 2 = Z.of_N (M / 2)).
      { rewrite Z.quot_div_nonneg by lia. rewrite N2Z.inj_div. reflexivity. }
      rewrite Hq.
      destruct (Z.ltb (Z.of_N (M / 2)) (Z.of_N t)) eqn:Eh.
      * apply Z.ltb_lt in Eh. assert (Eh' : (M / 2 <? t) = true) by (apply N.ltb_lt; lia). rewrite Eh'.
        left. eexists. split; reflexivity.
      * apply Z.ltb_ge in Eh. assert (Eh' : (M / 2 <? t) = false) by (apply N.ltb_ge; lia). rewrite Eh'.
        replace (Z.of_N t * 2)%Z with (Z.of_N (2 * t)) by lia.
        replace (wrap32 (g + 1)) with (g + 1) by (symmetry; apply wrap32_small; unfold two32; lia).
        rewrite <- HM. apply IH. lia.
    + apply Z.ltb_ge in Et. right. exists g. rewrite backoff_loop_stop by (right; lia). reflexivity.
  - apply N.ltb_ge in Eg. right. exists g. rewrite backoff_loop_stop by (left; lia). reflexivity.
Qed.

Lemma gen_FailureCache_backoff fuel c streak :
  (0 <= T_FailureCache_initialTTL c)%Z -> (0 <= T_FailureCache_maxTTL c)%Z -> streak < 4294967296 ->
  (N.to_nat streak < fuel)%nat ->
  go_FailureCache_backoff fuel c streak =
  Some (Z.of_N (backoff (Z.to_N (T_FailureCache_initialTTL c)) (Z.to_N (T_FailureCache_maxTTL c)) streak)).
Proof.
  intros Hi Hm Hs Hf. unfold go_FailureCache_backoff, backoff.
  set (M := Z.to_N (T_FailureCache_maxTTL c)). set (I := Z.to_N (T_FailureCache_initialTTL c)).
  assert (HM : T_FailureCache_maxTTL c = Z.of_N M) by (unfold M; rewrite Z2N.id; lia).
  assert (HI : T_FailureCache_initialTTL c = Z.of_N I) by (unfold I; rewrite Z2N.id; lia).
  rewrite HI.
  destruct (backoff_go_loop c streak fuel Hm Hs fuel 1 I) as [[st [Hl Hb]]|[g' Hl]]; [lia| |];
    fold M in Hl; try fold M in Hb; rewrite Hl.
  - rewrite Hb, N.ltb_irrefl, HM. reflexivity.
  - rewrite HM. set (r := backoff_loop (N.to_nat (streak - 1)) M I).
    destruct (Z.ltb (Z.of_N M) (Z.of_N r)) eqn:E.
    + apply Z.ltb_lt in E. assert (E' : (M <? r) = true) by (apply N.ltb_lt; lia). rewrite E'. reflexivity.
    + apply Z.ltb_ge in E. assert (E' : (M <? r) = false) by (apply N.ltb_ge; lia). rewrite E'. reflexivity.
Qed.

(* ---- middleware/cache.normalizeFailureZoneKey (purefunc, ascii_strings: dns.CanonicalName as
   go_canonical_name_ascii — exact for names whose octets are below 128, what the decoder prints):
   on a fully qualified zone it is the model's `canonical` *)
Lemma go_ascii_lower_fold s : go_ascii_lower s = fold s.
Proof. unfold go_ascii_lower, fold. apply map_ext. intros c. reflexivity. Qed.
Lemma gen_normalizeFailureZoneKey z c :
  go_is_fqdn_ascii z = true ->
  go_normalizeFailureZoneKey (mk_T_FailureZoneKey z c) = mk_T_FailureZoneKey (canonical z) c.
Proof.
  intros Hf. unfold go_normalizeFailureZoneKey, go_canonical_name_ascii, go_fqdn_ascii, canonical. cbn.
  rewrite Hf, go_ascii_lower_fold. reflexivity.
Qed.

(* ---- middleware/cache.walkWireSuffixes (loopfunc; the callback is a pure function of the suffix it is
   handed): the loop hands `visit` exactly the elements of the model's wire_name_suffixes, in order, and
   stops at the first one it refuses — or at the walk's natural end (past the last octet, or on the root /
   a label it cannot step over) *)
Fixpoint first_false (visit : bytes -> bool) (l : list bytes) : option bytes :=
  match l with
  | [] => None
  | z :: r => if visit z then first_false visit r else Some z
  end.

Lemma wire_suffixes_fuel : forall f1 f2 w, (length w < f1)%nat -> (length w < f2)%nat ->
  wire_suffixes f1 w = wire_suffixes f2 w.
Proof.
  induction f1 as [|f1 IH]; intros f2 w H1 H2; [lia|]. destruct f2 as [|f2]; [lia|].
  cbn [wire_suffixes]. destruct w as [|c r]; [reflexivity|]. f_equal.
  destruct ((c =? 0) || (63 <? c) || (len r <? c)); [reflexivity|].
  cbn [length] in H1, H2. apply IH; rewrite skipn_length; lia.
Qed.

Lemma skipn_plus {A} (l : list A) : forall a b, skipn (a + b) l = skipn b (skipn a l).
Proof.
  induction l as [|x r IH]; intros a b; [rewrite !skipn_nil; reflexivity|].
  destruct a as [|a]; [reflexivity|]. cbn [Nat.add skipn]. apply IH.
Qed.

Lemma wws_loop_spec name visit fuel : forall lf off, (off <= length name)%nat -> (length name - off < lf)%nat ->
  exists off', (off' <= length name)%nat /\
    go_walkWireSuffixes_loop1 fuel lf name visit (Z.of_nat off) = (GoRet tt, (name, visit, Z.of_nat off')) /\
    match first_false visit (wire_suffixes lf (skipn off name)) with
    | Some z => skipn off' name = z
    | None => skipn off' name = [] \/ skipn off' name = last (wire_suffixes lf (skipn off name)) []
    end.
Proof.
  induction lf as [|lf IH]; intros off Ho Hf; [lia|].
  cbn [go_walkWireSuffixes_loop1]. unfold go_len, go_slice_from. rewrite Nat2Z.id.
  destruct (Z.leb (Z.of_nat (length name)) (Z.of_nat off)) eqn:E; cbn [orb].
  - apply Z.leb_le in E. assert (off = length name) by lia. subst off.
    exists (length name). rewrite skipn_all. cbn. repeat split; try lia. left. reflexivity.
  - apply Z.leb_gt in E. assert (Hlt : (off < length name)%nat) by lia.
    rewrite (skipn_nth_cons 0 name off) by lia. set (c := nth off name 0). set (r := skipn (S off) name).
    assert (Hr : length r = (length name - off - 1)%nat) by (unfold r; rewrite skipn_length; lia).
    cbn [wire_suffixes first_false].
    destruct (visit (c :: r)) eqn:Ev; cbn [negb].
    + rewrite go_idx_nth by lia. rewrite Nat2Z.id. fold c.
      match goal with |- context [if ?b then (GoRet tt, _) else _] =>
        assert (Hc : b = ((c =? 0) || (63 <? c) || (len r <? c)));
        [unfold len; rewrite Hr; apply Bool.eq_iff_eq_true;
         rewrite !orb_true_iff, Z.eqb_eq, !Z.ltb_lt, N.eqb_eq, !N.ltb_lt; lia|]
      end.
      rewrite Hc. destruct ((c =? 0) || (63 <? c) || (len r <? c)) eqn:Es.
      * exists off. rewrite (skipn_nth_cons 0 name off) by lia. fold c r. cbn [first_false last].
        repeat split; try lia. right. reflexivity.
      * apply orb_false_iff in Es. destruct Es as [Es Es3]. apply orb_false_iff in Es. destruct Es as [Es1 Es2].
        apply N.eqb_neq in Es1. apply N.ltb_ge in Es2, Es3. unfold len in Es3. rewrite Hr in Es3.
        replace (Z.of_nat off + (1 + Z.of_N c))%Z with (Z.of_nat (off + 1 + N.to_nat c)) by lia.
        destruct (IH (off + 1 + N.to_nat c)%nat) as [off' [Hle [Hrun Hm]]]; [lia|lia|].
        assert (Hsk : skipn (off + 1 + N.to_nat c) name = skipn (N.to_nat c) r).
        { unfold r. replace (off + 1 + N.to_nat c)%nat with (S off + N.to_nat c)%nat by lia. apply skipn_plus. }
        rewrite Hsk in Hm. exists off'. split; [exact Hle|]. split; [exact Hrun|].
        destruct (first_false visit (wire_suffixes lf (skipn (N.to_nat c) r))) as [z|] eqn:Eff; [exact Hm|].
        destruct (wire_suffixes lf (skipn (N.to_nat c) r)) as [|z l2] eqn:El.
        -- cbn [last] in Hm. left. destruct Hm as [Hm|Hm]; exact Hm.
        -- destruct Hm as [Hm|Hm]; [left; exact Hm|right]. rewrite Hm. reflexivity.
    + exists off. rewrite (skipn_nth_cons 0 name off) by lia. fold c r. repeat split; try lia.
Qed.

Lemma gen_walkWireSuffixes fuel name visit : (length name < fuel)%nat ->
  exists off', (off' <= length name)%nat /\
    go_walkWireSuffixes_loop1_run fuel name visit 0 = (GoRet tt, (name, visit, Z.of_nat off')) /\
    match first_false visit (wire_name_suffixes name) with
    | Some z => go_slice_from name (Z.of_nat off') = z
    | None => go_slice_from name (Z.of_nat off') = [] \/ go_slice_from name (Z.of_nat off') = last (wire_name_suffixes name) []
    end.
Proof.
  intros Hf. unfold go_walkWireSuffixes_loop1_run, wire_name_suffixes, go_slice_from.
  destruct (wws_loop_spec name visit fuel fuel 0%nat) as [off' [Hle [Hrun Hm]]]; [lia|lia|].
  cbn [skipn Z.of_nat] in Hrun, Hm. rewrite (wire_suffixes_fuel fuel (S (length name)) name) in Hm by lia.
  exists off'. rewrite Nat2Z.id. repeat split; assumption.
Qed.

(* how the model's lookups use that walk: `first_some f` over the suffix list is the callback-driven walk
   with the callback "keep going while f finds nothing" (FailureCache.LookupWire, nxDomainCutCache.lookupWire) *)
Lemma first_some_first_false {B} (f : bytes -> option B) l :
  first_some f l =
  match first_false (fun z => match f z with Some _ => false | None => true end) l with
  | Some z => f z
  | None => None
  end.
Proof.
  induction l as [|z r IH]; [reflexivity|]. cbn [first_some first_false].
  destruct (f z) eqn:E; [rewrite E; reflexivity|exact IH].
Qed.

(* ---- internal/cache.WireNameEqualsPresentation: its label walk (loopfunc; `emit` — a closure that
   compares with, and advances over, the stored name — enters the translation as a pure callback
   p : octet -> bool).  The translated walk refuses exactly the malformed shapes the model's wep_loop
   refuses and hands `emit` exactly the octets of the model's emission list, in order. *)
Lemma wrap8_mod x : wrap8 x = x mod 256.
Proof. reflexivity. Qed.

Lemma wep_label_loop_spec p fuel l w off wl c : forall lf n, (n <= length l)%nat -> (length l - n < lf)%nat ->
  go_WireNameEqualsPresentation_loop2 fuel l lf (Z.of_nat n) w p off wl c =
  (if forallb p (flat_map wep_byte (skipn n l)) then GoNext else GoRet false, (w, p, off, wl, c)).
Proof.
  induction lf as [|lf IH]; intros n Hn Hf; [lia|].
  cbn [go_WireNameEqualsPresentation_loop2]. unfold go_len.
  destruct (Z.ltb (Z.of_nat n) (Z.of_nat (length l))) eqn:E.
  - apply Z.ltb_lt in E. rewrite (skipn_nth_cons 0 l n) by lia. rewrite !go_idx_nth by lia. rewrite Nat2Z.id.
    set (x := nth n l 0). replace (Z.of_nat n + 1)%Z with (Z.of_nat (S n)) by lia.
    cbn [flat_map]. rewrite forallb_app. rewrite !IH by lia.
    unfold wep_byte, wep_backslash, wep_digit0, wep_print_lo, wep_print_hi. rewrite !wrap8_mod.
    destruct (forallb p (flat_map wep_byte (skipn (S n) l)));
      destruct (go_isPresentationSpecial x); try destruct ((x <? 32) || (126 <? x));
      cbn [forallb];
      repeat match goal with |- context [p ?a] => destruct (p a) end; reflexivity.
  - apply Z.ltb_ge in E. assert (n = length l) by lia. subst n. rewrite skipn_all. reflexivity.
Qed.

Lemma N2Z_land a b : Z.of_N (N.land a b) = Z.land (Z.of_N a) (Z.of_N b).
Proof. destruct a, b; reflexivity. Qed.

(* the walk without the comparison: the octets `emit` is handed, how many wire octets were consumed up to and
   including the root, and wroteLabel; None = one of the refusals inside the loop *)
Fixpoint wep_walk (fuel : nat) (rest : bytes) (wrote : bool) : option (bytes * nat * bool) :=
  match fuel with
  | O => None
  | S f =>
      match rest with
      | [] => None
      | c :: r =>
          if c =? 0 then Some ([], 1%nat, wrote)
          else if negb (N.land c wep_len_mask =? 0) || (len r <? c) then None
          else
            match wep_walk f (skipn (N.to_nat c) r) true with
            | Some (e, k, wl) =>
                Some (flat_map wep_byte (firstn (N.to_nat c) r) ++ [wep_dot] ++ e, (1 + N.to_nat c + k)%nat, wl)
            | None => None
            end
      end
  end.

Lemma wep_walk_loop_spec p fuel w : forall lf off wrote, (off <= length w)%nat -> (length w - off < lf)%nat ->
  match wep_walk lf (skipn off w) wrote with
  | Some (e, k, wl) =>
      if forallb p e
      then go_WireNameEqualsPresentation_loop1 fuel lf w p (Z.of_nat off) wrote = (GoNext, (w, p, Z.of_nat (off + k), wl))
      else fst (go_WireNameEqualsPresentation_loop1 fuel lf w p (Z.of_nat off) wrote) = GoRet false
  | None => fst (go_WireNameEqualsPresentation_loop1 fuel lf w p (Z.of_nat off) wrote) = GoRet false
  end.
Proof.
  induction lf as [|lf IH]; intros off wrote Ho Hf; [lia|].
  cbn [go_WireNameEqualsPresentation_loop1 wep_walk]. unfold go_len.
  destruct (Z.leb (Z.of_nat (length w)) (Z.of_nat off)) eqn:E.
  - apply Z.leb_le in E. assert (off = length w) by lia. subst off. rewrite skipn_all. reflexivity.
  - apply Z.leb_gt in E. assert (Hlt : (off < length w)%nat) by lia.
    rewrite (skipn_nth_cons 0 w off) by lia. rewrite go_idx_nth by lia. rewrite Nat2Z.id.
    set (c := nth off w 0). set (r := skipn (S off) w).
    assert (Hr : length r = (length w - off - 1)%nat) by (unfold r; rewrite skipn_length; lia).
    destruct (c =? 0) eqn:Ec.
    + apply N.eqb_eq in Ec. rewrite Ec. cbn [Z.of_N Z.eqb forallb]. f_equal. f_equal. f_equal. lia.
    + apply N.eqb_neq in Ec. assert (Ez : Z.eqb (Z.of_N c) 0 = false) by (apply Z.eqb_neq; lia). rewrite Ez.
      (* whatever way the refusal test is written, it says what the model's test says *)
      match goal with |- context [if ?b then (GoRet false, _) else _] =>
        assert (Hc : b = (negb (N.land c wep_len_mask =? 0) || (len r <? c)));
        [unfold wep_len_mask, len; rewrite Hr; change 192%Z with (Z.of_N 192); rewrite <- N2Z_land;
         apply Bool.eq_iff_eq_true;
         rewrite !orb_true_iff, !negb_true_iff, Z.eqb_neq, N.eqb_neq, Z.ltb_lt, N.ltb_lt; lia|]
      end.
      rewrite Hc. destruct (negb (N.land c wep_len_mask =? 0) || (len r <? c)) eqn:Es; [reflexivity|].
      apply orb_false_iff in Es. destruct Es as [_ Es]. apply N.ltb_ge in Es. unfold len in Es. rewrite Hr in Es.
      (* the label: wireName[off+1 : off+1+c] *)
      assert (Hsl : go_slice w (Z.of_nat off + 1) (Z.of_nat off + 1 + Z.of_N c) = firstn (N.to_nat c) r).
      { unfold go_slice, r. f_equal; [lia|f_equal; lia]. }
      rewrite Hsl.
      pose proof (wep_label_loop_spec p fuel (firstn (N.to_nat c) r) w (Z.of_nat off + 1)%Z wrote (Z.of_N c)
                    (S (length (firstn (N.to_nat c) r))) 0%nat) as Hl.
      cbn [Z.of_nat skipn] in Hl. rewrite Hl by lia. clear Hl.
      assert (Hsk : skipn (off + 1 + N.to_nat c) w = skipn (N.to_nat c) r).
      { unfold r. replace (off + 1 + N.to_nat c)%nat with (S off + N.to_nat c)%nat by lia. apply skipn_plus. }
      specialize (IH (off + 1 + N.to_nat c)%nat true). rewrite Hsk in IH.
      replace (Z.of_nat off + 1 + Z.of_N c)%Z with (Z.of_nat (off + 1 + N.to_nat c)) by lia.
      destruct (forallb p (flat_map wep_byte (firstn (N.to_nat c) r))) eqn:El.
      * unfold wep_dot in *. destruct (p 46) eqn:Ed; cbn [negb].
        -- destruct (wep_walk lf (skipn (N.to_nat c) r) true) as [[[e k] wl]|].
           ++ rewrite !forallb_app, El. cbn [forallb]. rewrite Ed. cbn [andb].
              destruct (forallb p e).
              ** rewrite IH by lia. f_equal. f_equal. f_equal. f_equal. lia.
              ** apply IH; lia.
           ++ apply IH; lia.
        -- destruct (wep_walk lf (skipn (N.to_nat c) r) true) as [[[e k] wl]|]; [|reflexivity].
           rewrite !forallb_app, El. cbn [forallb]. rewrite Ed. cbn [andb]. reflexivity.
      * destruct (wep_walk lf (skipn (N.to_nat c) r) true) as [[[e k] wl]|]; [|reflexivity].
        rewrite !forallb_app, El. reflexivity.
Qed.

(* the hand-written wep_loop is that walk followed by the sequential comparison `emit` performs: the name is
   accepted iff the walk consumed the whole wire name and the emitted octets (plus "." for the bare root) use
   the stored name up exactly *)
Lemma wep_loop_walk : forall fuel rest wrote s,
  wep_loop fuel rest wrote s =
  match wep_walk fuel rest wrote with
  | Some (e, k, wl) =>
      (k =? length rest)%nat &&
      match wep_emits e s with
      | Some s' => if wl then (match s' with [] => true | _ => false end)
                   else (match wep_emit wep_dot s' with Some [] => true | _ => false end)
      | None => false
      end
  | None => false
  end.
Proof.
  induction fuel as [|fuel IH]; intros rest wrote s; [reflexivity|].
  cbn [wep_loop wep_walk]. destruct rest as [|c r]; [reflexivity|].
  destruct (c =? 0) eqn:Ec.
  - destruct r as [|y r']; cbn [length Nat.eqb andb wep_emits]; reflexivity.
  - destruct (negb (N.land c wep_len_mask =? 0) || (len r <? c)) eqn:Es; [reflexivity|].
    apply orb_false_iff in Es. destruct Es as [_ Es]. apply N.ltb_ge in Es. unfold len in Es.
    rewrite wep_label_emits.
    assert (Hk : forall k, ((1 + N.to_nat c + k =? length (c :: r)) = (k =? length (skipn (N.to_nat c) r)))%nat).
    { intros k. cbn [length]. rewrite skipn_length. apply Bool.eq_iff_eq_true. rewrite !Nat.eqb_eq. lia. }
    destruct (wep_emits (flat_map wep_byte (firstn (N.to_nat c) r)) s) as [s'|] eqn:E1.
    + destruct (wep_emit wep_dot s') as [s''|] eqn:E2.
      * rewrite (IH (skipn (N.to_nat c) r) true s'').
        destruct (wep_walk fuel (skipn (N.to_nat c) r) true) as [[[e k] wl]|]; [|reflexivity].
        rewrite Hk, !wep_emits_app, E1. cbn [app wep_emits]. rewrite E2. reflexivity.
      * destruct (wep_walk fuel (skipn (N.to_nat c) r) true) as [[[e k] wl]|]; [|reflexivity].
        rewrite !wep_emits_app, E1. cbn [app wep_emits]. rewrite E2. rewrite andb_false_r. reflexivity.
    + destruct (wep_walk fuel (skipn (N.to_nat c) r) true) as [[[e k] wl]|]; [|reflexivity].
      rewrite !wep_emits_app, E1. rewrite andb_false_r. reflexivity.
Qed.

(* the tie: with more fuel than octets, the translated walk started at offset 0 ends "GoNext" (fall out of the
   loop) with off just past the root exactly when the model's walk succeeds and the callback accepted every
   octet of its emission list; every other run returns false from inside the loop *)
Lemma gen_WireNameEqualsPresentation_walk fuel w p : (length w < fuel)%nat ->
  match wep_walk (S (length w)) w false with
  | Some (e, k, wl) =>
      if forallb p e
      then go_WireNameEqualsPresentation_loop1_run fuel w p 0 false = (GoNext, (w, p, Z.of_nat k, wl))
      else fst (go_WireNameEqualsPresentation_loop1_run fuel w p 0 false) = GoRet false
  | None => fst (go_WireNameEqualsPresentation_loop1_run fuel w p 0 false) = GoRet false
  end.
Proof.
  intros Hf. unfold go_WireNameEqualsPresentation_loop1_run.
  assert (Hw : forall f1 f2 rest wrote, (length rest < f1)%nat -> (length rest < f2)%nat ->
               wep_walk f1 rest wrote = wep_walk f2 rest wrote).
  { induction f1 as [|f1 IH]; intros f2 rest wrote H1 H2; [lia|]. destruct f2 as [|f2]; [lia|].
    cbn [wep_walk]. destruct rest as [|c r]; [reflexivity|]. destruct (c =? 0); [reflexivity|].
    destruct (negb (N.land c wep_len_mask =? 0) || (len r <? c)); [reflexivity|].
    cbn [length] in H1, H2. rewrite (IH f2) by (rewrite skipn_length; lia). reflexivity. }
  rewrite (Hw (S (length w)) fuel) by lia.
  pose proof (wep_walk_loop_spec p fuel w fuel 0%nat false) as Hs. cbn [skipn Z.of_nat Nat.add] in Hs.
  apply Hs; lia.
Qed.
