(* C03 — proofs about key preimages (Part A of Model.v). *)
From Sdns Require Import Common.Base Gen.C03 C03.Model.
Open Scope N_scope.

(* ------------------------------------------------------------------ *)
(* finite byte domain: a boolean predicate checked on 0..255 holds for every byte *)

Definition all_bytes : list N := map N.of_nat (seq 0 256).

Lemma all_bytes_in b : b < 256 -> In b all_bytes.
Proof.
  intros Hb. unfold all_bytes. apply in_map_iff. exists (N.to_nat b). split.
  - apply N2Nat.id.
  - apply in_seq. lia.
Qed.

Lemma byte_forall (P : N -> bool) :
  forallb P all_bytes = true -> forall b, b < 256 -> P b = true.
Proof.
  intros HP b Hb. rewrite forallb_forall in HP. apply HP. apply all_bytes_in. exact Hb.
Qed.

Lemma bytes_eqb_eq a b : bytes_eqb a b = true <-> a = b.
Proof.
  revert b. induction a as [|x xs IH]; intros [|y ys]; cbn; split; intros Hx; try discriminate; try reflexivity.
  - apply andb_prop in Hx. destruct Hx as [H1 H2]. apply N.eqb_eq in H1. apply IH in H2. congruence.
  - inversion Hx; subst. rewrite N.eqb_refl. cbn. apply IH. reflexivity.
Qed.

Lemma bytes_eqb_refl a : bytes_eqb a a = true.
Proof. apply bytes_eqb_eq. reflexivity. Qed.

(* ------------------------------------------------------------------ *)
(* translator ties: every fold site in the source is the specification's fold *)

Lemma mk_fold_spec b : mk_fold 65 90 32 b = fold_byte b.
Proof.
  unfold mk_fold, fold_byte. destruct ((65 <=? b) && (b <=? 90)) eqn:E; [|reflexivity].
  apply andb_prop in E. destruct E as [E1 E2]. apply N.leb_le in E1, E2.
  apply N.mod_small. lia.
Qed.

Lemma gen_fold_key b : fold_key b = fold_byte b.       Proof. reflexivity. Qed.
Lemma gen_fold_keystr b : fold_keystr b = fold_byte b. Proof. reflexivity. Qed.
Lemma gen_fold_keypfx b : fold_keypfx b = fold_byte b. Proof. reflexivity. Qed.
Lemma gen_fold_wwn b : fold_wwn b = fold_byte b.       Proof. apply mk_fold_spec. Qed.
Lemma gen_fold_wep b : fold_wep b = fold_byte b.       Proof. apply mk_fold_spec. Qed.
Lemma gen_fold_enf_a b : fold_enf_a b = fold_byte b.   Proof. reflexivity. Qed.
Lemma gen_fold_enf_b b : fold_enf_b b = fold_byte b.   Proof. reflexivity. Qed.
Lemma gen_fold_fwn b : fold_fwn b = fold_byte b.       Proof. reflexivity. Qed.

(* family markers, rounding, bounds: the values the proofs below rely on *)
Lemma gen_family_markers :
  (keypfx_fam4, keypfx_fam6, keywirepfx_fam4, keywirepfx_fam6) = (4, 6, 4, 6).
Proof. reflexivity. Qed.
Lemma gen_rounding : (keypfx_round_add, keypfx_round_div) = (7, 8).
Proof. reflexivity. Qed.
Lemma gen_max_wire_name : max_wire_name_octets = 255.
Proof. reflexivity. Qed.
Lemma gen_scoped_probe_floor : scoped_probe_floor = 1.
Proof. reflexivity. Qed.
Lemma gen_salts_distinct :
  failure_question_salt <> failure_zone_salt /\ failure_question_salt <> nxdomain_cut_salt /\
  failure_zone_salt <> nxdomain_cut_salt /\ failure_question_salt <> 0 /\ failure_zone_salt <> 0 /\ nxdomain_cut_salt <> 0.
Proof. repeat split; discriminate. Qed.

(* isPresentationSpecial is miekg's isDomainNameLabelSpecial set, as used by present_byte *)
Lemma gen_isPresentationSpecial b :
  go_isPresentationSpecial b =
  ((b =? 46) || (b =? 32) || (b =? 39) || (b =? 64) || (b =? 59) || (b =? 40) || (b =? 41) || (b =? 34) || (b =? 92)).
Proof. unfold go_isPresentationSpecial. destruct (_ || _); reflexivity. Qed.

(* per-byte agreement of the three escapers, by sweep over the byte domain *)
Lemma wwn_byte_fold_present b : b < 256 -> wwn_byte b = fold (present_byte b).
Proof.
  intros Hb. apply bytes_eqb_eq.
  revert b Hb. apply (byte_forall (fun b => bytes_eqb (wwn_byte b) (fold (present_byte b)))).
  vm_compute. reflexivity.
Qed.

Lemma wep_byte_present b : b < 256 -> wep_byte b = present_byte b.
Proof.
  intros Hb. apply bytes_eqb_eq.
  revert b Hb. apply (byte_forall (fun b => bytes_eqb (wep_byte b) (present_byte b))).
  vm_compute. reflexivity.
Qed.

Definition printable (b : N) : bool := (32 <=? b) && (b <=? 126).

Lemma present_byte_printable b : b < 256 -> forallb printable (present_byte b) = true.
Proof.
  revert b. apply (byte_forall (fun b => forallb printable (present_byte b))).
  vm_compute. reflexivity.
Qed.

Lemma land_len_mask c : c < 256 -> N.land c 192 = 0 -> c < 64.
Proof.
  intros Hc Hl.
  assert (Hs : (negb (N.land c 192 =? 0) || (c <? 64)) = true).
  { revert c Hc Hl. intros c Hc _. revert c Hc.
    apply (byte_forall (fun c => negb (N.land c 192 =? 0) || (c <? 64))). vm_compute. reflexivity. }
  rewrite Hl in Hs. cbn in Hs. apply N.ltb_lt in Hs. exact Hs.
Qed.

Lemma land_len_mask_small c : c < 64 -> N.land c 192 = 0.
Proof.
  intros Hc.
  assert (Hs : (negb (c <? 64) || (N.land c 192 =? 0)) = true).
  { assert (Hc' : c < 256) by lia. revert c Hc' Hc. intros c Hc' _. revert c Hc'.
    apply (byte_forall (fun c => negb (c <? 64) || (N.land c 192 =? 0))). vm_compute. reflexivity. }
  apply N.ltb_lt in Hc. rewrite Hc in Hs. cbn in Hs. apply N.eqb_eq in Hs. exact Hs.
Qed.

(* ------------------------------------------------------------------ *)
(* fold facts *)

Lemma fold_byte_idem b : fold_byte (fold_byte b) = fold_byte b.
Proof.
  unfold fold_byte. destruct ((65 <=? b) && (b <=? 90)) eqn:E.
  - apply andb_prop in E. destruct E as [E1 E2]. apply N.leb_le in E1, E2.
    destruct ((65 <=? b + 32) && (b + 32 <=? 90)) eqn:E'; [|reflexivity].
    apply andb_prop in E'. destruct E' as [_ E4]. apply N.leb_le in E4. lia.
  - rewrite E. reflexivity.
Qed.

Lemma fold_app a b : fold (a ++ b) = fold a ++ fold b.
Proof. apply map_app. Qed.

Lemma fold_flat_map {A} (f : A -> bytes) l : fold (flat_map f l) = flat_map (fun x => fold (f x)) l.
Proof. induction l as [|x xs IH]; cbn; [reflexivity|]. rewrite fold_app, IH. reflexivity. Qed.

Lemma map_fold_key s : map fold_key s = fold s.
Proof. apply map_ext. apply gen_fold_key. Qed.
Lemma map_fold_keystr s : map fold_keystr s = fold s.
Proof. apply map_ext. apply gen_fold_keystr. Qed.
Lemma map_fold_keypfx s : map fold_keypfx s = fold s.
Proof. apply map_ext. apply gen_fold_keypfx. Qed.

(* ------------------------------------------------------------------ *)
(* the label walk shared by writeWireName and WireNameEqualsPresentation *)

Definition wwn_out (ls : list label) (wrote : bool) : bytes :=
  match ls with
  | [] => if wrote then [] else [46]
  | _ => flat_map (fun l => wwn_label l ++ [46]) ls
  end.

Lemma wwn_loop_parse fuel : forall rest wrote,
  wwn_loop fuel rest wrote = option_map (fun ls => wwn_out ls wrote) (parse_loop fuel rest).
Proof.
  induction fuel as [|f IH]; intros rest wrote; [reflexivity|].
  cbn [wwn_loop parse_loop]. destruct rest as [|c r]; [reflexivity|].
  destruct (c =? 0).
  { destruct r; reflexivity. }
  change wwn_len_mask with 192.
  destruct (negb (N.land c 192 =? 0)); [reflexivity|].
  destruct (len r <? c); [reflexivity|].
  rewrite IH. destruct (parse_loop f (skipn (N.to_nat c) r)) as [ls|]; [|reflexivity].
  cbn [option_map]. f_equal. change wwn_dot with 46.
  destruct ls as [|l ls']; cbn [wwn_out flat_map app].
  - rewrite app_nil_r. reflexivity.
  - rewrite <- !app_assoc. reflexivity.
Qed.

(* well-formedness of decoded labels *)
Definition label_shape (l : label) : Prop := 1 <= len l <= 63.

Lemma len_app (a b : bytes) : len (a ++ b) = len a + len b.
Proof. unfold len. rewrite app_length. lia. Qed.
Lemma len_cons x (a : bytes) : len (x :: a) = 1 + len a.
Proof. unfold len. cbn [length]. lia. Qed.

Lemma firstn_skipn_len (c : N) (r : bytes) : c <= len r -> len (firstn (N.to_nat c) r) = c.
Proof. intros Hc. unfold len in *. rewrite firstn_length. lia. Qed.

Lemma parse_loop_sound fuel : forall rest ls,
  Forall (fun b => b < 256) rest ->
  parse_loop fuel rest = Some ls ->
  rest = encode ls /\ Forall label_shape ls.
Proof.
  induction fuel as [|f IH]; intros rest ls Hb Hp; [discriminate|].
  cbn [parse_loop] in Hp. destruct rest as [|c r]; [discriminate|].
  destruct (c =? 0) eqn:E0.
  { destruct r; [|discriminate]. inversion Hp; subst. apply N.eqb_eq in E0. subst. split; [reflexivity|constructor]. }
  destruct (negb (N.land c 192 =? 0)) eqn:El; [discriminate|].
  destruct (len r <? c) eqn:Ec; [discriminate|].
  destruct (parse_loop f (skipn (N.to_nat c) r)) as [ls'|] eqn:Er; [|discriminate].
  inversion Hp; subst ls. clear Hp.
  apply N.eqb_neq in E0. apply negb_false_iff in El. apply N.eqb_eq in El. apply N.ltb_ge in Ec.
  inversion Hb as [|? ? Hc Hr]; subst.
  assert (Hc64 : c < 64) by (apply land_len_mask; assumption).
  apply IH in Er.
  2:{ apply Forall_forall. intros x Hx. rewrite Forall_forall in Hr. apply Hr.
      rewrite <- (firstn_skipn (N.to_nat c) r). apply in_or_app. right. exact Hx. }
  destruct Er as [Er Hsh]. split.
  - unfold encode. cbn [flat_map]. unfold encode_label at 1. rewrite <- app_assoc. cbn [app].
    rewrite firstn_skipn_len by exact Ec. f_equal.
    fold (encode ls'). rewrite <- Er. symmetry. apply firstn_skipn.
  - constructor; [|exact Hsh]. unfold label_shape. rewrite firstn_skipn_len by exact Ec. lia.
Qed.

Lemma encode_cons l ls : encode (l :: ls) = len l :: l ++ encode ls.
Proof. unfold encode. cbn [flat_map]. unfold encode_label at 1. rewrite <- app_assoc. reflexivity. Qed.

Lemma encode_length_labels ls : (length ls < length (encode ls))%nat.
Proof.
  induction ls as [|l ls IH]; [cbn; lia|]. rewrite encode_cons. cbn [length]. rewrite app_length. lia.
Qed.

Lemma parse_loop_complete ls : forall fuel,
  Forall label_shape ls -> (length ls < fuel)%nat ->
  parse_loop fuel (encode ls) = Some ls.
Proof.
  induction ls as [|l ls IH]; intros fuel Hsh Hf.
  - destruct fuel; [lia|]. reflexivity.
  - destruct fuel as [|f]; [lia|]. inversion Hsh as [|? ? Hl Hls]; subst. unfold label_shape in Hl.
    rewrite encode_cons. cbn [parse_loop].
    destruct (len l =? 0) eqn:E0; [apply N.eqb_eq in E0; lia|].
    rewrite land_len_mask_small by lia. cbn [N.eqb negb].
    rewrite len_app.
    destruct (len l + len (encode ls) <? len l) eqn:Ec; [apply N.ltb_lt in Ec; lia|].
    assert (Hn : N.to_nat (len l) = length l) by (unfold len; lia).
    rewrite Hn. rewrite skipn_app, skipn_all, Nat.sub_diag. cbn [skipn app].
    rewrite firstn_app, firstn_all, Nat.sub_diag. cbn [firstn]. rewrite app_nil_r.
    rewrite IH; [reflexivity|exact Hls|cbn [length] in Hf; lia].
Qed.

Lemma name_wf_shape ls : name_wf ls = true ->
  Forall label_shape ls /\ Forall (fun l => Forall (fun b => b < 256) l) ls /\ len (encode ls) <= 255.
Proof.
  unfold name_wf. intros Hw. apply andb_prop in Hw. destruct Hw as [Hl Hn].
  apply N.leb_le in Hn. rewrite forallb_forall in Hl. repeat split; [| |exact Hn].
  - apply Forall_forall. intros l Hin. specialize (Hl l Hin). unfold label_wf in Hl.
    apply andb_prop in Hl. destruct Hl as [Hl _]. apply andb_prop in Hl. destruct Hl as [H1 H2].
    apply N.leb_le in H1, H2. split; assumption.
  - apply Forall_forall. intros l Hin. specialize (Hl l Hin). unfold label_wf in Hl.
    apply andb_prop in Hl. destruct Hl as [_ Hb]. rewrite forallb_forall in Hb.
    apply Forall_forall. intros b Hbin. apply N.ltb_lt. apply Hb. exact Hbin.
Qed.

Lemma encode_nonempty ls : 1 <= len (encode ls).
Proof. pose proof (encode_length_labels ls). unfold len. lia. Qed.

Lemma parse_wire_encode ls : name_wf ls = true -> parse_wire (encode ls) = Some ls.
Proof.
  intros Hw. apply name_wf_shape in Hw. destruct Hw as [Hsh [_ Hn]].
  unfold parse_wire. pose proof (encode_nonempty ls) as H1.
  destruct (len (encode ls) =? 0) eqn:E0; [apply N.eqb_eq in E0; lia|].
  destruct (255 <? len (encode ls)) eqn:E1; [apply N.ltb_lt in E1; lia|].
  cbn [orb]. apply parse_loop_complete; [exact Hsh|]. pose proof (encode_length_labels ls). lia.
Qed.

Lemma Forall_bytes_encode ls :
  Forall (fun b => b < 256) (encode ls) -> Forall (fun l => Forall (fun b => b < 256) l) ls.
Proof.
  induction ls as [|l ls IH]; intros Hb; [constructor|].
  rewrite encode_cons in Hb. inversion Hb as [|? ? _ Hr]; subst.
  apply Forall_app in Hr. destruct Hr as [Hl Hr]. constructor; [exact Hl|apply IH; exact Hr].
Qed.

Lemma shape_wf ls :
  Forall label_shape ls -> Forall (fun l => Forall (fun b => b < 256) l) ls -> len (encode ls) <= 255 ->
  name_wf ls = true.
Proof.
  intros Hsh Hb Hn. unfold name_wf. apply andb_true_intro. split; [|apply N.leb_le; exact Hn].
  apply forallb_forall. intros l Hin. rewrite Forall_forall in Hsh, Hb.
  specialize (Hsh l Hin). specialize (Hb l Hin). unfold label_shape in Hsh. unfold label_wf.
  repeat (apply andb_true_intro; split); try (apply N.leb_le; lia).
  apply forallb_forall. intros b Hbin. apply N.ltb_lt. rewrite Forall_forall in Hb. apply Hb. exact Hbin.
Qed.

Lemma parse_wire_sound w ls :
  Forall (fun b => b < 256) w -> parse_wire w = Some ls -> name_wf ls = true /\ w = encode ls.
Proof.
  intros Hb Hp. unfold parse_wire in Hp.
  destruct (len w =? 0) eqn:E0; [discriminate|]. destruct (255 <? len w) eqn:E1; [discriminate|].
  cbn [orb] in Hp. apply N.ltb_ge in E1.
  apply parse_loop_sound in Hp; [|exact Hb]. destruct Hp as [He Hsh]. split; [|exact He].
  subst w. apply shape_wf; [exact Hsh|apply Forall_bytes_encode; exact Hb|exact E1].
Qed.

(* ------------------------------------------------------------------ *)
(* writeWireName = fold of what UnpackDomainName prints *)

Lemma wwn_label_fold_present l :
  Forall (fun b => b < 256) l -> wwn_label l ++ [46] = fold (present_label l).
Proof.
  intros Hb. unfold present_label. rewrite fold_app. cbn [fold map]. f_equal.
  unfold wwn_label. rewrite fold_flat_map.
  induction l as [|b r IH]; [reflexivity|]. inversion Hb; subst. cbn [flat_map].
  rewrite wwn_byte_fold_present by assumption. f_equal. apply IH. assumption.
Qed.

Lemma wwn_out_fold_present ls :
  Forall (fun l => Forall (fun b => b < 256) l) ls -> wwn_out ls false = fold (present ls).
Proof.
  intros Hb. destruct ls as [|l0 ls0]; [reflexivity|].
  unfold wwn_out, present. remember (l0 :: ls0) as ls eqn:E. clear E l0 ls0.
  rewrite fold_flat_map.
  induction ls as [|l ls IH]; [reflexivity|]. inversion Hb; subst. cbn [flat_map].
  rewrite wwn_label_fold_present by assumption. f_equal. apply IH. assumption.
Qed.

Lemma write_wire_name_parse w :
  write_wire_name w = option_map (fun ls => wwn_out ls false) (parse_wire w).
Proof.
  unfold write_wire_name, parse_wire. change max_wire_name_octets with 255.
  destruct ((len w =? 0) || (255 <? len w)); [reflexivity|]. apply wwn_loop_parse.
Qed.

(* full characterisation: writeWireName succeeds exactly on the encodings of
   well-formed names, and then streams fold(present name) *)
Lemma write_wire_name_spec w n :
  Forall (fun b => b < 256) w ->
  (write_wire_name w = Some n <->
   exists ls, name_wf ls = true /\ w = encode ls /\ n = fold (present ls)).
Proof.
  intros Hb. rewrite write_wire_name_parse. split.
  - destruct (parse_wire w) as [ls|] eqn:Ep; [|discriminate]. cbn [option_map]. intros Hn. inversion Hn; subst n.
    apply parse_wire_sound in Ep; [|exact Hb]. destruct Ep as [Hw He]. exists ls. repeat split; try assumption.
    apply wwn_out_fold_present. apply name_wf_shape in Hw. tauto.
  - intros [ls [Hw [He Hn]]]. subst w n. rewrite parse_wire_encode by exact Hw. cbn [option_map]. f_equal.
    apply wwn_out_fold_present. apply name_wf_shape in Hw. tauto.
Qed.

Lemma write_wire_name_encode ls :
  name_wf ls = true -> write_wire_name (encode ls) = Some (fold (present ls)).
Proof.
  intros Hw. rewrite write_wire_name_parse, parse_wire_encode by exact Hw. cbn [option_map]. f_equal.
  apply wwn_out_fold_present. apply name_wf_shape in Hw. tauto.
Qed.

(* the malformed shapes refuse: a name the walk cannot decode yields no key *)
Lemma write_wire_name_refuses w :
  Forall (fun b => b < 256) w ->
  (write_wire_name w = None <-> ~ exists ls, name_wf ls = true /\ w = encode ls).
Proof.
  intros Hb. split.
  - intros Hn [ls [Hw He]]. subst w. rewrite write_wire_name_encode in Hn by exact Hw. discriminate.
  - intros Hno. destruct (write_wire_name w) as [n|] eqn:E; [|reflexivity].
    exfalso. apply Hno. apply (write_wire_name_spec w n Hb) in E. destruct E as [ls [Hw [He _]]]. exists ls. tauto.
Qed.

(* wire preimage = presentation preimage, all five entry points *)
Lemma pre_key_fold name qt qc cd : pre_key name qt qc cd = header qt qc cd ++ fold name.
Proof. unfold pre_key. rewrite map_fold_key. reflexivity. Qed.

Lemma wire_pres_preimage_eq_lemma ls qt qc cd :
  name_wf ls = true ->
  pre_keywire (encode ls) qt qc cd = Some (pre_key (present ls) qt qc cd).
Proof.
  intros Hw. unfold pre_keywire. rewrite write_wire_name_encode by exact Hw. rewrite pre_key_fold. reflexivity.
Qed.

Lemma keystring_eq_key name qt qc cd : pre_keystring name qt qc cd = pre_key name qt qc cd.
Proof. reflexivity. Qed.

Lemma wire_pres_prefix_preimage_eq_lemma ls qt qc cd p :
  name_wf ls = true ->
  pre_keywirewithprefix (encode ls) qt qc cd p = Some (pre_keywithprefix (present ls) qt qc cd p).
Proof.
  intros Hw. destruct p as [s|]; cbn [pre_keywirewithprefix pre_keywithprefix].
  - rewrite write_wire_name_encode by exact Hw. reflexivity.
  - apply wire_pres_preimage_eq_lemma. exact Hw.
Qed.

(* keys are bit-identical for EVERY hash function *)
Lemma wire_pres_key_eq_lemma (K : Type) (H : bytes -> K) ls qt qc cd p :
  name_wf ls = true ->
  option_map H (pre_keywirewithprefix (encode ls) qt qc cd p) = Some (H (pre_keywithprefix (present ls) qt qc cd p)).
Proof. intros Hw. rewrite wire_pres_prefix_preimage_eq_lemma by exact Hw. reflexivity. Qed.

(* ------------------------------------------------------------------ *)
(* WireNameEqualsPresentation *)

(* matching a byte string against a prefix of s under the fold *)
Lemma wep_emits_spec cs : forall s s',
  wep_emits cs s = Some s' <-> exists pre, s = pre ++ s' /\ fold pre = fold cs.
Proof.
  induction cs as [|c r IH]; intros s s'; cbn [wep_emits].
  - split.
    + intros Hs. inversion Hs; subst. exists []. split; reflexivity.
    + intros [pre [Hs Hf]]. destruct pre; [|discriminate]. cbn in Hs. subst. reflexivity.
  - unfold wep_emit. destruct s as [|x xs].
    + split; [discriminate|]. intros [pre [Hs Hf]]. destruct pre; discriminate.
    + rewrite !gen_fold_wep. destruct (fold_byte x =? fold_byte c) eqn:E.
      * apply N.eqb_eq in E. rewrite IH. split.
        -- intros [pre [Hs Hf]]. exists (x :: pre). subst xs. split; [reflexivity|]. unfold fold in *. cbn [map]. rewrite E, Hf. reflexivity.
        -- intros [pre [Hs Hf]]. destruct pre as [|y pre]; [discriminate|]. cbn in Hs, Hf. inversion Hs; subst.
           inversion Hf. exists pre. split; [reflexivity|assumption].
      * apply N.eqb_neq in E. split; [discriminate|]. intros [pre [Hs Hf]].
        destruct pre as [|y pre]; [discriminate|]. cbn in Hs, Hf. inversion Hs; subst. inversion Hf. contradiction.
Qed.

Lemma wep_emits_app a b s : wep_emits (a ++ b) s = match wep_emits a s with Some s' => wep_emits b s' | None => None end.
Proof.
  revert s. induction a as [|c r IH]; intros s; [reflexivity|]. cbn [app wep_emits].
  destruct (wep_emit c s); [apply IH|reflexivity].
Qed.

Lemma wep_label_emits l s : wep_label l s = wep_emits (flat_map wep_byte l) s.
Proof.
  revert s. induction l as [|b r IH]; intros s; [reflexivity|]. cbn [wep_label flat_map].
  rewrite wep_emits_app. destruct (wep_emits (wep_byte b) s); [apply IH|reflexivity].
Qed.

Definition wep_out (ls : list label) (wrote : bool) : bytes :=
  match ls with
  | [] => if wrote then [] else [46]
  | _ => flat_map (fun l => flat_map wep_byte l ++ [46]) ls
  end.

Lemma wep_loop_parse fuel : forall rest wrote s,
  wep_loop fuel rest wrote s =
  match parse_loop fuel rest with
  | Some ls => match wep_emits (wep_out ls wrote) s with Some [] => true | _ => false end
  | None => false
  end.
Proof.
  induction fuel as [|f IH]; intros rest wrote s; [reflexivity|].
  cbn [wep_loop parse_loop]. destruct rest as [|c r]; [reflexivity|].
  destruct (c =? 0).
  { destruct r; [|reflexivity]. cbn [wep_out]. destruct wrote.
    - cbn [wep_emits]. destruct s; reflexivity.
    - change wep_dot with 46. cbn [wep_emits]. destruct (wep_emit 46 s) as [[|]|]; reflexivity. }
  change wep_len_mask with 192.
  destruct (negb (N.land c 192 =? 0)); [reflexivity|].
  destruct (len r <? c); [reflexivity|]. cbn [orb].
  destruct (parse_loop f (skipn (N.to_nat c) r)) as [ls|] eqn:Ep.
  - rewrite wep_label_emits. change wep_dot with 46.
    assert (Ho : wep_out (firstn (N.to_nat c) r :: ls) wrote =
                 flat_map wep_byte (firstn (N.to_nat c) r) ++ [46] ++ wep_out ls true).
    { cbn [wep_out flat_map]. destruct ls; cbn [wep_out flat_map app]; rewrite ?app_nil_r, <- ?app_assoc; reflexivity. }
    rewrite Ho, !wep_emits_app.
    destruct (wep_emits (flat_map wep_byte (firstn (N.to_nat c) r)) s) as [s'|]; [|reflexivity].
    cbn [wep_emits app]. destruct (wep_emit 46 s') as [s''|]; [|reflexivity].
    rewrite IH, Ep. reflexivity.
  - destruct (wep_label (firstn (N.to_nat c) r) s) as [s'|]; [|reflexivity].
    destruct (wep_emit wep_dot s') as [s''|]; [|reflexivity]. rewrite IH, Ep. reflexivity.
Qed.

Lemma wep_out_present ls :
  Forall (fun l => Forall (fun b => b < 256) l) ls -> wep_out ls false = present ls.
Proof.
  intros Hb. destruct ls as [|l0 ls0]; [reflexivity|].
  unfold wep_out, present. remember (l0 :: ls0) as ls eqn:E. clear E l0 ls0.
  induction ls as [|l ls IH]; [reflexivity|]. inversion Hb as [|? ? Hl Hls]; subst. cbn [flat_map].
  rewrite IH by assumption. f_equal. unfold present_label. f_equal.
  clear IH Hb Hls. induction l as [|b r IHl]; [reflexivity|]. inversion Hl; subst. cbn [flat_map].
  rewrite wep_byte_present by assumption. f_equal. apply IHl. assumption.
Qed.

Lemma wire_equals_pres_parse w s :
  wire_equals_pres w s =
  match parse_wire w with
  | Some ls => match wep_emits (wep_out ls false) s with Some [] => true | _ => false end
  | None => false
  end.
Proof.
  unfold wire_equals_pres, parse_wire. change max_wire_name_octets with 255.
  destruct ((len w =? 0) || (255 <? len w)); [reflexivity|]. apply wep_loop_parse.
Qed.

Lemma wire_equals_pres_spec_lemma w s :
  Forall (fun b => b < 256) w ->
  (wire_equals_pres w s = true <->
   exists ls, name_wf ls = true /\ w = encode ls /\ fold (present ls) = fold s).
Proof.
  intros Hb. rewrite wire_equals_pres_parse. split.
  - destruct (parse_wire w) as [ls|] eqn:Ep; [|discriminate].
    apply parse_wire_sound in Ep; [|exact Hb]. destruct Ep as [Hw He].
    rewrite wep_out_present by (apply name_wf_shape in Hw; tauto).
    destruct (wep_emits (present ls) s) as [[|]|] eqn:Em; try discriminate. intros _.
    apply wep_emits_spec in Em. destruct Em as [pre [Hs Hf]]. rewrite app_nil_r in Hs. subst pre.
    exists ls. repeat split; try assumption. symmetry. exact Hf.
  - intros [ls [Hw [He Hf]]]. subst w. rewrite parse_wire_encode by exact Hw.
    rewrite wep_out_present by (apply name_wf_shape in Hw; tauto).
    assert (Em : wep_emits (present ls) s = Some []).
    { apply wep_emits_spec. exists s. split; [rewrite app_nil_r; reflexivity|symmetry; exact Hf]. }
    rewrite Em. reflexivity.
Qed.

(* on a well-formed name: the comparison is fold-equality with its printed form *)
Lemma wire_equals_pres_encode ls s :
  name_wf ls = true -> wire_equals_pres (encode ls) s = bytes_eqb (fold (present ls)) (fold s).
Proof.
  intros Hw. rewrite wire_equals_pres_parse, parse_wire_encode by exact Hw.
  rewrite wep_out_present by (apply name_wf_shape in Hw; tauto).
  destruct (bytes_eqb (fold (present ls)) (fold s)) eqn:E.
  - apply bytes_eqb_eq in E.
    assert (Em : wep_emits (present ls) s = Some []).
    { apply wep_emits_spec. exists s. split; [rewrite app_nil_r; reflexivity|symmetry; exact E]. }
    rewrite Em. reflexivity.
  - destruct (wep_emits (present ls) s) as [[|]|] eqn:Em; try reflexivity.
    apply wep_emits_spec in Em. destruct Em as [pre [Hs Hf]]. rewrite app_nil_r in Hs. subst pre.
    rewrite Hf, bytes_eqb_refl in E. discriminate.
Qed.

(* equalNameASCIIFold is fold-equality *)
Lemma equal_name_ascii_fold_spec a b : equal_name_ascii_fold a b = true <-> fold a = fold b.
Proof.
  revert b. induction a as [|x xs IH]; intros [|y ys]; cbn; split; intros Hx; try discriminate; try reflexivity.
  - rewrite ?gen_fold_enf_a, ?gen_fold_enf_b in Hx. apply andb_prop in Hx. destruct Hx as [H1 H2].
    apply N.eqb_eq in H1. apply IH in H2. unfold fold in H2. rewrite H1, H2. reflexivity.
  - inversion Hx as [[H1 H2]]. rewrite ?gen_fold_enf_a, ?gen_fold_enf_b, H1, N.eqb_refl. cbn. apply IH. exact H2.
Qed.

Lemma fold_wire_names_equal_spec a b : fold_wire_names_equal a b = true <-> fold a = fold b.
Proof.
  revert b. induction a as [|x xs IH]; intros [|y ys]; cbn; split; intros Hx; try discriminate; try reflexivity.
  - rewrite ?gen_fold_fwn in Hx. apply andb_prop in Hx. destruct Hx as [H1 H2].
    apply N.eqb_eq in H1. apply IH in H2. unfold fold in H2. rewrite H1, H2. reflexivity.
  - inversion Hx as [[H1 H2]]. rewrite ?gen_fold_fwn, H1, N.eqb_refl. cbn. apply IH. exact H2.
Qed.
