(* C03 — what the decoded-path alias chase (Cache.additionalAnswer) reads off a hop's response.

   Translator ties: the first loop of searchAdditionalAnswer (loopfunc; dns.RR as the sum type I_RR) and
   respCnameHasType (purefunc) are proved equal to the model's answer_alias_scan / answer_has_type.
   Property level: the name of the next sub-question is the target of an alias record of THIS response — the
   last record of type CNAME — and of nothing else; without such a record the chase has no next question. *)
From Sdns Require Import Common.Base Common.GoList Gen.C03 C03.Model C03.Proofs_Gen.
Open Scope N_scope.

Definition msg_add_answers (msg : T_Msg) (rs : list I_RR) : T_Msg :=
  mk_T_Msg (T_Msg_MsgHdr msg) (T_Msg_Compress msg) (T_Msg_Question msg) (T_Msg_Answer msg ++ rs)
           (T_Msg_Ns msg) (T_Msg_Extra msg).

Lemma msg_add_answers_nil msg : msg_add_answers msg [] = msg.
Proof. destruct msg. unfold msg_add_answers. cbn. rewrite app_nil_r. reflexivity. Qed.
Lemma msg_add_answers_snoc msg r rest :
  msg_add_answers (msg_add_answers msg [r]) rest = msg_add_answers msg (r :: rest).
Proof. destruct msg. unfold msg_add_answers. cbn. rewrite <- app_assoc. reflexivity. Qed.

Lemma cname_target_of_assert r :
  T_CNAME_Target (match r with I_RR_of_CNAME v => v | _ => zero_T_CNAME end) = rr_cname_target r.
Proof. destruct r; reflexivity. Qed.

(* ---- searchAdditionalAnswer, first loop *)
Lemma saa_loop_spec l res : forall lf n msg target child, (n <= length l)%nat -> (length l - n < lf)%nat ->
  go_searchAdditionalAnswer_loop1 l lf (Z.of_nat n) msg res target child =
  (GoNext, (msg_add_answers msg (skipn n l), res,
            fst (answer_alias_scan (skipn n l) target child), snd (answer_alias_scan (skipn n l) target child))).
Proof.
  induction lf as [|lf IH]; intros n msg target child Hn Hf; [lia|].
  cbn [go_searchAdditionalAnswer_loop1]. unfold go_len.
  destruct (Z.ltb (Z.of_nat n) (Z.of_nat (length l))) eqn:E.
  - apply Z.ltb_lt in E. rewrite (skipn_nth_cons I_RR_nil l n) by lia.
    rewrite go_idx_nth by lia. rewrite Nat2Z.id. set (r := nth n l I_RR_nil).
    replace (Z.of_nat n + 1)%Z with (Z.of_nat (S n)) by lia.
    cbn [answer_alias_scan]. unfold rr_type, dns_type_cname.
    fold (msg_add_answers msg [r]).
    destruct (T_RR_Header_Rrtype (I_RR_Header r) =? 5) eqn:Et.
    + rewrite IH by lia. rewrite msg_add_answers_snoc. rewrite cname_target_of_assert. reflexivity.
    + rewrite IH by lia. rewrite msg_add_answers_snoc. reflexivity.
  - apply Z.ltb_ge in E. assert (n = length l) by lia. subst n. rewrite skipn_all.
    rewrite msg_add_answers_nil. reflexivity.
Qed.

Lemma gen_searchAdditionalAnswer_scan_lemma msg res target child :
  go_searchAdditionalAnswer_loop1_run msg res target child =
  (GoNext, (msg_add_answers msg (T_Msg_Answer res), res,
            fst (answer_alias_scan (T_Msg_Answer res) target child),
            snd (answer_alias_scan (T_Msg_Answer res) target child))).
Proof.
  unfold go_searchAdditionalAnswer_loop1_run.
  pose proof (saa_loop_spec (T_Msg_Answer res) res (S (length (T_Msg_Answer res))) 0%nat msg target child) as H.
  cbn [Z.of_nat skipn] in H. apply H; lia.
Qed.

(* ---- respCnameHasType (on a non-nil response) *)
Lemma rcht_loop_spec l res qtype : forall lf n, (n <= length l)%nat -> (length l - n < lf)%nat ->
  go_respCnameHasType_loop1 l lf (Z.of_nat n) res qtype =
  ((if answer_has_type (skipn n l) qtype then GoRet true else GoNext), (res, qtype)).
Proof.
  induction lf as [|lf IH]; intros n Hn Hf; [lia|].
  cbn [go_respCnameHasType_loop1]. unfold go_len.
  destruct (Z.ltb (Z.of_nat n) (Z.of_nat (length l))) eqn:E.
  - apply Z.ltb_lt in E. rewrite (skipn_nth_cons I_RR_nil l n) by lia.
    rewrite go_idx_nth by lia. rewrite Nat2Z.id. set (r := nth n l I_RR_nil).
    replace (Z.of_nat n + 1)%Z with (Z.of_nat (S n)) by lia.
    unfold answer_has_type. cbn [existsb]. unfold rr_type at 1.
    destruct (T_RR_Header_Rrtype (I_RR_Header r) =? qtype) eqn:Et; [reflexivity|].
    cbn [orb]. rewrite IH by lia. reflexivity.
  - apply Z.ltb_ge in E. assert (n = length l) by lia. subst n. rewrite skipn_all. reflexivity.
Qed.

Lemma gen_respCnameHasType_lemma res qtype :
  go_respCnameHasType res qtype = answer_has_type (T_Msg_Answer res) qtype.
Proof.
  unfold go_respCnameHasType.
  pose proof (rcht_loop_spec (T_Msg_Answer res) res qtype (S (length (T_Msg_Answer res))) 0%nat) as H.
  cbn [Z.of_nat skipn] in H. rewrite H by lia.
  destruct (answer_has_type (T_Msg_Answer res) qtype); reflexivity.
Qed.

(* ---- what the scan returns *)
Definition not_alias (r : I_RR) : bool := negb (rr_type r =? dns_type_cname).

Lemma alias_scan_spec ans : forall t c,
  (forallb not_alias ans = true /\ answer_alias_scan ans t c = (t, c)) \/
  (exists pre r post, ans = pre ++ r :: post /\ rr_type r = dns_type_cname /\ forallb not_alias post = true /\
                      answer_alias_scan ans t c = (rr_cname_target r, true)).
Proof.
  induction ans as [|r rest IH]; intros t c; [left; split; reflexivity|].
  cbn [answer_alias_scan forallb]. unfold not_alias at 1.
  destruct (rr_type r =? dns_type_cname) eqn:Et; cbn [negb andb].
  - apply N.eqb_eq in Et. right.
    destruct (IH (rr_cname_target r) true) as [[Hn Hs]|[pre [r' [post [Ha [Hr [Hp Hs]]]]]]].
    + exists [], r, rest. repeat split; assumption.
    + exists (r :: pre), r', post. subst rest. repeat split; assumption.
  - destruct (IH t c) as [[Hn Hs]|[pre [r' [post [Ha [Hr [Hp Hs]]]]]]].
    + left. split; assumption.
    + right. exists (r :: pre), r', post. subst rest. repeat split; assumption.
Qed.

(* the chase's next sub-question, stated on the translated loop: started as the Go function starts it (target "",
   child false) the loop ends normally, the reply's answer section has gained exactly the response's records, and
   either child = true and the target is that of the LAST record of type CNAME of this response, or child = false,
   the target is empty and the response holds no record of type CNAME *)
Lemma chase_next_question_lemma msg res :
  exists msg' target child,
    go_searchAdditionalAnswer_loop1_run msg res [] false = (GoNext, (msg', res, target, child)) /\
    T_Msg_Answer msg' = T_Msg_Answer msg ++ T_Msg_Answer res /\
    ((child = false /\ target = [] /\ forallb not_alias (T_Msg_Answer res) = true) \/
     (child = true /\ exists pre r post, T_Msg_Answer res = pre ++ r :: post /\ rr_type r = dns_type_cname /\
                                        forallb not_alias post = true /\ target = rr_cname_target r)).
Proof.
  rewrite gen_searchAdditionalAnswer_scan_lemma.
  exists (msg_add_answers msg (T_Msg_Answer res)).
  destruct (alias_scan_spec (T_Msg_Answer res) [] false) as [[Hn Hs]|[pre [r [post [Ha [Hr [Hp Hs]]]]]]]; rewrite Hs; cbn [fst snd].
  - exists [], false. split; [reflexivity|]. split; [destruct msg; reflexivity|]. left. repeat split. exact Hn.
  - exists (rr_cname_target r), true. split; [reflexivity|]. split; [destruct msg; reflexivity|].
    right. split; [reflexivity|]. exists pre, r, post. repeat split; assumption.
Qed.

(* non-vacuity: two aliases and an address record — the second alias names the next question *)
Example ex_alias_scan :
  let h t := mk_T_RR_Header [] t 1 0 0 in
  let ans := [I_RR_of_CNAME (mk_T_CNAME (h 5) [98; 46]); I_RR_other 0 (h 1); I_RR_of_CNAME (mk_T_CNAME (h 5) [99; 46]); I_RR_other 0 (h 46)] in
  answer_alias_scan ans [] false = ([99; 46], true) /\ answer_has_type ans 1 = true /\ answer_has_type ans 28 = false.
Proof. vm_compute. repeat split; reflexivity. Qed.
