(* C03 — property theorems.  Only statements, `exact lemma`, Print Assumptions. *)
From Sdns Require Import Common.Base Common.GoList Gen.C03 C03.Model C03.Proofs_Key C03.Proofs_Inj C03.Proofs_Store C03.Proofs_Failure C03.Proofs_Gen C03.Proofs_Zones C03.Proofs_Unpack C03.Proofs_Chase.
Open Scope N_scope.

(* Names are keyed identically whether they arrive as wire labels or as
   presentation text: for every well-formed wire name over all 256 byte
   values, the wire preimage IS the presentation preimage of the name
   UnpackDomainName prints (with or without an ECS scope) — so the keys are
   bit-identical for every hash function. *)
Theorem wire_pres_preimage_eq :
  forall ls qtype qclass cd p,
    name_wf ls = true ->
    pre_keywirewithprefix (encode ls) qtype qclass cd p = Some (pre_keywithprefix (present ls) qtype qclass cd p).
Proof. exact wire_pres_prefix_preimage_eq_lemma. Qed.
Print Assumptions wire_pres_preimage_eq.

Theorem wire_pres_key_eq :
  forall (K : Type) (H : bytes -> K) ls qtype qclass cd p,
    name_wf ls = true ->
    option_map H (pre_keywirewithprefix (encode ls) qtype qclass cd p) = Some (H (pre_keywithprefix (present ls) qtype qclass cd p)).
Proof. exact wire_pres_key_eq_lemma. Qed.
Print Assumptions wire_pres_key_eq.

(* writeWireName yields a key exactly on the encodings of well-formed names
   (empty input, > 255 octets, pointers, reserved label types, truncation,
   trailing bytes all refuse) and then streams fold(present name). *)
Theorem write_wire_name_exact :
  forall w n,
    Forall (fun b => b < 256) w ->
    (write_wire_name w = Some n <-> exists ls, name_wf ls = true /\ w = encode ls /\ n = fold (present ls)).
Proof. exact write_wire_name_spec. Qed.
Print Assumptions write_wire_name_exact.

(* WireNameEqualsPresentation: true exactly when the wire name is well formed
   and its printed form equals the stored string under the A–Z fold *)
Theorem wire_equals_pres_spec :
  forall w s,
    Forall (fun b => b < 256) w ->
    (wire_equals_pres w s = true <-> exists ls, name_wf ls = true /\ w = encode ls /\ fold (present ls) = fold s).
Proof. exact wire_equals_pres_spec_lemma. Qed.
Print Assumptions wire_equals_pres_spec.

(* distinct (class, type, cd, folded name, family, bits, masked address) give
   distinct preimages: without a hash collision no two questions share a key *)
Theorem preimage_injective :
  forall n1 t1 c1 cd1 p1 n2 t2 c2 cd2 p2,
    pres_clean n1 = true -> pres_clean n2 = true ->
    t1 < 65536 -> c1 < 65536 -> t2 < 65536 -> c2 < 65536 ->
    scope_normal p1 -> scope_normal p2 ->
    cachekey_pre (mk_q n1 t1 c1) cd1 p1 = cachekey_pre (mk_q n2 t2 c2) cd2 p2 ->
    fold n1 = fold n2 /\ t1 = t2 /\ c1 = c2 /\ cd1 = cd2 /\ p1 = p2.
Proof. exact preimage_injective_lemma. Qed.
Print Assumptions preimage_injective.

(* hit_implies_same_question, route by route.  K, the key comparison and the
   hash H are arbitrary (constant H = every pair of questions collides); the
   store is arbitrary (every reachable and unreachable content, forged keys
   included). *)

(* decoded path of Cache.ServeDNS: scoped probe from the client's bits down, then the shared key *)
Theorem hit_implies_same_question_msg :
  forall (K : Type) (K_eqb : K -> K -> bool) (H : bytes -> K) (s : store K) q cd client e,
    serve_msg_exact K K_eqb H s q cd client = Some e ->
    same_question e (q_name q) (q_type q) (q_class q) cd /\ audience_ok e client.
Proof. exact serve_msg_exact_sound. Qed.
Print Assumptions hit_implies_same_question_msg.

(* wire fast path *)
Theorem hit_implies_same_question_wire :
  forall (K : Type) (K_eqb : K -> K -> bool) (H : bytes -> K) (s : store K) w qtype qclass cd e,
    Forall (fun b => b < 256) w ->
    serve_wire_exact K K_eqb H s w qtype qclass cd = Some e -> wire_same_question e w qtype qclass cd.
Proof. exact serve_wire_exact_sound. Qed.
Print Assumptions hit_implies_same_question_wire.

(* Store.Lookup / Store.Get (resolver-internal DS/DNSKEY lookups) and LookupByKeyVerified under ANY key *)
Theorem hit_implies_same_question_store :
  forall (K : Type) (K_eqb : K -> K -> bool) (H : bytes -> K) (s : store K) q cd e,
    store_lookup K K_eqb H s q cd = Some e ->
    same_question e (q_name q) (q_type q) (q_class q) cd /\ e_scope e = None.
Proof. exact store_lookup_sound. Qed.
Print Assumptions hit_implies_same_question_store.

Theorem hit_implies_same_question_verified :
  forall (K : Type) (K_eqb : K -> K -> bool) (s : store K) k q cd p e,
    lookup_by_key_verified K K_eqb s k q cd p = Some e ->
    same_question e (q_name q) (q_type q) (q_class q) cd /\ e_scope e = normalize_scope p.
Proof. exact lookup_by_key_verified_sound. Qed.
Print Assumptions hit_implies_same_question_verified.

(* cache-contained alias chase: every composed segment was admitted for the
   previous alias target with the client's type, class and CD, shared audience *)
Theorem hit_implies_same_question_chase :
  forall (K : Type) (K_eqb : K -> K -> bool) (H : bytes -> K) (s : store K) fuel reqw qtype qclass cd e l,
    (forall t, e_alias e = Some t -> Forall (fun b => b < 256) t) ->
    aliases_wf K K_eqb s ->
    wire_chase K K_eqb H s fuel reqw qtype qclass cd e = Some l -> chase_linked qtype qclass cd l.
Proof. exact wire_chase_sound. Qed.
Print Assumptions hit_implies_same_question_chase.

(* the decoded-path chase (additionalAnswer) when its sub-queries are answered from the store: every
   hop was admitted for (printed target of the previous alias, the client's type, class and CD),
   shared audience.  (Before fix f46047f the sub-query was always class IN and only a partial
   statement held.) *)
Theorem hit_implies_same_question_msg_chase :
  forall (K : Type) (K_eqb : K -> K -> bool) (H : bytes -> K) (s : store K) fuel qtype qclass cd e,
    msg_linked qtype qclass cd e (msg_chase K K_eqb H s fuel qtype qclass cd e).
Proof. exact msg_chase_sound. Qed.
Print Assumptions hit_implies_same_question_msg_chase.

(* the decoded-path chase's self-alias test (ASCII-case-insensitive since fix a4faf69): unless an alias of the
   chain points back at the question in some spelling — in which case the reply is SERVFAIL and serves nothing —
   no hop the chase serves was admitted for the question's own name in another spelling *)
Theorem msg_chase_selfloop_never_serves_other_spelling :
  forall (K : Type) (K_eqb : K -> K -> bool) (H : bytes -> K) (s : store K) fuel qname qtype qclass cd e,
    msg_chase_selfloop K K_eqb H s fuel qname qtype qclass cd e = false ->
    Forall (fun x => fold (q_name (e_q x)) <> fold qname) (msg_chase K K_eqb H s fuel qtype qclass cd e).
Proof. exact msg_chase_no_selfloop. Qed.
Print Assumptions msg_chase_selfloop_never_serves_other_spelling.

(* the chase's gates: every composed segment is a plain NOERROR body (no authority / additional
   records, re-encodable answer types only); all but the last lack the requested type, the last has it *)
Theorem chase_composes_plain_segments_only :
  forall (K : Type) (K_eqb : K -> K -> bool) (H : bytes -> K) (s : store K) fuel reqw qtype qclass cd e l,
    wire_chase K K_eqb H s fuel reqw qtype qclass cd e = Some l ->
    Forall (fun x => e_plain x = true) l /\
    exists pre lst, l = pre ++ [lst] /\ e_has_qtype lst = true /\ Forall (fun x => e_has_qtype x = false) pre.
Proof. exact wire_chase_plain. Qed.
Print Assumptions chase_composes_plain_segments_only.

(* failure lookups: exact question + CD + normalised scope, or an ancestor-or-self zone of the same class *)
Theorem hit_implies_same_question_failure :
  forall (K : Type) (K_eqb : K -> K -> bool) (H : bytes -> K) (salt_fq salt_fz : K -> K) (s : store K) q cd p fe,
    failure_lookup K K_eqb H salt_fq salt_fz s q cd p = Some fe ->
    failure_hit_ok fe (q_name q) (q_type q) (q_class q) cd p.
Proof. exact failure_lookup_sound. Qed.
Print Assumptions hit_implies_same_question_failure.

Theorem hit_implies_same_question_failure_wire :
  forall (K : Type) (K_eqb : K -> K -> bool) (H : bytes -> K) (salt_fq salt_fz : K -> K) (s : store K) w qtype qclass cd fe,
    failure_lookup_wire K K_eqb H salt_fq salt_fz s w qtype qclass cd = Some fe ->
    failure_wire_hit_ok fe w qtype qclass cd.
Proof. exact failure_lookup_wire_sound. Qed.
Print Assumptions hit_implies_same_question_failure_wire.

(* the failure cache's audience over UPDATES.  ResponseWriter.WriteMsg's SERVFAIL exits (downstream
   SERVFAIL, alias chase ending in SERVFAIL) file the failure under (canonical question, CD, normalised
   scope of the REQUEST's audience); everything else retained afterwards was retained before (same
   identity, possibly a renewed backoff generation).  For every key type, hash, salt and store. *)
Theorem failure_filed_for_own_audience :
  forall (K : Type) (K_eqb : K -> K -> bool) (H : bytes -> K) (salt_fq salt_fz : K -> K)
         now initial maxttl q cd client id (s : store K) fe,
    In fe (f_values K (writeback_failure K K_eqb H salt_fq now initial maxttl q cd client id s)) ->
    (exists fe0, In fe0 (f_values K s) /\ f_same_ident fe0 fe) \/ failure_of fe q cd client id.
Proof. exact writeback_failure_files_audience. Qed.
Print Assumptions failure_filed_for_own_audience.

(* ... hence a SERVFAIL produced while resolving for a subnet-scoped client or under CD is consumed
   only by a lookup of the same canonical question, the same CD partition and the same normalised
   audience (decoded route), *)
Theorem failure_consumed_by_own_audience_msg :
  forall (K : Type) (K_eqb : K -> K -> bool) (H : bytes -> K) (salt_fq salt_fz : K -> K)
         now initial maxttl q cd client id (s : store K) q2 cd2 p2 fe,
    failure_lookup K K_eqb H salt_fq salt_fz
      (writeback_failure K K_eqb H salt_fq now initial maxttl q cd client id s) q2 cd2 p2 = Some fe ->
    (exists fe0, In fe0 (f_values K s) /\ f_same_ident fe0 fe) \/
    (f_id fe = id /\ canonical (q_name q2) = canonical (q_name q) /\ q_type q2 = q_type q /\ q_class q2 = q_class q /\
     cd2 = cd /\ normalize_scope p2 = normalize_scope client).
Proof. exact writeback_failure_consumed_msg. Qed.
Print Assumptions failure_consumed_by_own_audience_msg.

(* and on the wire route (requests without ECS) only when it was filed for the shared audience *)
Theorem failure_consumed_by_own_audience_wire :
  forall (K : Type) (K_eqb : K -> K -> bool) (H : bytes -> K) (salt_fq salt_fz : K -> K)
         now initial maxttl q cd client id (s : store K) w qt qc cd2 fe,
    failure_lookup_wire K K_eqb H salt_fq salt_fz
      (writeback_failure K K_eqb H salt_fq now initial maxttl q cd client id s) w qt qc cd2 = Some fe ->
    (exists fe0, In fe0 (f_values K s) /\ f_same_ident fe0 fe) \/
    (f_id fe = id /\ normalize_scope client = None /\ qt = q_type q /\ qc = q_class q /\ cd2 = cd /\
     wire_equals_pres w (canonical (q_name q)) = true).
Proof. exact writeback_failure_consumed_wire. Qed.
Print Assumptions failure_consumed_by_own_audience_wire.

(* an ANSWER written back (any SCOPE the authority claims) never creates failure state *)
Theorem answer_writeback_creates_no_failure :
  forall (K : Type) (K_eqb : K -> K -> bool) (H : bytes -> K) (salt_fq salt_fz : K -> K)
         min4 min6 q cd client bits id (s : store K) fe,
    In fe (f_values K (writeback_answer K K_eqb H salt_fq salt_fz min4 min6 q cd client bits id s)) -> In fe (f_values K s).
Proof. exact writeback_answer_values. Qed.
Print Assumptions answer_writeback_creates_no_failure.

(* the failure clock: a failure answers only strictly before its retry-after instant *)
Theorem failure_hit_only_before_retry_msg :
  forall (K : Type) (K_eqb : K -> K -> bool) (H : bytes -> K) (salt_fq salt_fz : K -> K) now (s : store K) q cd p fe,
    failure_lookup K K_eqb H salt_fq salt_fz (set_failure_clock K now s) q cd p = Some fe -> now < f_retry fe.
Proof. exact failure_hit_before_retry_msg. Qed.
Print Assumptions failure_hit_only_before_retry_msg.

Theorem failure_hit_only_before_retry_wire :
  forall (K : Type) (K_eqb : K -> K -> bool) (H : bytes -> K) (salt_fq salt_fz : K -> K) now (s : store K) w qt qc cd fe,
    failure_lookup_wire K K_eqb H salt_fq salt_fz (set_failure_clock K now s) w qt qc cd = Some fe -> now < f_retry fe.
Proof. exact failure_hit_before_retry_wire. Qed.
Print Assumptions failure_hit_only_before_retry_wire.

(* FailureCache.backoff stays between min(initial, max) and max for every streak *)
Theorem failure_backoff_bounds :
  forall initial maxttl streak,
    N.min initial maxttl <= backoff initial maxttl streak /\ backoff initial maxttl streak <= maxttl.
Proof. intros. split; [apply backoff_ge_min|apply backoff_le_max]. Qed.
Print Assumptions failure_backoff_bounds.

(* subtree-cut lookups: a denied ancestor-or-self (label boundaries) of the same class *)
Theorem hit_implies_same_question_cut :
  forall (K : Type) (K_eqb : K -> K -> bool) (H : bytes -> K) (s : store K) q c,
    cut_lookup K s q = Some c ->
    c_active c = true /\ In (c_name c) (label_suffixes (canonical (q_name q))) /\ c_class c = q_class q /\ q_class q <> 0.
Proof. exact cut_lookup_sound. Qed.
Print Assumptions hit_implies_same_question_cut.

Theorem hit_implies_same_question_cut_wire :
  forall (K : Type) (K_eqb : K -> K -> bool) (H : bytes -> K) (salt_cut : K -> K) (s : store K) w qclass c,
    cut_lookup_wire K K_eqb H salt_cut s w qclass = Some c ->
    c_active c = true /\ c_class c = qclass /\ qclass <> 0 /\
    exists cand, In cand (wire_name_suffixes w) /\ wire_equals_pres cand (c_name c) = true.
Proof. exact cut_lookup_wire_sound. Qed.
Print Assumptions hit_implies_same_question_cut_wire.

(* once a cut's lifetime ended neither route answers from it *)
Theorem expired_cut_never_answers :
  forall (K : Type) id (s : store K) q c,
    cut_lookup K (expire_cut K id s) q = Some c -> c_id c <> id.
Proof. exact expire_cut_lookup. Qed.
Print Assumptions expired_cut_never_answers.

Theorem expired_cut_never_answers_wire :
  forall (K : Type) (K_eqb : K -> K -> bool) (H : bytes -> K) (salt_cut : K -> K) id (s : store K) w qc c,
    cut_lookup_wire K K_eqb H salt_cut (expire_cut K id s) w qc = Some c -> c_id c <> id.
Proof. exact expire_cut_lookup_wire. Qed.
Print Assumptions expired_cut_never_answers_wire.

(* the whole ladder (wire rungs, then the decoded body) and Store.Get: an exact-answer reply
   always comes from an entry admitted for the question and an audience containing the client *)
Theorem hit_implies_same_question_pipeline :
  forall (K : Type) (K_eqb : K -> K -> bool) (H : bytes -> K) (salt_fq salt_fz salt_cut : K -> K)
         (s : store K) wireborn w q cd client id,
    Forall (fun b => b < 256) w ->
    serve_pipeline K K_eqb H salt_fq salt_fz salt_cut s wireborn w q cd client = OHit id ->
    exists e, e_id e = id /\
      (wire_same_question e w (q_type q) (q_class q) cd \/
       (same_question e (q_name q) (q_type q) (q_class q) cd /\
        audience_ok e (option_map (fun c => addr_prefix (sc_is4 c) (sc_addr c) (sc_bits c)) client))).
Proof. exact serve_pipeline_hit_sound. Qed.
Print Assumptions hit_implies_same_question_pipeline.

Theorem hit_implies_same_question_store_get :
  forall (K : Type) (K_eqb : K -> K -> bool) (H : bytes -> K) (salt_fq salt_fz : K -> K) (s : store K) q cd id,
    store_get K K_eqb H salt_fq salt_fz s q cd = OHit id ->
    exists e, e_id e = id /\ same_question e (q_name q) (q_type q) (q_class q) cd /\ e_scope e = None.
Proof. exact store_get_hit_sound. Qed.
Print Assumptions hit_implies_same_question_store_get.

(* the resolver-internal route inside a request tree (Store.GetWithContext with the context the cache handed down):
   whatever the OUTER client sent — CD=1, an ECS option — a hit comes from an entry admitted for the sub-query's own
   question and CD partition, shared audience; a cut answers only a CD=0 sub-query of an unmarked tree *)
Theorem hit_implies_same_question_store_get_tree :
  forall (K : Type) (K_eqb : K -> K -> bool) (H : bytes -> K) (salt_fq salt_fz : K -> K) (s : store K) q cd bypass id,
    store_get_tree K K_eqb H salt_fq salt_fz s q cd bypass = OHit id ->
    exists e, e_id e = id /\ same_question e (q_name q) (q_type q) (q_class q) cd /\ e_scope e = None.
Proof. exact store_get_tree_hit_sound. Qed.
Print Assumptions hit_implies_same_question_store_get_tree.

Theorem store_get_tree_cut_only_without_cd_and_marker :
  forall (K : Type) (K_eqb : K -> K -> bool) (H : bytes -> K) (salt_fq salt_fz : K -> K) (s : store K) q cd bypass id,
    store_get_tree K K_eqb H salt_fq salt_fz s q cd bypass = OCut id -> cd = false /\ bypass = false.
Proof. exact store_get_tree_cut_only_plain. Qed.
Print Assumptions store_get_tree_cut_only_without_cd_and_marker.

(* a subtree cut never answers a CD or ECS request *)
Theorem cut_hit_only_without_cd_and_ecs :
  forall (K : Type) (K_eqb : K -> K -> bool) (H : bytes -> K) (salt_fq salt_fz : K -> K) (s : store K) q cd has_ecs client id,
    msg_ladder K K_eqb H salt_fq salt_fz s q cd has_ecs client = OCut id ->
    cd = false /\ has_ecs = false /\
    exists c, c_id c = id /\ In (c_name c) (label_suffixes (canonical (q_name q))) /\ c_class c = q_class q.
Proof. exact msg_ladder_cut_sound. Qed.
Print Assumptions cut_hit_only_without_cd_and_ecs.

(* a refresh that replaces an entry inherits that entry's CD partition and ECS scope *)
Theorem replace_inherits_partition :
  forall (K : Type) (K_eqb : K -> K -> bool) (s s' : store K) k expected rq id alias hasq plain,
    replace_if_current K K_eqb k expected rq id alias hasq plain s = (s', true) ->
    exists cur, kget K K_eqb k (st_pos K s) = Some cur /\ entry_same cur expected = true /\
      st_pos K s' = kset K K_eqb k (mk_entry rq (e_cd expected) (e_scope expected) id alias hasq plain) (st_pos K s) /\
      st_neg K s' = st_neg K s /\ st_fail K s' = st_fail K s.
Proof. exact replace_inherits_partition_lemma. Qed.
Print Assumptions replace_inherits_partition.

(* after Purge(q) no exact-answer route hits for q in any spelling, CD bit or client subnet *)
Theorem purge_removes_all_variants :
  forall (K : Type) (K_eqb : K -> K -> bool) (H : bytes -> K),
    (forall k, K_eqb k k = true) ->
    forall q (s : store K) q' cd client,
      fold (q_name q') = fold (q_name q) -> q_type q' = q_type q -> q_class q' = q_class q ->
      serve_msg_exact K K_eqb H (purge K K_eqb H q s) q' cd client = None /\
      store_lookup K K_eqb H (purge K K_eqb H q s) q' cd = None /\
      (forall ls, name_wf ls = true -> present ls = q_name q' ->
         serve_wire_exact K K_eqb H (purge K K_eqb H q s) (encode ls) (q_type q') (q_class q') cd = None).
Proof. exact purge_removes_all_variants_lemma. Qed.
Print Assumptions purge_removes_all_variants.

Theorem purge_removes_covering_cuts :
  forall (K : Type) (K_eqb : K -> K -> bool) (H : bytes -> K) q (s : store K),
    cut_lookup K (purge K K_eqb H q s) q = None.
Proof. exact purge_cut_gone. Qed.
Print Assumptions purge_removes_covering_cuts.

(* ---- the ancestor walks: "same owner name, nothing broader" for zone-wide failures and subtree cuts, and "names
   are keyed identically whether they arrive as wire labels or presentation text, including escaped and
   non-printable octets" for the walks themselves.  For every well-formed label list over all 256 octet values:
   the text walk of the decoded failure route (walkFailureZones on the canonical form of what the decoder
   prints) visits exactly the lower-cased text of the name's label-level ancestors, root last; the wire walk
   (walkWireSuffixes) visits exactly their wire forms; dnsname.Suffixes the same without the root. *)
Theorem zone_walk_text_visits_label_ancestors :
  forall ls, name_wf ls = true ->
    name_suffixes (canonical (present ls)) = map (fun t => fold (present t)) (tails ls).
Proof. exact name_suffixes_canonical_present_lemma. Qed.
Print Assumptions zone_walk_text_visits_label_ancestors.

Theorem zone_walk_wire_visits_label_ancestors :
  forall ls, name_wf ls = true -> wire_name_suffixes (encode ls) = map encode (tails ls).
Proof. exact wire_name_suffixes_encode_lemma. Qed.
Print Assumptions zone_walk_wire_visits_label_ancestors.

Theorem cut_walk_text_visits_label_ancestors :
  forall ls, name_wf ls = true ->
    label_suffixes (canonical (present ls)) = map (fun t => fold (present t)) (removelast (tails ls)).
Proof. exact label_suffixes_canonical_present_lemma. Qed.
Print Assumptions cut_walk_text_visits_label_ancestors.

(* hence a zone-wide failure that answers a question on the decoded route (any key type, hash, store) was
   recorded for a label-level ancestor t of the question's labels ls (ls = pre ++ t), in the question's class —
   never for a name that is only a string suffix of the printed name (`b.example.` for `a\.b.example.`) *)
Theorem failure_zone_hit_is_label_ancestor_msg :
  forall (K : Type) (K_eqb : K -> K -> bool) (H : bytes -> K) (salt_fq salt_fz : K -> K) (s : store K) ls qt qc cd p fe,
    name_wf ls = true ->
    failure_lookup K K_eqb H salt_fq salt_fz s (mk_q (present ls) qt qc) cd p = Some fe -> f_kind fe = FZone ->
    exists pre t, ls = pre ++ t /\ f_zone fe = fold (present t) /\ f_zclass fe = qc.
Proof.
  intros K K_eqb H salt_fq salt_fz s ls qt qc cd p fe Hw Hl Hz.
  exact (failure_zone_hit_label_ancestor_lemma fe ls qt qc cd p Hw (failure_lookup_sound K K_eqb H salt_fq salt_fz s _ cd p fe Hl) Hz).
Qed.
Print Assumptions failure_zone_hit_is_label_ancestor_msg.

(* ... and on the wire route the same ancestors, compared under the A-Z fold *)
Theorem failure_zone_hit_is_label_ancestor_wire :
  forall (K : Type) (K_eqb : K -> K -> bool) (H : bytes -> K) (salt_fq salt_fz : K -> K) (s : store K) ls qt qc cd fe,
    name_wf ls = true ->
    failure_lookup_wire K K_eqb H salt_fq salt_fz s (encode ls) qt qc cd = Some fe -> f_kind fe = FZone ->
    exists pre t, ls = pre ++ t /\ fold (f_zone fe) = fold (present t) /\ f_zclass fe = qc.
Proof.
  intros K K_eqb H salt_fq salt_fz s ls qt qc cd fe Hw Hl Hz.
  exact (failure_zone_hit_label_ancestor_wire_lemma fe ls qt qc cd Hw (failure_lookup_wire_sound K K_eqb H salt_fq salt_fz s _ qt qc cd fe Hl) Hz).
Qed.
Print Assumptions failure_zone_hit_is_label_ancestor_wire.

(* a subtree cut that answers on the decoded route denies a non-root label-level ancestor-or-self of the name *)
Theorem cut_hit_is_label_ancestor_msg :
  forall (K : Type) (K_eqb : K -> K -> bool) (H : bytes -> K) (s : store K) ls qt qc c,
    name_wf ls = true -> cut_lookup K s (mk_q (present ls) qt qc) = Some c ->
    exists pre t, ls = pre ++ t /\ t <> [] /\ c_name c = fold (present t).
Proof.
  intros K K_eqb H s ls qt qc c Hw Hl.
  destruct (cut_lookup_sound K K_eqb H s _ c Hl) as [_ [Hin _]].
  exact (cut_hit_label_ancestor_lemma c ls Hw Hin).
Qed.
Print Assumptions cut_hit_is_label_ancestor_msg.

(* translator tie: the loop of walkFailureZones, translated from the Go AST together with miekg's dns.NextLabel
   (which decides by counting backslashes backwards whether a dot is escaped), started on a non-empty canonical
   name with fuel > its length + 1 always ends by its return statement, having handed the callback the elements
   of the model's name_suffixes in order up to the first one it refuses (or the root) *)
Theorem gen_walkFailureZones_is_name_suffixes :
  forall visit fuel zone, zone <> [] -> (length zone + 1 < fuel)%nat ->
    go_walkFailureZones_loop1_run fuel visit zone =
    (GoRet tt, (visit, match first_false visit (name_suffixes zone) with Some z => z | None => [46] end)).
Proof. exact gen_walkFailureZones. Qed.
Print Assumptions gen_walkFailureZones_is_name_suffixes.

(* ---- the decoder: miekg/dns UnpackDomainName, whose output is the presentation text of every decoded request *)

(* translator tie: the label-printing loop of UnpackDomainName (translated from the module cache at the version
   go.mod requires, with isDomainNameLabelSpecial and escapeByte's tables) run on msg[off:off+c] ends normally
   having appended, octet by octet over all 256 values, the model's present_byte — backslash + special, the
   decimal escape outside 0x20-0x7E, the octet itself — and left msg, off and c alone *)
Theorem gen_UnpackDomainName_label :
  forall msg off s c, Forall (fun b => b < 256) msg ->
    go_UnpackDomainName_loop2_run msg off s c =
    (GoNext, (msg, off, s ++ flat_map present_byte (go_slice msg off (off + c)), c)).
Proof. exact gen_UnpackDomainName_label_lemma. Qed.
Print Assumptions gen_UnpackDomainName_label.

(* the escape set of the wire hasher / verifier (key_wire.go isPresentationSpecial) IS the decoder's escape set *)
Theorem gen_special_sets_agree :
  forall b, go_isPresentationSpecial b = go_isDomainNameLabelSpecial b.
Proof. exact gen_special_sets_agree_lemma. Qed.
Print Assumptions gen_special_sets_agree.

(* the decoder's walk (unpack_name: the outer loop by hand around the translated label loop) on the wire form of
   every well-formed label list — anywhere in a message — prints the model's `present` and stops just past the
   name: the theorems stated over `present` are statements about the text the decoder produces *)
Theorem decoder_prints_present :
  forall pre ls post,
    name_wf ls = true -> Forall (fun b => b < 256) pre -> Forall (fun b => b < 256) post ->
    unpack_name (pre ++ encode ls ++ post) (len pre) = Some (present ls, len pre + len (encode ls)).
Proof. exact unpack_name_encode_lemma. Qed.
Print Assumptions decoder_prints_present.

(* the iteration budget of the decoder model is never the reason for a refusal: for EVERY message and offset more
   iterations than unpack_fuel give the same result (each turn spends two units of the 255-octet budget or one of
   the 126 pointers), so unpack_name = None is always one of UnpackDomainName's error returns *)
Theorem unpack_fuel_never_exhausted :
  forall extra msg off,
    unpack_loop (unpack_fuel + extra) msg off [] dns_max_name_wire_octets 0%Z 0%Z =
    unpack_loop unpack_fuel msg off [] dns_max_name_wire_octets 0%Z 0%Z.
Proof. exact unpack_fuel_never_exhausted_lemma. Qed.
Print Assumptions unpack_fuel_never_exhausted.

(* "Names are keyed identically whether they arrive as wire labels or presentation text, including escaped and
   non-printable octets": for every well-formed name over all 256 octet values, every type, class, CD, scope and
   EVERY hash function, the decoder turns the wire octets into a text whose presentation-side key is the wire-side
   key of those octets, and the wire path's collision verifier accepts that text *)
Theorem wire_and_decoded_text_keyed_identically :
  forall (K : Type) (H : bytes -> K) ls qtype qclass cd p,
    name_wf ls = true ->
    exists text,
      unpack_name (encode ls) 0 = Some (text, len (encode ls)) /\
      pre_keywirewithprefix (encode ls) qtype qclass cd p = Some (pre_keywithprefix text qtype qclass cd p) /\
      option_map H (pre_keywirewithprefix (encode ls) qtype qclass cd p) = Some (H (pre_keywithprefix text qtype qclass cd p)) /\
      wire_equals_pres (encode ls) text = true.
Proof. exact wire_and_decoded_text_keyed_identically_lemma. Qed.
Print Assumptions wire_and_decoded_text_keyed_identically.

(* ---- the decoded-path alias chase: which question the next sub-query asks *)

(* translator ties: the first loop of searchAdditionalAnswer (dns.RR as a sum type: a *dns.CNAME, any other
   record with its header, nil) ends normally having appended the response's answer records to the reply and
   computed the model's answer_alias_scan; respCnameHasType on a non-nil response is answer_has_type *)
Theorem gen_searchAdditionalAnswer_scan :
  forall msg res target child,
    go_searchAdditionalAnswer_loop1_run msg res target child =
    (GoNext, (msg_add_answers msg (T_Msg_Answer res), res,
              fst (answer_alias_scan (T_Msg_Answer res) target child),
              snd (answer_alias_scan (T_Msg_Answer res) target child))).
Proof. exact gen_searchAdditionalAnswer_scan_lemma. Qed.
Print Assumptions gen_searchAdditionalAnswer_scan.

Theorem gen_respCnameHasType :
  forall res qtype, go_respCnameHasType res qtype = answer_has_type (T_Msg_Answer res) qtype.
Proof. exact gen_respCnameHasType_lemma. Qed.
Print Assumptions gen_respCnameHasType.

(* for EVERY reply under construction and EVERY hop response: the chase's next sub-question is named by an alias
   record of that very response — the last record of type CNAME — or there is none (child = false, empty
   target); the reply gains exactly the response's answer records *)
Theorem chase_next_question_named_by_last_alias :
  forall msg res,
    exists msg' target child,
      go_searchAdditionalAnswer_loop1_run msg res [] false = (GoNext, (msg', res, target, child)) /\
      T_Msg_Answer msg' = T_Msg_Answer msg ++ T_Msg_Answer res /\
      ((child = false /\ target = [] /\ forallb not_alias (T_Msg_Answer res) = true) \/
       (child = true /\ exists pre r post, T_Msg_Answer res = pre ++ r :: post /\ rr_type r = dns_type_cname /\
                                          forallb not_alias post = true /\ target = rr_cname_target r)).
Proof. exact chase_next_question_lemma. Qed.
Print Assumptions chase_next_question_named_by_last_alias.
