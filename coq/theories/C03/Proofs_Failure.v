(* C03 — the failure cache's audience dimension over updates: a SERVFAIL recorded while resolving
   for one audience (question, CD, client scope) is filed under exactly that audience, and a later
   lookup that consumes it comes from that audience.  For EVERY key type, comparison, hash, salt
   and store content (so collisions inside the failure map are covered). *)
From Sdns Require Import Common.Base Gen.C03 C03.Model C03.Proofs_Key C03.Proofs_Store.
Open Scope N_scope.

Section FailureAudience.
  Variable K : Type.
  Variable K_eqb : K -> K -> bool.
  Variable H : bytes -> K.
  Variable salt_fq salt_fz : K -> K.
  Notation store := (store K).

  (* the failure states a store retains *)
  Definition f_values (s : store) : list fentry := map snd (st_fail K s).

  (* same identity: kind, question, CD, scope, zone, class, id (streak / retry-after / activity may differ) *)
  Definition f_same_ident (a b : fentry) : Prop :=
    f_kind a = f_kind b /\ f_q a = f_q b /\ f_cd a = f_cd b /\ f_scope a = f_scope b /\
    f_zone a = f_zone b /\ f_zclass a = f_zclass b /\ f_id a = f_id b.

  Lemma f_same_ident_refl a : f_same_ident a a.
  Proof. unfold f_same_ident. tauto. Qed.

  Lemma kget_value_in {V} k (m : kmap K V) v : kget K K_eqb k m = Some v -> In v (map snd m).
  Proof.
    induction m as [|[k' v'] r IH]; cbn; [discriminate|].
    destruct (K_eqb k k').
    - intros Hv. inversion Hv; subst. left. reflexivity.
    - intros Hv. right. exact (IH Hv).
  Qed.

  Lemma kset_value_in {V} k (x : V) (m : kmap K V) v :
    In v (map snd (kset K K_eqb k x m)) -> v = x \/ In v (map snd m).
  Proof.
    unfold kset, kremove. cbn. intros [Hx|Hin]; [left; symmetry; exact Hx|right].
    apply in_map_iff in Hin. destruct Hin as [[k' v'] [Hv Hin]]. apply filter_In in Hin.
    apply in_map_iff. exists (k', v'). tauto.
  Qed.

  (* FailureCache.record: whatever is retained afterwards was retained before (possibly renewed) or is
     the candidate *)
  Lemma record_failure_values now initial maxttl k cand (s : store) fe :
    In fe (f_values (record_failure K K_eqb now initial maxttl k cand s)) ->
    (exists fe0, In fe0 (f_values s) /\ f_same_ident fe0 fe) \/ f_same_ident cand fe.
  Proof.
    unfold record_failure, f_values.
    destruct (kget K K_eqb k (st_fail K s)) as [cur|] eqn:Eg.
    - destruct (failure_same_key cur cand).
      + destruct (f_active cur).
        * intros Hin. left. exists fe. split; [exact Hin|apply f_same_ident_refl].
        * cbn [st_fail]. intros Hin. apply kset_value_in in Hin. destruct Hin as [Hx|Hin].
          -- left. exists cur. split; [eapply kget_value_in; exact Eg|]. subst fe. unfold f_same_ident. cbn. tauto.
          -- left. exists fe. split; [exact Hin|apply f_same_ident_refl].
      + cbn [st_fail]. intros Hin. apply kset_value_in in Hin. destruct Hin as [Hx|Hin].
        * right. subst fe. unfold f_same_ident. cbn. tauto.
        * left. exists fe. split; [exact Hin|apply f_same_ident_refl].
    - cbn [st_fail]. intros Hin. apply kset_value_in in Hin. destruct Hin as [Hx|Hin].
      + right. subst fe. unfold f_same_ident. cbn. tauto.
      + left. exists fe. split; [exact Hin|apply f_same_ident_refl].
  Qed.

  Lemma record_failure_answers now initial maxttl k cand (s : store) :
    let s' := record_failure K K_eqb now initial maxttl k cand s in
    st_pos K s' = st_pos K s /\ st_neg K s' = st_neg K s /\ st_cuts K s' = st_cuts K s /\ st_cuthash K s' = st_cuthash K s.
  Proof.
    unfold record_failure. destruct (kget K K_eqb k (st_fail K s)) as [cur|]; [|cbn; tauto].
    destruct (failure_same_key cur cand); [|cbn; tauto]. destruct (f_active cur); cbn; tauto.
  Qed.

  (* every lookup result is one of the retained states *)
  Lemma load_fquestion_value (s : store) q cd p fe :
    load_fquestion K K_eqb H salt_fq s q cd p = Some fe -> In fe (f_values s).
  Proof.
    unfold load_fquestion, f_values. destruct (kget K K_eqb _ _) as [f|] eqn:Eg; [|discriminate].
    destruct (f_kind f); [|discriminate].
    destruct (_ && _ && _); [|discriminate]. intros Hf. inversion Hf; subst. eapply kget_value_in; exact Eg.
  Qed.
  Lemma load_fzone_value (s : store) zone qc fe :
    load_fzone K K_eqb H salt_fz s zone qc = Some fe -> In fe (f_values s).
  Proof.
    unfold load_fzone, f_values. destruct (kget K K_eqb _ _) as [f|] eqn:Eg; [|discriminate].
    destruct (f_kind f); [discriminate|].
    destruct (_ && _); [|discriminate]. intros Hf. inversion Hf; subst. eapply kget_value_in; exact Eg.
  Qed.

  Lemma failure_lookup_value (s : store) q cd p fe :
    failure_lookup K K_eqb H salt_fq salt_fz s q cd p = Some fe -> In fe (f_values s).
  Proof.
    unfold failure_lookup. destruct (st_fail K s) eqn:Ef; [discriminate|]. clear Ef.
    assert (Hz : forall l,
      first_some (fun zone => match load_fzone K K_eqb H salt_fz s zone (q_class q) with
                              | Some fe => if f_active fe then Some fe else None
                              | None => None end) l = Some fe -> In fe (f_values s)).
    { intros l Hl. apply first_some_spec in Hl. destruct Hl as [z [_ Hl]].
      destruct (load_fzone K K_eqb H salt_fz s z (q_class q)) as [fz|] eqn:E2; [|discriminate].
      destruct (f_active fz); [|discriminate]. inversion Hl; subst. eapply load_fzone_value; exact E2. }
    destruct (load_fquestion K K_eqb H salt_fq s _ cd _) as [fe1|] eqn:E1.
    - destruct (f_active fe1).
      + intros He. inversion He; subst. eapply load_fquestion_value; exact E1.
      + apply Hz.
    - apply Hz.
  Qed.

  Lemma failure_lookup_wire_value (s : store) w qt qc cd fe :
    failure_lookup_wire K K_eqb H salt_fq salt_fz s w qt qc cd = Some fe -> In fe (f_values s).
  Proof.
    unfold failure_lookup_wire. destruct (st_fail K s) eqn:Ef; [discriminate|]. rewrite <- Ef. clear Ef.
    match goal with |- match ?X with _ => _ end = _ -> _ => destruct X as [fe1|] eqn:E1 end.
    - intros He. inversion He; subst fe1. clear He.
      destruct (pre_keywire w qt qc cd); [|discriminate].
      destruct (kget K K_eqb _ _) as [fq|] eqn:Eg; [|discriminate].
      destruct (f_kind fq); [|discriminate]. destruct (f_scope fq); [discriminate|].
      match type of E1 with (if ?c then _ else _) = _ => destruct c end; [|discriminate].
      inversion E1; subst fq. eapply kget_value_in; exact Eg.
    - intros Hl. apply first_some_spec in Hl. destruct Hl as [z [_ Hl]].
      destruct (pre_keywire z 6 qc false); [|discriminate].
      destruct (kget K K_eqb _ _) as [fz|] eqn:Eg; [|discriminate].
      destruct (f_kind fz); [discriminate|].
      destruct (_ && _ && _); [|discriminate]. inversion Hl; subst fz. eapply kget_value_in; exact Eg.
  Qed.

  (* ---- the write-back route: ResponseWriter.WriteMsg's SERVFAIL exits *)

  (* a failure state is "of" a request when it is the question-kind state of its canonical question,
     CD bit and normalised client scope *)
  Definition failure_of (fe : fentry) (q : question) (cd : bool) (client : option scope) (id : N) : Prop :=
    f_kind fe = FQuestion /\ f_q fe = mk_q (canonical (q_name q)) (q_type q) (q_class q) /\
    f_cd fe = cd /\ f_scope fe = normalize_scope client /\ f_id fe = id.

  Lemma writeback_failure_files_audience now initial maxttl q cd client id (s : store) fe :
    In fe (f_values (writeback_failure K K_eqb H salt_fq now initial maxttl q cd client id s)) ->
    (exists fe0, In fe0 (f_values s) /\ f_same_ident fe0 fe) \/ failure_of fe q cd client id.
  Proof.
    unfold writeback_failure, record_fquestion. intros Hin. apply record_failure_values in Hin.
    destruct Hin as [Hold|Hnew]; [left; exact Hold|right].
    unfold f_same_ident in Hnew. cbn in Hnew. unfold failure_of.
    destruct Hnew as (Hk & Hq & Hc & Hs & _ & _ & Hi). repeat split; congruence.
  Qed.

  (* decoded route: whoever consumes the failure a write-back filed is the same audience *)
  Lemma writeback_failure_consumed_msg now initial maxttl q cd client id (s : store) q2 cd2 p2 fe :
    failure_lookup K K_eqb H salt_fq salt_fz
      (writeback_failure K K_eqb H salt_fq now initial maxttl q cd client id s) q2 cd2 p2 = Some fe ->
    (exists fe0, In fe0 (f_values s) /\ f_same_ident fe0 fe) \/
    (f_id fe = id /\ canonical (q_name q2) = canonical (q_name q) /\ q_type q2 = q_type q /\ q_class q2 = q_class q /\
     cd2 = cd /\ normalize_scope p2 = normalize_scope client).
  Proof.
    intros Hl. pose proof (failure_lookup_value _ _ _ _ _ Hl) as Hin.
    apply writeback_failure_files_audience in Hin. destruct Hin as [Hold|Hnew]; [left; exact Hold|right].
    apply failure_lookup_sound in Hl. destruct Hl as [_ [Hq|Hz]].
    - destruct Hnew as (_ & Hfq & Hc & Hs & Hi). destruct Hq as (_ & Hn & Ht & Hcl & Hcd & Hsc).
      rewrite Hfq in Hn, Ht, Hcl. cbn in Hn, Ht, Hcl. repeat split; congruence.
    - destruct Hnew as (Hk & _). destruct Hz as (Hk2 & _). congruence.
  Qed.

  (* wire route (requests without ECS): only a failure filed for the shared audience is consumed *)
  Lemma writeback_failure_consumed_wire now initial maxttl q cd client id (s : store) w qt qc cd2 fe :
    failure_lookup_wire K K_eqb H salt_fq salt_fz
      (writeback_failure K K_eqb H salt_fq now initial maxttl q cd client id s) w qt qc cd2 = Some fe ->
    (exists fe0, In fe0 (f_values s) /\ f_same_ident fe0 fe) \/
    (f_id fe = id /\ normalize_scope client = None /\ qt = q_type q /\ qc = q_class q /\ cd2 = cd /\
     wire_equals_pres w (canonical (q_name q)) = true).
  Proof.
    intros Hl. pose proof (failure_lookup_wire_value _ _ _ _ _ _ Hl) as Hin.
    apply writeback_failure_files_audience in Hin. destruct Hin as [Hold|Hnew]; [left; exact Hold|right].
    apply failure_lookup_wire_sound in Hl. destruct Hl as [_ [Hq|Hz]].
    - destruct Hnew as (_ & Hfq & Hc & Hs & Hi). destruct Hq as (_ & Hsc & Ht & Hcl & Hcd & Hw).
      rewrite Hfq in Ht, Hcl, Hw. cbn in Ht, Hcl, Hw. repeat split; congruence.
    - destruct Hnew as (Hk & _). destruct Hz as (Hk2 & _). congruence.
  Qed.

  (* admissions, replacements and write-backs of answers never CREATE failure state: the failure map
     only shrinks (reset of the question's own history) *)
  Lemma reset_fquestion_values q cd p (s : store) fe :
    In fe (f_values (reset_fquestion K K_eqb H salt_fq q cd p s)) -> In fe (f_values s).
  Proof.
    unfold reset_fquestion, f_values. destruct (kget K K_eqb _ _) as [f|]; [|tauto].
    destruct (f_kind f); [|tauto]. destruct (_ && _ && _); [|tauto].
    cbn [st_fail]. unfold kremove. intros Hin. apply in_map_iff in Hin. destruct Hin as [[k' v'] [Hv Hin]].
    apply filter_In in Hin. apply in_map_iff. exists (k', v'). tauto.
  Qed.

  Lemma reset_fzone_values zone qc (s : store) fe :
    In fe (f_values (reset_fzone K K_eqb H salt_fz zone qc s)) -> In fe (f_values s).
  Proof.
    unfold reset_fzone, f_values. destruct (kget K K_eqb _ _) as [f|]; [|tauto].
    destruct (f_kind f); [tauto|]. destruct (_ && _); [|tauto].
    cbn [st_fail]. unfold kremove. intros Hin. apply in_map_iff in Hin. destruct Hin as [[k' v'] [Hv Hin]].
    apply filter_In in Hin. apply in_map_iff. exists (k', v'). tauto.
  Qed.

  Lemma reset_matching_values q cd p (s : store) fe :
    In fe (f_values (reset_matching K K_eqb H salt_fq salt_fz q cd p s)) -> In fe (f_values s).
  Proof.
    unfold reset_matching. generalize (name_suffixes (canonical (q_name q))). intros l.
    assert (Hf : forall l st, In fe (f_values (fold_left (fun st zone => reset_fzone K K_eqb H salt_fz zone (q_class q) st) l st)) ->
                              In fe (f_values st)).
    { induction l0 as [|z r IH]; cbn; [tauto|]. intros st Hin. apply IH in Hin. eapply reset_fzone_values; exact Hin. }
    intros Hin. apply Hf in Hin. eapply reset_fquestion_values; exact Hin.
  Qed.

  (* an answer written back (any SCOPE) creates no failure state *)
  Lemma writeback_answer_values min4 min6 q cd client bits id (s : store) fe :
    In fe (f_values (writeback_answer K K_eqb H salt_fq salt_fz min4 min6 q cd client bits id s)) -> In fe (f_values s).
  Proof.
    unfold writeback_answer. intros Hin. apply reset_matching_values in Hin.
    unfold store_set_from_response in Hin.
    destruct (normalize_scope (writeback_scope min4 min6 client bits)).
    - unfold set_from_response, set_entry, f_values in Hin. cbn in Hin. exact Hin.
    - apply reset_fquestion_values in Hin. unfold set_from_response, set_entry, f_values in Hin. cbn in Hin. exact Hin.
  Qed.

  (* ---- the failure clock: a failure is consumed only strictly before its retry-after instant *)
  Lemma set_failure_clock_values now (s : store) fe :
    In fe (f_values (set_failure_clock K now s)) -> f_active fe = (now <? f_retry fe).
  Proof.
    unfold set_failure_clock, f_values. cbn [st_fail]. rewrite map_map. intros Hin.
    apply in_map_iff in Hin. destruct Hin as [[k fe0] [Hfe _]]. cbn in Hfe. subst fe. reflexivity.
  Qed.

  Lemma failure_hit_before_retry_msg now (s : store) q cd p fe :
    failure_lookup K K_eqb H salt_fq salt_fz (set_failure_clock K now s) q cd p = Some fe -> now < f_retry fe.
  Proof.
    intros Hl. pose proof (failure_lookup_value _ _ _ _ _ Hl) as Hin. apply set_failure_clock_values in Hin.
    apply failure_lookup_sound in Hl. destruct Hl as [Ha _]. rewrite Ha in Hin. symmetry in Hin. apply N.ltb_lt in Hin. exact Hin.
  Qed.

  Lemma failure_hit_before_retry_wire now (s : store) w qt qc cd fe :
    failure_lookup_wire K K_eqb H salt_fq salt_fz (set_failure_clock K now s) w qt qc cd = Some fe -> now < f_retry fe.
  Proof.
    intros Hl. pose proof (failure_lookup_wire_value _ _ _ _ _ _ Hl) as Hin. apply set_failure_clock_values in Hin.
    apply failure_lookup_wire_sound in Hl. destruct Hl as [Ha _]. rewrite Ha in Hin. symmetry in Hin. apply N.ltb_lt in Hin. exact Hin.
  Qed.

  (* FailureCache.backoff stays inside [min(initial,max), max] *)
  Lemma backoff_loop_le n : forall maxttl ttl, ttl <= maxttl -> backoff_loop n maxttl ttl <= maxttl.
  Proof.
    induction n as [|n IH]; intros maxttl ttl Hle; cbn [backoff_loop]; [exact Hle|].
    destruct (ttl <? maxttl) eqn:E1; [|exact Hle].
    destruct (maxttl / 2 <? ttl) eqn:E2; [lia|].
    apply IH. apply N.ltb_ge in E2.
    assert (2 * (maxttl / 2) <= maxttl) by (apply N.mul_div_le; lia). lia.
  Qed.
  Lemma backoff_le_max initial maxttl streak : backoff initial maxttl streak <= maxttl.
  Proof.
    unfold backoff. destruct (maxttl <? backoff_loop _ maxttl initial) eqn:E; [lia|]. apply N.ltb_ge in E. exact E.
  Qed.
  Lemma backoff_loop_ge n : forall maxttl ttl, ttl <= backoff_loop n maxttl ttl \/ maxttl <= backoff_loop n maxttl ttl.
  Proof.
    induction n as [|n IH]; intros maxttl ttl; cbn [backoff_loop]; [left; lia|].
    destruct (ttl <? maxttl) eqn:E1; [|left; lia].
    destruct (maxttl / 2 <? ttl) eqn:E2; [right; lia|].
    destruct (IH maxttl (2 * ttl)) as [Hh|Hh]; [left; lia|right; exact Hh].
  Qed.
  Lemma backoff_ge_min initial maxttl streak : N.min initial maxttl <= backoff initial maxttl streak.
  Proof.
    unfold backoff. destruct (maxttl <? backoff_loop _ maxttl initial) eqn:E; [lia|].
    destruct (backoff_loop_ge (N.to_nat (streak - 1)) maxttl initial); lia.
  Qed.

End FailureAudience.

(* ---- subtree cuts: once a cut's lifetime ended no route answers from it *)
Section CutExpiry.
  Variable K : Type.
  Variable K_eqb : K -> K -> bool.
  Variable H : bytes -> K.
  Variable salt_cut : K -> K.

  Lemma cut_get_in name qc l c : cut_get name qc l = Some c -> In c l.
  Proof.
    induction l as [|c' r IH]; cbn; [discriminate|].
    destruct (bytes_eqb (c_name c') name && (c_class c' =? qc)).
    - intros Hc. inversion Hc; subst. left. reflexivity.
    - intros Hc. right. exact (IH Hc).
  Qed.

  Lemma expired_off id (c0 c : cut) :
    c = (if c_id c0 =? id then mk_cut (c_name c0) (c_class c0) (c_wire c0) false (c_id c0) else c0) ->
    c_active c = true -> c_id c <> id.
  Proof.
    destruct (c_id c0 =? id) eqn:E; intros Hc Ha; subst c.
    - cbn in Ha. discriminate.
    - apply N.eqb_neq in E. exact E.
  Qed.

  Lemma expire_cut_lookup id (s : store K) q c :
    cut_lookup K (expire_cut K id s) q = Some c -> c_id c <> id.
  Proof.
    unfold cut_lookup. destruct (q_class q =? 0); [discriminate|].
    intros Hc. apply first_some_spec in Hc. destruct Hc as [cand [_ Hc]].
    destruct (cut_get cand (q_class q) _) as [c'|] eqn:Eg; [|discriminate].
    destruct (c_active c') eqn:Ea; [|discriminate]. inversion Hc; subst c'.
    apply cut_get_in in Eg. unfold expire_cut in Eg. cbn [st_cuts] in Eg.
    apply in_map_iff in Eg. destruct Eg as [c0 [Hc0 _]]. eapply expired_off; [symmetry; exact Hc0|exact Ea].
  Qed.

  Lemma expire_cut_lookup_wire id (s : store K) w qc c :
    cut_lookup_wire K K_eqb H salt_cut (expire_cut K id s) w qc = Some c -> c_id c <> id.
  Proof.
    intros Hl. pose proof (cut_lookup_wire_sound _ _ _ _ _ _ _ _ Hl) as [Ha _].
    unfold cut_lookup_wire in Hl. destruct (qc =? 0); [discriminate|].
    apply first_some_spec in Hl. destruct Hl as [cand [_ Hl]].
    destruct (pre_keywire cand 0 qc false); [|discriminate].
    destruct (kget K K_eqb _ _) as [c'|] eqn:Eg; [|discriminate].
    destruct (_ && _ && _ && _); [|discriminate]. inversion Hl; subst c'.
    apply (kget_value_in K K_eqb) in Eg. unfold expire_cut in Eg. cbn [st_cuthash] in Eg. rewrite map_map in Eg. cbn in Eg.
    apply in_map_iff in Eg. destruct Eg as [[k c0] [Hc0 _]]. cbn in Hc0. eapply expired_off; [symmetry; exact Hc0|exact Ha].
  Qed.
End CutExpiry.

(* non-vacuity: a SERVFAIL written back for the scoped client 10.1.2.0/24 (and one under CD) is consumed
   by that audience and by nobody else — not by the shared audience (decoded or wire route), not by a
   sibling subnet, not by the other CD partition *)
Example ex_failure_audience :
  let hid (p : bytes) := p in
  let fq (k : bytes) := 1 :: k in
  let fz (k : bytes) := 2 :: k in
  let q := mk_q [65;46] 1 1 in
  let a := Some (mk_scope true 24 [10;1;2;77]) in
  let s1 := writeback_failure bytes bytes_eqb hid fq 0 5000 40000 q false a 7 (empty_store bytes) in
  let s2 := writeback_failure bytes bytes_eqb hid fq 0 5000 40000 q true None 8 s1 in
  let look cd p := option_map f_id (failure_lookup bytes bytes_eqb hid fq fz s2 (mk_q [97;46] 1 1) cd p) in
  look false (Some (mk_scope true 24 [10;1;2;9])) = Some 7 /\
  look false None = None /\
  look false (Some (mk_scope true 24 [10;1;3;9])) = None /\
  look false (Some (mk_scope true 16 [10;1;2;77])) = None /\
  look true (Some (mk_scope true 24 [10;1;2;9])) = None /\
  look true None = Some 8 /\
  option_map f_id (failure_lookup_wire bytes bytes_eqb hid fq fz s2 [1;97;0] 1 1 false) = None /\
  option_map f_id (failure_lookup_wire bytes bytes_eqb hid fq fz s2 [1;65;0] 1 1 true) = Some 8.
Proof. vm_compute. repeat split; reflexivity. Qed.

(* non-vacuity of the clock / backoff / cut-expiry theorems: a state recorded at 0 (initial 5 s, max 40 s) answers at
   4999 ms and not at 5000 ms; renewed at 5000 ms it runs the second generation (10 s): answers at 14999 ms, not at
   15000 ms; the ladder is 5, 10, 20, 40, 40 s; an expired cut stops answering while its sibling goes on *)
Example ex_failure_clock :
  let hid (p : bytes) := p in
  let fq (k : bytes) := 1 :: k in
  let fz (k : bytes) := 2 :: k in
  let q := mk_q [97;46] 1 1 in
  let s0 := record_fquestion bytes bytes_eqb hid fq 0 5000 40000 q false None 7 (empty_store bytes) in
  let seen now s := option_map f_id (failure_lookup bytes bytes_eqb hid fq fz (set_failure_clock bytes now s) q false None) in
  let s1 := record_fquestion bytes bytes_eqb hid fq 5000 5000 40000 q false None 7 (set_failure_clock bytes 5000 s0) in
  seen 4999 s0 = Some 7 /\ seen 5000 s0 = None /\ seen 14999 s1 = Some 7 /\ seen 15000 s1 = None /\
  map (backoff 5000 40000) [1; 2; 3; 4; 5; 9] = [5000; 10000; 20000; 40000; 40000; 40000].
Proof. vm_compute. repeat split; reflexivity. Qed.

Example ex_cut_expiry :
  let s_cut (k : bytes) := 3 :: k in
  let hid (p : bytes) := p in
  let s0 := record_cut bytes bytes_eqb hid s_cut [97;46;116;46] 1 true 4 (empty_store bytes) in
  let s1 := record_cut bytes bytes_eqb hid s_cut [98;46;116;46] 1 true 5 s0 in
  let s2 := expire_cut bytes 4 s1 in
  option_map c_id (cut_lookup bytes s1 (mk_q [120;46;97;46;116;46] 1 1)) = Some 4 /\
  cut_lookup bytes s2 (mk_q [120;46;97;46;116;46] 1 1) = None /\
  cut_lookup_wire bytes bytes_eqb hid s_cut s2 [1;120;1;97;1;116;0] 1 = None /\
  option_map c_id (cut_lookup_wire bytes bytes_eqb hid s_cut s2 [1;120;1;98;1;116;0] 1) = Some 5.
Proof. vm_compute. repeat split; reflexivity. Qed.
