(* C19 — the shared-denial bypass flag through request trees of any shape and depth. *)
From Sdns Require Import Common.Base Gen.C19 C19.Model C19.Proofs_edns.
Open Scope N_scope.

Section rtree_induction.
  Variable P : rtree -> Prop.
  Hypothesis Hnode : forall cd remote opts res_cd ch, Forall P ch -> P (RNode cd remote opts res_cd ch).
  Fixpoint rtree_ind2 (t : rtree) : P t :=
    match t with
    | RNode cd remote opts res_cd ch =>
        Hnode cd remote opts res_cd ch
          ((fix go (l : list rtree) : Forall P l :=
              match l with
              | [] => Forall_nil P
              | x :: r => Forall_cons x (rtree_ind2 x) (go r)
              end) ch)
    end.
End rtree_induction.

Definition denied (p : dperm) : Prop := dp_cut p = false /\ dp_proof p = false /\ dp_create p = false.

(* once the bypass flag is on the context, no node below may consume or create shared denials,
   whatever its own CD bit, options, client or response look like *)
Lemma bypass_is_inherited pol t : forall m, Forall denied (tree_perms pol (mk_dctx m true) t).
Proof.
  induction t as [cd remote opts res_cd ch IH] using rtree_ind2. intros m. cbn [tree_perms].
  unfold node_perm. cbn [dc_marker dc_bypass]. rewrite !orb_true_r. cbn [negb andb orb].
  constructor.
  - unfold denied. cbn. rewrite !andb_false_r. auto.
  - induction ch as [|x r IHr]; cbn; [constructor|].
    inversion IH; subst. apply Forall_app. split; [apply H1|apply IHr; assumption].
Qed.

Definition root_isolated (t : rtree) : bool :=
  match t with RNode cd _ opts _ _ => cd || match opts with Some l => has_ecs l | None => false end end.

Lemma isolated_tree_denied pol t ctx : root_isolated t = true -> Forall denied (tree_perms pol ctx t).
Proof.
  destruct t as [cd remote opts res_cd ch]. cbn [root_isolated tree_perms]. intros H.
  unfold node_perm.
  set (raw := match opts with Some l => has_ecs l | None => false end) in *.
  set (msg := has_ecs _). set (cs := match request_scope _ _ _ with Some _ => true | None => false end).
  assert (dc_bypass ctx || cd || (dc_marker ctx || raw || msg) = true) as HB.
  { destruct cd; cbn in H; [rewrite orb_true_r; reflexivity|]. rewrite H. rewrite !orb_true_r. reflexivity. }
  rewrite HB. constructor.
  - unfold denied. cbn. rewrite !orb_true_r. cbn. rewrite !andb_false_r. auto.
  - induction ch as [|x r IHr]; cbn; [constructor|]. apply Forall_app. split; [apply bypass_is_inherited|exact IHr].
Qed.

(* ------------------------------------------------------------------ relay admission *)
(* once the bypass flag is on the context, no writer below admits anything — its own denial or one it
   relays — so nothing learnt anywhere below is recorded (as long as no writer above admits) *)
Lemma node_perm_bypass m cd me cs rc raw :
  exists m', node_perm (mk_dctx m true) cd me cs rc raw = (mk_dctx m' true, snd (node_perm (mk_dctx m true) cd me cs rc raw)) /\
             dp_create (snd (node_perm (mk_dctx m true) cd me cs rc raw)) = false.
Proof. unfold node_perm. cbn. eexists. split; [reflexivity|]. destruct cs, m, raw, me, cd, rc; reflexivity. Qed.

Lemma bypass_records_nothing pol t : forall m, Forall (fun r => r = false) (tree_records pol (mk_dctx m true) false t).
Proof.
  induction t as [cd remote opts res_cd ch IH] using rtree_ind2. intros m. cbn [tree_records].
  match goal with |- context [node_perm (mk_dctx m true) ?a ?b ?c ?d ?e] =>
    destruct (node_perm_bypass m a b c d e) as [m' [E F]]; rewrite E; rewrite F end.
  cbn [orb]. rewrite andb_false_r.
  constructor; [reflexivity|].
  induction ch as [|x r IHr]; cbn; [constructor|].
  inversion IH; subst. apply Forall_app. split; [apply H1|apply IHr; assumption].
Qed.

(* THE PROPERTY'S CLAUSE ON CREATION, with the relay: a tree rooted at a query that carried CD or a subnet
   option records no shared denial at all — not through the node that learnt it, not through any writer
   that relays it on the way up, for every policy, shape, depth, flags and response CD bits below *)
Lemma node_perm_isolated ctx cd me cs rc raw :
  cd || raw = true ->
  exists m', node_perm ctx cd me cs rc raw = (mk_dctx m' true, snd (node_perm ctx cd me cs rc raw)) /\
             dp_create (snd (node_perm ctx cd me cs rc raw)) = false.
Proof.
  intros H. unfold node_perm. destruct ctx as [mk by_]. cbn. eexists. split.
  - f_equal. f_equal. destruct by_, cd, mk, raw, me; try reflexivity; discriminate.
  - destruct cs, mk, by_, raw, me, cd, rc; try reflexivity; discriminate.
Qed.

Lemma isolated_tree_records_nothing pol t ctx :
  root_isolated t = true -> Forall (fun r => r = false) (tree_records pol ctx false t).
Proof.
  destruct t as [cd remote opts res_cd ch]. cbn [root_isolated tree_records]. intros H.
  match goal with |- context [node_perm ctx ?a ?b ?c ?d ?e] =>
    destruct (node_perm_isolated ctx a b c d e H) as [m' [E F]]; rewrite E; rewrite F end.
  cbn [orb]. rewrite andb_false_r.
  constructor; [reflexivity|].
  induction ch as [|x r IHr]; cbn; [constructor|]. apply Forall_app. split; [apply bypass_records_nothing|exact IHr].
Qed.

(* what is recorded for the denial learnt at the root of a (sub)tree: its response must not have CD set,
   and its own writer or a writer above admits *)
Lemma records_head pol ctx above cd remote opts res_cd ch :
  exists p rest_p rest_r,
    tree_perms pol ctx (RNode cd remote opts res_cd ch) = p :: rest_p /\
    tree_records pol ctx above (RNode cd remote opts res_cd ch) = (negb res_cd && (above || dp_create p)) :: rest_r.
Proof.
  cbn [tree_perms tree_records].
  destruct (node_perm ctx cd _ _ res_cd _) as [ctx' p]. eexists. eexists. eexists. split; reflexivity.
Qed.

(* below a writer that admits, every denial whose proof has CD clear is recorded, whatever the flags of
   the nodes in between and of the node that learnt it (CD=1 sub-queries, inherited bypass included) *)
Lemma relayed_below_an_admitting_writer pol t : forall ctx,
  match t with RNode _ _ _ res_cd _ => hd true (tree_records pol ctx true t) = negb res_cd end.
Proof. destruct t as [cd remote opts res_cd ch]. intros ctx. cbn [tree_records]. destruct (node_perm _ _ _ _ _ _). cbn. rewrite andb_true_r. reflexivity. Qed.

(* the two trees of seeds 4 and 7 (session 5) and their counterpart: the leaf's own writer refuses
   (dp_create = false: CD=1 leaf / inherited bypass) and the denial is recorded all the same, through the
   first alias' / the root's writer; with the proof's own CD bit set nothing is recorded *)
Example relay_examples :
  let c := mk_ipb 16 42545467968902514347457477332583654727 in
  let i := mk_ipb 16 281472812450047 in
  let t4 := RNode false c None false [RNode false i (Some []) false [RNode false i (Some []) true [RNode true i (Some []) false []]]] in
  let t7 := RNode false c (Some []) false [RNode false i (Some []) true [RNode true i (Some []) false [RNode false i (Some []) false []]]] in
  let tc := RNode false c (Some []) false [RNode false i (Some []) false [RNode false i (Some []) true []]] in
  let pol := policy_of (mk_bargs true 0 0 0 0 []) in
  map dp_create (tree_perms pol (mk_dctx false false) t4) = [true; true; false; false] /\
  tree_records pol (mk_dctx false false) false t4 = [true; true; false; true] /\
  map dp_create (tree_perms pol (mk_dctx false false) t7) = [true; false; false; false] /\
  tree_records pol (mk_dctx false false) false t7 = [true; false; true; true] /\
  map dp_create (tree_perms pol (mk_dctx false false) tc) = [true; true; false] /\
  tree_records pol (mk_dctx false false) false tc = [true; true; false].
Proof. vm_compute. repeat split; reflexivity. Qed.

(* ------------------------------------------------------------------ the byte ladder *)
(* whatever the policy (also none at all): a wire-born query that carried a subnet option or CD gets
   nothing from the shared denial state on the byte ladder *)
Lemma wire_ladder_isolated rd has_ecs cd : has_ecs || cd = true -> denied (wire_ladder_perm rd has_ecs cd).
Proof. unfold denied, wire_ladder_perm. cbn. destruct rd, has_ecs, cd; cbn; intros H; try discriminate; auto. Qed.

(* what the root of a fresh tree may do in the decoded body, when the query carried no subnet option:
   nothing is forwarded, no request scope is derived, so only CD decides *)
Lemma root_perm_plain pol cd remote opts res_cd ch :
  match opts with Some l => has_ecs l | None => false end = false ->
  exists p rest, tree_perms pol (mk_dctx false false) (RNode cd remote opts res_cd ch) = p :: rest /\
                 dp_cut p = negb cd.
Proof.
  intros H. cbn [tree_perms]. unfold node_perm. cbn [dc_marker dc_bypass].
  assert (forwarded pol (addr_from_slice_unmap remote) opts = []) as HF.
  { unfold forwarded. destruct opts as [l|]; [|reflexivity]. apply new_opts_no_client_ecs. exact H. }
  rewrite HF, H. cbn [has_ecs existsb].
  assert (request_scope pol (addr_from_slice_unmap remote) (Some []) = None) as HR.
  { unfold request_scope. destruct (negb (allows pol (addr_from_slice_unmap remote))); reflexivity. }
  rewrite HR. eexists. eexists. split; [reflexivity|]. cbn. destruct cd; reflexivity.
Qed.

(* the byte ladder never allows more than the decoded body of the same call would: serving a
   wire-born query changes nothing about who may consume or create shared denials *)
Lemma wire_ladder_adds_nothing pol t : tree_perms_wire pol true t = tree_perms pol (mk_dctx false false) t.
Proof.
  destruct t as [cd remote opts res_cd ch]. unfold tree_perms_wire.
  destruct (match opts with Some l => has_ecs l | None => false end) eqn:ER.
  - destruct (tree_perms pol (mk_dctx false false) (RNode cd remote opts res_cd ch)) as [|p rest]; [reflexivity|].
    unfold wire_ladder_perm, dperm_or. cbn. destruct p; reflexivity.
  - destruct (root_perm_plain pol cd remote opts res_cd ch ER) as [p [rest [HP HC]]]. rewrite HP. clear HP.
    destruct p as [c pr cr]. cbn [dp_cut] in HC. subst c.
    unfold wire_ladder_perm, dperm_or. destruct cd; reflexivity.
Qed.

Lemma isolated_wire_tree_denied pol rd t : root_isolated t = true -> Forall denied (tree_perms_wire pol rd t).
Proof.
  intros H. pose proof (isolated_tree_denied pol t (mk_dctx false false) H) as HD.
  destruct t as [cd remote opts res_cd ch]. unfold tree_perms_wire.
  destruct (tree_perms pol (mk_dctx false false) (RNode cd remote opts res_cd ch)) as [|p rest]; [constructor|].
  inversion HD; subst. constructor; [|assumption].
  cbn [root_isolated] in H.
  pose proof (wire_ladder_isolated rd (match opts with Some l => has_ecs l | None => false end) cd) as HW.
  rewrite orb_comm in H. specialize (HW H).
  destruct H2 as [A [B C]]. destruct HW as [A' [B' C']]. unfold denied, dperm_or.
  cbn [dp_cut dp_proof dp_create]. rewrite A, B, C, A', B', C'. auto.
Qed.

(* ------------------------------------------------------------------ RFC 9520 failure state *)
(* why serving the SHARED failure entry to a subnet-bearing query is within the property: it is
   consulted only when no request scope is derived (or the /0 one: a source prefix of length 0 says
   nothing about the client), and then NOTHING of the client's address goes upstream for this query — its resolution is the one any client without the option would trigger,
   so the cached outcome of that resolution is as shared as a SCOPE-0 answer is *)
Lemma shared_failure_only_when_subnet_blind pol remote opts :
  failure_consults_shared pol remote opts = true ->
  forwarded pol (addr_from_slice_unmap remote) opts = [] \/
  exists f, forwarded pol (addr_from_slice_unmap remote) opts = [OEcs f] /\ e_mask f = 0.
Proof.
  unfold failure_consults_shared, forwarded. destruct opts as [l|]; [|left; reflexivity].
  destruct (new_opts_shape pol (addr_from_slice_unmap remote) l) as [E|[cs0 [f [E _]]]]; [intros _; left; exact E|].
  rewrite E. destruct (forwarded_ecs_has_request_scope pol (addr_from_slice_unmap remote) l f E) as [a [_ [HR _]]].
  rewrite HR. cbn [normalize_scope p_bits]. destruct (N.eqb_spec (e_mask f) 0) as [Z|NZ]; [|discriminate].
  intros _. right. exists f. split; [reflexivity|exact Z].
Qed.

(* conversely a query for which a subnet longer than /0 IS forwarded never gets the shared failure entry *)
Lemma forwarded_subnet_skips_shared_failure pol remote l f :
  new_opts pol (addr_from_slice_unmap remote) l = [OEcs f] -> e_mask f <> 0 ->
  failure_consults_shared pol remote (Some l) = false.
Proof.
  intros E NZ. unfold failure_consults_shared, forwarded. rewrite E.
  destruct (forwarded_ecs_has_request_scope pol (addr_from_slice_unmap remote) l f E) as [a [_ [HR _]]].
  rewrite HR. cbn [normalize_scope p_bits]. destruct (N.eqb_spec (e_mask f) 0); [contradiction|reflexivity].
Qed.

(* the failure rung of the byte ladder adds nothing to the decoded body *)
Lemma wire_failure_gate_refines pol remote opts rd :
  wire_failure_gate rd (match opts with Some l => has_ecs l | None => false end) = true ->
  failure_consults_shared pol remote opts = true.
Proof.
  unfold wire_failure_gate. destruct rd; [|discriminate]. cbn [andb].
  destruct (match opts with Some l => has_ecs l | None => false end) eqn:E; [discriminate|]. intros _.
  unfold failure_consults_shared, forwarded.
  assert (match opts with Some l => new_opts pol (addr_from_slice_unmap remote) l | None => [] end = []) as HF.
  { destruct opts as [l|]; [|reflexivity]. apply new_opts_no_client_ecs. exact E. }
  rewrite HF. unfold request_scope. destruct (negb (allows pol (addr_from_slice_unmap remote))); reflexivity.
Qed.

Example shared_failure_example :
  (* no policy: a subnet-bearing query consults the shared failure entry; policy on: it does not *)
  failure_consults_shared None (mk_ipb 4 3405803853) (Some [OEcs (mk_ecs 1 24 0 (mk_ipb 4 3405803776))]) = true /\
  failure_consults_shared (Some (mk_policy true 24 56 [] 24 56)) (mk_ipb 4 3405803853)
                          (Some [OEcs (mk_ecs 1 24 0 (mk_ipb 4 3405803776))]) = false.
Proof. vm_compute. split; reflexivity. Qed.
