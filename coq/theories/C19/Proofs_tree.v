(* C19 — the shared-denial bypass flag through request trees of any shape and depth. *)
From Sdns Require Import Common.Base Gen.C19 C19.Model.
Open Scope N_scope.

Section rtree_induction.
  Variable P : rtree -> Prop.
  Hypothesis Hnode : forall cd remote opts res_cd ch, Forall P ch -> P (RNode cd remote opts res_cd ch).
  Fixpoint rtree_ind2 (t : rtree) : P t :=
    match t with
    | RNode cd remote opts res_cd ch =>
        Hnode cd remote opts res_cd ch
          ((fix go (l : list rtree) : Forall P l :=
              match l with
              | [] => Forall_nil P
              | x :: r => Forall_cons x (rtree_ind2 x) (go r)
              end) ch)
    end.
End rtree_induction.

Definition denied (p : dperm) : Prop := dp_cut p = false /\ dp_proof p = false /\ dp_create p = false.

(* once the bypass flag is on the context, no node below may consume or create shared denials,
   whatever its own CD bit, options, client or response look like *)
Lemma bypass_is_inherited pol t : forall m, Forall denied (tree_perms pol (mk_dctx m true) t).
Proof.
  induction t as [cd remote opts res_cd ch IH] using rtree_ind2. intros m. cbn [tree_perms].
  unfold node_perm. cbn [dc_marker dc_bypass]. rewrite !orb_true_r. cbn [negb andb orb].
  constructor.
  - unfold denied. cbn. rewrite !andb_false_r. auto.
  - induction ch as [|x r IHr]; cbn; [constructor|].
    inversion IH; subst. apply Forall_app. split; [apply H1|apply IHr; assumption].
Qed.

Definition root_isolated (t : rtree) : bool :=
  match t with RNode cd _ opts _ _ => cd || match opts with Some l => has_ecs l | None => false end end.

Lemma isolated_tree_denied pol t ctx : root_isolated t = true -> Forall denied (tree_perms pol ctx t).
Proof.
  destruct t as [cd remote opts res_cd ch]. cbn [root_isolated tree_perms]. intros H.
  unfold node_perm.
  set (raw := match opts with Some l => has_ecs l | None => false end) in *.
  set (msg := has_ecs _). set (cs := match request_scope _ _ _ with Some _ => true | None => false end).
  assert (dc_bypass ctx || cd || (dc_marker ctx || raw || msg) = true) as HB.
  { destruct cd; cbn in H; [rewrite orb_true_r; reflexivity|]. rewrite H. rewrite !orb_true_r. reflexivity. }
  rewrite HB. constructor.
  - unfold denied. cbn. rewrite !orb_true_r. cbn. rewrite !andb_false_r. auto.
  - induction ch as [|x r IHr]; cbn; [constructor|]. apply Forall_app. split; [apply bypass_is_inherited|exact IHr].
Qed.
