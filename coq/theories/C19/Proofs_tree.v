(* C19 — the shared-denial bypass flag through request trees of any shape and depth. *)
From Sdns Require Import Common.Base Gen.C19 C19.Model C19.Proofs_edns.
Open Scope N_scope.

Section rtree_induction.
  Variable P : rtree -> Prop.
  Hypothesis Hnode : forall cd remote opts res_cd ch, Forall P ch -> P (RNode cd remote opts res_cd ch).
  Fixpoint rtree_ind2 (t : rtree) : P t :=
    match t with
    | RNode cd remote opts res_cd ch =>
        Hnode cd remote opts res_cd ch
          ((fix go (l : list rtree) : Forall P l :=
              match l with
              | [] => Forall_nil P
              | x :: r => Forall_cons x (rtree_ind2 x) (go r)
              end) ch)
    end.
End rtree_induction.

Definition denied (p : dperm) : Prop := dp_cut p = false /\ dp_proof p = false /\ dp_create p = false.

(* once the bypass flag is on the context, no node below may consume or create shared denials,
   whatever its own CD bit, options, client or response look like *)
Lemma bypass_is_inherited pol t : forall m, Forall denied (tree_perms pol (mk_dctx m true) t).
Proof.
  induction t as [cd remote opts res_cd ch IH] using rtree_ind2. intros m. cbn [tree_perms].
  unfold node_perm. cbn [dc_marker dc_bypass]. rewrite !orb_true_r. cbn [negb andb orb].
  constructor.
  - unfold denied. cbn. rewrite !andb_false_r. auto.
  - induction ch as [|x r IHr]; cbn; [constructor|].
    inversion IH; subst. apply Forall_app. split; [apply H1|apply IHr; assumption].
Qed.

Definition root_isolated (t : rtree) : bool :=
  match t with RNode cd _ opts _ _ => cd || match opts with Some l => has_ecs l | None => false end end.

Lemma isolated_tree_denied pol t ctx : root_isolated t = true -> Forall denied (tree_perms pol ctx t).
Proof.
  destruct t as [cd remote opts res_cd ch]. cbn [root_isolated tree_perms]. intros H.
  unfold node_perm.
  set (raw := match opts with Some l => has_ecs l | None => false end) in *.
  set (msg := has_ecs _). set (cs := match request_scope _ _ _ with Some _ => true | None => false end).
  assert (dc_bypass ctx || cd || (dc_marker ctx || raw || msg) = true) as HB.
  { destruct cd; cbn in H; [rewrite orb_true_r; reflexivity|]. rewrite H. rewrite !orb_true_r. reflexivity. }
  rewrite HB. constructor.
  - unfold denied. cbn. rewrite !orb_true_r. cbn. rewrite !andb_false_r. auto.
  - induction ch as [|x r IHr]; cbn; [constructor|]. apply Forall_app. split; [apply bypass_is_inherited|exact IHr].
Qed.

(* ------------------------------------------------------------------ the byte ladder *)
(* whatever the policy (also none at all): a wire-born query that carried a subnet option or CD gets
   nothing from the shared denial state on the byte ladder *)
Lemma wire_ladder_isolated rd has_ecs cd : has_ecs || cd = true -> denied (wire_ladder_perm rd has_ecs cd).
Proof. unfold denied, wire_ladder_perm. cbn. destruct rd, has_ecs, cd; cbn; intros H; try discriminate; auto. Qed.

(* what the root of a fresh tree may do in the decoded body, when the query carried no subnet option:
   nothing is forwarded, no request scope is derived, so only CD decides *)
Lemma root_perm_plain pol cd remote opts res_cd ch :
  match opts with Some l => has_ecs l | None => false end = false ->
  exists p rest, tree_perms pol (mk_dctx false false) (RNode cd remote opts res_cd ch) = p :: rest /\
                 dp_cut p = negb cd.
Proof.
  intros H. cbn [tree_perms]. unfold node_perm. cbn [dc_marker dc_bypass].
  assert (forwarded pol (addr_from_slice_unmap remote) opts = []) as HF.
  { unfold forwarded. destruct opts as [l|]; [|reflexivity]. apply new_opts_no_client_ecs. exact H. }
  rewrite HF, H. cbn [has_ecs existsb].
  assert (request_scope pol (addr_from_slice_unmap remote) (Some []) = None) as HR.
  { unfold request_scope. destruct (negb (allows pol (addr_from_slice_unmap remote))); reflexivity. }
  rewrite HR. eexists. eexists. split; [reflexivity|]. cbn. destruct cd; reflexivity.
Qed.

(* the byte ladder never allows more than the decoded body of the same call would: serving a
   wire-born query changes nothing about who may consume or create shared denials *)
Lemma wire_ladder_adds_nothing pol t : tree_perms_wire pol true t = tree_perms pol (mk_dctx false false) t.
Proof.
  destruct t as [cd remote opts res_cd ch]. unfold tree_perms_wire.
  destruct (match opts with Some l => has_ecs l | None => false end) eqn:ER.
  - destruct (tree_perms pol (mk_dctx false false) (RNode cd remote opts res_cd ch)) as [|p rest]; [reflexivity|].
    unfold wire_ladder_perm, dperm_or. cbn. destruct p; reflexivity.
  - destruct (root_perm_plain pol cd remote opts res_cd ch ER) as [p [rest [HP HC]]]. rewrite HP. clear HP.
    destruct p as [c pr cr]. cbn [dp_cut] in HC. subst c.
    unfold wire_ladder_perm, dperm_or. destruct cd; reflexivity.
Qed.

Lemma isolated_wire_tree_denied pol rd t : root_isolated t = true -> Forall denied (tree_perms_wire pol rd t).
Proof.
  intros H. pose proof (isolated_tree_denied pol t (mk_dctx false false) H) as HD.
  destruct t as [cd remote opts res_cd ch]. unfold tree_perms_wire.
  destruct (tree_perms pol (mk_dctx false false) (RNode cd remote opts res_cd ch)) as [|p rest]; [constructor|].
  inversion HD; subst. constructor; [|assumption].
  cbn [root_isolated] in H.
  pose proof (wire_ladder_isolated rd (match opts with Some l => has_ecs l | None => false end) cd) as HW.
  rewrite orb_comm in H. specialize (HW H).
  destruct H2 as [A [B C]]. destruct HW as [A' [B' C']]. unfold denied, dperm_or.
  cbn [dp_cut dp_proof dp_create]. rewrite A, B, C, A', B', C'. auto.
Qed.
