(* C19 — the shared-denial bypass flag through request trees of any shape and depth. *)
From Sdns Require Import Common.Base Gen.C19 C19.Model C19.Proofs_edns.
Open Scope N_scope.

Section rtree_induction.
  Variable P : rtree -> Prop.
  Hypothesis Hnode : forall cd remote opts res_cd ch, Forall P ch -> P (RNode cd remote opts res_cd ch).
  Fixpoint rtree_ind2 (t : rtree) : P t :=
    match t with
    | RNode cd remote opts res_cd ch =>
        Hnode cd remote opts res_cd ch
          ((fix go (l : list rtree) : Forall P l :=
              match l with
              | [] => Forall_nil P
              | x :: r => Forall_cons x (rtree_ind2 x) (go r)
              end) ch)
    end.
End rtree_induction.

Definition denied (p : dperm) : Prop := dp_cut p = false /\ dp_proof p = false /\ dp_create p = false.

(* once the bypass flag is on the context, no node below may consume or create shared denials,
   whatever its own CD bit, options, client or response look like *)
Lemma bypass_is_inherited pol t : forall m, Forall denied (tree_perms pol (mk_dctx m true) t).
Proof.
  induction t as [cd remote opts res_cd ch IH] using rtree_ind2. intros m. cbn [tree_perms].
  unfold node_perm. cbn [dc_marker dc_bypass]. rewrite !orb_true_r. cbn [negb andb orb].
  constructor.
  - unfold denied. cbn. rewrite !andb_false_r. auto.
  - induction ch as [|x r IHr]; cbn; [constructor|].
    inversion IH; subst. apply Forall_app. split; [apply H1|apply IHr; assumption].
Qed.

Definition root_isolated (t : rtree) : bool :=
  match t with RNode cd _ opts _ _ => cd || match opts with Some l => has_ecs l | None => false end end.

Lemma isolated_tree_denied pol t ctx : root_isolated t = true -> Forall denied (tree_perms pol ctx t).
Proof.
  destruct t as [cd remote opts res_cd ch]. cbn [root_isolated tree_perms]. intros H.
  unfold node_perm.
  set (raw := match opts with Some l => has_ecs l | None => false end) in *.
  set (msg := has_ecs _). set (cs := match request_scope _ _ _ with Some _ => true | None => false end).
  assert (dc_bypass ctx || cd || (dc_marker ctx || raw || msg) = true) as HB.
  { destruct cd; cbn in H; [rewrite orb_true_r; reflexivity|]. rewrite H. rewrite !orb_true_r. reflexivity. }
  rewrite HB. constructor.
  - unfold denied. cbn. rewrite !orb_true_r. cbn. rewrite !andb_false_r. auto.
  - induction ch as [|x r IHr]; cbn; [constructor|]. apply Forall_app. split; [apply bypass_is_inherited|exact IHr].
Qed.

(* ------------------------------------------------------------------ the byte ladder *)
(* whatever the policy (also none at all): a wire-born query that carried a subnet option or CD gets
   nothing from the shared denial state on the byte ladder *)
Lemma wire_ladder_isolated rd has_ecs cd : has_ecs || cd = true -> denied (wire_ladder_perm rd has_ecs cd).
Proof. unfold denied, wire_ladder_perm. cbn. destruct rd, has_ecs, cd; cbn; intros H; try discriminate; auto. Qed.

(* what the root of a fresh tree may do in the decoded body, when the query carried no subnet option:
   nothing is forwarded, no request scope is derived, so only CD decides *)
Lemma root_perm_plain pol cd remote opts res_cd ch :
  match opts with Some l => has_ecs l | None => false end = false ->
  exists p rest, tree_perms pol (mk_dctx false false) (RNode cd remote opts res_cd ch) = p :: rest /\
                 dp_cut p = negb cd.
Proof.
  intros H. cbn [tree_perms]. unfold node_perm. cbn [dc_marker dc_bypass].
  assert (forwarded pol (addr_from_slice_unmap remote) opts = []) as HF.
  { unfold forwarded. destruct opts as [l|]; [|reflexivity]. apply new_opts_no_client_ecs. exact H. }
  rewrite HF, H. cbn [has_ecs existsb].
  assert (request_scope pol (addr_from_slice_unmap remote) (Some []) = None) as HR.
  { unfold request_scope. destruct (negb (allows pol (addr_from_slice_unmap remote))); reflexivity. }
  rewrite HR. eexists. eexists. split; [reflexivity|]. cbn. destruct cd; reflexivity.
Qed.

(* the byte ladder never allows more than the decoded body of the same call would: serving a
   wire-born query changes nothing about who may consume or create shared denials *)
Lemma wire_ladder_adds_nothing pol t : tree_perms_wire pol true t = tree_perms pol (mk_dctx false false) t.
Proof.
  destruct t as [cd remote opts res_cd ch]. unfold tree_perms_wire.
  destruct (match opts with Some l => has_ecs l | None => false end) eqn:ER.
  - destruct (tree_perms pol (mk_dctx false false) (RNode cd remote opts res_cd ch)) as [|p rest]; [reflexivity|].
    unfold wire_ladder_perm, dperm_or. cbn. destruct p; reflexivity.
  - destruct (root_perm_plain pol cd remote opts res_cd ch ER) as [p [rest [HP HC]]]. rewrite HP. clear HP.
    destruct p as [c pr cr]. cbn [dp_cut] in HC. subst c.
    unfold wire_ladder_perm, dperm_or. destruct cd; reflexivity.
Qed.

Lemma isolated_wire_tree_denied pol rd t : root_isolated t = true -> Forall denied (tree_perms_wire pol rd t).
Proof.
  intros H. pose proof (isolated_tree_denied pol t (mk_dctx false false) H) as HD.
  destruct t as [cd remote opts res_cd ch]. unfold tree_perms_wire.
  destruct (tree_perms pol (mk_dctx false false) (RNode cd remote opts res_cd ch)) as [|p rest]; [constructor|].
  inversion HD; subst. constructor; [|assumption].
  cbn [root_isolated] in H.
  pose proof (wire_ladder_isolated rd (match opts with Some l => has_ecs l | None => false end) cd) as HW.
  rewrite orb_comm in H. specialize (HW H).
  destruct H2 as [A [B C]]. destruct HW as [A' [B' C']]. unfold denied, dperm_or.
  cbn [dp_cut dp_proof dp_create]. rewrite A, B, C, A', B', C'. auto.
Qed.

(* ------------------------------------------------------------------ RFC 9520 failure state *)
(* why serving the SHARED failure entry to a subnet-bearing query is within the property: it is
   consulted only when no request scope is derived (or the /0 one: a source prefix of length 0 says
   nothing about the client), and then NOTHING of the client's address goes upstream for this query — its resolution is the one any client without the option would trigger,
   so the cached outcome of that resolution is as shared as a SCOPE-0 answer is *)
Lemma shared_failure_only_when_subnet_blind pol remote opts :
  failure_consults_shared pol remote opts = true ->
  forwarded pol (addr_from_slice_unmap remote) opts = [] \/
  exists f, forwarded pol (addr_from_slice_unmap remote) opts = [OEcs f] /\ e_mask f = 0.
Proof.
  unfold failure_consults_shared, forwarded. destruct opts as [l|]; [|left; reflexivity].
  destruct (new_opts_shape pol (addr_from_slice_unmap remote) l) as [E|[cs0 [f [E _]]]]; [intros _; left; exact E|].
  rewrite E. destruct (forwarded_ecs_has_request_scope pol (addr_from_slice_unmap remote) l f E) as [a [_ [HR _]]].
  rewrite HR. cbn [normalize_scope p_bits]. destruct (N.eqb_spec (e_mask f) 0) as [Z|NZ]; [|discriminate].
  intros _. right. exists f. split; [reflexivity|exact Z].
Qed.

(* conversely a query for which a subnet longer than /0 IS forwarded never gets the shared failure entry *)
Lemma forwarded_subnet_skips_shared_failure pol remote l f :
  new_opts pol (addr_from_slice_unmap remote) l = [OEcs f] -> e_mask f <> 0 ->
  failure_consults_shared pol remote (Some l) = false.
Proof.
  intros E NZ. unfold failure_consults_shared, forwarded. rewrite E.
  destruct (forwarded_ecs_has_request_scope pol (addr_from_slice_unmap remote) l f E) as [a [_ [HR _]]].
  rewrite HR. cbn [normalize_scope p_bits]. destruct (N.eqb_spec (e_mask f) 0); [contradiction|reflexivity].
Qed.

(* the failure rung of the byte ladder adds nothing to the decoded body *)
Lemma wire_failure_gate_refines pol remote opts rd :
  wire_failure_gate rd (match opts with Some l => has_ecs l | None => false end) = true ->
  failure_consults_shared pol remote opts = true.
Proof.
  unfold wire_failure_gate. destruct rd; [|discriminate]. cbn [andb].
  destruct (match opts with Some l => has_ecs l | None => false end) eqn:E; [discriminate|]. intros _.
  unfold failure_consults_shared, forwarded.
  assert (match opts with Some l => new_opts pol (addr_from_slice_unmap remote) l | None => [] end = []) as HF.
  { destruct opts as [l|]; [|reflexivity]. apply new_opts_no_client_ecs. exact E. }
  rewrite HF. unfold request_scope. destruct (negb (allows pol (addr_from_slice_unmap remote))); reflexivity.
Qed.

Example shared_failure_example :
  (* no policy: a subnet-bearing query consults the shared failure entry; policy on: it does not *)
  failure_consults_shared None (mk_ipb 4 3405803853) (Some [OEcs (mk_ecs 1 24 0 (mk_ipb 4 3405803776))]) = true /\
  failure_consults_shared (Some (mk_policy true 24 56 [] 24 56)) (mk_ipb 4 3405803853)
                          (Some [OEcs (mk_ecs 1 24 0 (mk_ipb 4 3405803776))]) = false.
Proof. vm_compute. split; reflexivity. Qed.
