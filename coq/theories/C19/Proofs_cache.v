(* C19 — cache: scoped probe, audience invariant over histories, TTL cap, no refresh of scoped
   entries; the refresh that carries a subnet option breaks the audience rule (refuted witness). *)
From Sdns Require Import Common.Base Gen.C19 C19.Model C19.Proofs_arith C19.Proofs_policy C19.Proofs_edns.
Open Scope N_scope.

(* ------------------------------------------------------------------ keys *)
Lemma pfx_eqb_eq a b : pfx_eqb a b = true -> a = b.
Proof.
  unfold pfx_eqb. destruct a as [a4 av ab], b as [b4 bv bb]; cbn. intros H.
  apply andb_prop in H. destruct H as [H H3]. apply andb_prop in H. destruct H as [H1 H2].
  apply eqb_prop in H1. apply N.eqb_eq in H2. apply N.eqb_eq in H3. subst. reflexivity.
Qed.
Lemma opfx_eqb_eq a b : opfx_eqb a b = true -> a = b.
Proof. destruct a, b; cbn; intros H; try discriminate; [f_equal; apply pfx_eqb_eq; exact H|reflexivity]. Qed.

Lemma st_lookup_sound st q cd sc e : st_lookup st q cd sc = Some e ->
  In e st /\ ce_q e = q /\ ce_cd e = cd /\ ce_scope e = sc.
Proof.
  unfold st_lookup. intros H. apply find_some in H. destruct H as [Hin Hk]. unfold key_eq in Hk.
  apply andb_prop in Hk. destruct Hk as [Hk H3]. apply andb_prop in Hk. destruct Hk as [H1 H2].
  apply N.eqb_eq in H1. apply eqb_prop in H2. apply opfx_eqb_eq in H3. auto.
Qed.

Lemma in_st_insert st e x : In x (st_insert st e) -> x = e \/ In x st.
Proof.
  unfold st_insert. intros [H|H]; [left; auto|right]. apply filter_In in H. tauto.
Qed.

(* ------------------------------------------------------------------ the scoped probe *)
(* the client's forwarded prefix [cs] lies inside the scope [sc] *)
Definition inside_p (cs : option pfx) (sc : pfx) : Prop :=
  exists cp, cs = Some cp /\ p_is4 cp = p_is4 sc /\ 1 <= p_bits sc /\ p_bits sc <= p_bits cp /\
             p_val cp / 2 ^ (awidth (p_is4 sc) - p_bits sc) = p_val sc / 2 ^ (awidth (p_is4 sc) - p_bits sc).

Lemma probe_sound st q cd a n e sc : probe st q cd a n = Some (e, sc) ->
  In e st /\ ce_q e = q /\ ce_cd e = cd /\ ce_scope e = Some sc /\
  exists k, 1 <= k /\ k <= N.of_nat n /\ addr_prefix a k = Some sc.
Proof.
  induction n as [|n IH]; [discriminate|]. cbn [probe].
  destruct (addr_prefix a (N.of_nat (S n))) as [sc'|] eqn:EP.
  - destruct (st_lookup st q cd (Some sc')) as [e'|] eqn:EL.
    + intros H. inversion H; subst e' sc'. apply st_lookup_sound in EL.
      destruct EL as [H1 [H2 [H3 H4]]]. repeat split; auto.
      exists (N.of_nat (S n)). repeat split; try lia. exact EP.
    + intros H. destruct (IH H) as [H1 [H2 [H3 [H4 [k [K1 [K2 K3]]]]]]]. repeat split; auto. exists k. repeat split; auto; lia.
  - intros H. destruct (IH H) as [H1 [H2 [H3 [H4 [k [K1 [K2 K3]]]]]]]. repeat split; auto. exists k. repeat split; auto; lia.
Qed.

(* a scoped hit: the entry is filed under a scope that contains the client's forwarded prefix *)
Lemma scoped_lookup_inside st q cd cs e sc : scoped_lookup st q cd cs = Some (e, sc) ->
  In e st /\ ce_q e = q /\ ce_cd e = cd /\ ce_scope e = Some sc /\ inside_p cs sc.
Proof.
  unfold scoped_lookup. destruct cs as [cp|]; [|discriminate]. intros H.
  apply probe_sound in H. destruct H as [H1 [H2 [H3 [H4 [k [K1 [K2 K3]]]]]]]. repeat split; auto.
  apply addr_prefix_some in K3. cbn in K3. destruct K3 as [Kw [Kf [Kb Kv]]].
  exists cp. repeat split; auto; try lia.
  rewrite Kf, Kv, Kb. symmetry. apply mask_val_net_kept.
Qed.

(* ------------------------------------------------------------------ effective audience (ghost) *)
(* the audience of the answer an entry holds, from what the authority declared and what was
   forwarded when it was fetched: the declared scope cut to min(declared, forwarded, floor) bits;
   None = everyone *)
Definition effective (pol : option policy) (e : centry) : option pfx :=
  match ce_src e with
  | Some _ => match ce_auth e with
              | Some A => normalize_scope (clamp_scope pol (Some A) (ce_src e))
              | None => None
              end
  | None => None
  end.

Definition inv (pol : option policy) (ecs_max : Z) (st : store) : Prop :=
  forall e, In e st ->
    ce_scope e = effective pol e /\
    (forall sS, ce_scope e = Some sS -> (0 < ecs_max)%Z -> (ce_ttl e <= ecs_max)%Z).

Lemma inv_nil pol m : inv pol m [].
Proof. intros e []. Qed.

Lemma request_scope_needs_policy client opts : request_scope None client opts = None.
Proof. reflexivity. Qed.

Lemma request_scope_nil p client : request_scope p client (Some []) = None.
Proof. unfold request_scope. destruct (allows p client); reflexivity. Qed.

(* the refresh request has its subnet options removed, so nothing is re-attached for it *)
Lemma refresh_is_blind p client l : new_opts p client (filter (fun o => negb (is_ecs o)) l) = [].
Proof.
  apply new_opts_no_client_ecs. unfold has_ecs.
  induction l as [|x l IH]; [reflexivity|]. cbn. destruct (is_ecs x) eqn:E; cbn; [exact IH|]. rewrite E. exact IH.
Qed.

Definition req_scope_of (c : ccfg) (qy : query) : option pfx :=
  let pol := policy_of (c_b c) in
  let client := addr_from_slice_unmap (q_remote qy) in
  request_scope pol client (Some (forwarded pol client (q_opts qy))).

(* what one step guarantees *)
Definition step_ok (c : ccfg) (st : store) (qy : query) (ob : obs) : Prop :=
  let pol := policy_of (c_b c) in
  (* a hit serves a stored answer to the same question, and the client is inside its audience *)
  (ob_src ob <> 0 ->
     exists e, In e st /\ ce_ans e = ob_ans ob /\ ce_q e = q_name qy /\ ce_cd e = q_cd qy /\
               match effective pol e with
               | Some sS => ob_src ob = 1 /\ inside_p (req_scope_of c qy) sS
               | None => ob_src ob = 2
               end) /\
  (* only an entry everyone may see is refreshed in the background *)
  (ob_refresh ob <> None -> ob_src ob = 2) /\
  (* a query without a request scope is never given a scoped entry *)
  (req_scope_of c qy = None -> ob_src ob <> 1).

Lemma cap_ttl_le ecs_max ttl : (0 < ecs_max)%Z -> (cap_ttl true ecs_max ttl <= ecs_max)%Z.
Proof.
  intros H. unfold cap_ttl. cbn.
  destruct (Z.ltb_spec 0 ecs_max); [|lia]. cbn. destruct (Z.ltb_spec ecs_max ttl); lia.
Qed.

Lemma serve_sound c st qy up aged rf st' ob :
  inv (policy_of (c_b c)) (c_ecs_max c) st ->
  serve c st qy up aged rf = (st', ob) ->
  inv (policy_of (c_b c)) (c_ecs_max c) st' /\ step_ok c st qy ob.
Proof.
  intros HI. unfold serve.
  set (pol := policy_of (c_b c)) in *.
  set (client := addr_from_slice_unmap (q_remote qy)) in *.
  set (fw := forwarded pol client (q_opts qy)) in *.
  assert (req_scope_of c qy = request_scope pol client (Some fw)) as ERS by reflexivity.
  set (cs := request_scope pol client (Some fw)) in *.
  destruct (scoped_lookup st (q_name qy) (q_cd qy) cs) as [[e sc]|] eqn:ES.
  - (* scoped hit *)
    apply scoped_lookup_inside in ES. destruct ES as [Hin [Hq [Hcd [Hsc Hins]]]].
    assert (prefetch_eligible e = false) as HPE by (unfold prefetch_eligible; rewrite Hsc; reflexivity).
    rewrite HPE, !andb_false_r. intros H. inversion H; subst st' ob; clear H. split; [exact HI|].
    unfold step_ok; cbn; fold pol. repeat split.
    + intros _. exists e. repeat split; auto. destruct (HI e Hin) as [HE _]. rewrite <- HE, Hsc. rewrite ERS. auto.
    + intros H. exfalso. apply H. reflexivity.
    + intros HN. rewrite ERS in HN. destruct Hins as [cp [Hcp _]]. congruence.
  - destruct (st_lookup st (q_name qy) (q_cd qy) None) as [e|] eqn:EL.
    + (* shared hit *)
      apply st_lookup_sound in EL. destruct EL as [Hin [Hq [Hcd Hsc]]].
      assert (step_ok c st qy (mk_obs 2 (ce_ans e) None None None) /\
              forall r, step_ok c st qy (mk_obs 2 (ce_ans e) None None (Some r))) as [HS1 HS2].
      { split; [|intros r]; unfold step_ok; cbn; fold pol; repeat split; try discriminate; try (intros; reflexivity).
        - intros _. exists e. repeat split; auto. destruct (HI e Hin) as [HE _]. rewrite <- HE, Hsc. reflexivity.
        - intros _. exists e. repeat split; auto. destruct (HI e Hin) as [HE _]. rewrite <- HE, Hsc. reflexivity. }
      destruct (c_prefetch c && aged && prefetch_eligible e) eqn:EPF.
      * intros H. inversion H; subst st' ob; clear H. split; [|apply HS2].
        (* the refreshed entry keeps the shared key; nothing was forwarded for it *)
        pose proof (refresh_is_blind pol internal_client fw) as HNO.
        intros x Hx. apply in_st_insert in Hx. destruct Hx as [Hx|Hx]; [|apply HI; exact Hx].
        subst x. cbn. unfold effective. cbn. rewrite HNO. rewrite request_scope_nil. rewrite Hsc.
        split; [reflexivity|]. intros sS HS. discriminate.
      * intros H. inversion H; subst st' ob; clear H. split; [exact HI|apply HS1].
    + (* miss *)
      intros H. inversion H; subst st' ob; clear H. split.
      * intros x Hx. apply in_st_insert in Hx. destruct Hx as [Hx|Hx]; [|apply HI; exact Hx].
        subst x. cbn. unfold effective. cbn.
        destruct cs as [s|] eqn:ECS.
        -- destruct (response_audience (u_opts up) (Some s)) as [rs|] eqn:ER.
           ++ split; [reflexivity|]. intros sS HS Hpos. rewrite HS. unfold entry_ttl. apply cap_ttl_le. exact Hpos.
           ++ split; [reflexivity|]. intros sS HS. discriminate.
        -- split; [reflexivity|]. intros sS HS. discriminate.
      * unfold step_ok; cbn; fold pol. repeat split; try (intros H; exfalso; apply H; reflexivity). intros _. discriminate.
Qed.

(* histories *)
Fixpoint run_ok (c : ccfg) (st : store) (ops : list cop) : Prop :=
  match ops with
  | [] => True
  | o :: r =>
      let '(st', ob) := serve c st (co_q o) (co_up o) (co_aged o) (co_rf o) in
      step_ok c st (co_q o) ob /\ run_ok c st' r
  end.

Lemma run_sound c ops : forall st,
  inv (policy_of (c_b c)) (c_ecs_max c) st -> run_ok c st ops.
Proof.
  induction ops as [|o r IH]; intros st HI; [exact I|]. cbn.
  destruct (serve c st (co_q o) (co_up o) (co_aged o) (co_rf o)) as [st' ob] eqn:ES.
  destruct (serve_sound _ _ _ _ _ _ _ _ HI ES) as [HI' HS].
  split; [exact HS|]. apply IH; assumption.
Qed.

(* the invariant itself along any history: every entry is filed under exactly the audience of the
   answer it holds *)
Lemma run_inv c ops : forall st,
  inv (policy_of (c_b c)) (c_ecs_max c) st -> inv (policy_of (c_b c)) (c_ecs_max c) (fst (run c st ops)).
Proof.
  induction ops as [|o r IH]; intros st HI; [exact HI|]. cbn.
  destruct (serve c st (co_q o) (co_up o) (co_aged o) (co_rf o)) as [st' ob] eqn:ES.
  destruct (serve_sound _ _ _ _ _ _ _ _ HI ES) as [HI' _].
  specialize (IH st' HI'). destruct (run c st' r) as [st'' obs]. exact IH.
Qed.

(* the refresh sends no subnet option upstream *)
Lemma refresh_upstream_sees_no_subnet c st qy up aged rf st' ob x :
  serve c st qy up aged rf = (st', ob) -> ob_refresh ob = Some x -> x = None.
Proof.
  unfold serve.
  destruct (scoped_lookup st (q_name qy) (q_cd qy) _) as [[e0 sc]|].
  - destruct (c_prefetch c && aged && prefetch_eligible e0); intros H Hr; inversion H; subst ob; cbn in Hr.
    + rewrite refresh_is_blind in Hr. inversion Hr. reflexivity.
    + discriminate.
  - destruct (st_lookup st (q_name qy) (q_cd qy) None) as [e0|].
    + destruct (c_prefetch c && aged && prefetch_eligible e0); intros H Hr; inversion H; subst ob; cbn in Hr.
      * rewrite refresh_is_blind in Hr. inversion Hr. reflexivity.
      * discriminate.
    + intros H Hr. inversion H; subst ob. discriminate.
Qed.

(* what "effective" means in terms of the declared scope, the forwarded source and the floor *)
Lemma effective_bits p e sS :
  effective (Some p) e = Some sS ->
  exists A s, ce_auth e = Some A /\ ce_src e = Some s /\
    (p_bits A <= awidth (p_is4 A) ->
       p_is4 sS = p_is4 A /\ 1 <= p_bits sS /\
       p_bits sS = N.min (p_bits A) (N.min (p_bits s) (floor_bits p (p_is4 A))) /\
       p_val sS = mask_val (p_is4 A) (p_val A) (p_bits sS)).
Proof.
  unfold effective. destruct (ce_src e) as [s|] eqn:ES; [|discriminate].
  destruct (ce_auth e) as [A|] eqn:EA; [|discriminate].
  intros H. exists A, s. repeat split; try reflexivity.
  all: destruct (clamp_scope (Some p) (Some A) (Some s)) as [r|] eqn:EC; [|discriminate];
       apply clamp_scope_wf in EC; [|assumption]; destruct EC as [C1 [C2 C3]];
       cbn in H; destruct (N.eqb_spec (p_bits r) 0) as [Z|NZ]; [discriminate|]; inversion H; subst sS; cbn.
  - exact C1.
  - lia.
  - exact C2.
  - rewrite C1, C3. apply mask_val_idem; [lia|]. rewrite C2. lia.
Qed.

(* scoped entries: TTL capped, never refreshed *)
Lemma scoped_ttl_capped_lemma c st e sS :
  inv (policy_of (c_b c)) (c_ecs_max c) st -> In e st -> ce_scope e = Some sS ->
  (0 < c_ecs_max c)%Z -> (ce_ttl e <= c_ecs_max c)%Z.
Proof. intros HI Hin HS Hpos. destruct (HI e Hin) as [_ H]. eapply H; eassumption. Qed.

Lemma scoped_not_eligible e sS : ce_scope e = Some sS -> prefetch_eligible e = false.
Proof. intros H. unfold prefetch_eligible. rewrite H. reflexivity. Qed.

(* a refresh never touches a scoped entry: they are exactly the same before and after any step *)
Lemma serve_keeps_scoped c st qy up aged rf st' ob e sS :
  serve c st qy up aged rf = (st', ob) -> ob_src ob <> 0 ->
  In e st -> ce_scope e = Some sS -> In e st'.
Proof.
  unfold serve.
  destruct (scoped_lookup st (q_name qy) (q_cd qy) _) as [[e0 sc]|] eqn:ES.
  - destruct (c_prefetch c && aged && prefetch_eligible e0) eqn:EP.
    + apply scoped_lookup_inside in ES. destruct ES as [_ [_ [_ [Hsc _]]]].
      rewrite (scoped_not_eligible e0 sc Hsc), !andb_false_r in EP. discriminate.
    + intros H. inversion H; subst. auto.
  - destruct (st_lookup st (q_name qy) (q_cd qy) None) as [e0|] eqn:EL.
    + destruct (c_prefetch c && aged && prefetch_eligible e0) eqn:EP.
      * intros H _ Hin HS. inversion H; subst st' ob; clear H.
        apply st_lookup_sound in EL. destruct EL as [_ [_ [_ Hsc0]]].
        unfold st_insert. right. apply filter_In. split; [exact Hin|]. cbn.
        unfold key_eq. rewrite Hsc0, HS. cbn. rewrite andb_false_r. reflexivity.
      * intros H. inversion H; subst. auto.
    + intros H Hne. inversion H; subst ob. cbn in Hne. congruence.
Qed.

(* ------------------------------------------------------------------ the history that used to leak *)
(* N1 (no subnet option) fetches answer 1, filed shared.  A (203.0.113.0/24) hits it when it is due
   for refresh; the refresh goes upstream WITHOUT A's subnet (before commit d979d25 it carried it,
   the authority answered with SCOPE /24 and that answer was served to everyone).  N2 is served the
   refreshed, audience-neutral answer. *)
Definition leak_cfg : ccfg := mk_ccfg (mk_bargs true 0 0 0 0 []) 0 true.
Definition ecs_a : ecs := mk_ecs 1 24 0 (mk_ipb 4 3405803776).
Definition leak_ops : list cop :=
  [ mk_cop (mk_query (mk_ipb 4 3325256713) (Some []) false 0) (mk_uresp 1 60000000000 None) false (mk_uresp 2 60000000000 None);
    mk_cop (mk_query (mk_ipb 4 3325256714) (Some [OEcs ecs_a]) false 0) (mk_uresp 3 60000000000 None) true
           (mk_uresp 4 60000000000 None);
    mk_cop (mk_query (mk_ipb 4 3325256715) (Some []) false 0) (mk_uresp 5 60000000000 None) false (mk_uresp 6 60000000000 None) ].

Lemma refresh_is_audience_neutral_example :
  snd (run leak_cfg [] leak_ops) =
  [ mk_obs 0 1 (Some None) (Some (None, 60000000000%Z)) None;
    mk_obs 2 1 None None (Some None);
    mk_obs 2 4 None None None ].
Proof. vm_compute. reflexivity. Qed.

(* ------------------------------------------------------------------ unconditional facts *)
(* TTL cap: holds for every history, blind or not *)
Definition ttl_inv (ecs_max : Z) (st : store) : Prop :=
  forall e sS, In e st -> ce_scope e = Some sS -> (0 < ecs_max)%Z -> (ce_ttl e <= ecs_max)%Z.

Lemma serve_ttl_inv c st qy up aged rf st' ob :
  ttl_inv (c_ecs_max c) st -> serve c st qy up aged rf = (st', ob) -> ttl_inv (c_ecs_max c) st'.
Proof.
  intros HI. unfold serve.
  destruct (scoped_lookup st (q_name qy) (q_cd qy) _) as [[e0 sc]|] eqn:ES.
  - destruct (c_prefetch c && aged && prefetch_eligible e0) eqn:EP.
    + apply scoped_lookup_inside in ES. destruct ES as [_ [_ [_ [Hsc _]]]].
      rewrite (scoped_not_eligible e0 sc Hsc), !andb_false_r in EP. discriminate.
    + intros H. inversion H; subst. exact HI.
  - destruct (st_lookup st (q_name qy) (q_cd qy) None) as [e0|] eqn:EL.
    + destruct (c_prefetch c && aged && prefetch_eligible e0) eqn:EP.
      * intros H. inversion H; subst st' ob; clear H.
        apply st_lookup_sound in EL. destruct EL as [_ [_ [_ Hsc0]]].
        intros x sS Hx HS. apply in_st_insert in Hx. destruct Hx as [Hx|Hx]; [|eapply HI; eassumption].
        subst x. cbn in HS. congruence.
      * intros H. inversion H; subst. exact HI.
    + intros H. inversion H; subst st' ob; clear H.
      intros x sS Hx HS Hpos. apply in_st_insert in Hx. destruct Hx as [Hx|Hx]; [|eapply HI; eassumption].
      subst x. cbn in *. rewrite HS. unfold entry_ttl. apply cap_ttl_le. exact Hpos.
Qed.

Lemma run_ttl_inv c ops : forall st, ttl_inv (c_ecs_max c) st -> ttl_inv (c_ecs_max c) (fst (run c st ops)).
Proof.
  induction ops as [|o r IH]; intros st HI; [exact HI|]. cbn.
  destruct (serve c st (co_q o) (co_up o) (co_aged o) (co_rf o)) as [st' ob] eqn:ES.
  pose proof (serve_ttl_inv _ _ _ _ _ _ _ _ HI ES) as HI'.
  specialize (IH st' HI'). destruct (run c st' r) as [st'' obs]. exact IH.
Qed.

Lemma scoped_ttl_capped_run c ops e sS :
  In e (fst (run c [] ops)) -> ce_scope e = Some sS -> (0 < c_ecs_max c)%Z -> (ce_ttl e <= c_ecs_max c)%Z.
Proof. intros. eapply (run_ttl_inv c ops []); try eassumption. intros x y []. Qed.

(* a queued refresh always belongs to a shared entry *)
Lemma refresh_only_shared c st qy up aged rf st' ob :
  serve c st qy up aged rf = (st', ob) -> ob_refresh ob <> None ->
  ob_src ob = 2 /\ exists e, In e st /\ ce_scope e = None /\ ce_ans e = ob_ans ob.
Proof.
  unfold serve.
  destruct (scoped_lookup st (q_name qy) (q_cd qy) _) as [[e0 sc]|] eqn:ES.
  - destruct (c_prefetch c && aged && prefetch_eligible e0) eqn:EP.
    + apply scoped_lookup_inside in ES. destruct ES as [_ [_ [_ [Hsc _]]]].
      rewrite (scoped_not_eligible e0 sc Hsc), !andb_false_r in EP. discriminate.
    + intros H Hr. inversion H; subst ob. cbn in Hr. congruence.
  - destruct (st_lookup st (q_name qy) (q_cd qy) None) as [e0|] eqn:EL.
    + apply st_lookup_sound in EL. destruct EL as [Hin [_ [_ Hsc0]]].
      destruct (c_prefetch c && aged && prefetch_eligible e0) eqn:EP; intros H Hr; inversion H; subst ob; cbn in *.
      * split; [reflexivity|]. exists e0. auto.
      * congruence.
    + intros H Hr. inversion H; subst ob. cbn in Hr. congruence.
Qed.

(* ------------------------------------------------------------------ tailored answers are never shared *)
(* the authority's option carries a non-zero SCOPE *)
Definition tailored (up : uresp) : bool := declares_scope (u_opts up).

(* a usable SCOPE is a declared one *)
Lemma read_scope_declares opts rs : read_response_scope opts = Some rs -> declares_scope opts = true.
Proof.
  intros H. apply read_response_scope_wf in H.
  destruct H as [l [sub [a [Ho [EF [Hs _]]]]]]. subst opts. unfold declares_scope. rewrite EF.
  destruct (N.eqb_spec (e_scope sub) 0); [contradiction|reflexivity].
Qed.

(* a tailored answer always has an audience prefix: the declared scope when it can be read, the
   forwarded prefix otherwise *)
Lemma tailored_has_audience opts s : declares_scope opts = true ->
  exists A, response_audience opts (Some s) = Some A /\
            (read_response_scope opts = Some A \/ (read_response_scope opts = None /\ A = s)).
Proof.
  intros HD. unfold response_audience. destruct (read_response_scope opts) as [rs|].
  - exists rs. auto.
  - rewrite HD. exists s. auto.
Qed.

(* what a miss stores, in terms of response_audience *)
Lemma miss_stores c st qy up aged rf st' ob s :
  serve c st qy up aged rf = (st', ob) -> ob_src ob = 0 -> req_scope_of c qy = Some s ->
  exists ttl, ob_stored ob =
    Some (match response_audience (u_opts up) (Some s) with
          | Some A => normalize_scope (clamp_scope (policy_of (c_b c)) (Some A) (Some s))
          | None => None
          end, ttl).
Proof.
  unfold serve, req_scope_of. intros H Hsrc Hcs.
  destruct (scoped_lookup st (q_name qy) (q_cd qy) _) as [[e0 sc]|].
  - destruct (c_prefetch c && aged && prefetch_eligible e0); inversion H; subst ob; discriminate.
  - destruct (st_lookup st (q_name qy) (q_cd qy) None) as [e0|].
    + destruct (c_prefetch c && aged && prefetch_eligible e0); inversion H; subst ob; discriminate.
    + inversion H; subst ob; cbn. rewrite Hcs. eexists. reflexivity.
Qed.

(* when ReadResponseScope accepts the option, a miss files the answer under the declared scope cut
   to min(declared, forwarded, floor) *)
Lemma tailored_answer_filed_scoped c st qy up aged rf st' ob s rs :
  serve c st qy up aged rf = (st', ob) -> ob_src ob = 0 ->
  req_scope_of c qy = Some s -> read_response_scope (u_opts up) = Some rs ->
  exists ttl, ob_stored ob = Some (normalize_scope (clamp_scope (policy_of (c_b c)) (Some rs) (Some s)), ttl).
Proof.
  intros H Hsrc Hcs Hrs. destruct (miss_stores _ _ _ _ _ _ _ _ _ H Hsrc Hcs) as [ttl Hst].
  unfold response_audience in Hst. rewrite Hrs in Hst. exists ttl. exact Hst.
Qed.

(* the full statement: ANY non-zero SCOPE — usable or not — on an answer fetched with a forwarded
   subnet: the answer is filed under its audience prefix (declared scope, or the forwarded prefix when
   the SCOPE cannot be interpreted) cut to min(audience, forwarded, floor) bits *)
Lemma tailored_answer_never_shared_lemma c st qy up aged rf st' ob s :
  serve c st qy up aged rf = (st', ob) -> ob_src ob = 0 ->
  req_scope_of c qy = Some s -> tailored up = true ->
  exists A ttl,
    (read_response_scope (u_opts up) = Some A \/ (read_response_scope (u_opts up) = None /\ A = s)) /\
    ob_stored ob = Some (normalize_scope (clamp_scope (policy_of (c_b c)) (Some A) (Some s)), ttl).
Proof.
  intros H Hsrc Hcs HT. destruct (miss_stores _ _ _ _ _ _ _ _ _ H Hsrc Hcs) as [ttl Hst].
  destruct (tailored_has_audience (u_opts up) s HT) as [A [HA Hor]]. rewrite HA in Hst.
  exists A, ttl. split; assumption.
Qed.

(* the history that used to share a tailored answer (finding unusable-scope-filed-shared, fixed):
   SCOPE /33 on an IPv4 option is read as /32 and cut to the forwarded /24; the next client, who sent
   no subnet option, is NOT served answer 1 *)
Definition overlong_cfg : ccfg := mk_ccfg (mk_bargs true 0 0 0 0 []) 0 false.
Definition overlong_ops : list cop :=
  [ mk_cop (mk_query (mk_ipb 4 3325256714) (Some [OEcs ecs_a]) false 0)
           (mk_uresp 1 60000000000 (Some [OEcs (mk_ecs 1 24 33 (mk_ipb 4 3405803776))])) false (mk_uresp 2 60000000000 None);
    mk_cop (mk_query (mk_ipb 4 3325256715) (Some []) false 0) (mk_uresp 3 60000000000 None) false (mk_uresp 4 60000000000 None) ].

Lemma overlong_scope_stays_scoped :
  tailored (mk_uresp 1 60000000000 (Some [OEcs (mk_ecs 1 24 33 (mk_ipb 4 3405803776))])) = true /\
  snd (run overlong_cfg [] overlong_ops) =
  [ mk_obs 0 1 (Some (Some ecs_a)) (Some (Some (mk_pfx true 3405803776 24), 60000000000%Z)) None;
    mk_obs 0 3 (Some None) (Some (None, 60000000000%Z)) None ].
Proof. vm_compute. split; reflexivity. Qed.

(* family 2 on a 4-byte address (nobody can say whom the answer is for): kept for the audience that
   asked, 203.0.113.0/24 *)
Definition unusable_ops : list cop :=
  [ mk_cop (mk_query (mk_ipb 4 3325256714) (Some [OEcs ecs_a]) false 0)
           (mk_uresp 1 60000000000 (Some [OEcs (mk_ecs 2 24 24 (mk_ipb 4 167772160))])) false (mk_uresp 2 60000000000 None);
    mk_cop (mk_query (mk_ipb 4 3325256715) (Some []) false 0) (mk_uresp 3 60000000000 None) false (mk_uresp 4 60000000000 None);
    mk_cop (mk_query (mk_ipb 4 3325256716) (Some [OEcs ecs_a]) false 0) (mk_uresp 5 60000000000 None) false (mk_uresp 6 60000000000 None) ].

Lemma unusable_scope_kept_for_the_asker :
  snd (run overlong_cfg [] unusable_ops) =
  [ mk_obs 0 1 (Some (Some ecs_a)) (Some (Some (mk_pfx true 3405803776 24), 60000000000%Z)) None;
    mk_obs 0 3 (Some None) (Some (None, 60000000000%Z)) None;
    mk_obs 1 1 None None None ].
Proof. vm_compute. reflexivity. Qed.

(* a request scope exists only under a built policy, and is a well-formed prefix *)
Lemma req_scope_wf c qy s : req_scope_of c qy = Some s ->
  exists p, policy_of (c_b c) = Some p /\ p_bits s <= awidth (p_is4 s).
Proof.
  unfold req_scope_of, request_scope.
  destruct (allows (policy_of (c_b c)) (addr_from_slice_unmap (q_remote qy))) eqn:EA; cbn [negb]; [|discriminate].
  apply allows_true in EA. destruct EA as [pl [c0 [Hp _]]].
  destruct (first_ecs _) as [sub|]; [|discriminate].
  destruct (addr_from_slice_unmap (e_addr sub)) as [a|]; [|discriminate].
  intros H. apply addr_prefix_some in H. destruct H as [Hb [Hf [Hbits _]]].
  exists pl. split; [exact Hp|]. rewrite Hf, Hbits. exact Hb.
Qed.

(* ... so a tailored answer fetched with a forwarded subnet longer than /0 is ALWAYS filed scoped,
   under a scope no longer than what was forwarded: it is never put under the shared key *)
Lemma tailored_answer_scoped_lemma c st qy up aged rf st' ob s :
  serve c st qy up aged rf = (st', ob) -> ob_src ob = 0 ->
  req_scope_of c qy = Some s -> tailored up = true -> p_bits s <> 0 ->
  exists sS ttl, ob_stored ob = Some (Some sS, ttl) /\ 1 <= p_bits sS /\ p_bits sS <= p_bits s.
Proof.
  intros H Hsrc Hcs HT Hnz.
  destruct (tailored_answer_never_shared_lemma _ _ _ _ _ _ _ _ _ H Hsrc Hcs HT) as [A [ttl [Hor Hst]]].
  destruct (req_scope_wf _ _ _ Hcs) as [p [Hp Hsw]]. rewrite Hp in Hst.
  assert (1 <= p_bits A /\ p_bits A <= awidth (p_is4 A)) as [HA1 HAw].
  { destruct Hor as [HR|[_ HE]].
    - apply read_response_scope_wf in HR. destruct HR as [l [sub [a [_ [_ [_ [_ [_ [Hf [_ [Hw [H1 _]]]]]]]]]]]].
      rewrite Hf. split; assumption.
    - subst A. split; [lia|exact Hsw]. }
  apply policy_of_some in Hp. apply build_ok_shape in Hp.
  destruct Hp as [_ [_ [_ [_ [[M41 _] [[M61 _] _]]]]]].
  destruct (clamp_scope (Some p) (Some A) (Some s)) as [r|] eqn:EC.
  2:{ unfold clamp_scope in EC. destruct (addr_prefix _ _); discriminate. }
  pose proof (clamp_scope_wf p A (Some s) r HAw EC) as [_ [Hb _]].
  assert (1 <= floor_bits p (p_is4 A)) as HF by (unfold floor_bits; destruct (p_is4 A); assumption).
  cbn [normalize_scope] in Hst.
  destruct (N.eqb_spec (p_bits r) 0) as [Z|NZ]; [lia|].
  eexists. exists ttl. split; [exact Hst|]. cbn. lia.
Qed.

(* ------------------------------------------------------------------ the byte path of the cache *)
(* a query without a subnet option: nothing is forwarded and no request scope is derived *)
Lemma plain_query_unscoped c qy :
  match q_opts qy with Some l => has_ecs l | None => false end = false -> req_scope_of c qy = None.
Proof.
  intros H. unfold req_scope_of, forwarded.
  assert (match q_opts qy with
          | Some l => new_opts (policy_of (c_b c)) (addr_from_slice_unmap (q_remote qy)) l
          | None => []
          end = []) as HF.
  { destruct (q_opts qy) as [l|]; [|reflexivity]. apply new_opts_no_client_ecs. exact H. }
  rewrite HF. apply request_scope_nil.
Qed.

(* what is answered from bytes: only to a query that carried no subnet option, only an entry filed
   under the SHARED key for the same question and CD bit, never one that is due for refresh *)
Lemma serve_wire_sound c st qy aged ob : serve_wire c st qy aged = Some ob ->
  match q_opts qy with Some l => has_ecs l | None => false end = false /\
  ob_src ob = 2 /\ ob_up ob = None /\ ob_stored ob = None /\ ob_refresh ob = None /\
  exists e, In e st /\ ce_q e = q_name qy /\ ce_cd e = q_cd qy /\ ce_scope e = None /\ ce_ans e = ob_ans ob.
Proof.
  unfold serve_wire. destruct (match q_opts qy with Some l => has_ecs l | None => false end); [discriminate|].
  destruct (st_lookup st (q_name qy) (q_cd qy) None) as [e|] eqn:EL; [|discriminate].
  destruct (c_prefetch c && aged && prefetch_eligible e); [discriminate|].
  intros H. inversion H; subst ob; cbn. apply st_lookup_sound in EL. destruct EL as [H1 [H2 [H3 H4]]].
  repeat split; try reflexivity. exists e. auto.
Qed.

(* the byte path is a refinement of the decoded body: whenever it may answer, the body of the same
   call would have given the same answer and left the same store *)
Lemma serve_wire_refines c st qy up aged rf ob :
  serve_wire c st qy aged = Some ob -> serve c st qy up aged rf = (st, ob).
Proof.
  unfold serve_wire. destruct (match q_opts qy with Some l => has_ecs l | None => false end) eqn:ER; [discriminate|].
  pose proof (plain_query_unscoped c qy ER) as HN. unfold req_scope_of in HN.
  unfold serve. rewrite HN. cbn [scoped_lookup].
  destruct (st_lookup st (q_name qy) (q_cd qy) None) as [e|]; [|discriminate].
  destruct (c_prefetch c && aged && prefetch_eligible e); [discriminate|].
  intros H. inversion H. reflexivity.
Qed.

Lemma serve_w_is_serve c st wire fb qy up aged rf : serve_w c st wire fb qy up aged rf = serve c st qy up aged rf.
Proof.
  unfold serve_w. destruct (wire && fb); [|reflexivity].
  destruct (serve_wire c st qy aged) as [ob|] eqn:E; [|reflexivity].
  symmetry. apply serve_wire_refines. exact E.
Qed.

Lemma run_w_is_run c ops : forall st, run_w c st ops = run c st (map wo_op ops).
Proof.
  induction ops as [|o r IH]; intros st; [reflexivity|]. cbn [run_w run map].
  rewrite serve_w_is_serve.
  destruct (serve c st (co_q (wo_op o)) (co_up (wo_op o)) (co_aged (wo_op o)) (co_rf (wo_op o))) as [st' ob].
  rewrite IH. reflexivity.
Qed.

(* the wire twin of scoped_only_inside_scope: along ANY history, whatever mix of wire-born and
   message-born queries and whichever of them the byte path answers, an answer that has an audience
   (a scoped entry) is never answered from bytes: what comes from bytes is for everyone *)
Lemma bytes_serve_only_everyone c st qy aged ob :
  inv (policy_of (c_b c)) (c_ecs_max c) st -> serve_wire c st qy aged = Some ob ->
  exists e, In e st /\ ce_ans e = ob_ans ob /\ ce_q e = q_name qy /\ ce_cd e = q_cd qy /\
            effective (policy_of (c_b c)) e = None.
Proof.
  intros HI H. apply serve_wire_sound in H. destruct H as [_ [_ [_ [_ [_ [e [Hin [Hq [Hcd [Hsc Ha]]]]]]]]]].
  exists e. repeat split; auto. destruct (HI e Hin) as [HE _]. rewrite <- HE. exact Hsc.
Qed.

Lemma run_w_inv c ops : inv (policy_of (c_b c)) (c_ecs_max c) (fst (run_w c [] ops)).
Proof. rewrite run_w_is_run. apply run_inv. apply inv_nil. Qed.

Lemma run_w_ok c ops : run_ok c [] (map wo_op ops).
Proof. apply run_sound. apply inv_nil. Qed.

(* a subnet-bearing query is never answered from bytes, policy or not *)
Lemma subnet_query_never_from_bytes c st qy aged l :
  q_opts qy = Some l -> has_ecs l = true -> serve_wire c st qy aged = None.
Proof. intros H1 H2. unfold serve_wire. rewrite H1, H2. reflexivity. Qed.

(* a history where it matters: A (203.0.113.0/24) fetches answer 1, scoped /24; a wire-born client
   WITHOUT a subnet option asks the same name: not from bytes (no shared entry), a miss, answer 3 shared;
   asked again wire-born it IS answered from bytes (answer 3); A again, wire-born, subnet-bearing: the
   byte path declines and the decoded body finds A's scoped entry *)
Definition wire_ops : list wcop :=
  [ mk_wcop (mk_cop (mk_query (mk_ipb 4 3325256714) (Some [OEcs ecs_a]) false 0)
                    (mk_uresp 1 60000000000 (Some [OEcs (mk_ecs 1 24 24 (mk_ipb 4 3405803776))])) false (mk_uresp 2 60000000000 None)) true false;
    mk_wcop (mk_cop (mk_query (mk_ipb 4 3325256715) (Some []) false 0) (mk_uresp 3 60000000000 None) false (mk_uresp 4 60000000000 None)) true false;
    mk_wcop (mk_cop (mk_query (mk_ipb 4 3325256716) (Some []) false 0) (mk_uresp 5 60000000000 None) false (mk_uresp 6 60000000000 None)) true true;
    mk_wcop (mk_cop (mk_query (mk_ipb 4 3325256717) (Some [OEcs ecs_a]) false 0) (mk_uresp 7 60000000000 None) false (mk_uresp 8 60000000000 None)) true true ].

Lemma wire_history_example :
  snd (run_w overlong_cfg [] wire_ops) =
  [ mk_obs 0 1 (Some (Some ecs_a)) (Some (Some (mk_pfx true 3405803776 24), 60000000000%Z)) None;
    mk_obs 0 3 (Some None) (Some (None, 60000000000%Z)) None;
    mk_obs 2 3 None None None;
    mk_obs 1 1 None None None ] /\
  map (fun o => match o with Some _ => true | None => false end)
      [ serve_wire overlong_cfg (fst (run_w overlong_cfg [] (firstn 2 wire_ops))) (co_q (wo_op (nth 2 wire_ops (mk_wcop (mk_cop (mk_query (mk_ipb 0 0) None false 0) (mk_uresp 0 0 None) false (mk_uresp 0 0 None)) false false)))) false;
        serve_wire overlong_cfg (fst (run_w overlong_cfg [] (firstn 3 wire_ops))) (co_q (wo_op (nth 3 wire_ops (mk_wcop (mk_cop (mk_query (mk_ipb 0 0) None false 0) (mk_uresp 0 0 None) false (mk_uresp 0 0 None)) false false)))) false ]
  = [true; false].
Proof. vm_compute. split; reflexivity. Qed.
