(* C19 — the strict entry marks every admitted query that carries a subnet option (proofs). *)
From Sdns Require Import Common.Base Common.GoList Gen.C19 C19.WireReq.
Open Scope Z_scope.

Lemma blank_request_ok raw :
  T_Request_raw (blank_request raw) = raw /\ T_Request_hasECS (blank_request raw) = false /\
  T_Request_hasNSID (blank_request raw) = false /\ T_Request_hasKeepalive (blank_request raw) = false /\
  T_Request_cookieLen (blank_request raw) = 0 /\ T_Request_hasOPT (blank_request raw) = false.
Proof. repeat split; reflexivity. Qed.

Ltac flags_done :=
  repeat split;
  match goal with
  | |- _ = _ =>
      unfold has_code; cbn [existsb N.eqb Pos.eqb orb T_Request_hasECS T_Request_hasNSID T_Request_hasKeepalive];
      repeat match goal with
             | |- context [T_Request_hasECS ?r] => destruct (T_Request_hasECS r)
             | |- context [T_Request_hasNSID ?r] => destruct (T_Request_hasNSID r)
             | |- context [T_Request_hasKeepalive ?r] => destruct (T_Request_hasKeepalive r)
             | |- context [existsb ?f ?l] => destruct (existsb f l)
             end; reflexivity
  end.

Ltac recurse IH H c :=
  apply IH in H; destruct H as [cs [Hc [H1 [H2 H3]]]];
  exists (c :: cs); rewrite Hc;
  cbn [T_Request_hasECS T_Request_hasNSID T_Request_hasKeepalive] in H1, H2, H3;
  rewrite H1, H2, H3; split; [reflexivity|]; flags_done.

Lemma loop_marks fuel : forall lf r off raw u x v fl rd end_ r' off' raw' u' x' v' fl' rd' end',
  go_Request_parseWireOPT_loop1 fuel lf r off raw u x v fl rd end_ =
    (GoNext, (r', off', raw', u', x', v', fl', rd', end')) ->
  exists cs, opt_codes_at lf raw off end_ = Some cs /\
    T_Request_hasECS r' = T_Request_hasECS r || has_code 8%N cs /\
    T_Request_hasNSID r' = T_Request_hasNSID r || has_code 3%N cs /\
    T_Request_hasKeepalive r' = T_Request_hasKeepalive r || has_code 11%N cs.
Proof.
  induction lf as [|lf IH]; intros r off raw u x v fl rd end_ r' off' raw' u' x' v' fl' rd' end' H.
  - cbn in H. discriminate.
  - cbn [go_Request_parseWireOPT_loop1] in H. cbn [opt_codes_at].
    destruct (off <? end_) eqn:E0.
    2:{ inversion H; subst. exists []. cbn. rewrite !orb_false_r. auto. }
    destruct (end_ <? off + 4) eqn:E1; [discriminate|].
    cbv zeta in H.
    set (code := go_be16 (go_slice raw off (off + 2))) in *.
    set (len := Z.of_N (go_be16 (go_slice raw (off + 2) (off + 4)))) in *.
    destruct (end_ <? off + 4 + len) eqn:E2; [discriminate|].
    clearbody code len.
    destruct (N.eqb_spec code 10) as [C|C10].
    { subst code. destruct (_ || _ || _); [discriminate|]. recurse IH H 10%N. }
    destruct (N.eqb_spec code 3) as [C|C3].
    { subst code. recurse IH H 3%N. }
    destruct (N.eqb_spec code 8) as [C|C8].
    { subst code. destruct (len <? 4); [discriminate|].
      destruct (go_be16 (go_slice raw (off + 4) (off + 4 + 2)) =? 0)%N.
      { destruct (negb _); [discriminate|]. recurse IH H 8%N. }
      destruct (go_be16 (go_slice raw (off + 4) (off + 4 + 2)) =? 1)%N.
      { destruct (_ || _); [discriminate|]. recurse IH H 8%N. }
      destruct (go_be16 (go_slice raw (off + 4) (off + 4 + 2)) =? 2)%N; [|discriminate].
      destruct (_ || _); [discriminate|]. recurse IH H 8%N. }
    destruct (N.eqb_spec code 12) as [C|C12].
    { subst code. recurse IH H 12%N. }
    destruct (N.eqb_spec code 11) as [C|C11]; [|discriminate].
    subst code. destruct (_ && _); [discriminate|]. recurse IH H 11%N.
Qed.

(* a return from inside the walk is always a refusal *)
Lemma loop_ret_false fuel : forall lf r off raw u x v fl rd end_ a r1 st,
  go_Request_parseWireOPT_loop1 fuel lf r off raw u x v fl rd end_ = (GoRet (a, r1), st) -> a = false.
Proof.
  induction lf as [|lf IH]; intros r off raw u x v fl rd end_ a r1 st H.
  - cbn in H. discriminate.
  - cbn [go_Request_parseWireOPT_loop1] in H. cbv zeta in H.
    repeat match type of H with
           | context [if ?c then _ else _] => destruct c
           end;
    first [ discriminate | (inversion H; reflexivity) | (eapply IH; exact H) ].
Qed.

(* the Request the caller of parseWireOPT sees, for ANY request it is called on and any fuel: when
   the packet is admitted, the three facts are the ones it had before, or-ed with "an option with
   that code lies in the OPT" — in particular every form of the client-subnet option the parser
   lets through (family 0 opt-out, IPv4, IPv6) sets hasECS; and the walk covered the OPT's RDATA
   up to the end of the packet *)
Lemma parse_marks fuel r off r' :
  go_Request_parseWireOPT fuel r off = Some (true, r') ->
  exists cs, opt_codes_at fuel (T_Request_raw r) (off + 11) (go_len (T_Request_raw r)) = Some cs /\
    T_Request_hasECS r' = T_Request_hasECS r || has_code 8%N cs /\
    T_Request_hasNSID r' = T_Request_hasNSID r || has_code 3%N cs /\
    T_Request_hasKeepalive r' = T_Request_hasKeepalive r || has_code 11%N cs.
Proof.
  (* the four receiver updates in front of the walk are nested record copies: substituting them with a
     plain [cbv zeta] multiplies the term by the number of fields each time (21^4); evaluating the
     projections of the destructed receiver in the same pass keeps every copy a tuple of variables *)
  destruct r as [raw id fl qt qc no nl qe ho us do_ ver he hn hk co cl rt msg er pol].
  unfold go_Request_parseWireOPT.
  cbv beta iota zeta delta [T_Request_raw T_Request_id T_Request_flags T_Request_qtype T_Request_qclass T_Request_nameOff
    T_Request_nameLen T_Request_questionEnd T_Request_hasOPT T_Request_udpSize T_Request_do T_Request_version
    T_Request_hasECS T_Request_hasNSID T_Request_hasKeepalive T_Request_cookieOff T_Request_cookieLen
    T_Request_readTime T_Request_msg T_Request_ednsRan T_Request_ecsPolicy].
  destruct (_ || _); [intros H; inversion H|].
  destruct (negb (_ =? 41)%N); [intros H; inversion H|].
  destruct (Z.eqb_spec (off + 11 + Z.of_N (go_be16 (go_slice raw (off + 9) (off + 11)))) (go_len raw)) as [E|E];
    cbn [negb]; [|intros H; inversion H].
  destruct (negb (_ =? 0)%N); [intros H; inversion H|].
  rewrite E.
  destruct (go_Request_parseWireOPT_loop1 _ _ _ _ _ _ _ _ _ _ _) as [ctl [[[[[[[[r0 o0] w0] u0] x0] v0] f0] d0] e0]] eqn:EL.
  destruct ctl as [|[a r1]|].
  - intros H. apply loop_marks in EL. destruct EL as [cs [Hc [HA [HB HC]]]].
    injection H as _ Hr. subst r0. exists cs.
    cbn [T_Request_hasECS T_Request_hasNSID T_Request_hasKeepalive] in HA, HB, HC. auto.
  - intros H. injection H as Ha _. subst a. apply loop_ret_false in EL. discriminate.
  - discriminate.
Qed.

Lemma wire_parse_marks raw off r :
  wire_opt_parse raw off = Some (true, r) ->
  exists cs, opt_codes_at (S (length raw)) raw (off + 11) (go_len raw) = Some cs /\
    T_Request_hasECS r = has_code 8%N cs /\
    T_Request_hasNSID r = has_code 3%N cs /\
    T_Request_hasKeepalive r = has_code 11%N cs.
Proof. unfold wire_opt_parse. intros H. apply parse_marks in H. exact H. Qed.

Example wire_parse_example :
  (* OPT with COOKIE(8 octets), then the opt-out subnet option (family 0, /0), then NSID *)
  let raw := repeat 0%N 12 ++ [0; 0;41; 4;208; 0;0;0;0; 0;24;  0;10;0;8;1;2;3;4;5;6;7;8;  0;8;0;4;0;0;0;0;  0;3;0;0]%N in
  match wire_opt_parse raw 12 with
  | Some (a, r) => (a, T_Request_hasECS r, T_Request_hasNSID r, T_Request_hasKeepalive r, T_Request_hasOPT r) = (true, true, true, false, true)
  | None => False
  end.
Proof. vm_compute. reflexivity. Qed.
