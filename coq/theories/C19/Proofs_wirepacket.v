(* C19 — whole packets: a packet the strict parser admits is marked hasECS iff its OPT holds an option
   with code 8 (proofs over C05's model of Request.ParseWire). *)
From Sdns Require Import Common.Base.
From Sdns Require Gen.C05 C05.Model.
From Sdns Require Import C19.WirePacket.
Import C05.Model.
Open Scope N_scope.

Lemma pw_opts_marks : forall k raw off endo a a',
  pw_opts k raw off endo a = Ok a' ->
  exists cs, pkt_codes k raw off endo = Some cs /\
    o_ecs a' = o_ecs a || has_code8 cs /\
    o_nsid a' = o_nsid a || existsb (N.eqb 3) cs /\
    o_ka a' = o_ka a || existsb (N.eqb 11) cs.
Proof.
  induction k as [|k IH]; intros raw off endo a a' H; [discriminate|].
  cbn [pw_opts pkt_codes] in *.
  change Sdns.Gen.C05.opt_option_hdr_len with 4 in *.
  destruct (endo <=? off).
  { destruct (off =? endo); [|discriminate]. inversion H; subst. exists []. cbn. rewrite !orb_false_r. auto. }
  destruct (endo <? off + 4); [discriminate|].
  cbv zeta in H. cbv zeta.
  set (code := be16 raw off) in *. set (optlen := be16 raw (off + 2)) in *.
  destruct (endo <? off + 4 + optlen); [discriminate|].
  clearbody code optlen.
  Ltac fin IH H c :=
    apply IH in H; destruct H as [cs [Hc [HA [HB HC]]]]; exists (c :: cs); rewrite Hc;
    cbn [o_ecs o_nsid o_ka] in HA, HB, HC; rewrite HA, HB, HC; split; [reflexivity|];
    unfold has_code8; cbn [existsb N.eqb Pos.eqb orb];
    repeat split;
    repeat match goal with
           | |- context [o_ecs ?r] => destruct (o_ecs r)
           | |- context [o_nsid ?r] => destruct (o_nsid r)
           | |- context [o_ka ?r] => destruct (o_ka r)
           | |- context [existsb ?f ?l] => destruct (existsb f l)
           end; reflexivity.
  unfold EDNS0COOKIE, EDNS0NSID, EDNS0SUBNET, EDNS0PADDING, EDNS0TCPKEEPALIVE in H.
  destruct (N.eqb_spec code 10) as [C|_].
  { subst code. destruct (_ || _ || _); [discriminate|]. fin IH H 10. }
  destruct (N.eqb_spec code 3) as [C|_].
  { subst code. fin IH H 3. }
  destruct (N.eqb_spec code 8) as [C|_].
  { subst code. destruct (optlen <? _); [discriminate|].
    match type of H with (if ?ok then _ else _) = _ => destruct ok end; [|discriminate]. fin IH H 8. }
  destruct (N.eqb_spec code 12) as [C|_].
  { subst code. fin IH H 12. }
  destruct (N.eqb_spec code 11) as [C|_]; [|discriminate].
  subst code. destruct (_ && _); [discriminate|]. fin IH H 11.
Qed.

Lemma pw_opt_marks raw off p : pw_opt raw off = Ok p ->
  p_hasopt p = true /\
  exists cs, pkt_codes (S (length raw)) raw (off + 11) (blen raw) = Some cs /\
             o_ecs (p_opts p) = has_code8 cs /\
             o_nsid (p_opts p) = existsb (N.eqb 3) cs /\ o_ka (p_opts p) = existsb (N.eqb 11) cs.
Proof.
  unfold pw_opt. change Sdns.Gen.C05.po_fixed with 11.
  destruct (_ || _); [discriminate|]. destruct (negb (_ =? dns_TypeOPT)); [discriminate|]. cbv zeta.
  destruct (N.eqb_spec (off + 11 + be16 raw (off + 9)) (blen raw)) as [E|E]; cbn [negb]; [|discriminate].
  destruct (negb (_ =? 0)); [discriminate|].
  destruct (pw_opts (opts_fuel raw) raw (off + 11) (off + 11 + be16 raw (off + 9)) optfacts0) as [a| |] eqn:EW; try discriminate.
  intros H. inversion H; subst p; cbn. split; [reflexivity|].
  apply pw_opts_marks in EW. destruct EW as [cs [Hc [HA [HB HC]]]]. rewrite E in Hc.
  exists cs. cbn in HA, HB, HC. auto.
Qed.

(* WHOLE packets: whatever octets arrive, if the strict parser (header gate, question walk, the single
   OPT) admits them, the request is marked as carrying ECS exactly when an option with code 8 lies in
   the OPT that follows the question — and not at all when there is no OPT *)
Lemma packet_marks raw f : parse_wire raw = Some f ->
  (f_hasopt f = false /\ f_ecs f = false /\ f_qend f = blen raw) \/
  (f_hasopt f = true /\
   exists cs, pkt_codes (S (length raw)) raw (f_qend f + 11) (blen raw) = Some cs /\
              f_ecs f = has_code8 cs /\ f_nsid f = existsb (N.eqb 3) cs /\ f_ka f = existsb (N.eqb 11) cs).
Proof.
  unfold parse_wire. destruct (parse_wire_r raw) as [f0| |] eqn:E; try discriminate. intros [= <-].
  unfold parse_wire_r in E.
  destruct (parse_header raw) as [h|]; [|discriminate].
  destruct (_ || _) in E; [discriminate|].
  destruct (_ || _ || _ || _) in E; [discriminate|].
  destruct (pw_name (name_fuel raw) raw Sdns.Gen.C05.header_len) as [off| |]; try discriminate.
  cbv zeta in E.
  destruct (_ || _) in E; [discriminate|].
  destruct (Sdns.Gen.C05.T_Header_ARCount h =? 1).
  - destruct (pw_opt raw (off + Sdns.Gen.C05.pw_qfixed)) as [p| |] eqn:EP; try discriminate.
    inversion E; subst f0; cbn. right. apply pw_opt_marks in EP. exact EP.
  - destruct (N.eqb_spec (off + Sdns.Gen.C05.pw_qfixed) (blen raw)) as [Q|Q]; cbn [negb] in E; [|discriminate].
    inversion E; subst f0; cbn. left. auto.
Qed.

Lemma packet_has_ecs_spec raw e : packet_has_ecs raw = Some e ->
  exists f, parse_wire raw = Some f /\ e = f_ecs f /\
    (e = true -> f_hasopt f = true /\
       exists cs, pkt_codes (S (length raw)) raw (f_qend f + 11) (blen raw) = Some cs /\ has_code8 cs = true).
Proof.
  unfold packet_has_ecs. destruct (parse_wire raw) as [f|] eqn:E; [|discriminate]. intros [= <-].
  exists f. split; [reflexivity|]. split; [reflexivity|]. intros HE. destruct (packet_marks raw f E) as [[_ [H _]]|[H1 [cs [Hc [HA _]]]]].
  - congruence.
  - split; [exact H1|]. exists cs. split; [exact Hc|]. congruence.
Qed.

Example packet_example :
  (* header (RD, QDCOUNT 1, ARCOUNT 1), question "a." A IN, OPT with the opt-out subnet option and NSID *)
  let raw := [0;7; 1;0; 0;1; 0;0; 0;0; 0;1;  1;97;0; 0;1; 0;1;  0; 0;41; 4;208; 0;0;0;0; 0;12;  0;8;0;4;0;0;0;0;  0;3;0;0] in
  packet_has_ecs raw = Some true /\ packet_has_ecs (firstn 19 raw) = None.
Proof. vm_compute. split; reflexivity. Qed.
