(* C19 — SetEdns0 (strip-all then re-attach one clamped copy), the edns handler's request and reply
   sides, and the composition with Cache.requestScope. *)
From Sdns Require Import Common.Base Gen.C19 C19.Model C19.Proofs_arith C19.Proofs_policy.
Open Scope N_scope.

(* ------------------------------------------------------------------ new_opts *)
Lemma last_ecs_in l e : last_ecs l = Some e -> In (OEcs e) l.
Proof.
  induction l as [|[x|c] l IH]; cbn; intros H; [discriminate| |right; auto].
  destruct (last_ecs l) as [e'|].
  - right. apply IH. exact H.
  - inversion H. left. reflexivity.
Qed.

Lemma last_ecs_none l : last_ecs l = None -> has_ecs l = false.
Proof.
  induction l as [|[x|c] l IH]; cbn; intros H; [reflexivity| |auto].
  destruct (last_ecs l); discriminate.
Qed.

(* the forwarded OPT carries nothing, or exactly one option: the clamp of a subnet option the client
   sent, and only for an eligible client *)
Lemma new_opts_shape p client l :
  new_opts p client l = [] \/
  exists cs f, new_opts p client l = [OEcs f] /\ allows p client = true /\ In (OEcs cs) l /\ clamp p (Some cs) = Some f.
Proof.
  unfold new_opts. destruct (allows p client) eqn:EA; [|left; reflexivity].
  destruct (last_ecs l) as [cs|] eqn:EL; [|left; reflexivity].
  destruct (clamp p (Some cs)) as [f|] eqn:EC; [|left; reflexivity].
  right. exists cs, f. repeat split; try reflexivity; try assumption. apply last_ecs_in. exact EL.
Qed.

Lemma new_opts_not_allowed p client l : allows p client = false -> new_opts p client l = [].
Proof. intros H. unfold new_opts. rewrite H. reflexivity. Qed.

Lemma new_opts_no_policy client l : new_opts None client l = [].
Proof. reflexivity. Qed.

Lemma new_opts_no_client_ecs p client l : has_ecs l = false -> new_opts p client l = [].
Proof.
  intros H. unfold new_opts. destruct (allows p client); [|reflexivity].
  destruct (last_ecs l) as [cs|] eqn:E; [|reflexivity].
  apply last_ecs_in in E. exfalso.
  unfold has_ecs in H. assert (existsb is_ecs l = true) as X by (apply existsb_exists; exists (OEcs cs); auto).
  congruence.
Qed.

(* ------------------------------------------------------------------ set_edns0 *)
Lemma all_options_no_opt l : has_opt l = false -> all_options l = [].
Proof.
  unfold has_opt, all_options. induction l as [|[o|] l IH]; cbn; intros H; [reflexivity|discriminate|apply IH; exact H].
Qed.
Lemma all_options_opt o l : all_options (ROpt o :: l) = o_opts o ++ all_options l.
Proof. reflexivity. Qed.
Lemma all_options_other l : all_options (ROther :: l) = all_options l.
Proof. reflexivity. Qed.
Lemma last_opt_no_opt l : has_opt l = false -> last_opt l = None.
Proof. unfold has_opt. induction l as [|[x|] l IH]; cbn; intros H; [reflexivity|discriminate|auto]. Qed.
Lemma last_opt_has_opt l : has_opt l = true -> exists o, last_opt l = Some o.
Proof.
  unfold has_opt. induction l as [|[x|] l IH]; cbn; intros H; [discriminate| |auto].
  destruct (last_opt l) as [o|]; [exists o|exists x]; reflexivity.
Qed.

(* only the selected OPT survives, with the rewritten options *)
Lemma keep_last_opt_options f l :
  all_options (keep_last_opt f l) = match last_opt l with Some o => o_opts (f o) | None => [] end.
Proof.
  induction l as [|[o|] l IH]; cbn [keep_last_opt last_opt]; [reflexivity| |rewrite all_options_other; exact IH].
  destruct (has_opt l) eqn:EH.
  - rewrite IH. destruct (last_opt_has_opt l EH) as [o' E]. rewrite E. reflexivity.
  - rewrite all_options_opt, (all_options_no_opt l EH), app_nil_r, (last_opt_no_opt l EH). reflexivity.
Qed.
Lemma keep_last_opt_count f l : has_opt l = true -> count_opt (keep_last_opt f l) = 1%nat.
Proof.
  unfold count_opt. induction l as [|[o|] l IH]; cbn [keep_last_opt]; intros H; [discriminate| |].
  - destruct (has_opt l) eqn:EH; [apply IH; reflexivity|]. cbn.
    assert (length (filter is_opt l) = O) as Z.
    { clear -EH. unfold has_opt in EH. induction l as [|[x|] l IH]; cbn in *; [reflexivity|discriminate|auto]. }
    rewrite Z. reflexivity.
  - cbn. apply IH. exact H.
Qed.

(* after SetEdns0 every option anywhere in the additional section is what new_opts produced from
   the selected OPT, for ANY number of OPT records in the query *)
Lemma set_edns0_options p client extra :
  all_options (set_edns0 p client extra) =
  match last_opt extra with Some o => new_opts p client (o_opts o) | None => [] end.
Proof.
  unfold set_edns0. destruct (has_opt extra) eqn:EH.
  - rewrite keep_last_opt_options. destruct (last_opt extra); reflexivity.
  - unfold all_options. rewrite flat_map_app. cbn.
    fold (all_options extra). rewrite (all_options_no_opt extra EH), (last_opt_no_opt extra EH). reflexivity.
Qed.

(* the upstream-bound request carries exactly one OPT record *)
Lemma set_edns0_one_opt p client extra : count_opt (set_edns0 p client extra) = 1%nat.
Proof.
  unfold set_edns0. destruct (has_opt extra) eqn:EH; [apply keep_last_opt_count; exact EH|].
  unfold count_opt. rewrite filter_app, app_length. cbn.
  assert (length (filter is_opt extra) = O) as Z.
  { clear -EH. unfold has_opt in EH. induction extra as [|[x|] l IH]; cbn in *; [reflexivity|discriminate|auto]. }
  rewrite Z. reflexivity.
Qed.

Lemma last_opt_in_all extra o x : last_opt extra = Some o -> In x (o_opts o) -> In x (all_options extra).
Proof.
  unfold all_options. induction extra as [|[o'|] l IH]; cbn; intros H Hx; [discriminate| |auto].
  apply in_or_app. destruct (last_opt l) as [o''|] eqn:E.
  - right. apply IH; assumption.
  - inversion H; subst. left. exact Hx.
Qed.

(* upstream_ecs_only_when_allowed *)
Lemma upstream_ecs_only_when_allowed_lemma p client extra e :
  In (OEcs e) (all_options (set_edns0 p client extra)) ->
  allows p client = true /\ exists cs, In (OEcs cs) (all_options extra) /\ clamp p (Some cs) = Some e.
Proof.
  intros Hin. rewrite set_edns0_options in Hin.
  destruct (last_opt extra) as [o|] eqn:EL; [|destruct Hin].
  destruct (new_opts_shape p client (o_opts o)) as [E|[cs [f [E [HA [HI HC]]]]]]; rewrite E in Hin; [destruct Hin|].
  destruct Hin as [Hin|[]]. inversion Hin; subst f. split; [exact HA|].
  exists cs. split; [|exact HC]. eapply last_opt_in_all; eassumption.
Qed.

(* all_client_options_stripped *)
Lemma all_client_options_stripped_lemma p client extra :
  let out := all_options (set_edns0 p client extra) in
  (forall o, In o out -> exists e, o = OEcs e) /\ (length out <= 1)%nat /\
  (allows p client = false -> out = []) /\
  (has_ecs (all_options extra) = false -> out = []).
Proof.
  cbn. rewrite set_edns0_options.
  destruct (last_opt extra) as [o|] eqn:EL.
  - destruct (new_opts_shape p client (o_opts o)) as [E|[cs [f [E [HA [HI HC]]]]]]; rewrite E.
    + repeat split; auto. intros x [].
    + repeat split.
      * intros x [Hx|[]]. exists f. auto.
      * cbn. lia.
      * intros HF. congruence.
      * intros HF. exfalso. assert (In (OEcs cs) (all_options extra)) as X by (eapply last_opt_in_all; eassumption).
        unfold has_ecs in HF. assert (existsb is_ecs (all_options extra) = true) as Y by (apply existsb_exists; exists (OEcs cs); auto).
        congruence.
  - repeat split; auto. intros x [].
Qed.

(* ------------------------------------------------------------------ the client-ECS marker *)
Lemma marker_set_when_client_sent_ecs b remote extra :
  has_ecs (all_options extra) = true -> fst (edns_serve b remote extra) = true.
Proof. intros HE. unfold edns_serve. cbn. exact HE. Qed.

(* ------------------------------------------------------------------ replies *)
(* no_ecs_to_client: whatever the downstream response and the request OPT carry *)
Lemma no_ecs_to_client_lemma noedns trunc resp :
  forall n, In n (reply_ecs_counts noedns trunc resp) -> n = 0.
Proof. intros n. unfold reply_ecs_counts. destruct noedns; [intros []|intros [H|[]]; auto]. Qed.

Lemma reply_one_opt noedns trunc resp : (length (reply_ecs_counts noedns trunc resp) <= 1)%nat.
Proof. unfold reply_ecs_counts. destruct noedns; cbn; lia. Qed.

(* the byte path never emits a subnet option *)
Lemma wire_reply_no_ecs noedns cookie nsid keepalive ede l :
  wire_reply_codes noedns cookie nsid keepalive ede = Some l -> ~ In 8 l.
Proof.
  unfold wire_reply_codes. destruct noedns; [discriminate|]. intros H. inversion H; subst l.
  destruct cookie, nsid, keepalive, ede; cbn; intuition discriminate.
Qed.

(* the BADVERS reply is a bare OPT *)
Lemma badvers_reply_clean b remote extra : forall n, In n (badvers_reply_counts b remote extra) -> n = 0.
Proof.
  intros n. unfold badvers_reply_counts, badvers_reply_extra.
  destruct (last_opt extra); cbn; [intros [H|[]]; auto|intros []].
Qed.

(* ------------------------------------------------------------------ edns + cache agree *)
Lemma ip_to_addr_eq_unmap ip : ip_to_addr ip = addr_from_slice_unmap ip.
Proof. unfold ip_to_addr, addr_from_slice_unmap. destruct (ipb_len ip =? 4); [reflexivity|]. destruct (ipb_len ip =? 16); reflexivity. Qed.

Lemma addr_slice_roundtrip is4 v : v < 2 ^ 32 \/ is4 = false ->
  is4 = true \/ is_mapped v = false ->
  addr_from_slice_unmap (addr_slice is4 v) = Some (mk_addr is4 v).
Proof.
  intros H1 H2. unfold addr_from_slice_unmap, addr_slice. destruct is4; cbn; [reflexivity|].
  destruct H2 as [H2|H2]; [discriminate|]. rewrite H2. reflexivity.
Qed.

(* whatever the edns layer forwards, the cache derives a request scope from it (so an answer to a
   query that carried a subnet option is never filed as if none had been sent), and that scope is
   the forwarded prefix *)
Lemma forwarded_ecs_has_request_scope p client l f :
  new_opts p client l = [OEcs f] ->
  exists a, ip_to_addr (e_addr f) = Some a /\
            request_scope p client (Some [OEcs f]) = Some (mk_pfx (a_is4 a) (mask_val (a_is4 a) (a_val a) (e_mask f)) (e_mask f)) /\
            e_mask f <= awidth (a_is4 a).
Proof.
  intros H. destruct (new_opts_shape p client l) as [E|[cs [f' [E [HA [HI HC]]]]]]; rewrite E in H; [discriminate|].
  inversion H; subst f'. destruct p as [pl|]; [|discriminate].
  pose proof (clamp_wf pl cs f HC) as W. destruct W as [a [is4 [w [ceil W]]]].
  destruct W as [EA [E4 [Ew [Ec [Ef [Ef2 [Em [Hc [Hi [Hw [Hs [Hl [Hz [Hn Hle]]]]]]]]]]]]]].
  (* the forwarded address parses back to itself *)
  unfold clamp in HC. rewrite EA in HC.
  assert (exists a', ip_to_addr (e_addr f) = Some a' /\ a_is4 a' = is4 /\ a_val a' = ipb_val (e_addr f)) as [a' [EA' [E4' EV']]].
  { change family_v4 with 1 in HC. change family_v6 with 2 in HC.
    destruct (N.eqb_spec (e_family cs) 1).
    - destruct (a_is4 a) eqn:X; [|discriminate]. apply clamp_with_wf in HC. rewrite X in HC.
      destruct HC as [_ [_ [_ [_ [Hlen Hval]]]]].
      exists (mk_addr true (ipb_val (e_addr f))). unfold ip_to_addr. rewrite Hlen. cbn. subst is4. auto.
    - destruct (N.eqb_spec (e_family cs) 2); [|discriminate].
      destruct (a_is4 a) eqn:X; cbn [negb] in HC; [discriminate|]. 
      unfold clamp_with in HC. destruct (addr_prefix a (N.min (e_mask cs) (pl_fwd6 pl))) as [px|] eqn:EP; [|discriminate].
      apply addr_prefix_some in EP. destruct EP as [Hb [Hpf [Hpb Hpv]]]. inversion HC; subst f; cbn in *.
      rewrite Hpf, X. cbn.
      exists (mk_addr false (p_val px)).
      unfold ip_to_addr in EA. destruct (ipb_len (e_addr cs) =? 4); [inversion EA; subst a; discriminate|].
      destruct (ipb_len (e_addr cs) =? 16); [|discriminate].
      destruct (is_mapped (ipb_val (e_addr cs))) eqn:EM0; [inversion EA; subst a; discriminate|].
      inversion EA; subst a. cbn in *.
      unfold ip_to_addr. cbn. rewrite Hpv.
      rewrite (masked_not_mapped _ _ Hb EM0). subst is4. auto. }
  exists a'. split; [exact EA'|]. unfold request_scope. rewrite HA. cbn.
  rewrite <- ip_to_addr_eq_unmap, EA'. rewrite E4'.
  assert (e_mask f <= awidth is4) as HW by (subst w; exact Hw).
  split; [|exact HW].
  unfold addr_prefix. rewrite E4'. apply N.ltb_ge in HW. rewrite HW. rewrite EV'. reflexivity.
Qed.

(* ------------------------------------------------------------------ invalid configuration *)
Lemma invalid_config_disables_lemma b : build_valid b = false ->
  policy_of b = None /\
  (forall client, allows (policy_of b) client = false) /\
  (forall i, clamp (policy_of b) i = None) /\
  (forall client l, new_opts (policy_of b) client l = []) /\
  (forall client extra, all_options (set_edns0 (policy_of b) client extra) = []) /\
  (forall client opts, request_scope (policy_of b) client opts = None).
Proof.
  intros H. rewrite (build_invalid_none b H). repeat split; try reflexivity.
  intros client extra. rewrite set_edns0_options. destruct (last_opt extra); reflexivity.
Qed.
