(* C19 — SetEdns0 (strip-all then re-attach one clamped copy), the edns handler's request and reply
   sides, and the composition with Cache.requestScope. *)
From Sdns Require Import Common.Base Gen.C19 C19.Model C19.Proofs_arith C19.Proofs_policy.
Open Scope N_scope.

(* ------------------------------------------------------------------ new_opts *)
Lemma last_ecs_in l e : last_ecs l = Some e -> In (OEcs e) l.
Proof.
  induction l as [|[x|c] l IH]; cbn; intros H; [discriminate| |right; auto].
  destruct (last_ecs l) as [e'|].
  - right. apply IH. exact H.
  - inversion H. left. reflexivity.
Qed.

Lemma last_ecs_none l : last_ecs l = None -> has_ecs l = false.
Proof.
  induction l as [|[x|c] l IH]; cbn; intros H; [reflexivity| |auto].
  destruct (last_ecs l); discriminate.
Qed.

(* the forwarded OPT carries nothing, or exactly one option: the clamp of a subnet option the client
   sent, and only for an eligible client *)
Lemma new_opts_shape p client l :
  new_opts p client l = [] \/
  exists cs f, new_opts p client l = [OEcs f] /\ allows p client = true /\ In (OEcs cs) l /\ clamp p (Some cs) = Some f.
Proof.
  unfold new_opts. destruct (allows p client) eqn:EA; [|left; reflexivity].
  destruct (last_ecs l) as [cs|] eqn:EL; [|left; reflexivity].
  destruct (clamp p (Some cs)) as [f|] eqn:EC; [|left; reflexivity].
  right. exists cs, f. repeat split; try reflexivity; try assumption. apply last_ecs_in. exact EL.
Qed.

Lemma new_opts_not_allowed p client l : allows p client = false -> new_opts p client l = [].
Proof. intros H. unfold new_opts. rewrite H. reflexivity. Qed.

Lemma new_opts_no_policy client l : new_opts None client l = [].
Proof. reflexivity. Qed.

Lemma new_opts_no_client_ecs p client l : has_ecs l = false -> new_opts p client l = [].
Proof.
  intros H. unfold new_opts. destruct (allows p client); [|reflexivity].
  destruct (last_ecs l) as [cs|] eqn:E; [|reflexivity].
  apply last_ecs_in in E. exfalso.
  unfold has_ecs in H. assert (existsb is_ecs l = true) as X by (apply existsb_exists; exists (OEcs cs); auto).
  congruence.
Qed.

(* ------------------------------------------------------------------ set_edns0, one OPT *)
Lemma has_opt_count l : has_opt l = false <-> count_opt l = O.
Proof.
  unfold has_opt, count_opt. induction l as [|[o|] l IH]; cbn; split; intros H; try reflexivity; try discriminate; apply IH; exact H.
Qed.

Lemma all_options_no_opt l : has_opt l = false -> all_options l = [].
Proof.
  unfold has_opt, all_options. induction l as [|[o|] l IH]; cbn; intros H; [reflexivity|discriminate|apply IH; exact H].
Qed.

Lemma all_options_opt o l : all_options (ROpt o :: l) = o_opts o ++ all_options l.
Proof. reflexivity. Qed.
Lemma all_options_other l : all_options (ROther :: l) = all_options l.
Proof. reflexivity. Qed.
Lemma last_opt_no_opt l : has_opt l = false -> last_opt l = None.
Proof. unfold has_opt. induction l as [|[x|] l IH]; cbn; intros H; [reflexivity|discriminate|auto]. Qed.

Lemma map_last_opt_single f l : count_opt l = 1%nat ->
  exists o, last_opt l = Some o /\ all_options l = o_opts o /\ all_options (map_last_opt f l) = o_opts (f o).
Proof.
  unfold count_opt. induction l as [|[o|] l IH]; cbn [filter is_opt length map_last_opt last_opt]; intros H; [discriminate| |].
  - inversion H as [H1]. assert (has_opt l = false) as HN by (apply has_opt_count; exact H1).
    rewrite HN. exists o. rewrite (last_opt_no_opt l HN). rewrite !all_options_opt.
    rewrite (all_options_no_opt l HN). rewrite !app_nil_r. auto.
  - destruct (IH H) as [o [E1 [E2 E3]]]. exists o. rewrite !all_options_other. auto.
Qed.

(* at most one OPT record in the query: after SetEdns0 every option anywhere in the additional
   section is what new_opts produced *)
Lemma set_edns0_single p client extra : (count_opt extra <= 1)%nat ->
  all_options (set_edns0 p client extra) =
  match last_opt extra with Some o => new_opts p client (o_opts o) | None => [] end.
Proof.
  intros H. unfold set_edns0.
  destruct (has_opt extra) eqn:EH.
  - assert (count_opt extra = 1%nat) as H1.
    { destruct (count_opt extra) as [|[|n]] eqn:E; [|reflexivity|lia].
      apply has_opt_count in E. congruence. }
    destruct (map_last_opt_single (fun o => mk_optrr (o_version o) (new_opts p client (o_opts o))) extra H1) as [o [E1 [E2 E3]]].
    rewrite E1, E3. reflexivity.
  - unfold all_options. rewrite flat_map_app. cbn.
    fold (all_options extra). rewrite (all_options_no_opt extra EH).
    rewrite (last_opt_no_opt extra EH). reflexivity.
Qed.

Lemma last_opt_in_all extra o x : last_opt extra = Some o -> In x (o_opts o) -> In x (all_options extra).
Proof.
  unfold all_options. induction extra as [|[o'|] l IH]; cbn; intros H Hx; [discriminate| |auto].
  apply in_or_app. destruct (last_opt l) as [o''|] eqn:E.
  - right. apply IH; assumption.
  - inversion H; subst. left. exact Hx.
Qed.

(* upstream_ecs_only_when_allowed *)
Lemma upstream_ecs_only_when_allowed_lemma p client extra e :
  (count_opt extra <= 1)%nat ->
  In (OEcs e) (all_options (set_edns0 p client extra)) ->
  allows p client = true /\ exists cs, In (OEcs cs) (all_options extra) /\ clamp p (Some cs) = Some e.
Proof.
  intros H1 Hin. rewrite set_edns0_single in Hin by exact H1.
  destruct (last_opt extra) as [o|] eqn:EL; [|destruct Hin].
  destruct (new_opts_shape p client (o_opts o)) as [E|[cs [f [E [HA [HI HC]]]]]]; rewrite E in Hin; [destruct Hin|].
  destruct Hin as [Hin|[]]. inversion Hin; subst f. split; [exact HA|].
  exists cs. split; [|exact HC]. eapply last_opt_in_all; eassumption.
Qed.

(* all_client_options_stripped (single OPT) *)
Lemma all_client_options_stripped_lemma p client extra :
  (count_opt extra <= 1)%nat ->
  let out := all_options (set_edns0 p client extra) in
  (forall o, In o out -> exists e, o = OEcs e) /\ (length out <= 1)%nat /\
  (allows p client = false -> out = []) /\
  (has_ecs (all_options extra) = false -> out = []).
Proof.
  intros H1. cbn. rewrite set_edns0_single by exact H1.
  destruct (last_opt extra) as [o|] eqn:EL.
  - destruct (new_opts_shape p client (o_opts o)) as [E|[cs [f [E [HA [HI HC]]]]]]; rewrite E.
    + repeat split; auto. intros x [].
    + repeat split.
      * intros x [Hx|[]]. exists f. auto.
      * cbn. lia.
      * intros HF. congruence.
      * intros HF. exfalso. assert (In (OEcs cs) (all_options extra)) as X by (eapply last_opt_in_all; eassumption).
        unfold has_ecs in HF. assert (existsb is_ecs (all_options extra) = true) as Y by (apply existsb_exists; exists (OEcs cs); auto).
        congruence.
  - repeat split; auto. intros x [].
Qed.

(* ... and the statement without the single-OPT premise is false of the code: the witness is a
   query with two OPT records, no policy at all *)
Definition two_opt_query : list rr :=
  [ROpt (mk_optrr 0 [OEcs (mk_ecs 1 32 0 (mk_ipb 4 3405803853)); OOther 10]); ROpt (mk_optrr 0 [])].
Lemma all_client_options_stripped_refuted_lemma :
  exists extra, all_options (set_edns0 None None extra) <> [] /\
                In (OEcs (mk_ecs 1 32 0 (mk_ipb 4 3405803853))) (all_options (set_edns0 None None extra)) /\
                client_has_ecs extra = false.
Proof. exists two_opt_query. vm_compute. repeat split; [discriminate|left; reflexivity]. Qed.

(* ------------------------------------------------------------------ the client-ECS marker *)
Lemma marker_set_when_client_sent_ecs b remote extra :
  (count_opt extra <= 1)%nat -> has_ecs (all_options extra) = true -> fst (edns_serve b remote extra) = true.
Proof.
  intros H1 HE. unfold edns_serve. cbn. unfold client_has_ecs.
  destruct (count_opt extra) as [|[|n]] eqn:EC; [| |lia].
  - apply has_opt_count in EC. rewrite (all_options_no_opt extra EC) in HE. discriminate.
  - destruct (map_last_opt_single (fun o => o) extra EC) as [o [E1 [E2 _]]]. rewrite E1. rewrite <- E2. exact HE.
Qed.

(* ------------------------------------------------------------------ replies *)
Lemma strip_last_single x : strip_last [x] = [0].
Proof. reflexivity. Qed.

(* no_ecs_to_client (at most one OPT in the downstream response) *)
Lemma no_ecs_to_client_lemma noedns trunc resp :
  (length resp <= 1)%nat -> forall n, In n (reply_ecs_counts noedns trunc resp) -> n = 0.
Proof.
  intros H n. unfold reply_ecs_counts. destruct noedns; [intros []|].
  destruct resp as [|x [|y r]]; cbn in H; [| |lia]; destruct trunc; cbn; intros [Hn|[]]; auto.
Qed.

Lemma no_ecs_to_client_refuted_lemma :
  exists resp, reply_ecs_counts false false resp = [1; 0] /\ reply_ecs_counts false true resp = [1].
Proof.
  exists [[OEcs (mk_ecs 1 24 24 (mk_ipb 4 3405803776))]; []]. split; reflexivity.
Qed.

(* BADVERS answers with what SetEdns0 left on the request: with forwarding on, that is the clamped
   subnet option *)
Lemma badvers_reflects_ecs_refuted_lemma :
  exists b remote extra, badvers_reply_counts b remote extra = [1].
Proof.
  exists (mk_bargs true 0 0 0 0 []), (mk_ipb 4 3405803853),
         [ROpt (mk_optrr 1 [OEcs (mk_ecs 1 32 0 (mk_ipb 4 3405803853))])].
  vm_compute. reflexivity.
Qed.
(* with forwarding off nothing is reflected *)
Lemma badvers_clean_without_policy b remote extra :
  policy_of b = None -> (count_opt extra <= 1)%nat -> forall n, In n (badvers_reply_counts b remote extra) -> n = 0.
Proof.
  intros HP H1 n. unfold badvers_reply_counts. rewrite HP.
  pose proof (set_edns0_single None (addr_from_slice_unmap remote) extra H1) as HS.
  assert (all_options (set_edns0 None (addr_from_slice_unmap remote) extra) = []) as HE.
  { rewrite HS. destruct (last_opt extra); reflexivity. }
  clear HS. revert HE. generalize (set_edns0 None (addr_from_slice_unmap remote) extra) as l.
  unfold opt_ecs_counts, all_options. induction l as [|[o|] l IH]; cbn; intros HE Hin; [destruct Hin| |auto].
  apply app_eq_nil in HE. destruct HE as [E1 E2]. destruct Hin as [Hin|Hin]; [|auto].
  rewrite E1 in Hin. cbn in Hin. auto.
Qed.

(* ------------------------------------------------------------------ edns + cache agree *)
Lemma ip_to_addr_eq_unmap ip : ip_to_addr ip = addr_from_slice_unmap ip.
Proof. unfold ip_to_addr, addr_from_slice_unmap. destruct (ipb_len ip =? 4); [reflexivity|]. destruct (ipb_len ip =? 16); reflexivity. Qed.

Lemma addr_slice_roundtrip is4 v : v < 2 ^ 32 \/ is4 = false ->
  is4 = true \/ is_mapped v = false ->
  addr_from_slice_unmap (addr_slice is4 v) = Some (mk_addr is4 v).
Proof.
  intros H1 H2. unfold addr_from_slice_unmap, addr_slice. destruct is4; cbn; [reflexivity|].
  destruct H2 as [H2|H2]; [discriminate|]. rewrite H2. reflexivity.
Qed.

(* whatever the edns layer forwards, the cache derives a request scope from it (so an answer to a
   query that carried a subnet option is never filed as if none had been sent), and that scope is
   the forwarded prefix *)
Lemma forwarded_ecs_has_request_scope p client l f :
  new_opts p client l = [OEcs f] ->
  exists a, ip_to_addr (e_addr f) = Some a /\
            request_scope p client (Some [OEcs f]) = Some (mk_pfx (a_is4 a) (mask_val (a_is4 a) (a_val a) (e_mask f)) (e_mask f)) /\
            e_mask f <= awidth (a_is4 a).
Proof.
  intros H. destruct (new_opts_shape p client l) as [E|[cs [f' [E [HA [HI HC]]]]]]; rewrite E in H; [discriminate|].
  inversion H; subst f'. destruct p as [pl|]; [|discriminate].
  pose proof (clamp_wf pl cs f HC) as W. destruct W as [a [is4 [w [ceil W]]]].
  destruct W as [EA [E4 [Ew [Ec [Ef [Ef2 [Em [Hc [Hi [Hw [Hs [Hl [Hz [Hn Hle]]]]]]]]]]]]]].
  (* the forwarded address parses back to itself *)
  unfold clamp in HC. rewrite EA in HC.
  assert (exists a', ip_to_addr (e_addr f) = Some a' /\ a_is4 a' = is4 /\ a_val a' = ipb_val (e_addr f)) as [a' [EA' [E4' EV']]].
  { change family_v4 with 1 in HC. change family_v6 with 2 in HC.
    destruct (N.eqb_spec (e_family cs) 1).
    - destruct (a_is4 a) eqn:X; [|discriminate]. apply clamp_with_wf in HC. rewrite X in HC.
      destruct HC as [_ [_ [_ [_ [Hlen Hval]]]]].
      exists (mk_addr true (ipb_val (e_addr f))). unfold ip_to_addr. rewrite Hlen. cbn. subst is4. auto.
    - destruct (N.eqb_spec (e_family cs) 2); [|discriminate].
      destruct (a_is4 a) eqn:X; cbn [negb] in HC; [discriminate|]. 
      unfold clamp_with in HC. destruct (addr_prefix a (N.min (e_mask cs) (pl_fwd6 pl))) as [px|] eqn:EP; [|discriminate].
      apply addr_prefix_some in EP. destruct EP as [Hb [Hpf [Hpb Hpv]]]. inversion HC; subst f; cbn in *.
      rewrite Hpf, X. cbn.
      exists (mk_addr false (p_val px)).
      unfold ip_to_addr in EA. destruct (ipb_len (e_addr cs) =? 4); [inversion EA; subst a; discriminate|].
      destruct (ipb_len (e_addr cs) =? 16); [|discriminate].
      destruct (is_mapped (ipb_val (e_addr cs))) eqn:EM0; [inversion EA; subst a; discriminate|].
      inversion EA; subst a. cbn in *.
      unfold ip_to_addr. cbn. rewrite Hpv.
      rewrite (masked_not_mapped _ _ Hb EM0). subst is4. auto. }
  exists a'. split; [exact EA'|]. unfold request_scope. rewrite HA. cbn.
  rewrite <- ip_to_addr_eq_unmap, EA'. rewrite E4'.
  assert (e_mask f <= awidth is4) as HW by (subst w; exact Hw).
  split; [|exact HW].
  unfold addr_prefix. rewrite E4'. apply N.ltb_ge in HW. rewrite HW. rewrite EV'. reflexivity.
Qed.

(* ------------------------------------------------------------------ invalid configuration *)
Lemma invalid_config_disables_lemma b : build_valid b = false ->
  policy_of b = None /\
  (forall client, allows (policy_of b) client = false) /\
  (forall i, clamp (policy_of b) i = None) /\
  (forall client l, new_opts (policy_of b) client l = []) /\
  (forall client extra, (count_opt extra <= 1)%nat -> all_options (set_edns0 (policy_of b) client extra) = []) /\
  (forall client opts, request_scope (policy_of b) client opts = None).
Proof.
  intros H. rewrite (build_invalid_none b H). repeat split; try reflexivity.
  intros client extra H1. rewrite set_edns0_single by exact H1. destruct (last_opt extra); reflexivity.
Qed.
