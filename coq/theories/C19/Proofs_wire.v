(* C19 — the byte path: the OPT record appendWireOPT writes, read back by an RFC 6891 reader, carries
   exactly the options the layer composed from its own facts — never a subnet option. *)
From Sdns Require Import Common.Base Common.GoList Gen.C19 C19.Model C19.WireOpt.
Open Scope N_scope.

(* ------------------------------------------------------------------ 16-bit fields *)
Lemma be16_put v : v < 65536 ->
  match go_put_be16 v with [hi; lo] => be16 hi lo = v | _ => False end.
Proof.
  intros H. unfold go_put_be16, be16.
  rewrite (N.mod_small (v / 256) 256) by (apply N.div_lt_upper_bound; lia).
  pose proof (N.div_mod v 256). lia.
Qed.

Lemma uw16_len {A} (d : list A) : N.of_nat (length d) < 65536 ->
  Z_to_uw two16 (go_len d) = N.of_nat (length d).
Proof.
  intros H. unfold Z_to_uw, two16, go_len. rewrite Z.mod_small by lia. lia.
Qed.

(* ------------------------------------------------------------------ the builders append *)
(* one option in wire form, as the translated builders write it *)
Definition opt_bytes (code : N) (data : list N) : list N :=
  go_put_be16 code ++ go_put_be16 (Z_to_uw two16 (go_len data)) ++ data.

Lemma gen_AppendOption b c d : go_AppendOption b c d = b ++ opt_bytes c d.
Proof. unfold go_AppendOption, opt_bytes. rewrite <- !app_assoc. reflexivity. Qed.

Lemma gen_AppendOptionString b c d : go_AppendOptionString b c d = b ++ opt_bytes c d.
Proof. unfold go_AppendOptionString, opt_bytes. rewrite <- !app_assoc. reflexivity. Qed.

Lemma gen_AppendOptionEDE b c t : go_AppendOptionEDE b c t = b ++ opt_bytes wire_code_ede (go_put_be16 c ++ t).
Proof.
  unfold go_AppendOptionEDE, opt_bytes. change wire_code_ede with 15. rewrite <- !app_assoc.
  replace (go_len (go_put_be16 c ++ t)) with (2 + go_len t)%Z by (unfold go_len; cbn [go_put_be16 app length]; lia).
  reflexivity.
Qed.

(* the fixed part: root owner, TYPE 41, CLASS = UDP size, TTL = DO bit only, and where RDLENGTH goes *)
Definition opt_fixed (udp : N) (do_ : bool) : list N :=
  [0] ++ go_put_be16 41 ++ go_put_be16 udp ++ go_put_be32 (if do_ then 32768 else 0).

Lemma gen_AppendOPTHeader b udp do_ :
  go_AppendOPTHeader b udp do_ = ((b ++ opt_fixed udp do_) ++ [0; 0], go_len (b ++ opt_fixed udp do_)).
Proof.
  unfold go_AppendOPTHeader, opt_fixed. destruct do_; cbn [N.lor]; rewrite <- !app_assoc; reflexivity.
Qed.

Lemma gen_FinishOPT p enc : N.of_nat (length enc) < 65536 ->
  go_FinishOPT ((p ++ [0; 0]) ++ enc) (go_len p) = p ++ go_put_be16 (N.of_nat (length enc)) ++ enc.
Proof.
  intros H. unfold go_FinishOPT.
  pose proof (go_len_nonneg p) as Hp.
  assert (go_len ((p ++ [0; 0]) ++ enc) = (go_len p + 2 + go_len enc)%Z) as HL.
  { rewrite !go_len_app. unfold go_len. cbn [length]. lia. }
  rewrite HL. pose proof (go_len_nonneg enc) as He.
  destruct (Z.ltb_spec (go_len p) 0) as [|_]; [lia|].
  destruct (Z.ltb_spec (go_len p + 2 + go_len enc) (go_len p + 2)) as [|_]; [lia|]. cbn [orb].
  replace (go_len p + 2 + go_len enc - go_len p - 2)%Z with (go_len enc) by lia.
  rewrite (uw16_len enc H).
  assert (Z.to_nat (go_len p) = length p) as EP by (unfold go_len; lia).
  unfold go_copy_at. rewrite EP.
  rewrite <- app_assoc. rewrite firstn_app, firstn_all, Nat.sub_diag, firstn_O, app_nil_r.
  rewrite !app_length. cbn [length go_put_be16].
  replace (Nat.min (length p + (2 + length enc) - length p) 2) with 2%nat by lia.
  cbn [firstn]. rewrite skipn_app.
  rewrite (skipn_all2 p) by lia. replace (length p + 2 - length p)%nat with 2%nat by lia.
  cbn [skipn app]. reflexivity.
Qed.

(* ------------------------------------------------------------------ appendWireOPT, in closed form *)
Definition enc_options (os : list (N * list N)) : list N := flat_map (fun o => opt_bytes (fst o) (snd o)) os.

Lemma enc_options_app a b : enc_options (a ++ b) = enc_options a ++ enc_options b.
Proof. unfold enc_options. apply flat_map_app. Qed.

Lemma enc_options_length os :
  length (enc_options os) = length (flat_map (fun o => 0 :: 0 :: 0 :: 0 :: snd o) os).
Proof.
  induction os as [|o r IH]; [reflexivity|]. unfold enc_options in *. cbn [flat_map]. rewrite !app_length, IH.
  unfold opt_bytes. rewrite !app_length. reflexivity.
Qed.

Lemma append_wire_opt_closed body f : wire_facts_ok f ->
  append_wire_opt body f =
  body ++ opt_fixed (wf_udp f) (wf_do f) ++
  go_put_be16 (N.of_nat (length (enc_options (expected_options f)))) ++ enc_options (expected_options f).
Proof.
  intros [_ [_ HL]]. rewrite <- enc_options_length in HL.
  unfold append_wire_opt. rewrite gen_AppendOPTHeader.
  set (p := body ++ opt_fixed (wf_udp f) (wf_do f)).
  assert (forall acc,
    go_FinishOPT
      (let b := (p ++ [0; 0]) ++ acc in
       let b := match wf_cookie f with Some c => go_AppendOption b wire_code_cookie c | None => b end in
       let b := match wf_nsid f with Some s => go_AppendOptionString b wire_code_nsid s | None => b end in
       let b := if wf_keepalive f then go_AppendOption b wire_code_keepalive (go_put_be16 tcp_keepalive_units) else b in
       let b := match wf_ede f with Some (c, t) => go_AppendOptionEDE b c t | None => b end in b) (go_len p)
    = go_FinishOPT ((p ++ [0; 0]) ++ acc ++ enc_options (expected_options f)) (go_len p)) as K.
  { intros acc. f_equal. unfold expected_options. cbv zeta.
    destruct (wf_cookie f) as [c|]; destruct (wf_nsid f) as [s|]; destruct (wf_keepalive f);
      destruct (wf_ede f) as [[ec et]|];
      rewrite ?gen_AppendOption, ?gen_AppendOptionString, ?gen_AppendOptionEDE;
      rewrite ?enc_options_app; unfold enc_options; cbn [flat_map fst snd];
      rewrite ?app_nil_r, <- ?app_assoc; reflexivity. }
  specialize (K []). rewrite app_nil_r in K. cbn [app] in K. rewrite K.
  rewrite (gen_FinishOPT p _ HL). subst p. rewrite <- app_assoc. reflexivity.
Qed.

(* ------------------------------------------------------------------ the composition, tied to the source *)
(* appendWireOPT calls the builders in this order — AppendOPTHeader, AppendOption (cookie),
   AppendOptionString (NSID), AppendOption (keepalive), AppendOptionEDE, FinishOPT — under these guards:
   w.cookie != "" || w.hasCookieRaw ; w.nsidstr != "" && w.nsid ; w.keepalive ; info.HasEDE.  An edit of
   the function that adds, drops or reorders a call or changes a guard changes Gen/C19.v and this lemma
   stops checking (WireOpt.append_wire_opt must then be revisited). *)
Lemma gen_append_wire_opt_shape :
  append_wire_opt_calls =
    [ [65;112;112;101;110;100;79;80;84;72;101;97;100;101;114];
      [65;112;112;101;110;100;79;112;116;105;111;110];
      [65;112;112;101;110;100;79;112;116;105;111;110;83;116;114;105;110;103];
      [65;112;112;101;110;100;79;112;116;105;111;110];
      [65;112;112;101;110;100;79;112;116;105;111;110;69;68;69];
      [70;105;110;105;115;104;79;80;84] ] /\
  append_wire_opt_guards =
    [ [119;46;99;111;111;107;105;101;32;33;61;32;34;34;32;124;124;32;119;46;104;97;115;67;111;111;107;105;101;82;97;119];
      [119;46;110;115;105;100;115;116;114;32;33;61;32;34;34;32;38;38;32;119;46;110;115;105;100];
      [119;46;107;101;101;112;97;108;105;118;101];
      [105;110;102;111;46;72;97;115;69;68;69] ] /\
  wire_code_cookie = 10 /\ wire_code_nsid = 3 /\ wire_code_keepalive = 11 /\ wire_code_ede = 15 /\ ecs_option_code = 8 /\
  opt_fixed_len = 11 /\ opt_option_hdr_len = 4.
Proof. repeat split; reflexivity. Qed.

Lemma wire_opt_composition :
  append_wire_opt_calls =
    [ [65;112;112;101;110;100;79;80;84;72;101;97;100;101;114];
      [65;112;112;101;110;100;79;112;116;105;111;110];
      [65;112;112;101;110;100;79;112;116;105;111;110;83;116;114;105;110;103];
      [65;112;112;101;110;100;79;112;116;105;111;110];
      [65;112;112;101;110;100;79;112;116;105;111;110;69;68;69];
      [70;105;110;105;115;104;79;80;84] ] /\
  wire_code_cookie = 10 /\ wire_code_nsid = 3 /\ wire_code_keepalive = 11 /\ wire_code_ede = 15 /\ ecs_option_code = 8.
Proof. pose proof gen_append_wire_opt_shape as H. tauto. Qed.

(* the sizes wireOPTLen reserves (OPTFixedLen, OPTOptionHdrLen per option) are the sizes written *)
Lemma opt_bytes_length c d : N.of_nat (length (opt_bytes c d)) = opt_option_hdr_len + N.of_nat (length d).
Proof. unfold opt_bytes, go_put_be16. rewrite !app_length. cbn [length]. change opt_option_hdr_len with 4. lia. Qed.
Lemma opt_fixed_length udp do_ : N.of_nat (length (opt_fixed udp do_ ++ [0; 0])) = opt_fixed_len.
Proof. reflexivity. Qed.

(* ------------------------------------------------------------------ reading it back *)
Definition opts_ok (os : list (N * list N)) : Prop :=
  forall o, In o os -> fst o < 65536 /\ N.of_nat (length (snd o)) < 65536.

Lemma read_options_enc os : forall fuel, opts_ok os -> (length os < fuel)%nat ->
  read_options fuel (enc_options os) = Some os.
Proof.
  induction os as [|[c d] r IH]; intros fuel Hok Hf.
  - destruct fuel; [lia|reflexivity].
  - destruct fuel as [|fuel]; [cbn in Hf; lia|].
    destruct (Hok (c, d) (or_introl eq_refl)) as [Hc Hd]. cbn [fst snd] in Hc, Hd.
    cbn [enc_options flat_map fst snd]. unfold opt_bytes at 1. rewrite (uw16_len d Hd).
    pose proof (be16_put c Hc) as B1. pose proof (be16_put (N.of_nat (length d)) Hd) as B2.
    unfold go_put_be16 in *. cbn [app read_options]. rewrite B1, B2. rewrite Nat2N.id.
    rewrite app_length.
    destruct (Nat.ltb_spec (length d + length (flat_map (fun o => opt_bytes (fst o) (snd o)) r)) (length d)) as [|_]; [lia|].
    rewrite skipn_app, (skipn_all2 d) by lia. rewrite Nat.sub_diag. cbn [skipn app].
    rewrite firstn_app, firstn_all, Nat.sub_diag, firstn_O, app_nil_r.
    fold (enc_options r). rewrite IH; [reflexivity| |cbn in Hf; lia].
    intros o Ho. apply Hok. right. exact Ho.
Qed.

Lemma enc_options_long os : (length os <= length (enc_options os))%nat.
Proof.
  induction os as [|o r IH]; [cbn; lia|]. unfold enc_options in *. cbn [flat_map length]. rewrite app_length.
  set (L := length (flat_map _ r)) in *. unfold opt_bytes, go_put_be16. cbn [app length]. lia.
Qed.

Lemma expected_options_ok f : wire_facts_ok f -> opts_ok (expected_options f).
Proof.
  intros [_ [He HL]] o Ho.
  assert (N.of_nat (length (snd o)) < 65536) as Hlen.
  { clear He. revert HL. generalize (expected_options f) Ho. intros os. induction os as [|x r IH]; [intros []|].
    intros [E|Hin] HL; cbn [flat_map] in HL; rewrite app_length in HL; cbn [length] in HL.
    - subst x. lia.
    - apply IH; [exact Hin|lia]. }
  split; [|exact Hlen].
  unfold expected_options in Ho. rewrite !in_app_iff in Ho.
  change wire_code_cookie with 10 in Ho. change wire_code_nsid with 3 in Ho.
  change wire_code_keepalive with 11 in Ho. change wire_code_ede with 15 in Ho.
  destruct Ho as [Ho|[Ho|[Ho|Ho]]].
  - destruct (wf_cookie f); [destruct Ho as [E|[]]; subst o; cbn; lia|destruct Ho].
  - destruct (wf_nsid f); [destruct Ho as [E|[]]; subst o; cbn; lia|destruct Ho].
  - destruct (wf_keepalive f); [destruct Ho as [E|[]]; subst o; cbn; lia|destruct Ho].
  - destruct (wf_ede f) as [[c t]|]; [destruct Ho as [E|[]]; subst o; cbn; lia|destruct Ho].
Qed.

(* the record appendWireOPT appends reads back as: the advertised UDP size, the client's DO bit, and
   exactly the options the layer composed *)
Lemma append_wire_opt_reads_back body f : wire_facts_ok f ->
  exists rr, append_wire_opt body f = body ++ rr /\
             read_opt_rr rr = Some (wf_udp f, wf_do f, expected_options f).
Proof.
  intros Hok. rewrite (append_wire_opt_closed body f Hok).
  eexists. split; [reflexivity|].
  pose proof Hok as [Hu [_ HL]]. rewrite <- enc_options_length in HL.
  set (enc := enc_options (expected_options f)) in *.
  unfold opt_fixed. pose proof (be16_put (wf_udp f) Hu) as BU. pose proof (be16_put (N.of_nat (length enc)) HL) as BL.
  unfold go_put_be16 in *. unfold go_put_be32. cbn [app read_opt_rr].
  change (be16 ((41 / 256) mod 256) (41 mod 256)) with 41. cbn [N.eqb Pos.eqb andb].
  rewrite BL, N.eqb_refl, BU.
  subst enc. rewrite read_options_enc.
  - destruct (wf_do f); reflexivity.
  - apply expected_options_ok. exact Hok.
  - pose proof (enc_options_long (expected_options f)). lia.
Qed.

(* ... so it never carries a client-subnet option, and its option codes are the ones Model.wire_reply_codes
   lists for a client that sent an OPT *)
Lemma expected_codes f :
  map fst (expected_options f) =
  match wire_reply_codes false (opt_some (wf_cookie f)) (opt_some (wf_nsid f)) (wf_keepalive f) (opt_some (wf_ede f)) with
  | Some l => l | None => [] end.
Proof.
  unfold expected_options, wire_reply_codes, opt_some.
  destruct (wf_cookie f), (wf_nsid f), (wf_keepalive f), (wf_ede f) as [[c t]|]; reflexivity.
Qed.

Lemma wire_opt_has_no_subnet_option body f : wire_facts_ok f ->
  exists rr udp do_ os, append_wire_opt body f = body ++ rr /\ read_opt_rr rr = Some (udp, do_, os) /\
                        ~ In ecs_option_code (map fst os).
Proof.
  intros Hok. destruct (append_wire_opt_reads_back body f Hok) as [rr [H1 H2]].
  exists rr, (wf_udp f), (wf_do f), (expected_options f). repeat split; try assumption.
  rewrite expected_codes. change ecs_option_code with 8.
  unfold wire_reply_codes. destruct (opt_some (wf_cookie f)), (opt_some (wf_nsid f)), (wf_keepalive f), (opt_some (wf_ede f));
    cbn; intuition discriminate.
Qed.

(* a concrete record: cookie, NSID "sdns", keepalive, EDE 3 "x" for a DO client *)
Example wire_opt_example :
  let f := mk_wire_facts 1232 true (Some (repeat 7 40)) (Some [115; 100; 110; 115]) true (Some (3, [120])) in
  read_opt_rr (skipn 12 (append_wire_opt (repeat 0 12) f)) =
  Some (1232, true, [(10, repeat 7 40); (3, [115; 100; 110; 115]); (11, [0; 80]); (15, [0; 3; 120])]).
Proof. vm_compute. reflexivity. Qed.
