(* C19 — arithmetic of masks and prefixes on N; translator ties. *)
From Sdns Require Import Common.Base Gen.C19 C19.Model.
Open Scope N_scope.

Lemma pow2_pos h : 0 < 2 ^ h.
Proof. apply N.neq_0_lt_0, N.pow_nonzero. discriminate. Qed.

(* clearing the low h bits = 2^h * (v / 2^h) *)
Lemma clear_alt v m : m <> 0 -> v - v mod m = m * (v / m).
Proof. intros Hm. pose proof (N.div_mod' v m) as H. pose proof (N.mod_le v m Hm). lia. Qed.

Lemma clear_mod v m : m <> 0 -> (v - v mod m) mod m = 0.
Proof. intros Hm. rewrite clear_alt by exact Hm. rewrite N.mul_comm. apply N.mod_mul. exact Hm. Qed.

Lemma clear_div v m : m <> 0 -> (v - v mod m) / m = v / m.
Proof. intros Hm. rewrite clear_alt by exact Hm. rewrite N.mul_comm. apply N.div_mul. exact Hm. Qed.

Lemma clear_le v m : v - v mod m <= v.
Proof. lia. Qed.

Lemma mask_val_alt is4 v b : mask_val is4 v b = 2 ^ (awidth is4 - b) * (v / 2 ^ (awidth is4 - b)).
Proof. unfold mask_val. apply clear_alt. apply N.pow_nonzero. discriminate. Qed.

(* host bits are zero *)
Lemma mask_val_host_zero is4 v b : mask_val is4 v b mod 2 ^ (awidth is4 - b) = 0.
Proof. unfold mask_val. apply clear_mod. apply N.pow_nonzero. discriminate. Qed.

(* network bits are kept *)
Lemma mask_val_net_kept is4 v b : mask_val is4 v b / 2 ^ (awidth is4 - b) = v / 2 ^ (awidth is4 - b).
Proof. unfold mask_val. apply clear_div. apply N.pow_nonzero. discriminate. Qed.

Lemma mask_val_le is4 v b : mask_val is4 v b <= v.
Proof. unfold mask_val. lia. Qed.

(* the masked value depends on the network bits only *)
Lemma mask_val_depends_on_net is4 v1 v2 b :
  v1 / 2 ^ (awidth is4 - b) = v2 / 2 ^ (awidth is4 - b) -> mask_val is4 v1 b = mask_val is4 v2 b.
Proof. intros H. rewrite !mask_val_alt, H. reflexivity. Qed.

(* a shorter prefix of a masked value is the shorter prefix of the value: for k <= b,
   (mask v b) / 2^(w-k) = v / 2^(w-k) *)
Lemma mask_val_coarser is4 v b k :
  k <= b -> b <= awidth is4 ->
  mask_val is4 v b / 2 ^ (awidth is4 - k) = v / 2 ^ (awidth is4 - k).
Proof.
  intros Hk Hb. rewrite mask_val_alt.
  set (w := awidth is4) in *.
  replace (w - k) with ((w - b) + (b - k)) by lia.
  rewrite N.pow_add_r.
  rewrite <- !N.div_div by (apply N.pow_nonzero; discriminate).
  f_equal. rewrite N.mul_comm. apply N.div_mul. apply N.pow_nonzero. discriminate.
Qed.

Lemma mask_val_idem is4 v b k :
  k <= b -> b <= awidth is4 -> mask_val is4 (mask_val is4 v b) k = mask_val is4 v k.
Proof. intros Hk Hb. apply mask_val_depends_on_net. apply mask_val_coarser; assumption. Qed.

(* masking an IPv6 address that is not IPv4-mapped never produces an IPv4-mapped one *)
Lemma masked_not_mapped v m : m <= 128 -> is_mapped v = false -> is_mapped (mask_val false v m) = false.
Proof.
  intros Hm H. unfold is_mapped in *. apply N.eqb_neq in H. apply N.eqb_neq. intros EM. 
  destruct (N.le_gt_cases 96 m) as [Hge|Hlt].
  - apply H. rewrite <- EM. symmetry.
    change (2 ^ 32) with (2 ^ (awidth false - 96)).
    apply (mask_val_coarser false v m 96); [exact Hge|exact Hm].
  - rewrite mask_val_alt in EM. cbn [awidth] in EM.
    assert (128 - m = 32 + N.succ (96 - m - 1)) as R by lia. rewrite R in EM. clear R.
    rewrite N.pow_add_r, N.pow_succ_r' in EM.
    set (q := v / (2 ^ 32 * (2 * 2 ^ (96 - m - 1)))) in *.
    replace (2 ^ 32 * (2 * 2 ^ (96 - m - 1)) * q) with ((2 * (2 ^ (96 - m - 1) * q)) * 2 ^ 32) in EM by ring.
    rewrite N.div_mul in EM by (apply N.pow_nonzero; discriminate).
    assert (N.even 65535 = true) as Hev by (rewrite <- EM; apply N.even_mul; left; reflexivity).
    discriminate.
Qed.

(* ------------------------------------------------------------------ addr_prefix *)
Lemma addr_prefix_some a b px :
  addr_prefix a b = Some px ->
  b <= awidth (a_is4 a) /\ p_is4 px = a_is4 a /\ p_bits px = b /\ p_val px = mask_val (a_is4 a) (a_val a) b.
Proof.
  unfold addr_prefix. destruct (awidth (a_is4 a) <? b) eqn:E; [discriminate|].
  intros H. inversion H; subst; cbn. repeat split. apply N.ltb_ge in E. exact E.
Qed.

Lemma addr_prefix_ok a b : b <= awidth (a_is4 a) ->
  addr_prefix a b = Some (mk_pfx (a_is4 a) (mask_val (a_is4 a) (a_val a) b) b).
Proof. intros H. unfold addr_prefix. apply N.ltb_ge in H. rewrite H. reflexivity. Qed.

(* ------------------------------------------------------------------ translator ties *)
Lemma gen_constants :
  default_forward_v4 = 24 /\ default_forward_v6 = 56 /\
  max_forward_v4 = 32 /\ max_forward_v6 = 128 /\ max_min_scope_v4 = 32 /\ max_min_scope_v6 = 128 /\
  family_v4 = 1 /\ family_v6 = 2 /\ query_source_scope = 0.
Proof. repeat split; reflexivity. Qed.

(* the one-line Go functions and conditions the model restates, tied by their source text: an edit
   of any of them changes Gen/C19.v and this lemma stops checking *)
Definition ascii (l : list N) : list N := l.
Lemma gen_source_texts :
  (* minScopeV4 = forwardV4 / minScopeV6 = forwardV6 when zero *)
  default_min_scope_v4_ref = [[102;111;114;119;97;114;100;86;52]] /\
  default_min_scope_v6_ref = [[102;111;114;119;97;114;100;86;54]] /\
  (* source := min(in.SourceNetmask, maxBit) *)
  clamp_source_expr = [[109;105;110;40;105;110;46;83;111;117;114;99;101;78;101;116;109;97;115;107;44;32;109;97;120;66;105;116;41]] /\
  (* ReadResponseScope: case 1 -> Is4, case 2 -> Is6 *)
  scope_family_v4_txt = [[49]] /\ scope_family_v6_txt = [[50]] /\
  (* minTTL = dnsutil.MinCacheTTL, maxTTL = dnsutil.MaxCacheTTL *)
  cache_min_ttl_ref = [[77;105;110;67;97;99;104;101;84;84;76]] /\
  cache_max_ttl_ref = [[77;97;120;67;97;99;104;101;84;84;76]] /\
  (* PrefetchEligible: return !e.scoped() ; scoped: return e.scope.IsValid() *)
  prefetch_eligible_body = [[33;101;46;115;99;111;112;101;100;40;41]] /\
  entry_scoped_body = [[101;46;115;99;111;112;101;46;73;115;86;97;108;105;100;40;41]] /\
  (* capTTL: scoped && s.cfg.ECSMaxTTL > 0 && ttl > s.cfg.ECSMaxTTL *)
  cap_ttl_cond = [[115;99;111;112;101;100;32;38;38;32;115;46;99;102;103;46;69;67;83;77;97;120;84;84;76;32;62;32;48;32;38;38;32;116;116;108;32;62;32;115;46;99;102;103;46;69;67;83;77;97;120;84;84;76]] /\
  (* CacheKey.Hash: !k.Scope.IsValid() || k.Scope.Bits() == 0 -> shared key *)
  key_shared_cond = [[33;107;46;83;99;111;112;101;46;73;115;86;97;108;105;100;40;41;32;124;124;32;107;46;83;99;111;112;101;46;66;105;116;115;40;41;32;61;61;32;48]] /\
  (* BufferWriter remote address 127, 0, 0, 255 *)
  internal_remote_ip_txt = [[49;50;55;44;32;48;44;32;48;44;32;50;53;53]].
Proof. repeat split; reflexivity. Qed.

Lemma gen_internal_client : internal_client = Some (mk_addr true (127 * 2 ^ 24 + 255)).
Proof. reflexivity. Qed.

(* TTLManager.Calculate as translated from the source is the clamp into [min, max] *)
Lemma gen_TTLManager_Calculate tm x : (T_TTLManager_min tm <= T_TTLManager_max tm)%Z ->
  go_TTLManager_Calculate tm x = Z.max (T_TTLManager_min tm) (Z.min (T_TTLManager_max tm) x).
Proof.
  intros H. unfold go_TTLManager_Calculate.
  destruct (Z.ltb_spec x (T_TTLManager_min tm)); [lia|].
  destruct (Z.ltb_spec (T_TTLManager_max tm) x); lia.
Qed.

Lemma ttl_manager_bounds : T_TTLManager_min ttl_manager = 5000000000%Z /\ T_TTLManager_max ttl_manager = 86400000000000%Z.
Proof. split; reflexivity. Qed.

(* chain order read from gen.go: the edns layer runs before the cache, and is not a client-only
   handler (so it is part of the queryer and prefetch sub-pipelines) *)
Definition n_edns : list N := [101;100;110;115].
Definition n_cache : list N := [99;97;99;104;101].
Definition name_eqb (a b : list N) : bool :=
  (length a =? length b)%nat && forallb (fun xy => fst xy =? snd xy) (combine a b).
Fixpoint index_of (n : list N) (l : list (list N)) (i : nat) : option nat :=
  match l with [] => None | x :: r => if name_eqb x n then Some i else index_of n r (S i) end.
Lemma gen_chain_order :
  match index_of n_edns handler_order 0, index_of n_cache handler_order 0 with
  | Some i, Some j => (i <? j)%nat
  | _, _ => false
  end = true /\ existsb (name_eqb n_edns) client_only = false.
Proof. split; vm_compute; reflexivity. Qed.
