(* C19 — ecs.Build / Allows / Clamp / ReadResponseScope / ClampScope. *)
From Sdns Require Import Common.Base Gen.C19 C19.Model C19.Proofs_arith.
Open Scope N_scope.

(* ------------------------------------------------------------------ Build *)
Definition nets_valid (l : list (option pfx)) : bool :=
  forallb (fun o => match o with Some _ => true | None => false end) l.
Definition build_valid (b : bargs) : bool :=
  b_enabled b && (b_f4 b <=? 32) && (b_f6 b <=? 128) && (b_m4 b <=? 32) && (b_m6 b <=? 128) && nets_valid (b_nets b).

Lemma parse_nets_none l : nets_valid l = false -> parse_nets l = None.
Proof.
  induction l as [|[p|] l IH]; cbn; intros H; [discriminate| |reflexivity].
  rewrite IH by exact H. reflexivity.
Qed.
Lemma parse_nets_some l : nets_valid l = true -> exists r, parse_nets l = Some r /\ map Some r = l.
Proof.
  induction l as [|[p|] l IH]; cbn; intros H; [exists []; auto| |discriminate].
  destruct (IH H) as [r [E1 E2]]. exists (p :: r). rewrite E1. cbn. rewrite E2. auto.
Qed.

(* fail closed: any out-of-range value, any malformed network, or enabled=false gives no policy *)
Lemma build_invalid_none b : build_valid b = false -> policy_of b = None.
Proof.
  unfold build_valid, policy_of, build. intros H.
  destruct (b_enabled b); cbn in *; [|reflexivity].
  change max_forward_v4 with 32. change max_forward_v6 with 128.
  change max_min_scope_v4 with 32. change max_min_scope_v6 with 128.
  change default_forward_v4 with 24. change default_forward_v6 with 56.
  destruct (N.eqb_spec (b_f4 b) 0) as [E4|E4].
  - rewrite E4 in H. cbn in H.
    destruct (N.eqb_spec (b_f6 b) 0) as [E6|E6].
    + rewrite E6 in H. cbn in H.
      destruct (N.eqb_spec (b_m4 b) 0) as [M4|M4].
      * rewrite M4 in H. cbn in H.
        destruct (N.eqb_spec (b_m6 b) 0) as [M6|M6].
        -- rewrite M6 in H. cbn in H. rewrite parse_nets_none by exact H. reflexivity.
        -- cbn. destruct (N.ltb_spec 128 (b_m6 b)); [reflexivity|].
           assert (b_m6 b <=? 128 = true) as X by (apply N.leb_le; lia). rewrite X in H. cbn in H.
           rewrite parse_nets_none by exact H. reflexivity.
      * cbn. destruct (N.ltb_spec 32 (b_m4 b)); [reflexivity|].
        assert (b_m4 b <=? 32 = true) as X by (apply N.leb_le; lia). rewrite X in H. cbn in H.
        destruct (N.eqb_spec (b_m6 b) 0) as [M6|M6].
        -- rewrite M6 in H. cbn in H. cbn. rewrite parse_nets_none by exact H. reflexivity.
        -- destruct (N.ltb_spec 128 (b_m6 b)); [reflexivity|].
           assert (b_m6 b <=? 128 = true) as Y by (apply N.leb_le; lia). rewrite Y in H. cbn in H.
           rewrite parse_nets_none by exact H. reflexivity.
    + cbn. destruct (N.ltb_spec 128 (b_f6 b)); [reflexivity|].
      assert (b_f6 b <=? 128 = true) as X by (apply N.leb_le; lia). rewrite X in H. cbn in H.
      destruct (N.eqb_spec (b_m4 b) 0) as [M4|M4].
      * rewrite M4 in H. cbn in H. cbn.
        destruct (N.eqb_spec (b_m6 b) 0) as [M6|M6].
        -- rewrite M6 in H. cbn in H. destruct (128 <? b_f6 b); [reflexivity|]. rewrite parse_nets_none by exact H. reflexivity.
        -- destruct (N.ltb_spec 128 (b_m6 b)); [reflexivity|].
           assert (b_m6 b <=? 128 = true) as Y by (apply N.leb_le; lia). rewrite Y in H. cbn in H.
           rewrite parse_nets_none by exact H. reflexivity.
      * destruct (N.ltb_spec 32 (b_m4 b)); [reflexivity|].
        assert (b_m4 b <=? 32 = true) as Y by (apply N.leb_le; lia). rewrite Y in H. cbn in H.
        destruct (N.eqb_spec (b_m6 b) 0) as [M6|M6].
        -- rewrite M6 in H. cbn in H. destruct (128 <? b_f6 b); [reflexivity|]. rewrite parse_nets_none by exact H. reflexivity.
        -- destruct (N.ltb_spec 128 (b_m6 b)); [reflexivity|].
           assert (b_m6 b <=? 128 = true) as Z by (apply N.leb_le; lia). rewrite Z in H. cbn in H.
           rewrite parse_nets_none by exact H. reflexivity.
  - destruct (N.ltb_spec 32 (b_f4 b)); [reflexivity|].
    assert (b_f4 b <=? 32 = true) as X by (apply N.leb_le; lia). rewrite X in H. cbn in H.
    clear X.
    destruct (N.eqb_spec (b_f6 b) 0) as [E6|E6].
    + rewrite E6 in H. cbn in H. cbn.
      destruct (N.eqb_spec (b_m4 b) 0) as [M4|M4].
      * rewrite M4 in H. cbn in H.
        destruct (32 <? b_f4 b); [reflexivity|].
        destruct (N.eqb_spec (b_m6 b) 0) as [M6|M6].
        -- rewrite M6 in H. cbn in H. cbn. rewrite parse_nets_none by exact H. reflexivity.
        -- destruct (N.ltb_spec 128 (b_m6 b)); [reflexivity|].
           assert (b_m6 b <=? 128 = true) as Y by (apply N.leb_le; lia). rewrite Y in H. cbn in H.
           rewrite parse_nets_none by exact H. reflexivity.
      * destruct (N.ltb_spec 32 (b_m4 b)); [reflexivity|].
        assert (b_m4 b <=? 32 = true) as Y by (apply N.leb_le; lia). rewrite Y in H. cbn in H.
        destruct (N.eqb_spec (b_m6 b) 0) as [M6|M6].
        -- rewrite M6 in H. cbn in H. cbn. rewrite parse_nets_none by exact H. reflexivity.
        -- destruct (N.ltb_spec 128 (b_m6 b)); [reflexivity|].
           assert (b_m6 b <=? 128 = true) as Z by (apply N.leb_le; lia). rewrite Z in H. cbn in H.
           rewrite parse_nets_none by exact H. reflexivity.
    + destruct (N.ltb_spec 128 (b_f6 b)); [reflexivity|].
      assert (b_f6 b <=? 128 = true) as X by (apply N.leb_le; lia). rewrite X in H. cbn in H.
      destruct (N.eqb_spec (b_m4 b) 0) as [M4|M4].
      * rewrite M4 in H. cbn in H.
        destruct (32 <? b_f4 b); [reflexivity|].
        destruct (N.eqb_spec (b_m6 b) 0) as [M6|M6].
        -- rewrite M6 in H. cbn in H. destruct (128 <? b_f6 b); [reflexivity|]. rewrite parse_nets_none by exact H. reflexivity.
        -- destruct (N.ltb_spec 128 (b_m6 b)); [reflexivity|].
           assert (b_m6 b <=? 128 = true) as Y by (apply N.leb_le; lia). rewrite Y in H. cbn in H.
           rewrite parse_nets_none by exact H. reflexivity.
      * destruct (N.ltb_spec 32 (b_m4 b)); [reflexivity|].
        assert (b_m4 b <=? 32 = true) as Y by (apply N.leb_le; lia). rewrite Y in H. cbn in H.
        destruct (N.eqb_spec (b_m6 b) 0) as [M6|M6].
        -- rewrite M6 in H. cbn in H. destruct (128 <? b_f6 b); [reflexivity|]. rewrite parse_nets_none by exact H. reflexivity.
        -- destruct (N.ltb_spec 128 (b_m6 b)); [reflexivity|].
           assert (b_m6 b <=? 128 = true) as Z by (apply N.leb_le; lia). rewrite Z in H. cbn in H.
           rewrite parse_nets_none by exact H. reflexivity.
Qed.

(* what a successfully built policy looks like *)
Lemma build_ok_shape b p : build b = BuildOk p ->
  b_enabled b = true /\ pl_enabled p = true /\
  1 <= pl_fwd4 p <= 32 /\ 1 <= pl_fwd6 p <= 128 /\ 1 <= pl_min4 p <= 32 /\ 1 <= pl_min6 p <= 128 /\
  pl_fwd4 p = (if b_f4 b =? 0 then 24 else b_f4 b) /\ pl_fwd6 p = (if b_f6 b =? 0 then 56 else b_f6 b) /\
  pl_min4 p = (if b_m4 b =? 0 then pl_fwd4 p else b_m4 b) /\ pl_min6 p = (if b_m6 b =? 0 then pl_fwd6 p else b_m6 b) /\
  map Some (pl_nets p) = b_nets b.
Proof.
  unfold build.
  change max_forward_v4 with 32. change max_forward_v6 with 128.
  change max_min_scope_v4 with 32. change max_min_scope_v6 with 128.
  change default_forward_v4 with 24. change default_forward_v6 with 56.
  destruct (b_enabled b); cbn [negb]; [|discriminate].
  set (f4 := if b_f4 b =? 0 then 24 else b_f4 b).
  destruct (N.ltb_spec 32 f4) as [|H4]; [discriminate|].
  set (f6 := if b_f6 b =? 0 then 56 else b_f6 b).
  destruct (N.ltb_spec 128 f6) as [|H6]; [discriminate|].
  set (m4 := if b_m4 b =? 0 then f4 else b_m4 b).
  destruct (N.ltb_spec 32 m4) as [|M4]; [discriminate|].
  set (m6 := if b_m6 b =? 0 then f6 else b_m6 b).
  destruct (N.ltb_spec 128 m6) as [|M6]; [discriminate|].
  destruct (parse_nets (b_nets b)) as [nets|] eqn:EN; [|discriminate].
  intros H. inversion H; subst p; cbn.
  assert (1 <= f4) by (subst f4; destruct (N.eqb_spec (b_f4 b) 0); lia).
  assert (1 <= f6) by (subst f6; destruct (N.eqb_spec (b_f6 b) 0); lia).
  assert (1 <= m4) by (subst m4; destruct (N.eqb_spec (b_m4 b) 0); lia).
  assert (1 <= m6) by (subst m6; destruct (N.eqb_spec (b_m6 b) 0); lia).
  repeat split; try lia; try reflexivity.
  clear -EN. revert nets EN. induction (b_nets b) as [|[q|] l IH]; cbn; intros nets EN.
  - inversion EN. reflexivity.
  - destruct (parse_nets l) as [r|]; [|discriminate]. inversion EN. cbn. rewrite (IH r eq_refl). reflexivity.
  - discriminate.
Qed.

Lemma policy_of_some b p : policy_of b = Some p -> build b = BuildOk p.
Proof. unfold policy_of. destruct (build b); intros H; inversion H. reflexivity. Qed.

(* ------------------------------------------------------------------ Allows *)
Lemma allows_nil client : allows None client = false.
Proof. reflexivity. Qed.

Lemma allows_true p client : allows p client = true ->
  exists pl c, p = Some pl /\ pl_enabled pl = true /\ client = Some c /\
               (pl_nets pl = [] \/ exists n, In n (pl_nets pl) /\ pfx_contains n c = true).
Proof.
  unfold allows. destruct p as [pl|]; [|discriminate].
  destruct (pl_enabled pl) eqn:E; cbn; [|discriminate].
  destruct client as [c|]; [|discriminate].
  intros H. exists pl, c. repeat split; try assumption.
  destruct (pl_nets pl) as [|n0 r] eqn:EN; [left; reflexivity|right].
  change (existsb (fun n => pfx_contains n c) (n0 :: r) = true) in H.
  apply existsb_exists in H. exact H.
Qed.

(* ------------------------------------------------------------------ Clamp *)
(* the statement of forwarded_prefix_bounded, as a predicate on (input, output, ceilings) *)
Definition forwarded_wf (c4 c6 : N) (i out : ecs) : Prop :=
  exists a is4 w ceil,
    ip_to_addr (e_addr i) = Some a /\ a_is4 a = is4 /\ w = awidth is4 /\ ceil = (if is4 then c4 else c6) /\
    e_family i = e_family out /\ e_family out = (if is4 then 1 else 2) /\
    e_mask out = N.min (e_mask i) ceil /\ e_mask out <= ceil /\ e_mask out <= e_mask i /\ e_mask out <= w /\
    e_scope out = 0 /\
    ipb_len (e_addr out) = (if is4 then 4 else 16) /\
    ipb_val (e_addr out) mod 2 ^ (w - e_mask out) = 0 /\
    ipb_val (e_addr out) / 2 ^ (w - e_mask out) = a_val a / 2 ^ (w - e_mask out) /\
    ipb_val (e_addr out) <= a_val a.

Lemma clamp_with_wf a fam maxb mask out :
  clamp_with a fam maxb mask = Some out ->
  e_family out = fam /\ e_mask out = N.min mask maxb /\ e_mask out <= awidth (a_is4 a) /\ e_scope out = 0 /\
  ipb_len (e_addr out) = (if a_is4 a then 4 else 16) /\
  ipb_val (e_addr out) = mask_val (a_is4 a) (a_val a) (e_mask out).
Proof.
  unfold clamp_with. destruct (addr_prefix a (N.min mask maxb)) as [px|] eqn:E; [|discriminate].
  apply addr_prefix_some in E. destruct E as [Hb [Hf [Hbits Hv]]].
  intros H. inversion H; subst out; cbn. rewrite Hf, Hv. repeat split; try reflexivity; assumption.
Qed.

Lemma clamp_wf p i out : clamp (Some p) (Some i) = Some out -> forwarded_wf (pl_fwd4 p) (pl_fwd6 p) i out.
Proof.
  unfold clamp. destruct (ip_to_addr (e_addr i)) as [a|] eqn:EA; [|discriminate].
  change family_v4 with 1. change family_v6 with 2.
  destruct (N.eqb_spec (e_family i) 1) as [F1|F1].
  - destruct (a_is4 a) eqn:E4; [|discriminate]. intros H. apply clamp_with_wf in H.
    destruct H as [Hf [Hm [Hw [Hs [Hl Hv]]]]]. rewrite E4 in *.
    exists a, true, 32, (pl_fwd4 p). cbn [awidth] in *.
    repeat split; try assumption; try congruence; try lia.
    + rewrite Hv. apply (mask_val_host_zero true).
    + rewrite Hv. apply (mask_val_net_kept true).
    + rewrite Hv. apply mask_val_le.
  - destruct (N.eqb_spec (e_family i) 2) as [F2|F2]; [|discriminate].
    destruct (a_is4 a) eqn:E4; cbn [negb]; [discriminate|]. intros H. apply clamp_with_wf in H.
    destruct H as [Hf [Hm [Hw [Hs [Hl Hv]]]]]. rewrite E4 in *.
    exists a, false, 128, (pl_fwd6 p). cbn [awidth] in *.
    repeat split; try assumption; try congruence; try lia.
    + rewrite Hv. apply (mask_val_host_zero false).
    + rewrite Hv. apply (mask_val_net_kept false).
    + rewrite Hv. apply mask_val_le.
Qed.

Lemma clamp_none_policy i : clamp None i = None.
Proof. reflexivity. Qed.

(* privacy as non-interference: what is forwarded depends on the client's address only through its
   top min(source length, ceiling) bits *)
Lemma clamp_reveals_only_prefix p i1 i2 a1 a2 :
  ip_to_addr (e_addr i1) = Some a1 -> ip_to_addr (e_addr i2) = Some a2 ->
  a_is4 a1 = a_is4 a2 -> e_family i1 = e_family i2 -> e_mask i1 = e_mask i2 ->
  (let ceil := if a_is4 a1 then pl_fwd4 p else pl_fwd6 p in
   let s := N.min (e_mask i1) ceil in
   a_val a1 / 2 ^ (awidth (a_is4 a1) - s) = a_val a2 / 2 ^ (awidth (a_is4 a1) - s)) ->
  clamp (Some p) (Some i1) = clamp (Some p) (Some i2).
Proof.
  intros E1 E2 Hf Hfam Hm Htop. unfold clamp. rewrite E1, E2, <- Hfam, <- Hm, <- Hf.
  assert (forall fam maxb, (maxb = if a_is4 a1 then pl_fwd4 p else pl_fwd6 p) ->
            clamp_with a1 fam maxb (e_mask i1) = clamp_with a2 fam maxb (e_mask i1)) as K.
  { intros fam maxb Hmb. unfold clamp_with, addr_prefix. rewrite <- Hf.
    destruct (awidth (a_is4 a1) <? N.min (e_mask i1) maxb); [reflexivity|].
    cbn. rewrite Hmb. cbn in Htop.
    rewrite (mask_val_depends_on_net (a_is4 a1) (a_val a1) (a_val a2)) by exact Htop. reflexivity. }
  destruct (e_family i1 =? family_v4).
  - destruct (a_is4 a1) eqn:E; [|reflexivity]. apply K. reflexivity.
  - destruct (e_family i1 =? family_v6); [|reflexivity].
    destruct (a_is4 a1) eqn:E; [reflexivity|]. cbn. apply K. reflexivity.
Qed.

(* ------------------------------------------------------------------ ReadResponseScope *)
Lemma read_response_scope_wf opts px : read_response_scope opts = Some px ->
  exists l sub a, opts = Some l /\ first_ecs l = Some sub /\ e_scope sub <> 0 /\
    ip_to_addr (e_addr sub) = Some a /\ e_family sub = (if a_is4 a then 1 else 2) /\
    p_is4 px = a_is4 a /\ p_bits px = N.min (e_scope sub) (awidth (a_is4 a)) /\
    p_bits px <= awidth (a_is4 a) /\ 1 <= p_bits px /\
    p_val px = mask_val (a_is4 a) (a_val a) (p_bits px).
Proof.
  unfold read_response_scope, scope_bits. destruct opts as [l|]; [|discriminate].
  destruct (first_ecs l) as [sub|] eqn:EF; [|discriminate].
  destruct (N.eqb_spec (e_scope sub) 0) as [|Hs]; [discriminate|].
  destruct (ip_to_addr (e_addr sub)) as [a|] eqn:EA; [|discriminate].
  change family_v4 with 1. change family_v6 with 2.
  destruct (N.eqb_spec (e_family sub) 1) as [F1|F1].
  - destruct (a_is4 a) eqn:E4; [|discriminate]. intros H. apply addr_prefix_some in H.
    destruct H as [Hb [Hf [Hbits Hv]]]. rewrite E4 in *. cbn [awidth] in *.
    exists l, sub, a. rewrite E4. cbn [awidth]. rewrite Hbits. repeat split; try assumption; try lia.
  - destruct (N.eqb_spec (e_family sub) 2) as [F2|F2]; [|discriminate].
    destruct (a_is4 a) eqn:E4; cbn [negb]; [discriminate|]. intros H. apply addr_prefix_some in H.
    destruct H as [Hb [Hf [Hbits Hv]]]. rewrite E4 in *. cbn [awidth] in *.
    exists l, sub, a. rewrite E4. cbn [awidth]. rewrite Hbits. repeat split; try assumption; try lia.
Qed.

(* the overlong SCOPE is read as the whole address: never an error for a well-formed option *)
Lemma read_response_scope_overlong l sub a :
  first_ecs l = Some sub -> e_scope sub <> 0 -> ip_to_addr (e_addr sub) = Some a ->
  e_family sub = (if a_is4 a then 1 else 2) ->
  exists px, read_response_scope (Some l) = Some px /\ p_bits px = N.min (e_scope sub) (awidth (a_is4 a)).
Proof.
  intros EF Hs EA Hfam. unfold read_response_scope, scope_bits. rewrite EF.
  destruct (N.eqb_spec (e_scope sub) 0) as [|_]; [contradiction|]. rewrite EA.
  change family_v4 with 1. change family_v6 with 2. rewrite Hfam.
  destruct (a_is4 a) eqn:E4; cbn [N.eqb Pos.eqb negb awidth].
  - rewrite addr_prefix_ok by (rewrite E4; cbn; lia). eexists. split; reflexivity.
  - rewrite addr_prefix_ok by (rewrite E4; cbn; lia). eexists. split; reflexivity.
Qed.

(* ------------------------------------------------------------------ ClampScope *)
Definition floor_bits (p : policy) (is4 : bool) : N := if is4 then pl_min4 p else pl_min6 p.

(* never more specific than the declared scope, than what was forwarded, or than the floor; the
   address is the declared one cut to the new length *)
Lemma clamp_scope_wf p sc source r :
  p_bits sc <= awidth (p_is4 sc) ->
  clamp_scope (Some p) (Some sc) source = Some r ->
  p_is4 r = p_is4 sc /\
  p_bits r = N.min (p_bits sc) (N.min (match source with Some s => p_bits s | None => p_bits sc end) (floor_bits p (p_is4 sc))) /\
  p_val r = mask_val (p_is4 sc) (p_val sc) (p_bits r).
Proof.
  intros Hok. unfold clamp_scope.
  set (b1 := match source with Some s => if p_bits s <? p_bits sc then p_bits s else p_bits sc | None => p_bits sc end).
  assert (b1 = N.min (p_bits sc) (match source with Some s => p_bits s | None => p_bits sc end)) as Hb1.
  { subst b1. destruct source as [s|]; [|lia]. destruct (N.ltb_spec (p_bits s) (p_bits sc)); lia. }
  assert (b1 <= 128) as H128.
  { rewrite Hb1. destruct (p_is4 sc); cbn in Hok; lia. }
  assert (wrap8 b1 = b1) as Hw.
  { unfold wrap8, two8. apply N.mod_small. lia. }
  rewrite Hw.
  set (b2 := if p_is4 sc then (if pl_min4 p <? b1 then pl_min4 p else b1) else (if pl_min6 p <? b1 then pl_min6 p else b1)).
  assert (b2 = N.min b1 (floor_bits p (p_is4 sc))) as Hb2.
  { subst b2. unfold floor_bits. destruct (p_is4 sc).
    - destruct (N.ltb_spec (pl_min4 p) b1); lia.
    - destruct (N.ltb_spec (pl_min6 p) b1); lia. }
  assert (b2 <= awidth (p_is4 sc)) as Hle by lia.
  rewrite addr_prefix_ok by (cbn; exact Hle). cbn.
  intros H. inversion H; subst r; cbn. repeat split; try reflexivity. lia.
Qed.

Lemma clamp_scope_bounds p sc source r :
  p_bits sc <= awidth (p_is4 sc) ->
  clamp_scope (Some p) (Some sc) source = Some r ->
  p_bits r <= p_bits sc /\ (forall s, source = Some s -> p_bits r <= p_bits s) /\ p_bits r <= floor_bits p (p_is4 sc).
Proof.
  intros Hok H. apply clamp_scope_wf in H; [|exact Hok]. destruct H as [_ [Hb _]].
  repeat split; try lia. intros s Hs. subst source. lia.
Qed.

Lemma clamp_scope_nil_policy scope source : clamp_scope None scope source = scope.
Proof. reflexivity. Qed.
