(* C19 — the exit in forwarder mode: every query that goes onto the wire carries the additional
   section the edns layer produced, whichever upstream, transport or retry it is. *)
From Sdns Require Import Common.Base Gen.C19 C19.Model C19.Proofs_arith C19.Proofs_policy C19.Proofs_edns C19.Exit.
Open Scope N_scope.

Lemma forwarder_sends_same cdw extra ups : forall i q,
  In q (forwarder_sends cdw extra i ups) -> wq_extra q = extra /\ wq_cd q = cdw.
Proof.
  induction ups as [|u r IH]; intros i q H; cbn [forwarder_sends] in H; [contradiction|].
  destruct H as [<-|H]; [split; reflexivity|].
  apply in_app_or in H. destruct H as [H|H].
  - destruct (ub_trunc u); [|contradiction]. destruct H as [<-|[]]. split; reflexivity.
  - destruct (ub_final u =? 0); [contradiction|]. eapply IH. exact H.
Qed.

(* the first configured upstream is always asked, over UDP *)
Lemma forwarder_sends_first cdw extra i u r :
  In (mk_wq i false cdw extra) (forwarder_sends cdw extra i (u :: r)).
Proof. cbn. left. reflexivity. Qed.

(* an upstream is asked only after every upstream configured before it has failed to give a usable
   response (SERVFAIL, or a response to another question) *)
Lemma forwarder_sends_servers cdw extra : forall ups i q,
  In q (forwarder_sends cdw extra i ups) ->
  i <= wq_server q /\ wq_server q < i + N.of_nat (length ups) /\
  (forall k, (k < N.to_nat (wq_server q - i))%nat -> exists u, nth_error ups k = Some u /\ ub_final u <> 0).
Proof.
  induction ups as [|u r IH]; intros i q H; cbn [forwarder_sends] in H; [contradiction|].
  assert (Hhere : wq_server q = i -> i <= wq_server q /\ wq_server q < i + N.of_nat (length (u :: r)) /\
            (forall k, (k < N.to_nat (wq_server q - i))%nat -> exists u0, nth_error (u :: r) k = Some u0 /\ ub_final u0 <> 0)).
  { intros E. rewrite E. cbn [length]. split; [lia|]. split; [lia|]. intros k Hk. lia. }
  destruct H as [<-|H]; [apply Hhere; reflexivity|].
  apply in_app_or in H. destruct H as [H|H].
  - destruct (ub_trunc u); [|contradiction]. destruct H as [<-|[]]. apply Hhere. reflexivity.
  - destruct (N.eqb_spec (ub_final u) 0) as [E|E]; [contradiction|].
    destruct (IH (i + 1) q H) as [A [B C]]. cbn [length]. split; [lia|]. split; [lia|].
    intros k Hk. destruct k as [|k]; [exists u; split; [reflexivity|exact E]|].
    cbn [nth_error]. apply C. lia.
Qed.

Lemma exit_forwarder_same b remote dnssec cd extra ups q :
  In q (exit_forwarder b remote dnssec cd extra ups) ->
  wq_extra q = set_edns0 (policy_of b) (addr_from_slice_unmap remote) extra /\
  wq_cd q = cd || negb dnssec.
Proof.
  unfold exit_forwarder, edns_serve. cbn [snd].
  destruct (match last_opt extra with Some o => negb (o_version o =? 0) | None => false end); [contradiction|].
  apply forwarder_sends_same.
Qed.

(* the statement of the property's first sentence at the point where queries leave the process *)
Lemma exit_forwarder_private b remote dnssec cd extra ups q :
  In q (exit_forwarder b remote dnssec cd extra ups) ->
  let client := addr_from_slice_unmap remote in
  let out := all_options (wq_extra q) in
  count_opt (wq_extra q) = 1%nat /\
  (forall o, In o out -> exists e, o = OEcs e /\ allows (policy_of b) client = true /\
                                   exists cs, In (OEcs cs) (all_options extra) /\ clamp (policy_of b) (Some cs) = Some e) /\
  (length out <= 1)%nat /\
  (allows (policy_of b) client = false -> out = []) /\
  (has_ecs (all_options extra) = false -> out = []) /\
  (build_valid b = false -> out = []).
Proof.
  intros H client out. destruct (exit_forwarder_same _ _ _ _ _ _ _ H) as [E _].
  subst out. rewrite E. fold client.
  destruct (all_client_options_stripped_lemma (policy_of b) client extra) as [A [B [C D]]].
  split; [apply set_edns0_one_opt|].
  split.
  { intros o Ho. destruct (A o Ho) as [e ->]. exists e. split; [reflexivity|].
    apply (upstream_ecs_only_when_allowed_lemma (policy_of b) client extra e Ho). }
  split; [exact B|]. split; [exact C|]. split; [exact D|].
  intros Hb. destruct (invalid_config_disables_lemma b Hb) as [_ [_ [_ [_ [F _]]]]]. apply F.
Qed.

Lemma exit_forwarder_retries_agree b remote dnssec cd extra ups q1 q2 :
  In q1 (exit_forwarder b remote dnssec cd extra ups) -> In q2 (exit_forwarder b remote dnssec cd extra ups) ->
  wq_extra q1 = wq_extra q2 /\ wq_cd q1 = wq_cd q2.
Proof.
  intros H1 H2. destruct (exit_forwarder_same _ _ _ _ _ _ _ H1) as [A1 B1].
  destruct (exit_forwarder_same _ _ _ _ _ _ _ H2) as [A2 B2]. split; congruence.
Qed.

Lemma exit_badvers_nothing_leaves b remote dnssec cd extra ups o :
  last_opt extra = Some o -> o_version o <> 0 -> exit_forwarder b remote dnssec cd extra ups = [].
Proof.
  intros H V. unfold exit_forwarder, edns_serve. cbn [snd]. rewrite H.
  destruct (N.eqb_spec (o_version o) 0); [contradiction|]. reflexivity.
Qed.

Lemma exit_reply_clean b remote extra : forall n, In n (exit_reply_counts b remote extra) -> n = 0.
Proof.
  unfold exit_reply_counts, edns_serve. cbn [snd]. intros n.
  destruct (match last_opt extra with Some o => negb (o_version o =? 0) | None => false end).
  - unfold badvers_reply_counts, badvers_reply_extra. destruct (last_opt extra); cbn; [|contradiction].
    intros [<-|[]]. reflexivity.
  - unfold reply_ecs_counts. destruct (negb (has_opt extra)); cbn; [contradiction|]. intros [<-|[]]. reflexivity.
Qed.

(* non-vacuity: an eligible client's /32 (and a cookie) behind a SERVFAIL upstream, one that truncates
   and then fails over TCP, and a third that answers: four queries leave, each with the /24 *)
Example exit_example :
  let b := mk_bargs true 0 0 0 0 [] in
  let q := [ROpt (mk_optrr 0 [OEcs (mk_ecs 1 32 0 (mk_ipb 4 3405803853)); OOther 10])] in
  let fw := [ROpt (mk_optrr 0 [OEcs (mk_ecs 1 24 0 (mk_ipb 4 3405803776))])] in
  exit_forwarder b (mk_ipb 4 3325256711) false false q [1; 4; 0] =
    [mk_wq 0 false true fw; mk_wq 1 false true fw; mk_wq 1 true true fw; mk_wq 2 false true fw] /\
  exit_forwarder (mk_bargs false 0 0 0 0 []) (mk_ipb 4 3325256711) false false q [5; 3] =
    [mk_wq 0 false true [ROpt (mk_optrr 0 [])]; mk_wq 0 true true [ROpt (mk_optrr 0 [])];
     mk_wq 1 false true [ROpt (mk_optrr 0 [])]; mk_wq 1 true true [ROpt (mk_optrr 0 [])]] /\
  exit_reply_counts b (mk_ipb 4 3325256711) q = [0].
Proof. vm_compute. repeat split; reflexivity. Qed.

(* ------------------------------------------------------------------ resolver mode *)
Lemma hop_sends_same own extra i h q : In q (hop_sends own extra i h) -> rq_own q = own /\ rq_extra q = extra /\ rq_server q = i.
Proof.
  unfold hop_sends. intros [<-|H]; [repeat split|].
  destruct (h =? 0); [contradiction|]. destruct H as [<-|[]]. repeat split.
Qed.

Lemma line_sends_same own extra : forall hops i q,
  In q (line_sends own extra i hops) -> rq_own q = own /\ rq_extra q = extra /\ i <= rq_server q < i + N.of_nat (length hops).
Proof.
  induction hops as [|h r IH]; intros i q H; cbn [line_sends] in H; [contradiction|].
  apply in_app_or in H. destruct H as [H|H].
  - destruct (hop_sends_same _ _ _ _ _ H) as [A [B C]]. cbn [length]. repeat split; auto; lia.
  - destruct (IH _ _ H) as [A [B C]]. cbn [length]. repeat split; auto; lia.
Qed.

(* every query is either on the client's own line with the rewritten request's additional section, or a
   question of the resolver's own with the sub-pipeline's *)
Lemma resolver_line_same out sub glueless : forall hops i q,
  In q (resolver_line out sub glueless i hops) ->
  (rq_own q = true /\ rq_extra q = out /\ i <= rq_server q < i + N.of_nat (length hops)) \/
  (rq_own q = false /\ rq_extra q = sub /\ glueless = true).
Proof.
  induction hops as [|h r IH]; intros i q H; [contradiction|].
  cbn [resolver_line] in H. destruct r as [|h2 r].
  - apply in_app_or in H. destruct H as [H|H].
    + destruct glueless; [|contradiction]. right.
      destruct (line_sends_same _ _ _ _ _ H) as [A [B _]]. auto.
    + left. destruct (hop_sends_same _ _ _ _ _ H) as [A [B C]]. cbn [length]. repeat split; auto; lia.
  - apply in_app_or in H. destruct H as [H|H].
    + left. destruct (hop_sends_same _ _ _ _ _ H) as [A [B C]]. cbn [length]. repeat split; auto; lia.
    + destruct (IH _ _ H) as [[A [B C]]|R]; [left|right; exact R].
      cbn [length] in *. repeat split; auto; lia.
Qed.

(* the first server of the chain is always asked, over UDP, on the client's line *)
Lemma resolver_line_first out sub glueless i h r :
  In (mk_rq true i false out) (resolver_line out sub glueless i (h :: r)).
Proof.
  cbn [resolver_line]. destruct r.
  - apply in_or_app. right. left. reflexivity.
  - apply in_or_app. left. left. reflexivity.
Qed.

(* with a glue-less delegation the resolver's own questions do occur (the statement about them is not vacuous) *)
Lemma resolver_line_sub_occurs out sub i h r :
  In (mk_rq false 0 false sub) (resolver_line out sub true i (h :: r)).
Proof.
  revert i h. induction r as [|h2 r IH]; intros i h.
  - cbn. left. reflexivity.
  - change (In (mk_rq false 0 false sub) (hop_sends true out i h ++ resolver_line out sub true (i + 1) (h2 :: r))).
    apply in_or_app. right. apply IH.
Qed.

Lemma sub_query_extra_shape b :
  sub_query_extra b = set_edns0 (policy_of b) (addr_from_slice_unmap internal_remote) [ROpt (mk_optrr 0 [])].
Proof. reflexivity. Qed.

(* nothing rides on a question of the resolver's own: one OPT, no option — whatever the policy *)
Lemma sub_query_extra_bare b : count_opt (sub_query_extra b) = 1%nat /\ all_options (sub_query_extra b) = [].
Proof.
  rewrite sub_query_extra_shape. split; [apply set_edns0_one_opt|].
  destruct (all_client_options_stripped_lemma (policy_of b) (addr_from_slice_unmap internal_remote) [ROpt (mk_optrr 0 [])]) as [_ [_ [_ D]]].
  apply D. reflexivity.
Qed.

Lemma internal_remote_is_internal_client : addr_from_slice_unmap internal_remote = internal_client.
Proof. vm_compute. reflexivity. Qed.

Lemma chase_line_same sub glueless alias q :
  In q (chase_line sub glueless alias) -> rq_own q = false /\ rq_extra q = sub /\ alias = true.
Proof.
  unfold chase_line. destruct alias; [|contradiction]. intros H.
  destruct glueless; destruct (line_sends_same _ _ _ _ _ H) as [A [B _]]; auto.
Qed.

Lemma exit_resolver_same b remote extra glueless alias hops q :
  In q (exit_resolver b remote extra glueless alias hops) ->
  (rq_own q = true /\ rq_extra q = set_edns0 (policy_of b) (addr_from_slice_unmap remote) extra /\
   rq_server q < N.of_nat (length hops)) \/
  (rq_own q = false /\ rq_extra q = sub_query_extra b /\ (glueless = true \/ alias = true)).
Proof.
  unfold exit_resolver, edns_serve. cbn [snd].
  destruct (match last_opt extra with Some o => negb (o_version o =? 0) | None => false end); [contradiction|].
  intros H. apply in_app_or in H. destruct H as [H|H].
  - destruct (resolver_line_same _ _ _ _ _ _ H) as [[A [B C]]|[A [B C]]]; [left|right; auto].
    repeat split; auto. lia.
  - right. destruct (chase_line_same _ _ _ _ H) as [A [B C]]. auto.
Qed.

(* an alias makes the process ask a question of its own (the statement about them is not vacuous) *)
Lemma exit_resolver_chase_occurs b remote extra glueless hops :
  (match last_opt extra with Some o => o_version o =? 0 | None => true end) = true ->
  exists q, In q (exit_resolver b remote extra glueless true hops) /\ rq_own q = false.
Proof.
  intros V. unfold exit_resolver, edns_serve. cbn [snd].
  replace (match last_opt extra with Some o => negb (o_version o =? 0) | None => false end) with false
    by (destruct (last_opt extra); [rewrite V|]; reflexivity).
  destruct glueless.
  - exists (mk_rq false 2 false (sub_query_extra b)). split; [|reflexivity].
    apply in_or_app. right. cbn. left. reflexivity.
  - exists (mk_rq false 0 false (sub_query_extra b)). split; [|reflexivity].
    apply in_or_app. right. cbn. left. reflexivity.
Qed.

(* the property's first sentence where queries leave the process in resolver mode *)
Lemma exit_resolver_private b remote extra glueless alias hops q :
  In q (exit_resolver b remote extra glueless alias hops) ->
  let client := addr_from_slice_unmap remote in
  let out := all_options (rq_extra q) in
  count_opt (rq_extra q) = 1%nat /\
  (rq_own q = false -> out = []) /\
  (forall o, In o out -> exists e, o = OEcs e /\ allows (policy_of b) client = true /\
                                   exists cs, In (OEcs cs) (all_options extra) /\ clamp (policy_of b) (Some cs) = Some e) /\
  (length out <= 1)%nat /\
  (allows (policy_of b) client = false -> out = []) /\
  (has_ecs (all_options extra) = false -> out = []) /\
  (build_valid b = false -> out = []).
Proof.
  intros H client out. destruct (exit_resolver_same _ _ _ _ _ _ _ H) as [[O [E _]]|[O [E _]]]; subst out; rewrite E.
  - fold client.
    destruct (all_client_options_stripped_lemma (policy_of b) client extra) as [A [B [C D]]].
    split; [apply set_edns0_one_opt|].
    split; [rewrite O; discriminate|].
    split.
    { intros o Ho. destruct (A o Ho) as [e ->]. exists e. split; [reflexivity|].
      apply (upstream_ecs_only_when_allowed_lemma (policy_of b) client extra e Ho). }
    split; [exact B|]. split; [exact C|]. split; [exact D|].
    intros Hb. destruct (invalid_config_disables_lemma b Hb) as [_ [_ [_ [_ [F _]]]]]. apply F.
  - destruct (sub_query_extra_bare b) as [C Z]. rewrite Z.
    split; [exact C|]. split; [reflexivity|]. split; [intros o []|].
    cbn. repeat split; auto; lia.
Qed.

Lemma exit_resolver_own_agree b remote extra glueless alias hops q1 q2 :
  In q1 (exit_resolver b remote extra glueless alias hops) -> In q2 (exit_resolver b remote extra glueless alias hops) ->
  rq_own q1 = rq_own q2 -> rq_extra q1 = rq_extra q2.
Proof.
  intros H1 H2 E.
  destruct (exit_resolver_same _ _ _ _ _ _ _ H1) as [[O1 [A1 _]]|[O1 [A1 _]]];
  destruct (exit_resolver_same _ _ _ _ _ _ _ H2) as [[O2 [A2 _]]|[O2 [A2 _]]]; congruence.
Qed.

Lemma exit_resolver_badvers b remote extra glueless alias hops o :
  last_opt extra = Some o -> o_version o <> 0 -> exit_resolver b remote extra glueless alias hops = [].
Proof.
  intros H V. unfold exit_resolver, edns_serve. cbn [snd]. rewrite H.
  destruct (N.eqb_spec (o_version o) 0); [contradiction|]. reflexivity.
Qed.

(* the resolver's own questions do not depend on the client at all: two clients, two additional sections,
   same configuration — the same octets *)
Lemma exit_resolver_sub_blind b r1 r2 e1 e2 g1 g2 a1 a2 h1 h2 q1 q2 :
  In q1 (exit_resolver b r1 e1 g1 a1 h1) -> In q2 (exit_resolver b r2 e2 g2 a2 h2) ->
  rq_own q1 = false -> rq_own q2 = false -> rq_extra q1 = rq_extra q2.
Proof.
  intros H1 H2 O1 O2.
  destruct (exit_resolver_same _ _ _ _ _ _ _ H1) as [[X _]|[_ [A1 _]]]; [congruence|].
  destruct (exit_resolver_same _ _ _ _ _ _ _ H2) as [[X _]|[_ [A2 _]]]; [congruence|]. congruence.
Qed.

(* non-vacuity: an eligible client's /32 and a cookie; glue-less delegation; the zone's server truncates;
   the name is an alias: root, TLD, three questions of the resolver's own (bare OPT), the zone's server
   over UDP and TCP, the chase (bare OPT) at the target zone's server; and without policy, with glue: the
   chase walks from the root *)
Example exit_resolver_example :
  let b := mk_bargs true 0 0 0 0 [] in
  let q := [ROpt (mk_optrr 0 [OEcs (mk_ecs 1 32 0 (mk_ipb 4 3405803853)); OOther 10])] in
  let fw := [ROpt (mk_optrr 0 [OEcs (mk_ecs 1 24 0 (mk_ipb 4 3405803776))])] in
  let bare := [ROpt (mk_optrr 0 [])] in
  exit_resolver b (mk_ipb 4 3325256711) q true true [0; 0; 1] =
    [mk_rq true 0 false fw; mk_rq true 1 false fw; mk_rq false 0 false bare; mk_rq false 1 false bare;
     mk_rq false 2 false bare; mk_rq true 2 false fw; mk_rq true 2 true fw; mk_rq false 2 false bare] /\
  exit_resolver (mk_bargs false 0 0 0 0 []) (mk_ipb 4 3325256711) q false true [1; 0; 0] =
    [mk_rq true 0 false bare; mk_rq true 0 true bare; mk_rq true 1 false bare; mk_rq true 2 false bare;
     mk_rq false 0 false bare; mk_rq false 1 false bare; mk_rq false 2 false bare].
Proof. vm_compute. split; reflexivity. Qed.
