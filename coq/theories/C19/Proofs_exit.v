(* C19 — the exit in forwarder mode: every query that goes onto the wire carries the additional
   section the edns layer produced, whichever upstream, transport or retry it is. *)
From Sdns Require Import Common.Base Gen.C19 C19.Model C19.Proofs_arith C19.Proofs_policy C19.Proofs_edns C19.Exit.
Open Scope N_scope.

Lemma forwarder_sends_same cdw extra ups : forall i q,
  In q (forwarder_sends cdw extra i ups) -> wq_extra q = extra /\ wq_cd q = cdw.
Proof.
  induction ups as [|u r IH]; intros i q H; cbn [forwarder_sends] in H; [contradiction|].
  destruct H as [<-|H]; [split; reflexivity|].
  apply in_app_or in H. destruct H as [H|H].
  - destruct (ub_trunc u); [|contradiction]. destruct H as [<-|[]]. split; reflexivity.
  - destruct (ub_final u =? 0); [contradiction|]. eapply IH. exact H.
Qed.

(* the first configured upstream is always asked, over UDP *)
Lemma forwarder_sends_first cdw extra i u r :
  In (mk_wq i false cdw extra) (forwarder_sends cdw extra i (u :: r)).
Proof. cbn. left. reflexivity. Qed.

(* an upstream is asked only after every upstream configured before it has failed to give a usable
   response (SERVFAIL, or a response to another question) *)
Lemma forwarder_sends_servers cdw extra : forall ups i q,
  In q (forwarder_sends cdw extra i ups) ->
  i <= wq_server q /\ wq_server q < i + N.of_nat (length ups) /\
  (forall k, (k < N.to_nat (wq_server q - i))%nat -> exists u, nth_error ups k = Some u /\ ub_final u <> 0).
Proof.
  induction ups as [|u r IH]; intros i q H; cbn [forwarder_sends] in H; [contradiction|].
  assert (Hhere : wq_server q = i -> i <= wq_server q /\ wq_server q < i + N.of_nat (length (u :: r)) /\
            (forall k, (k < N.to_nat (wq_server q - i))%nat -> exists u0, nth_error (u :: r) k = Some u0 /\ ub_final u0 <> 0)).
  { intros E. rewrite E. cbn [length]. split; [lia|]. split; [lia|]. intros k Hk. lia. }
  destruct H as [<-|H]; [apply Hhere; reflexivity|].
  apply in_app_or in H. destruct H as [H|H].
  - destruct (ub_trunc u); [|contradiction]. destruct H as [<-|[]]. apply Hhere. reflexivity.
  - destruct (N.eqb_spec (ub_final u) 0) as [E|E]; [contradiction|].
    destruct (IH (i + 1) q H) as [A [B C]]. cbn [length]. split; [lia|]. split; [lia|].
    intros k Hk. destruct k as [|k]; [exists u; split; [reflexivity|exact E]|].
    cbn [nth_error]. apply C. lia.
Qed.

Lemma exit_forwarder_same b remote dnssec cd extra ups q :
  In q (exit_forwarder b remote dnssec cd extra ups) ->
  wq_extra q = set_edns0 (policy_of b) (addr_from_slice_unmap remote) extra /\
  wq_cd q = cd || negb dnssec.
Proof.
  unfold exit_forwarder, edns_serve. cbn [snd].
  destruct (match last_opt extra with Some o => negb (o_version o =? 0) | None => false end); [contradiction|].
  apply forwarder_sends_same.
Qed.

(* the statement of the property's first sentence at the point where queries leave the process *)
Lemma exit_forwarder_private b remote dnssec cd extra ups q :
  In q (exit_forwarder b remote dnssec cd extra ups) ->
  let client := addr_from_slice_unmap remote in
  let out := all_options (wq_extra q) in
  count_opt (wq_extra q) = 1%nat /\
  (forall o, In o out -> exists e, o = OEcs e /\ allows (policy_of b) client = true /\
                                   exists cs, In (OEcs cs) (all_options extra) /\ clamp (policy_of b) (Some cs) = Some e) /\
  (length out <= 1)%nat /\
  (allows (policy_of b) client = false -> out = []) /\
  (has_ecs (all_options extra) = false -> out = []) /\
  (build_valid b = false -> out = []).
Proof.
  intros H client out. destruct (exit_forwarder_same _ _ _ _ _ _ _ H) as [E _].
  subst out. rewrite E. fold client.
  destruct (all_client_options_stripped_lemma (policy_of b) client extra) as [A [B [C D]]].
  split; [apply set_edns0_one_opt|].
  split.
  { intros o Ho. destruct (A o Ho) as [e ->]. exists e. split; [reflexivity|].
    apply (upstream_ecs_only_when_allowed_lemma (policy_of b) client extra e Ho). }
  split; [exact B|]. split; [exact C|]. split; [exact D|].
  intros Hb. destruct (invalid_config_disables_lemma b Hb) as [_ [_ [_ [_ [F _]]]]]. apply F.
Qed.

Lemma exit_forwarder_retries_agree b remote dnssec cd extra ups q1 q2 :
  In q1 (exit_forwarder b remote dnssec cd extra ups) -> In q2 (exit_forwarder b remote dnssec cd extra ups) ->
  wq_extra q1 = wq_extra q2 /\ wq_cd q1 = wq_cd q2.
Proof.
  intros H1 H2. destruct (exit_forwarder_same _ _ _ _ _ _ _ H1) as [A1 B1].
  destruct (exit_forwarder_same _ _ _ _ _ _ _ H2) as [A2 B2]. split; congruence.
Qed.

Lemma exit_badvers_nothing_leaves b remote dnssec cd extra ups o :
  last_opt extra = Some o -> o_version o <> 0 -> exit_forwarder b remote dnssec cd extra ups = [].
Proof.
  intros H V. unfold exit_forwarder, edns_serve. cbn [snd]. rewrite H.
  destruct (N.eqb_spec (o_version o) 0); [contradiction|]. reflexivity.
Qed.

Lemma exit_reply_clean b remote extra : forall n, In n (exit_reply_counts b remote extra) -> n = 0.
Proof.
  unfold exit_reply_counts, edns_serve. cbn [snd]. intros n.
  destruct (match last_opt extra with Some o => negb (o_version o =? 0) | None => false end).
  - unfold badvers_reply_counts, badvers_reply_extra. destruct (last_opt extra); cbn; [|contradiction].
    intros [<-|[]]. reflexivity.
  - unfold reply_ecs_counts. destruct (negb (has_opt extra)); cbn; [contradiction|]. intros [<-|[]]. reflexivity.
Qed.

(* non-vacuity: an eligible client's /32 (and a cookie) behind a SERVFAIL upstream, one that truncates
   and then fails over TCP, and a third that answers: four queries leave, each with the /24 *)
Example exit_example :
  let b := mk_bargs true 0 0 0 0 [] in
  let q := [ROpt (mk_optrr 0 [OEcs (mk_ecs 1 32 0 (mk_ipb 4 3405803853)); OOther 10])] in
  let fw := [ROpt (mk_optrr 0 [OEcs (mk_ecs 1 24 0 (mk_ipb 4 3405803776))])] in
  exit_forwarder b (mk_ipb 4 3325256711) false false q [1; 4; 0] =
    [mk_wq 0 false true fw; mk_wq 1 false true fw; mk_wq 1 true true fw; mk_wq 2 false true fw] /\
  exit_forwarder (mk_bargs false 0 0 0 0 []) (mk_ipb 4 3325256711) false false q [5; 3] =
    [mk_wq 0 false true [ROpt (mk_optrr 0 [])]; mk_wq 0 true true [ROpt (mk_optrr 0 [])];
     mk_wq 1 false true [ROpt (mk_optrr 0 [])]; mk_wq 1 true true [ROpt (mk_optrr 0 [])]] /\
  exit_reply_counts b (mk_ipb 4 3325256711) q = [0].
Proof. vm_compute. repeat split; reflexivity. Qed.
