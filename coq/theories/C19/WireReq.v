(* C19 — the strict (wire-born) entry: Request.parseWireOPT, the byte-level walk over the client's OPT
   that decides — without decoding the message — whether the query carried a client-subnet option
   (Request.HasECS, which edns.serveWire turns into the client-ECS marker of the request tree).
   Definitions only.  The walk itself is NOT restated: go_Request_parseWireOPT and its loop
   go_Request_parseWireOPT_loop1 are translated from /repo by srcgen (Gen/C19.v) on every run. *)
From Sdns Require Import Common.Base Common.GoList Gen.C19.
Open Scope Z_scope.

(* a request about which nothing is known yet but its octets: every flag false, every number 0, every
   other list empty.  Built field by field from the field TYPES, so that a field added to
   middleware.Request (or one more field the translator learns to carry) does not break the definition;
   blank_request_ok (Proofs_wirereq.v) checks that the fields the walk reads came out right. *)
Definition blank_request (raw : list N) : T_Request :=
  ltac:(repeat first [ exact raw | exact false | exact 0%N | exact 0%Z | exact nil | constructor ]).

(* Request.parseWireOPT(off) on a fresh request: is the single additional record an OPT the strict path
   admits, and the Request the caller sees afterwards (the translator hands the mutated receiver
   back as the last result) *)
Definition wire_opt_parse (raw : list N) (off : Z) : option (bool * T_Request) :=
  go_Request_parseWireOPT (S (length raw)) (blank_request raw) off.

(* the option codes between off and end_, walked as RFC 6891 lays them out *)
Fixpoint opt_codes_at (fuel : nat) (raw : list N) (off end_ : Z) : option (list N) :=
  match fuel with
  | O => None
  | S f =>
      if off <? end_ then
        if end_ <? off + 4 then None else
        let code := go_be16 (go_slice raw off (off + 2)) in
        let len := Z.of_N (go_be16 (go_slice raw (off + 2) (off + 4))) in
        if end_ <? off + 4 + len then None else
        match opt_codes_at f raw (off + 4 + len) end_ with
        | Some r => Some (code :: r)
        | None => None
        end
      else Some []
  end.

Definition has_code (c : N) (cs : list N) : bool := existsb (N.eqb c) cs.
