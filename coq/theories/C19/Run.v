(* C19 — correspondence: case type and the two checkers evaluated with vm_compute on what the Go
   drivers recorded.
   check_case: the model computes what the implementation did.
   spec_case : what the implementation did satisfies the property's specification, judged
               directly on the observed values (no model function decides the verdict, except the
               shared parsers of an address / a response scope where noted). *)
From Sdns Require Export Common.Base Common.GoList Gen.C19 C19.Model C19.WireOpt C19.WireReq C19.WirePacket C19.Exit.
Open Scope N_scope.

Inductive case :=
  (* ecs.Build *)
| CaseBuild (b : bargs) (res : build_result)
  (* Policy.Allows *)
| CaseAllows (p : option policy) (client : option addr) (res : bool)
  (* Policy.Clamp *)
| CaseClamp (p : option policy) (i : option ecs) (res : option ecs)
  (* ecs.ReadResponseScope on a message whose selected OPT carries these options *)
| CaseReadScope (opts : option (list eopt)) (res : option pfx)
  (* Policy.ClampScope *)
| CaseClampScope (p : option policy) (scope source : option pfx) (res : option pfx)
  (* dnsutil.SetEdns0: additional section before / after *)
| CaseSetEdns0 (p : option policy) (client : option addr) (extra res : list rr)
  (* edns.ServeDNS through a real Chain: marker seen by the next handler (or false), additional
     section of the request the next handler saw (None: Next not called) *)
| CaseEdnsReq (b : bargs) (remote : ipb) (extra : list rr) (marker : bool) (res : option (list rr))
  (* the BADVERS reply (EDNS version <> 0): subnet options per OPT record of the reply *)
| CaseEdnsBadvers (b : bargs) (remote : ipb) (extra : list rr) (counts : list N)
  (* edns ResponseWriter.WriteMsg: subnet options per OPT record of the reply the transport got *)
| CaseEdnsReply (noedns trunc : bool) (resp : list (list eopt)) (counts : list N)
  (* edns ResponseWriter.WriteWire (byte path): option codes of the OPT record appended to the reply
     (None: no OPT record) *)
| CaseEdnsWire (noedns cookie nsid keepalive ede : bool) (codes : option (list N))
  (* edns ResponseWriter.WriteWire, byte for byte: length of the packed body handed in, the facts the
     layer composes its OPT from (server cookie as observed: a digest), the octets it appended *)
| CaseEdnsWireBytes (body_len : N) (f : wire_facts) (appended : list N)
  (* Request.ParseWire on a packet whose single additional record starts at off: admitted by the
     strict parser?  and, if so, Request.HasECS / HasNSID / HasTCPKeepalive *)
| CaseWireOPT (raw : list N) (off : Z) (admitted has_ecs has_nsid has_keepalive : bool)
  (* a history of client queries through edns + cache against scripted upstream answers *)
| CaseCache (c : ccfg) (ops : list (cop * obs))
  (* a request tree against seeded shared denial state.  Per node, pre-order: which of the three
     permissions the node's question probes (0 RFC 8020 cut consumed, 1 RFC 8198 proof consumed,
     2 shared denial state created, 3 none: a plain alias hop) and whether that happened *)
  (* the same, each query tagged (wire-born: ParseWire + ResetWire + AllowDirectPack?, answered by the
     cache without ever decoding the request?) *)
| CaseCacheW (c : ccfg) (ops : list (cop * obs * (bool * bool)))
| CaseDenial (b : bargs) (t : rtree) (seen : list (N * bool))
  (* the same with a WIRE-BORN root (ParseWire + ResetWire + AllowDirectPack, as the server's listeners
     enter): the cache's byte ladder runs first on the undecoded request *)
| CaseDenialWire (b : bargs) (t : rtree) (seen : list (N * bool))
  (* a query (remote, options of its OPT, wire-born?) for a name whose resolution failure is cached under
     the SHARED failure key with the query's own CD bit: was it answered from that entry? *)
| CaseFailure (b : bargs) (remote : ipb) (opts : option (list eopt)) (wire : bool) (consumed : bool)
  (* a client query (remote, additional section, CD) through the real chain [edns, forwarder] against
     scripted upstreams on loopback sockets (behaviour codes, in configured order): every query the
     upstreams RECEIVED, in arrival order (position of the upstream, TCP?, CD, additional section as
     the wire carried it), and the subnet options per OPT record of the reply the client got *)
| CaseExitFwd (b : bargs) (remote : ipb) (dnssec cd : bool) (extra : list rr) (ups : list N)
              (sent : list wire_query) (reply : list N)
  (* a client query (remote, additional section) for www.example.org. through the production chain
     [edns, cache, resolver] (cold) against scripted authoritative servers on loopback sockets — root, TLD,
     zone; [hops]: which of them answers truncated over UDP first; [glueless]: the zone's delegation
     names a nameserver without an address; [alias]: the client's name is a CNAME for a name in
     another zone (the cache layer chases it): every query the servers RECEIVED, in arrival order (on the
     client's own line = the question is a suffix of the client's name; position of the server in its
     line; TCP?; additional section as the wire carried it), and the subnet options per OPT record of
     the reply the client got *)
| CaseExitRes (b : bargs) (remote : ipb) (extra : list rr) (glueless alias : bool) (hops : list N)
              (sent : list res_query) (reply : list N).

(* ------------------------------------------------------------------ equality *)
Definition ipb_eqb (a b : ipb) : bool := (ipb_len a =? ipb_len b) && (ipb_val a =? ipb_val b).
Definition ecs_eqb (a b : ecs) : bool :=
  (e_family a =? e_family b) && (e_mask a =? e_mask b) && (e_scope a =? e_scope b) && ipb_eqb (e_addr a) (e_addr b).
Definition opt_eqb {A} (f : A -> A -> bool) (a b : option A) : bool :=
  match a, b with None, None => true | Some x, Some y => f x y | _, _ => false end.
Fixpoint list_eqb {A} (f : A -> A -> bool) (a b : list A) : bool :=
  match a, b with
  | [], [] => true
  | x :: xs, y :: ys => f x y && list_eqb f xs ys
  | _, _ => false
  end.
Definition eopt_eqb (a b : eopt) : bool :=
  match a, b with
  | OEcs x, OEcs y => ecs_eqb x y
  | OOther x, OOther y => x =? y
  | _, _ => false
  end.
Definition rr_eqb (a b : rr) : bool :=
  match a, b with
  | ROther, ROther => true
  | ROpt x, ROpt y => (o_version x =? o_version y) && list_eqb eopt_eqb (o_opts x) (o_opts y)
  | _, _ => false
  end.
Definition policy_eqb (a b : policy) : bool :=
  Bool.eqb (pl_enabled a) (pl_enabled b) && (pl_fwd4 a =? pl_fwd4 b) && (pl_fwd6 a =? pl_fwd6 b) &&
  list_eqb pfx_eqb (pl_nets a) (pl_nets b) && (pl_min4 a =? pl_min4 b) && (pl_min6 a =? pl_min6 b).
Definition build_result_eqb (a b : build_result) : bool :=
  match a, b with
  | BuildNil, BuildNil => true
  | BuildErr x, BuildErr y => x =? y
  | BuildOk x, BuildOk y => policy_eqb x y
  | _, _ => false
  end.
Definition wq_eqb (a b : wire_query) : bool :=
  (wq_server a =? wq_server b) && Bool.eqb (wq_tcp a) (wq_tcp b) && Bool.eqb (wq_cd a) (wq_cd b) &&
  list_eqb rr_eqb (wq_extra a) (wq_extra b).
Definition rq_eqb (a b : res_query) : bool :=
  Bool.eqb (rq_own a) (rq_own b) && (rq_server a =? rq_server b) && Bool.eqb (rq_tcp a) (rq_tcp b) &&
  list_eqb rr_eqb (rq_extra a) (rq_extra b).
Definition dperm_eqb (a b : dperm) : bool :=
  Bool.eqb (dp_cut a) (dp_cut b) && Bool.eqb (dp_proof a) (dp_proof b) && Bool.eqb (dp_create a) (dp_create b).
Definition obs_eqb (a b : obs) : bool :=
  (ob_src a =? ob_src b) && (ob_ans a =? ob_ans b) &&
  opt_eqb (opt_eqb ecs_eqb) (ob_up a) (ob_up b) &&
  opt_eqb (fun x y => opfx_eqb (fst x) (fst y) && (snd x =? snd y)%Z) (ob_stored a) (ob_stored b) &&
  opt_eqb (opt_eqb ecs_eqb) (ob_refresh a) (ob_refresh b).

(* ------------------------------------------------------------------ model vs observed *)
Fixpoint check_ops (c : ccfg) (st : store) (ops : list (cop * obs)) : bool :=
  match ops with
  | [] => true
  | (o, ob) :: r =>
      let '(st', ob') := serve c st (co_q o) (co_up o) (co_aged o) (co_rf o) in
      obs_eqb ob' ob && check_ops c st' r
  end.

(* histories with wire-born queries: the decoded body's model gives the observation (the byte path
   refines it: Proofs_cache.serve_wire_refines); a query is answered from bytes EXACTLY when it is
   wire-born and the byte path's model admits it (the harness writer grants every lease) *)
Fixpoint check_ops_w (c : ccfg) (st : store) (ops : list (cop * obs * (bool * bool))) : bool :=
  match ops with
  | [] => true
  | (o, ob, (wire, from_bytes)) :: r =>
      let '(st', ob') := serve c st (co_q o) (co_up o) (co_aged o) (co_rf o) in
      let may := match serve_wire c st (co_q o) (co_aged o) with Some w => obs_eqb w ob | None => false end in
      obs_eqb ob' ob && Bool.eqb from_bytes (wire && may) && check_ops_w c st' r
  end.

Definition perm_sel (k : N) (p : dperm) : bool :=
  if k =? 0 then dp_cut p else if k =? 1 then dp_proof p else dp_create p.

(* per node (probe kind, happened): a consume probe (0 cut, 1 proof) happened iff the node's own
   permission says so; a create probe (2) happened — the denial learnt at that node is in the shared
   state after the run — iff the node's own writer or the writer of an ancestor admits it (tree_records);
   kind 3 (a plain alias hop) probes nothing *)
Fixpoint perms_match (ps : list dperm) (rs : list bool) (seen : list (N * bool)) : bool :=
  match ps, rs, seen with
  | [], [], [] => true
  | p :: ps', r :: rs', s :: seen' =>
      ((fst s =? 3) ||
       Bool.eqb (if (fst s =? 0) || (fst s =? 1) then perm_sel (fst s) p else r) (snd s)) &&
      perms_match ps' rs' seen'
  | _, _, _ => false
  end.

Definition check_case (c : case) : bool :=
  match c with
  | CaseBuild b res => build_result_eqb (build b) res
  | CaseAllows p client res => Bool.eqb (allows p client) res
  | CaseClamp p i res => opt_eqb ecs_eqb (clamp p i) res
  | CaseReadScope opts res => opfx_eqb (read_response_scope opts) res
  | CaseClampScope p scope source res => opfx_eqb (clamp_scope p scope source) res
  | CaseSetEdns0 p client extra res => list_eqb rr_eqb (set_edns0 p client extra) res
  | CaseEdnsReq b remote extra marker res =>
      let '(m, r) := edns_serve b remote extra in
      (* the marker is only observable when the next handler ran *)
      (match res with Some _ => Bool.eqb m marker | None => true end) &&
      opt_eqb (list_eqb rr_eqb) r res
  | CaseEdnsReply noedns trunc resp counts => list_eqb N.eqb (reply_ecs_counts noedns trunc resp) counts
  | CaseEdnsBadvers b remote extra counts => list_eqb N.eqb (badvers_reply_counts b remote extra) counts
  | CaseEdnsWire noedns cookie nsid keepalive ede codes =>
      opt_eqb (list_eqb N.eqb) (wire_reply_codes noedns cookie nsid keepalive ede) codes
  | CaseEdnsWireBytes body_len f appended =>
      let body := repeat 0 (N.to_nat body_len) in
      list_eqb N.eqb (append_wire_opt body f) (body ++ appended)
  | CaseWireOPT raw off adm e n k =>
      (* the translated parseWireOPT: admission, and the facts on the Request it hands back *)
      (if (off <? 0)%Z then true   (* not exactly one additional record: ParseWire does not call parseWireOPT *)
       else
      match wire_opt_parse raw off with
      | Some (a, r) =>
          Bool.eqb a adm &&
          (if adm then Bool.eqb (T_Request_hasECS r) e && Bool.eqb (T_Request_hasNSID r) n &&
                       Bool.eqb (T_Request_hasKeepalive r) k
           else true)
      | None => false
      end) &&
      (* and the WHOLE packet through C05's model of Request.ParseWire (header gate, question walk, OPT) *)
      match packet_has_ecs raw with
      | Some e' => adm && Bool.eqb e' e
      | None => negb adm
      end
  | CaseCache c ops => check_ops c [] ops
  | CaseCacheW c ops => check_ops_w c [] ops
  | CaseDenial b t seen =>
      perms_match (tree_perms (policy_of b) (mk_dctx false false) t)
                  (tree_records (policy_of b) (mk_dctx false false) false t) seen
  | CaseDenialWire b t seen =>
      (* the byte ladder never creates (wire_ladder_perm): what is recorded is the decoded body's doing *)
      perms_match (tree_perms_wire (policy_of b) true t)
                  (tree_records (policy_of b) (mk_dctx false false) false t) seen
  | CaseFailure b remote opts wire consumed =>
      (* bytes first (behind the gate), else the decoded body; the rung of the byte ladder may also
         decline for its own reasons (miss witness), the body then decides: one verdict *)
      Bool.eqb consumed
        ((wire && wire_failure_gate true (match opts with Some l => has_ecs l | None => false end)) ||
         failure_consults_shared (policy_of b) remote opts)
  | CaseExitFwd b remote dnssec cd extra ups sent reply =>
      list_eqb wq_eqb (exit_forwarder b remote dnssec cd extra ups) sent &&
      list_eqb N.eqb (exit_reply_counts b remote extra) reply
  | CaseExitRes b remote extra glueless alias hops sent reply =>
      list_eqb rq_eqb (exit_resolver b remote extra glueless alias hops) sent &&
      list_eqb N.eqb (exit_reply_counts b remote extra) reply
  end.

(* ------------------------------------------------------------------ specification oracles *)
Definition width_of_family (fam : N) : option (bool * N) :=
  if fam =? 1 then Some (true, 32) else if fam =? 2 then Some (false, 128) else None.

(* "out" is an acceptable upstream rendering of the client's option "i" under ceiling (c4, c6):
   family kept, length min(client length, ceiling), SCOPE 0, address in its family's natural width,
   host bits zero, network bits those of the client's address *)
Definition forwarded_ok (c4 c6 : N) (i out : ecs) : bool :=
  match width_of_family (e_family out), ip_to_addr (e_addr i) with
  | Some (is4, w), Some a =>
      let ceil := if is4 then c4 else c6 in
      let m := e_mask out in
      (e_family i =? e_family out) && Bool.eqb (a_is4 a) is4 &&
      (m <=? ceil) && (m <=? e_mask i) && (m <=? w) && ((m =? ceil) || (m =? e_mask i)) &&
      (e_scope out =? 0) &&
      (ipb_len (e_addr out) =? (if is4 then 4 else 16)) &&
      (ipb_val (e_addr out) mod 2 ^ (w - m) =? 0) &&
      (ipb_val (e_addr out) / 2 ^ (w - m) =? a_val a / 2 ^ (w - m))
  | _, _ => false
  end.

Definition client_ecs_options (l : list rr) : list ecs :=
  flat_map (fun o => match o with OEcs e => [e] | OOther _ => [] end) (all_options l).

(* the privacy rule for an upstream-bound additional section *)
Definition upstream_ok (p : option policy) (client : option addr) (extra out : list rr) : bool :=
  let outs := all_options out in
  let eligible := match p with
                  | Some pl => pl_enabled pl &&
                               match client with
                               | Some c => match pl_nets pl with [] => true | n => existsb (fun x => pfx_contains x c) n end
                               | None => false
                               end
                  | None => false
                  end in
  forallb (fun o => match o with
                    | OOther _ => false                              (* no other client option survives *)
                    | OEcs e => eligible &&
                                match p with
                                | Some pl => existsb (fun i => forwarded_ok (pl_fwd4 pl) (pl_fwd6 pl) i e) (client_ecs_options extra)
                                | None => false
                                end
                    end) outs &&
  (length (filter is_ecs outs) <=? 1)%nat.

Definition spec_build (b : bargs) (res : build_result) : bool :=
  let valid := b_enabled b && (b_f4 b <=? 32) && (b_f6 b <=? 128) && (b_m4 b <=? 32) && (b_m6 b <=? 128) &&
               forallb (fun o => match o with Some _ => true | None => false end) (b_nets b) in
  match res with
  | BuildOk p =>
      valid && pl_enabled p &&
      (1 <=? pl_fwd4 p) && (pl_fwd4 p <=? 32) && (1 <=? pl_fwd6 p) && (pl_fwd6 p <=? 128) &&
      (1 <=? pl_min4 p) && (pl_min4 p <=? 32) && (1 <=? pl_min6 p) && (pl_min6 p <=? 128) &&
      ((b_f4 b =? 0) || (pl_fwd4 p =? b_f4 b)) && ((b_f6 b =? 0) || (pl_fwd6 p =? b_f6 b)) &&
      (if b_m4 b =? 0 then pl_min4 p =? pl_fwd4 p else pl_min4 p =? b_m4 b) &&
      (if b_m6 b =? 0 then pl_min6 p =? pl_fwd6 p else pl_min6 p =? b_m6 b) &&
      list_eqb (opt_eqb pfx_eqb) (b_nets b) (map Some (pl_nets p))
  | BuildNil => negb (b_enabled b)
  | BuildErr _ => b_enabled b && negb valid            (* an invalid configuration never yields a policy *)
  end.

(* who may be served an entry kept under scope [sc]: a client whose forwarded prefix lies inside it *)
Definition inside (client : option pfx) (sc : pfx) : bool :=
  match client with
  | None => false
  | Some cp =>
      Bool.eqb (p_is4 cp) (p_is4 sc) && (p_bits sc <=? p_bits cp) &&
      (let h := awidth (p_is4 sc) - p_bits sc in p_val cp / 2 ^ h =? p_val sc / 2 ^ h)
  end.

(* ghost bookkeeping for the cache oracle: which upstream answer declared which scope, clamped how *)
Record ans_info := mk_ans_info { ai_id : N; ai_q : N; ai_cd : bool; ai_eff : option pfx (* effective audience; None = everyone *) }.

(* prefix of an ECS option as the resolver forwarded it *)
Definition ecs_prefix (e : option ecs) : option pfx :=
  match e with
  | Some e => match ip_to_addr (e_addr e) with Some a => addr_prefix a (e_mask e) | None => None end
  | None => None
  end.

Definition floor_of (p : option policy) (is4 : bool) : N :=
  match p with Some pl => if is4 then pl_min4 pl else pl_min6 pl | None => 0 end.

(* effective audience of an upstream answer: the declared scope widened to
   min(declared bits, forwarded source bits, floor); /0 or "no scope" = everyone *)
Definition effective_scope (p : option policy) (declared : option pfx) (source : option pfx) : option pfx :=
  match declared with
  | None => None
  | Some d =>
      let b := N.min (p_bits d) (N.min (match source with Some s => p_bits s | None => 0 end) (floor_of p (p_is4 d))) in
      if b =? 0 then None else Some (mk_pfx (p_is4 d) (p_val d - p_val d mod 2 ^ (awidth (p_is4 d) - b)) b)
  end.

(* what the authority declared, read off its option alone (no model function decides this):
   nothing / SCOPE 0; a scope (a SCOPE longer than the family's addresses means the whole address:
   like any scope longer than what was forwarded it is cut down by effective_scope); or a non-zero
   SCOPE that cannot be interpreted (another family than its address, unusable address, unknown
   family) — the answer is tailored to somebody, but nobody can say to whom *)
Inductive declared_scope := DNone | DScope (p : pfx) | DUnusable.
Definition spec_declared (opts : option (list eopt)) : declared_scope :=
  match opts with
  | None => DNone
  | Some l =>
      match first_ecs l with
      | None => DNone
      | Some sub =>
          if e_scope sub =? 0 then DNone else
          match width_of_family (e_family sub), ip_to_addr (e_addr sub) with
          | Some (is4, w), Some a =>
              if Bool.eqb is4 (a_is4 a) then DScope (mk_pfx is4 (a_val a) (N.min (e_scope sub) w)) else DUnusable
          | _, _ => DUnusable
          end
      end
  end.
(* audience of an answer fetched with forwarded source [source]: Some None = everyone,
   Some (Some p) = clients inside p.  An answer tailored to nobody-can-say-whom is kept for the
   audience that asked: the forwarded prefix, cut to the floor (everyone only when that is /0). *)
Definition spec_audience (p : option policy) (opts : option (list eopt)) (source : option pfx) : option (option pfx) :=
  match spec_declared opts with
  | DNone => Some None
  | DScope d => Some (effective_scope p (Some d) source)
  | DUnusable => match source with
                 | Some s => Some (effective_scope p (Some s) source)
                 | None => Some None
                 end
  end.

Fixpoint spec_ops (c : ccfg) (known : list ans_info) (ops : list (cop * obs)) : bool :=
  match ops with
  | [] => true
  | (o, ob) :: r =>
      let pol := policy_of (c_b c) in
      let client := addr_from_slice_unmap (q_remote (co_q o)) in
      let client_opts := match q_opts (co_q o) with Some l => l | None => [] end in
      let in_rr := [ROpt (mk_optrr 0 client_opts)] in
      if ob_src ob =? 0 then
        (* miss: privacy of what went upstream; scope / TTL of what was stored *)
        match ob_up ob, ob_stored ob with
        | Some up, Some (sc, ttl) =>
            let up_rr := [ROpt (mk_optrr 0 (match up with Some e => [OEcs e] | None => [] end))] in
            let source := ecs_prefix up in
            let aud := match up with Some _ => spec_audience pol (u_opts (co_up o)) source | None => Some None end in
            let eff := match aud with Some a => a | None => None end in
            upstream_ok pol client in_rr up_rr &&
            (ob_ans ob =? u_ans (co_up o)) &&
            (match aud with Some a => opfx_eqb sc a | None => match sc with Some _ => true | None => false end end) &&
            (match sc with
             | Some s => (negb (0 <? c_ecs_max c)%Z || (ttl <=? c_ecs_max c)%Z) &&
                         (p_bits s <=? N.min (match source with Some x => p_bits x | None => 0 end) (floor_of pol (p_is4 s)))
             | None => true
             end) &&
            (match ob_refresh ob with None => true | Some _ => false end) &&
            spec_ops c (mk_ans_info (u_ans (co_up o)) (q_name (co_q o)) (q_cd (co_q o)) eff :: known) r
        | _, _ => false
        end
      else
        (* hit: the served answer's audience contains this client; scoped entries are not refreshed *)
        let fw := forwarded pol client (q_opts (co_q o)) in
        let cp := ecs_prefix (first_ecs fw) in
        match find (fun k => ai_id k =? ob_ans ob) known with
        | None => false
        | Some k =>
            (ai_q k =? q_name (co_q o)) && Bool.eqb (ai_cd k) (q_cd (co_q o)) &&
            (match ai_eff k with None => true | Some sc => inside cp sc end) &&
            (match ai_eff k with None => ob_src ob =? 2 | Some _ => ob_src ob =? 1 end) &&
            match ob_refresh ob with
            | None => spec_ops c known r
            | Some rfe =>
                (* only an entry everyone may see is ever refreshed; whatever the refresh stores
                   under that shared key must again be an answer for everyone *)
                (match ai_eff k with None => true | Some _ => false end) &&
                let aud := match rfe with Some _ => spec_audience pol (u_opts (co_rf o)) (ecs_prefix rfe) | None => Some None end in
                (match aud with Some None => true | _ => false end) &&
                spec_ops c (mk_ans_info (u_ans (co_rf o)) (q_name (co_q o)) (q_cd (co_q o)) None :: known) r
            end
        end
  end.

Definition root_isolated (t : rtree) : bool :=
  match t with RNode cd _ opts _ _ => cd || match opts with Some l => has_ecs l | None => false end end.

Definition spec_case (c : case) : bool :=
  match c with
  | CaseBuild b res => spec_build b res
  | CaseAllows p client res =>
      (* eligibility only with an enabled policy, a valid client address and (no list or a list
         that contains the client) *)
      Bool.eqb res
        match p, client with
        | Some pl, Some a =>
            pl_enabled pl &&
            match pl_nets pl with
            | [] => true
            | n => existsb (fun x => Bool.eqb (p_is4 x) (a_is4 a) &&
                                     (a_val a / 2 ^ (awidth (p_is4 x) - p_bits x) =? p_val x / 2 ^ (awidth (p_is4 x) - p_bits x))) n
            end
        | _, _ => false
        end
  | CaseClamp p i res =>
      match res with
      | None => true
      | Some out => match p, i with
                    | Some pl, Some i => forwarded_ok (pl_fwd4 pl) (pl_fwd6 pl) i out
                    | _, _ => false
                    end
      end
  | CaseReadScope opts res =>
      match res with
      | None => true
      | Some px =>
          match opts with
          | Some l => match first_ecs l with
                      | Some sub =>
                          negb (e_scope sub =? 0) &&
                          match width_of_family (e_family sub), ip_to_addr (e_addr sub) with
                          | Some (is4, w), Some a =>
                              (* a SCOPE beyond the width can only mean the whole address *)
                              (p_bits px =? N.min (e_scope sub) w) &&
                              Bool.eqb is4 (a_is4 a) && Bool.eqb (p_is4 px) is4 && (p_bits px <=? w) &&
                              (p_val px mod 2 ^ (w - p_bits px) =? 0) &&
                              (p_val px / 2 ^ (w - p_bits px) =? a_val a / 2 ^ (w - p_bits px))
                          | _, _ => false
                          end
                      | None => false
                      end
          | None => false
          end
      end
  | CaseClampScope p scope source res =>
      match p, scope with
      | Some pl, Some sc =>
          match res with
          | Some r =>
              let w := awidth (p_is4 sc) in
              Bool.eqb (p_is4 r) (p_is4 sc) && (p_bits r <=? p_bits sc) &&
              (match source with Some s => p_bits r <=? p_bits s | None => true end) &&
              (p_bits r <=? (if p_is4 sc then pl_min4 pl else pl_min6 pl)) &&
              (p_val r mod 2 ^ (w - p_bits r) =? 0) &&
              (p_val r / 2 ^ (w - p_bits r) =? p_val sc / 2 ^ (w - p_bits r))
          | None => false
          end
      | _, _ => opfx_eqb res scope
      end
  | CaseSetEdns0 p client extra res => upstream_ok p client extra res
  | CaseEdnsReq b remote extra marker res =>
      match res with
      | Some out => upstream_ok (policy_of b) (addr_from_slice_unmap remote) extra out &&
                    (* the tree is marked whenever the client sent a subnet option *)
                    (negb (has_ecs (all_options extra)) || marker)
      | None => true
      end
  | CaseEdnsReply noedns trunc resp counts => forallb (fun n => n =? 0) counts && (length counts <=? 1)%nat
  | CaseEdnsBadvers b remote extra counts => forallb (fun n => n =? 0) counts && (length counts <=? 1)%nat
  | CaseEdnsWire noedns cookie nsid keepalive ede codes =>
      (* no subnet option (code 8), and no OPT at all for a client that sent none *)
      match codes with Some l => negb noedns && forallb (fun x => negb (x =? 8)) l | None => true end
  | CaseEdnsWireBytes body_len f appended =>
      (* what was appended is one well-formed OPT record (RFC 6891 reader) advertising the client's
         DO bit, and none of its options is a client-subnet option *)
      match read_opt_rr appended with
      | Some (_, do_, os) => Bool.eqb do_ (wf_do f) && forallb (fun o => negb (fst o =? 8)) os
      | None => false
      end
  | CaseWireOPT raw off adm e n k =>
      (* an admitted packet's OPT, read by the RFC 6891 reader (not by the code's walk): the request is
         marked as carrying ECS exactly when a client-subnet option (code 8) is among its options *)
      if adm then
        if (off <? 0)%Z then negb e        (* admitted without an OPT: cannot be marked *)
        else
        match read_opt_rr (skipn (Z.to_nat off) raw) with
        | Some (_, _, os) => Bool.eqb e (existsb (fun o => fst o =? 8) os)
        | None => false
        end
      else true
  | CaseCache c ops => spec_ops c [] ops
  | CaseCacheW c ops =>
      (* the audience rules of spec_ops; and what came from bytes went to a query without a subnet
         option and was a shared hit (spec_ops: a shared hit serves an answer whose audience is everyone) *)
      spec_ops c [] (map fst ops) &&
      forallb (fun x => let '(o, ob, (wire, from_bytes)) := x in
                        negb from_bytes ||
                        (wire && (ob_src ob =? 2) &&
                         negb (match q_opts (co_q o) with Some l => has_ecs l | None => false end))) ops
  | CaseDenial b t seen => negb (root_isolated t) || forallb (fun s => negb (snd s)) seen
  | CaseDenialWire b t seen => negb (root_isolated t) || forallb (fun s => negb (snd s)) seen
  | CaseFailure b remote opts wire consumed =>
      (* judged without the model's request-scope function: the shared failure entry may answer only a
         query for which nothing of the client's subnet would go upstream (its resolution is then the
         same as anybody's): no policy, client not eligible, no subnet option, an unusable one, or a /0 source *)
      negb consumed ||
      match policy_of b, opts with
      | Some pl, Some l =>
          negb (pl_enabled pl && allows (Some pl) (addr_from_slice_unmap remote)) ||
          negb (existsb (fun o => match o with
                                  | OEcs e => match clamp (Some pl) (Some e) with Some f => negb (e_mask f =? 0) | None => false end
                                  | OOther _ => false
                                  end) l)
      | _, _ => true
      end
  | CaseExitFwd b remote dnssec cd extra ups sent reply =>
      (* what any upstream received obeys the privacy rule for an upstream-bound request — judged on the
         octets that arrived, not on what a handler inside the process saw — and carries one OPT; the
         client's reply has no subnet option *)
      forallb (fun q => upstream_ok (policy_of b) (addr_from_slice_unmap remote) extra (wq_extra q) &&
                        (count_opt (wq_extra q) =? 1)%nat) sent &&
      forallb (fun n => n =? 0) reply && (length reply <=? 1)%nat
  | CaseExitRes b remote extra glueless alias hops sent reply =>
      (* a query on the client's own line obeys the privacy rule for an upstream-bound request; a question
         of the resolver's own carries one OPT and no option at all (nothing of the client rides on it) —
         both judged on the octets that arrived; the client's reply has no subnet option *)
      forallb (fun q => (if rq_own q
                         then upstream_ok (policy_of b) (addr_from_slice_unmap remote) extra (rq_extra q)
                         else match all_options (rq_extra q) with [] => true | _ => false end) &&
                        (count_opt (rq_extra q) =? 1)%nat) sent &&
      forallb (fun n => n =? 0) reply && (length reply <=? 1)%nat
  end.
