(* C19 — the exit of the pipeline in forwarder mode: what leaves the process.

   middleware/forwarder.ServeDNS hands the request it received from the handlers in front of it —
   the one the edns layer has rewritten with dnsutil.SetEdns0 — to dnsclient.Client.Exchange for each
   configured upstream in turn: the same message object every time, with CD set when the server does
   not validate itself.  Exchange sends it over UDP and, when the answer comes back truncated, once
   more over TCP to the same upstream.  The loop stops at the first response that is not a SERVFAIL
   (RFC 9520: a failure only after the available servers failed); a response whose question section
   does not match is dropped and the next upstream is asked.  Definitions only. *)
From Sdns Require Import Common.Base Gen.C19 C19.Model.
Open Scope N_scope.

(* one query on the wire: which configured upstream (position in forwarder_servers), transport,
   the CD bit, the additional section *)
Record wire_query := mk_wq { wq_server : N; wq_tcp : bool; wq_cd : bool; wq_extra : list rr }.

(* how a configured upstream behaves when asked, as a code: code mod 3 is its final response
   (0 a usable response, 1 SERVFAIL, 2 a response to another question); code >= 3: its UDP answer is
   truncated first *)
Definition ub_trunc (u : N) : bool := 3 <=? u.
Definition ub_final (u : N) : N := u mod 3.

Fixpoint forwarder_sends (cdw : bool) (extra : list rr) (i : N) (ups : list N) : list wire_query :=
  match ups with
  | [] => []
  | u :: r =>
      mk_wq i false cdw extra ::
      (if ub_trunc u then [mk_wq i true cdw extra] else []) ++
      (if ub_final u =? 0 then [] else forwarder_sends cdw extra (i + 1) r)
  end.

(* a client query through [edns, forwarder]: everything that goes onto the wire for it *)
Definition exit_forwarder (b : bargs) (remote : ipb) (dnssec cd : bool) (extra : list rr) (ups : list N)
  : list wire_query :=
  match snd (edns_serve b remote extra) with
  | Some out => forwarder_sends (cd || negb dnssec) out 0 ups
  | None => []                      (* BADVERS is answered by the edns layer: nothing leaves *)
  end.

(* subnet options per OPT record of the reply the client's transport gets, whatever the upstreams did
   (an answer relayed, the last SERVFAIL relayed, the forwarder's own SERVFAIL) *)
Definition exit_reply_counts (b : bargs) (remote : ipb) (extra : list rr) : list N :=
  match snd (edns_serve b remote extra) with
  | Some _ => reply_ecs_counts (negb (has_opt extra)) false []
  | None => badvers_reply_counts b remote extra
  end.

(* ------------------------------------------------------------------ the exit in RESOLVER mode *)
(* middleware/resolver: the request the handlers in front of it hand over — the one the edns layer has
   rewritten — is the lookup's leader request.  Every attempt (root, TLD, authoritative server; the
   minimised question of Resolver.minimize is a Copy of it with another name; the TCP retry after a
   truncated answer) sends acquireAttemptReq(leader): header and sections of the leader, the OPT as a
   private shell with the leader's options.  Questions the resolver asks on its own account — the
   address of a nameserver delegated without glue (lookupNSAddrV4: a fresh message, SetEdns0(size, DO))
   — go through the Queryer: a run of the whole pipeline as the internal client 127.0.0.255, whose
   edns layer rewrites that fresh message like any other, and whose resolver walks a second line from
   the root.

   The scripted name space of the correspondence: a delegation chain of [length hops] servers for the
   client's name (hop code 0: answers; any other code: answers truncated over UDP first, then over
   TCP); with [glueless] the delegation to the LAST server of the chain names a nameserver outside the
   zone without an address, which the resolver looks up through a chain of three servers before it
   asks that last server. *)

(* one query on the wire: on the client's own line (its question, minimised or not)?  which server of
   the chain, transport, additional section *)
Record res_query := mk_rq { rq_own : bool; rq_server : N; rq_tcp : bool; rq_extra : list rr }.

Definition hop_sends (own : bool) (extra : list rr) (i h : N) : list res_query :=
  mk_rq own i false extra :: (if h =? 0 then [] else [mk_rq own i true extra]).

Fixpoint line_sends (own : bool) (extra : list rr) (i : N) (hops : list N) : list res_query :=
  match hops with
  | [] => []
  | h :: r => hop_sends own extra i h ++ line_sends own extra (i + 1) r
  end.

Fixpoint resolver_line (out sub : list rr) (glueless : bool) (i : N) (hops : list N) : list res_query :=
  match hops with
  | [] => []
  | h :: r =>
      match r with
      | [] => (if glueless then line_sends false sub 0 [0; 0; 0] else []) ++ hop_sends true out i h
      | _ => hop_sends true out i h ++ resolver_line out sub glueless (i + 1) r
      end
  end.

(* the transport address the Queryer's writer reports (bufferRemoteAddr; srcgen re-reads it:
   Proofs_arith.gen_internal_client) *)
Definition internal_remote : ipb := mk_ipb 4 2130706687.

(* what a question of the resolver's own carries once the sub-pipeline's edns layer has rewritten the
   fresh message (one OPT, no options) *)
Definition sub_query_extra (b : bargs) : list rr :=
  match snd (edns_serve b internal_remote [ROpt (mk_optrr 0 [])]) with
  | Some out => out
  | None => []
  end.

(* the client's name may be an alias (CNAME) whose target lives in another zone: the cache layer chases
   it (Cache.additionalAnswer: a fresh message, SetEdns0(size, DO)) through the Queryer — one more
   question of the process's own, walked from the root, or from the target zone's server when the
   glue-less look-up has already taught the resolver that delegation *)
Definition chase_line (sub : list rr) (glueless alias : bool) : list res_query :=
  if alias then (if glueless then line_sends false sub 2 [0] else line_sends false sub 0 [0; 0; 0]) else [].

(* a client query through [edns, cache, resolver] on a cold cache: everything that goes onto the wire *)
Definition exit_resolver (b : bargs) (remote : ipb) (extra : list rr) (glueless alias : bool) (hops : list N)
  : list res_query :=
  match snd (edns_serve b remote extra) with
  | Some out => resolver_line out (sub_query_extra b) glueless 0 hops ++ chase_line (sub_query_extra b) glueless alias
  | None => []                      (* BADVERS is answered by the edns layer: nothing leaves *)
  end.
