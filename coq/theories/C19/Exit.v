(* C19 — the exit of the pipeline in forwarder mode: what leaves the process.

   middleware/forwarder.ServeDNS hands the request it received from the handlers in front of it —
   the one the edns layer has rewritten with dnsutil.SetEdns0 — to dnsclient.Client.Exchange for each
   configured upstream in turn: the same message object every time, with CD set when the server does
   not validate itself.  Exchange sends it over UDP and, when the answer comes back truncated, once
   more over TCP to the same upstream.  The loop stops at the first response that is not a SERVFAIL
   (RFC 9520: a failure only after the available servers failed); a response whose question section
   does not match is dropped and the next upstream is asked.  Definitions only. *)
From Sdns Require Import Common.Base Gen.C19 C19.Model.
Open Scope N_scope.

(* one query on the wire: which configured upstream (position in forwarder_servers), transport,
   the CD bit, the additional section *)
Record wire_query := mk_wq { wq_server : N; wq_tcp : bool; wq_cd : bool; wq_extra : list rr }.

(* how a configured upstream behaves when asked, as a code: code mod 3 is its final response
   (0 a usable response, 1 SERVFAIL, 2 a response to another question); code >= 3: its UDP answer is
   truncated first *)
Definition ub_trunc (u : N) : bool := 3 <=? u.
Definition ub_final (u : N) : N := u mod 3.

Fixpoint forwarder_sends (cdw : bool) (extra : list rr) (i : N) (ups : list N) : list wire_query :=
  match ups with
  | [] => []
  | u :: r =>
      mk_wq i false cdw extra ::
      (if ub_trunc u then [mk_wq i true cdw extra] else []) ++
      (if ub_final u =? 0 then [] else forwarder_sends cdw extra (i + 1) r)
  end.

(* a client query through [edns, forwarder]: everything that goes onto the wire for it *)
Definition exit_forwarder (b : bargs) (remote : ipb) (dnssec cd : bool) (extra : list rr) (ups : list N)
  : list wire_query :=
  match snd (edns_serve b remote extra) with
  | Some out => forwarder_sends (cd || negb dnssec) out 0 ups
  | None => []                      (* BADVERS is answered by the edns layer: nothing leaves *)
  end.

(* subnet options per OPT record of the reply the client's transport gets, whatever the upstreams did
   (an answer relayed, the last SERVFAIL relayed, the forwarder's own SERVFAIL) *)
Definition exit_reply_counts (b : bargs) (remote : ipb) (extra : list rr) : list N :=
  match snd (edns_serve b remote extra) with
  | Some _ => reply_ecs_counts (negb (has_opt extra)) false []
  | None => badvers_reply_counts b remote extra
  end.
