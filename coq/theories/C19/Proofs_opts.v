(* C19 — the option filters of the edns layer, MACHINE-TRANSLATED from the Go source with interface
   values as sum types (srcgen "iface_cases": dns.RR = OPT | other, dns.EDNS0 = EDNS0_SUBNET | EDNS0_EDE |
   other): edns.hasClientECS (the client-ECS marker), edns.stripECS (what WriteMsg does to the one OPT of
   a reply), edns.keepRelayable (what survives of a downstream OPT).  The lemmas are about the generated
   definitions themselves (Gen/C19.v) — for ALL additional sections / option lists — and tie the
   hand-written model functions client_has_ecs / reply_ecs_counts to them through the abstraction
   abs_rr / abs_opt (what the drivers print for a record / an option). *)
From Sdns Require Import Common.Base Common.GoList Gen.C19 C19.Model.
Open Scope N_scope.

Definition is_subnet (o : I_EDNS0) : bool := match o with I_EDNS0_of_EDNS0_SUBNET _ => true | _ => false end.
Definition is_ede (o : I_EDNS0) : bool := match o with I_EDNS0_of_EDNS0_EDE _ => true | _ => false end.

(* ---- the abstraction: what a decoded record / option is in the model *)
Definition be_val (l : list N) : N := fold_left (fun acc b => acc * 256 + b) l 0.
Definition abs_ip (l : list N) : ipb := mk_ipb (N.of_nat (length l)) (be_val l).
Definition abs_opt (o : I_EDNS0) : eopt :=
  match o with
  | I_EDNS0_of_EDNS0_SUBNET v =>
      OEcs (mk_ecs (T_EDNS0_SUBNET_Family v) (T_EDNS0_SUBNET_SourceNetmask v) (T_EDNS0_SUBNET_SourceScope v)
                   (abs_ip (T_EDNS0_SUBNET_Address v)))
  | I_EDNS0_of_EDNS0_EDE _ => OOther 15
  | I_EDNS0_other tag => OOther tag
  | I_EDNS0_nil => OOther 0
  end.
(* OPT.Version(): bits 16..23 of the TTL field *)
Definition opt_version (o : T_OPT) : N := (T_RR_Header_Ttl (T_OPT_Hdr o) / 65536) mod 256.
Definition abs_rr (r : I_RR) : rr :=
  match r with
  | I_RR_of_OPT o => ROpt (mk_optrr (opt_version o) (map abs_opt (T_OPT_Option o)))
  | _ => ROther
  end.

Lemma abs_opt_is_ecs o : is_ecs (abs_opt o) = is_subnet o.
Proof. destruct o; reflexivity. Qed.

(* ---- indexing a range loop's source at the length of what has been consumed *)
Lemma go_idx_middle {A} (d : A) pre x post : go_idx d (pre ++ x :: post) (Z.of_nat (length pre)) = x.
Proof.
  rewrite go_idx_nth by lia. rewrite Nat2Z.id. apply nth_middle.
Qed.

Lemma range_more {A} (pre : list A) x post :
  (Z.of_nat (length pre) <? go_len (pre ++ x :: post))%Z = true.
Proof. unfold go_len. rewrite app_length. cbn [length]. apply Z.ltb_lt. lia. Qed.

Lemma range_done {A} (pre : list A) :
  (Z.of_nat (length pre) <? go_len (pre ++ []))%Z = false.
Proof. unfold go_len. rewrite app_nil_r. apply Z.ltb_ge. lia. Qed.

Lemma next_index {A} (pre : list A) x : (Z.of_nat (length pre) + 1)%Z = Z.of_nat (length (pre ++ [x])).
Proof. rewrite app_length. cbn [length]. lia. Qed.

(* ------------------------------------------------------------------ stripECS *)
Lemma stripECS_loop opts : forall post pre keep fuel,
  (length post < fuel)%nat ->
  go_stripECS_loop1 (pre ++ post) fuel (Z.of_nat (length pre)) opts keep =
    (GoNext, (opts, keep ++ filter (fun o => negb (is_subnet o)) post)).
Proof.
  induction post as [|x post IH]; intros pre keep fuel Hf; destruct fuel as [|lf]; try (cbn in Hf; lia).
  - cbn [go_stripECS_loop1]. rewrite range_done. cbn [filter]. rewrite app_nil_r. reflexivity.
  - cbn [go_stripECS_loop1]. rewrite range_more, go_idx_middle.
    replace (pre ++ x :: post) with ((pre ++ [x]) ++ post) by (rewrite <- app_assoc; reflexivity).
    rewrite next_index with (x := x).
    destruct x; cbn [filter is_subnet negb];
      try (rewrite IH by (cbn in Hf; lia); rewrite <- app_assoc; reflexivity).
    rewrite IH by (cbn in Hf; lia). reflexivity.
Qed.

(* the translated stripECS removes exactly the subnet options: order and everything else kept *)
Lemma gen_stripECS opts : go_stripECS opts = filter (fun o => negb (is_subnet o)) opts.
Proof.
  unfold go_stripECS. change (go_slice_to opts 0%Z) with (@nil I_EDNS0).
  pose proof (stripECS_loop opts opts [] [] (S (length opts)) ltac:(lia)) as H.
  cbn [app length] in H. change (Z.of_nat 0) with 0%Z in H. rewrite H. reflexivity.
Qed.

Lemma stripECS_no_subnet opts : existsb is_subnet (go_stripECS opts) = false.
Proof.
  rewrite gen_stripECS. induction opts as [|o l IH]; [reflexivity|].
  cbn [filter]. destruct (is_subnet o) eqn:E; cbn [negb]; [exact IH|].
  cbn [existsb]. rewrite E. exact IH.
Qed.

(* in the model's terms: after the translated filter the OPT of a reply counts zero subnet options —
   the [0] of reply_ecs_counts — whatever options the downstream response, the writer or a handler in
   between had put there *)
Lemma stripECS_count_zero opts : ecs_count (map abs_opt (go_stripECS opts)) = 0.
Proof.
  unfold ecs_count. rewrite gen_stripECS.
  induction opts as [|o l IH]; [reflexivity|].
  cbn [filter]. destruct (is_subnet o) eqn:E; cbn [negb]; [exact IH|].
  cbn [map filter]. rewrite abs_opt_is_ecs, E. exact IH.
Qed.

(* nothing else is lost: every non-subnet option survives, in order *)
Lemma stripECS_keeps_others opts :
  map abs_opt (go_stripECS opts) = filter (fun o => negb (is_ecs o)) (map abs_opt opts).
Proof.
  rewrite gen_stripECS. induction opts as [|o l IH]; [reflexivity|].
  cbn [filter map]. rewrite abs_opt_is_ecs. destruct (is_subnet o); cbn [negb map]; [exact IH|].
  f_equal. exact IH.
Qed.

(* ------------------------------------------------------------------ keepRelayable *)
Lemma keepRelayable_loop opts : forall post pre keep fuel,
  (length post < fuel)%nat ->
  go_keepRelayable_loop1 (pre ++ post) fuel (Z.of_nat (length pre)) opts keep =
    (GoNext, (opts, keep ++ filter is_ede post)).
Proof.
  induction post as [|x post IH]; intros pre keep fuel Hf; destruct fuel as [|lf]; try (cbn in Hf; lia).
  - cbn [go_keepRelayable_loop1]. rewrite range_done. cbn [filter]. rewrite app_nil_r. reflexivity.
  - cbn [go_keepRelayable_loop1]. rewrite range_more, go_idx_middle.
    replace (pre ++ x :: post) with ((pre ++ [x]) ++ post) by (rewrite <- app_assoc; reflexivity).
    rewrite next_index with (x := x).
    destruct x; cbn [filter is_ede];
      try (rewrite IH by (cbn in Hf; lia); reflexivity).
    rewrite IH by (cbn in Hf; lia). rewrite <- app_assoc. reflexivity.
Qed.

Lemma gen_keepRelayable opts : go_keepRelayable opts = filter is_ede opts.
Proof.
  unfold go_keepRelayable. change (go_slice_to opts 0%Z) with (@nil I_EDNS0).
  pose proof (keepRelayable_loop opts opts [] [] (S (length opts)) ltac:(lia)) as H.
  cbn [app length] in H. change (Z.of_nat 0) with 0%Z in H. rewrite H. reflexivity.
Qed.

(* of a downstream OPT only Extended DNS Errors are relayed: in particular no subnet option *)
Lemma keepRelayable_no_subnet opts : existsb is_subnet (go_keepRelayable opts) = false.
Proof.
  rewrite gen_keepRelayable. induction opts as [|o l IH]; [reflexivity|].
  destruct o; simpl; exact IH.
Qed.

(* ------------------------------------------------------------------ hasClientECS *)
Lemma hasClientECS_inner (s1 : list I_RR) i1 req rr0 opt ok : forall post pre fuel,
  (length post < fuel)%nat ->
  fst (go_hasClientECS_loop2 (pre ++ post) fuel (Z.of_nat (length pre)) s1 i1 req rr0 opt ok) =
    (if existsb is_subnet post then GoRet true else GoNext) /\
  (existsb is_subnet post = false ->
   snd (go_hasClientECS_loop2 (pre ++ post) fuel (Z.of_nat (length pre)) s1 i1 req rr0 opt ok) = (s1, i1, req, rr0, opt, ok)).
Proof.
  induction post as [|x post IH]; intros pre fuel Hf; destruct fuel as [|lf]; try (cbn in Hf; lia).
  - cbn [go_hasClientECS_loop2]. rewrite range_done. split; reflexivity.
  - cbn [go_hasClientECS_loop2]. rewrite range_more, go_idx_middle.
    replace (pre ++ x :: post) with ((pre ++ [x]) ++ post) by (rewrite <- app_assoc; reflexivity).
    rewrite next_index with (x := x).
    destruct x; cbn [existsb is_subnet orb]; try (apply IH; cbn in Hf; lia).
    split; [reflexivity|discriminate].
Qed.

Definition rr_has_subnet (r : I_RR) : bool :=
  match r with I_RR_of_OPT o => existsb is_subnet (T_OPT_Option o) | _ => false end.

Lemma hasClientECS_outer req : forall post pre fuel,
  (length post < fuel)%nat ->
  fst (go_hasClientECS_loop1 (pre ++ post) fuel (Z.of_nat (length pre)) req) =
    (if existsb rr_has_subnet post then GoRet true else GoNext).
Proof.
  induction post as [|x post IH]; intros pre fuel Hf; destruct fuel as [|lf]; try (cbn in Hf; lia).
  - cbn [go_hasClientECS_loop1]. rewrite range_done. reflexivity.
  - cbn [go_hasClientECS_loop1]. rewrite range_more, go_idx_middle.
    replace (pre ++ x :: post) with ((pre ++ [x]) ++ post) by (rewrite <- app_assoc; reflexivity).
    rewrite next_index with (x := x).
    destruct x as [|o|tag hdr]; cbn [negb existsb rr_has_subnet orb]; try (apply IH; cbn in Hf; lia).
    pose proof (hasClientECS_inner ((pre ++ [I_RR_of_OPT o]) ++ post) (Z.of_nat (length pre)) req (I_RR_of_OPT o) o true
                  (T_OPT_Option o) [] (S (length (T_OPT_Option o))) ltac:(lia)) as [HA HB].
    cbn [app length] in HA, HB. change (Z.of_nat 0) with 0%Z in HA, HB.
    destruct (go_hasClientECS_loop2 (T_OPT_Option o) (S (length (T_OPT_Option o))) 0
                ((pre ++ [I_RR_of_OPT o]) ++ post) (Z.of_nat (length pre)) req (I_RR_of_OPT o) o true) as [ctl st] eqn:EL.
    cbn [fst snd] in HA, HB.
    destruct (existsb is_subnet (T_OPT_Option o)) eqn:EE.
    + subst ctl. reflexivity.
    + subst ctl. rewrite (HB eq_refl). cbn [orb]. rewrite next_index with (x := I_RR_of_OPT o). apply IH. cbn in Hf; lia.
Qed.

(* the translated marker: true iff some OPT record of the additional section — any of them, not only
   the one IsEdns0 selects — carries a subnet option (any family: the opt-out form too) *)
Lemma gen_hasClientECS req : go_hasClientECS req = existsb rr_has_subnet (T_Msg_Extra req).
Proof.
  unfold go_hasClientECS. cbn [negb].
  pose proof (hasClientECS_outer req (T_Msg_Extra req) [] (S (length (T_Msg_Extra req))) ltac:(lia)) as H.
  cbn [app length] in H. change (Z.of_nat 0) with 0%Z in H.
  destruct (go_hasClientECS_loop1 (T_Msg_Extra req) (S (length (T_Msg_Extra req))) 0 req) as [ctl st].
  cbn [fst] in H. subst ctl. destruct (existsb rr_has_subnet (T_Msg_Extra req)); reflexivity.
Qed.

(* ... which is the model's client_has_ecs on the abstracted section *)
Lemma hasClientECS_is_model_marker req :
  go_hasClientECS req = client_has_ecs (map abs_rr (T_Msg_Extra req)).
Proof.
  rewrite gen_hasClientECS. unfold client_has_ecs, has_ecs, all_options.
  induction (T_Msg_Extra req) as [|r l IH]; [reflexivity|].
  cbn [existsb map flat_map]. rewrite existsb_app, <- IH. f_equal.
  destruct r as [|o|]; cbn [rr_has_subnet abs_rr]; try reflexivity.
  cbn [o_opts]. induction (T_OPT_Option o) as [|x xs IHx]; [reflexivity|].
  cbn [existsb map]. rewrite abs_opt_is_ecs, IHx. reflexivity.
Qed.

(* non-vacuity: two OPT records, the subnet option (opt-out form, family 0) in the FIRST one, a cookie
   (code 10) and an EDE around it *)
Example opts_example :
  let sub := I_EDNS0_of_EDNS0_SUBNET (mk_T_EDNS0_SUBNET 8 0 0 0 []) in
  let ede := I_EDNS0_of_EDNS0_EDE (mk_T_EDNS0_EDE 18 []) in
  let hdr := mk_T_RR_Header [] 41 1232 0 0 in
  let extra := [I_RR_of_OPT (mk_T_OPT hdr [I_EDNS0_other 10; sub; ede]); I_RR_other 1 hdr; I_RR_of_OPT (mk_T_OPT hdr [])] in
  go_hasClientECS (mk_T_Msg (mk_T_MsgHdr 0 false 0 false false true false false false false 0) false [] [] [] extra) = true /\
  go_stripECS [I_EDNS0_other 10; sub; ede; sub] = [I_EDNS0_other 10; ede] /\
  go_keepRelayable [I_EDNS0_other 10; sub; ede; sub] = [ede].
Proof. vm_compute. repeat split; reflexivity. Qed.
