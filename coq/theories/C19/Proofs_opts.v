(* C19 — the option filters of the edns layer, MACHINE-TRANSLATED from the Go source with interface
   values as sum types (srcgen "iface_cases": dns.RR = OPT | other, dns.EDNS0 = EDNS0_SUBNET | EDNS0_EDE |
   other): edns.hasClientECS (the client-ECS marker), edns.stripECS (what WriteMsg does to the one OPT of
   a reply), edns.keepRelayable (what survives of a downstream OPT).  The lemmas are about the generated
   definitions themselves (Gen/C19.v) — for ALL additional sections / option lists — and tie the
   hand-written model functions client_has_ecs / reply_ecs_counts to them through the abstraction
   abs_rr / abs_opt (what the drivers print for a record / an option). *)
From Sdns Require Import Common.Base Common.GoList Gen.C19 C19.Model.
Open Scope N_scope.

Definition is_subnet (o : I_EDNS0) : bool := match o with I_EDNS0_of_EDNS0_SUBNET _ => true | _ => false end.
Definition is_ede (o : I_EDNS0) : bool := match o with I_EDNS0_of_EDNS0_EDE _ => true | _ => false end.

(* ---- the abstraction: what a decoded record / option is in the model *)
Definition be_val (l : list N) : N := fold_left (fun acc b => acc * 256 + b) l 0.
Definition abs_ip (l : list N) : ipb := mk_ipb (N.of_nat (length l)) (be_val l).
Definition abs_opt (o : I_EDNS0) : eopt :=
  match o with
  | I_EDNS0_of_EDNS0_SUBNET v =>
      OEcs (mk_ecs (T_EDNS0_SUBNET_Family v) (T_EDNS0_SUBNET_SourceNetmask v) (T_EDNS0_SUBNET_SourceScope v)
                   (abs_ip (T_EDNS0_SUBNET_Address v)))
  | I_EDNS0_of_EDNS0_EDE _ => OOther 15
  | I_EDNS0_of_EDNS0_COOKIE _ => OOther 10
  | I_EDNS0_of_EDNS0_NSID _ => OOther 3
  | I_EDNS0_other tag => OOther tag
  | I_EDNS0_nil => OOther 0
  end.
(* OPT.Version(): bits 16..23 of the TTL field *)
Definition opt_version (o : T_OPT) : N := (T_RR_Header_Ttl (T_OPT_Hdr o) / 65536) mod 256.
Definition abs_rr (r : I_RR) : rr :=
  match r with
  | I_RR_of_OPT o => ROpt (mk_optrr (opt_version o) (map abs_opt (T_OPT_Option o)))
  | _ => ROther
  end.

Lemma abs_opt_is_ecs o : is_ecs (abs_opt o) = is_subnet o.
Proof. destruct o; reflexivity. Qed.

(* ---- indexing a range loop's source at the length of what has been consumed *)
Lemma go_idx_middle {A} (d : A) pre x post : go_idx d (pre ++ x :: post) (Z.of_nat (length pre)) = x.
Proof.
  rewrite go_idx_nth by lia. rewrite Nat2Z.id. apply nth_middle.
Qed.

Lemma range_more {A} (pre : list A) x post :
  (Z.of_nat (length pre) <? go_len (pre ++ x :: post))%Z = true.
Proof. unfold go_len. rewrite app_length. cbn [length]. apply Z.ltb_lt. lia. Qed.

Lemma range_done {A} (pre : list A) :
  (Z.of_nat (length pre) <? go_len (pre ++ []))%Z = false.
Proof. unfold go_len. rewrite app_nil_r. apply Z.ltb_ge. lia. Qed.

Lemma next_index {A} (pre : list A) x : (Z.of_nat (length pre) + 1)%Z = Z.of_nat (length (pre ++ [x])).
Proof. rewrite app_length. cbn [length]. lia. Qed.

(* ------------------------------------------------------------------ stripECS *)
Lemma stripECS_loop opts : forall post pre keep fuel,
  (length post < fuel)%nat ->
  go_stripECS_loop1 (pre ++ post) fuel (Z.of_nat (length pre)) opts keep =
    (GoNext, (opts, keep ++ filter (fun o => negb (is_subnet o)) post)).
Proof.
  induction post as [|x post IH]; intros pre keep fuel Hf; destruct fuel as [|lf]; try (cbn in Hf; lia).
  - cbn [go_stripECS_loop1]. rewrite range_done. cbn [filter]. rewrite app_nil_r. reflexivity.
  - cbn [go_stripECS_loop1]. rewrite range_more, go_idx_middle.
    replace (pre ++ x :: post) with ((pre ++ [x]) ++ post) by (rewrite <- app_assoc; reflexivity).
    rewrite next_index with (x := x).
    destruct x; cbn [filter is_subnet negb];
      try (rewrite IH by (cbn in Hf; lia); rewrite <- app_assoc; reflexivity).
    rewrite IH by (cbn in Hf; lia). reflexivity.
Qed.

(* the translated stripECS removes exactly the subnet options: order and everything else kept *)
Lemma gen_stripECS opts : go_stripECS opts = filter (fun o => negb (is_subnet o)) opts.
Proof.
  unfold go_stripECS. change (go_slice_to opts 0%Z) with (@nil I_EDNS0).
  pose proof (stripECS_loop opts opts [] [] (S (length opts)) ltac:(lia)) as H.
  cbn [app length] in H. change (Z.of_nat 0) with 0%Z in H. rewrite H. reflexivity.
Qed.

Lemma stripECS_no_subnet opts : existsb is_subnet (go_stripECS opts) = false.
Proof.
  rewrite gen_stripECS. induction opts as [|o l IH]; [reflexivity|].
  cbn [filter]. destruct (is_subnet o) eqn:E; cbn [negb]; [exact IH|].
  cbn [existsb]. rewrite E. exact IH.
Qed.

(* in the model's terms: after the translated filter the OPT of a reply counts zero subnet options —
   the [0] of reply_ecs_counts — whatever options the downstream response, the writer or a handler in
   between had put there *)
Lemma stripECS_count_zero opts : ecs_count (map abs_opt (go_stripECS opts)) = 0.
Proof.
  unfold ecs_count. rewrite gen_stripECS.
  induction opts as [|o l IH]; [reflexivity|].
  cbn [filter]. destruct (is_subnet o) eqn:E; cbn [negb]; [exact IH|].
  cbn [map filter]. rewrite abs_opt_is_ecs, E. exact IH.
Qed.

(* nothing else is lost: every non-subnet option survives, in order *)
Lemma stripECS_keeps_others opts :
  map abs_opt (go_stripECS opts) = filter (fun o => negb (is_ecs o)) (map abs_opt opts).
Proof.
  rewrite gen_stripECS. induction opts as [|o l IH]; [reflexivity|].
  cbn [filter map]. rewrite abs_opt_is_ecs. destruct (is_subnet o); cbn [negb map]; [exact IH|].
  f_equal. exact IH.
Qed.

(* ------------------------------------------------------------------ keepRelayable *)
Lemma keepRelayable_loop opts : forall post pre keep fuel,
  (length post < fuel)%nat ->
  go_keepRelayable_loop1 (pre ++ post) fuel (Z.of_nat (length pre)) opts keep =
    (GoNext, (opts, keep ++ filter is_ede post)).
Proof.
  induction post as [|x post IH]; intros pre keep fuel Hf; destruct fuel as [|lf]; try (cbn in Hf; lia).
  - cbn [go_keepRelayable_loop1]. rewrite range_done. cbn [filter]. rewrite app_nil_r. reflexivity.
  - cbn [go_keepRelayable_loop1]. rewrite range_more, go_idx_middle.
    replace (pre ++ x :: post) with ((pre ++ [x]) ++ post) by (rewrite <- app_assoc; reflexivity).
    rewrite next_index with (x := x).
    destruct x; cbn [filter is_ede];
      try (rewrite IH by (cbn in Hf; lia); reflexivity).
    rewrite IH by (cbn in Hf; lia). rewrite <- app_assoc. reflexivity.
Qed.

Lemma gen_keepRelayable opts : go_keepRelayable opts = filter is_ede opts.
Proof.
  unfold go_keepRelayable. change (go_slice_to opts 0%Z) with (@nil I_EDNS0).
  pose proof (keepRelayable_loop opts opts [] [] (S (length opts)) ltac:(lia)) as H.
  cbn [app length] in H. change (Z.of_nat 0) with 0%Z in H. rewrite H. reflexivity.
Qed.

(* of a downstream OPT only Extended DNS Errors are relayed: in particular no subnet option *)
Lemma keepRelayable_no_subnet opts : existsb is_subnet (go_keepRelayable opts) = false.
Proof.
  rewrite gen_keepRelayable. induction opts as [|o l IH]; [reflexivity|].
  destruct o; simpl; exact IH.
Qed.

(* ------------------------------------------------------------------ hasClientECS *)
Lemma hasClientECS_inner (s1 : list I_RR) i1 req rr0 opt ok : forall post pre fuel,
  (length post < fuel)%nat ->
  fst (go_hasClientECS_loop2 (pre ++ post) fuel (Z.of_nat (length pre)) s1 i1 req rr0 opt ok) =
    (if existsb is_subnet post then GoRet true else GoNext) /\
  (existsb is_subnet post = false ->
   snd (go_hasClientECS_loop2 (pre ++ post) fuel (Z.of_nat (length pre)) s1 i1 req rr0 opt ok) = (s1, i1, req, rr0, opt, ok)).
Proof.
  induction post as [|x post IH]; intros pre fuel Hf; destruct fuel as [|lf]; try (cbn in Hf; lia).
  - cbn [go_hasClientECS_loop2]. rewrite range_done. split; reflexivity.
  - cbn [go_hasClientECS_loop2]. rewrite range_more, go_idx_middle.
    replace (pre ++ x :: post) with ((pre ++ [x]) ++ post) by (rewrite <- app_assoc; reflexivity).
    rewrite next_index with (x := x).
    destruct x; cbn [existsb is_subnet orb]; try (apply IH; cbn in Hf; lia).
    split; [reflexivity|discriminate].
Qed.

Definition rr_has_subnet (r : I_RR) : bool :=
  match r with I_RR_of_OPT o => existsb is_subnet (T_OPT_Option o) | _ => false end.

Lemma hasClientECS_outer req : forall post pre fuel,
  (length post < fuel)%nat ->
  fst (go_hasClientECS_loop1 (pre ++ post) fuel (Z.of_nat (length pre)) req) =
    (if existsb rr_has_subnet post then GoRet true else GoNext).
Proof.
  induction post as [|x post IH]; intros pre fuel Hf; destruct fuel as [|lf]; try (cbn in Hf; lia).
  - cbn [go_hasClientECS_loop1]. rewrite range_done. reflexivity.
  - cbn [go_hasClientECS_loop1]. rewrite range_more, go_idx_middle.
    replace (pre ++ x :: post) with ((pre ++ [x]) ++ post) by (rewrite <- app_assoc; reflexivity).
    rewrite next_index with (x := x).
    destruct x as [|o|tag hdr]; cbn [negb existsb rr_has_subnet orb]; try (apply IH; cbn in Hf; lia).
    pose proof (hasClientECS_inner ((pre ++ [I_RR_of_OPT o]) ++ post) (Z.of_nat (length pre)) req (I_RR_of_OPT o) o true
                  (T_OPT_Option o) [] (S (length (T_OPT_Option o))) ltac:(lia)) as [HA HB].
    cbn [app length] in HA, HB. change (Z.of_nat 0) with 0%Z in HA, HB.
    destruct (go_hasClientECS_loop2 (T_OPT_Option o) (S (length (T_OPT_Option o))) 0
                ((pre ++ [I_RR_of_OPT o]) ++ post) (Z.of_nat (length pre)) req (I_RR_of_OPT o) o true) as [ctl st] eqn:EL.
    cbn [fst snd] in HA, HB.
    destruct (existsb is_subnet (T_OPT_Option o)) eqn:EE.
    + subst ctl. reflexivity.
    + subst ctl. rewrite (HB eq_refl). cbn [orb]. rewrite next_index with (x := I_RR_of_OPT o). apply IH. cbn in Hf; lia.
Qed.

(* the translated marker: true iff some OPT record of the additional section — any of them, not only
   the one IsEdns0 selects — carries a subnet option (any family: the opt-out form too) *)
Lemma gen_hasClientECS req : go_hasClientECS req = existsb rr_has_subnet (T_Msg_Extra req).
Proof.
  unfold go_hasClientECS. cbn [negb].
  pose proof (hasClientECS_outer req (T_Msg_Extra req) [] (S (length (T_Msg_Extra req))) ltac:(lia)) as H.
  cbn [app length] in H. change (Z.of_nat 0) with 0%Z in H.
  destruct (go_hasClientECS_loop1 (T_Msg_Extra req) (S (length (T_Msg_Extra req))) 0 req) as [ctl st].
  cbn [fst] in H. subst ctl. destruct (existsb rr_has_subnet (T_Msg_Extra req)); reflexivity.
Qed.

(* ... which is the model's client_has_ecs on the abstracted section *)
Lemma hasClientECS_is_model_marker req :
  go_hasClientECS req = client_has_ecs (map abs_rr (T_Msg_Extra req)).
Proof.
  rewrite gen_hasClientECS. unfold client_has_ecs, has_ecs, all_options.
  induction (T_Msg_Extra req) as [|r l IH]; [reflexivity|].
  cbn [existsb map flat_map]. rewrite existsb_app, <- IH. f_equal.
  destruct r as [|o|]; cbn [rr_has_subnet abs_rr]; try reflexivity.
  cbn [o_opts]. induction (T_OPT_Option o) as [|x xs IHx]; [reflexivity|].
  cbn [existsb map]. rewrite abs_opt_is_ecs, IHx. reflexivity.
Qed.

(* ------------------------------------------------------------------ SetEdns0: which option is forwarded *)
(* the option loop of dnsutil.SetEdns0 (helpers.go:64), translated as a loopfunc: a type switch over the
   options of the selected OPT that remembers the client cookie, that NSID was asked, and — the fact the
   property depends on — the subnet option the clamp is later applied to.  [clientSubnet] is a pointer in Go,
   nil before the loop; the translation reads it as a value, so "still nil after the loop" is "no subnet
   option among the options" (last_subnet = None) here. *)
Fixpoint last_subnet (l : list I_EDNS0) : option T_EDNS0_SUBNET :=
  match l with
  | [] => None
  | I_EDNS0_of_EDNS0_SUBNET v :: r => match last_subnet r with Some v' => Some v' | None => Some v end
  | _ :: r => last_subnet r
  end.
Definition is_nsid (o : I_EDNS0) : bool := match o with I_EDNS0_of_EDNS0_NSID _ => true | _ => false end.
Definition abs_subnet (v : T_EDNS0_SUBNET) : ecs :=
  mk_ecs (T_EDNS0_SUBNET_Family v) (T_EDNS0_SUBNET_SourceNetmask v) (T_EDNS0_SUBNET_SourceScope v) (abs_ip (T_EDNS0_SUBNET_Address v)).

Lemma SetEdns0_loop opt : forall post pre nsid cookie cs fuel,
  (length post < fuel)%nat ->
  exists cookie',
  go_SetEdns0_loop1 (pre ++ post) fuel (Z.of_nat (length pre)) nsid opt cookie cs =
    (GoNext, (nsid || existsb is_nsid post, opt, cookie', match last_subnet post with Some v => v | None => cs end)).
Proof.
  induction post as [|x post IH]; intros pre nsid cookie cs fuel Hf; destruct fuel as [|lf]; try (cbn in Hf; lia).
  - cbn [go_SetEdns0_loop1]. rewrite range_done. exists cookie. cbn. rewrite orb_false_r. reflexivity.
  - cbn [go_SetEdns0_loop1]. rewrite range_more, go_idx_middle.
    replace (pre ++ x :: post) with ((pre ++ [x]) ++ post) by (rewrite <- app_assoc; reflexivity).
    rewrite next_index with (x := x).
    destruct x as [|v|v|v|v|tag]; cbn [existsb is_nsid last_subnet orb].
    + apply IH. cbn in Hf; lia.
    + destruct (IH (pre ++ [I_EDNS0_of_EDNS0_SUBNET v]) nsid cookie v lf ltac:(cbn in Hf; lia)) as [c' E].
      exists c'. rewrite E. destruct (last_subnet post); reflexivity.
    + apply IH. cbn in Hf; lia.
    + destruct (16 <=? go_len (T_EDNS0_COOKIE_Cookie v))%Z; apply IH; cbn in Hf; lia.
    + destruct (IH (pre ++ [I_EDNS0_of_EDNS0_NSID v]) true cookie cs lf ltac:(cbn in Hf; lia)) as [c' E].
      exists c'. rewrite E. rewrite orb_true_r. reflexivity.
    + apply IH. cbn in Hf; lia.
Qed.

(* the loop never returns early and never runs out of budget; NSID is or-ed in; the OPT is untouched; the
   subnet option it hands to the clamp is the LAST one of the list (the one before the loop if there is none) *)
Lemma gen_SetEdns0_loop nsid opt cookie cs :
  exists cookie',
  go_SetEdns0_loop1_run nsid opt cookie cs =
    (GoNext, (nsid || existsb is_nsid (T_OPT_Option opt), opt, cookie',
              match last_subnet (T_OPT_Option opt) with Some v => v | None => cs end)).
Proof.
  unfold go_SetEdns0_loop1_run.
  destruct (SetEdns0_loop opt (T_OPT_Option opt) [] nsid cookie cs (S (length (T_OPT_Option opt))) ltac:(lia)) as [c' E].
  cbn [app length] in E. change (Z.of_nat 0) with 0%Z in E. exists c'. exact E.
Qed.

(* ... which is the model's last_ecs on the options as the drivers print them: new_opts clamps the very
   option the code's loop selects *)
Lemma last_subnet_is_model_last_ecs l : last_ecs (map abs_opt l) = option_map abs_subnet (last_subnet l).
Proof.
  induction l as [|o r IH]; [reflexivity|].
  destruct o; cbn [map abs_opt last_ecs last_subnet]; try exact IH.
  rewrite IH. destruct (last_subnet r); reflexivity.
Qed.

Lemma last_subnet_some_iff l : (exists v, last_subnet l = Some v) <-> existsb is_subnet l = true.
Proof.
  induction l as [|o r IH]; cbn; [split; [intros [v H]; discriminate|discriminate]|].
  destruct o; cbn [is_subnet orb]; try exact IH.
  split; [reflexivity|]. intros _. destruct (last_subnet r); eauto.
Qed.

(* ------------------------------------------------------------------ filterOut / ClearOPT *)
(* dnsutil.filterOut translated with its predicate as a function argument (the callback is a pure function
   of the record): for EVERY predicate the result is the list without the records it drops, order kept.
   ClearOPT (= filterOut(msg.Extra, isOPT), a package function used as a value) and dropOtherOPT (the same
   helper with the closure "an OPT other than the selected one" — a func literal, which the translator
   does not take; its predicate is not translated) both go through it. *)
Lemma filterOut_loop2 rrs drop fd : forall post pre kept fuel,
  (length post < fuel)%nat ->
  go_filterOut_loop2 (pre ++ post) fuel (Z.of_nat (length pre)) rrs drop fd kept =
    (GoNext, (rrs, drop, fd, kept ++ filter (fun r => negb (drop r)) post)).
Proof.
  induction post as [|x post IH]; intros pre kept fuel Hf; destruct fuel as [|lf]; try (cbn in Hf; lia).
  - cbn [go_filterOut_loop2]. rewrite range_done. cbn [filter]. rewrite app_nil_r. reflexivity.
  - cbn [go_filterOut_loop2]. rewrite range_more, go_idx_middle.
    replace (pre ++ x :: post) with ((pre ++ [x]) ++ post) by (rewrite <- app_assoc; reflexivity).
    rewrite next_index with (x := x). cbn [filter].
    destruct (drop x); cbn [negb]; rewrite IH by (cbn in Hf; lia); [reflexivity|].
    rewrite <- app_assoc. reflexivity.
Qed.

Fixpoint first_drop (drop : I_RR -> bool) (l : list I_RR) : nat :=
  match l with [] => O | y :: t => if drop y then O else S (first_drop drop t) end.

Lemma filterOut_loop1 rrs drop : forall post pre fuel,
  (length post < fuel)%nat ->
  go_filterOut_loop1 (pre ++ post) fuel (Z.of_nat (length pre)) rrs drop (-1) =
    (GoNext, (rrs, drop, if existsb drop post then Z.of_nat (length pre + first_drop drop post) else (-1)%Z)).
Proof.
  induction post as [|x post IH]; intros pre fuel Hf; destruct fuel as [|lf]; try (cbn in Hf; lia).
  - cbn [go_filterOut_loop1]. rewrite range_done. reflexivity.
  - cbn [go_filterOut_loop1]. rewrite range_more, go_idx_middle. cbn [existsb first_drop].
    destruct (drop x) eqn:D; cbn [orb].
    + f_equal. f_equal. f_equal. lia.
    + replace (pre ++ x :: post) with ((pre ++ [x]) ++ post) by (rewrite <- app_assoc; reflexivity).
      rewrite next_index with (x := x). rewrite IH by (cbn in Hf; lia).
      destruct (existsb drop post); [|reflexivity].
      f_equal. f_equal. f_equal. rewrite app_length. cbn [length]. lia.
Qed.

Lemma first_drop_split drop l : existsb drop l = true ->
  exists a x b, l = a ++ x :: b /\ forallb (fun r => negb (drop r)) a = true /\ drop x = true /\ first_drop drop l = length a.
Proof.
  induction l as [|y t IH]; cbn; [discriminate|].
  destruct (drop y) eqn:D; cbn [orb].
  - intros _. exists [], y, t. repeat split; auto.
  - intros H. destruct (IH H) as [a [x [b [E [F [G K]]]]]]. exists (y :: a), x, b. subst t. cbn. rewrite D, F. repeat split; auto.
Qed.

Lemma filter_none_dropped (drop : I_RR -> bool) a : forallb (fun r => negb (drop r)) a = true -> filter (fun r => negb (drop r)) a = a.
Proof. induction a as [|y t IH]; cbn; [reflexivity|]. destruct (negb (drop y)); cbn; [intros H; rewrite IH by exact H; reflexivity|discriminate]. Qed.

Lemma filter_nothing_to_drop (drop : I_RR -> bool) l : existsb drop l = false -> filter (fun r => negb (drop r)) l = l.
Proof. induction l as [|y t IH]; cbn; [reflexivity|]. destruct (drop y); cbn; [discriminate|]. intros H. rewrite IH by exact H. reflexivity. Qed.

(* for EVERY predicate: filterOut = filter (not dropped), order kept *)
Lemma gen_filterOut rrs drop : go_filterOut rrs drop = filter (fun r => negb (drop r)) rrs.
Proof.
  unfold go_filterOut.
  pose proof (filterOut_loop1 rrs drop rrs [] (S (length rrs)) ltac:(lia)) as H1.
  cbn [app length] in H1. change (Z.of_nat 0) with 0%Z in H1. rewrite H1. clear H1.
  destruct (existsb drop rrs) eqn:EX.
  2:{ cbn. rewrite filter_nothing_to_drop by exact EX. reflexivity. }
  destruct (first_drop_split drop rrs EX) as [a [x [b [E [F [G K]]]]]].
  rewrite K. cbn [plus].
  replace (Z.of_nat (length a) =? -1)%Z with false by (symmetry; apply Z.eqb_neq; lia).
  assert (go_slice_to rrs (Z.of_nat (length a)) = a) as S1.
  { unfold go_slice_to. rewrite Nat2Z.id, E. rewrite firstn_app, Nat.sub_diag, firstn_all. cbn. apply app_nil_r. }
  assert (go_slice_from rrs (Z.of_nat (length a) + 1) = b) as S2.
  { unfold go_slice_from. replace (Z.to_nat (Z.of_nat (length a) + 1)) with (length a + 1)%nat by lia.
    rewrite E. rewrite skipn_app, skipn_all2 by lia. replace (length a + 1 - length a)%nat with 1%nat by lia. reflexivity. }
  rewrite S1, S2.
  assert (go_copy_at (go_make I_RR_nil (Z.of_nat (length a))) 0 a = a) as S3.
  { unfold go_copy_at, go_make. rewrite Nat2Z.id. cbn [Z.to_nat firstn]. rewrite repeat_length, Nat.sub_0_r, Nat.min_id.
    rewrite firstn_all. cbn [plus]. rewrite skipn_all2 by (rewrite repeat_length; lia). apply app_nil_r. }
  rewrite S3.
  pose proof (filterOut_loop2 rrs drop (Z.of_nat (length a)) b [] a (S (length b)) ltac:(lia)) as H2.
  cbn [app length] in H2. change (Z.of_nat 0) with 0%Z in H2. rewrite H2.
  rewrite E, filter_app. cbn [filter]. rewrite G. cbn [negb]. rewrite (filter_none_dropped drop a F). reflexivity.
Qed.

Lemma gen_isOPT r : go_isOPT r = match r with I_RR_of_OPT _ => true | _ => false end.
Proof. destruct r; reflexivity. Qed.

(* ClearOPT leaves a message without any OPT record (and touches nothing else): the reply to a client that
   sent no OPT carries none — the [] of reply_ecs_counts for noedns *)
Lemma gen_ClearOPT m :
  T_Msg_Extra (go_ClearOPT m) = filter (fun r => negb (go_isOPT r)) (T_Msg_Extra m) /\
  T_Msg_Answer (go_ClearOPT m) = T_Msg_Answer m /\ T_Msg_Ns (go_ClearOPT m) = T_Msg_Ns m /\
  T_Msg_Question (go_ClearOPT m) = T_Msg_Question m /\ T_Msg_MsgHdr (go_ClearOPT m) = T_Msg_MsgHdr m.
Proof. unfold go_ClearOPT. cbn. rewrite gen_filterOut. repeat split; reflexivity. Qed.

Lemma ClearOPT_no_opt m : count_opt (map abs_rr (T_Msg_Extra (go_ClearOPT m))) = 0%nat.
Proof.
  destruct (gen_ClearOPT m) as [E _]. rewrite E. clear E. unfold count_opt.
  induction (T_Msg_Extra m) as [|r l IH]; [reflexivity|].
  cbn [filter]. rewrite gen_isOPT. destruct r; cbn [negb]; try exact IH; cbn [map abs_rr filter is_opt]; exact IH.
Qed.

(* non-vacuity: two OPT records, the subnet option (opt-out form, family 0) in the FIRST one, a cookie
   (code 10) and an EDE around it *)
Example opts_example :
  let sub := I_EDNS0_of_EDNS0_SUBNET (mk_T_EDNS0_SUBNET 8 0 0 0 []) in
  let ede := I_EDNS0_of_EDNS0_EDE (mk_T_EDNS0_EDE 18 []) in
  let hdr := mk_T_RR_Header [] 41 1232 0 0 in
  let extra := [I_RR_of_OPT (mk_T_OPT hdr [I_EDNS0_other 10; sub; ede]); I_RR_other 1 hdr; I_RR_of_OPT (mk_T_OPT hdr [])] in
  go_hasClientECS (mk_T_Msg (mk_T_MsgHdr 0 false 0 false false true false false false false 0) false [] [] [] extra) = true /\
  go_stripECS [I_EDNS0_other 10; sub; ede; sub] = [I_EDNS0_other 10; ede] /\
  go_keepRelayable [I_EDNS0_other 10; sub; ede; sub] = [ede].
Proof. vm_compute. repeat split; reflexivity. Qed.
